#!/bin/bash
# Re-run every stored seeded change against the current /repo HEAD: apply, build, run the property's quick check.
# usage: tools/sweep_seeds.sh [ID-N ...]   -> /tmp/seed-sweep.log  (one line per seed)
export GOFLAGS=-mod=mod GOPROXY=off GOSUMDB=off GOTOOLCHAIN=local
cd /verif
out=/tmp/seed-sweep.log; : > $out
list="$@"; [ -z "$list" ] && list=$(ls seeded | sort)
for s in $list; do
  id=${s%%-*}
  W=/tmp/sweep-$s/repo; mkdir -p /tmp/sweep-$s
  git -C /repo worktree add -q --detach $W HEAD || { echo "$s worktree-failed" >> $out; continue; }
  if ! git -C $W apply /verif/seeded/$s/patch.diff 2>/dev/null; then
    echo "$s APPLY-FAILED at $(git -C /repo rev-parse --short HEAD)" >> $out
  elif ! (cd $W && go build ./... >/dev/null 2>&1); then
    echo "$s BUILD-FAILED" >> $out
  else
    VERIF_REPO=$W VERIF_WORKERS=8 ./check $id > /tmp/sweep-$s/check.log 2>&1; rc=$?
    echo "$s check_rc=$rc sigs=$(grep -c VIOLATION /tmp/sweep-$s/check.log)" >> $out
  fi
  git -C /repo worktree remove --force $W; rm -rf /tmp/sweep-$s
done
echo DONE >> $out

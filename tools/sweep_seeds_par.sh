#!/bin/bash
# Re-run every stored seeded change against the current /repo HEAD, P at a time: apply, build, run the quick check named in
# the seed's meta.json ("run": "... ./check CNN ..."; the seed's own property otherwise).
# usage: tools/sweep_seeds_par.sh [P] [ID-N ...]   -> /tmp/seed-sweep.log  (one line per seed)
export GOFLAGS=-mod=mod GOPROXY=off GOSUMDB=off GOTOOLCHAIN=local
cd /verif
P=${1:-4}; shift
out=/tmp/seed-sweep.log; : > $out
list="$@"; [ -z "$list" ] && list=$(ls seeded | sort)
one() {
  s=$1; out=/tmp/seed-sweep.log
  id=${s%%-*}
  chk=$(python3 -c "import json,re,sys;m=json.load(open('/verif/seeded/$s/meta.json'));r=re.search(r'./check (C\d\d)',m.get('run',''));print(r.group(1) if r else '$id')" 2>/dev/null || echo $id)
  W=/tmp/sweep-$s/repo; mkdir -p /tmp/sweep-$s
  git -C /repo worktree add -q --detach $W HEAD || { echo "$s worktree-failed" >> $out; return; }
  if ! git -C $W apply /verif/seeded/$s/patch.diff 2>/dev/null; then
    echo "$s APPLY-FAILED at $(git -C /repo rev-parse --short HEAD)" >> $out
  elif ! (cd $W && go build ./... >/dev/null 2>&1); then
    echo "$s BUILD-FAILED" >> $out
  else
    VERIF_REPO=$W VERIF_WORKERS=4 ./check $chk > /tmp/sweep-$s/check.log 2>&1; rc=$?
    echo "$s check=$chk check_rc=$rc sigs=$(grep -c VIOLATION /tmp/sweep-$s/check.log)" >> $out
  fi
  git -C /repo worktree remove --force $W; rm -rf /tmp/sweep-$s
}
export -f one
printf "%s\n" $list | xargs -P $P -I{} bash -c 'one {}'
echo DONE >> $out

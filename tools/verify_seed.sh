#!/bin/bash
# usage: verify_seed.sh <ID> <N> <pkgdir> <testfile> <runregex>   (seed files under /tmp/seed-<ID>/out/<N> or /verif/seeded/<ID>-<N>)
export GOFLAGS=-mod=mod GOPROXY=off GOSUMDB=off GOTOOLCHAIN=local
ID=$1; N=$2; PKG=$3; TF=$4; RX=$5; TAGS=${6:-}
O=/tmp/seed-$ID/out/$N; [ -d $O ] || O=/verif/seeded/$ID-$N
W=/tmp/seedwt-$ID-$N/repo; mkdir -p /tmp/seedwt-$ID-$N
git -C /repo worktree add -q --detach $W HEAD || exit 9
cd $W || exit 9
demo() { cp $O/demo/$TF $W/$PKG/ && (cd $W && go test -vet=off -count=1 ${TAGS:+-tags $TAGS} -run "$RX" ./$PKG/ >/tmp/seedwt-$ID-$N/demo.log 2>&1; echo $?) ; rm -f $W/$PKG/$TF; }
echo "== $ID/$N baseline demo rc: $(demo)"
git apply $O/patch.diff || { echo APPLY-FAILED; }
go build ./... || echo BUILD-FAILED
go test -vet=off -count=1 ./pkg/... > /tmp/seedwt-$ID-$N/suite.log 2>&1; echo "   suite rc: $?  (non-ok lines: $(grep -v '^ok\|no test files' /tmp/seedwt-$ID-$N/suite.log | wc -l))"
echo "   mutated demo rc: $(demo)"
cd /verif && VERIF_REPO=$W VERIF_WORKERS=8 ./check $ID > /tmp/seedwt-$ID-$N/check.log 2>&1; echo "   check rc: $?  sigs: $(grep -c VIOLATION /tmp/seedwt-$ID-$N/check.log)"; grep DETAIL /tmp/seedwt-$ID-$N/check.log | cut -c1-180 | head -3
git -C /repo worktree remove --force $W; rm -rf /tmp/seedwt-$ID-$N

#!/usr/bin/env python3
"""Shared engine for the lal TLA+ model-based verification framework.

Stages (DESIGN.md section 2):
  GEN      tlc()            exhaustive / simulation run of spec/<M>.tla, design-level invariants,
                            scenario emission through PrintT lines prefixed @E@ (edges) or @S@ (scenarios)
  EXEC     run_driver()     harness/cmd/lalexec drives the real lal code built from /repo (-tags verif)
  VALIDATE validate()       spec/Trace_<M>.tla consumes the recorded ndjson trace; all invariants on

Exit codes of a check: 0 held (possibly with KNOWN-FINDING lines), 1 VIOLATION, 2 infrastructure.
"""
import json, os, re, shutil, subprocess, sys, time, random, hashlib, glob

ROOT = os.path.dirname(os.path.dirname(os.path.abspath(__file__)))
SPEC = os.path.join(ROOT, "spec")
HARNESS = os.path.join(ROOT, "harness")
REPO = os.environ.get("VERIF_REPO", "/repo")
# evidence and replay files of a run against a scratch worktree (seeded change, reverted fix) never
# overwrite those of /repo itself
OUTROOT = ROOT if os.path.realpath(REPO) == "/repo" else os.path.join(ROOT, ".work", "alt-out")
NCPU = int(os.environ.get("VERIF_WORKERS", "0")) or os.cpu_count() or 4


class Infra(Exception):
    """Infrastructure failure: never a verdict (exit 2)."""


class Ctx:
    def __init__(self, pid, tier, seed, replay=None):
        self.pid = pid
        self.tier = tier
        self.seed = seed
        self.replay = replay
        self.t0 = time.time()
        self.work = os.path.join(ROOT, ".work", "%s-%s-%d" % (pid, tier, os.getpid()))
        shutil.rmtree(self.work, ignore_errors=True)
        os.makedirs(self.work)
        self.violations = []      # list of dict(sig, text, replay)
        self.known = []
        self.cov = {"samples": []}
        self.assumptions = []
        self.level = "model_checking"
        self.rng = random.Random(seed)
        self.bin = None

    @property
    def quick(self):
        return self.tier == "quick"

    def path(self, *p):
        return os.path.join(self.work, *p)

    def log(self, *a):
        print("[%s %6.1fs]" % (self.pid, time.time() - self.t0), *a, flush=True)

    def add(self, key, n):
        self.cov[key] = self.cov.get(key, 0) + n

    def sample(self, s, cap=6):
        if len(self.cov["samples"]) < cap:
            self.cov["samples"].append(s)


def goenv():
    e = dict(os.environ)
    e.update(GOFLAGS="-mod=mod", GOPROXY="off", GOSUMDB="off", GOTOOLCHAIN="local")
    return e


def build_harness(ctx, tags="verif"):
    """Rebuild lalexec from the repository's current working tree (REPO, default /repo) with hooks on."""
    out = ctx.path("lalexec")
    t = time.time()
    cmd = ["go", "build", "-tags", tags, "-o", out]
    if os.path.realpath(REPO) != "/repo":
        # scratch worktree: same module, replace directive pointed at it through an alternate go.mod
        h = hashlib.sha1(REPO.encode()).hexdigest()[:10]
        alt = os.path.join(HARNESS, ".alt-%s.mod" % h)
        with open(os.path.join(HARNESS, "go.mod")) as f:
            mod = f.read().replace("=> /repo", "=> " + os.path.realpath(REPO))
        with open(alt, "w") as f:
            f.write(mod)
        shutil.copyfile(os.path.join(REPO, "go.sum"), alt[:-4] + ".sum")
        cmd += ["-modfile", alt]
    else:
        shutil.copyfile(os.path.join(REPO, "go.sum"), os.path.join(HARNESS, "go.sum"))
    cmd.append("./cmd/lalexec")
    for attempt in range(4):
        p = subprocess.run(cmd, cwd=HARNESS, env=goenv(), capture_output=True, text=True)
        if p.returncode == 0:
            break
        if attempt < 3 and os.environ.get("VERIF_BUILD_RETRY", "1") == "1":
            time.sleep(15)   # another task may be in the middle of writing a driver file
            continue
        sys.stderr.write(p.stdout + p.stderr)
        raise Infra("harness build failed")
    ctx.bin = out
    ctx.log("built lalexec from %s in %.1fs" % (REPO, time.time() - t))
    return out


# --------------------------------------------------------------------------- TLC

_re_states = re.compile(r"(\d+) states generated, (\d+) distinct states found")


def tlc(ctx, module, cfg, name=None, workers=None, timeout=600, simulate=None, depth=None,
        env=None, coverage=False, extra=None, deadlock=True, tool_opts=None):
    """Run TLC on spec/<module>.tla with spec/<cfg>.  Returns dict with states/distinct/out/ok/...
    PrintT lines are kept in the out file; use emitted() to read them."""
    name = name or cfg.replace(".cfg", "")
    wd = ctx.path("tlc-" + name)
    shutil.rmtree(wd, ignore_errors=True)
    os.makedirs(wd)
    for f in glob.glob(os.path.join(SPEC, "*.tla")) + glob.glob(os.path.join(SPEC, "lib", "*.tla")):
        shutil.copy(f, wd)
    shutil.copy(os.path.join(SPEC, cfg), os.path.join(wd, cfg))
    cmd = ["tlc", "-workers", str(workers or NCPU), "-metadir", os.path.join(wd, "meta"),
           "-config", cfg]
    if not deadlock:
        cmd.append("-deadlock")
    if coverage:
        cmd += ["-coverage", "1"]
    if simulate:
        cmd += ["-simulate", simulate]
        if depth:
            cmd += ["-depth", str(depth)]
        cmd += ["-seed", str(ctx.seed)]
    cmd += (extra or [])
    cmd.append(module + ".tla")
    e = dict(os.environ)
    e.update(env or {})
    jto = "-Xss256m"
    if tool_opts:
        jto += " " + tool_opts
    e["JAVA_TOOL_OPTIONS"] = (e.get("JAVA_TOOL_OPTIONS", "") + " " + jto).strip()
    outp = os.path.join(wd, "out.txt")
    t = time.time()
    with open(outp, "w") as fo:
        try:
            p = subprocess.run(["timeout", str(timeout)] + cmd, cwd=wd, env=e, stdout=fo,
                               stderr=subprocess.STDOUT)
            rc = p.returncode
        except Exception as ex:
            raise Infra("tlc launch failed: %s" % ex)
    res = {"rc": rc, "out": outp, "wall": time.time() - t, "states": 0, "distinct": 0,
           "name": name, "errors": [], "inv": None}
    tail = []
    with open(outp, errors="replace") as f:
        for line in f:
            if line.startswith('"@'):
                continue
            m = _re_states.search(line)
            if m:
                res["states"], res["distinct"] = int(m.group(1)), int(m.group(2))
            if line.startswith("Error:"):
                res["errors"].append(line.strip())
                m2 = re.search(r"Invariant (\S+) is violated", line)
                if m2:
                    res["inv"] = m2.group(1)
                m2 = re.search(r"Action property (\S+) is violated", line)
                if m2:
                    res["inv"] = m2.group(1)
            tail.append(line)
            if len(tail) > 400:
                tail.pop(0)
    res["tail"] = "".join(tail)
    if rc == 124:
        if simulate:
            res["ok"] = not res["errors"]
            return res
        raise Infra("tlc timeout on %s/%s after %ss" % (module, cfg, timeout))
    # 0 ok; 12 = safety violation; 13 = liveness; 10/11 = assumption/deadlock
    res["ok"] = (rc == 0 and not res["errors"])
    if rc not in (0, 10, 11, 12, 13) and not res["errors"]:
        sys.stderr.write(res["tail"][-3000:])
        raise Infra("tlc failed rc=%d on %s/%s" % (rc, module, cfg))
    if res["errors"] and res["inv"] is None and rc not in (11, 12, 13):
        # evaluation errors, parse errors etc: infra unless caller wants otherwise
        res["evalerr"] = True
    return res


def emitted(res, prefix):
    """Yield python objects printed by the spec as PrintT("<prefix>" \\o ToJson(x))."""
    with open(res["out"], errors="replace") as f:
        for line in f:
            if line.startswith('"' + prefix):
                try:
                    s = json.loads(line)
                except Exception:
                    continue
                yield json.loads(s[len(prefix):])


def coverage_zero(res):
    """Return the list of spec expressions with zero coverage count (from -coverage 1 output)."""
    z = []
    with open(res["out"], errors="replace") as f:
        for line in f:
            m = re.match(r"^<(\w+) line (\d+), col \d+ to line \d+, col \d+ of module (\w+)>: (\d+):(\d+)", line)
            if m and m.group(5) == "0" and m.group(4) == "0":
                z.append("%s:%s@%s" % (m.group(3), m.group(1), m.group(2)))
    return z


def action_counts(res):
    """Per-action distinct/generated counts from a -coverage run."""
    c = {}
    with open(res["out"], errors="replace") as f:
        for line in f:
            m = re.match(r"^<(\w+) line (\d+), col \d+ to line \d+, col \d+ of module (\w+)>: (\d+):(\d+)", line)
            if m:
                c[m.group(1)] = (int(m.group(4)), int(m.group(5)))
    return c


def require_design_ok(ctx, res, what):
    """A design-level failure on the unchanged spec is an infrastructure problem of the model
    (the spec is ours), never a verdict on the code."""
    if not res["ok"]:
        sys.stderr.write(res["tail"][-4000:])
        raise Infra("design-level model check failed: %s (%s)" % (what, res["errors"][:2]))
    ctx.add("states", res["distinct"])
    ctx.add("transitions", res["states"])


# --------------------------------------------------------------------------- graph / scenarios

class Graph:
    """Labelled state graph rebuilt from @E@ edge lines {f, a, t, l}."""

    def __init__(self):
        self.ids = {}
        self.adj = {}        # u -> list of (act, v)
        self.inits = set()
        self.nedges = 0

    def nid(self, st):
        k = json.dumps(st, sort_keys=True, separators=(",", ":"))
        i = self.ids.get(k)
        if i is None:
            i = len(self.ids)
            self.ids[k] = i
            self.adj[i] = []
        return i

    def add(self, e):
        u, v = self.nid(e["f"]), self.nid(e["t"])
        a = e["a"]
        for (a2, v2) in self.adj[u]:
            if v2 == v and a2 == a:
                return
        self.adj[u].append((a, v))
        self.nedges += 1
        if e.get("l") == 1:
            self.inits.add(u)

    @staticmethod
    def load(res, prefix="@E@"):
        g = Graph()
        for e in emitted(res, prefix):
            g.add(e)
        return g

    def edge_cover(self, rng, max_len=40, max_paths=None):
        """Init-rooted paths covering every edge (greedy walk through uncovered edges)."""
        from collections import deque
        parent = {}
        dq = deque()
        for i in sorted(self.inits):
            parent[i] = None
            dq.append(i)
        while dq:
            u = dq.popleft()
            for k, (a, v) in enumerate(self.adj[u]):
                if v not in parent:
                    parent[v] = (u, k)
                    dq.append(v)

        def prefix(u):
            p = []
            while parent[u] is not None:
                pu, k = parent[u]
                p.append((pu, k))
                u = pu
            p.reverse()
            return p

        covered = set()
        paths = []
        order = [(u, k) for u in self.adj if u in parent for k in range(len(self.adj[u]))]
        rng.shuffle(order)
        for (u, k) in order:
            if (u, k) in covered:
                continue
            p = prefix(u) + [(u, k)]
            cur = self.adj[u][k][1]
            while len(p) < max_len:
                nxt = [kk for kk in range(len(self.adj[cur])) if (cur, kk) not in covered and (cur, kk) not in p]
                if not nxt:
                    break
                kk = nxt[rng.randrange(len(nxt))]
                p.append((cur, kk))
                cur = self.adj[cur][kk][1]
            for e in p:
                covered.add(e)
            paths.append([self.adj[a][b][0] for (a, b) in p])
            if max_paths and len(paths) >= max_paths:
                break
        return paths, len(covered)


# --------------------------------------------------------------------------- EXEC

def run_driver(ctx, driver, scen_path, trace_path, timeout=600, extra=None, env=None):
    """lalexec -driver D -in scenarios -out traces.  Non-zero exit = infra unless the driver is a
    crash-detecting one (those handle children themselves)."""
    cmd = [ctx.bin, "-driver", driver, "-in", scen_path, "-out", trace_path, "-seed", str(ctx.seed)]
    cmd += (extra or [])
    e = dict(os.environ)
    e.update(env or {})
    t = time.time()
    logp = trace_path + ".log"
    with open(logp, "w") as lf:
        try:
            p = subprocess.run(cmd, stdout=lf, stderr=subprocess.STDOUT, timeout=timeout, env=e, cwd=ctx.work)
        except subprocess.TimeoutExpired:
            raise Infra("driver %s timed out after %ss" % (driver, timeout))
    if p.returncode != 0:
        with open(logp, errors="replace") as f:
            sys.stderr.write(f.read()[-4000:])
        raise Infra("driver %s exited %d" % (driver, p.returncode))
    ctx.log("driver %s: %.1fs" % (driver, time.time() - t))


def write_ndjson(path, rows):
    with open(path, "w") as f:
        for r in rows:
            f.write(json.dumps(r, separators=(",", ":")) + "\n")


def read_ndjson(path):
    rows = []
    with open(path) as f:
        for line in f:
            line = line.strip()
            if line:
                rows.append(json.loads(line))
    return rows


# --------------------------------------------------------------------------- VALIDATE

def validate(ctx, module, cfg, trace_rows, name=None, timeout=1800, sc_key="sc", tool_opts=None,
             shards=None):
    """Validate concatenated traces (list of event dicts; each scenario starts with ev=reset) with
    TLC against spec/<module>.tla.  Trace specs follow the reject-and-continue pattern: a line the
    specification does not allow prints @REJ@<line>, marks the scenario failed and validation goes
    on with the next scenario, so one run reports every divergent scenario.  The whole trace must
    be consumed (@HW@ high-water mark = lines+1) or the run is an infrastructure failure.
    Returns list of rejections: dict(sc, line, event, trace)."""
    name = name or ("val-" + module)
    rows = list(trace_rows)
    if not rows:
        return []
    # split at scenario boundaries into shards validated by parallel TLC processes
    nsh = shards or (1 if len(rows) < 20000 else min(NCPU, 1 + len(rows) // 20000))
    starts = [i for i, r in enumerate(rows) if r.get("ev") == "reset"]
    if not starts or starts[0] != 0:
        raise Infra("trace does not start with reset")
    per = (len(starts) + nsh - 1) // nsh
    pieces = []
    for k in range(0, len(starts), per):
        lo = starts[k]
        hi = starts[k + per] if k + per < len(starts) else len(rows)
        pieces.append(rows[lo:hi])
    import concurrent.futures as cf

    def one(idx_piece):
        idx, piece = idx_piece
        tp = ctx.path("%s-s%d.ndjson" % (name, idx))
        write_ndjson(tp, piece)
        res = tlc(ctx, module, cfg, name="%s-s%d" % (name, idx), workers=1, timeout=timeout,
                  env={"TRACE": tp}, deadlock=False, tool_opts=tool_opts)
        hw = None
        rej = []
        with open(res["out"], errors="replace") as f:
            for line in f:
                m = re.search(r"@HW@(\d+)", line)
                if m:
                    hw = int(m.group(1))
                m = re.search(r"@REJ@(\d+)", line)
                if m:
                    rej.append(int(m.group(1)))
        if not res["ok"] or hw != len(piece) + 1:
            sys.stderr.write(res["tail"][-4000:])
            raise Infra("trace validation of %s did not consume the trace (hw=%s of %d, errors=%s)" %
                        (module, hw, len(piece), res["errors"][:2]))
        out = []
        for ln in sorted(set(rej)):
            i0 = ln - 1
            s0 = i0
            while s0 > 0 and piece[s0].get("ev") != "reset":
                s0 -= 1
            e0 = i0 + 1
            while e0 < len(piece) and piece[e0].get("ev") != "reset":
                e0 += 1
            out.append({"sc": piece[s0].get(sc_key), "line": i0 - s0, "event": piece[i0], "inv": None,
                        "trace": piece[s0:e0]})
        return out

    rejects = []
    with cf.ThreadPoolExecutor(max_workers=len(pieces)) as ex:
        for out in ex.map(one, list(enumerate(pieces))):
            rejects += out
    ctx.add("trace_events_validated", len(rows))
    return rejects


def validate_file(ctx, module, cfg, trace_path, name=None, timeout=1800, sc_key="sc", tool_opts=None, shards=None):
    """validate() for traces too big to hold as python objects: the trace file is cut into shards line by line (at the
    reset events, recognised textually), and only the scenarios around rejected lines are parsed."""
    name = name or ("val-" + module)
    is_reset = re.compile(r'"ev"\s*:\s*"reset"')
    nlines, starts = 0, []
    with open(trace_path) as f:
        for line in f:
            if not line.strip():
                continue
            if is_reset.search(line):
                starts.append(nlines)
            nlines += 1
    if nlines == 0:
        return []
    if not starts or starts[0] != 0:
        raise Infra("trace does not start with reset")
    nsh = shards or (1 if nlines < 20000 else min(NCPU, 1 + nlines // 20000))
    per = (len(starts) + nsh - 1) // nsh
    bounds = [starts[k] for k in range(0, len(starts), per)] + [nlines]
    paths, sizes = [], []
    with open(trace_path) as f:
        idx, out, n, k = -1, None, 0, 0
        for line in f:
            if not line.strip():
                continue
            if idx + 1 < len(bounds) - 1 and n == bounds[idx + 1]:
                if out:
                    out.close()
                    sizes.append(k)
                idx += 1
                paths.append(ctx.path("%s-s%d.ndjson" % (name, idx)))
                out, k = open(paths[-1], "w"), 0
            out.write(line if line.endswith("\n") else line + "\n")
            n += 1
            k += 1
        if out:
            out.close()
            sizes.append(k)
    import concurrent.futures as cf

    def one(idx):
        tp, size = paths[idx], sizes[idx]
        res = tlc(ctx, module, cfg, name="%s-s%d" % (name, idx), workers=1, timeout=timeout,
                  env={"TRACE": tp}, deadlock=False, tool_opts=tool_opts)
        hw, rej = None, []
        with open(res["out"], errors="replace") as f:
            for line in f:
                m = re.search(r"@HW@(\d+)", line)
                if m:
                    hw = int(m.group(1))
                m = re.search(r"@REJ@(\d+)", line)
                if m:
                    rej.append(int(m.group(1)))
        if not res["ok"] or hw != size + 1:
            sys.stderr.write(res["tail"][-4000:])
            raise Infra("trace validation of %s did not consume the trace (hw=%s of %d, errors=%s)" %
                        (module, hw, size, res["errors"][:2]))
        if not rej:
            return []
        want = sorted(set(rej))
        out, cur, cur0, i = [], [], 0, 0      # cur: raw lines of the scenario being read, starting at line cur0
        pending = []
        with open(tp) as f:
            for i, line in enumerate(f):
                if is_reset.search(line):
                    for ln in pending:
                        rows = [json.loads(x) for x in cur]
                        out.append({"sc": rows[0].get(sc_key), "line": ln - 1 - cur0, "event": rows[ln - 1 - cur0],
                                    "inv": None, "trace": rows})
                    pending, cur, cur0 = [], [], i
                cur.append(line)
                if want and want[0] == i + 1:
                    pending.append(want.pop(0))
        for ln in pending:
            rows = [json.loads(x) for x in cur]
            out.append({"sc": rows[0].get(sc_key), "line": ln - 1 - cur0, "event": rows[ln - 1 - cur0], "inv": None, "trace": rows})
        return out

    rejects = []
    with cf.ThreadPoolExecutor(max_workers=len(paths)) as ex:
        for out in ex.map(one, range(len(paths))):
            rejects += out
    ctx.add("trace_events_validated", nlines)
    return rejects


def _last_l_in_error_trace(res):
    l = None
    with open(res["out"], errors="replace") as f:
        for line in f:
            m = re.match(r"^/\\ l = (\d+)", line.strip())
            if m:
                l = int(m.group(1))
    return l


# --------------------------------------------------------------------------- findings / verdict

def load_known(pid):
    ks = []
    p = os.path.join(ROOT, "KNOWN_FINDINGS.txt")
    if os.path.exists(p):
        for line in open(p):
            line = line.strip()
            m = re.match(r"^finding: property=(\S+) sig=(\S+) (.*)$", line)
            if m and m.group(1) == pid:
                ks.append((m.group(2), m.group(3)))
    return ks


def report(ctx, sig, text, replay_obj):
    """Register a divergence.  Known findings are matched by exact signature."""
    for (ksig, ktext) in load_known(ctx.pid):
        if ksig == sig:
            if sig not in [k[0] for k in ctx.known]:
                ctx.known.append((sig, ktext))
            return
    if any(v["sig"] == sig for v in ctx.violations):
        return
    os.makedirs(os.path.join(OUTROOT, "replay"), exist_ok=True)
    h = hashlib.sha1(sig.encode()).hexdigest()[:8]
    rp = os.path.join(OUTROOT, "replay", "%s-%s.json" % (ctx.pid, h))
    with open(rp, "w") as f:
        json.dump({"property": ctx.pid, "sig": sig, "text": text, "seed": ctx.seed, "tier": ctx.tier,
                   "case": replay_obj}, f, indent=1, default=str)
    ctx.violations.append({"sig": sig, "text": text, "replay": rp})


def finish(ctx):
    cov = ctx.cov
    cov.setdefault("states", 0)
    cov.setdefault("transitions", 0)
    cov.setdefault("traces_validated_against_impl", 0)
    if not cov["samples"]:
        cov["samples"] = ["(none)"]
    ev = {"property_id": ctx.pid, "tier": ctx.tier, "seed": ctx.seed, "level": ctx.level,
          "coverage": cov, "assumptions": ctx.assumptions, "wall_s": round(time.time() - ctx.t0, 2),
          "violations": len(ctx.violations)}
    os.makedirs(os.path.join(OUTROOT, "evidence"), exist_ok=True)
    with open(os.path.join(OUTROOT, "evidence", ctx.pid + ".json"), "w") as f:
        json.dump(ev, f, indent=1, default=str)
    for (sig, text) in ctx.known:
        print("KNOWN-FINDING: property=%s sig=%s %s" % (ctx.pid, sig, text))
    for v in ctx.violations:
        print("DETAIL property=%s sig=%s %s" % (ctx.pid, v["sig"], v["text"]))
        print("VIOLATION property=%s replay=%s" % (ctx.pid, v["replay"]))
    if not os.environ.get("VERIF_KEEP"):
        shutil.rmtree(ctx.work, ignore_errors=True)
    return 1 if ctx.violations else 0

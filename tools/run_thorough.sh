#!/bin/bash
cd /verif
for id in "$@"; do
  s=$(date +%s)
  VERIF_WORKERS=8 timeout 5400 ./check $id --tier thorough > /tmp/thorough-$id.log 2>&1
  rc=$?
  echo "$id rc=$rc $(( $(date +%s) - s ))s" >> /tmp/thorough-summary.log
done

#!/bin/bash
# like run_thorough.sh, with the peak resident memory of the largest process of each run
cd /verif
for id in "$@"; do
  s=$(date +%s)
  VERIF_WORKERS=8 timeout 5400 /usr/bin/time -v -o /tmp/thorough-$id.time ./check $id --tier thorough > /tmp/thorough-$id.log 2>&1
  rc=$?
  mem=$(grep "Maximum resident" /tmp/thorough-$id.time | awk '{print int($NF/1024)}')
  echo "$id rc=$rc $(( $(date +%s) - s ))s maxrss=${mem}MB" >> /tmp/thorough-summary.log
done

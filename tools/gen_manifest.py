#!/usr/bin/env python3
"""Regenerates MANIFEST.json from the table below (single source of truth for the interface)."""
import json, os, subprocess
ROOT = os.path.dirname(os.path.dirname(os.path.abspath(__file__)))

CHECKS = {
    "C01": dict(
        technique="TLA+ spec Fanout (Group fan-out of one stream: GOP caches with cap, merge writer, fresh / wait-key flags, FLV "
                  "record; TLC exhaustive + simulation) + replay of every edge / simulated behaviour into a real logic.Group "
                  "with RTMP, HTTP-FLV, WebSocket-FLV consumers on in-memory connections and relay-push targets on loopback TCP + TLC "
                  "trace validation",
        text="TLC checks Contiguous / MetaForm / no-duplicate / record-complete invariants over every interleaving of publisher "
             "arrival and departure, publishes of every message type and size class, joins and leaves for gop_num 0 / 1 / 2, "
             "GOP caps, merge-writer budgets and recording; behaviours are replayed into a real Group, the bytes each "
             "consumer received are projected by independent chunk / FLV readers to message ids (position-coded "
             "payloads) and the delivered sequence after every step is decided by TLC.",
        note="One stream, up to three consumers; RTMP, HTTP-FLV, WS-FLV consumers, relay-push targets (gated stub targets on "
             "loopback TCP running a real rtmp.ServerSession; metadata must carry @setDataFrame) and the FLV record (the TS / "
             "RTSP / HLS outputs are decided by C06 / C10). Quick replays every edge of the smallest configurations and "
             "simulated behaviours of the others.",
        ref="6/C01"),
    "C02": dict(
        technique="TLA+ specs Fanout (join prologue: metadata, sequence headers in force, cached GOPs, wait-for-key gating, "
                  "re-publish epochs), RemuxOut (late HTTP-TS consumer; RTSP subscriber with DESCRIBE and PLAY at any two "
                  "instants: reference model of lal's analyse stage, description and key gate + acceptor) and Republish; TLC "
                  "exhaustive + simulation + model-level mutants + replay into a real logic.Group + TLC trace validation",
        text="TLC checks HeadersFirst, HeaderInForce, KeyFirst, GopReplay and NoWaitWithoutVideo over every join instant "
             "relative to the publish sequence, audio-only / video-only / late-header streams and re-publish histories for "
             "RTMP / HTTP-FLV / WS-FLV consumers; for HTTP-TS consumers PAT/PMT first, parameter sets in force and start at a "
             "boundary (late joiner t2, joiners of a later publisher epoch, cached TS GOP); for RTSP subscribers SdpCur (the "
             "description carries the video sequence header in force when DESCRIBE is answered), KeyFirst and "
             "RtspStartsInTime (next key frame after PLAY; next audio frame when described without video); behaviours are "
             "replayed into a real Group and what each consumer has received after every step is decided by TLC.",
        note="The HTTP-TS / RTSP parts reuse the machinery of C06 / C16 (tools/props/c06.py with c02=True, republish_common). "
             "Not decided: an AAC config change after lal's analyse stage in the SDP, tracks that first appear after the "
             "analyse stage, UDP transport, HLS players joining late (C10 decides the playlist / segment side).",
        ref="6/C02"),
    "C08": dict(
        technique="TLA+ spec RtmpChunk (reference writer x spec reader, TLC exhaustive) + edge-cover replay into "
                  "lal ChunkComposer + TLC trace validation of lal message2Chunks output",
        text="TLC checks RoundTrip on every interleaving/format choice of the reference writer (pools at production "
             "constants and a scaled whole-range model); every edge of that state graph is replayed into lal's reader "
             "and every submitted message through lal's writer, and TLC validates the recorded traces against the "
             "same reader specification.",
        note="Trusted: the structural chunk splitter/encoder in harness/proj/rtmpchunk.go; payload lengths and "
             "timestamps are boundary pools, not all 2^24 x 2^32 values.",
        ref="6/C08"),
    "C09": dict(
        technique="TLA+ spec TsPack (acceptor FrameOK/PsiOK + reference packetiser, TLC exhaustive over the frame "
                  "space) + TLC trace validation of records parsed from lal Frame.Pack/PackPat/PackPmt output",
        text="TLC enumerates the frame space (every length 1..400/1200 x key x pts/dts x pid x incoming cc) and checks the "
             "reference packetiser against the acceptor; every enumerated frame (plus follow-up frames on the same PID "
             "and big lengths around 184-byte multiples) is packed by lal, parsed by an independent TS reader and the "
             "records are decided by the same acceptor in TLC, including CRC-32/MPEG-2 recomputed in TLA+.",
        note="Trusted: the independent TS/PES/PSI reader harness/proj/ts.go; lal's constant 63000-tick PTS delay is a "
             "spec constant. The continuity counters live in Rtmp2MpegtsRemuxer between two Pack calls: the RemuxOut "
             "scenarios (spec/RemuxOut.tla, every codec combination, simulated + directed) are replayed through a real Group "
             "as well and their TS layer (continuity per PID, lengths, headers, stray bytes) judged at HTTP-TS consumers "
             "and in HLS segments; rejections of that part that are not at the TS layer are left to C06. A later publisher of "
             "the name on the surviving Group (spec/Republish.tla; late joiners fed from the TS GOP cache with gop_num 0 / 1 / 2) "
             "is replayed too, its rejections at HTTP-TS consumers and in HLS segments reported here, the others left to C02 / C16.",
        ref="6/C09"),
    "C11": dict(
        technique="TLA+ spec FlvWs (session write-unit machine + tag/WebSocket field functions) + edge-cover replay "
                  "into httpflv.SubSession / FlvFileWriter / PackHttpflvTag / MakeWsFrameHeader + TLC trace validation",
        text="TLC enumerates session shapes (plain HTTP-FLV, WebSocket-FLV, file) x tag type x length x timestamp pools; "
             "every edge is executed against the real sub-session / file writer / pack functions, the bytes are cut by an "
             "independent FLV and RFC 6455 reader and TLC decides header fields, stream grammar, one-frame-per-unit and "
             "lal's own read-back against the specification.",
        note="Trusted: independent FLV/WebSocket reader harness/proj/flv.go; lengths/timestamps are boundary pools. Every "
             "HTTP-FLV / WebSocket session of the cover runs twice: with synchronous writes and through lal's asynchronous "
             "write queue with a peer that reads only after everything is queued; every second file session finds an older, "
             "longer recording at its path. Recordings with a tag of 256 KiB .. 1 MiB between small ones are written as well, and "
             "a share of the recordings is read back through lal's own HTTP-FLV client (httpflv.PullSession) from a loopback HTTP "
             "server - a plain 200 response, and a 302 with a body first.",
        ref="6/C11"),
    "C18": dict(
        technique="TLA+ spec Amf0 (token-level encoder + lal's decoder as a depth-bounded machine; TLC enumerates value "
                  "trees x cut points) + replay into lal's typed readers/writers/metadata helpers + TLC trace validation",
        text="TLC enumerates value trees (all kinds, malformed counts/end markers, nesting to depth 3 in thorough) x every "
             "cut point around token boundaries and checks RoundTrip on the model; each case is decoded by lal and the "
             "(ok, consumed, value) triple is decided by TLC against the machine; lal-written values are tokenised and "
             "compared with the spec encoder; deep nesting (to 5.5 M levels) runs in a child process under a 64 MiB stack.",
        note="Trusted: independent AMF0 encoder/tokenizer harness/proj/amf.go; arbitrary bytes are covered as "
             "well-typed token sequences with truncation, count/marker faults, not as every byte string. Numbers are a pool of "
             "ten values compared bit for bit (negative zero, +Inf, a NaN with a payload and the smallest subnormal among them).",
        ref="6/C18"),
    "C19": dict(
        technique="TLA+ spec Codec (SPS syntax trees with the standard's size formulas, carrier / framing / AAC graphs, "
                  "SDP codec pairs; TLC exhaustive) + execution of every enumerated case against lal's conversion and "
                  "parse functions + TLC trace validation",
        text="TLC enumerates H.264 / basic H.265 SPS syntax trees and computes the picture size in TLA+, enumerates paths "
             "through the parameter-set carrier graph, the NAL framing graph and the AAC graph and codec pairs for SDP, and "
             "checks the design invariants (size formula, length-field invertibility, byte-level Annex-B/AVCC round trip); "
             "every case is executed against lal and the outputs, projected by independent writers/readers, are decided "
             "by TLC (Trace_Codec).",
        note="Exhaustive over finite pools (quick ~16k scenarios, thorough ~170k), not over all byte strings; SPS fields "
             "that do not affect the size are fixed by the trusted bit writer; H.265 oracle is the coded luma size.",
        ref="6/C19"),
    "C13": dict(
        technique="explicit TLA+ protocol machines per surface (spec/Surfaces.tla: RTP/RTCP on an RTSP publish session, "
                  "GB28181 PS over RTP and RTP sequencing, UDP transport, RTSP requests, SDP fields, WebSocket frames, HTTP requests, lal as RTMP / RTSP / HTTP-FLV client; TLC enumeration of classed element "
                  "sequences) + execution of each sequence against the real lal objects in child processes + TLC trace "
                  "validation (spec/Trace_Surfaces.tla)",
        text="TLC enumerates every order of core protocol elements to depth 2-4 followed by any pooled element (each field at "
             "a finite pool of extremes, truncation at every offset of the fixed headers) and checks that the model's "
             "expectation is total and never admits a crash; the sequences are executed against a real ServerManager / "
             "rtsp.ServerCommandSession / gb28181.PsUnpacker in child processes; a process death, a recovered panic, an "
             "unserved second session or a disturbed bystander publisher is an event no behaviour of the spec allows.",
        note="Decided over protocol-structured classes, not every byte value: per surface every sequence core* . element to "
             "depth 2-7; every field at a finite pool of extremes; truncation at every offset of RTP headers, SRs, PS "
             "elements, WebSocket headers, HTTP status blocks, FLV headers and tags. Surfaces: RTP/RTCP of interleaved RTSP "
             "publishers (with or without a key-frame-waiting subscriber, SDP clock-rate classes); UDP-transport publishers "
             "with real loopback datagrams (tracks set up x payload type x SR SSRC); GB28181 PS elements and RTP sequencing "
             "including fill-to-limit of the reorder list; RTSP commands and interleaved frames; SDP records; RTSP over "
             "WebSocket frames; HTTP-API / HTTP-FLV / HTTP-TS / HLS requests on real net/http listeners (a recovered handler "
             "panic counts as a violation); lal's RTMP pull/push, RTSP pull and HTTP-FLV pull clients against a scripted "
             "loopback upstream. Quick always executes single elements and one-field SDP deviations; udp and psq run "
             "exhaustively; the other surfaces are sampled by seed up to a cap. RTSP server sessions run on in-memory "
             "connections, PS packets enter at PsUnpacker.FeedRtpPacket; surface pst drives GB28181 over TCP through the real "
             "PubSession started by start_rtp_pub (is_tcp_flag=1) on a loopback connection: frame lengths exact / 0 / 1 / "
             "11 / beyond the data / 65535, split and joined writes, a second connection replacing the first (handover in "
             "the middle of a large frame), connect-close storms, kick / second start / liveness timeout with and without a "
             "connection. Not decided: TLS, relay pull through the API end to end, CPU spins. RTMP chunk / AMF / FLV input surfaces are covered "
             "by C08 / C18 / C04 / C05.",
        ref="6/C13"),
    "C20": dict(
        technique="explicit TLA+ spec Locks (the server's goroutine classes as processes over its mutexes, the capacity-1 exit "
                  "channels and the task pool; TLC exhaustive: deadlock, wait cycles, blocked sends, lock order, completion "
                  "under fairness) + static conformance (lock graph, sends / closes under a mutex, unprotected accesses and "
                  "leaked mutexes extracted from the current source by harness/cmd/lockgraph and decided by TLC against "
                  "the declarations of the specification, spec/Trace_Locks.tla) + watchdog stress runs of a real "
                  "ServerManager whose outcome Trace_Locks decides",
        text="TLC explores every interleaving of the modelled goroutine classes (session goroutines, API handlers, tick loop, "
             "ServerManager.Dispose, relay goroutines, RTSP in-session reader, HLS handler and cleanup task) in groups of 3-4 "
             "processes over a pool of 2 group objects; the lock graph and channel operations of the current source tree are "
             "extracted on every run and each fact is accepted or rejected by TLC; a real ServerManager is driven by "
             "concurrent publishers, subscribers, API calls, ticks and a final Dispose in a child process with a watchdog on "
             "every call, and died / hung is decided by the trace spec.",
        note="NOT decided: the data-race clause of C20 - data-race freedom of arbitrary memory accesses is outside what a "
             "TLA+ specification observes; the Go race detector runs only as an auxiliary observer in the thorough tier and "
             "is never alarmed on. Lock-order extraction is type-level (Group.mutex is one class); calls through stored "
             "function values and the mutexes of the naza dependency are not extracted; the static 'Unguarded' facts "
             "cover only functions whose callers are all known. Standard-library functions that call their function argument "
             "synchronously (sync.Once.Do, sync.Map.Range, sort.Slice ...) are followed; the one-shot sends on the capacity-1 "
             "waitChan of the rtsp sessions are declared once-channels (one send site, inside sync.Once).",
        ref="6/C20"),
    "C12": dict(
        technique="TLA+ spec Rtp (packer acceptor, reorder network, lal's RtpPacketList / RtpUnpackContainer / TryUnpackOne; "
                  "TLC exhaustive on a scaled model) + re-concretised cases run through lal's packer and unpack container, "
                  "cross-bound to an independent RFC 6184/7798/3640 codec + TLC trace validation",
        text="TLC checks PackerOK (payload limit, marker, seq step, timestamp, in-order reassembly), Lossless / order "
             "insensitivity inside the window and window tightness on a scaled exhaustive model (seq mod 32, capacity 5); "
             "a seeded sample of the enumerated cases plus size / NAL-header / AAC sweeps is executed against lal and "
             "every Pack / Feed event is decided by TLC at sequence modulus 65536.",
        note="Exhaustive only for the scaled model; implementation coverage is a seeded sample plus fixed sweeps; the "
             "receiver syncs on the first packet it sees (assumption); STAP-A/AP and multi-AU AAC packets are not "
             "generated (lal's packer never emits them).",
        ref="6/C12"),
    "C14": dict(
        technique="TLA+ decision tables and state machines Auth (simple-auth admission table, RTSP Basic/Digest challenge "
                  "machine over several connections, kick, black-list expiry, request-path spelling and lexical path "
                  "normalisation; TLC exhaustive) + every case executed against a real logic.ServerManager + TLC trace validation",
        text="TLC enumerates flag sets x protocol-directions x secret forms; RTSP challenge / credential sequences over two "
             "connections with six nonce classes; HLS and HTTP-FLV/TS request-path spellings x flag configuration x secret "
             "x black-listed address; kick per session kind including HLS sessions, with a peer; black-list timelines "
             "(IPv4 / IPv6, two entries, five URL forms); request paths and stream names as token sequences. Eleven design "
             "invariants are checked. Every case runs against a real ServerManager, and the projected observations "
             "(media / SDP / playlist returned, stat listing, files served / created) are decided by TLC.",
        note="Secrets, stream names, nonce classes and path spellings are finite representatives. RTSP connections: two live "
             "plus one closed. HLS spellings are crossed component-wise; quick covers at most two deviating components, "
             "thorough covers all. Sessions enter at the objects the listeners hand connections to (no TCP/TLS listener; "
             "the HLS mux is a real http.ServeMux). Black-list and HLS-session kick use the real clock. A Digest response "
             "to this connection's superseded own challenge, the instant k = duration of the black-list, and URL forms the "
             "property does not fix (duplicate parameters, escaped or re-cased paths when admitted) are left open. HLS "
             "sub-session mode is exercised only by kick.",
        ref="6/C14"),
    "C03": dict(
        technique="TLA+ spec Lifecycle (ServerManager / Group session bookkeeping, one action per critical section; TLC "
                  "exhaustive + simulation) + replay into a real logic.ServerManager + TLC trace validation",
        text="TLC checks AtMostOneInput, PipelineOwned, NotifyPaired and EmptyRemoved over every interleaving of RTMP / "
             "RTSP / customize / GB28181 inputs, subscribers, kicks, probes of stale inputs and ticks; edge-cover paths "
             "and simulated behaviours are replayed into a real ServerManager through its observer callbacks and API "
             "methods, and return codes, notifications, stream-hook callbacks, forwarding and the stat listing after "
             "every step are decided by TLC.",
        note="Sessions are real lal session objects on in-memory connections handed to the real callbacks (accept loops "
             "are not part of the scenario; RTSP publishers run through rtsp.Server's own per-connection routine); "
             "subscribers are RTMP, HTTP-FLV, HTTP-TS and HLS sessions (HLS: sub-session mode through the HLS entry point, opened by "
             "the first playlist request, kept alive by requests with the session id, ended by the handler's own once-per-second "
             "sweep after a real 400 ms timeout or a kick; the clients that keep asking are background requests of the driver, "
             "and a scenario in which one came late is dropped as inconclusive; RTSP players only as DESCRIBE - one that hangs up "
             "again (S3) or one that stays, answered at once or parked, whose description is projected from the s= line of "
             "the SDP it received (D0 / D1 / D2 next to a relay pull from an RTSP origin; six of these scenarios are paths of "
             "the model written down by hand)); "
             "notifications are observed at the NotifyHandler interface and, in configurations L4 / P5, as the JSON posts "
             "of lal's own HttpNotify worker at a stub web hook; Tick runs through the verif hook VerifTick (a copy of the "
             "loop body); relay pull / push interleavings are covered by C17 (pull configurations P3 / P4 / P5 and the RTSP-origin twin R3 "
             "also here).",
        ref="6/C03"),
    "C07": dict(
        technique="TLA+ spec Ingest (property Conforms + design Machine; TLC exhaustive over streams x packings x arrival "
                  "orders) + replay of the enumerated cases into the real customize-pub / RTSP pub / GB28181 PS ingest "
                  "chains + TLC trace validation of what an HTTP-FLV subscriber received",
        text="TLC checks DesignConforms (SameUnits, SeqHeaderFromParamSets, KeyMarked, TimeAffine without drift; reorder "
             "invariance) over enumerated elementary streams x packetisation / PS packing x clock rates x arrival orders "
             "in a window of 3; every stream is executed against the real ingest chains (customize pub, RTSP ANNOUNCE / "
             "SETUP / RECORD with interleaved RTP, PsUnpacker) plus long-run drift, size and cut-offset cases, and the "
             "FLV subscriber's output is decided by TLC against Conforms.",
        note="<= 2-3 real video frames per enumerated stream (120 / 600 / 2000 frames in generated runs); one perturbation per "
             "run; source clocks are 48-bit and reduced to the wire width (RTP 2^32, PES PTS/DTS 2^33, AvPacket int64 "
             "unreduced); timestamp regions near 0 / across 2^31 / across 2^32 / above 2^32 / across 2^33 / Unix-epoch ms for "
             "every (video, audio) pair; wrap rule: per track the output is the clock in ms up to one constant mod 2^32 "
             "either as the clock runs on or as the wire field itself (its own jump of -2^32 / -2^33 ticks at the wrap, "
             "nothing else); at most one wrap per run; PTS - DTS constant per track (no B-frames); RTSP binding is "
             "interleaved TCP only; the PS binding bypasses the gb28181.PubSession socket loop.",
        ref="6/C07"),
    "C15": dict(
        technique="TLA+ spec Backpressure (bounded queue of multi-part elements / write in flight / wire; fine-grained model + "
                  "call-level model with a second stream; TLC exhaustive incl. liveness, simulation) + replay into a real "
                  "logic.Group / ServerManager with sub sessions on gated in-memory connections + TLC trace validation",
        text="TLC checks NoBlocking, QueueBound, WholeUnits on every interleaving of the fan-out loop with the writer "
             "goroutines for queue sizes 1..3 and EventuallyClosed under fairness of timers only; a negative "
             "configuration (header and payload as two elements) must violate WholeUnits; schedules (stall / resume / "
             "read-one / deadline / sweep / publisher leave and return / publish on a second stream / stat anywhere) are "
             "replayed for RTMP, RTMP behind the merge writer (Writev), HTTP-FLV, WS-FLV, HTTP-TS, WS-TS, RTSP interleaved "
             "and RTSP over WebSocket against real sessions, and TLC decides the part in flight, deliveries, closure, "
             "non-blocking of every call into lal (incl. the other stream's publisher, ticks and stat calls), the 100 ms "
             "latency bound and the final framing of each consumer's byte stream.",
        note="Trusted: independent readers in harness/proj plus the $-frame reader in drv/stall.go; the gated net.Conn with a "
             "virtual write deadline, which tells queue elements apart by naza's per-element SetWriteDeadline call; goroutine "
             "quiescence and blocked calls read from runtime.Stack; verif hooks VerifStartPlay (RTMP, no handshake) and "
             "VerifSetServerCommandSessionWriteChanSize (RTSP; the subscriber is put into the post-PLAY state through the "
             "exported session API). Before most calls the writer of a stalled idle consumer is kept busy with a null unit "
             "written through the session's own write path (the slow-writer branch of the enqueue / writer race); the other "
             "branches are covered by the exhaustive fine-grained model only (2-9 % of scenarios are cut short there). RTSP "
             "liveness is accounted at enqueue and has no write deadline: disconnection is by the sweep. Quick takes its "
             "schedules from TLC simulation of the call-level model, thorough from its exhaustive edge cover. Latency is "
             "wall-clock; a slow scenario is re-run up to 3 times and reported only if it reproduces. RTMP and RTSP consumers run their real read "
             "loops: a consumer with data queued sends requests (RTMP ping / createStream, RTSP OPTIONS with CSeq of 1 / 2 / "
             "5 digits) and each reply is one whole unit that must arrive as it was enqueued (identity = the echoed "
             "value; ReplyAltered / ReplySplit / ReplyLost). Real-loopback-TCP consumers (one healthy, three stalled with "
             "16 KB receive buffers; fill, sweep, publish, kick) decide the cost of closing a socket under the group lock "
             "(every call within 1 s). Not covered: RTSP over UDP, a media frame landing between the two parts of a reply "
             "(needs two racing producers), TCP variants of the HTTP-FLV / HTTP-TS consumers.",
        ref="6/C15"),
    "C17": dict(
        technique="TLA+ spec Lifecycle (relay pull module: enable / in-flight / attached / retry budget / auto-stop clock; relay "
                  "push module: per-target idle / connecting / attached; TLC exhaustive + simulation) + replay into a real "
                  "ServerManager with a gated stub origin and gated stub push targets + TLC trace validation",
        text="TLC checks the pull and push invariants over every interleaving of subscriber arrivals, API start / stop / kick, "
             "origin outcomes (accept, refuse, end), publisher arrivals, ticks, elapsed auto-stop windows and push-target "
             "outcomes (accept, refuse, end) for retry budgets 0 / 1 / forever and auto-stop never / immediately / after a "
             "window; behaviours are replayed into a real ServerManager whose pulls connect to a gated origin (RTMP: a real "
             "rtmp.ServerSession; RTSP, pull over TCP: a wire-level stub answering OPTIONS / DESCRIBE / SETUP x2 / PLAY) and whose "
             "pushes connect to gated targets (real rtmp.ServerSession on TCP), and API return codes, notifications, the "
             "connection attempts origin and targets saw, the attached push sessions, the length of the URL parameters "
             "that reach the target (300 / 1000 / 70000 bytes) and the stat listing after every step are decided by TLC.",
        note="In three of four scenarios the API steps are JSON requests to lal's own HTTP-API server on loopback (explicit 0 / -1 "
             "values; optional fields left out in a third of them where the model's value is the documented default), in the rest "
             "direct ServerManager calls. In every second scenario a failing attempt fails after the handshake instead of before it. "
             "The auto-stop window is real time (700 ms; stalled scenarios are dropped as inconclusive - a step that took long because "
             "an attempt the model expects never came is a deviation, not a stall); a subscriber that comes and goes between two "
             "ticks counts as present (directed scenarios P6 / R6). kick_session is driven with the attached pull session's id and "
             "with a stale pull id (KickStale). Push scenarios run in "
             "child processes so that a panic in a goroutine lal owns is an observation (event Died). Push towards RTSP "
             "targets does not exist in lal; the push write timeout is not driven. An RTSP pull is attached by lal when the "
             "description arrives; the rest of its set-up (SETUP, PLAY) is part of the same model step (nothing is interleaved "
             "between DESCRIBE and PLAY), RTSP pull over UDP is not driven, and static relay pull (RTMP only) is not driven. "
             "An HLS session counts as the consumer auto-stop depends on (configuration H2).",
        ref="6/C17"),
    "C16": dict(
        technique="TLA+ specs Lifecycle (pipeline ownership, hook stop, shutdown, group removal, idle sweep), Fanout (caches / "
                  "codec information / merge buffer across publisher epochs) and Republish (EXTENDS RemuxOut: republish epochs "
                  "on one surviving Group, fresh-stream acceptor per epoch for HTTP-TS / HLS / RTSP outputs); TLC exhaustive + "
                  "simulation (+ model-level mutant and witness), replayed into a real ServerManager with every output enabled "
                  "and into a real Group + TLC trace validation",
        text="TLC checks PipelineOwned / EmptyRemoved / NotifyPaired / IdleDisconnected and CleanStart / RecordExact / "
             "EpochComplete on the models; behaviours with inputs of every kind ending by disconnect, kick, idle sweep or "
             "server shutdown are replayed into a ServerManager with HLS, HTTP-TS, FLV and TS recording and a stream hook "
             "enabled: after every step TLC decides the set of live pipeline components (none may survive the input, all are "
             "rebuilt for the next), that recordings parse completely and the HLS playlist carries the end marker, that the "
             "hook is stopped exactly once per input, that an attached session which moved no byte between two idle checks "
             "is disconnected by the second one (wire publishers = lal's RTMP client on loopback served by rtmp.Server's own "
             "routine) and that goroutine / descriptor counts do not grow over 40-200 publish cycles; re-publish scenarios "
             "decide that nothing of a predecessor reaches RTMP / HTTP-FLV consumers (Fanout) and that every epoch is a fresh "
             "stream for HTTP-TS subscribers (staying, gap-joining, mid-epoch), HLS segments and RTSP session descriptions.",
        note="Relay-push teardown with the publisher (pn = 0 after the input leaves, no orphaned session after the next publisher) "
             "is replayed here for the configurations U1 / U2 and decided in full in C17. 'Pending audio flushed' "
             "is observed through the finalised TS record / HLS files only (C06 / C10 inspect their content). The idle sweep "
             "is modelled without relay pull / push sessions and GB28181 inputs (their own timeout); RTSP publishers of the sweep "
             "configuration S3 are set up completely (SETUP interleaved, RECORD), their media-side bytes are RTCP sender "
             "reports, OPTIONS keep-alives are a model action that does not count as sending, and an RTSP player's DESCRIBE "
             "is answered at once iff a described input is attached. KeyCuts / "
             "JoinStartsInTime of Republish apply only to epochs without AAC; RTSP subscribers staying across a republish "
             "and non-RTMP predecessors / successors are not covered. Short epochs that end inside the probe stage are included; "
             "an RTSP subscriber staying across a republish is decided only for 'no predecessor content' (AcceptStay), the rest "
             "of its fate is unspecified by the properties.",
        ref="6/C16"),
    "C06": dict(
        technique="TLA+ acceptor RemuxOut (SameUnits, OnlyAllowedExtras, parameter sets in force, TsTime mod 2^33, Adts, RtpTime, "
                  "completeness) + TLA+ reference model of Rtmp2MpegtsRemuxer and the HTTP-TS fan-out checked exhaustively "
                  "against it + TLC-simulated behaviours per codec combination replayed through a real logic.Group + TLC "
                  "trace validation of the demultiplexed output",
        text="TLC checks the reference remuxer (probe queue, parameter-set cache, AUD insertion, AAC batching, boundary rule, "
             "per-track time base) against the acceptor for every bounded message sequence; simulated behaviours over 14 video "
             "kinds x audio codecs x timestamp increments, with boundary NAL / audio sizes, are published through a real Group "
             "and what HTTP-TS subscribers (GOP cache 0-2), the HLS segments and RTSP/RTP consumers carry, demultiplexed by "
             "independent TS/PES/PSI, Annex-B, ADTS, RTP and SDP readers, is decided by TLC with the acceptor.",
        note="Exhaustive only for the reference model at <= 6 messages (5 BFS runs + 3 model-level mutants + 2 witnesses in "
             "quick; 13 / 5 in thorough); the code is sampled (~320 quick / ~10.9k thorough scenarios + directed sweeps: NAL "
             "sizes, RTSP join shapes, streams shorter than lal's probe stage, PES-clock top-bit edges at 2^30 / 2^31 / 2^32 / "
             "the 2^33 wrap); StartsInTime is evaluated at the end of the stream without a probe-stage excuse; late HTTP-TS "
             "and RTSP joiners are part of the model; RTSP over UDP is not exercised; no media decoder is run.",
        ref="6/C06"),
    "C10": dict(
        technique="TLA+ model Hls of hls.Muxer with the file system as a state variable, one spec step per file-system "
                  "operation; TLC checks 8 invariants in every state (= every crash point); enumerated and simulated input "
                  "histories replayed into a real hls.Muxer on a recording file-system layer + per-operation TLC trace validation; "
                  "TLA+ model HlsCleanup of the ServerManager layer (Group identity, tick, re-publish, delayed directory cleanup) "
                  "replayed into a real logic.ServerManager with real timers + TLC trace validation",
        text="TLC checks PlaylistWellFormed, SeqMonotone, TargetCovers, ListedExist, ListedWhole, RecentStillPresent, "
             "NoLossNoDup, Finalised in every intermediate file-system state for bounded frame sequences over all fragment_num x "
             "delete_threshold x cleanup_mode, fragment durations, audio-only and A/V, and one re-publish; the same histories "
             "are fed to a real muxer and every recorded file-system operation (with parsed playlist / segment content) must "
             "be the one the model queued and leave all invariants true.",
        note="File operations are atomic at the granularity of create/write/close/rename/remove; timestamps are whole "
             "milliseconds. The cleanup part (spec/HlsCleanup.tla: LiveSpared, Listed, Cleaned, NeverCleaned; a design mutant "
             "whose timer remembers the Group of arming time must violate LiveSpared) replays the edge cover of its state graph, "
             "simulated and directed behaviours with real 900 ms timers; a publisher arriving between the timer's decision and "
             "the removal is driven through a verif hook gate (directed scenarios only); a scenario that misses a real-time "
             "bound is re-run and never judged (exit 2 if late twice). Every cleanup scenario runs next to a neighbour stream "
             "of the same server that is live throughout and must stay intact (variable nbr); cleanup_mode 0 is replayed with "
             "HLS switched on by hls.enable_https alone as well.",
        ref="6/C10"),
    "C04": dict(
        technique="TLA+ spec RtmpSession (protocol machine of rtmp.ServerSession seen from the peer; per (state, message) the set "
                  "of allowed observations) + TLC enumeration of the state graph, of all message orders to a depth and of all "
                  "type ids + replay of independently encoded bytes into real ServerSessions (stub observer and full "
                  "ServerManager, 3 fragmentations, child processes, second connection) + TLC trace validation",
        text="TLC checks that every state x message has an outcome within {served, closed}, that closed is final and a role is "
             "taken once; every edge of the state graph over the ~160-message alphabet (handshake variants, control / command "
             "/ data / media / aggregate shapes, chunk-header faults, chunk sizes 0..2^32-1), every order of the "
             "state-sensitive messages to depth 4 (quick) / 6 (thorough) and every type id x payload x role is executed "
             "against lal; TLC decides open/closed per step, process survival, session termination and that a second "
             "publisher is still served.",
        note="Bytes are exhaustive per field pool and structural shape, not per bit; once peer and server lose chunk alignment "
             "the model is permissive (only no-crash / no-hang / second connection are demanded); a panic of the session "
             "goroutine is recovered by the driver and recorded as a death (lal has no recover there).",
        ref="6/C04", level="model_checking"),
    "C05": dict(
        technique="TLA+ spec Payloads (grammar of 432 publisher payload classes x 7 timestamp classes composed with a history "
                  "machine of what the stream has seen; TLC explores every reachable history) + replay of every edge through "
                  "Group.OnReadRtmpAvMsg of a real ServerManager with every output enabled, in child processes with a per-call "
                  "watchdog and an idle second stream + TLC trace validation",
        text="TLC checks that the predicted outcome of every (history, payload class, timestamp class) is total and never a "
             "crash or stall; init-rooted paths covering the edges are replayed against a real ServerManager with RTMP, "
             "HTTP-FLV, HTTP-TS, HLS, RTSP, FLV and TS recording, a stream hook and (second configuration) dummy audio and GOP "
             "caches, with consumers joining where the path says; TLC decides per step that the process did not die, the call "
             "did not stall, the other stream was served, nothing was altered, fan-out stayed bounded and (predictive "
             "configuration) exactly the predicted consumers received the message.",
        note="Decided over payload classes, not every byte value; 'time bounded by size' is a 400 ms + 1 us/byte watchdog that "
             "must reproduce twice plus a fan-out bound. The stages lal ends by count (rtmp2MpegtsFilter: 16 messages, "
             "Rtmp2RtspRemuxer: 16 cached messages, the dummy-audio filter) are part of the history machine: staging macros "
             "that the driver expands (optional first message + 14 / 15 / 16 copies of a letter that identifies nothing / "
             "audio only / video only / one of two kinds; under dummy audio also 7 / 8 copies and 1 ms bursts), a second "
             "consumer set joining before, in the middle of or after the stage (RTMP, HTTP-FLV, HTTP-TS before PAT/PMT "
             "exists, RTSP at PLAY and RTSP parked at DESCRIBE), then every letter from each of the 153 staged histories. "
             "Quick: 4000 of the base covering paths + core letters from every staged history + 6000 sampled staged edges; "
             "thorough: every edge (three covers of the base graph). Not covered: more than one state-changing letter after "
             "a staged history, counters on the single-letter histories, the remuxers' own counters behind the dummy-audio "
             "filter, staging in the partial-output configurations, not all 2^9 output combinations.",
        ref="6/C05", level="model_checking"),
}

NOT_APPLICABLE = {}

ALL = ["C%02d" % i for i in range(1, 21)]


def main():
    hooks = subprocess.run(["git", "-C", "/repo", "log", "--format=%h %s"], capture_output=True, text=True).stdout
    hook_commits = [l.split()[0] for l in hooks.splitlines() if l.split(" ", 1)[1].startswith("verif hook")]
    m = {
        "version": 1,
        "setup_cmd": "cd /verif/harness && cp /repo/go.sum . && GOFLAGS=-mod=mod GOPROXY=off GOSUMDB=off GOTOOLCHAIN=local go build -tags verif -o /dev/null ./cmd/lalexec",
        "hooks": {
            "guard": "verif",
            "enable": "go build -tags verif (harness module /verif/harness with replace github.com/q191201771/lal => /repo)",
            "baseline_off_cmd": "cd /repo && GOFLAGS=-mod=mod GOPROXY=off GOSUMDB=off GOTOOLCHAIN=local go test -json -vet=off -count=1 -timeout 25m ./...",
            "source_commits": hook_commits,
            "add_only": True,
        },
        "engines": [{"name": "lal-tla", "path": "/verif/check",
                     "serves_properties": sorted(CHECKS),
                     "kind_free_text": "TLA+ specifications checked by TLC (GEN), scenarios replayed into the real Go code "
                                       "(EXEC, harness/cmd/lalexec), recorded traces validated by TLC against the same "
                                       "specifications (VALIDATE)"}],
        "checks": [],
        "not_applicable": [],
        "notes": "See DESIGN.md.  ./check <ID> --tier quick|thorough; exit 0 held, 1 VIOLATION, 2 infrastructure.",
    }
    for pid in sorted(CHECKS):
        c = CHECKS[pid]
        m["checks"].append({
            "property_id": pid,
            "quick_cmd": "./check %s --tier quick" % pid,
            "thorough_cmd": "./check %s --tier thorough" % pid,
            "evidence_file": "/verif/evidence/%s.json" % pid,
            "replay_cmd_template": "./check %s --replay {path}" % pid,
            "engine": "lal-tla",
            "level_claimed": {"category": c.get("level", "model_checking"), "text": c["text"],
                              "design_ref": "DESIGN.md section " + c["ref"]},
            "level_note": c["note"],
            "technique": c["technique"],
        })
    for pid in ALL:
        if pid not in CHECKS:
            m["not_applicable"].append({"property_id": pid, "reason": NOT_APPLICABLE.get(
                pid, "not yet covered: the TLA+ specification and conformance driver for this property are not built yet "
                     "(see DESIGN.md section 10 build order)")})
    with open(os.path.join(ROOT, "MANIFEST.json"), "w") as f:
        json.dump(m, f, indent=1)


if __name__ == "__main__":
    main()

#!/bin/bash
cd /verif
out=/tmp/quick-summary-$1.log; rm -f $out
for id in C01 C02 C03 C04 C05 C06 C07 C08 C09 C10 C11 C12 C13 C14 C15 C16 C17 C18 C19 C20; do
  s=$(date +%s)
  VERIF_SEED=$1 timeout 1800 ./check $id > /tmp/quick-$id-$1.log 2>&1
  rc=$?
  echo "$id rc=$rc $(( $(date +%s) - s ))s" >> $out
done

"""C16, start-clean clause on the MPEG-TS / HLS / RTSP side: republish epochs on one surviving logic.Group
(spec/Republish.tla, MC_Republish.tla, Trace_Republish.tla; driver remuxout with PubLeave / PubArrive steps)."""
import os, re, json
import concurrent.futures as cf
import engine as E
from props.fanout_common import behaviours
from props.c06 import NAL_SIZES, AAC_SIZES, RAW_SIZES, T0_POOL

AV, AO, VO = ("avc", "aac"), ("none", "aac"), ("avc", "none")
# epoch plans: (video codec, audio codec) of successive publishers of one name
PLANS_QUICK = [
    [AV, AO],                                   # A/V then audio only
    [AV, VO],                                   # A/V then video only
    [AO, AV],                                   # audio only then A/V
    [AV, AV],                                   # same tracks, other parameter-set / ASC versions
    [AV, ("hevc", "aac")],                      # codec swap
    [("hevc", "opus"), AV, AO],                 # three publishers
]
BFS_QUICK = [[AV, AO], [AV, VO], [AO, AV]]
COMBOS_T = [AV, ("hevc", "aac"), ("avc", "opus"), VO, ("hevc", "none"), AO, ("none", "opus"), ("avc", "g711a")]
PLANS_THOROUGH = [[a, b] for a in COMBOS_T for b in COMBOS_T] + [
    [AV, AO, AV], [AV, VO, AV], [AO, AV, AO], [VO, AO, VO], [("hevc", "aac"), AV, ("hevc", "opus")],
    [AV, ("hevc", "none"), AO], [("avc", "opus"), AO, VO], [AV, AV, AV]]
BFS_THOROUGH = [[AV, AO], [AV, VO], [AO, AV], [AV, AV], [AV, ("hevc", "aac")], [VO, AO], [("hevc", "opus"), AV], [AO, VO]]


def plan_name(plan):
    return "_".join(v + a for v, a in plan)


def write_cfg(plan, mode, max_pub, kinds, dts, t0s, max_pub1=None, min_pub=2, max_ver=2, gop=1, probe=16, keep=False,
              inv="AllOk EpochComplete CleanBetween", tag=""):
    p = list(plan) + [("none", "none")] * (3 - len(plan))
    lines = ["SPECIFICATION Spec", "CONSTANTS", "  NEp = %d" % len(plan)]
    for i, (v, a) in enumerate(p):
        lines += ['  E%dV = "%s"' % (i + 1, v), '  E%dA = "%s"' % (i + 1, a)]
    lines += ["  MaxPub = %d" % max_pub, "  MaxPub1 = %d" % (max_pub1 or max_pub), "  MinPub = %d" % min_pub, "  MaxVer = %d" % max_ver, '  KindSel = "%s"' % kinds,
              "  DtPool <- %s" % dts, "  AscPool = {1, 2, 3}", "  T0Pool <- %s" % t0s,
              "  KeepHdr = %s" % ("TRUE" if keep else "FALSE"), "  ProbeMax = %d" % probe, "  GopNum = %d" % gop,
              "INVARIANTS " + inv]
    lines.append("VIEW View" if mode != "sim" else "ACTION_CONSTRAINT EmitA")
    name = "MC_Republish_gen_%s_%s%s.cfg" % (plan_name(plan), mode, tag)
    with open(os.path.join(E.SPEC, name), "w") as f:
        f.write("\n".join(lines) + "\n")
    return name


def hdr_msg(k, ver):
    return {"k": k, "ver": ver, "key": False, "cts": 0, "n": 0, "nals": [], "name": k}


def vid_msg(key, name="pad"):
    return {"k": "v", "ver": 0, "key": key, "cts": 0, "n": 0, "name": name, "nals": [{"t": "idr" if key else "slice", "v": 0, "n": 0}]}


def aud_msg(name="pad"):
    return {"k": "a", "ver": 0, "key": False, "cts": 0, "n": 0, "nals": [], "name": name}


def finish_epoch(rng, v, a, msgs, vers, force_pad):
    """Completes the messages of one epoch: sequence headers the behaviour did not reach, and plain frames so that a
    single-track stream leaves lal's probe / analysis stages (16 messages) and has key frames after any join point."""
    out = list(msgs)
    have_vsh = any(m["k"] == "vsh" for m in out)
    have_ash = any(m["k"] == "ash" for m in out)
    if v != "none" and not have_vsh:
        vers[0] += 1
        out.append(hdr_msg("vsh", vers[0]))
    if a == "aac" and not have_ash:
        out.append(hdr_msg("ash", 1 + (vers[1] % 3)))
        vers[1] += 1
    nframes = sum(1 for m in out if m["k"] in ("v", "a"))
    pad = 0
    if force_pad == "short" and (v == "none" or a == "none") and nframes >= 2:
        pad = 0        # the epoch ends while lal is still probing the stream: it has to come out when the publisher leaves
    elif nframes < 17 and (v == "none" or a == "none" or force_pad):
        pad = 18 - nframes
    elif v != "none" and not any(m["k"] == "v" and m["key"] for m in out):
        pad = 4
    for i in range(pad):
        if v != "none" and (a == "none" or i % 2 == 0):
            out.append(vid_msg(i % 6 == 0))
        else:
            out.append(aud_msg())
    return out


def renumber(steps):
    """Parameter-set versions grow over the whole scenario (a later publisher never reuses a version of an earlier one):
    per epoch the distinct versions, in increasing order, are mapped to base+1, base+2, ..."""
    base, i = 0, 0
    while i < len(steps):
        j = i
        while j < len(steps) and steps[j]["name"] != "PubLeave":
            j += 1
        ms = [s["m"] for s in steps[i:j] if s["name"] == "Pub"]
        vs = sorted(set([m["ver"] for m in ms if m["k"] == "vsh"] + [u["v"] for m in ms for u in m["nals"] if u["t"] in ("sps", "pps", "vps")]))
        mp = {v: base + k + 1 for k, v in enumerate(vs)}
        for m in ms:
            if m["k"] == "vsh":
                m["ver"] = mp[m["ver"]]
            for u in m["nals"]:
                if u["t"] in ("sps", "pps", "vps"):
                    u["v"] = mp[u["v"]]
        base += len(vs)
        i = j + 1
    return steps


def concretise(ctx, plan, acts, sc_id, big_budget):
    """TLC behaviour (abstract message kinds, timestamp increments, PubLeave / PubArrive, join points) -> driver
    scenario: every epoch completed and padded, sizes from the boundary pools, an absolute 32-bit start timestamp per
    publisher, one RTSP subscriber per epoch joining at a random point of the epoch or of the gap before it."""
    rng = ctx.rng
    epochs = [{"msgs": [], "joins": {}, "gapjoin": False}]   # joins: index into msgs -> consumer
    live = True
    for x in acts:
        n = x["name"]
        e = epochs[-1]
        if n == "Pub" and live:
            m = x["m"]
            e["msgs"].append({"k": m["k"], "ver": m["ver"], "key": m["key"], "cts": m["cts"], "n": 0, "name": m["name"],
                              "nals": [{"t": u["t"], "v": u["v"], "n": 0} for u in m["nals"]], "dt": x["dt"]})
        elif n == "Join":
            if live:
                e["joins"][len(e["msgs"])] = x["c"]
            else:
                e["gapjoin_after"] = x["c"]
        elif n == "PubLeave":
            live = False
        elif n == "PubArrive":
            epochs.append({"msgs": [], "joins": {}, "gapjoin": False})
            live = True
    while len(epochs) < len(plan):      # the behaviour was cut by the depth bound: the remaining publishers still come
        epochs.append({"msgs": [], "joins": {}, "gapjoin": False})
    vers = [0, 0]
    for e in epochs:
        for m in e["msgs"]:
            vers[0] = max([vers[0], m["ver"] if m["k"] == "vsh" else 0] + [u["v"] for u in m["nals"]])
    steps = [{"name": "Join", "c": "t1"}]
    t2_in = any(x["name"] == "Join" for x in acts)
    for i, e in enumerate(epochs):
        v, a = plan[i]
        x = rng.random()
        msgs = finish_epoch(rng, v, a, e["msgs"], vers, "short" if x < 0.15 else x < 0.4)
        if i > 0:
            gap = []
            if epochs[i - 1].get("gapjoin_after"):
                gap.append({"name": "Join", "c": epochs[i - 1]["gapjoin_after"]})
            rtsp_in_gap = rng.random() < 0.35
            if rtsp_in_gap:
                gap.insert(rng.randrange(len(gap) + 1), {"name": "JoinRtsp"})
            steps += gap
            steps.append({"name": "PubArrive", "v": v, "a": a, "enh": v == "hevc" and rng.random() < 0.4})
        else:
            rtsp_in_gap = False
        body = []
        for j, m in enumerate(msgs):
            if j in e["joins"]:
                body.append({"name": "Join", "c": e["joins"][j]})
            body.append({"name": "Pub", "m": m, "dt": m.pop("dt", 23)})
        if len(msgs) in e["joins"]:
            body.append({"name": "Join", "c": e["joins"][len(msgs)]})
        if not t2_in and i == len(epochs) - 1:
            # a consumer that joins in the last epoch, somewhere in its first half
            body.insert(rng.randrange(0, max(1, len(body) // 2)), {"name": "Join", "c": "t2"})
            t2_in = True
        if not rtsp_in_gap:
            body.insert(rng.randrange(0, len(body) + 1), {"name": "JoinRtsp"})
        if i == 0 and len(plan) > 1:
            # a second RTSP subscriber that joins under the first publisher and stays attached across the republish
            k = rng.randrange(0, len(body) + 1)
            body.insert(k, {"name": "DescR"})
            body.insert(rng.randrange(k + 1, len(body) + 1), {"name": "PlayR"})
        # sizes and timestamps of this publisher
        pubs = [s for s in body if s["name"] == "Pub"]
        for s in pubs:
            m = s["m"]
            if m["k"] == "a":
                m["n"] = rng.choice(AAC_SIZES if a == "aac" else RAW_SIZES)
            for u in m["nals"]:
                if u["t"] in ("idr", "slice", "sei"):
                    n = rng.choice(NAL_SIZES)
                    if n > 2000:
                        if big_budget[0] <= 0 or m["name"] == "pad":
                            n = rng.choice(NAL_SIZES[:9])
                        else:
                            big_budget[0] -= 1
                    u["n"] = n
        span = sum(s["dt"] for s in pubs)
        t0 = rng.choice(T0_POOL)
        if t0 + span > 0xffffffff:
            t0 = 0xffffffff - span
        t = t0
        for s in pubs:
            t += s["dt"]
            s["ts"] = t
        steps += body
        steps.append({"name": "PubLeave"})
    v0, a0 = plan[0]
    cfg = {"v": v0, "a": a0, "gop": rng.choice([0, 1, 2]), "hls": True, "fragMs": rng.choice([100, 3000]), "rtsp": True,
           "enh": v0 == "hevc" and rng.random() < 0.4, "rep": True}
    return {"sc": sc_id, "cfg": cfg, "plan": plan_name(plan), "steps": renumber(steps)}


def directed(ctx, sc0):
    """One fixed scenario per mandatory plan: the second HTTP-TS consumer and the RTSP subscriber join between the two
    publishers (so they are attached when the later one starts) or in the middle of the later one, key frames follow
    every join.  Both kinds of join happen with a TS GOP cache of one and of two GOPs: the earlier publisher leaves one
    (three) cached GOPs behind, which a late joiner of the later publisher must not be handed."""
    out = []
    # (the eighth: a codec swap with no TS GOP cache, the second HTTP-TS consumer joins the EARLIER publisher after its last key
    #  frame - it has been given PAT / PMT and is still waiting for a key frame when the publisher leaves; it must be given the
    #  tables of the later publisher before that one's first key frame)
    for pi, plan in enumerate(PLANS_QUICK[:5] + [[VO, AO], [AO, VO], [AV, ("hevc", "aac")]]):
        steps = [{"name": "Join", "c": "t1"}]
        ver = 0
        for i, (v, a) in enumerate(plan):
            if i > 0:
                if i == 1 and pi % 2 == 0:
                    steps.append({"name": "Join", "c": "t2"})
                if pi % 2 == 0:
                    steps.append({"name": "JoinRtsp"})
                steps.append({"name": "PubArrive", "v": v, "a": a, "enh": False})
            t = [5000, 900, 77000][i % 3]
            msgs = []
            if v != "none":
                ver += 1
                msgs.append(hdr_msg("vsh", ver))
            if a == "aac":
                msgs.append(hdr_msg("ash", 1 + (i + pi) % 3))
            for j in range(9 if (pi >= 5 and (v == "none" or a == "none")) else 20):   # the last two plans: a short single-track epoch
                if v != "none" and (a == "none" or j % 2 == 0):
                    msgs.append(vid_msg(j % 8 == 0, "dir"))
                else:
                    msgs.append(aud_msg("dir"))
            body = []
            for j, m in enumerate(msgs):
                if m["k"] == "a":
                    m["n"] = 100 + j
                for u in m["nals"]:
                    u["n"] = 200 + j
                if m["k"] in ("v", "a"):
                    t += 40
                body.append({"name": "Pub", "m": m, "ts": t})
            if i == 0 or pi % 2 == 1:
                body.insert(3 + pi % 4, {"name": "JoinRtsp"})
            if i == 0:
                body.insert(5, {"name": "DescR"})        # stays attached across the republish
                if pi != 3:
                    body.insert(7 + pi % 3, {"name": "PlayR"})
            if i == 1 and pi == 3:
                # (the fourth plan, same tracks twice: described by the earlier publisher, PLAY in the middle of a GOP of the later one)
                body.insert(13, {"name": "PlayR"})
            if pi == 7 and i == 0:
                body.insert(len(body) - 2, {"name": "Join", "c": "t2"})
            if i == 1 and pi % 2 == 1 and pi != 7:
                body.insert(18, {"name": "Join", "c": "t2"})     # late in the later epoch (past lal's probe stage), a key frame to come
            steps += body
            steps.append({"name": "PubLeave"})
        v0, a0 = plan[0]
        out.append({"sc": sc0 + len(out), "plan": plan_name(plan), "steps": steps,
                    "cfg": {"v": v0, "a": a0, "gop": [1, 1, 2, 2, 1, 0, 2, 0][pi], "hls": True, "fragMs": 100, "rtsp": True,
                            "enh": False, "rep": True}})
    return out


def dedupe_short(sc):
    """Units too short to carry their id have the same bytes whenever codec, type and length agree: each such
    combination is used once per scenario (over all epochs) so that what a demuxer recovers identifies the unit."""
    v = sc["cfg"]["v"]
    used = set()
    for st in sc["steps"]:
        if st["name"] == "PubArrive":
            v = st["v"]
        m = st.get("m")
        if not m:
            continue
        hdr = 2 if v == "hevc" else 1
        if m["k"] == "a" and m["n"] <= 1:
            if ("a", m["n"]) in used:
                m["n"] = 6
            used.add(("a", m["n"]))
        for u in m["nals"]:
            if u["t"] in ("idr", "slice", "sei"):
                eff = max(u["n"], hdr)
                while eff <= hdr + 1 and (v, u["t"], eff) in used:
                    eff += 1
                if eff <= hdr + 1:
                    used.add((v, u["t"], eff))
                if eff != max(u["n"], hdr):
                    u["n"] = eff
    return sc


def why_lines(ctx, prefix):
    out = {}
    for d in os.listdir(ctx.work):
        p = os.path.join(ctx.work, d, "out.txt")
        m2 = re.match(r"^tlc-" + re.escape(prefix) + r"-s(\d+)$", d)
        if m2 and os.path.exists(p):
            with open(p, errors="replace") as f:
                for line in f:
                    m = re.search(r'@WHY@(\d+)@(.*?)"?$', line.strip())
                    if m:
                        out[(int(m2.group(1)), int(m.group(1)))] = m.group(2).replace('\\"', '').replace('"', '')
    return out


def run_republish(ctx, only=None):
    """only: predicate on the failing consumer classes of a rejection ('ts', 'hls', 'rg', ...); rejections it refuses are
    left to the properties that own them"""
    E.build_harness(ctx)
    if ctx.quick:
        plans = PLANS_QUICK
        bfs_runs = [([AV, AO], 1), ([AV, VO], 0), ([AO, AV], 1)]
        bfs_args = dict(max_pub=4, kinds="min", dts="Dt1", t0s="T0One", max_ver=1, probe=3)
        nsim, depth, maxpub = 10, 22, 7
    else:
        plans = PLANS_THOROUGH
        bfs_runs = [([AV, AO], 0), ([AV, AO], 1), ([AV, VO], 0), ([AV, VO], 1), ([AO, AV], 1), ([AV, AV], 0),
                    ([AV, ("hevc", "aac")], 1), ([VO, AO], 0), ([("hevc", "opus"), AV], 0), ([AO, VO], 1)]
        bfs_args = dict(max_pub=5, max_pub1=3, kinds="core", dts="Dt1", t0s="T0One", max_ver=2, probe=3)
        nsim, depth, maxpub = 26, 26, 8
    par = max(2, E.NCPU // 2)
    made = []

    # design level.  (plan, httpts.gop_num): with a GOP cache a joining consumer starts from the cache, without it waits
    # for a boundary.  "mut": the model-level mutant (sequence headers survive the input) must violate EpochComplete;
    # "wit": a behaviour in which all three consumers of the last epoch are handed frames must exist.
    jobs = [("bfs", p, g) for p, g in bfs_runs] + [("mut", [AV, AO], 1), ("mut", [AV, VO], 0), ("wit", [AV, VO], 0)]

    def do_design(job):
        kind, plan, gop = job
        if kind == "bfs":
            cfg = write_cfg(plan, "bfs", gop=gop, tag="_g%d" % gop, **bfs_args)
        elif kind == "mut":
            cfg = write_cfg(plan, "bfs", keep=True, gop=gop, inv="AllOk EpochComplete", tag="_mut", **bfs_args)
        else:
            cfg = write_cfg(plan, "bfs", gop=gop, inv="Witness", tag="_wit", **bfs_args)
        made.append(cfg)
        return job, E.tlc(ctx, "MC_Republish", cfg, timeout=3000, deadlock=False, workers=max(2, E.NCPU // 3))

    def do_sim(plan):
        cfg = write_cfg(plan, "sim", maxpub, "all", "Dt5", "T0Two", max_ver=3, gop=len(plan_name(plan)) % 2)
        made.append(cfg)
        return plan, E.tlc(ctx, "MC_Republish", cfg, name="repsim-" + plan_name(plan), workers=1, timeout=900, deadlock=False,
                           simulate="num=%d" % nsim, depth=depth)

    with cf.ThreadPoolExecutor(max_workers=3) as ex:
        for (kind, plan, gop), res in ex.map(do_design, jobs):
            if kind == "bfs":
                E.require_design_ok(ctx, res, "MC_Republish %s" % plan_name(plan))
                ctx.log("design republish %s gop=%d: %d distinct states, reference model satisfies the fresh-stream acceptor in "
                        "every epoch (AllOk, EpochComplete, CleanBetween)" % (plan_name(plan), gop, res["distinct"]))
            elif kind == "mut" and res.get("inv") != "EpochComplete":
                raise E.Infra("design check is insensitive: the model with surviving sequence headers passes (%s)" % plan_name(plan))
            elif kind == "wit" and res.get("inv") != "Witness":
                raise E.Infra("design check is vacuous: no behaviour reaches the witness state")
    ctx.log("design republish: mutant model (headers survive) violates EpochComplete; witness behaviour exists")

    scen = []
    big_budget = [6 if ctx.quick else 300]
    with cf.ThreadPoolExecutor(max_workers=par) as ex:
        sims = list(ex.map(do_sim, plans))
    nb = 0
    for plan, res in sims:
        if res["errors"]:
            raise E.Infra("simulation found a model error in %s: %s" % (plan_name(plan), res["errors"][:2]))
        seen = set()
        for b in behaviours(res):
            key = json.dumps(b, sort_keys=True)
            if key in seen or not any(x["name"] == "Pub" for x in b):
                continue
            seen.add(key)
            scen.append(concretise(ctx, plan, b, len(scen), big_budget))
        nb += len(seen)
    ctx.log("simulate republish: %d plans, %d distinct behaviours" % (len(plans), nb))
    if not ctx.quick:
        for c in made:      # the thorough tier writes ~90 configuration files: only those of the quick tier stay in spec/
            try:
                os.remove(os.path.join(E.SPEC, c))
            except OSError:
                pass
    scen += directed(ctx, len(scen))
    scen = [dedupe_short(s) for s in scen]
    sp, tp = ctx.path("rep-scen.ndjson"), ctx.path("rep-trace.ndjson")
    E.write_ndjson(sp, scen)
    E.run_driver(ctx, "remuxout", sp, tp, timeout=2400)
    rows = E.read_ndjson(tp)
    evs = [r for r in rows if r.get("ev") in ("Pub", "PubLeave")]
    nts = sum(len(o["frames"]) for r in evs for o in r["out"].values())
    nhls = sum(len(r["hls"]["frames"]) for r in rows if r.get("ev") == "PubLeave")
    nrg = sum(len(r["rtp"]["rg"]["frames"]) + len(r["rtp"].get("rh", {}).get("frames", [])) for r in evs)
    nsdp = sum(len(r["rtp"]["rg"]["sdp"]) for r in evs)
    nep = sum(1 for r in rows if r.get("ev") == "PubLeave")
    ctx.log("driver: %d republish scenarios, %d epochs, %d events; %d TS frames at HTTP-TS consumers, %d in HLS segments, "
            "%d RTP frames and %d session descriptions at RTSP subscribers" % (len(scen), nep, len(rows), nts, nhls, nrg, nsdp))
    ctx.cov["traces_validated_against_impl"] = ctx.cov.get("traces_validated_against_impl", 0) + len(scen)
    ctx.cov["evaluations"] = ctx.cov.get("evaluations", 0) + nts + nhls + nrg + nsdp
    ctx.cov["distinct_nontrivial"] = ctx.cov.get("distinct_nontrivial", 0) + len(scen)
    ctx.cov["republish_epochs"] = nep
    ctx.cov["rule"] = (ctx.cov.get("rule", "") + "; republish scenario = TLC-simulated behaviour of MC_Republish (epoch plan x message kinds x "
                       "timestamp increments x join point of a second HTTP-TS consumer inside an epoch or between two; de-duplicated) "
                       "completed per epoch (sequence headers, padding past lal's 16-message probe), sizes from the boundary pools, one "
                       "RTSP subscriber per epoch, plus one directed scenario per mandatory plan").lstrip("; ")
    ctx.sample({k: scen[0][k] for k in ("sc", "cfg", "plan")})
    nsh = min(E.NCPU, 1 + len(rows) // 1500)
    rej = E.validate(ctx, "Trace_Republish", "Trace_Republish.cfg", rows, name="val-Trace_Republish", shards=nsh)
    whys = why_lines(ctx, "val-Trace_Republish")
    starts = [i for i, r in enumerate(rows) if r.get("ev") == "reset"]
    for r in rej:
        ev = r["event"]
        sc = scen[r["sc"]] if r["sc"] is not None and r["sc"] < len(scen) else None
        parts = None
        nep_before = sum(1 for e in r["trace"][:r["line"]] if e.get("ev") == "PubArrive")
        if sc is not None:
            g0 = starts[r["sc"]]
            per = (len(starts) + nsh - 1) // nsh
            sh = r["sc"] // per
            lo = starts[sh * per]
            parts = whys.get((sh, g0 - lo + r["line"] + 1))
        kind = ev.get("m", {}).get("k", "") if ev.get("ev") == "Pub" else ""
        cls = sorted(set(re.sub(r"\bt[12]\b", "ts", x.strip()) for x in (parts or "?").strip("{}").split(",")))
        if only is not None and not only(cls):
            ctx.log("republish rejection outside this property (%s), left to C02 / C16" % "+".join(cls))
            continue
        sig = "republish:%s:%s:%s:%s" % (ev.get("ev"), kind, "first" if nep_before == 0 else "later", "+".join(cls))
        E.report(ctx, sig, "republish trace rejected at %s (scenario %s plan %s line %d, epoch %d, failing parts %s): %s" %
                 (ev.get("ev"), r["sc"], sc and sc["plan"], r["line"], nep_before + 1, parts, json.dumps(ev)[:500]),
                 {"scenario": sc, "trace": r["trace"][:r["line"] + 1]})
    if not rej and (nts == 0 or nhls == 0 or nrg == 0 or nsdp == 0):
        raise E.Infra("vacuous republish run: a consumer class received nothing and nothing was rejected")
    ctx.assumptions += [
        "republish epochs: the Group object survives because HTTP-TS subscribers stay attached; consecutive publishers are RTMP "
        "publishers (Group.DelRtmpPubSession / AddRtmpPubSession); a staying HTTP-TS player keeps what it learnt from PAT / PMT, "
        "continuity counters may restart with the new publisher; RTSP subscribers are judged for the epoch they join in",
        "an RTSP subscriber that stays attached across a republish (rh) cannot be described again and the properties do not ask "
        "for its session to be ended: only 'nothing of the predecessor reaches it' is decided (every frame is one of the present "
        "publisher, per track in order and complete); its stale description, the new SSRC / sequence / timestamp base, dropped "
        "tracks it never set up and a start without key frame are unspecified, not judged",
    ]

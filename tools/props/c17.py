"""C17 -- relay pull and push start, retry and stop exactly when their rules say (spec/Lifecycle.tla)."""
from props.lifecycle_common import run_lifecycle, DIRECTED_PULL


def run(ctx):
    if ctx.quick:
        run_lifecycle(ctx, bfs=[("P1", 3, 3), ("P2", 2, 3), ("P3", 2, 3), ("U1", 3, 3), ("U2", 3, 3)],
                      emit=[("P0", 2, 3), ("P4", 1, 2), ("U1", 1, 2), ("U2", 1, 2), ("U3", 1, 1), ("R4", 1, 2)],
                      sim=[("P1", 4, 4, 100, 16), ("P2", 3, 4, 60, 14), ("P3", 3, 4, 60, 14), ("H2", 3, 3, 50, 16),
                           ("R1", 4, 4, 40, 16), ("F3", 4, 3, 30, 16)], directed=DIRECTED_PULL)
    else:
        run_lifecycle(ctx, bfs=[("P1", 4, 4), ("P2", 3, 4), ("P3", 3, 4), ("U1", 4, 4), ("U2", 4, 4)],
                      emit=[("P0", 3, 4), ("P4", 2, 3), ("P3", 2, 2), ("U1", 2, 3), ("U2", 2, 3), ("U3", 2, 2), ("H2", 1, 2),
                            ("R0", 3, 4), ("R4", 2, 3), ("R3", 2, 2)],
                      sim=[("P1", 6, 6, 1500, 24), ("P2", 5, 6, 1000, 22), ("P3", 5, 6, 1000, 22),
                           ("U1", 5, 6, 600, 22), ("U2", 5, 6, 600, 22), ("H2", 5, 6, 800, 22),
                           ("R1", 6, 6, 1500, 24), ("R2", 5, 6, 1000, 22), ("R3", 5, 6, 1000, 22), ("F3", 5, 4, 800, 22)],
                      directed=DIRECTED_PULL)

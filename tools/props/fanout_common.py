"""Shared machinery of C01 / C02 / C16(start-clean): spec/Fanout.tla, driver group."""
import os, re
import engine as E

INVS = ("NoEmptyDelivered Contiguous Lag GopReplay Junction HeaderInForce HeadersFirst KeyFirst "
        "NoWaitWithoutVideo CleanStart NoDupNoReorder RecordExact")

# cfgId -> (model constants as in the MC cfg, driver configuration)
CFGS = {
    "A": dict(RtmpSubs=["r1"], FlvSubs=["f1"], GopNumR=1, GopNumF=1, CapR=1, CapF=0, Mw=0, Sz=[1], Record=True,
              Types="AllTypes", lenMode="edges", ws=False),
    "Aw": dict(RtmpSubs=["r1"], FlvSubs=["f1"], GopNumR=1, GopNumF=1, CapR=1, CapF=0, Mw=0, Sz=[1], Record=True,
               Types="AllTypes", lenMode="edges", ws=True),
    # the HTTP-FLV server configured for https only: the same consumers, the same rules
    "Ah": dict(RtmpSubs=["r1"], FlvSubs=["f1"], GopNumR=1, GopNumF=1, CapR=1, CapF=0, Mw=0, Sz=[1], Record=True,
               Types="AllTypes", lenMode="edges", ws=False, httpsOnly=True),
    "B": dict(RtmpSubs=["r1", "r2"], FlvSubs=[], GopNumR=0, GopNumF=0, CapR=0, CapF=0, Mw=5, Sz=[1, 4], Record=False,
              Types="Core", lenMode="units", ws=False),
    "C": dict(RtmpSubs=["r1"], FlvSubs=["f1"], GopNumR=2, GopNumF=0, CapR=0, CapF=0, Mw=3, Sz=[1], Record=False,
              Types="VidOnly", lenMode="units", ws=False),
    # relay push targets next to an RTMP subscriber: GOP cache on / off, merge writer on
    "E": dict(RtmpSubs=["r1"], FlvSubs=[], PushSubs=["t1"], GopNumR=1, GopNumF=0, CapR=0, CapF=0, Mw=0, Sz=[1], Record=False,
              Types="AllTypes", lenMode="edges", ws=False),
    "F": dict(RtmpSubs=["r1"], FlvSubs=[], PushSubs=["t1", "t2"], GopNumR=0, GopNumF=0, CapR=0, CapF=0, Mw=5, Sz=[1, 4], Record=False,
              Types="Core", lenMode="units", ws=False),
    # the RTMP server switched off (rtmp.enable = rtmps_enable = false): an RTSP publisher, an HTTP-FLV consumer and a relay
    # push target, which is an RTMP consumer all the same and gets its prologue from the RTMP cache
    "En": dict(RtmpSubs=[], FlvSubs=["f1"], PushSubs=["t1"], GopNumR=1, GopNumF=1, CapR=0, CapF=0, Mw=0, Sz=[1], Record=False,
               Types="AllTypes", lenMode="edges", ws=False, rtmpOff=True),
    "D": dict(RtmpSubs=["r1", "r2"], FlvSubs=["f1"], GopNumR=2, GopNumF=1, CapR=2, CapF=1, Mw=6, Sz=[1, 4], Record=True,
              Types="AllTypes", lenMode="units", ws=False),
}


def tla_set(xs):
    return "{" + ", ".join('"%s"' % x if isinstance(x, str) else str(x) for x in xs) + "}"


def write_mc_cfg(ctx, cid, max_pub, max_epoch, mode):
    """mode: 'bfs' (invariants only), 'emit' (edges), 'sim' (behaviours)."""
    c = CFGS[cid]
    lines = ["SPECIFICATION Spec", "CONSTANTS",
             "  RtmpSubs = " + tla_set(c["RtmpSubs"]), "  FlvSubs = " + tla_set(c["FlvSubs"]),
             "  PushSubs = " + tla_set(c.get("PushSubs", [])),
             "  GopNumR = %d" % c["GopNumR"], "  GopNumF = %d" % c["GopNumF"],
             "  CapR = %d" % c["CapR"], "  CapF = %d" % c["CapF"], "  MwBudget = %d" % c["Mw"],
             "  SzPool = " + tla_set(c["Sz"]), "  Record = %s" % ("TRUE" if c["Record"] else "FALSE"),
             "  MaxPub = %d" % max_pub, "  MaxEpoch = %d" % max_epoch, "  Types <- " + c["Types"],
             "INVARIANTS " + INVS]
    if mode != "sim":
        lines.append("VIEW View")
    if mode == "emit":
        lines.append("ACTION_CONSTRAINT Emit")
    if mode == "sim":
        lines.append("ACTION_CONSTRAINT EmitA")
    name = "MC_Fanout_gen_%s_%s.cfg" % (cid, mode)
    with open(os.path.join(E.SPEC, name), "w") as f:
        f.write("\n".join(lines) + "\n")
    return name


def write_trace_cfg(cid):
    c = CFGS[cid]
    lines = ["SPECIFICATION TraceSpec", "CONSTANTS",
             "  RtmpSubs = " + tla_set(c["RtmpSubs"]), "  FlvSubs = " + tla_set(c["FlvSubs"]),
             "  PushSubs = " + tla_set(c.get("PushSubs", [])),
             "  GopNumR = %d" % c["GopNumR"], "  GopNumF = %d" % c["GopNumF"],
             "  CapR = %d" % c["CapR"], "  CapF = %d" % c["CapF"], "  MwBudget = %d" % (c["Mw"] * 1000),
             "  SzPool = {}", "  Record = %s" % ("TRUE" if c["Record"] else "FALSE"),
             "  MaxPub = 1000000", "  MaxEpoch = 1000000", "  Types = {}",
             "INVARIANTS " + INVS,
             "CONSTRAINT HighWater", "POSTCONDITION Accept", "CHECK_DEADLOCK FALSE"]
    name = "Trace_Fanout_gen_%s.cfg" % cid
    with open(os.path.join(E.SPEC, name), "w") as f:
        f.write("\n".join(lines) + "\n")
    return name


def drv_cfg(cid):
    c = CFGS[cid]
    return {"rtmpSubs": c["RtmpSubs"], "flvSubs": c["FlvSubs"], "gopNumR": c["GopNumR"], "gopNumF": c["GopNumF"],
            "capR": c["CapR"], "capF": c["CapF"], "mwBytes": c["Mw"] * 1000, "record": c["Record"], "ws": c["ws"],
            "lenMode": c["lenMode"], "pushSubs": c.get("PushSubs", []), "httpsOnly": c.get("httpsOnly", False),
            "rtmpOff": c.get("rtmpOff", False)}


def behaviours(res):
    """Split simulation output into behaviours.  @A@ lines carry the action that led to the current
    state and its level; the constraint is evaluated once per candidate successor, so lines repeat."""
    cur, out, last = [], [], 0
    for a in E.emitted(res, "@A@"):
        l = a["l"]
        if l == last:
            continue
        if l == 1:
            if cur:
                out.append(cur)
            cur = []
        elif l == last + 1:
            cur.append(a["a"])
        else:
            raise E.Infra("simulation output out of order (level %d after %d)" % (l, last))
        last = l
    if cur:
        out.append(cur)
    return out


def signature(r):
    ev = r["event"]
    name = ev.get("ev")
    if name == "Publish":
        m = ev["m"]
        bad = sorted(set(re.sub(r" id=\d+", "", b) for b in ev.get("bad", [])))
        if bad:
            return "Publish:%s:bad:%s" % (m["t"], "+".join(bad)[:80])
        # classify the divergence by who got more/less than predicted is not available here; use type + position
        tr = r["trace"]
        prior = [e for e in tr[:r["line"]] if e.get("ev") in ("Publish", "PubLeave", "Join")]
        joined_mid = any(e.get("ev") == "Join" for e in prior if tr.index(e) > 1)
        hdrchg = sum(1 for e in prior if e.get("ev") == "Publish" and e["m"]["t"] in ("vsh", "ash")) > 1
        epochs = sum(1 for e in tr[:r["line"]] if e.get("ev") == "PubArrive")
        return "Publish:%s:del:%s%s%s" % (m["t"], "ep%d" % min(epochs, 2), ":hdrchg" if hdrchg else "",
                                          ":midjoin" if joined_mid else "")
    if name == "PubLeave":
        return "PubLeave:" + ("bad" if ev.get("bad") else "del_or_rec")
    return str(name)


def run_fanout(ctx, bfs, emit, sim):
    """bfs: list of (cid, maxpub, maxepoch) checked exhaustively without emission;
       emit: same, with full edge cover replayed; sim: list of (cid, maxpub, maxepoch, num, depth)."""
    E.build_harness(ctx)
    scen = []
    by_cfg = {}

    def add(cid, steps):
        sc = {"sc": len(scen), "cfg": drv_cfg(cid), "cfgId": cid, "steps": steps}
        scen.append(sc)
        by_cfg.setdefault(cid, []).append(sc["sc"])

    for (cid, mp, me) in bfs:
        cfg = write_mc_cfg(ctx, cid, mp, me, "bfs")
        res = E.tlc(ctx, "MC_Fanout", cfg, timeout=3000, deadlock=False)
        E.require_design_ok(ctx, res, cfg)
        ctx.log("design %s maxpub=%d: %d distinct states, all invariants hold" % (cid, mp, res["distinct"]))
    for (cid, mp, me) in emit:
        cfg = write_mc_cfg(ctx, cid, mp, me, "emit")
        res = E.tlc(ctx, "MC_Fanout", cfg, timeout=3000, deadlock=False)
        E.require_design_ok(ctx, res, cfg)
        g = E.Graph.load(res)
        paths, ncov = g.edge_cover(ctx.rng, max_len=24)
        ctx.log("cover %s maxpub=%d: %d states, %d edges, %d paths" % (cid, mp, res["distinct"], g.nedges, len(paths)))
        for p in paths:
            add(cid, p)
    for (cid, mp, me, num, depth) in sim:
        cfg = write_mc_cfg(ctx, cid, mp, me, "sim")
        res = E.tlc(ctx, "MC_Fanout", cfg, name="sim-" + cid, workers=1, timeout=600, deadlock=False,
                    simulate="num=%d" % num, depth=depth)
        if res["errors"]:
            raise E.Infra("simulation found a model error: %s" % res["errors"][:2])
        bs = behaviours(res)
        ctx.log("simulate %s: %d behaviours" % (cid, len(bs)))
        for b in bs:
            add(cid, b)
    sp, tp = ctx.path("scen.ndjson"), ctx.path("trace.ndjson")
    E.write_ndjson(sp, scen)
    E.run_driver(ctx, "group", sp, tp, timeout=1800)
    rows = E.read_ndjson(tp)
    # split rows per cfgId (constants differ) and validate each group
    groups = {}
    cur = None
    for r in rows:
        if r.get("ev") == "reset":
            cur = r["cfgId"]
        groups.setdefault(cur, []).append(r)
    rej = []
    for cid, rs in groups.items():
        tcfg = write_trace_cfg(cid)
        rej += E.validate(ctx, "Trace_Fanout", tcfg, rs, name="val-" + cid)
    ctx.cov["traces_validated_against_impl"] = len(scen)
    ctx.cov["evaluations"] = len(rows)
    ctx.cov["distinct_nontrivial"] = len(scen)
    ctx.cov["rule"] = ("scenario = init-rooted path of the Fanout state graph (edge cover of the small configurations) or "
                       "a TLC-simulated behaviour of the larger ones, replayed into a real logic.Group with real "
                       "rtmp.ServerSession / httpflv.SubSession consumers on in-memory connections; each is distinct")
    if scen:
        ctx.sample(scen[0])
        ctx.sample(scen[-1])
    for r in rej:
        E.report(ctx, signature(r), "trace rejected at %s (scenario %s line %d): %s" %
                 (r["event"].get("ev"), r["sc"], r["line"], str(r["event"])[:300]),
                 {"scenario": scen[r["sc"]] if r["sc"] is not None and r["sc"] < len(scen) else None, "trace": r["trace"]})
    ctx.assumptions += ["independent RTMP chunk / FLV / WebSocket readers in harness/proj",
                        "consumers are real session objects on in-memory connections with synchronous writes "
                        "(no transport back-pressure, as the property assumes)"]

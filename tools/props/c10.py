"""C10 -- HLS playlists and segments are consistent at every instant (spec/Hls.tla, driver hls).

GEN   TLC explores the muxer model with the file system as a variable, one step per file-system
      operation, for several pools (decisions of updateFragment / ring arithmetic over every
      fragment_num x delete_threshold x cleanup_mode / rounding of the target duration / re-publish),
      checks the eight properties in every state and prints the input history of every behaviour.
EXEC  the input histories are replayed into a real hls.Muxer on a recording file-system layer.
VAL   Trace_Hls replays every recorded operation into the model's file system and evaluates the
      properties after each one; it also requires the operation to be the one the model queued.

Second part (run_cleanup): "delayed directory cleanup that must spare a live stream" at the level of
logic.ServerManager (spec/HlsCleanup.tla, Trace_HlsCleanup.tla, driver hlscleanup): publisher leaves
(timer armed) / the 1 s tick removes the inactive Group / the name is published again (same or a new Group
object) / the timer expires / a second leave arms a second timer while the first is pending.
"""
import glob, json, os, re
import concurrent.futures as cf
import engine as E
from props.fanout_common import behaviours

# (cfg, replay cap in quick tier or None = all)
QUICK = [("MC_Hls_q_round.cfg", None), ("MC_Hls_q_ring.cfg", 450), ("MC_Hls_q_decide.cfg", 450),
         ("MC_Hls_q_restart.cfg", 300)]
THOROUGH = [("MC_Hls_t_round.cfg", None), ("MC_Hls_t_ring.cfg", 6000), ("MC_Hls_t_decide.cfg", 5000),
            ("MC_Hls_t_decide2.cfg", 4000), ("MC_Hls_t_restart.cfg", 3000)]


def signatures(why):
    """One signature per violated property (stable under combinations); otherwise the kind of divergence
    from the muxer model (operation not the queued one / content / directory)."""
    w = [re.sub(r"\d+", "", x) for x in why]
    if not w:
        return ["unknown"]
    inv = [x for x in w if not x.startswith(("Op:", "Content:", "Dir:", "Call:", "Panic"))]
    if inv:
        return ["Inv:" + x for x in inv]
    return [w[0]]


def run(ctx):
    if os.environ.get("VERIF_WORK"):
        # private scratch directory (several tasks share /verif/.work while the framework is being built)
        ctx.work = os.path.join(os.environ["VERIF_WORK"], os.path.basename(ctx.work))
        os.makedirs(ctx.work, exist_ok=True)
    E.build_harness(ctx, tags="verif,verif_hls")
    scen, seen = [], set()

    def add(obj, src):
        key = json.dumps(obj, sort_keys=True)
        if key in seen:
            return
        seen.add(key)
        scen.append({"sc": len(scen), "src": src, "cfg": obj["cfg"], "av": obj["av"], "steps": obj["steps"]})

    for (cfg, cap) in (QUICK if ctx.quick else THOROUGH):
        if not os.path.exists(os.path.join(E.SPEC, cfg)):
            continue
        res = E.tlc(ctx, "MC_Hls", cfg, timeout=3000, deadlock=False)
        E.require_design_ok(ctx, res, cfg)
        objs = list(E.emitted(res, "@S@"))
        n = len(objs)
        if cap is not None and n > cap:
            # keep every longest behaviour class represented: sample uniformly over the enumeration
            objs = ctx.rng.sample(objs, cap)
        for o in objs:
            add(o, cfg)
        ctx.log("%s: %d distinct states (every one an instant between two file-system operations), all properties "
                "hold; %d behaviours enumerated, %d replayed" % (cfg, res["distinct"], n, len(objs)))
    num, depth = (150, 400) if ctx.quick else (4000, 400)
    res = E.tlc(ctx, "MC_Hls", "MC_Hls_sim.cfg", name="sim", workers=1, timeout=900, deadlock=False,
                simulate="num=%d" % num, depth=depth)
    if res["errors"]:
        raise E.Infra("simulation found a model error: %s" % res["errors"][:2])
    nsim = 0
    for o in E.emitted(res, "@S@"):
        add(o, "sim")
        nsim += 1
    ctx.log("simulate: %d long random behaviours (up to 14 frames, every configuration)" % nsim)

    sp, tp = ctx.path("scen.ndjson"), ctx.path("trace.ndjson")
    E.write_ndjson(sp, scen)
    E.run_driver(ctx, "hls", sp, tp, timeout=1800)
    rows = E.read_ndjson(tp)
    nops = sum(1 for r in rows if r.get("ev") == "op")
    ctx.cov["traces_validated_against_impl"] = len(scen)
    ctx.cov["evaluations"] = nops
    ctx.cov["distinct_nontrivial"] = len(scen)
    ctx.cov["rule"] = ("scenario = input history (frames with timestamp step class / key / boundary flags, stop, "
                       "re-publish) of a behaviour of the Hls model for one (fragment_num, delete_threshold, "
                       "fragment_duration, cleanup_mode); replayed into a real hls.Muxer; every file-system operation "
                       "is one validated trace line; scenarios are distinct input histories")
    if scen:
        ctx.sample({k: scen[0][k] for k in ("cfg", "av", "steps")})
        ctx.sample({k: scen[-1][k] for k in ("cfg", "av", "steps")})
    rej = E.validate(ctx, "Trace_Hls", "Trace_Hls.cfg", rows)
    why = {}
    for out in glob.glob(ctx.path("tlc-val-Trace_Hls-s*", "out.txt")):
        with open(out, errors="replace") as f:
            for line in f:
                if line.startswith('"@WHY@'):
                    w = json.loads(json.loads(line)[5:])
                    why[(w["sc"], w["line"])] = w["why"]
    for r in rej:
        w = why.get((r["sc"], r["line"]), [])
        ev = r["event"]
        for sig in signatures(w):
            E.report(ctx, sig,
                     "trace rejected (%s) at line %d of scenario %s, event %s" %
                     (", ".join(w) or "?", r["line"], r["sc"],
                      json.dumps({k: ev[k] for k in ev if k not in ("dts", "dpl")})[:400]),
                     {"scenario": scen[r["sc"]] if r["sc"] is not None and r["sc"] < len(scen) else None,
                      "why": w, "trace": r["trace"][:r["line"] + 1]})
    ctx.assumptions += ["independent m3u8 / TS-segment readers in harness/proj/m3u8.go",
                        "os.WriteFile is create-with-truncation ; write ; close (the recording layer splits it so)",
                        "frames reach the muxer as Rtmp2MpegtsRemuxer delivers them: a video boundary frame is a "
                        "key frame; audio frames carry the boundary flag only in audio-only streams",
                        "timestamps are whole milliseconds (90 kHz ticks divisible by 90)"]
    run_cleanup(ctx)


# ----------------------------------------------------------------------------------------------------------------
# delayed directory cleanup (ServerManager.CleanupHlsIfNeeded) against the life of the Group of the name

CLEANUP_FRAG_MS = 300          # fragment_duration_ms; the timer runs 300 * (fragment_num 2 + delete_threshold 1) = 900 ms
CLEANUP_TAGS = ["neighbour", "LiveSpared", "Listed", "panic", "notEnabled", "group", "muxer", "dir", "playlist", "listedEpoch",
                "listedCount", "segmentFiles", "listedSegmentMissing"]


def _steps(names):
    # "TimerFire!": the publisher of the PubStart that follows arrives inside the expiry (between decision and removal)
    return [{"name": n.rstrip("!"), "race": n.endswith("!")} for n in names.split()]


# behaviours every run replays whatever the seed (each for cleanup_mode 1 and 2; without the expiries for mode 0):
CLEANUP_DIRECTED = [
    # the Group is removed by the tick and the name published again on a NEW Group before the timer expires
    "PubStart Feed PubStop Tick PubStart Feed TimerFire PubStop TimerFire",
    "PubStart PubStop Tick PubStart TimerFire Feed PubStop TimerFire",
    # the publisher comes back before the tick / a subscriber keeps the Group: the SAME Group object
    "PubStart Feed PubStop PubStart Tick Feed TimerFire PubStop Tick TimerFire",
    "SubJoin PubStart Feed PubStop Tick PubStart Feed TimerFire SubLeave PubStop Tick TimerFire",
    # a second leave arms a second timer while the first is pending; the first one removes, the second one spares
    "PubStart Feed PubStop PubStart Feed PubStop TimerFire PubStart Feed TimerFire PubStop TimerFire",
    "PubStart Feed PubStop Tick PubStart PubStop Tick TimerFire PubStart Feed TimerFire Feed PubStop TimerFire",
    # nobody comes back
    "PubStart Feed PubStop TimerFire", "PubStart PubStop Tick TimerFire SubJoin Tick SubLeave Tick",
    # the publisher comes back while the timer is between its decision and the removal (new Group; the Group kept by a subscriber)
    "PubStart Feed PubStop Tick TimerFire! PubStart Feed PubStop TimerFire",
    "SubJoin PubStart Feed PubStop Tick TimerFire! PubStart Feed Feed PubStop SubLeave Tick TimerFire",
    "PubStart PubStop TimerFire! PubStart Feed PubStop Tick TimerFire",
]


def run_cleanup(ctx):
    t0 = len(ctx.violations)
    q = ctx.quick
    design_cfg = "MC_HlsCleanup_q.cfg" if q else "MC_HlsCleanup_t.cfg"
    emit_cfg = "MC_HlsCleanup_q_emit.cfg" if q else "MC_HlsCleanup_t_emit.cfg"
    nsim, depth = (40, 16) if q else (600, 18)
    jobs = {
        "design": lambda: E.tlc(ctx, "MC_HlsCleanup", design_cfg, timeout=900, deadlock=False, workers=max(2, E.NCPU // 3)),
        "emit": lambda: E.tlc(ctx, "MC_HlsCleanup", emit_cfg, timeout=900, deadlock=False, workers=max(2, E.NCPU // 3)),
        "mut": lambda: E.tlc(ctx, "MC_HlsCleanup", "MC_HlsCleanup_mut.cfg", timeout=300, deadlock=False, workers=2),
        "sim": lambda: E.tlc(ctx, "MC_HlsCleanup", "MC_HlsCleanup_sim.cfg", name="cleanup-sim", workers=1, timeout=600,
                             deadlock=False, simulate="num=%d" % nsim, depth=depth),
    }
    with cf.ThreadPoolExecutor(max_workers=4) as ex:
        futs = {k: ex.submit(f) for k, f in jobs.items()}
        res = {k: f.result() for k, f in futs.items()}
    E.require_design_ok(ctx, res["design"], design_cfg)
    E.require_design_ok(ctx, res["emit"], emit_cfg)
    if res["mut"].get("inv") != "LiveSpared":
        raise E.Infra("design check is insensitive: a timer that remembers the Group object of arming time passes LiveSpared "
                      "(%s)" % res["mut"]["errors"][:2])
    if res["sim"]["errors"]:
        raise E.Infra("simulation found a model error in HlsCleanup: %s" % res["sim"]["errors"][:2])
    ctx.log("cleanup design %s: %d distinct states, LiveSpared / Listed / Cleaned / NeverCleaned hold; the design mutant "
            "(timer captures the Group of arming time) violates LiveSpared" % (design_cfg, res["design"]["distinct"]))

    scen, seen = [], set()

    def add(mode, steps, src, https=False):
        # https: HLS is switched on by hls.enable_https alone (hls.enable false).  Which of the two flags switches it on makes
        # no difference to the life of the muxer, so the model has no variable for it.  Replayed for cleanup_mode 0 only:
        # CleanupHlsIfNeeded looks at hls.enable alone, an https-only server never removes a directory - nothing C10 states
        key = (mode, https, tuple(s["name"] for s in steps))
        if key in seen or not steps:
            return
        seen.add(key)
        scen.append({"sc": len(scen), "src": src, "mode": mode, "fragMs": CLEANUP_FRAG_MS, "https": https,
                     "steps": [{"name": s["name"], "race": bool(s.get("race"))} for s in steps]})

    for d in CLEANUP_DIRECTED:
        for mode in (1, 2, 0):
            add(mode, [s for s in _steps(d) if mode != 0 or s["name"] != "TimerFire"], "directed")
        add(0, [s for s in _steps(d) if s["name"] != "TimerFire"], "directed", https=True)
    ndir = len(scen)
    # edge cover of the small configuration.  The mode is part of the state: one graph for mode 0 (no timers) and one
    # for mode 1, whose graph is the graph of mode 2 as well (the two differ inside the muxer only)
    graphs = {0: E.Graph(), 1: E.Graph()}
    for e in E.emitted(res["emit"], "@E@"):
        graphs[e["f"]["mode"]].add(e)
    nedges = sum(g.nedges for g in graphs.values())
    covers = {m: g.edge_cover(ctx.rng, max_len=18)[0] for m, g in graphs.items()}
    # the quick tier replays the whole cover for one of the modes 1 / 2 (chosen by the seed) and a third of it for the
    # other; mode 0 (no timers, no waiting) is always replayed in full
    full = 1 + ctx.seed % 2
    for mode in (0, 1, 2):
        ps = covers[min(mode, 1)]
        if q and mode not in (0, full):
            ps = ctx.rng.sample(ps, max(1, len(ps) // 3))
        if not q and len(ps) > 900:
            ps = ctx.rng.sample(ps, 900)
        for k, p in enumerate(ps):
            add(mode, p, emit_cfg)
            if mode == 0 and (not q or k % 3 == ctx.seed % 3):
                add(0, p, emit_cfg, https=True)
    ncover = len(scen) - ndir
    bs = behaviours(res["sim"])
    for b in bs:
        # (the mode of a simulated behaviour is not part of the action labels: both are replayed)
        for mode in ((1, 2) if not q else (1 + (len(scen) % 2),)):
            add(mode, b, "sim")
    ctx.log("cleanup scenarios: %d directed, %d from the edge cover of %s (%d states, %d edges, all covered by %d paths), "
            "%d simulated" % (ndir, ncover, emit_cfg, res["emit"]["distinct"], nedges, sum(map(len, covers.values())),
                              len(scen) - ndir - ncover))
    sp, tp = ctx.path("cleanup-scen.ndjson"), ctx.path("cleanup-trace.ndjson")
    E.write_ndjson(sp, scen)
    E.run_driver(ctx, "hlscleanup", sp, tp, timeout=3600, extra=["par=%d" % (64 if q else 96)])
    rows = E.read_ndjson(tp)
    lates = [r for r in rows if r.get("ev") == "late"]
    if lates:
        raise E.Infra("hlscleanup: %d scenario(s) missed a real-time bound twice (machine too busy?): %s" %
                      (len(lates), json.dumps(lates[0])))
    fires = [r for r in rows if r.get("ev") == "TimerFire"]
    spared = sum(1 for r in fires if r["obs"]["mux"] and r["obs"]["dir"])
    removed = sum(1 for r in fires if not r["obs"]["dir"])
    nsteps = sum(1 for r in rows if r.get("ev") not in ("reset", "late"))
    ctx.log("cleanup driver: %d scenarios, %d steps observed, %d timer expiries (%d spared a live stream, %d removed the "
            "directory)" % (len(scen), nsteps, len(fires), spared, removed))
    ctx.add("traces_validated_against_impl", len(scen))
    ctx.add("evaluations", nsteps)
    ctx.add("distinct_nontrivial", len(scen))
    ctx.cov["rule"] = (ctx.cov.get("rule", "") + " || cleanup part: scenario = init-rooted path of the HlsCleanup state graph "
                       "(edge cover per cleanup_mode), a TLC-simulated behaviour of the larger configuration or a directed "
                       "behaviour, replayed into a real logic.ServerManager (customize-pub input fed with H.264 + AAC, "
                       "HTTP-FLV subscriber, VerifTick, real 900 ms cleanup timers); every step is one validated trace line "
                       "carrying the observed group identity / muxer / directory / playlist / segment files")
    ctx.sample({k: scen[0][k] for k in ("mode", "fragMs", "steps")})
    rej = E.validate(ctx, "Trace_HlsCleanup", "Trace_HlsCleanup.cfg", rows)
    why = {}
    for out in glob.glob(ctx.path("tlc-val-Trace_HlsCleanup-s*", "out.txt")):
        with open(out, errors="replace") as f:
            for line in f:
                if line.startswith('"@WHY@'):
                    w = json.loads(json.loads(line)[5:])
                    why[(w["sc"], w["line"])] = w["why"]
    for r in rej:
        w = why.get((r["sc"], r["line"]), [])
        first = ([t for t in CLEANUP_TAGS if t in w] or ["early" if any(x.startswith("early:") for x in w) else "unknown"])[0]
        ev = r["event"]
        E.report(ctx, "Cleanup:%s:%s" % (ev.get("ev"), first),
                 "cleanup trace rejected (%s) at line %d of scenario %s (mode %s): %s after %s" %
                 (", ".join(w) or "?", r["line"], r["sc"], r["trace"][0].get("mode"), json.dumps(ev),
                  " ".join(x.get("ev") for x in r["trace"][1:r["line"]])),
                 {"scenario": scen[r["sc"]] if r["sc"] is not None and r["sc"] < len(scen) else None,
                  "why": w, "trace": r["trace"][:r["line"] + 1]})
    if len(ctx.violations) == t0 and (spared == 0 or removed == 0):
        raise E.Infra("vacuous cleanup run: no timer expiry spared a live stream / removed a directory")
    ctx.assumptions += ["cleanup part: steps are atomic (an expiry that races with a publisher's arrival inside lal is not "
                        "enumerated); the expiry of a real timer is observed %d ms after it is due, steps placed before it end "
                        "100 ms earlier, a scenario that misses a bound is run again and never judged" % 200,
                        "cleanup part: at most two timers pending at once (what the 900 ms delay lets the driver tell apart)"]

"""C10 -- HLS playlists and segments are consistent at every instant (spec/Hls.tla, driver hls).

GEN   TLC explores the muxer model with the file system as a variable, one step per file-system
      operation, for several pools (decisions of updateFragment / ring arithmetic over every
      fragment_num x delete_threshold x cleanup_mode / rounding of the target duration / re-publish),
      checks the eight properties in every state and prints the input history of every behaviour.
EXEC  the input histories are replayed into a real hls.Muxer on a recording file-system layer.
VAL   Trace_Hls replays every recorded operation into the model's file system and evaluates the
      properties after each one; it also requires the operation to be the one the model queued.
"""
import glob, json, os, re
import engine as E

# (cfg, replay cap in quick tier or None = all)
QUICK = [("MC_Hls_q_round.cfg", None), ("MC_Hls_q_ring.cfg", 450), ("MC_Hls_q_decide.cfg", 450),
         ("MC_Hls_q_restart.cfg", 300)]
THOROUGH = [("MC_Hls_t_round.cfg", None), ("MC_Hls_t_ring.cfg", 6000), ("MC_Hls_t_decide.cfg", 5000),
            ("MC_Hls_t_decide2.cfg", 4000), ("MC_Hls_t_restart.cfg", 3000)]


def signatures(why):
    """One signature per violated property (stable under combinations); otherwise the kind of divergence
    from the muxer model (operation not the queued one / content / directory)."""
    w = [re.sub(r"\d+", "", x) for x in why]
    if not w:
        return ["unknown"]
    inv = [x for x in w if not x.startswith(("Op:", "Content:", "Dir:", "Call:", "Panic"))]
    if inv:
        return ["Inv:" + x for x in inv]
    return [w[0]]


def run(ctx):
    if os.environ.get("VERIF_WORK"):
        # private scratch directory (several tasks share /verif/.work while the framework is being built)
        ctx.work = os.path.join(os.environ["VERIF_WORK"], os.path.basename(ctx.work))
        os.makedirs(ctx.work, exist_ok=True)
    E.build_harness(ctx, tags="verif,verif_hls")
    scen, seen = [], set()

    def add(obj, src):
        key = json.dumps(obj, sort_keys=True)
        if key in seen:
            return
        seen.add(key)
        scen.append({"sc": len(scen), "src": src, "cfg": obj["cfg"], "av": obj["av"], "steps": obj["steps"]})

    for (cfg, cap) in (QUICK if ctx.quick else THOROUGH):
        if not os.path.exists(os.path.join(E.SPEC, cfg)):
            continue
        res = E.tlc(ctx, "MC_Hls", cfg, timeout=3000, deadlock=False)
        E.require_design_ok(ctx, res, cfg)
        objs = list(E.emitted(res, "@S@"))
        n = len(objs)
        if cap is not None and n > cap:
            # keep every longest behaviour class represented: sample uniformly over the enumeration
            objs = ctx.rng.sample(objs, cap)
        for o in objs:
            add(o, cfg)
        ctx.log("%s: %d distinct states (every one an instant between two file-system operations), all properties "
                "hold; %d behaviours enumerated, %d replayed" % (cfg, res["distinct"], n, len(objs)))
    num, depth = (150, 400) if ctx.quick else (4000, 400)
    res = E.tlc(ctx, "MC_Hls", "MC_Hls_sim.cfg", name="sim", workers=1, timeout=900, deadlock=False,
                simulate="num=%d" % num, depth=depth)
    if res["errors"]:
        raise E.Infra("simulation found a model error: %s" % res["errors"][:2])
    nsim = 0
    for o in E.emitted(res, "@S@"):
        add(o, "sim")
        nsim += 1
    ctx.log("simulate: %d long random behaviours (up to 14 frames, every configuration)" % nsim)

    sp, tp = ctx.path("scen.ndjson"), ctx.path("trace.ndjson")
    E.write_ndjson(sp, scen)
    E.run_driver(ctx, "hls", sp, tp, timeout=1800)
    rows = E.read_ndjson(tp)
    nops = sum(1 for r in rows if r.get("ev") == "op")
    ctx.cov["traces_validated_against_impl"] = len(scen)
    ctx.cov["evaluations"] = nops
    ctx.cov["distinct_nontrivial"] = len(scen)
    ctx.cov["rule"] = ("scenario = input history (frames with timestamp step class / key / boundary flags, stop, "
                       "re-publish) of a behaviour of the Hls model for one (fragment_num, delete_threshold, "
                       "fragment_duration, cleanup_mode); replayed into a real hls.Muxer; every file-system operation "
                       "is one validated trace line; scenarios are distinct input histories")
    if scen:
        ctx.sample({k: scen[0][k] for k in ("cfg", "av", "steps")})
        ctx.sample({k: scen[-1][k] for k in ("cfg", "av", "steps")})
    rej = E.validate(ctx, "Trace_Hls", "Trace_Hls.cfg", rows)
    why = {}
    for out in glob.glob(ctx.path("tlc-val-Trace_Hls-s*", "out.txt")):
        with open(out, errors="replace") as f:
            for line in f:
                if line.startswith('"@WHY@'):
                    w = json.loads(json.loads(line)[5:])
                    why[(w["sc"], w["line"])] = w["why"]
    for r in rej:
        w = why.get((r["sc"], r["line"]), [])
        ev = r["event"]
        for sig in signatures(w):
            E.report(ctx, sig,
                     "trace rejected (%s) at line %d of scenario %s, event %s" %
                     (", ".join(w) or "?", r["line"], r["sc"],
                      json.dumps({k: ev[k] for k in ev if k not in ("dts", "dpl")})[:400]),
                     {"scenario": scen[r["sc"]] if r["sc"] is not None and r["sc"] < len(scen) else None,
                      "why": w, "trace": r["trace"][:r["line"] + 1]})
    ctx.assumptions += ["independent m3u8 / TS-segment readers in harness/proj/m3u8.go",
                        "os.WriteFile is create-with-truncation ; write ; close (the recording layer splits it so)",
                        "frames reach the muxer as Rtmp2MpegtsRemuxer delivers them: a video boundary frame is a "
                        "key frame; audio frames carry the boundary flag only in audio-only streams",
                        "timestamps are whole milliseconds (90 kHz ticks divisible by 90)"]

"""C09 -- MPEG-TS packetisation (spec/TsPack.tla, driver ts)."""
import gc
import json
import engine as E


def t3(v):
    return [(v >> 30) & 7, (v >> 15) & 0x7fff, v & 0x7fff]


from props import c06
from props.republish_common import run_republish


def pack_part(ctx):
    E.build_harness(ctx)
    cfg = "MC_TsPack_q.cfg" if ctx.quick else "MC_TsPack_t.cfg"
    res = E.tlc(ctx, "MC_TsPack", cfg, timeout=1500, deadlock=False)
    E.require_design_ok(ctx, res, cfg)
    # streamed: the thorough tier enumerates 1.5 million frames, which must not all sit in memory as python objects
    sp, tp = ctx.path("scen.ndjson"), ctx.path("trace.ndjson")
    nscen, nframes, nenum = 0, 0, 0
    first = last = None
    with open(sp, "w") as out:
        def put(sc):
            nonlocal nscen, nframes, first, last
            sc["sc"] = nscen
            out.write(json.dumps(sc, separators=(",", ":")) + "\n")
            nscen += 1
            nframes += len(sc["frames"])
            if first is None:
                first = sc
            last = sc
        for a in E.emitted(res, "@S@"):
            f = a["frame"]
            nenum += 1
            # the enumerated frame, then two follow-up frames on the same PID carrying the counter on
            f2 = dict(f, key=False, pts=f["dts"], len=max(1, (f["len"] * 7) % 371))
            f3 = dict(f, key=True, len=1 + (f["len"] % 3))
            put({"kind": "frames", "cc": a["cc"], "frames": [f, f2, f3]})
        ctx.log("%s: %d frames enumerated, reference packetiser satisfies FrameOK on all" % (cfg, nenum))
        # big frames around packet boundaries (lengths add nothing new modulo 184 except the PES
        # length field and buffer growth)
        big = []
        for base in ([1024, 65536 - 19, 65536] if ctx.quick else [1024, 8192, 65536 - 19, 65536, 204800]):
            k = base // 184
            for r in range(-2, 3):
                for kk in (k, k + 1):
                    n = kk * 184 + r
                    for key in (False, True):
                        for cts in (0, 3600):
                            big.append({"len": n, "key": key, "pts": t3(900000 + cts), "dts": t3(900000),
                                        "pid": 256, "sid": 224})
        # every length around the 16-bit PES_packet_length limit (65535 - 3 - header data length)
        for n in range(65500, 65560):
            for cts in (0, 3600):
                big.append({"len": n, "key": (n % 2 == 0), "pts": t3(900000 + cts), "dts": t3(900000), "pid": 256 + (n % 2),
                            "sid": 224 if n % 2 == 0 else 192})
        for f in big:
            put({"kind": "frames", "cc": (f["len"] % 16), "frames": [f, dict(f, len=185)]})
        for v in (7, 12, 0, 99):
            for a in (10, 13, 0, 7):
                put({"kind": "psi", "cc": 0, "v": v, "a": a, "frames": []})
        # the tables a stream was handed stay its own when a stream with other codecs starts afterwards
        for (v, a, v2, a2) in ((7, 10, 12, 13), (12, 13, 7, 10), (7, 13, 12, 10), (12, 10, 7, 10)):
            put({"kind": "psi2", "cc": 0, "v": v, "a": a, "v2": v2, "a2": a2, "frames": []})
    E.run_driver(ctx, "ts", sp, tp)
    ctx.cov["traces_validated_against_impl"] = nscen
    ctx.cov["evaluations"] = nframes + 32
    ctx.cov["distinct_nontrivial"] = nscen
    ctx.cov["rule"] = ("every frame of the TLC-enumerated space (length x key x pts/dts x pid x incoming cc) packed by "
                       "lal, followed by two more frames on the same PID; big lengths around 184-byte multiples; "
                       "all 16 codec pairs for PAT/PMT; each scenario distinct by construction")
    ctx.sample(first)
    ctx.sample(last)
    rej = E.validate_file(ctx, "Trace_TsPack", "Trace_TsPack.cfg", tp)
    for r in rej:
        ev = r["event"]
        if ev["ev"] == "Frame":
            f = ev["frame"]
            room = 184 - (8 if f["key"] else 0) - (19 if f["pts"] != f["dts"] else 14)
            cls = "fits_first" if f["len"] < room else ("exact_first" if f["len"] == room else "multi")
            sig = "Frame:key=%s:%s" % (str(f["key"]).lower(), cls)
        else:
            sig = "Psi:%s:v%s:a%s" % (ev["kind"], ev["v"], ev["a"])
        E.report(ctx, sig, "trace rejected at %s (scenario %s line %d)" % (ev["ev"], r["sc"], r["line"]),
                 {"trace": r["trace"]})
    ctx.assumptions += ["independent TS/PES/PSI reader harness/proj/ts.go", "PTS/DTS carry lal's constant 63000-tick delay (spec constant Delay)"]


def run(ctx):
    # the first part holds millions of records in the thorough tier: it runs in a function of its own so that they are
    # released before the second part starts
    pack_part(ctx)
    gc.collect()
    # "continuity counters advance by one per packet per PID across frames": the counters live in Rtmp2MpegtsRemuxer
    # (audioCc / videoCc) between two Pack calls.  The RemuxOut scenarios (spec/RemuxOut.tla, acceptor clause FrameWF.ccOk,
    # every codec combination) are replayed through the Group and judged at HTTP-TS consumers and in HLS segments.
    own = dict(ctx.cov)
    c06.run(ctx, c09=True)
    for k in ("traces_validated_against_impl", "evaluations", "distinct_nontrivial"):
        ctx.cov[k] = ctx.cov.get(k, 0) + own.get(k, 0)
    # a LATER publisher of the name on the surviving Group (spec/Republish.tla): what HTTP-TS consumers - late joiners fed from
    # the TS GOP cache included - and HLS segments hold must be explained by that publisher alone, counters included
    run_republish(ctx, only=lambda cls: any("ts" in c or "hls" in c for c in cls))
    ctx.cov["rule"] = own["rule"] + "; plus RemuxOut scenarios (simulated and directed, every codec combination) for the counters " \
        "carried by the remuxer from frame to frame, judged per PID at HTTP-TS consumers and in HLS segments"

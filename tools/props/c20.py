"""C20 -- concurrency: deadlock-, abort- and lock-order discipline (spec/Locks.tla).

  design   TLC checks the goroutine classes of the server (Locks.tla) for deadlock, mutex wait cycles,
           blocked sends on the capacity-1 exit channels, the declared lock order and completion;
  static   harness/cmd/lockgraph extracts the lock graph, sends / closes under a mutex, unprotected accesses
           and leaked mutexes from the CURRENT source tree; Trace_Locks (TLC) decides each fact against the
           declarations of the specification;
  dynamic  driver "stress": a real ServerManager under concurrent churn with a watchdog on every call, in a
           child process; Trace_Locks decides died = FALSE /\\ hung = FALSE.
The data-race clause of C20 is NOT decided by the specification (DESIGN.md section 7): in the thorough tier the
same stress scenario also runs under the Go race detector as an auxiliary observer whose reports are logged and
put into the evidence, never alarmed on.
"""
import concurrent.futures as cf
import json, os, re, subprocess
import engine as E

QUICK = ["P1", "P2", "P3", "P4", "P5", "P6"]
THOROUGH = ["PA", "PB", "PC", "PD", "PE"]


def build_lockgraph(ctx):
    out = ctx.path("lockgraph")
    p = subprocess.run(["go", "build", "-o", out, "."], cwd=os.path.join(E.HARNESS, "cmd", "lockgraph"),
                       env=E.goenv(), capture_output=True, text=True)
    if p.returncode != 0:
        raise E.Infra("lockgraph build failed: " + (p.stdout + p.stderr)[-2000:])
    return out


def race_run(ctx, scen):
    """Auxiliary observer (never a verdict): the stress scenario under the race detector."""
    try:
        out = ctx.path("lalexec-race")
        cmd = ["go", "build", "-race", "-tags", "verif", "-o", out]
        alt = [f for f in os.listdir(E.HARNESS) if f.startswith(".alt-") and f.endswith(".mod")]
        if os.path.realpath(E.REPO) != "/repo":
            import hashlib
            h = hashlib.sha1(E.REPO.encode()).hexdigest()[:10]
            cmd += ["-modfile", os.path.join(E.HARNESS, ".alt-%s.mod" % h)]
        env = E.goenv()
        env["CGO_ENABLED"] = "1"
        p = subprocess.run(cmd + ["./cmd/lalexec"], cwd=E.HARNESS, env=env, capture_output=True, text=True, timeout=600)
        if p.returncode != 0:
            ctx.log("race detector not available here (build failed): auxiliary run skipped")
            return []
        sp, tp = ctx.path("race-scen.ndjson"), ctx.path("race-trace.ndjson")
        E.write_ndjson(sp, [scen])
        env["GORACE"] = "halt_on_error=0"
        p = subprocess.run([out, "-driver", "stress", "-in", sp, "-out", tp, "-seed", str(ctx.seed), "-child", "1"],
                           cwd=ctx.work, env=env, capture_output=True, text=True, timeout=scen["ms"] / 1000 + 300)
        races = {}
        for blk in p.stderr.split("WARNING: DATA RACE")[1:]:
            blk = blk.split("==================")[0]
            frames = re.findall(r"^\s+(github\.com/q191201771/lal/pkg/[^\s(]+)", blk, re.M)
            harness = re.findall(r"^\s+(lalverif/[^\s(]+)", blk, re.M)
            accs = re.findall(r"^(?:Previous )?(?:[Rr]ead|[Ww]rite) at .*? by .*?:\n\s+(\S+)\(", blk, re.M)
            key = "|".join(a.replace("github.com/q191201771/lal/pkg/", "") for a in accs[:2])
            if key and key not in races:
                races[key] = {"ev": "Race", "a": accs[0] if accs else "", "b": accs[1] if len(accs) > 1 else "",
                              "inLal": all(a.startswith("github.com/q191201771/lal/") for a in accs[:2]),
                              "lalFrames": len(frames), "harnessFrames": len(harness)}
        return list(races.values())
    except Exception as ex:     # tooling failure of the auxiliary observer: never a verdict
        ctx.log("race run failed (%s): skipped" % ex)
        return []


def run(ctx):
    E.build_harness(ctx)
    lg = build_lockgraph(ctx)

    # ---- design: the model
    cfgs = QUICK + ([] if ctx.quick else THOROUGH)

    def one(c):
        return c, E.tlc(ctx, "MC_Locks", "MC_Locks_%s.cfg" % c, workers=max(1, E.NCPU // 3), timeout=1500)
    with cf.ThreadPoolExecutor(max_workers=3) as ex:
        for c, res in ex.map(one, cfgs):
            E.require_design_ok(ctx, res, "MC_Locks_%s" % c)
            ctx.log("MC_Locks_%s: %d distinct states, no deadlock / wait cycle / blocked send / order violation" % (c, res["distinct"]))
    res = E.tlc(ctx, "MC_Locks", "MC_Locks_LIVE.cfg", timeout=900, workers=max(1, E.NCPU // 2))
    E.require_design_ok(ctx, res, "MC_Locks_LIVE (every call completes under fairness)")
    neg = E.tlc(ctx, "MC_Locks", "MC_Locks_NEG.cfg", timeout=300, workers=2)
    if neg["ok"] or neg["inv"] != "NoBlockedSend":
        raise E.Infra("the model does not see a third Dispose block on the exit channel: it lost its sensitivity")

    # ---- static binding: facts of the current source tree
    p = subprocess.run([lg, "-repo", os.path.realpath(E.REPO)], capture_output=True, text=True, env=E.goenv(), timeout=600)
    if p.returncode != 0:
        raise E.Infra("lockgraph failed: " + p.stderr[-2000:])
    facts = [json.loads(l) for l in p.stdout.splitlines() if l.strip()]
    if not any(f["ev"] == "Edge" for f in facts) or not any(f["ev"] == "Mutex" for f in facts):
        raise E.Infra("lockgraph extracted no lock graph")
    for f in facts:
        # the functions of the witness sites, without file positions (TLC has no substring operator on strings)
        if f["ev"] in ("Close", "CloseUnder"):
            f["fns"] = [w.split(" @")[0] for w in f.get("witness", [])]
    rows = [{"ev": "reset", "sc": 0}] + facts
    nf = {}
    for f in facts:
        nf[f["ev"]] = nf.get(f["ev"], 0) + 1
    ctx.log("lockgraph: %s" % ", ".join("%s=%d" % kv for kv in sorted(nf.items())))

    # ---- dynamic binding: stress runs
    scen = []
    if ctx.quick:
        scen.append({"sc": 1, "ms": 8000, "workers": 2, "streams": 3, "boundMs": 10000})
    else:
        for i in range(3):
            scen.append({"sc": 1 + i, "ms": 30000, "workers": 2 + i, "streams": 2 + i, "boundMs": 10000})
    sp, tp = ctx.path("scen.ndjson"), ctx.path("trace.ndjson")
    E.write_ndjson(sp, scen)
    E.run_driver(ctx, "stress", sp, tp, timeout=900)
    srows = E.read_ndjson(tp)
    calls = sum(r.get("calls", 0) for r in srows if r.get("ev") == "Stress")
    ctx.log("stress: %d runs, %d watched calls into lal, max latency %d us" % (
        len(scen), calls, max([r.get("maxLatencyUs", 0) for r in srows if r.get("ev") == "Stress"] or [0])))
    rows += srows

    races = []
    if not ctx.quick:
        races = race_run(ctx, {"sc": 99, "ms": 15000, "workers": 2, "streams": 3, "boundMs": 60000})
        ctx.log("race detector (auxiliary, not the decider): %d distinct reports, %d with both accesses inside lal" % (
            len(races), sum(1 for r in races if r["inLal"])))
        for r in races[:20]:
            ctx.log("  race: %s  <->  %s" % (r["a"], r["b"]))
        rows += [{"ev": "reset", "sc": 99}] + races
        ctx.cov["race_reports_auxiliary"] = [r["a"] + " <-> " + r["b"] for r in races if r["inLal"]][:20]

    ctx.cov["traces_validated_against_impl"] = len(scen) + 1
    ctx.cov["evaluations"] = len(facts) + calls
    ctx.cov["distinct_nontrivial"] = len(facts) + len(scen)
    ctx.cov["rule"] = ("every goroutine class of the server as a process over the mutex / channel instruction set, "
                       "exhaustively interleaved in %d process groups; every nested acquisition, send / close under a mutex, "
                       "unprotected access and leaked mutex extracted from the source tree; %d stress runs with a watchdog on "
                       "every call" % (len(cfgs), len(scen)))
    ctx.sample([f for f in facts if f["ev"] == "Edge"][0])
    ctx.sample([r for r in srows if r.get("ev") == "Stress"][0] if len(srows) > 1 else srows[0])

    rej = E.validate(ctx, "Trace_Locks", "Trace_Locks.cfg", rows)
    # one finding per struct for unprotected accesses (one missing Lock shows up at many fields)
    ung = {}
    for r in rej:
        if r["event"]["ev"] == "Unguarded":
            ung.setdefault(r["event"]["struct"], []).append(r["event"])
    for st, evs in sorted(ung.items()):
        evs.sort(key=lambda e: (not e["write"], e["fn"].split(").")[-1][:1].islower(), e["pos"]))
        text = "; ".join("%s in %s (%s)" % (e["field"], e["fn"], e["pos"]) for e in evs[:6])
        E.report(ctx, "Unguarded:%s" % st, "rejected Unguarded: state of %s accessed without %s: %s%s" % (
            st, evs[0]["mu"], text, " ..." if len(evs) > 6 else ""), {"events": evs})
    for r in rej:
        ev = r["event"]
        k = ev["ev"]
        if k == "Unguarded":
            continue
        if k in ("Edge", "SendUnder", "CloseUnder"):
            sig = "%s:%s->%s" % (k, ev["from"], ev["to"])
            text = "%s while holding %s; witness: %s" % (ev["to"], ev["from"], " | ".join(ev["witness"]))
        elif k == "Leak":
            sig = "Leak:%s" % ev["mu"]
            text = "%s still held when %s returns (%s)" % (ev["mu"], ev["fn"], ev["pos"])
        elif k == "RWrite":
            sig = "RWrite:%s" % ev["mu"]
            text = "%s holds %s in read mode (%s) and the struct it guards is written at %s" % (ev["fn"], ev["mu"], ev["pos"], ev["write"])
        elif k == "Mutex":
            sig = "Mutex:%s" % ev["mu"]
            text = "mutex %s is not part of the specification (acquired by %s)" % (ev["mu"], ev["fns"][:4])
        elif k == "Reach":
            sig = "Reach:%s" % ev["chan"]
            text = "send on %s reached from functions outside the design: %s" % (ev["chan"], ev["fns"])
        elif k in ("Send", "Close"):
            sig = "%s:%s" % (k, ev["to"])
            text = "%s on %s at %d places: %s" % (k, ev["to"], ev["sites"], ev["witness"])
        elif k == "Stress":
            if ev.get("died"):
                sig = "Stress:died:%s" % re.sub(r"[^A-Za-z]+", "_", ev.get("crash", ""))[:40]
            elif ev.get("hung"):
                sig = "Stress:hung:%s" % ev.get("hungAt")
            else:
                sig = "Stress:other"
            text = "stress run: %s" % json.dumps(ev)[:400]
        else:
            sig = k
            text = json.dumps(ev)[:300]
        E.report(ctx, sig, "rejected %s: %s" % (k, text), {"event": ev})
    ctx.assumptions += ["call resolution of lockgraph: static calls, closures, interface calls by class hierarchy over lal, "
                        "function values passed to a callee that calls its parameter; other calls through stored function "
                        "values are not followed",
                        "mutexes of naza (task pool, connection) are modelled but not extracted",
                        "data-race freedom of memory accesses is not decided by the specification (race detector = auxiliary observer)"]

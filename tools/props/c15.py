"""C15 -- a stalled consumer cannot delay others or corrupt its own framing
(spec/Backpressure.tla, spec/Trace_Backpressure.tla, driver stall)."""
import glob, os, re
import engine as E
from props.fanout_common import behaviours

# (protocol, second stream under one ServerManager)
VARIANTS = [("rtmp", False), ("rtmpmw", False), ("flv", False), ("wsflv", False), ("ts", False), ("wsts", False),
            ("rtsp", False), ("wsrtsp", False), ("flv", True), ("rtmpmw", True), ("rtsp", True)]
RTSP_HOOK = "pkg/rtsp/verif_hooks_wchan.go"   # VerifSetServerCommandSessionWriteChanSize
GOP_UNITS = 24   # frames of the cached GOP: many more than any queue under test
TCP_BOUND_US = 1000000   # real sockets on a shared machine: 1 s (a lingering close under the lock costs seconds)
BOUND_US = 100000   # delivery / call latency bound of the property: 100 ms
# frame body lengths (0 = the driver's small / several-chunk pool); the big ones are several times any piece size
# a session could cut a write into (16 KB, 32 KB, 64 KB)
SIZES = [0, 0, 0, 40000, 70000, 40000, 150000]
RTSP_SIZES = [0, 0, 0, 0, 3000, 9000]   # one RTP packet per 1.2 KB: a frame is a burst of units


def write_cfg(name, spec, n, parts, ws, maxpub, maxread, maxstall, maxsweep, healthy, invs=None, prop=None,
              view=None, emit=False, maxleave=0, elemparts=1, enq=False, deadline=True, prime=False, other=False,
              maxpubb=0, maxcmd=0):
    tf = lambda b: "TRUE" if b else "FALSE"
    lines = ["SPECIFICATION " + spec, "CONSTANTS", '  Cons = {"s1", "s2"}',
             '  Healthy = {"h"}' if healthy else "  Healthy = {}",
             '  Other = {"hb"}' if other else "  Other = {}",
             "  N = %d" % n, "  HCap = 64", "  Parts = %d" % parts, "  ElemParts = %d" % elemparts,
             "  WsMode = " + tf(ws), "  EnqAcct = " + tf(enq), "  HasDeadline = " + tf(deadline), "  Prime = " + tf(prime),
             "  MaxPub = %d" % maxpub, "  MaxRead = %d" % maxread, "  MaxStall = %d" % maxstall,
             "  MaxSweep = %d" % maxsweep, "  MaxLeave = %d" % maxleave, "  MaxPubB = %d" % maxpubb, "  MaxCmd = %d" % maxcmd]
    if invs:
        lines.append("INVARIANTS " + invs)
    if prop:
        lines.append("PROPERTY " + prop)
    if view:
        lines.append("VIEW " + view)
    if emit:
        lines.append("ACTION_CONSTRAINT Emit")
    with open(os.path.join(E.SPEC, name), "w") as f:
        f.write("\n".join(lines) + "\n")
    return name


def why_map(ctx):
    """(scenario id, line in scenario) -> reason printed by the trace spec; scenario ids skipped as racy."""
    why, skipped = {}, {}
    for p in glob.glob(os.path.join(ctx.work, "tlc-val-bp*", "out.txt")):
        with open(p, errors="replace") as f:
            for line in f:
                m = re.search(r"@WHY@(\d+):(\d+):(\w+)", line)
                if m:
                    why[(int(m.group(1)), int(m.group(2)))] = m.group(3)
                m = re.search(r"@SKIP@(\d+):([\w ]+)", line)
                if m:
                    skipped[int(m.group(1))] = m.group(2)
    return why, skipped


def run(ctx):
    rtsp_ok = os.path.exists(os.path.join(E.REPO, RTSP_HOOK))
    E.build_harness(ctx, tags="verif,verif_c15rtsp" if rtsp_ok else "verif")
    if not rtsp_ok:
        ctx.log("no %s in %s: RTSP subscribers are not exercised" % (RTSP_HOOK, E.REPO))
    variants = [v for v in VARIANTS if rtsp_ok or "rtsp" not in v[0]]
    q = ctx.quick
    # ---- design level: every interleaving of the fan-out loop with the writer goroutines (intended design:
    # a protocol unit is one queue element), safety for N = 1..3, liveness under fairness of the fan-out loop,
    # the timer and the write deadlines only
    for n in (1, 2, 3):
        cfg = write_cfg("MC_Backpressure_fine_%d.cfg" % n, "FineSpec", n, 1, True, 4 if q else 5, 2 if q else 3, 2, 2, False,
                        invs="WholeUnits NoBlocking QueueBound", view="FineView")
        res = E.tlc(ctx, "MC_Backpressure", cfg, timeout=1500, deadlock=False)
        E.require_design_ok(ctx, res, cfg)
        ctx.log("design N=%d: %d distinct states, WholeUnits / NoBlocking / QueueBound hold" % (n, res["distinct"]))
    for (n, mp, mr, ms) in ([(1, 2, 2, 2)] if q else [(1, 4, 2, 2), (2, 4, 2, 2), (3, 3, 2, 1)]):
        cfg = write_cfg("MC_Backpressure_live_%d.cfg" % n, "FineFair", n, 1, False, mp, mr, ms, 0, False,
                        prop="EventuallyClosed")
        res = E.tlc(ctx, "MC_Backpressure", cfg, timeout=1500, deadlock=False)
        E.require_design_ok(ctx, res, cfg)
        ctx.log("liveness N=%d: %d distinct states, EventuallyClosed holds" % (n, res["distinct"]))
    # elements of two parts (two messages merged into one Writev: read part by part, kept or dropped together)
    cfg = write_cfg("MC_Backpressure_merge.cfg", "FineSpec", 2, 1, False, 3 if q else 4, 3, 2, 2, False,
                    invs="WholeUnits NoBlocking QueueBound", view="FineView", elemparts=2)
    res = E.tlc(ctx, "MC_Backpressure", cfg, timeout=1500, deadlock=False)
    E.require_design_ok(ctx, res, cfg)
    ctx.log("design, merged writes: %d distinct states, WholeUnits / NoBlocking / QueueBound hold" % res["distinct"])
    # a second producer: the read loop of a consumer answers requests (one element per answer) at any moment of the fan-out
    cfg = write_cfg("MC_Backpressure_reply.cfg", "FineSpec", 2, 1, False, 2 if q else 3, 2, 2, 1, False,
                    invs="WholeUnits NoBlocking QueueBound", view="FineView", maxcmd=2)
    res = E.tlc(ctx, "MC_Backpressure", cfg, timeout=1500, deadlock=False)
    E.require_design_ok(ctx, res, cfg)
    ctx.log("design, answers to the consumer's requests: %d distinct states, WholeUnits / NoBlocking / QueueBound hold" % res["distinct"])
    # RTSP interleaved: no write deadline, liveness accounted at enqueue: the sweep alone must cut a stalled consumer
    cfg = write_cfg("MC_Backpressure_live_rtsp.cfg", "FineFair", 1 if q else 2, 1, False, 2 if q else 3, 2, 2, 0, False,
                    prop="EventuallyClosed", enq=True, deadline=False)
    res = E.tlc(ctx, "MC_Backpressure", cfg, timeout=1500, deadlock=False)
    E.require_design_ok(ctx, res, cfg)
    ctx.log("liveness without write deadline, accounting at enqueue: %d distinct states, EventuallyClosed holds" % res["distinct"])
    # the same model with a unit enqueued as two elements must show the cut unit (sanity of the invariant)
    cfg = write_cfg("MC_Backpressure_split.cfg", "FineSpec", 2, 2, True, 3, 2, 1, 1, False, invs="WholeUnits",
                    view="FineView")
    res = E.tlc(ctx, "MC_Backpressure", cfg, timeout=600, deadlock=False)
    if res["inv"] != "WholeUnits":
        raise E.Infra("the two-element model does not violate WholeUnits: the invariant is vacuous")
    ctx.log("negative model (header and payload as two elements): TLC finds the cut unit")

    # ---- schedules: edge cover of the call-level model per queue size (a second stream included), every path run
    # for every protocol variant
    scen = []
    kinds = ["key", "inter", "inter", "aud", "meta"]
    for n in (1, 2, 3):
        cfg = write_cfg("MC_Backpressure_gen_%d.cfg" % n, "GSpec", n, 1, False, 6, 4 if q else 3, 2,
                        3, True, invs="Quiescent QueueBound WholeUnits", view="GView", emit=not q, maxleave=1,
                        prime=True, other=True, maxpubb=2 if q else 1, maxcmd=3 if q else 1)
        if q:
            # quick: TLC-simulated behaviours of the same model (the exhaustive run with its edge cover is thorough);
            # half of them with a single sweep, so that the consumers live long enough to be read slowly
            paths = []
            with open(os.path.join(E.SPEC, cfg)) as f:
                base = f.read().replace("VIEW GView\n", "") + "ACTION_CONSTRAINT EmitA\n"
            for (tag, sweeps, num) in (("a", 1, 25), ("b", 3, 20)):
                simcfg = cfg.replace("gen_", "sim%s_" % tag)
                with open(os.path.join(E.SPEC, simcfg), "w") as f:
                    f.write(base.replace("MaxSweep = 3", "MaxSweep = %d" % sweeps))
                res = E.tlc(ctx, "MC_Backpressure", simcfg, name="sim%s-%d" % (tag, n), workers=1, timeout=300,
                            deadlock=False, simulate="num=%d" % num, depth=22)
                if res["errors"]:
                    raise E.Infra("simulation found a model error: %s" % res["errors"][:2])
                paths += behaviours(res)
            ctx.log("schedules N=%d: %d simulated behaviours" % (n, len(paths)))
        else:
            res = E.tlc(ctx, "MC_Backpressure", cfg, timeout=1500, deadlock=False)
            E.require_design_ok(ctx, res, cfg)
            g = E.Graph.load(res)
            paths, ncov = g.edge_cover(ctx.rng, max_len=22, max_paths=500)
            ctx.log("schedules N=%d: %d abstract states, %d edges, %d paths (%d edges covered)" %
                    (n, res["distinct"], g.nedges, len(paths), ncov))
        for p in paths:
            for (proto, two) in variants:
                sizes = RTSP_SIZES if "rtsp" in proto else SIZES
                # the publisher sends its sequence headers, the consumers join, and the first frame (which hands a
                # fresh consumer the cached headers as well) is published while all of them read
                steps = [{"name": "PubArrive"}, {"name": "Publish", "t": "vsh"}, {"name": "Publish", "t": "ash"},
                         {"name": "Join"}, {"name": "Publish", "t": "key"}]
                first, firstb, ncmd = False, True, 0
                # in half of the plain RTSP scenarios the consumers send an RTCP receiver report before every sweep
                # (a player that has stopped reading still runs its RTCP timer)
                reports = proto == "rtsp" and ctx.rng.randrange(2) == 0
                for a in p:
                    if a["name"] == "PublishB" and not two:
                        continue
                    st = {"name": a["name"]}
                    if "c" in a:
                        st["c"] = a["c"]
                    if a["name"] == "Sweep" and reports:
                        steps += [{"name": "RR", "c": "s1"}, {"name": "RR", "c": "s2"}]
                    if a["name"] == "Publish":
                        st["t"] = "key" if first else kinds[ctx.rng.randrange(len(kinds))]
                        if st["t"] in ("key", "inter", "aud"):
                            st["n"] = sizes[ctx.rng.randrange(len(sizes))]
                        first = False
                    if a["name"] == "PublishB":
                        st["t"] = "key" if firstb else "inter"
                        firstb = False
                    if a["name"] == "Cmd":
                        # a request the session answers on the consumer's own connection; answers of different
                        # lengths in a row (ping response 18 bytes, _result 41; CSeq of one to five digits)
                        if proto in ("rtmp", "rtmpmw"):
                            st["k"], st["v"] = [("ping", 1000 + ncmd), ("cs", 10 + ncmd), ("ping", 70000 + ncmd)][ncmd % 3]
                        elif "rtsp" in proto:
                            st["k"], st["v"] = "opt", [7, 12345, 88][ncmd % 3] + 100 * (ncmd // 3)
                        else:
                            continue
                        ncmd += 1
                        # one to three requests in a row: the later answers are built while the earlier ones wait
                        for _ in range(ctx.rng.randrange(3)):
                            steps.append(dict(st))
                            st = dict(st)
                            if proto in ("rtmp", "rtmpmw"):
                                st["k"], st["v"] = [("ping", 1000 + ncmd), ("cs", 10 + ncmd), ("ping", 70000 + ncmd)][ncmd % 3]
                            else:
                                st["v"] = [7, 12345, 88][ncmd % 3] + 100 * (ncmd // 3)
                            ncmd += 1
                    steps.append(st)
                    if a["name"] == "PubArrive":      # a returning publisher starts with its headers and a key frame
                        steps += [{"name": "Publish", "t": "vsh"}, {"name": "Publish", "t": "ash"}]
                        first = True
                    if two and ctx.rng.randrange(4) == 0:   # a look at all groups under the ServerManager lock
                        steps.append({"name": "Stat"})
                scen.append({"sc": len(scen), "cfgId": "%s%s-%d" % (proto, "+B" if two else "", n),
                             "cfg": {"proto": proto, "two": two, "n": n, "boundUs": BOUND_US}, "steps": steps})
    # ---- a joiner that does not read, on a stream whose GOP cache holds more units than its queue: the cached GOP is
    # handed to it in one burst under Group.mutex at the first publish after its join; the overflow is dropped in whole
    # units and neither that call nor any other is held up
    for n in (1, 2, 3):
        for proto in ("rtmp", "flv", "wsflv", "ts"):
            steps = [{"name": "PubArrive"}, {"name": "Publish", "t": "vsh"}, {"name": "Publish", "t": "ash"},
                     {"name": "Publish", "t": "key"}] + [{"name": "Publish", "t": "inter"} for _ in range(GOP_UNITS - 1)]
            steps += [{"name": "Join"}, {"name": "Stall", "c": "s1"}, {"name": "Publish", "t": "inter"},
                      {"name": "Publish", "t": "inter"}, {"name": "Read", "c": "s1"}, {"name": "Publish", "t": "key"},
                      {"name": "Sweep"}, {"name": "Publish", "t": "inter"}, {"name": "Resume", "c": "s1"},
                      {"name": "Publish", "t": "inter"}]
            scen.append({"sc": len(scen), "cfgId": "%s-gop-%d" % (proto, n),
                         "cfg": {"proto": proto, "two": False, "gop": 1, "n": n, "boundUs": BOUND_US}, "steps": steps})
    # ---- consumers on real loopback TCP connections through the servers' own per-connection routines: the cost of the
    # socket operations lal performs under Group.mutex (close of a stalled consumer by the sweep, kick).  Fixed
    # schedule, judged on measured durations with a bound generous enough for a loaded machine.
    ntcp = 0
    for rep in range(1 if q else 3):
        for proto in (["rtsp"] if rtsp_ok else []) + ["rtmp"]:
            scen.append({"sc": len(scen), "cfgId": "tcp-%s" % proto,
                         "cfg": {"proto": proto, "tcp": True, "n": 3, "boundUs": TCP_BOUND_US}, "steps": []})
            ntcp += 1
    sp, tp = ctx.path("scen.ndjson"), ctx.path("trace.ndjson")
    E.write_ndjson(sp, scen)
    E.run_driver(ctx, "stall", sp, tp, timeout=3000)
    rows = E.read_ndjson(tp)
    rej = E.validate(ctx, "Trace_Backpressure", "Trace_Backpressure.cfg", rows, name="val-bp")
    why, skipped = why_map(ctx)
    ctx.log("validated %d events of %d scenarios; %d scenarios cut short (burst larger than the queue met an idle "
            "writer of a stalled consumer that was left unprimed, or the healthy consumer was swept while others "
            "were still connected)" % (len(rows), len(scen), len(skipped)))
    tcp_ids = set(s["sc"] for s in scen if s["cfg"].get("tcp"))
    if tcp_ids and tcp_ids <= set(skipped) and not rej:
        raise E.Infra("every real-TCP scenario lost its healthy consumer before it could be judged (machine too loaded)")
    ctx.cov["traces_validated_against_impl"] = len(scen)
    ctx.cov["evaluations"] = len(rows)
    ctx.cov["distinct_nontrivial"] = len(scen) - len(skipped)
    ctx.cov["cut_short"] = len(skipped)
    ctx.cov["rule"] = ("scenario = init-rooted path of the call-level Backpressure graph (edge cover, N in 1..3) x protocol "
                       "(RTMP plain and behind the merge writer, HTTP-FLV, WS-FLV, HTTP-TS, WS-TS, RTSP interleaved plain and over "
                       "WebSocket; for three of them also with a second stream under one ServerManager), replayed into a real "
                       "logic.Group with a real publisher, "
                       "two sub sessions with queue size N on gated connections and one healthy sub session; "
                       "every event is an observation at goroutine quiescence")
    if scen:
        ctx.sample(scen[0])
        ctx.sample(scen[-1])
    for r in rej:
        sid = r["sc"]
        proto = scen[sid]["cfg"]["proto"] if sid is not None and sid < len(scen) else "?"
        w = why.get((sid, r["line"]), "Rejected")
        fam = "wsrtsp" if proto == "wsrtsp" else "ws" if proto.startswith("ws") else proto
        sig = "%s:%s:%s" % (w, fam, r["event"].get("ev"))
        if r["event"].get("ev") == "Tcp":
            sig = "%s:tcp-%s:%s" % (w, proto, r["event"].get("step"))
        if w.startswith("Reply"):   # an answer to the consumer's own request: one class per protocol family
            sig = "%s:%s" % (w, "rtmp" if fam.startswith("rtmp") else fam)
        E.report(ctx, sig, "trace rejected (%s) at %s, scenario %s (%s) line %d: %s" %
                 (w, r["event"].get("ev"), sid, scen[sid]["cfgId"] if sid is not None and sid < len(scen) else "?",
                  r["line"], str(r["event"])[:400]),
                 {"scenario": scen[sid] if sid is not None and sid < len(scen) else None, "trace": r["trace"]})
    ctx.assumptions += [
        "independent RTMP chunk / FLV / WebSocket / MPEG-TS readers in harness/proj",
        "the connection under a session is an in-memory net.Conn whose Write blocks until the driver lets the consumer "
        "read it; its write deadline runs on a virtual clock (the driver decides when it has passed)",
        "goroutine quiescence is read from runtime.Stack: every connection.runWriteLoop goroutine parked in its select "
        "or inside the gate",
        "RTMP sub sessions are put into the state after play by the verif hook VerifStartPlay (no handshake); RTSP "
        "sub sessions are put into the state after DESCRIBE / SETUP (interleaved) / PLAY through the exported session "
        "methods, their command connection sized by VerifSetServerCommandSessionWriteChanSize",
        "before most calls the writer of a stalled idle consumer is kept busy with a null unit written through the "
        "session's own write path, which makes the burst of the call deterministic (slow-writer branch of the race)",
        "queue elements are told apart at the socket by the SetWriteDeadline call naza makes once per element",
        "steps whose outcome is hidden by a goroutine race (burst larger than the queue meets an idle writer of a "
        "stalled consumer) are covered by the exhaustive model only, not replayed",
        "latency is wall-clock time on this machine; a scenario whose latency exceeds the bound is re-run up to 3 times",
    ]

"""C12 -- RTP packetise / depacketise (spec/Rtp.tla, driver rtp)."""
import engine as E

HB = {"avc": 1, "hevc": 2, "aac": 0, "raw": 0}
OVH = {"avc": 2, "hevc": 3, "aac": 4, "raw": 0}
AVC_AUD, HEVC_AUD = 9, 35


def npk(c, n, limit):
    """packet count of a unit of n bytes (same for lal's and the RFC reference packetiser)"""
    if c == "raw":
        return 1
    if c == "aac":
        return 1 if n + 4 <= limit else -(-n // (limit - 4))
    return 1 if n <= limit else -(-(n - HB[c]) // (limit - OVH[c]))


def klass(c, k, limit):
    """[lo, hi] of the unit sizes that give k packets"""
    cap = limit - OVH[c]
    if c == "raw":
        return 1, 4 * limit
    if c == "aac":
        return (1, cap) if k == 1 else ((k - 1) * cap + 1, k * cap)
    if k == 1:
        return HB[c], limit
    return max(limit + 1, HB[c] + (k - 1) * cap + 1), HB[c] + k * cap


class Pools:
    """rotating pools so that a run walks through every header value / rate / time"""

    def __init__(self, rng):
        self.rng = rng
        self.i = {}

    def nxt(self, key, pool):
        j = self.i.get(key, self.rng.randrange(len(pool)))
        self.i[key] = j + 1
        return pool[j % len(pool)]

    def header(self, c, k, avcc):
        if c == "avc":
            t = self.nxt("avc_t%d" % min(k, 2), list(range(1, 24)) if k == 1 else list(range(0, 32)))
            if avcc and t == AVC_AUD:
                t = 5
            return [0, self.nxt("avc_nri", [0, 1, 2, 3]), t]
        if c == "hevc":
            t = self.nxt("hevc_t%d" % min(k, 2), list(range(0, 48)) if k == 1 else list(range(0, 64)))
            if avcc and t == HEVC_AUD:
                t = 19
            return [0, t, self.nxt("hevc_l", [0, 1, 2, 31, 32, 33, 62, 63]), self.nxt("hevc_tid", [1, 2, 3, 4, 5, 6, 7])]
        return []


RATES = {"avc": [90000, 90000, 1000, 44100], "hevc": [90000, 90000, 48000], "aac": [44100, 48000, 8000, 11025, 22050, 16000, 96000],
         "pcmu": [8000], "pcma": [8000, 16000], "opus": [48000]}
BASES = [0, 40, 1001, 33333, 47721000, 47721858, 95443717, 2000000000]   # 47721858 ms * 90 kHz crosses 2^32
S0MAP = {0: [0, 1, 1000, 32766, 65000], 29: [65533], 31: [65535]}


def concretise(a, idx, P, rng):
    c, L = a["c"], a["limit"]
    codec = c if c != "raw" else P.nxt("rawc", ["pcmu", "pcma", "opus"])
    limit = 1200 if c in ("aac", "raw") else P.nxt("limit", [1200, 1200, 1400, 64, 1200, 9])
    mode = "nalu"
    if c in ("avc", "hevc") and len(a["ns"]) > 1 and P.nxt("mode", [0, 1, 0]) == 1:
        mode = "avcc"
    us = []
    for i, n in enumerate(a["ns"]):
        k = npk(c, n, L)
        lo_s, hi_s = klass(c, k, L)
        lo, hi = klass(c, k, limit)
        if k == 1 and c != "raw":
            cand = [lo, lo + 1, lo + 2] if n == lo_s else [hi, hi - 1, hi]
        elif c == "raw":
            cand = [1, 2, 160, 320] if n == 1 else [limit, limit + 1, 4000]
        else:
            cand = [lo, lo + 1] if n == lo_s else ([hi, hi - 1] if n == hi_s else [(lo + hi) // 2])
        n2 = min(max(P.nxt("sz%s%d%d" % (c, k, n == lo_s), cand), lo), hi)
        us.append({"h": P.header(c, k, mode == "avcc"), "n": n2, "id": 257 * (i + 1)})
    base = P.nxt("base", BASES)
    if mode == "avcc":
        groups = [us[i:i + 2] for i in range(0, len(us), 2)]
    else:
        groups = [[u] for u in us]
    frames = [{"ms": base + 40 * j + (j * 7) % 3, "us": g} for j, g in enumerate(groups)]
    return {"sc": idx, "c": codec, "mode": mode, "rate": P.nxt("rate" + codec, RATES[codec]), "limit": limit,
            "max": a["max"], "s0": P.nxt("s0_%d" % a["s0"], S0MAP[a["s0"]]), "frames": frames, "order": a["order"],
            "origin": "tlc", "sl": a["sl"]}


def window_orders(n, rng):
    """in order; neighbours swapped after the first packet; one packet twice; 3-rotation"""
    ident = list(range(1, n + 1))
    sw = ident[:]
    for i in range(1, n - 1, 2):
        sw[i], sw[i + 1] = sw[i + 1], sw[i]
    dup = ident[:]
    x = 1 + rng.randrange(n)
    dup.insert(x + rng.randrange(n - x + 1), x)          # a second copy at or after the first
    rot = ident[:]
    for i in range(1, n - 2, 3):
        rot[i], rot[i + 1], rot[i + 2] = rot[i + 2], rot[i], rot[i + 1]
    out = [ident]
    for o in (sw, dup, rot):
        if o not in out:
            out.append(o)
    return out


def extra_scenarios(ctx, P, start):
    """sizes around multiples of the payload limit up to 300 KiB, and the full header-value sweep"""
    scen = []
    rng = ctx.rng

    def add(codec, c, mode, limit, rate, s0, units, orders_of, maxlist=None, base=0):
        ks = [npk(c, u["n"], limit) for u in units]
        n = sum(ks)
        mx = maxlist or (max(ks) + 3)
        groups = [units] if mode == "avcc" else [[u] for u in units]
        frames = [{"ms": base + 40 * j, "us": g} for j, g in enumerate(groups)]
        for o in orders_of(n):
            scen.append({"sc": start + len(scen), "c": codec, "mode": mode, "rate": rate, "limit": limit, "max": mx,
                         "s0": s0, "frames": frames, "order": o, "origin": "sizes", "sl": 0})

    limits = [1200] if ctx.quick else [1200, 1400, 500]
    for limit in limits:
        sizes = [1, 2, 3, 4, limit - 1, limit, limit + 1, 2 * limit - 5, 2 * limit - 4, 2 * limit - 3, 2 * limit - 2, 2 * limit - 1,
                 2 * limit, 2 * limit + 1, 3 * limit - 7, 3 * limit - 6, 3 * limit - 5, 3 * limit]
        # big units: validation cost grows with the square of the packet count (about 6 s for 257 packets)
        if ctx.quick:
            sizes += [65536, 307200]
        else:
            sizes += [4 * limit - 9, 4 * limit - 8, 4 * limit - 7, 10 * limit]
            sizes += {1200: [65535, 65536, 102400, 307199, 307200, 307201], 1400: [65536, 307200], 500: [65536, 102400]}[limit]
        for c in ("avc", "hevc"):
            for n in sizes:
                if n < HB[c]:
                    continue
                k = npk(c, n, limit)
                u = {"h": P.header(c, k, False), "n": n, "id": 257}
                tail = {"h": P.header(c, 1, False), "n": 5, "id": 514}
                s0 = P.nxt("xs0", [65535, 0, 65533, 65536 - k, 65537 - k, 32768 - k // 2, 7])
                orders = (lambda m: window_orders(m, rng)) if n < 60000 else (lambda m: window_orders(m, rng)[:2])
                add(c, c, "nalu", limit, 90000, s0 % 65536, [u, tail], orders, base=P.nxt("base", BASES))
        for n in [1, 2, 3, limit - 5, limit - 4, limit - 3, limit, 2 * (limit - 4), 2 * (limit - 4) + 1, 8191]:
            u = {"h": [], "n": n, "id": 257}
            tail = {"h": [], "n": 7, "id": 514}
            add("aac", "aac", "nalu", limit, P.nxt("rateaac", RATES["aac"]), P.nxt("xs0", [65535, 0]), [u, tail],
                lambda m: window_orders(m, rng), base=P.nxt("base", BASES))
        # a run of fragmented AUs, then two whole AUs that swap places (list capacity 5, window 4)
        for nfrag in (1, 3, 4, 5, 6, 9):
            cap = limit - 4
            units = [{"h": [], "n": P.nxt("fa", [cap + 1, 2 * cap, cap + 7]), "id": 257 * (i + 1)} for i in range(nfrag)]
            units += [{"h": [], "n": 9, "id": 257 * (nfrag + 1)}, {"h": [], "n": 11, "id": 257 * (nfrag + 2)}]
            m = 2 * nfrag
            add("aac", "aac", "nalu", limit, 44100, P.nxt("xs0", [65535, 0]), units,
                lambda _m, m=m: [list(range(1, m + 1)) + [m + 2, m + 1]], maxlist=5, base=P.nxt("base", BASES))
        for codec in ("pcmu", "pcma", "opus"):
            for n in [1, 2, 160, limit, limit + 1, 8000]:
                u = {"h": [], "n": n, "id": 257}
                tail = {"h": [], "n": 3, "id": 514}
                add(codec, "raw", "nalu", limit, RATES[codec][0], P.nxt("xs0", [65535, 0]), [u, tail],
                    lambda m: window_orders(m, rng)[:2], base=P.nxt("base", BASES))

    # loss: a packet that never arrives makes the list fill up and forces progress over the hole; a second packet inside
    # the buffered range is only late (it arrives after the forced step, displaced by fewer arrivals than the list holds):
    # the receiver must stop at that second hole and deliver the late packet's unit.  Not covered by Lossless (the
    # arrival order is not a permutation); decided by the equality with the modelled receiver (Feed: forced progress,
    # then sequential drain only).
    def loss_orders(n, mx, lost, late_by, back_after):
        o = [i for i in range(1, n + 1) if i != lost]
        late = lost + late_by
        if late in o:
            o.remove(late)
            pos = o.index(lost + back_after) + 1 if (lost + back_after) in o else len(o)
            o.insert(pos, late)
        return o
    for c in ("avc", "hevc"):
        for kfrag in (1, 3):
            for mx, late_by, back in ((8, 3, 10), (16, 6, 18), (8, 2, 9), (16, 0, 0), (6, 4, 7)):
                limit = 100
                lo, hi = klass(c, kfrag, limit)
                nun = (mx + 14 + kfrag) // kfrag
                units = [{"h": P.header(c, min(kfrag, 2), False), "n": lo + (i * 7) % (hi - lo + 1), "id": 257 * (i % 200 + 1)} for i in range(nun)]
                lost = 4 * kfrag + 1 + (mx % 3)
                s0 = P.nxt("ls0", [1000, 65536 - lost - 3, 65536 - lost - mx])
                add(c, c, "nalu", limit, 90000, s0, units,
                    lambda m, mx=mx, lost=lost, late_by=late_by, back=back: [loss_orders(m, mx, lost, late_by, back)] if late_by
                    else [[i for i in range(1, m + 1) if i != lost]], maxlist=mx)

    # every header value: H.264 32 types x 4 NRI (FU), 23 x 4 (single); H.265 64 types (FU) / 48 (single) x layer x TID
    hdrs = []
    for t in range(0, 32):
        for nri in range(4):
            hdrs.append(("avc", [0, nri, t], 2))
            if 1 <= t <= 23:
                hdrs.append(("avc", [0, nri, t], 1))
    lays = [0, 1, 31, 32, 63] if ctx.quick else [0, 1, 2, 15, 16, 31, 32, 33, 62, 63]
    for t in range(0, 64):
        for lay in lays:
            for tid in ([1, 7] if ctx.quick else [1, 2, 3, 4, 5, 6, 7]):
                hdrs.append(("hevc", [0, t, lay, tid], 2))
                if t < 48:
                    hdrs.append(("hevc", [0, t, lay, tid], 1))
    for c in ("avc", "hevc"):
        mine = [h for h in hdrs if h[0] == c]
        per = 6
        for g in range(0, len(mine), per):
            limit = P.nxt("hl", [64, 1200, 9, 100])
            units = []
            for i, (_, h, k) in enumerate(mine[g:g + per]):
                lo, hi = klass(c, k, limit)
                units.append({"h": h, "n": P.nxt("hs%d" % k, [lo, hi, lo + 1]) if k == 2 else P.nxt("hs1", [lo, lo + 3, hi]),
                              "id": 257 * (i + 1)})

            def one(m):
                ws = window_orders(m, rng)
                return [ws[P.nxt("ho", [0, 1, 2, 3]) % len(ws)]]
            add(c, c, "nalu", limit, 90000, P.nxt("xs0", [65530, 0, 65535]), units, one, maxlist=6)
    return scen


def in_win(order, n, w):
    """python rendering of Rtp!InWin, used only to name the class of a rejected event"""
    if not order or order[0] != 1 or set(order) != set(range(1, n + 1)):
        return False
    got, oldest = set(), 1
    for i in order:
        if i not in got and i >= oldest + w:
            return False
        got.add(i)
        while oldest in got:
            oldest += 1
    return True


def diag(ev):
    """describe (not decide) what differs, for a stable signature"""
    c = ev["c"]
    exp = [{"h": u["h"], "n": u["n"]} for u in ev["us"]]

    def units_diff(got):
        if len(got) < len(exp):
            return "lost"
        if len(got) > len(exp):
            return "extra"
        for g, x in zip(got, exp):
            if g["h"] != x["h"]:
                return "hdr"
            if g["n"] != x["n"]:
                return "size"
            if not g["ok"] or g["off"] != 0:
                return "data"
        return None

    if ev["ev"] == "Pack":
        pk = [p for fr in ev["pk"] for p in fr]
        kind = "fu" if any(p["k"] == "fu" for p in pk) else ("frag" if len(pk) > len(exp) else "whole")
        why = None
        if c in ("avc", "hevc") and any(p["size"] > ev["limit"] for p in pk):
            why = "limit"
        elif any(fr and [p["m"] for p in fr] != [0] * (len(fr) - 1) + [1] for fr in ev["pk"]):
            why = "marker"
        elif [p["seq"] for p in pk] != [(ev["s0"] + i) % 65536 for i in range(len(pk))]:
            why = "seq"
        else:
            for fr, f in zip(ev["pk"], ev["frames"]):
                t = (f["ms"] * ev["rate"] // 1000) % (1 << 32)
                if any(p["ts"] != [t >> 16, t & 0xffff] for p in fr):
                    why = "ts"
        why = why or units_diff(ev["ref"]) or "structure"
        return "Pack:%s:%s:%s:%s" % (ev["src"], ev["codec"] if c == "raw" else c, kind, why)
    pk = ev["pkts"]
    kind = "fu" if any(p["k"] == "fu" for p in pk) else ("frag" if len(pk) > len(exp) else "whole")
    o = ev["order"]
    kmax = 1 if (c == "aac" and ev["src"] == "lal") else max(npk(c, u["n"], ev["limit"]) for u in ev["us"])
    arr = "inorder" if o == sorted(set(o)) else ("window" if in_win(o, len(pk), ev["max"] - kmax + 1) else "outside")
    why = units_diff(ev["out"]) or "model"
    return "Feed:%s:%s:%s:%s:%s" % (ev["src"], ev["codec"] if c == "raw" else c, kind, arr, why)


def run(ctx):
    E.build_harness(ctx)
    cfg = "MC_Rtp_q.cfg" if ctx.quick else "MC_Rtp_t.cfg"
    res = E.tlc(ctx, "MC_Rtp", cfg, timeout=1500, deadlock=False)
    E.require_design_ok(ctx, res, cfg)
    acts = list(E.emitted(res, "@S@"))
    ctx.log("%s: %d (unit sizes x first seq x arrival order x duplicate) cases, PackerOK/Prefix/Lossless/WinSound hold on all"
            % (cfg, len(acts)))
    # execute a seeded sample of the enumerated cases: all "shapes" (codec, sizes, order) at least once per first-seq class
    want = 6000 if ctx.quick else 60000
    ctx.rng.shuffle(acts)
    acts = acts[:want]
    P = Pools(ctx.rng)
    scen = [concretise(a, i, P, ctx.rng) for i, a in enumerate(acts)]
    ntlc = len(scen)
    extra = extra_scenarios(ctx, P, len(scen))
    # spread the (heavier) extra scenarios evenly so that the validation shards are balanced
    ctx.rng.shuffle(extra)
    step = max(1, len(scen) // max(1, len(extra)))
    merged = []
    for i, s in enumerate(scen):
        merged.append(s)
        if i % step == step - 1 and extra:
            merged.append(extra.pop(0))
    scen = merged + extra
    sp, tp = ctx.path("scen.ndjson"), ctx.path("trace.ndjson")
    E.write_ndjson(sp, scen)
    E.run_driver(ctx, "rtp", sp, tp, timeout=1200)
    rows = E.read_ndjson(tp)
    nev = sum(1 for r in rows if r["ev"] != "reset")
    ctx.cov["traces_validated_against_impl"] = len(scen)
    ctx.cov["evaluations"] = nev
    ctx.cov["distinct_nontrivial"] = len(scen)
    ctx.cov["rule"] = ("seeded sample of %d of the TLC-enumerated cases (unit sizes at the fragment-count boundaries x first "
                       "sequence number at the wrap x every arrival order inside the window (+1 outside) x one duplicate), "
                       "re-concretised with real sizes/limits/headers/clock rates, each run through lal packer -> spec + RFC "
                       "depacketiser, RFC packer -> lal container, lal packer -> lal container; plus %d scenarios for sizes "
                       "1..300 KiB around multiples of the limit and the sweep of all NAL header values" % (ntlc, len(scen) - ntlc))
    ctx.sample({k: v for k, v in scen[0].items()})
    ctx.sample({k: v for k, v in scen[-1].items()})
    rej = E.validate(ctx, "Trace_Rtp", "Trace_Rtp.cfg", rows, shards=max(2, min(E.NCPU, 8)))
    for r in rej:
        ev = r["event"]
        sig = diag(ev)
        small = {k: v for k, v in ev.items() if k not in ("pk", "pkts")}
        sc = next((s for s in scen if s["sc"] == r["sc"]), None)
        E.report(ctx, sig, "rejected %s of scenario %s: %s" % (ev["ev"], r["sc"], str(small)[:400]),
                 {"scenario": sc, "event": small})
    ctx.assumptions += ["independent RTP reader and RFC 6184/7798/3640 packetiser/depacketiser harness/proj/rtp.go",
                        "the receiver synchronises on the first packet it sees: the first arrival is the first packet sent",
                        "single NAL unit packets carry H.264 types 1..23 / H.265 types 0..47 (RFC 6184/7798); other types only in FUs",
                        "F bit 0, H.265 TID 1..7; AVCC-mode packing drops AUD units by design (not part of the pools)",
                        "reorder window W = list capacity - packets of the largest unit + 1 (verified tight on the scaled model)"]

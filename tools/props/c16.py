"""C16 -- when an input ends every output is finalised once and the name starts clean
(spec/Lifecycle.tla with every output enabled + spec/Fanout.tla across publisher epochs)."""
from props.lifecycle_common import run_lifecycle
from props.fanout_common import run_fanout


def run(ctx):
    if ctx.quick:
        run_lifecycle(ctx, bfs=[("F1", 2, 0)], emit=[], sim=[("F1", 4, 0, 250, 18)], leak=("F1", 40))
        run_fanout(ctx, bfs=[("A", 4, 2)], emit=[], sim=[("A", 10, 3, 150, 18), ("D", 10, 3, 150, 18)])
    else:
        run_lifecycle(ctx, bfs=[("F1", 3, 0)], emit=[("F1", 1, 0)], sim=[("F1", 6, 0, 3000, 26)], leak=("F1", 200))
        run_fanout(ctx, bfs=[("A", 5, 2), ("D", 4, 2)], emit=[("A", 3, 2)],
                   sim=[("A", 12, 3, 1500, 24), ("D", 12, 3, 1500, 26)])

"""C16 -- when an input ends every output is finalised once and the name starts clean
(spec/Lifecycle.tla with every output enabled, and its idle sweep with wire publishers + spec/Fanout.tla across publisher epochs for RTMP / HTTP-FLV consumers +
spec/Republish.tla across publisher epochs for HTTP-TS / HLS / RTSP consumers)."""
from props.lifecycle_common import run_lifecycle, DIRECTED_F3
from props.fanout_common import run_fanout
from props.republish_common import run_republish
from props.c10 import run_cleanup


def run(ctx):
    if ctx.quick:
        run_lifecycle(ctx, bfs=[("F1", 2, 0), ("S1", 2, 0), ("S2", 2, 0), ("S3", 2, 0)], emit=[("S0", 1, 0), ("H0", 1, 0)],
                      sim=[("F1", 4, 0, 250, 18), ("S1", 3, 0, 150, 18), ("S2", 3, 0, 100, 18), ("S3", 3, 0, 150, 18), ("F2", 4, 3, 150, 16),
                           # relay-push sessions are closed when the input leaves, and none is left behind by the next publisher
                           ("U1", 3, 3, 60, 14)], leak=("F1", 40), directed=DIRECTED_F3)
        run_fanout(ctx, bfs=[("A", 4, 2)], emit=[], sim=[("A", 10, 3, 150, 18), ("D", 10, 3, 150, 18)])
        run_republish(ctx)
        run_cleanup(ctx)
    else:
        run_lifecycle(ctx, bfs=[("F1", 3, 0), ("S1", 3, 0), ("S2", 3, 0), ("S3", 3, 0)], emit=[("F1", 1, 0), ("S0", 2, 0), ("H0", 2, 0)],
                      sim=[("F1", 6, 0, 3000, 26), ("S1", 5, 0, 1500, 24), ("S2", 5, 0, 1000, 24), ("S3", 5, 0, 1500, 24), ("F2", 5, 4, 1500, 22), ("H1", 5, 0, 1000, 24), ("F3", 5, 4, 1000, 22),
                           ("U1", 5, 5, 400, 20), ("U2", 5, 5, 300, 20)], leak=("F1", 200), directed=DIRECTED_F3)
        run_fanout(ctx, bfs=[("A", 5, 2), ("D", 4, 2)], emit=[("A", 3, 2)],
                   sim=[("A", 12, 3, 1500, 24), ("D", 12, 3, 1500, 26)])
        run_republish(ctx)
        # the HLS output of a later publisher of the same name survives the delayed cleanup its predecessor armed (spec/HlsCleanup.tla)
        run_cleanup(ctx)

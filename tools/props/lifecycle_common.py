"""Shared machinery of C03 / C16 / C17: spec/Lifecycle.tla, driver lifecycle."""
import os
import engine as E
from props.fanout_common import tla_set, behaviours

INVS = "AtMostOneInput PipelineOwned NotifyPaired PullSane PushSane PlayerSane"

CFGS = {
    # stage 1: every kind of input and output, no relay pull
    "L1": dict(RtmpPubs=["p1", "p2"], RtspPubs=["q1"], CustPubs=["k1"], PsPubs=["g1"], RtmpSubs=["s1"], FlvSubs=["f1"],
               PullRetry=0, PullAuto=-1, PullEnabled=False),
    # relay pull: retry budget n / forever / never, auto-stop after a window / never / immediately
    "P1": dict(RtmpPubs=["p1"], RtspPubs=[], CustPubs=[], PsPubs=[], RtmpSubs=["s1"], FlvSubs=[],
               PullRetry=1, PullAuto=1, PullEnabled=True, Hook=False),
    # relay push: one / two targets, RTMP and RTSP publishers, URL parameters of several lengths
    "U1": dict(RtmpPubs=["p1", "p2x"], RtspPubs=[], CustPubs=["k1"], PsPubs=[], RtmpSubs=[], FlvSubs=[],
               PullRetry=0, PullAuto=-1, PullEnabled=False, Hook=False, Push=["t1"], ParamLen=300),
    "U2": dict(RtmpPubs=["p1"], RtspPubs=["q1"], CustPubs=[], PsPubs=[], RtmpSubs=[], FlvSubs=[],
               PullRetry=0, PullAuto=-1, PullEnabled=False, Hook=False, Push=["t1", "t2"], ParamLen=1000),
    "U3": dict(RtmpPubs=["p1"], RtspPubs=[], CustPubs=[], PsPubs=[], RtmpSubs=[], FlvSubs=[],
               PullRetry=0, PullAuto=-1, PullEnabled=False, Hook=False, Push=["t1"], ParamLen=70000),
    # small pull configurations whose whole state graph is replayed (edge cover)
    # idle sweep (C16): wire publishers = real RTMP connections served by the server's own routine
    "S0": dict(RtmpPubs=[], RtspPubs=[], CustPubs=[], PsPubs=[], RtmpSubs=["s1"], FlvSubs=[], WirePubs=["w1"], MaxSweep=3,
               PullRetry=0, PullAuto=-1, PullEnabled=False, Hook=True),
    "S1": dict(RtmpPubs=[], RtspPubs=[], CustPubs=[], PsPubs=[], RtmpSubs=["s1"], FlvSubs=["f1"], WirePubs=["w1", "w2"], MaxSweep=3,
               PullRetry=0, PullAuto=-1, PullEnabled=False, Hook=True),
    "S2": dict(RtmpPubs=["p1"], RtspPubs=[], CustPubs=["k1"], PsPubs=[], RtmpSubs=["s1"], FlvSubs=[], WirePubs=["w1"], MaxSweep=4,
               PullRetry=0, PullAuto=-1, PullEnabled=False, Hook=False),
    # RTSP publishers set up completely (interleaved), keep-alives on the command connection, players asking for the description
    "S3": dict(RtmpPubs=["p1"], RtspPubs=["q1", "q2"], CustPubs=[], PsPubs=[], RtmpSubs=["s1"], FlvSubs=[], MaxSweep=3, Describe=True,
               PullRetry=0, PullAuto=-1, PullEnabled=False, Hook=True),
    "P0": dict(RtmpPubs=[], RtspPubs=[], CustPubs=[], PsPubs=[], RtmpSubs=["s1"], FlvSubs=[],
               PullRetry=1, PullAuto=-1, PullEnabled=True, Hook=False),
    "P4": dict(RtmpPubs=["p1"], RtspPubs=[], CustPubs=[], PsPubs=[], RtmpSubs=[], FlvSubs=[],
               PullRetry=0, PullAuto=-1, PullEnabled=True, Hook=True),
    "P2": dict(RtmpPubs=["p1"], RtspPubs=[], CustPubs=[], PsPubs=[], RtmpSubs=[], FlvSubs=["f1"],
               PullRetry=-1, PullAuto=-1, PullEnabled=True),
    "P6": dict(RtmpPubs=[], RtspPubs=[], CustPubs=[], PsPubs=[], RtmpSubs=["s1"], FlvSubs=[],
               PullRetry=-1, PullAuto=1, PullEnabled=True, Hook=False),
    "P3": dict(RtmpPubs=["p1", "p2"], RtspPubs=[], CustPubs=[], PsPubs=[], RtmpSubs=["s1"], FlvSubs=[],
               PullRetry=0, PullAuto=0, PullEnabled=True, Hook=False),
    # C16: every output enabled (HLS, HTTP-TS, FLV + TS recording, hook), inputs of every kind, shutdown
    "F1": dict(RtmpPubs=["p1", "p2"], RtspPubs=[], CustPubs=["k1"], PsPubs=["g1"], RtmpSubs=["s1"], FlvSubs=[],
               PullRetry=0, PullAuto=-1, PullEnabled=False, Outputs=True, Shutdown=True),
    # shutdown while a relay pull is the input (or an attempt is in flight): its connection is one of the server's sessions
    "F2": dict(RtmpPubs=["p1"], RtspPubs=[], CustPubs=[], PsPubs=[], RtmpSubs=["s1"], FlvSubs=[],
               PullRetry=1, PullAuto=-1, PullEnabled=True, Outputs=True, Shutdown=True),
    # HTTP-TS subscribers next to the others (stat listing, notifications, kick, group liveness)
    "L3": dict(RtmpPubs=["p1", "p2"], RtspPubs=[], CustPubs=["k1"], PsPubs=[], RtmpSubs=["s1"], FlvSubs=[], TsSubs=["h1", "h2"],
               PullRetry=0, PullAuto=-1, PullEnabled=False),
    # notifications through lal's own HttpNotify worker (bounded queue, JSON over HTTP) to a stub web hook
    "L4": dict(RtmpPubs=["p1", "p2"], RtspPubs=["q1"], CustPubs=[], PsPubs=[], RtmpSubs=["s1"], FlvSubs=["f1"], HttpNotify=True,
               PullRetry=0, PullAuto=-1, PullEnabled=False),
    "P5": dict(RtmpPubs=["p1"], RtspPubs=[], CustPubs=[], PsPubs=[], RtmpSubs=["s1"], FlvSubs=[], HttpNotify=True,
               PullRetry=1, PullAuto=-1, PullEnabled=True, Hook=False),
    "L2": dict(RtmpPubs=["p1"], RtspPubs=[], CustPubs=["k1"], PsPubs=["g1"], RtmpSubs=[], FlvSubs=["f1"],
               PullRetry=0, PullAuto=-1, PullEnabled=False),
    # HLS subscribers (hls.sub_session_hash_key set): sessions opened by the first playlist request, kept alive by requests with
    # their session_id, ended by the handler's sweep after the timeout or a kick.  H0: whole graph replayed; H1: next to RTMP /
    # HTTP-FLV subscribers and two publishers; H2: the HLS session as the consumer a relay pull with auto-stop depends on
    "H0": dict(RtmpPubs=["p1"], RtspPubs=[], CustPubs=[], PsPubs=[], RtmpSubs=[], FlvSubs=[], HlsSubs=["h1"], Linger=True,
               PullRetry=0, PullAuto=-1, PullEnabled=False),
    "H1": dict(RtmpPubs=["p1", "p2"], RtspPubs=[], CustPubs=[], PsPubs=[], RtmpSubs=["s1"], FlvSubs=["f1"], HlsSubs=["h1", "h2"],
               PullRetry=0, PullAuto=-1, PullEnabled=False),
    "H2": dict(RtmpPubs=["p1"], RtspPubs=[], CustPubs=[], PsPubs=[], RtmpSubs=[], FlvSubs=[], HlsSubs=["h1"],
               PullRetry=1, PullAuto=0, PullEnabled=True, Hook=False),
}
# relay pull from an RTSP origin (rtsp.PullSession over TCP instead of rtmp.PullSession): the model's pull machine is
# protocol-agnostic, so every pull configuration has a twin whose driver uses an rtsp:// URL and the RTSP origin stub
for _cid, _rid in (("P0", "R0"), ("P1", "R1"), ("P2", "R2"), ("P3", "R3"), ("P4", "R4"), ("P5", "R5"), ("P6", "R6"), ("F2", "F3")):
    CFGS[_rid] = dict(CFGS[_cid], PullRtsp=True)
# which description the stream hands to an RTSP player (C03): a player that stays (asks, is answered at once or parked until an
# input with a description is accepted) next to a relay pull from an RTSP origin, an RTSP publisher and a customize / RTMP publisher
CFGS["D0"] = dict(RtmpPubs=[], RtspPubs=[], CustPubs=["k1"], PsPubs=[], RtmpSubs=[], FlvSubs=[], Players=["v1"], PullRtsp=True,
                  PullRetry=0, PullAuto=-1, PullEnabled=True, Hook=False)
CFGS["D1"] = dict(RtmpPubs=[], RtspPubs=["q1"], CustPubs=["k1"], PsPubs=[], RtmpSubs=[], FlvSubs=[], Players=["v1"], PullRtsp=True,
                  PullRetry=1, PullAuto=-1, PullEnabled=True, Hook=True)
CFGS["D2"] = dict(RtmpPubs=["p1"], RtspPubs=[], CustPubs=["k1"], PsPubs=[], RtmpSubs=["s1"], FlvSubs=[], Players=["v1"], PullRtsp=True,
                  PullRetry=1, PullAuto=-1, PullEnabled=True, Hook=False)


def _a(name, x="", attempts=0, notif=0):
    return {"name": name, "x": x, "obs": {"attempts": attempts, "notif": [0] * notif, "hook": []}}


# directed schedules (paths of the model written down by hand; like every scenario they are judged by TLC on what was observed):
# a relay pull from an RTSP origin that is refused when the origin's description arrives - a publisher took the stream, or
# stop_relay_pull disabled the pull, while the attempt was in flight - and an RTSP player that asks afterwards, or is parked already
DIRECTED = [
    ("D2", [_a("StartPull", attempts=1), _a("AddCust", "k1"), _a("PullOk", attempts=1, notif=1), _a("PlayerAsk", "v1", 1, 1)]),
    ("D2", [_a("StartPull", attempts=1), _a("AddCust", "k1"), _a("PlayerAsk", "v1", 1, 1), _a("PullOk", attempts=1, notif=1),
            _a("DelCust", "k1"), _a("PlayerBye", "v1", 1, 1)]),
    ("D1", [_a("StartPull", attempts=1), _a("NewPub", "q1", 1, 1), _a("PullOk", attempts=1, notif=1), _a("PlayerAsk", "v1", 1, 1),
            _a("Probe", "q1", 1)]),
    ("D1", [_a("StartPull", attempts=1), _a("StopPull", attempts=1), _a("PullOk", attempts=1, notif=1), _a("PlayerAsk", "v1", 1, 1),
            _a("NewPub", "q1", 1, 1)]),
    ("D2", [_a("StartPull", attempts=1), _a("PlayerAsk", "v1", 1, 1), _a("StopPull", attempts=1), _a("PullOk", attempts=1, notif=1),
            _a("NewPub", "p1", 1, 1), _a("NewSub", "s1", 1, 1), _a("Probe", "p1", 1)]),
    ("D1", [_a("PlayerAsk", "v1", 0, 1), _a("StartPull", attempts=1), _a("NewPub", "q1", 1, 1), _a("PullOk", attempts=1, notif=1),
            _a("PlayerBye", "v1", 1, 1)]),
]
# auto-stop window (C17): the window elapses without a consumer and without a tick; a subscriber comes (a new attempt at once) and
# goes between two ticks; the attempt fails; at the next tick a consumer has been present within the window: retry
DIRECTED_PULL = [
    (cid, [_a("StartPull", attempts=1), _a("PullFail", attempts=1, notif=1), _a("Advance", attempts=1), _a("NewSub", "s1", 2, 1),
           _a("DelSub", "s1", 2, 1), _a("PullFail", attempts=2, notif=1), _a("Tick", attempts=3)])
    for cid in ("P6", "R6")] + [
    # ... and the same with an attempt that succeeds: the accepted pull is not stopped before the window has elapsed again
    (cid, [_a("StartPull", attempts=1), _a("PullFail", attempts=1, notif=1), _a("Advance", attempts=1), _a("NewSub", "s1", 2, 1),
           _a("PullOk", attempts=2, notif=1), _a("DelSub", "s1", 2, 1), _a("Tick", attempts=2),
           _a("Advance", attempts=2), _a("Tick", attempts=2, notif=1)])
    for cid in ("P6", "R6")]
# a pull from an RTSP origin with every output on (C16): a subscriber attached before the origin's description is handed the
# probes, one that joins afterwards waits for a key frame (Trace_Lifecycle ObsOk); the pull ends, the outputs are finalised
DIRECTED_F3 = [
    ("F3", [_a("StartPull", attempts=1), _a("NewSub", "s1", 1, 1), _a("PullOk", attempts=1, notif=1), _a("ProbePull", attempts=1),
            _a("ProbePull", attempts=1), _a("PullEnd", attempts=1, notif=1), _a("DelSub", "s1", 1, 1)]),
    ("F3", [_a("StartPull", attempts=1), _a("PullOk", attempts=1, notif=1), _a("NewSub", "s1", 1, 1), _a("ProbePull", attempts=1),
            _a("ProbePull", attempts=1), _a("StopPull", attempts=1, notif=1), _a("DelSub", "s1", 1, 1)]),
]
HLS_SETS = {("h1",): "Hls1", ("h1", "h2"): "Hls2"}      # defined in spec/Lifecycle.tla


def num(n):
    return "Neg1" if n == -1 else str(n)


def write_cfg(cid, mode, max_tick, max_att):
    c = CFGS[cid]
    lines = ["SPECIFICATION TraceSpec" if mode == "trace" else "SPECIFICATION Spec", "CONSTANTS"]
    for k in ("RtmpPubs", "RtspPubs", "CustPubs", "PsPubs", "RtmpSubs", "FlvSubs"):
        lines.append("  %s = %s" % (k, tla_set(c[k])))
    lines.append("  TsSubs = %s" % tla_set(c.get("TsSubs", [])))
    if c.get("HlsSubs"):
        lines.append("  HlsSubs <- %s" % HLS_SETS[tuple(c["HlsSubs"])])
    if c.get("PullRtsp"):
        lines.append("  PullHdrMsgs <- PullHdrRtsp")
    if c.get("Players"):
        assert c["Players"] == ["v1"]
        lines.append("  Players <- Pl1")
    if c.get("Linger"):
        lines.append("  HlsLingerOn <- Yes")
    for k in ("PullRetry", "PullAuto"):
        lines.append("  %s %s" % (k, ("<- Neg1" if c[k] == -1 else "= %d" % c[k])))
    lines.append("  PullEnabled = %s" % ("TRUE" if c["PullEnabled"] else "FALSE"))
    lines.append("  HookOn = %s" % ("TRUE" if c.get("Hook", True) else "FALSE"))
    lines.append("  ShutdownEnabled = %s" % ("TRUE" if c.get("Shutdown", False) else "FALSE"))
    lines.append("  ProbeMsgs = %d" % (2 if c.get("Outputs", False) else 1))
    lines.append("  PushTargets = %s" % tla_set(c.get("Push", [])))
    lines.append("  ParamLen = %d" % c.get("ParamLen", 0))
    if mode == "trace":
        lines.append("  PipeComps <- %s" % ("PipeAll" if c.get("Outputs", False) else ("PipeHook" if c.get("Hook", True) else "PipeNone")))
    lines.append("  MaxTick = %d" % max_tick)
    lines.append("  MaxAttempts = %d" % max_att)
    lines.append("  WirePubs = %s" % tla_set(c.get("WirePubs", [])))
    lines.append("  DescribeOn = %s" % ("TRUE" if c.get("Describe", False) else "FALSE"))
    lines.append("  MaxSweep = %d" % (c.get("MaxSweep", 0) if mode != "trace" else 1000000))
    lines.append("INVARIANTS " + INVS)
    if mode == "trace":
        lines += ["CONSTRAINT HighWater", "POSTCONDITION Accept", "CHECK_DEADLOCK FALSE"]
    else:
        lines.append("PROPERTIES EmptyRemovedAct IdleDisconnectedAct")
        if mode != "sim":
            lines.append("VIEW View")
        if mode == "emit":
            lines.append("ACTION_CONSTRAINT Emit")
        if mode == "sim":
            lines.append("ACTION_CONSTRAINT EmitA")
    name = ("Trace_Lifecycle_gen_%s.cfg" % cid) if mode == "trace" else ("MC_Lifecycle_gen_%s_%s.cfg" % (cid, mode))
    with open(os.path.join(E.SPEC, name), "w") as f:
        f.write("\n".join(lines) + "\n")
    return name


def drv_cfg(cid):
    c = CFGS[cid]
    return {"rtmpPubs": c["RtmpPubs"], "rtspPubs": c["RtspPubs"], "custPubs": c["CustPubs"], "psPubs": c["PsPubs"],
            "rtmpSubs": c["RtmpSubs"], "flvSubs": c["FlvSubs"], "pullRetry": c["PullRetry"],
            "pullAutoMs": (-1 if c["PullAuto"] < 0 else c["PullAuto"] * 700), "hook": c.get("Hook", True), "outputs": c.get("Outputs", False), "leak": 0,
            "pushTargets": c.get("Push", []), "paramLen": c.get("ParamLen", 0), "wirePubs": c.get("WirePubs", []),
            "tsSubs": c.get("TsSubs", []), "httpNotify": c.get("HttpNotify", False),
            "rtspWire": c.get("MaxSweep", 0) > 0, "hlsSubs": c.get("HlsSubs", []), "pullRtsp": c.get("PullRtsp", False),
            "players": c.get("Players", []), "hlsSettle": c.get("Linger", False)}


def signature(r):
    ev = r["event"]
    if ev.get("ev") == "Died":
        return "Died:%s:%s" % (str(ev.get("kind")).split("[")[0].strip()[:50], ev.get("frame"))
    obs = ev.get("obs", {})
    if "desc" in ev and any(ev["desc"].values()):
        # whose description the RTSP player(s) hold at the rejected step
        return "%s:ret=%s:desc=%s%s" % (ev.get("ev"), obs.get("ret"), "+".join(sorted(set(v for v in ev["desc"].values() if v))),
                                        ":hook=%d" % len(obs.get("hook", [])) if obs.get("hook") else "")
    if "media" in ev and len(set(ev["media"].values())) > 1:
        # the outputs of the publication that ended do not hold the same number of frames
        return "%s:ret=%s:media=%s" % (ev.get("ev"), obs.get("ret"), "+".join(k for k in sorted(ev["media"]) if ev["media"][k] < max(ev["media"].values())) + "-short")
    tr = r["trace"][:r["line"]]
    kinds = "+".join(sorted(set(e["ev"] for e in tr if e["ev"] in ("StartPs", "AddCust", "PullOk", "PullFail", "StartPull", "Kick"))))
    return "%s:ret=%s:notif=%d:hook=%d%s" % (ev.get("ev"), obs.get("ret"), len(obs.get("notif", [])), len(obs.get("hook", [])),
                                           (":after_" + kinds) if kinds else "")


def run_lifecycle(ctx, bfs, emit, sim, leak=None, directed=None):
    """bfs/emit: lists of (cid, max_tick, max_att); sim: (cid, max_tick, max_att, num, depth); directed: (cid, steps)."""
    E.build_harness(ctx, tags="verif,verif_wire")
    scen = []

    def add(cid, steps):
        st = [{"name": a["name"], "x": a.get("x", ""), "expAttempts": a.get("obs", {}).get("attempts", 0),
               "expNotif": len(a.get("obs", {}).get("notif", [])), "expHook": len(a.get("obs", {}).get("hook", [])),
               "how": a.get("how", ""), "k": a.get("k", 1)} for a in steps if a["name"] != "Halt"]
        scen.append({"sc": len(scen), "cfg": drv_cfg(cid), "cfgId": cid, "steps": st})

    for (cid, mt, ma) in bfs:
        cfg = write_cfg(cid, "bfs", mt, ma)
        res = E.tlc(ctx, "MC_Lifecycle", cfg, timeout=3000, deadlock=False)
        E.require_design_ok(ctx, res, cfg)
        ctx.log("design %s: %d distinct states, invariants hold" % (cid, res["distinct"]))
    for (cid, mt, ma) in emit:
        cfg = write_cfg(cid, "emit", mt, ma)
        res = E.tlc(ctx, "MC_Lifecycle", cfg, timeout=3000, deadlock=False)
        E.require_design_ok(ctx, res, cfg)
        g = E.Graph.load(res)
        paths, ncov = g.edge_cover(ctx.rng, max_len=30)
        ctx.log("cover %s: %d states, %d edges, %d paths" % (cid, res["distinct"], g.nedges, len(paths)))
        for p in paths:
            add(cid, p)
    for (cid, mt, ma, num_, depth) in sim:
        cfg = write_cfg(cid, "sim", mt, ma)
        res = E.tlc(ctx, "MC_Lifecycle", cfg, name="sim-" + cid, workers=1, timeout=600, deadlock=False,
                    simulate="num=%d" % num_, depth=depth)
        if res["errors"]:
            raise E.Infra("simulation found a model error: %s" % res["errors"][:2])
        bs = behaviours(res)
        ctx.log("simulate %s: %d behaviours" % (cid, len(bs)))
        for b in bs:
            add(cid, b)
    for (cid, steps) in (directed or []):
        add(cid, steps)
    if leak:
        cid, n = leak
        c = drv_cfg(cid)
        c["leak"] = n
        scen.append({"sc": len(scen), "cfg": c, "cfgId": cid, "steps": []})
    sp, tp = ctx.path("lc-scen.ndjson"), ctx.path("lc-trace.ndjson")
    E.write_ndjson(sp, scen)
    E.run_driver(ctx, "lifecycle", sp, tp, timeout=3000)
    rows = E.read_ndjson(tp)
    skipped = sum(r.get("n", 0) for r in rows if r.get("ev") == "skipped")
    rows = [r for r in rows if r.get("ev") != "skipped"]
    if skipped:
        ctx.log("%d relay-push scenario(s) were not started: 8 child processes before them died or ran into their time "
                "bounds (a tree on which these scenarios leave the model's path)" % skipped)
    # scenarios during which the machine stalled (real time no longer matches the abstract clock) are
    # inconclusive: they are dropped, never judged
    bad = set(r["sc"] for r in rows if r.get("ev") == "inconclusive")
    if bad:
        ctx.log("%d scenario(s) inconclusive because of timing jitter: dropped" % len(bad))
        if len(bad) > max(5, len(scen) // 5):
            raise E.Infra("too many inconclusive scenarios (%d of %d): machine too loaded" % (len(bad), len(scen)))
    kept, cursc = [], None
    for r in rows:
        if r.get("ev") == "reset":
            cursc = r["sc"]
        if cursc in bad or r.get("ev") == "inconclusive":
            continue
        kept.append(r)
    rows = kept
    groups, cur = {}, None
    for r in rows:
        if r.get("ev") == "reset":
            cur = r["cfgId"]
        groups.setdefault(cur, []).append(r)
    rej = []
    for cid, rs in groups.items():
        tcfg = write_cfg(cid, "trace", 1000000, 1000000)
        rej += E.validate(ctx, "Trace_Lifecycle", tcfg, rs, name="val-" + cid)
    ctx.cov["traces_validated_against_impl"] = len(scen)
    ctx.cov["evaluations"] = len(rows)
    ctx.cov["distinct_nontrivial"] = len(scen)
    ctx.cov["rule"] = ("scenario = init-rooted path of the Lifecycle state graph (edge cover) or a TLC-simulated behaviour, "
                       "replayed into a real logic.ServerManager through its observer callbacks and API methods")
    if scen:
        ctx.sample(scen[0])
        ctx.sample(scen[-1])
    for r in rej:
        E.report(ctx, signature(r), "trace rejected at %s (scenario %s line %d): %s" %
                 (r["event"].get("ev"), r["sc"], r["line"], str(r["event"])[:300]),
                 {"scenario": scen[r["sc"]] if r["sc"] is not None and r["sc"] < len(scen) else None, "trace": r["trace"]})
    if skipped and not rej:
        raise E.Infra("%d relay-push scenarios were not run (slow or dead child processes) and nothing was rejected" % skipped)
    ctx.assumptions += ["sessions are real lal session objects on in-memory connections handed to the real ServerManager "
                        "callbacks (the network servers' accept loops are not part of the scenario)",
                        "Tick is driven through the verif hook VerifTick, a copy of the loop body of RunLoop",
                        "HLS sessions: the time-out (400 ms) and the handler's once-per-second sweep are real time; a client "
                        "that keeps asking is realised by background requests, and a scenario in which one came late is "
                        "dropped as inconclusive",
                        "an RTSP origin is a wire-level stub (pull over TCP); nothing is interleaved between its DESCRIBE and "
                        "PLAY answers, except that every third scenario leaves the set-up unfinished after the description"]

"""C13 -- no input on RTSP, RTP/RTCP, GB28181, WebSocket surfaces terminates lal (spec/Surfaces.tla, driver surfaces)."""
import json
import engine as E

SURFS = ["rtp", "ps", "rtsp", "sdp", "ws"]
QUICK_CAP = {"rtp": 2600, "ps": 6000, "rtsp": 2200, "sdp": 1300, "ws": 1200}
THOROUGH_CAP = {"rtp": 30000, "ps": 60000, "rtsp": 30000, "sdp": 12000, "ws": 12000}


def el_class(el):
    if el.get("k") == "sdp":
        return "sdp"
    return "%s/%s/%s/%s" % (el.get("k"), el.get("a"), el.get("b"), el.get("c"))


def run(ctx):
    E.build_harness(ctx)
    scen = []
    per = {}
    for s in SURFS:
        cfg = "MC_Surfaces_%s_%s.cfg" % (s, "q" if ctx.quick else "t")
        res = E.tlc(ctx, "MC_Surfaces", cfg, timeout=2400, deadlock=False)
        E.require_design_ok(ctx, res, cfg)
        seen, items = set(), []
        for a in E.emitted(res, "@S@"):
            key = json.dumps(a, sort_keys=True)
            if key in seen:
                continue
            seen.add(key)
            items.append(a)
        # every short sequence is executed; longer ones are sampled (seeded) up to the tier's cap
        cap = (QUICK_CAP if ctx.quick else THOROUGH_CAP)[s]
        items.sort(key=lambda a: (len(a["steps"]), json.dumps(a, sort_keys=True)))
        short = [a for a in items if len(a["steps"]) <= (2 if s != "ps" else 1)]
        rest = [a for a in items if len(a["steps"]) > (2 if s != "ps" else 1)]
        if s == "ps":   # PS sequences of length 2 and 3 are cheap: take all that fit
            pass
        ctx.rng.shuffle(rest)
        chosen = short[:cap] + rest[:max(0, cap - len(short))]
        per[s] = (len(items), len(chosen))
        for a in chosen:
            scen.append({"sc": len(scen), "surf": a["surf"], "cfg": a["cfg"], "steps": a["steps"]})
        ctx.log("%s: %d distinct sequences enumerated by TLC, %d executed" % (cfg, len(items), len(chosen)))
    sp, tp = ctx.path("scen.ndjson"), ctx.path("trace.ndjson")
    E.write_ndjson(sp, scen)
    E.run_driver(ctx, "surfaces", sp, tp, timeout=3000)
    rows = E.read_ndjson(tp)
    nsc = sum(1 for r in rows if r["ev"] == "reset")
    if nsc != len(scen):
        raise E.Infra("driver returned %d scenarios of %d" % (nsc, len(scen)))
    ctx.cov["traces_validated_against_impl"] = nsc
    ctx.cov["evaluations"] = sum(1 for r in rows if r["ev"] == "step")
    ctx.cov["distinct_nontrivial"] = len(scen)
    ctx.cov["per_surface_enumerated_executed"] = per
    ctx.cov["rule"] = ("per surface (RTP/RTCP datagrams of an RTSP publisher with and without a key-frame-waiting subscriber, "
                       "GB28181 PS-in-RTP, RTSP commands + interleaved frames, SDP class records, RTSP over WebSocket frames): "
                       "all element sequences core* . element to the depth of the tier enumerated by TLC; every sequence of "
                       "length <= 2 executed, longer ones sampled by seed; each in a child process against a real "
                       "logic.ServerManager; death of the child attributed to the scenario in flight and confirmed alone")
    ctx.sample(scen[0])
    ctx.sample(scen[-1])
    rej = E.validate(ctx, "Trace_Surfaces", "Trace_Surfaces.cfg", rows)
    for r in rej:
        ev = r["event"]
        tr = r["trace"]
        surf = tr[0].get("surf")
        if ev["ev"] == "end":
            if ev["died"]:
                sig = "died:%s:%s:%s" % (surf, (ev["frame"] or "?").replace(" ", ""), ev["crash"].replace("panic: runtime error: ", "").split(" [")[0].split(" with ")[0].replace(" ", "_")[:40])
                if not ev["confirmed"]:
                    sig += ":unconfirmed"
            elif ev["panic"]:
                sig = "recovered_panic:%s" % surf
            elif not ev["second"]:
                sig = "second_session_not_served:%s" % surf
            elif not ev["bystander"]:
                sig = "bystander_closed:%s" % surf
            else:
                sig = "end:%s:%s" % (surf, (ev["note"] or "steps").split(" ")[0])
            last = tr[0]["steps"][-1] if tr[0]["steps"] else {}
            text = "scenario %s ended %s; last element %s" % (json.dumps(tr[0]["steps"])[:400], json.dumps(ev)[:300], json.dumps(last))
        else:
            o = ev.get("obs", {})
            sig = "step:%s:%s:%s" % (surf, el_class(ev.get("el", {})) if surf in ("rtsp", "sdp") else ev.get("el", {}).get("k"),
                                     "panic" if o.get("panic") else ("closed" if not o.get("alive") else "codes"))
            text = "step %s observed %s" % (json.dumps(ev.get("el"))[:300], json.dumps(o))
        E.report(ctx, sig, text, {"scenario": tr[0], "event": ev})
    ctx.assumptions += ["independent encoders harness/proj/surf.go (RTP/RTCP, RFC 6184/7798/3640 payloads, PS elements, SDP, WebSocket)",
                        "sessions run on in-memory connections (what rtsp.Server / WebsocketServer do per accepted connection); "
                        "PS packets are fed to gb28181.PsUnpacker wired like Group.StartRtpPub; UDP sockets, TLS, HTTP-API/HLS/HTTP-FLV "
                        "requests and lal-as-client replies are not driven",
                        "log assert_behavior at the shipped default"]

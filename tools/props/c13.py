"""C13 -- no input on RTSP, RTP/RTCP, GB28181, WebSocket, HTTP surfaces or from an upstream server terminates lal
(spec/Surfaces.tla, driver surfaces)."""
import json
import engine as E

SURFS = ["rtp", "udp", "ps", "psq", "pst", "rtsp", "sdp", "ws", "http", "client"]
QUICK_CAP = {"rtp": 2600, "udp": 3000, "ps": 6000, "psq": 3000, "pst": 3000, "rtsp": 2200, "sdp": 1300, "ws": 1200, "http": 2000, "client": 1200}
THOROUGH_CAP = {"rtp": 30000, "udp": 25000, "ps": 60000, "psq": 30000, "pst": 30000, "rtsp": 30000, "sdp": 12000, "ws": 12000, "http": 50000, "client": 10000}
GOOD_SDP = {"shape": "ok", "v": "avc", "vr": "ok", "vf": "ok", "a": "aac", "ar": "ok", "af": "ok", "ctl": "ok"}


def el_class(el):
    if el.get("k") == "sdp":
        return "sdp"
    return "%s/%s/%s/%s" % (el.get("k"), el.get("a"), el.get("b"), el.get("c"))


def always(surf, a):
    """Sequences executed in every run, whatever the cap: single elements, and for the SDP surface every record
    that differs from the well-formed one in at most one field."""
    st = a["steps"]
    if surf == "sdp":
        return sum(1 for f in GOOD_SDP if st[0].get(f) != GOOD_SDP[f]) <= 1
    if surf == "client":
        return False
    return len(st) <= 1


def run(ctx):
    E.build_harness(ctx)
    scen = []
    per = {}
    for s in SURFS:
        cfg = "MC_Surfaces_%s_%s.cfg" % (s, "q" if ctx.quick else "t")
        res = E.tlc(ctx, "MC_Surfaces", cfg, timeout=2400, deadlock=False)
        E.require_design_ok(ctx, res, cfg)
        seen, items = set(), []
        for a in E.emitted(res, "@S@"):
            key = json.dumps(a, sort_keys=True)
            if key in seen:
                continue
            seen.add(key)
            items.append(a)
        # some sequences are executed in every run (see always()); the others are sampled by seed up to the cap
        cap = (QUICK_CAP if ctx.quick else THOROUGH_CAP)[s]
        items.sort(key=lambda a: json.dumps(a, sort_keys=True))
        first = [a for a in items if always(s, a)]
        rest = [a for a in items if not always(s, a)]
        ctx.rng.shuffle(rest)
        chosen = first + rest[:max(0, cap - len(first))]
        per[s] = (len(items), len(chosen))
        for a in chosen:
            scen.append({"sc": len(scen), "surf": a["surf"], "cfg": a["cfg"], "steps": a["steps"]})
        ctx.log("%s: %d distinct sequences enumerated by TLC, %d executed" % (cfg, len(items), len(chosen)))
    sp, tp = ctx.path("scen.ndjson"), ctx.path("trace.ndjson")
    E.write_ndjson(sp, scen)
    E.run_driver(ctx, "surfaces", sp, tp, timeout=3000)
    rows = E.read_ndjson(tp)
    nsc = sum(1 for r in rows if r["ev"] == "reset")
    if nsc != len(scen):
        raise E.Infra("driver returned %d scenarios of %d" % (nsc, len(scen)))
    ctx.cov["traces_validated_against_impl"] = nsc
    ctx.cov["evaluations"] = sum(1 for r in rows if r["ev"] == "step")
    ctx.cov["distinct_nontrivial"] = len(scen)
    ctx.cov["per_surface_enumerated_executed"] = per
    ctx.cov["rule"] = ("per surface (rtp: RTP/RTCP datagrams of an interleaved RTSP publisher, with/without a key-frame-waiting "
                       "subscriber, SDP clock rate classes; udp: UDP-transport publisher, tracks set up x payload type x SR SSRC; "
                       "ps: GB28181 PS elements in RTP; psq: GB28181 RTP sequencing incl. fill-to-limit; pst: GB28181 over TCP through the "
                       "real PubSession of start_rtp_pub(is_tcp_flag=1) - frame lengths 0/1/11/short/65535, PS + RTP header classes in "
                       "exact frames, write cuts, further / silent / closing connections, handover under load, kick / second start / "
                       "timeout tick, x connection state before x timeout; rtsp: commands + interleaved "
                       "frames; sdp: SDP class records; ws: RTSP over WebSocket frames; http: HTTP-API / HTTP-FLV / HTTP-TS / HLS "
                       "requests; client: what an upstream sends to lal's RTMP pull/push, RTSP pull, HTTP-FLV pull sessions): all "
                       "element sequences core* . element to the depth of the tier enumerated by TLC; single elements (and SDP "
                       "records one field off) always executed, the rest sampled by seed up to a cap; each in a child process "
                       "against a real logic.ServerManager; death of the child attributed to the scenario in flight and confirmed alone")
    ctx.sample(scen[0])
    ctx.sample(scen[-1])
    rej = E.validate(ctx, "Trace_Surfaces", "Trace_Surfaces.cfg", rows)
    for r in rej:
        ev = r["event"]
        tr = r["trace"]
        surf = tr[0].get("surf")
        if ev["ev"] == "end":
            if ev["died"]:
                sig = "died:%s:%s:%s" % (surf, (ev["frame"] or "?").replace(" ", ""), ev["crash"].replace("panic: runtime error: ", "").split(" [")[0].split(" with ")[0].replace(" ", "_")[:40])
                if not ev["confirmed"]:
                    sig += ":unconfirmed"
            elif ev["panic"]:
                sig = "recovered_panic:%s" % surf
            elif not ev["second"]:
                sig = "second_session_not_served:%s" % surf
            elif not ev["bystander"]:
                sig = "bystander_closed:%s" % surf
            elif surf == "client" and ev.get("res") != "ok" and not ev["note"]:
                sig = "valid_exchange_failed:client:%s" % tr[0]["cfg"].get("proto")
            else:
                sig = "end:%s:%s" % (surf, (ev["note"] or "steps").split(" ")[0])
            last = tr[0]["steps"][-1] if tr[0]["steps"] else {}
            text = "scenario cfg=%s steps=%s ended %s; last element %s" % (json.dumps(tr[0]["cfg"]), json.dumps(tr[0]["steps"])[:400], json.dumps(ev)[:300], json.dumps(last))
        else:
            o = ev.get("obs", {})
            sig = "step:%s:%s:%s" % (surf, el_class(ev.get("el", {})) if surf in ("rtsp", "sdp") else ev.get("el", {}).get("k"),
                                     "panic" if o.get("panic") else ("note_" + o["note"].split(" ")[0].rstrip(":") if surf == "pst" and o.get("note")
                                                                     else ("closed" if not o.get("alive") else "codes")))
            text = "step %s observed %s" % (json.dumps(ev.get("el"))[:300], json.dumps(o))
        E.report(ctx, sig, text, {"scenario": tr[0], "event": ev})
    ctx.assumptions += ["independent encoders harness/proj/surf.go, surf2.go (RTP/RTCP, RFC 6184/7798/3640 payloads, PS elements, SDP, "
                        "WebSocket, HTTP requests, API JSON, RTMP / RTSP / FLV upstream elements)",
                        "RTSP sessions run on in-memory connections (what rtsp.Server / WebsocketServer do per accepted connection), "
                        "UDP-transport publishers get real loopback datagrams; PS packets are fed to gb28181.PsUnpacker wired like "
                        "Group.StartRtpPub, and (pst) sent as 2-byte-length frames over real loopback TCP connections to the listener of the "
                        "PubSession that ServerManager.CtrlStartRtpPub starts (a session that ended must have released its port, let "
                        "the stream name be started again, left no reader goroutine and a group that the next tick removes); HTTP handlers sit behind real net/http servers on loopback; client sessions dial a "
                        "scripted loopback upstream; TLS is not driven",
                        "log assert_behavior at the shipped default"]

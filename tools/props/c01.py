"""C01 -- live relay delivers the publisher's messages intact (spec/Fanout.tla): RTMP / HTTP-FLV / WebSocket-FLV
subscribers, relay-push targets (cfgs E, F) and the FLV recording."""
from props.fanout_common import run_fanout


def run(ctx):
    if ctx.quick:
        run_fanout(ctx, bfs=[("B", 4, 1), ("E", 3, 2)], emit=[("B", 3, 1), ("E", 2, 1)],
                   sim=[("A", 9, 3, 150, 16), ("Aw", 9, 3, 100, 16), ("B", 9, 2, 200, 16), ("D", 10, 2, 150, 18),
                        ("E", 9, 3, 120, 16), ("F", 8, 2, 120, 16)])
    else:
        run_fanout(ctx, bfs=[("B", 5, 2), ("A", 5, 2), ("E", 4, 2), ("F", 4, 2)], emit=[("B", 4, 1), ("A", 3, 2), ("E", 3, 2)],
                   sim=[("A", 12, 3, 1500, 24), ("Aw", 12, 3, 800, 24), ("B", 12, 3, 2000, 24), ("D", 12, 3, 2000, 26),
                        ("E", 12, 3, 1000, 24), ("F", 12, 3, 1000, 24)])

"""C05 -- no published media payload can terminate or stall the server (spec/Payloads.tla, driver payloads)."""
import json
import engine as E

# model configuration (dummy, predict) -> driver configurations that replay its paths
ALL = "all"
DRV = {
    (False, True): [dict(id="A", dummy=False, predict=True, outs=ALL, gop=0, debug=False)],
    (True, False): [dict(id="B", dummy=True, predict=False, outs=ALL, gop=1, debug=True)],
    (False, False): [dict(id="C1", dummy=False, predict=False, outs="rtmp,flv,recflv", gop=2, debug=False),
                     dict(id="C2", dummy=False, predict=False, outs="ts,hls,rects", gop=1, debug=False),
                     dict(id="C3", dummy=False, predict=False, outs="rtsp", gop=0, debug=False),
                     dict(id="C4", dummy=False, predict=False, outs="hls", gop=0, debug=True),
                     dict(id="C5", dummy=False, predict=False, outs="rtmp,rtsp,ts", gop=0, debug=False)],
}


def signature(ev):
    o = ev.get("obs", {})
    name = ev.get("ev")
    m = ev.get("m") or {}
    if o.get("died"):
        frame = o.get("frame") or "unknown"
        return "died:%s" % frame
    if o.get("stalled"):
        if o.get("crash") == "watchdog":
            return "stalled:%s:fanout_%s" % (name, "unbounded" if o.get("hookN", 0) > 1000 else "small")
        return "stalled:%s:%s" % (name, o.get("crash"))
    if o and not o.get("other"):
        return "other_stream_not_served:%s" % name
    bad = [c for c in ("hook", "rec", "r0", "f0", "r1", "f1") if o.get(c, {}).get("bad")]
    if bad:
        return "altered:%s:%s" % (m.get("t", "-"), "+".join(bad))
    if name == "Pub":
        return "delivery:%s:%s" % (m.get("t"), "empty" if m.get("n") == 0 else "short" if m.get("n", 9) <= 5 else "long")
    if name == "Stage":
        return "delivery:staged:%s" % (ev.get("s", {}).get("m", {}).get("t"))
    return str(name)


QUICK_STAGED_SAMPLE = 6000


def step_text(s):
    if s["name"] == "Pub":
        return s["m"]["name"] + "@" + s["ts"]
    if s["name"] == "Stage":
        x = s["s"]
        return "Stage(%s%s x%d @%s%s)" % ((x["hdr"]["name"] + " + ") if x["hdr"]["name"] else "", x["m"]["name"], x["k"], x["ts"],
                                          (", join after %d" % x["j"]) if x["j"] else "")
    return s["name"]


def cover(g, rng, max_len, want=None):
    """Init-rooted paths covering every edge of the history graph.  Unlike Graph.edge_cover a walk that runs
    out of uncovered edges where it stands goes on, through already covered edges, to the nearest history
    that still has some (most letters leave a history unchanged or lead to a few hubs).
    want(u, k): only these edges have to be covered (the others may still be walked through)."""
    from collections import deque
    parent = {}
    dq = deque()
    for i in sorted(g.inits):
        parent[i] = None
        dq.append(i)
    hop = {}                                  # u -> {v: index of one edge u -> v}
    for u in g.adj:
        d = {}
        for k, (a, v) in enumerate(g.adj[u]):
            if v != u and v not in d:
                d[v] = k
        hop[u] = d
    while dq:
        u = dq.popleft()
        for v, k in hop[u].items():
            if v not in parent:
                parent[v] = (u, k)
                dq.append(v)

    def prefix(u):
        p = []
        while parent[u] is not None:
            pu, k = parent[u]
            p.append((pu, k))
            u = pu
        p.reverse()
        return p

    unc = {u: set(k for k in range(len(g.adj[u])) if want is None or want(u, k)) for u in g.adj if u in parent}
    left = sum(len(x) for x in unc.values())
    total = left

    def route(src, budget):
        """shortest hop sequence from src to a history with uncovered edges"""
        seen = {src: None}
        q = deque([src])
        while q:
            u = q.popleft()
            if u != src and unc[u]:
                r = []
                while seen[u] is not None:
                    pu, k = seen[u]
                    r.append((pu, k))
                    u = pu
                r.reverse()
                return r if len(r) < budget else None
            for v, k in hop[u].items():
                if v not in seen:
                    seen[v] = (u, k)
                    q.append(v)
        return None

    paths = []
    nodes = sorted(unc)
    while left > 0:
        cands = [u for u in nodes if unc[u]]
        u = max(cands, key=lambda x: (len(prefix(x)), len(unc[x]), rng.random()))   # deepest first
        p = prefix(u)
        for e in p:
            if e[1] in unc[e[0]]:
                unc[e[0]].discard(e[1])
                left -= 1
        cur = u
        while len(p) < max_len:
            if unc[cur]:
                k = rng.choice(sorted(unc[cur]))
                unc[cur].discard(k)
                left -= 1
                p.append((cur, k))
                cur = g.adj[cur][k][1]
                continue
            r = route(cur, max_len - len(p))
            if not r:
                break
            for e in r:
                if e[1] in unc[e[0]]:
                    unc[e[0]].discard(e[1])
                    left -= 1
                p.append(e)
            cur = g.adj[r[-1][0]][r[-1][1]][1]
        paths.append([g.adj[x][k][0] for (x, k) in p])
    return paths, total


def run(ctx):
    E.build_harness(ctx)
    cfg = "MC_Payloads_q.cfg" if ctx.quick else "MC_Payloads_t.cfg"
    res = E.tlc(ctx, "MC_Payloads", cfg, timeout=1200, deadlock=False)
    E.require_design_ok(ctx, res, cfg)
    # two graphs: the histories reached by single letters (stg = ""), and the staged part: staging macros from
    # the initial histories, then every letter (and the late join) from each staged history
    g, gs = E.Graph(), E.Graph()
    seen = set()
    with open(res["out"], errors="replace") as f:
        for line in f:
            # one edge per (history, action): TLC prints each once; identical lines are dropped without comparing
            # an edge with the several hundred others of its history (Graph.add)
            if not line.startswith('"@E@') or line in seen:
                continue
            seen.add(line)
            e = json.loads(json.loads(line)[3:])
            x = gs if (e["a"]["name"] == "Stage" or e["f"]["stg"] != "") else g
            u, v = x.nid(e["f"]), x.nid(e["t"])
            x.adj[u].append((e["a"], v))
            x.nedges += 1
            if e.get("l") == 1:
                x.inits.add(u)
    del seen
    paths, ncov = cover(g, ctx.rng, 30)
    if not ctx.quick:
        # two more covers with other random choices: every edge again, behind different predecessors
        for _ in range(2):
            paths += cover(g, ctx.rng, 30)[0]
    if ctx.quick:
        ctx.rng.shuffle(paths)
        paths = paths[:4000]
    nbase = len(paths)
    # staged part.  thorough: every edge.  quick: from every staged history the letters that stand for a kind
    # (those the model combines with every timestamp class, and those the macros are made of) at +40 ms, the late
    # join, and a seed-chosen part of the rest
    if ctx.quick:
        core = set()
        for u in gs.adj:
            for (a, v) in gs.adj[u]:
                if a["name"] == "Stage":
                    core.add(a["s"]["m"]["name"])
                    core.add(a["s"]["hdr"]["name"])
                elif a["name"] == "Pub" and a["m"]["tsx"]:
                    core.add(a["m"]["name"])
        chosen = set()
        rest = []
        for u in sorted(gs.adj):
            for k, (a, v) in enumerate(gs.adj[u]):
                if a["name"] != "Pub" or (a["m"]["name"] in core and a["ts"] == "p40"):
                    chosen.add((u, k))
                else:
                    rest.append((u, k))
        ctx.rng.shuffle(rest)
        chosen.update(rest[:QUICK_STAGED_SAMPLE])
        spaths, nstaged = cover(gs, ctx.rng, 30, want=lambda u, k: (u, k) in chosen)
    else:
        spaths, nstaged = cover(gs, ctx.rng, 30)
    paths += spaths
    ctx.log("%s: %d histories; %d (history, letter x timestamp class | join) edges between histories reached by single "
            "letters, %d covering paths; %d staging macros / (staged history, letter | join) edges, %d of them on %d paths" %
            (cfg, res["distinct"], g.nedges, nbase, gs.nedges, nstaged, len(spaths)))
    # directed: a publisher whose 32-bit timestamps are about to wrap (it starts 448 ms before 2^32): +40 ms steps across
    # the wrap, and a step to 2^32 - 1 from 88 ms below; video only (dummy audio is inserted in the second configuration)
    # and video + audio
    def letter(name):
        for u in g.adj:
            for (a, v) in g.adj[u]:
                if a["name"] == "Pub" and a["m"]["name"] == name:
                    return a["m"]
        return None
    for u0 in sorted(g.inits):
        c0 = g.adj[u0][0][0]["cfg"] if g.adj[u0] else None
        walk = [("avc_sh", "near"), ("avc_idr", "p40")] + [("avc_p", "p40")] * 13
        jump = [("avc_sh", "near"), ("avc_idr", "p40")] + [("avc_p", "p40")] * 8 + [("avc_p", "max"), ("avc_p", "p40"), ("avc_idr", "p40")]
        av = [("avc_sh", "near"), ("aac_sh", "p1"), ("avc_idr", "p40")] + [("avc_p", "p40"), ("aac_raw", "p1")] * 12
        for shape in (walk, jump, av):
            ms = [(letter(n), op) for (n, op) in shape]
            if c0 is None or any(m is None for (m, _) in ms):
                continue
            paths.append([{"name": "Pub", "m": m, "ts": op, "cfg": c0} for (m, op) in ms])
    def cfg_of(path):
        c = path[0]["cfg"]          # every action carries the configuration of its history
        return (c["dummy"], c["predict"])

    scen = []
    rr = {}
    for p in paths:
        mc = cfg_of(p)
        cands = DRV[mc]
        k = rr.get(mc, 0)
        rr[mc] = k + 1
        steps = [dict(name=a["name"], m=a.get("m"), ts=a.get("ts", ""), s=a.get("s")) for a in p]
        scen.append({"sc": len(scen), "cfg": cands[k % len(cands)], "steps": steps})
    nsteps = sum(len(s["steps"]) for s in scen)
    sp, tp = ctx.path("scen.ndjson"), ctx.path("trace.ndjson")
    E.write_ndjson(sp, scen)
    E.run_driver(ctx, "payloads", sp, tp, timeout=2400)
    rows = E.read_ndjson(tp)
    ctx.cov["traces_validated_against_impl"] = len(scen)
    ctx.cov["evaluations"] = nsteps
    ctx.cov["distinct_nontrivial"] = len(scen)
    ctx.cov["edges_total"] = g.nedges + gs.nedges
    ctx.cov["edges_covered_by_paths"] = (ncov if not ctx.quick else None)
    ctx.cov["staged_edges_total"] = gs.nedges
    ctx.cov["staged_edges_replayed"] = nstaged
    ctx.cov["staged_histories"] = sum(1 for k in gs.ids if '"stg":"s"' in k)
    ctx.cov["rule"] = ("scenario = init-rooted path of the Payloads history graph: (a) histories reached by single letters "
                       "(thorough: three covers of every (history, letter x timestamp class) edge; quick: a seed-chosen 4000 of "
                       "those paths); (b) staged histories = a staging macro (optional sequence header, 14/15/16 copies of a "
                       "letter that identifies nothing / audio only / video only, consumers joining in the middle) from the "
                       "initial history, then the late join and every letter (thorough: every edge once; quick: from every staged "
                       "history the letters that stand for a kind, plus a seed-chosen %d of the other edges); published through "
                       "Group.OnReadRtmpAvMsg of a real ServerManager with every output enabled, in child processes, one "
                       "watchdog per call and a probe of a second stream after every step; each is distinct" % QUICK_STAGED_SAMPLE)
    if scen:
        ctx.sample({"sc": scen[0]["sc"], "cfg": scen[0]["cfg"]["id"],
                    "steps": [step_text(s) for s in scen[0]["steps"]]})
    for sc in scen:
        if sc["steps"][0]["name"] == "Stage":
            ctx.sample({"sc": sc["sc"], "cfg": sc["cfg"]["id"], "steps": [step_text(s) for s in sc["steps"]]})
            break
    ends = [r.get("info", {}) for r in rows if r.get("ev") == "End"]
    ctx.cov["scenarios_with_rtsp_consumer_playing"] = sum(1 for i in ends if i.get("rtspPlaying", 0) > 0)
    ctx.cov["scenarios_with_rtp_delivered"] = sum(1 for i in ends if i.get("rtspBytes", 0) > 0)
    ctx.cov["scenarios_with_ts_delivered"] = sum(1 for i in ends if i.get("tsBytes", 0) > 0)
    rej = E.validate(ctx, "Trace_Payloads", "Trace_Payloads.cfg", rows)
    # not a verdict: steps of staged scenarios (configuration A) where lal's count-bounded stages (DESCRIBE answered,
    # PAT/PMT recorded) are not where the model has them
    import glob, os
    nmis = 0
    for f in glob.glob(os.path.join(ctx.work, "tlc-val-Trace_Payloads-s*", "out.txt")):
        with open(f, errors="replace") as fh:
            nmis += sum(1 for line in fh if "@MIS@" in line)
    ctx.cov["staged_steps_where_stage_state_differs_from_model"] = nmis
    if nmis:
        ctx.log("note: %d staged steps where lal's stage state (DESCRIBE answered / PAT+PMT recorded) differs from the model's" % nmis)
    # one report per signature: prefer a case that was re-run alone and reproduced
    rej.sort(key=lambda r: 0 if r["event"].get("obs", {}).get("confirmed") else 1)
    for r in rej:
        ev = r["event"]
        o = ev.get("obs", {})
        sig = signature(ev)
        m = ev.get("m") or {}
        what = "%s%s" % (ev.get("ev"), (" " + m.get("name", "") + "@" + ev.get("ts", "")) if m else "")
        if ev.get("ev") == "Stage":
            what = step_text(dict(name="Stage", s=ev["s"]))
        text = "scenario %s step %d (%s, cfg %s): %s" % (
            r["sc"], r["line"], what, r["trace"][0].get("cfg", {}).get("id"),
            json.dumps({k: o.get(k) for k in ("died", "stalled", "other", "hookN", "crash", "frame", "confirmed")}))
        if (o.get("died") or o.get("stalled")) and not o.get("confirmed"):
            text += " [not re-run alone: same signature confirmed on earlier cases, or not reproducible alone]"
        sc = scen[r["sc"]] if r["sc"] is not None and r["sc"] < len(scen) else None
        E.report(ctx, sig, text, {"scenario": sc, "trace": r["trace"]})
    ctx.assumptions += ["payload bytes per letter are built by harness/drv/payloads.go and checked against the letter attributes the model uses",
                        "log.assert_behavior at the shipped default (1); log level error except configurations B and C4 (shipped debug level, to /dev/null)",
                        "per-call budget 400 ms + 1 us/byte on a loaded machine; an expiry counts only if it reproduces on two re-runs alone",
                        "stage state of staged histories (TS probe, RTSP analysis: messages held, tracks identified, over by count / by "
                        "identification) is exact in configuration A and compared there with lal (DESCRIBE of the parked subscriber answered, "
                        "PAT/PMT in the TS recording; a difference is counted, not judged); under dummy audio it describes the "
                        "publisher's messages, which the filter holds back, re-times and pads before the remuxers see them"]

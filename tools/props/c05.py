"""C05 -- no published media payload can terminate or stall the server (spec/Payloads.tla, driver payloads)."""
import json
import engine as E

# model configuration (dummy, predict) -> driver configurations that replay its paths
ALL = "all"
DRV = {
    (False, True): [dict(id="A", dummy=False, predict=True, outs=ALL, gop=0, debug=False)],
    (True, False): [dict(id="B", dummy=True, predict=False, outs=ALL, gop=1, debug=True)],
    (False, False): [dict(id="C1", dummy=False, predict=False, outs="rtmp,flv,recflv", gop=2, debug=False),
                     dict(id="C2", dummy=False, predict=False, outs="ts,hls,rects", gop=1, debug=False),
                     dict(id="C3", dummy=False, predict=False, outs="rtsp", gop=0, debug=False),
                     dict(id="C4", dummy=False, predict=False, outs="hls", gop=0, debug=True),
                     dict(id="C5", dummy=False, predict=False, outs="rtmp,rtsp,ts", gop=0, debug=False)],
}


def signature(ev):
    o = ev.get("obs", {})
    name = ev.get("ev")
    m = ev.get("m") or {}
    if o.get("died"):
        frame = o.get("frame") or "unknown"
        return "died:%s" % frame
    if o.get("stalled"):
        if o.get("crash") == "watchdog":
            return "stalled:%s:fanout_%s" % (name, "unbounded" if o.get("hookN", 0) > 1000 else "small")
        return "stalled:%s:%s" % (name, o.get("crash"))
    if o and not o.get("other"):
        return "other_stream_not_served:%s" % name
    bad = [c for c in ("hook", "rec", "r0", "f0", "r1", "f1") if o.get(c, {}).get("bad")]
    if bad:
        return "altered:%s:%s" % (m.get("t", "-"), "+".join(bad))
    if name == "Pub":
        return "delivery:%s:%s" % (m.get("t"), "empty" if m.get("n") == 0 else "short" if m.get("n", 9) <= 5 else "long")
    return str(name)


def cover(g, rng, max_len):
    """Init-rooted paths covering every edge of the history graph.  Unlike Graph.edge_cover a walk that runs
    out of uncovered edges where it stands goes on, through already covered edges, to the nearest history
    that still has some (most letters leave a history unchanged or lead to a few hubs)."""
    from collections import deque
    parent = {}
    dq = deque()
    for i in sorted(g.inits):
        parent[i] = None
        dq.append(i)
    hop = {}                                  # u -> {v: index of one edge u -> v}
    for u in g.adj:
        d = {}
        for k, (a, v) in enumerate(g.adj[u]):
            if v != u and v not in d:
                d[v] = k
        hop[u] = d
    while dq:
        u = dq.popleft()
        for v, k in hop[u].items():
            if v not in parent:
                parent[v] = (u, k)
                dq.append(v)

    def prefix(u):
        p = []
        while parent[u] is not None:
            pu, k = parent[u]
            p.append((pu, k))
            u = pu
        p.reverse()
        return p

    unc = {u: set(range(len(g.adj[u]))) for u in g.adj if u in parent}
    left = sum(len(x) for x in unc.values())
    total = left

    def route(src, budget):
        """shortest hop sequence from src to a history with uncovered edges"""
        seen = {src: None}
        q = deque([src])
        while q:
            u = q.popleft()
            if u != src and unc[u]:
                r = []
                while seen[u] is not None:
                    pu, k = seen[u]
                    r.append((pu, k))
                    u = pu
                r.reverse()
                return r if len(r) < budget else None
            for v, k in hop[u].items():
                if v not in seen:
                    seen[v] = (u, k)
                    q.append(v)
        return None

    paths = []
    nodes = sorted(unc)
    while left > 0:
        cands = [u for u in nodes if unc[u]]
        u = max(cands, key=lambda x: (len(prefix(x)), len(unc[x]), rng.random()))   # deepest first
        p = prefix(u)
        for e in p:
            if e[1] in unc[e[0]]:
                unc[e[0]].discard(e[1])
                left -= 1
        cur = u
        while len(p) < max_len:
            if unc[cur]:
                k = rng.choice(sorted(unc[cur]))
                unc[cur].discard(k)
                left -= 1
                p.append((cur, k))
                cur = g.adj[cur][k][1]
                continue
            r = route(cur, max_len - len(p))
            if not r:
                break
            for e in r:
                if e[1] in unc[e[0]]:
                    unc[e[0]].discard(e[1])
                    left -= 1
                p.append(e)
            cur = g.adj[r[-1][0]][r[-1][1]][1]
        paths.append([g.adj[x][k][0] for (x, k) in p])
    return paths, total


def run(ctx):
    E.build_harness(ctx)
    cfg = "MC_Payloads_q.cfg" if ctx.quick else "MC_Payloads_t.cfg"
    res = E.tlc(ctx, "MC_Payloads", cfg, timeout=1200, deadlock=False)
    E.require_design_ok(ctx, res, cfg)
    g = E.Graph.load(res)
    paths, ncov = cover(g, ctx.rng, 30)
    if not ctx.quick:
        # two more covers with other random choices: every edge again, behind different predecessors
        for _ in range(2):
            paths += cover(g, ctx.rng, 30)[0]
    ctx.log("%s: %d histories, %d (history, letter x timestamp class | join) edges, %d covering paths" %
            (cfg, res["distinct"], g.nedges, len(paths)))
    def cfg_of(path):
        c = path[0]["cfg"]          # every action carries the configuration of its history
        return (c["dummy"], c["predict"])

    if ctx.quick:
        ctx.rng.shuffle(paths)
        paths = paths[:4000]
    scen = []
    rr = {}
    for p in paths:
        mc = cfg_of(p)
        cands = DRV[mc]
        k = rr.get(mc, 0)
        rr[mc] = k + 1
        steps = [dict(name=a["name"], m=a.get("m"), ts=a.get("ts", "")) for a in p]
        scen.append({"sc": len(scen), "cfg": cands[k % len(cands)], "steps": steps})
    nsteps = sum(len(s["steps"]) for s in scen)
    sp, tp = ctx.path("scen.ndjson"), ctx.path("trace.ndjson")
    E.write_ndjson(sp, scen)
    E.run_driver(ctx, "payloads", sp, tp, timeout=2400)
    rows = E.read_ndjson(tp)
    ctx.cov["traces_validated_against_impl"] = len(scen)
    ctx.cov["evaluations"] = nsteps
    ctx.cov["distinct_nontrivial"] = len(scen)
    ctx.cov["edges_total"] = g.nedges
    ctx.cov["edges_covered_by_paths"] = ncov if not ctx.quick else None
    ctx.cov["rule"] = ("scenario = init-rooted path of the Payloads history graph (thorough: three covers of every (history, letter x "
                       "timestamp class) edge; quick: a seed-chosen 4000 of those paths), published through "
                       "Group.OnReadRtmpAvMsg of a real ServerManager with every output enabled, in child processes, one "
                       "watchdog per call and a probe of a second stream after every step; each is distinct")
    if scen:
        ctx.sample({"sc": scen[0]["sc"], "cfg": scen[0]["cfg"]["id"],
                    "steps": [(s["m"]["name"] + "@" + s["ts"]) if s["name"] == "Pub" else "Join" for s in scen[0]["steps"]]})
    ends = [r.get("info", {}) for r in rows if r.get("ev") == "End"]
    ctx.cov["scenarios_with_rtsp_consumer_playing"] = sum(1 for i in ends if i.get("rtspPlaying", 0) > 0)
    ctx.cov["scenarios_with_rtp_delivered"] = sum(1 for i in ends if i.get("rtspBytes", 0) > 0)
    ctx.cov["scenarios_with_ts_delivered"] = sum(1 for i in ends if i.get("tsBytes", 0) > 0)
    rej = E.validate(ctx, "Trace_Payloads", "Trace_Payloads.cfg", rows)
    # one report per signature: prefer a case that was re-run alone and reproduced
    rej.sort(key=lambda r: 0 if r["event"].get("obs", {}).get("confirmed") else 1)
    for r in rej:
        ev = r["event"]
        o = ev.get("obs", {})
        sig = signature(ev)
        m = ev.get("m") or {}
        what = "%s%s" % (ev.get("ev"), (" " + m.get("name", "") + "@" + ev.get("ts", "")) if m else "")
        text = "scenario %s step %d (%s, cfg %s): %s" % (
            r["sc"], r["line"], what, r["trace"][0].get("cfg", {}).get("id"),
            json.dumps({k: o.get(k) for k in ("died", "stalled", "other", "hookN", "crash", "frame", "confirmed")}))
        if (o.get("died") or o.get("stalled")) and not o.get("confirmed"):
            text += " [not re-run alone: same signature confirmed on earlier cases, or not reproducible alone]"
        sc = scen[r["sc"]] if r["sc"] is not None and r["sc"] < len(scen) else None
        E.report(ctx, sig, text, {"scenario": sc, "trace": r["trace"]})
    ctx.assumptions += ["payload bytes per letter are built by harness/drv/payloads.go and checked against the letter attributes the model uses",
                        "log.assert_behavior at the shipped default (1); log level error except configurations B and C4 (shipped debug level, to /dev/null)",
                        "per-call budget 400 ms + 1 us/byte on a loaded machine; an expiry counts only if it reproduces on two re-runs alone"]

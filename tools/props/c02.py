"""C02 -- every consumer starts decodable: spec/Fanout.tla for RTMP / HTTP-FLV / WebSocket-FLV consumers, spec/RemuxOut.tla
(late HTTP-TS consumer, RTSP subscriber with DESCRIBE and PLAY at any two instants) and spec/Republish.tla (consumers of a
later publisher epoch) for the HTTP-TS / HLS / RTSP clauses."""
from props.fanout_common import run_fanout
from props.republish_common import run_republish
from props import c06


def run(ctx):
    if ctx.quick:
        run_fanout(ctx, bfs=[("A", 4, 2), ("C", 6, 1)], emit=[("A", 3, 2)],
                   sim=[("C", 10, 2, 250, 16), ("D", 10, 3, 200, 18), ("A", 9, 3, 150, 16), ("Ah", 9, 3, 80, 16), ("En", 9, 3, 80, 16)])
        run_republish(ctx)
        c06.run(ctx, c02=True)
    else:
        run_fanout(ctx, bfs=[("A", 5, 2), ("C", 7, 1), ("D", 4, 1)], emit=[("A", 3, 2), ("C", 5, 1)],
                   sim=[("C", 12, 3, 2000, 24), ("D", 12, 3, 2500, 26), ("A", 12, 3, 1500, 24), ("Ah", 12, 3, 800, 24), ("En", 12, 3, 800, 24)])
        run_republish(ctx)
        c06.run(ctx, c02=True)

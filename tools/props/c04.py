"""C04 -- no byte sequence from an RTMP peer terminates the server (spec/RtmpSession.tla, driver rtmpsession)."""
import json
import engine as E

INVS = "NeverCrashes ClosedIsFinal RoleOnce TypeOk"
FRAGS = ("whole", "bytes", "chunks")


def M(m, a, s=""):
    return {"m": m, "a": a, "s": s}


HS = [M("c0c1", "simple", "full"), M("c2", "echo", "full")]
PRE = {"none": HS,
       "pub": HS + [M("cmd", "connect", "ok"), M("cmd", "createStream", "ok"), M("cmd", "publish", "ok")],
       "sub": HS + [M("cmd", "connect", "ok"), M("cmd", "createStream", "ok"), M("cmd", "play", "ok")]}


def rtmp_only(msgs):
    """Payload classes with malformed *content* (shape "rtmp") and arbitrary bytes under the audio / video type
    ids are executed with the stub observer only: what the stream pipeline does with them is C05's subject."""
    return any(m["s"] == "rtmp" or (m["m"] == "other" and m["a"] in ("8", "9")) for m in msgs)


def run(ctx):
    E.build_harness(ctx)
    scen = []

    def add(msgs, mode, frag, fam):
        if mode == "sm" and rtmp_only(msgs):
            return
        # a message whose effect only shows when the next message is handled (window acknowledgement size, chunk size,
        # acknowledgement) must not be the last thing the session sees: every scenario ends with a ping request
        scen.append({"sc": len(scen), "mode": mode, "frag": frag, "fam": fam, "msgs": list(msgs) + [M("uc", "ping", "6")]})

    # 1. state graph of the protocol machine over the whole alphabet, every edge replayed
    res = E.tlc(ctx, "MC_RtmpSession", "MC_RtmpSession_graph.cfg", timeout=900, deadlock=False)
    E.require_design_ok(ctx, res, "graph")
    g = E.Graph.load(res)
    paths, ncov = g.edge_cover(ctx.rng, max_len=9)
    if ncov != g.nedges:
        raise E.Infra("edge cover incomplete: %d of %d" % (ncov, g.nedges))
    ctx.log("graph: %d states, %d edges, covered by %d paths" % (len(g.ids), g.nedges, len(paths)))
    for k, p in enumerate(paths):
        if ctx.quick:
            add(p, "sm" if k % 2 and not rtmp_only(p) else "stub", FRAGS[k % 3], "graph")
        else:
            for mode in ("stub", "sm"):
                for fr in FRAGS:
                    add(p, mode, fr, "graph")
    ngraph = len(scen)

    # 2. every order of the state-sensitive messages up to a depth
    cfg = "MC_RtmpSession_seq_q.cfg" if ctx.quick else "MC_RtmpSession_seq_t.cfg"
    res = E.tlc(ctx, "MC_RtmpSession", cfg, timeout=1800, deadlock=False)
    E.require_design_ok(ctx, res, cfg)
    nseq = 0
    for k, s in enumerate(E.emitted(res, "@S@")):
        nseq += 1
        msgs = PRE[s["r"]] + list(s["h"])
        add(msgs, "stub" if k % 2 else "sm", "whole" if ctx.quick else FRAGS[k % 3], "seq")
    ctx.log("%s: %d maximal sequences" % (cfg, nseq))

    # 3. every message type id x generic payload x role
    res = E.tlc(ctx, "MC_RtmpSession", "MC_RtmpSession_types.cfg", timeout=900, deadlock=False)
    E.require_design_ok(ctx, res, "types")
    ntyp = 0
    for k, s in enumerate(E.emitted(res, "@S@")):
        ntyp += 1
        msgs = PRE[s["r"]] + list(s["h"]) + [M("ack", "", "4")]
        if ctx.quick:
            add(msgs, "sm" if k % 2 and not rtmp_only(msgs) else "stub", FRAGS[k % 3], "types")
        else:
            add(msgs, "stub", FRAGS[k % 3], "types")
            add(msgs, "sm", FRAGS[k % 3], "types")
    ctx.log("types: %d (type id, payload, role) cases; %d scenarios in total" % (ntyp, len(scen)))

    sp, tp = ctx.path("scen.ndjson"), ctx.path("trace.ndjson")
    E.write_ndjson(sp, scen)
    E.run_driver(ctx, "rtmpsession", sp, tp, timeout=3000)
    rows = E.read_ndjson(tp)
    nend = sum(1 for r in rows if r["ev"] == "end")
    if nend != len(scen):
        raise E.Infra("driver recorded %d of %d scenarios" % (nend, len(scen)))
    ctx.cov["traces_validated_against_impl"] = len(scen)
    ctx.cov["evaluations"] = sum(1 for r in rows if r["ev"] == "send")
    ctx.cov["distinct_nontrivial"] = g.nedges + nseq + ntyp
    ctx.cov["rule"] = ("every edge (state, message) of the protocol machine over the whole alphabet replayed on init-rooted paths "
                       "(%d scenarios); every order of the state-sensitive messages to depth %d (%d sequences); every message "
                       "type id x 3 payloads x 3 roles (%d); stub observer and full logic.ServerManager, three fragmentations, "
                       "child processes, second connection after every scenario" %
                       (ngraph, 4 if ctx.quick else 6, nseq, ntyp))
    ctx.sample(scen[0])
    ctx.sample(scen[ngraph] if ngraph < len(scen) else scen[-1])
    rej = E.validate(ctx, "Trace_RtmpSession", "Trace_RtmpSession.cfg", rows)
    for r in rej:
        ev = r["event"]
        sc = scen[r["sc"]] if isinstance(r["sc"], int) and r["sc"] < len(scen) else None
        if ev["ev"] == "end":
            if ev["died"]:
                sig = "died:%s" % (ev["frame"] or ev["crash"]).replace(" ", "_")
            elif not ev["fin"]:
                sig = "stuck-session"
            else:
                sig = "second-connection:%s" % ev["probe"]
        elif ev["obs"] == "panic":
            sig = "panic:%s" % ev["frame"].replace(" ", "_")
        elif ev["obs"] == "hung":
            sig = "hung:%s" % ev["msg"]["m"]
        else:
            sig = "state:%s.%s:%s" % (ev["msg"]["m"], ev["msg"]["a"], ev["obs"])
        E.report(ctx, sig, "rejected %s of scenario %s: %s" % (ev["ev"], json.dumps(sc)[:400], json.dumps(ev)[:400]),
                 {"scenario": sc, "event": ev, "trace": r["trace"][:40]})
    ctx.assumptions += ["independent RTMP client encoder harness/proj/rtmpwire.go (handshake digests, chunking, AMF0 shapes)",
                        "a panic of the session goroutine is recovered by the driver and recorded as the observation 'panic' "
                        "(lal recovers nowhere: in production it ends the process); fatal errors are seen as a dead child",
                        "open/closed is observed when lal's reader is parked in Read again or lal has closed the connection",
                        "payload classes with malformed media content run against the stub observer only (pipeline = C05)"]

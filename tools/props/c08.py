"""C08 -- RTMP chunk stream encode/decode is exact (spec/RtmpChunk.tla, driver chunk)."""
import engine as E

EXT = 0xFFFFFF


def limbs(v):
    return [(v >> 16) & 0xFFFF, v & 0xFFFF]


def tsclass(l):
    v = (l[0] << 16) | l[1]
    return "lt" if v < EXT else ("eq" if v == EXT else "gt")


def lenclass(n, cs):
    return "0" if n == 0 else ("le" if n <= cs else "gt")


def paths_to_scenarios(paths, init_cs, sid0):
    scs = []
    sid = sid0
    for p in paths:
        steps = [{"name": a["name"], "chunk": a["chunk"], "msg": a["msg"]} for a in p]
        scs.append({"sc": sid, "kind": "s2r", "cs": init_cs, "steps": steps})
        sid += 1
        # the same submitted messages through lal's writer (whole messages, in Begin order)
        msgs = [dict(a["msg"]) for a in p if a["name"] == "Begin" and a["msg"]["type"] != 22]
        if msgs:
            scs.append({"sc": sid, "kind": "w2s", "cs": init_cs, "msgs": msgs})
            sid += 1
    return scs


def pool_w2s(ctx, sid0):
    """Boundary pools at production constants for lal's writer (concretisation pool)."""
    out = []
    sid = sid0
    tss = [0, 1, EXT - 1, EXT, EXT + 1, 0x7FFFFFFF, 0x80000000, 0xFFFFFFFF]
    csids = [2, 3, 63, 64, 65, 319, 320, 65599]
    chunk_sizes = [1, 128, 4096, 65536] if not ctx.quick else [128, 4096]
    for cs in chunk_sizes:
        lens = sorted(set([0, 1, cs - 1, cs, cs + 1, 2 * cs, 2 * cs + 1, 3 * cs - 1]) - {-1})
        if not ctx.quick:
            lens += [65535, 65536] + ([0xFFFFFF] if cs >= 4096 else [])
        lens = [n for n in lens if n // cs <= 70000]
        for n in lens:
            for ts in tss:
                csid = csids[(n + ts + cs) % len(csids)]
                m = {"csid": csid, "ts": limbs(ts), "len": n, "type": 9, "msid": 1, "newcs": 0, "subs": []}
                out.append({"sc": sid, "kind": "w2s", "cs": cs, "msgs": [m]})
                sid += 1
        # every csid form, three messages in a row on the same chunk stream (the writer is stateless
        # across messages: prevHeader is only ever the message's own header for continuation chunks)
        for csid in csids:
            for (t1, t2) in [(0, 0), (5, 45), (EXT - 10, EXT - 1), (100, 100 + EXT - 1), (EXT + 5, 40)]:
                ms = [{"csid": csid, "ts": limbs(t), "len": n, "type": ty, "msid": 1, "newcs": 0, "subs": []}
                      for (t, n, ty) in [(t1, cs + 1, 8), (t2, cs + 1, 8), (t2, 3, 9)]]
                out.append({"sc": sid, "kind": "w2s", "cs": cs, "msgs": ms})
                sid += 1
    return out


def signature(rej):
    ev = rej["event"]
    tr = rej["trace"]
    kind = tr[0].get("kind")
    if ev.get("ev") in ("Chunk", "Feed"):
        ch, m = ev["chunk"], ev.get("msg") or {}
        cs = tr[0]["cs"]
        return "%s:%s:fmt%d:ts_%s:len_%s" % (kind, ev["ev"], ch["fmt"], tsclass(m.get("ts", [0, 0])),
                                             lenclass(m.get("len", 0), cs))
    if ev.get("ev") == "End":
        cls = "leftover" if ev.get("leftover") else ("lalerr_" + ev.get("lalerr", "?") if ev.get("lalerr") != "eof" else "count_or_lalout")
        # refine by the message classes present
        msgs = [e.get("msg") for e in tr if e.get("msg")]
        zero = any(mm.get("len") == 0 for mm in msgs) or (tr[0].get("nmsgs", 0) > 0 and not msgs)
        return "%s:End:%s%s" % (kind, cls, ":zero_len" if zero else "")
    return "%s:%s" % (kind, ev.get("ev"))


def run(ctx):
    E.build_harness(ctx)
    cfgs = ["MC_RtmpChunk_q.cfg", "MC_RtmpChunk_agg.cfg", "MC_RtmpChunk_f3.cfg"]
    if not ctx.quick:
        cfgs.append("MC_RtmpChunk_t.cfg")
    init_cs_of = {"MC_RtmpChunk_agg.cfg": 16}
    scen = []
    for cfg in cfgs:
        res = E.tlc(ctx, "MC_RtmpChunk", cfg, timeout=1500, deadlock=False)
        E.require_design_ok(ctx, res, cfg)
        g = E.Graph.load(res)
        maxp = None
        paths, ncov = g.edge_cover(ctx.rng, max_len=30, max_paths=maxp)
        ctx.log("%s: %d distinct states, %d edges, %d cover paths (%d edges covered)" %
                (cfg, res["distinct"], g.nedges, len(paths), ncov))
        ctx.cov.setdefault("models", []).append({"cfg": cfg, "distinct": res["distinct"], "edges": g.nedges,
                                                 "paths": len(paths), "edges_covered": ncov})
        init_cs = init_cs_of.get(cfg, 2)
        scen += paths_to_scenarios(paths, init_cs, len(scen))
    scen += pool_w2s(ctx, len(scen))
    # lal's writer of signalling messages (rtmp.MessagePacker): bodies on both sides of LocalChunkSize (one chunk built in
    # place / message2Chunks) and of its multiples, for publish and play, long application names for connect
    names = [1, 100, 3900, 4040, 4050, 4060, 4066, 4067, 4068, 4070, 4080, 4090, 4096, 4097, 4100, 8150, 8160, 8170, 8190, 8200,
             12280, 12300, 20000] + ([] if ctx.quick else [65535, 65536, 70000, 200000])
    for n in names:
        for pub in (True, False):
            scen.append({"sc": len(scen), "kind": "cmd", "cs": 128, "msgs": [], "steps": [], "app": 4, "name": n, "pub": pub})
    for a in (3950, 4000, 4040, 4096, 9000):
        scen.append({"sc": len(scen), "kind": "cmd", "cs": 128, "msgs": [], "steps": [], "app": a, "name": 7, "pub": True})
    # scaled whole-range design check (no emission)
    if not ctx.quick:
        res = E.tlc(ctx, "MC_RtmpChunk", "MC_RtmpChunk_scaled.cfg", timeout=1500, deadlock=False)
        E.require_design_ok(ctx, res, "scaled")
    sp = ctx.path("scen.ndjson")
    E.write_ndjson(sp, scen)
    tp = ctx.path("trace.ndjson")
    E.run_driver(ctx, "chunk", sp, tp)
    rows = E.read_ndjson(tp)
    ctx.cov["traces_validated_against_impl"] = len(scen)
    ctx.cov["evaluations"] = len(scen)
    ctx.cov["distinct_nontrivial"] = len(scen)
    ctx.cov["rule"] = ("scenario = init-rooted path of the TLC state graph of RtmpChunk (edge cover) replayed "
                       "into lal's ChunkComposer (s2r) and its submitted messages through lal's message2Chunks "
                       "(w2s), plus boundary pools at production constants; all distinct by construction")
    ctx.sample(scen[0])
    ctx.sample(scen[-1])
    rej = E.validate(ctx, "Trace_RtmpChunk", "Trace_RtmpChunk.cfg", rows)
    for r in rej:
        sig = signature(r)
        E.report(ctx, sig, "trace rejected at %s (scenario %s line %d) inv=%s" %
                 (r["event"].get("ev"), r["sc"], r["line"], r["inv"]),
                 {"scenario": next((s for s in scen if s["sc"] == r["sc"]), None), "trace": r["trace"],
                  "rejected_event": r["event"]})
    ctx.assumptions += ["the 70-line structural chunk splitter and encoder in harness/proj/rtmpchunk.go follow the RTMP "
                        "specification's header grammar", "TLC 32-bit integers: timestamps as 16-bit limb pairs"]

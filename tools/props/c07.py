"""C07 -- RTSP / GB28181 / customize ingest reaches RTMP/FLV consumers (spec/Ingest.tla, driver ingest)."""
import json
import engine as E

SENT = 120
FI = {96000: 0, 88200: 1, 64000: 2, 48000: 3, 44100: 4, 32000: 5, 24000: 6, 22050: 7, 16000: 8, 12000: 9, 11025: 10, 8000: 11}


WBITS = {"rtsp": 32, "ps": 33, "cust": 0}


def limbs(v):
    """source clock (48 bits) as three 16-bit limbs"""
    return [(v >> 32) & 0xffff, (v >> 16) & 0xffff, v & 0xffff]


def unlimb(l):
    v = 0
    for x in l:
        v = (v << 16) | x
    return v


def need(vc):
    return ["vps", "sps", "pps"] if vc == "hevc" else ["sps", "pps"]


def concretise(idx, gid, sc, order, rng):
    """driver scenario from a TLC-built scenario + arrival order (plus choices the model leaves open)"""
    s = dict(sc)
    s.pop("np", None)
    s.pop("reg", None)
    s0 = s.pop("s0")
    s.update({"sc": idx, "g": gid, "order": order, "s0v": s0, "s0a": (s0 + 65530) % 65536,
              "afmt": "raw"})
    if s["path"] == "cust" and s["ac"] == "aac" and gid % 3 == 0:
        s["afmt"] = "adts"
    if s["path"] == "ps":
        s["fmt"] = "annexb3" if gid % 2 == 0 else "annexb"
    return s


def shift(s, trk, k):
    """the same stream with every timestamp of one track moved by a constant"""
    s = json.loads(json.dumps(s))
    for f in s["frames"]:
        if f["trk"] == trk:
            f["ts"] = limbs(unlimb(f["ts"]) + k)
    return s


def special(sc):
    """PS packings of AAC audio beyond one frame per PES: several ADTS frames under one PES header / PTS ("grouped"),
    ADTS frames with 1..4 bytes behind the header ("tiny"); "" = neither"""
    if sc["path"] != "ps":
        return ""
    au = [f for f in sc["frames"] if f["trk"] == "a" and f["us"][0]["id"] < SENT]
    grouped = any(f.get("g", 0) > 0 for f in au)
    tiny = sc["ac"] == "aac" and any(f["us"][0]["n"] < 5 for f in au)
    if grouped:
        return "several_adts_frames_in_one_pes" + ("_with_1_to_4_bytes_behind_their_headers" if tiny else "")
    if tiny:
        return "adts_frame_with_1_to_4_bytes_behind_the_header"
    return ""


def long_run(idx, path, vc, ac, arate, nfr, cls, base_v, base_a, vstep=None, astep=None, dv=None, da=None, grp=1, tiny=False):
    """arithmetically generated run of nfr video (and audio) frames for the drift clause; base_v / base_a: the
    first DTS of the track on the source clock (48 bits, not reduced to the wire field); dv / da: PS with a
    DTS field, PTS - DTS of the track; grp (PS, AAC): ADTS frames per audio PES, the first carries the PTS, the
    others follow it in the same PES payload and stand 1024 samples each behind it (astep = the distance of two
    frames in ticks, not less than a frame lasts); tiny: audio frames of 1..4 bytes"""
    dts = dv is not None or da is not None
    dv, da = dv or 0, da or 0
    frames, plan, ps = [], [], []
    vrate = 90000
    vs = vstep or (40 if path == "cust" else 3600)
    if path == "cust":
        as_ = astep or 23
    elif path == "ps":
        as_ = astep or 1920
    else:
        as_ = astep or (1024 if ac == "aac" else arate // 50)
    vsec = 1000 if path == "cust" else 90000
    asec = arate if path == "rtsp" else vsec

    def add(fr):
        frames.append(fr)
        f = len(frames)
        if path == "rtsp":
            if fr["trk"] == "v" and cls == "agg" and len(fr["us"]) > 1:
                plan.append({"f": f, "us": list(range(1, len(fr["us"]) + 1)), "i": 1, "m": 1})
            else:
                for i, u in enumerate(fr["us"]):
                    if cls == "fu" and u["k"] in ("idr", "p") and u["id"] < SENT:
                        plan.extend({"f": f, "us": [i + 1], "i": x, "m": 3} for x in (1, 2, 3))
                    else:
                        plan.append({"f": f, "us": [i + 1], "i": 1, "m": 1})
        if path == "ps":
            key = any(u["k"] == "idr" for u in fr["us"])
            # a PES in which a further frame commences carries the PTS of the group's first frame once
            ps.append({"f": f, "m": (2 if f % 5 < 2 else 1) if fr["trk"] == "a" else 1 + (f % 3), "c": 1 + (f % 2),
                       "pall": f % 2 == 0 and not (fr["trk"] == "a" and grp > 1),
                       "sys": key or f == 1, "psm": key or f == 1, "join": False, "dts": dts, "ride": fr.get("g", 0) > 0,
                       "pph": fr["trk"] == "v" and f % 4 == 3})

    for j in range(nfr):
        if vc != "none":
            uid = 1 + (j % 100)
            n = 12 + j // 100
            if j % 25 == 0:
                us = [{"k": k, "id": 0, "n": 1 + (j // 25) % 2} for k in need(vc)] + [{"k": "idr", "id": uid, "n": n}]
            else:
                us = [{"k": "p", "id": uid, "n": n}]
            add({"trk": "v", "ts": limbs(base_v + dv + j * vs), "d": dv, "g": 0, "us": us})
        if ac != "none":
            g = j % grp
            add({"trk": "a", "ts": limbs(base_a + da + (j - g) * as_ + g * 1024 * asec // arate), "d": da, "g": g,
                 "us": [{"k": "au", "id": 1 + (j % 100), "n": 1 + (j + j // 4) % 4 if tiny else 9 + j // 100}]})
    # sentinels 2 s and 4 s after the end of the longer track
    end = max((nfr - 1) * vs * 1000 // vsec if vc != "none" else 0, (nfr - 1) * as_ * 1000 // asec if ac != "none" else 0)
    for x in (1, 2):
        if vc != "none":
            add({"trk": "v", "ts": limbs(base_v + dv + (end + 2000 * x) * vsec // 1000), "d": dv, "g": 0, "us": [{"k": "idr", "id": SENT + x, "n": 9}]})
        if ac != "none":
            add({"trk": "a", "ts": limbs(base_a + da + (end + 2000 * x) * asec // 1000), "d": da, "g": 0, "us": [{"k": "au", "id": SENT + 2 + x, "n": 9}]})
    ch = 2 if arate >= 44100 else 1
    return {"sc": idx, "g": -idx, "path": path, "vc": vc, "ac": ac, "vrate": vrate, "arate": arate,
            "asc": [2, FI.get(arate, 4), ch] if ac == "aac" else [], "sdp": [], "fmt": "annexb" if path != "rtsp" else cls,
            "afmt": "raw", "frames": frames, "plan": plan, "ps": ps, "s0v": 65000, "s0a": 65500, "ptrk": "v", "order": [],
            "origin": "long" if grp == 1 and not tiny else "long_grouped" if grp > 1 else "long_tiny"}


def big_frames(idx, vc, n, mode):
    """PS: one key frame of n bytes, so that it needs several PES packets (mode 0: full-size PES with
    PES_packet_length 0xFFFF, mode k: k even PES)"""
    frames = [{"trk": "v", "ts": limbs(900000), "us": [{"k": k, "id": 0, "n": 1} for k in need(vc)] + [{"k": "idr", "id": 5, "n": n}]},
              {"trk": "v", "ts": limbs(903600), "us": [{"k": "p", "id": 6, "n": n // 2}]},
              {"trk": "v", "ts": limbs(1083600), "us": [{"k": "idr", "id": SENT + 1, "n": 9}]},
              {"trk": "v", "ts": limbs(1263600), "us": [{"k": "idr", "id": SENT + 2, "n": 9}]}]
    ps = [{"f": f + 1, "m": mode, "c": 1, "pall": f % 2 == 0, "sys": f == 0, "psm": f == 0, "join": False} for f in range(4)]
    return {"sc": idx, "g": -idx, "path": "ps", "vc": vc, "ac": "none", "vrate": 90000, "arate": 0, "asc": [], "sdp": [],
            "fmt": "annexb", "afmt": "raw", "frames": frames, "plan": [], "ps": ps, "s0v": 65530, "s0a": 0, "ptrk": "all",
            "order": [], "origin": "big"}


def cut_sweep(idx, vc, ac, k):
    """PS: a key frame with an audio PES in the same pack and a following frame, every pack in two RTP
    packets cut after k bytes: the cut walks through every header of the pack"""
    frames = [{"trk": "v", "ts": limbs(900000), "us": [{"k": "aud", "id": 1, "n": 2}] + [{"k": x, "id": 0, "n": 1} for x in need(vc)] +
               [{"k": "sei", "id": 2, "n": 9}, {"k": "idr", "id": 3, "n": 40}]},
              {"trk": "a", "ts": limbs(900100), "us": [{"k": "au", "id": 61, "n": 24}]},
              {"trk": "v", "ts": limbs(903600), "us": [{"k": "p", "id": 4, "n": 30}, {"k": "p", "id": 5, "n": 31}]},
              {"trk": "a", "ts": limbs(902020), "us": [{"k": "au", "id": 62, "n": 25}]},
              {"trk": "v", "ts": limbs(1083600), "us": [{"k": "idr", "id": SENT + 1, "n": 9}]},
              {"trk": "a", "ts": limbs(1083700), "us": [{"k": "au", "id": SENT + 3, "n": 9}]},
              {"trk": "v", "ts": limbs(1263600), "us": [{"k": "idr", "id": SENT + 2, "n": 9}]},
              {"trk": "a", "ts": limbs(1263700), "us": [{"k": "au", "id": SENT + 4, "n": 9}]}]
    ps = [{"f": f + 1, "m": 2 if frames[f]["trk"] == "v" else 1, "c": 2, "pall": k % 2 == 0, "sys": f == 0, "psm": f == 0,
           "join": frames[f]["trk"] == "a", "cut": k} for f in range(len(frames))]
    return {"sc": idx, "g": -idx, "path": "ps", "vc": vc, "ac": ac, "vrate": 90000, "arate": 44100 if ac == "aac" else 8000,
            "asc": [2, 4, 2] if ac == "aac" else [], "sdp": [], "fmt": "annexb", "afmt": "raw", "frames": frames, "plan": [],
            "ps": ps, "s0v": 65534, "s0a": 0, "ptrk": "all", "order": [], "origin": "cut"}


def diag(ev):
    """describe (not decide) what differs, for a stable signature"""
    path = ev["path"]
    if ev["panic"]:
        return "panic:%s" % path
    if ev["bad"]:
        return "bad:%s:%s" % (path, ev["bad"][0])
    for m in ev["out"]:
        if m["t"] == "v":
            if not m["us"]:
                return "SameUnits:%s:v:empty_message" % path
            if m["key"] != any(u["k"] == "idr" for u in m["us"]):
                return "KeyMarked:%s:%s" % (path, "missing" if not m["key"] else "spurious")
    for trk, kinds in (("v", ("vsh", "v")), ("a", ("ash", "a"))):
        codec = ev["vc"] if trk == "v" else ev["ac"]
        if codec == "none":
            continue
        got = []
        for m in ev["out"]:
            if m["t"] in kinds:
                if m["t"] in ("vsh", "ash"):
                    got.append(("sh", m["ok"] and all(s.get("eq", True) for s in m.get("sets", []))))
                else:
                    got += [("u", u["id"], u["n"], m["ok"] and u["eq"], m["ts"]) for u in m["us"] if u["id"] < SENT]
        want = []
        have = set()
        rate = 1000 if path == "cust" else (90000 if path == "ps" or trk == "v" else ev["arate"])
        # packing of the audio track that the signature names (PS)
        pk = (":" + special(ev)) if trk == "a" and special(ev) else ""
        head = None
        for fi, f in enumerate(ev["frames"]):
            if f["trk"] != trk:
                continue
            off = 0
            if f.get("g", 0) > 0 and head is not None:
                # a frame that rides in the PES of a head frame: implied source time = the head's + off
                off = f["g"] * 1024 * rate // ev["arate"]
                f = dict(f, ts=head["ts"], d=head.get("d", 0))
            else:
                head = f
            for u in f["us"]:
                if u["k"] in ("vps", "sps", "pps"):
                    have.add(u["k"])
                    if have >= set(need(ev["vc"])):
                        want.append(("sh",))
                        have = set()
                elif u["k"] != "aud" and u["id"] < SENT:
                    want.append(("u", u["id"], u["n"], f["ts"], f.get("d", 0), off))
        gu = [g for g in got if g[0] == "u"]
        wu = [w for w in want if w[0] == "u"]
        if any(not g[-2] if g[0] == "u" else not g[1] for g in got):
            return "SameUnits:%s:%s:bytes_differ%s" % (path, trk, pk)
        if len(gu) < len(wu) and (path != "ps" or trk == "a"):
            return "SameUnits:%s:%s:lost%s" % (path, trk, pk)
        if len(gu) > len(wu):
            return "SameUnits:%s:%s:extra%s" % (path, trk, pk)
        if [g[1:3] for g in gu] != [w[1:3] for w in wu][len(wu) - len(gu):]:
            return "SameUnits:%s:%s:order%s" % (path, trk, pk)
        nsh_g = sum(1 for g in got if g[0] == "sh")
        nsh_w = sum(1 for w in want if w[0] == "sh") + (1 if (trk == "v" and ev["sdp"]) or (trk == "a" and codec == "aac") else 0)
        if nsh_g != nsh_w and path != "ps":
            return "SeqHeader:%s:%s:%s" % (path, trk, "missing" if nsh_g < nsh_w else "extra")
        wu = wu[len(wu) - len(gu):]
        w = WBITS[path]
        src = [unlimb(x[3]) + x[5] for x in wu]
        views = [src] + ([[unlimb(x[3]) % (1 << w) + x[5] for x in wu], [(unlimb(x[3]) - x[4]) % (1 << w) + x[5] for x in wu]] if w else [])

        def fits(vals):
            for g, v in zip(gu, vals):
                d_out = (unlimb(g[4]) - unlimb(gu[0][4])) % (1 << 32)
                d_src = v - vals[0]
                if d_src < 0:
                    d_out, d_src = (-d_out) % (1 << 32), -d_src
                if abs(d_out - d_src * 1000 // rate) > 1:
                    return False
            return True
        if gu and not any(fits(v) for v in views):
            where = "below_2^32"
            if w and src[0] >> w != src[-1] >> w:
                where = "across_the_wrap_of_the_%d_bit_field" % w
            elif src[0] >> 32 != src[-1] >> 32:
                where = "across_2^32"
            elif src[0] >> 32:
                where = "above_2^32"
            elif src[0] >> 31 != src[-1] >> 31:
                where = "across_2^31"
            return "TimeAffine:%s:%s:%s:%s%s" % (path, trk, "rate_multiple_of_1000" if rate % 1000 == 0 else "rate_not_multiple_of_1000", where, pk)
    return "Conforms:%s:other" % path


def run(ctx):
    E.build_harness(ctx)
    cfg = "MC_Ingest_q.cfg" if ctx.quick else "MC_Ingest_t.cfg"
    res = E.tlc(ctx, "MC_Ingest", cfg, timeout=2400, deadlock=False)
    E.require_design_ok(ctx, res, cfg)
    scs, orders = {}, {}
    for a in E.emitted(res, "@S@"):
        scs[json.dumps(a["par"], sort_keys=True)] = a["sc"]
    n_orders = 0
    for a in E.emitted(res, "@O@"):
        orders.setdefault(json.dumps(a["par"], sort_keys=True), []).append(a["order"])
        n_orders += 1
    ctx.log("%s: %d streams (path x codec x audio x shapes x packing x sdp x first seq x timestamp regions), %d arrival orders; "
            "the design conforms on all" % (cfg, len(scs), n_orders))
    keys = sorted(scs)
    ctx.rng.shuffle(keys)
    # the streams of the timestamp-region sweep (a track elsewhere than at 10^9 / near 0) run in every tier and seed
    keys.sort(key=lambda k: 0 if (scs[k]["reg"]["v"] not in ("g1", "lo") or scs[k]["reg"]["a"] not in ("g1", "lo", "same")) else 1)
    nreg = sum(1 for k in keys if scs[k]["reg"]["v"] not in ("g1", "lo") or scs[k]["reg"]["a"] not in ("g1", "lo", "same"))
    # so do the streams with the PS packings of AAC beyond one frame per PES (several ADTS frames in one PES, a PES
    # without PTS that begins with a new ADTS frame, ADTS frames of 8..11 bytes)
    keys.sort(key=lambda k: 0 if special(scs[k]) else 1)
    npack = sum(1 for k in keys if special(scs[k]))
    want = 3600 if ctx.quick else 48000
    scen = []
    # every enumerated stream once in order or perturbed (seeded choice), then more perturbed arrivals
    per = max(1, want // max(1, len(keys)))
    for gid, k in enumerate(keys):
        sc = scs[k]
        os_ = orders.get(k, [[]])
        ident = [o for o in os_ if o == sorted(set(o))]
        pert = [o for o in os_ if o != sorted(set(o))]
        ctx.rng.shuffle(pert)
        pick = []
        if not pert or gid % 3 == 0:
            pick.append(ident[0] if ident else os_[0])
        pick += pert[:max(1, per) if pert else 0]
        for o in pick[:max(1, per)]:
            scen.append(concretise(len(scen), gid, sc, o, ctx.rng))
        if len(scen) >= want:
            break
    ntlc = len(scen)
    # timestamps in the upper half of the 32-bit range (RTP starts at a random value)
    for s in list(scen[:200 if ctx.quick else 2000:5]):
        if s["path"] == "rtsp":
            t = shift(shift(s, "v", 0xC0000000 - 1000000000), "a", 0x9ABC0000 - 1000000000)
            t.update({"sc": len(scen), "origin": "shifted"})
            scen.append(t)
    nfr = 120 if ctx.quick else 2000
    rates = [44100, 48000, 8000, 22050] if ctx.quick else [8000, 11025, 12000, 16000, 22050, 24000, 32000, 44100, 48000, 64000, 88200, 96000]
    for r in rates:
        for vc in (["none", "avc"] if ctx.quick else ["none", "avc", "hevc"]):
            scen.append(long_run(len(scen), "rtsp", vc, "aac", r, nfr, "single", 3000000000, 1234567))
    for ac, r in (("pcma", 8000), ("opus", 48000)) + ((("pcmu", 8000),) if not ctx.quick else ()):
        scen.append(long_run(len(scen), "rtsp", "avc", ac, r, nfr, "fu", 100000, 4000000000))
    scen.append(long_run(len(scen), "rtsp", "hevc", "none", 0, nfr, "agg", 4294967295 - nfr * 3600 - 400000, 0))
    scen.append(long_run(len(scen), "rtsp", "avc", "none", 0, nfr, "single", 77, 0, vstep=3003))   # 29.97 fps
    scen.append(long_run(len(scen), "cust", "avc", "aac", 44100, nfr, "", 5, 0, vstep=33, astep=23))
    scen.append(long_run(len(scen), "cust", "hevc", "pcmu", 8000, nfr, "", 4294000000 - nfr * 40, 1000, astep=20))
    scen.append(long_run(len(scen), "ps", "avc", "aac", 44100, nfr, "", 900000, 900123, astep=2090))
    scen.append(long_run(len(scen), "ps", "hevc", "pcma", 8000, nfr, "", 2000000000, 2000000500, astep=1800))
    # PS packings of AAC: two or three ADTS frames per PES (one PTS; every second or third frame's time is the implied one:
    # an offset of 1024 samples that is not a whole number of ms must not add up), one of the PES of a group without PTS
    # (frames of equal size cut into two PES: the PES without PTS begins with a new ADTS frame), ADTS frames of 8..11 bytes
    fdur = lambda r: -(-1024 * 90000 // r)       # a frame lasts this many ticks, rounded up
    for r, g in ((44100, 2), (48000, 3), (8000, 3), (22050, 2)) + (() if ctx.quick else ((44100, 3), (11025, 2), (96000, 3), (16000, 2), (32000, 3))):
        scen.append(long_run(len(scen), "ps", "avc" if g == 2 else "hevc", "aac", r, nfr, "", 900000, 900123, astep=fdur(r), grp=g))
    scen.append(long_run(len(scen), "ps", "avc", "aac", 44100, nfr, "", 5000000, 5000321, astep=2090, da=900, dv=0, grp=2))
    # 16 frames (372 ms, ISO 13818-1 2.7.4 allows 0.7 s between two PTS) per PES: an offset that is rounded frame by frame is 3 ms late at the 16th
    scen.append(long_run(len(scen), "ps", "avc", "aac", 44100, nfr, "", 900000, 900123, astep=2090, grp=16))
    scen.append(long_run(len(scen), "ps", "avc", "aac", 44100, nfr, "", 900000, 900123, astep=2090, tiny=True))
    scen.append(long_run(len(scen), "ps", "hevc", "aac", 48000, nfr, "", 900000, 900123, astep=1920, grp=3, tiny=True))
    # the same clauses across the landmarks of the clocks: the RTP field wraps in the middle of the run (every clock rate,
    # one or both tracks, the tracks wrap at different instants), the PS clock passes 2^32 and wraps at 2^33 (PTS only,
    # PTS + DTS), customize ms pass 2^32 and stand at a Unix-epoch value
    nfx = 120 if ctx.quick else 600
    half = nfx // 2
    for r in rates:
        scen.append(long_run(len(scen), "rtsp", "avc", "aac", r, nfx, "single", (1 << 32) - half * 3600 - 1000, (1 << 32) - (nfx // 3) * 1024 - 77))
        scen.append(long_run(len(scen), "rtsp", "none", "aac", r, nfx, "single", 0, (1 << 32) - half * 1024 - 500))
    for ac, r in (("pcma", 8000), ("opus", 48000), ("pcmu", 8000)):
        scen.append(long_run(len(scen), "rtsp", "hevc", ac, r, nfx, "fu", 5000, (1 << 32) - half * (r // 50) - 3))
        # audio-only announcements, G.711 with the static payload types (0, 8) and with a dynamic one
        scen.append(long_run(len(scen), "rtsp", "none", ac, r, nfx, "single", 0, (1 << 32) - half * (r // 50) - 3))
        scen.append(long_run(len(scen), "rtsp", "none", ac, r, nfx // 2, "single", 0, 777))
    scen.append(long_run(len(scen), "rtsp", "avc", "none", 0, nfx, "fu", (1 << 32) - half * 3003 - 1, 0, vstep=3003))
    scen.append(long_run(len(scen), "rtsp", "hevc", "aac", 44100, nfx, "agg", (1 << 32) - half * 3600, 123456))
    for lm in (1 << 31, 1 << 32, 1 << 33):
        scen.append(long_run(len(scen), "ps", "avc", "aac", 44100, nfx, "", lm - half * 3600 - 450, lm - (nfx // 3) * 2090 - 7, astep=2090))
        scen.append(long_run(len(scen), "ps", "hevc", "pcma", 8000, nfx, "", lm - half * 3600 - 450, lm + 90000, astep=1800, dv=3600, da=0))
        scen.append(long_run(len(scen), "ps", "avc", "pcmu", 8000, nfx, "", lm + 900000, lm - half * 1800 - 1, astep=1800, dv=0, da=900))
        scen.append(long_run(len(scen), "ps", "hevc", "aac", 44100, nfx, "", lm - half * 3600 - 450, lm - (nfx // 3) * 2090 - 7, astep=2090,
                             grp=2 if lm != 1 << 32 else 3, dv=0 if lm == 1 << 33 else None, da=900 if lm == 1 << 33 else None))
        scen.append(long_run(len(scen), "cust", "avc", "aac", 44100, nfx, "", lm - half * 40 - 3, lm - (nfx // 3) * 23 - 1, astep=23))
    scen.append(long_run(len(scen), "ps", "avc", "aac", 48000, nfx, "", (1 << 32) + 3000000000, (1 << 32) + 5000, astep=1920))
    scen.append(long_run(len(scen), "cust", "hevc", "opus", 48000, nfx, "", 1700000000000, 1700000000007, astep=20))
    scen.append(long_run(len(scen), "cust", "none", "aac", 48000, nfx, "", 0, (1 << 40) - half * 21 - 1, astep=21))
    for vc in ("avc", "hevc"):
        for n, mode in ((65527, 0), (65528, 0), (70000, 0), (70000, 2), (140000, 0), (140000, 3)) + \
                       (() if ctx.quick else ((131054, 0), (131055, 0), (300000, 0), (300000, 5))):
            scen.append(big_frames(len(scen), vc, n, mode))
    for k in range(1, 300 if ctx.quick else 420):
        scen.append(cut_sweep(len(scen), "avc" if k % 2 else "hevc", "aac" if k % 4 < 2 else "pcma", (k + 1) // 2 if ctx.quick else k))
    # the long runs cost seconds each in validation: spread them evenly so that no shard of the validation gets them all
    heavy = [x for x in scen if len(x["frames"]) > 64]
    light = [x for x in scen if len(x["frames"]) <= 64]
    step = max(1, len(light) // (len(heavy) + 1))
    scen = []
    for k, x in enumerate(light):
        scen.append(x)
        if (k + 1) % step == 0 and heavy:
            scen.append(heavy.pop())
    scen += heavy
    sp, tp = ctx.path("scen.ndjson"), ctx.path("trace.ndjson")
    E.write_ndjson(sp, scen)
    E.run_driver(ctx, "ingest", sp, tp, timeout=1500)
    rows = E.read_ndjson(tp)
    nrun = sum(1 for r in rows if r["ev"] == "Run")
    if nrun != len(scen):
        raise E.Infra("driver produced %d runs for %d scenarios" % (nrun, len(scen)))
    ctx.cov["traces_validated_against_impl"] = nrun
    ctx.cov["evaluations"] = sum(len(r["out"]) for r in rows if r["ev"] == "Run")
    ctx.cov["distinct_nontrivial"] = len(scen)
    ctx.cov["rule"] = ("%d (stream, arrival order) cases over the %d TLC-enumerated streams, seeded choice among the arrival orders (in order / one "
                       "overtaking inside the window / one duplicate; first sequence number 0 or 65533), published through the "
                       "real customize-pub API, a real RTSP server session (ANNOUNCE/SETUP/RECORD, interleaved RTP from the "
                       "independent packetiser) or PsUnpacker (PS from the independent writer) into a logic.Group with an HTTP-FLV "
                       "subscriber; among them, in every tier and for every seed, all %d streams of the timestamp-region sweep "
                       "(source clocks of 48 bits; every pair of regions for the video and the audio track: near 0, across 2^31, "
                       "across 2^32 = wrap of the RTP field / bit 32 of the 33-bit PS clock / end of the 32-bit RTMP range for "
                       "customize ms, above 2^32, across the 2^33 wrap of the PS clock, Unix-epoch ms; PES with PTS only and with "
                       "PTS + DTS, audio frames in one or two PES) and all %d streams with the PS packings of AAC beyond one frame "
                       "per PES (two or three ADTS frames under one PES header and PTS, the group in one PES or cut into two of "
                       "which the second has no PTS, ADTS frames with 1..4 bytes behind the header; the time of a frame without "
                       "a PTS of its own is the implied one: its head's + k * 1024 samples); plus %d generated cases: timestamps shifted into the upper "
                       "half of the 32-bit range, %d-frame runs at every AAC clock rate / G.711 / Opus / 29.97 fps for the drift "
                       "clause, %d-frame runs across the wrap of the RTP field (every clock rate), across 2^31 / 2^32 / 2^33 of the "
                       "PS clock and of customize ms, PS frames of 64-300 KiB over several PES packets (PES_packet_length 0xFFFF), PS packs cut "
                       "into two RTP packets at every byte offset; %d-frame PS runs with 2 or 3 ADTS frames per PES at 44.1 / 48 / 8 / 22.05 kHz "
                       "(and across 2^31 / 2^32 / 2^33), with a PES without PTS that begins with a new ADTS frame, with ADTS frames of "
                       "8..11 bytes" % (ntlc, len(keys), nreg, npack, len(scen) - ntlc, nfr, nfx, nfr))
    ctx.sample({k: v for k, v in scen[0].items() if k != "frames"})
    ctx.sample({k: (v if k not in ("frames", "plan", "ps") else len(v)) for k, v in scen[-1].items()})
    rej = E.validate(ctx, "Trace_Ingest", "Trace_Ingest.cfg", rows, shards=max(2, min(E.NCPU, 8)), tool_opts="-Xss512m")
    by_sc = {s["sc"]: s for s in scen}
    for r in rej:
        ev = r["event"]
        sig = diag(ev)
        sc = by_sc.get(ev["sc"])
        small = {k: v for k, v in ev.items() if k not in ("frames", "out")}
        small["out_head"] = ev["out"][:8]
        if sc and len(json.dumps(sc)) > 20000:
            sc = {k: (v if k not in ("frames", "plan", "ps") else v[:12]) for k, v in sc.items()}
        E.report(ctx, sig, "rejected Run of scenario %s: %s" % (ev["sc"], json.dumps(small)[:500]), {"scenario": sc, "event": small})
    ctx.assumptions += ["independent RTP packetiser (single NAL / STAP-A / AP / FU-A / FU / AAC-hbr) and MPEG-PS writer harness/proj/ps.go, "
                        "independent FLV / AVCDecoderConfigurationRecord / HEVCDecoderConfigurationRecord readers harness/proj",
                        "the jitter buffer itself (arrival order -> sequence order) is modelled and checked in C12 (Rtp.tla); here every "
                        "arrival order is executed against the real chain and must give a conforming output",
                        "the first arrival of a track is its first packet; the wire field of a clock wraps at most once inside a run; "
                        "sources are monotonic per track (no B-frames: lal's RTSP ingest documents pts = dts; a PS DTS field runs a "
                        "constant behind the PTS of its track)",
                        "PS audio: an ADTS frame without a PTS of its own (it follows another frame in the same PES payload, or begins "
                        "a PES that has no PTS) has the source time ISO 13818-1 implies: the PTS names the first access unit that "
                        "commences in the PES, the next ones follow at 1024 samples each at the sampling rate of the ADTS header "
                        "(in 90 kHz ticks, rounded down); every group begins with a PES that has a PTS (2.7.4: a PTS at least every "
                        "0.7 s, 2.7.5: the first access unit has one).  Audio streams WITHOUT any PTS are not modelled: they are not "
                        "legal program streams and carry no source timestamp the output could be compared with",
                        "wrap rule: the source clock is modelled as it runs on (48 bits) and the wire carries it modulo 2^32 (RTP) / "
                        "2^33 (PES PTS, DTS) / not reduced (AvPacket int64 ms); per track the output must be the clock in ms up to one "
                        "constant modulo 2^32 (RTMP timestamps have 32 bits) in ONE of the views: the clock as it runs on (the wrap of "
                        "the field is invisible), or the wire field itself (the output repeats the field's own jump of -2^32 resp. "
                        "-2^33 ticks at its wrap: the discontinuity is the source's); a jump anywhere else, or of another size, fits neither",
                        "the HTTP-FLV observer is admitted at once (ShouldWaitVideoKeyFrame cleared): subscriber admission is C01/C02",
                        "RTSP: interleaved (TCP) transport only; the UDP transport feeds the same BaseInSession.handleRtpPacket",
                        "PS: PsUnpacker + AvPacket2RtmpRemuxer wired as logic.Group.StartRtpPub does, without the UDP/TCP socket loop of "
                        "gb28181.PubSession; parameter sets and the first NAL unit of a frame carry 4-byte start codes (Annex B zero_byte)",
                        "two sentinel frames per track follow the real frames so that frames held back by design (PS frame boundary = next "
                        "PTS, A/V interleave queue) are not mistaken for loss"]

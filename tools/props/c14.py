"""C14 -- access control admits exactly the authorised requests (spec/Auth.tla, driver auth)."""
import json
from concurrent.futures import ThreadPoolExecutor
import engine as E

HLS = ["a", "b", "hls"]
ROOTS = [HLS, ["a", "b", "flv"], ["a", "b", "ts"]]


def inside(p, root):
    return len(p) > len(root) and p[:len(root)] == root


def signature(ev):
    k = ev["ev"]
    if k == "Sa":
        o = ev["obs"]
        guarded = {"rtmp_pub": "pub_rtmp_enable", "rtmp_sub": "sub_rtmp_enable", "flv_sub": "sub_httpflv_enable",
                   "ts_sub": "sub_httpts_enable", "rtsp_pub": "pub_rtsp_enable", "rtsp_sub": "sub_rtsp_enable",
                   "hls_m3u8": "hls_m3u8_enable", "hls_m3u8_dir": "hls_m3u8_enable"}[ev["pd"]] in ev["flags"]
        got = "served" if (o["resp"] or o["listed"] or o["pub"]) else "refused"
        form = ev["form"] + ("/" + ev["ovr"] if ev["form"].startswith("ovr") else "")
        return "Sa:%s:%s:%s" % ("flag_on" if guarded else "flag_off", form, got)
    if k == "Ra":
        s = ev["steps"][-1]
        return "Ra:%s:%s:%s:%s" % ("on" if ev["enable"] else "off", "Basic" if ev["method"] == 0 else "Digest",
                                   s["cred"] + ("/" + s["nonce"] if s["nonce"] else ""),
                                   "sdp" if s["sdp"] else "no_sdp")
    if k == "Hp":
        o, p = ev["obs"], ev["hp"]
        canon = (p["prefix"] == "hls" and p["stream"] in ("cam1", "CAM1") and p["fname"] == "lower"
                 and p["ext"] in ("m3u8", "ts") and p["slash"] == "none")
        guarded = ev["cfg"] in ("hls", "all")
        if ev["listed"]:
            return "Hp:listed_address:%s" % ("served" if o["what"] != "none" else "other")
        if o["what"] in ("playlist", "record") and guarded:
            return "Hp:flag_on:%s:playlist_without_secret" % ("documented_path" if canon else "respelled_path")
        if o["what"] == "none":
            return "Hp:%s:documented_path_refused" % ("flag_on" if guarded else "flag_off")
        return "Hp:%s:wrong_content" % ("flag_on" if guarded else "flag_off")
    if k == "Sv":
        o = ev["obs"]
        got = "served" if (o["resp"] or o["listed"] or o["pub"]) else "refused"
        return "Sv:%s:%s:%s" % (ev["pd"], "flag_on" if ev["on"] else "flag_off", got)
    if k == "Rd":
        if ev["served"] and not inside(ev["served"], HLS):
            return "Rd:served_outside_root"
        return "Rd:%s" % ("not_served" if not ev["served"] else "served_other")
    if k == "Wr":
        if any(not any(inside(p, r) for r in ROOTS) for p in ev["created"]):
            return "Wr:%s:created_outside_roots" % ev["proto"]
        if ev["deleted"]:
            return "Wr:%s:deleted_outside_roots" % ev["proto"]
        return "Wr:%s:nothing_written" % ev["proto"]
    if k == "Kick":
        return "Kick:%s:%s%s" % (ev["pd"], ev["which"], ":peer" if ev.get("peers") else "")
    return k


def run(ctx):
    E.build_harness(ctx)
    # the case kinds are independent (every case is one initial state and TLC computes initial states on one
    # thread): three TLC runs side by side, each over its share of the kinds (MC_Auth_<tier>.cfg = all of them)
    cfg = "MC_Auth_q" if ctx.quick else "MC_Auth_t"
    parts = [cfg + "%d.cfg" % i for i in (1, 2, 3)]
    with ThreadPoolExecutor(len(parts)) as ex:
        ress = list(ex.map(lambda c: E.tlc(ctx, "MC_Auth", c, timeout=1500, deadlock=False, workers=2), parts))
    scen = []
    kinds = {}
    nesc = 0
    for c, res in zip(parts, ress):
        E.require_design_ok(ctx, res, c)
        for x in E.emitted(res, "@S@"):
            x["sc"] = len(scen) + 1
            kinds[x["kind"]] = kinds.get(x["kind"], 0) + 1
            nesc += 1 if x.get("esc") else 0
            scen.append(x)
    cfg += "{1,2,3}.cfg"
    # deterministic order, then shuffled by the seed so that independent cases do not depend on order
    scen.sort(key=lambda c: json.dumps({k: v for k, v in c.items() if k != "sc"}, sort_keys=True))
    ctx.rng.shuffle(scen)
    for i, c in enumerate(scen):
        c["sc"] = i + 1
    ctx.log("%s: %d cases enumerated by TLC %s; %d paths/names a naive join would take outside a root" %
            (cfg, len(scen), json.dumps(kinds, sort_keys=True), nesc))
    sp, tp = ctx.path("scen.ndjson"), ctx.path("trace.ndjson")
    E.write_ndjson(sp, scen)
    E.run_driver(ctx, "auth", sp, tp, timeout=1500)
    rows = E.read_ndjson(tp)
    got = [r for r in rows if r.get("ev") != "reset"]
    if len(got) != len(scen):
        raise E.Infra("driver auth recorded %d events for %d scenarios" % (len(got), len(scen)))
    # one reset per 2000 events: validation shards
    rows = []
    for i, r in enumerate(got):
        if i % 2000 == 0:
            rows.append({"ev": "reset", "sc": i})
        rows.append(r)
    ctx.cov["traces_validated_against_impl"] = len(got)
    ctx.cov["evaluations"] = len(got) + sum(len(r["steps"]) - 1 for r in got if r["ev"] == "Ra") + \
        sum(len(r["probes"]) - 1 for r in got if r["ev"] == "Bl")
    ctx.cov["distinct_nontrivial"] = len(scen)
    ctx.cov["cases"] = kinds
    ctx.cov["rule"] = ("every case enumerated by TLC executed against a real logic.ServerManager: simple-auth flag sets x "
                       "8 protocol-directions x secret forms x override secrets (real RTMP handshake+commands, HTTP-FLV/TS "
                       "through HttpServerHandler, RTSP ANNOUNCE/DESCRIBE text, HLS through a ServeMux); RTSP auth "
                       "challenge/credential sequences over two connections of one server (nonce of this connection, of the "
                       "other live one, of a closed one, invented, empty); spellings of HLS request paths (letter case and "
                       "percent-escapes of prefix, stream name, fixed file names, extension; trailing / duplicate slashes, dot "
                       "segment) x flag configuration x secret x black-listed address, observed through tagged planted files; "
                       "spellings of HTTP-FLV/TS pull paths; kick per session kind (incl. HLS sessions) with and without a "
                       "peer session; black-list probes in real time (IPv4/IPv6, two entries, five URL forms); every request "
                       "path / stream name over the token alphabet, observed through planted files and the file tree")
    for c in scen[:3]:
        ctx.sample({k: v for k, v in c.items() if v not in ("", [], False, 0) or k == "kind"})
    rej = E.validate(ctx, "Trace_Auth", "Trace_Auth.cfg", rows)
    for r in rej:
        ev = r["event"]
        sig = signature(ev)
        E.report(ctx, sig, "rejected %s: %s" % (ev["ev"], json.dumps(ev, sort_keys=True)[:420]),
                 {"event": ev, "scenario": next((c for c in scen if c["sc"] == ev.get("sc")), None)})
    ctx.assumptions += ["independent MD5 secret / RFC 2617 Basic+Digest / RTSP response reader harness/proj/auth.go",
                        "requests enter lal at the objects the listeners hand connections to (rtmp.ServerSession, "
                        "rtsp.ServerCommandSession, logic.HttpServerHandler, ServerManager.serveHls behind http.ServeMux); "
                        "no TCP listener is opened",
                        "black-list expiry probed in real time at k+0.5 s after Add; the instant k = duration is not fixed",
                        "file-system effects observed in temporary directories (roots a/b/hls, a/b/flv, a/b/ts)"]

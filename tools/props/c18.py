"""C18 -- AMF0 encode/decode (spec/Amf0.tla, driver amf)."""
import json
import engine as E


def encodable(v):
    if v["k"] in ("num", "bool", "str", "null"):
        return True
    if v["k"] == "obj" and v.get("end"):
        return all(p["v"]["k"] in ("num", "bool", "str") for p in v["ps"])
    return False


def run(ctx):
    E.build_harness(ctx)
    cfg = "MC_Amf0_q.cfg" if ctx.quick else "MC_Amf0_t.cfg"
    res = E.tlc(ctx, "MC_Amf0", cfg, timeout=2400, deadlock=False)
    E.require_design_ok(ctx, res, cfg)
    scen = []
    seen_enc = set()
    for a in E.emitted(res, "@S@"):
        v = a["v"]
        if v["k"] in ("undef", "unk"):
            continue
        scen.append({"sc": len(scen), "kind": "dec", "v": v, "cut": a["cut"]})
        key = json.dumps(v, sort_keys=True)
        if key not in seen_enc and encodable(v):
            seen_enc.add(key)
            scen.append({"sc": len(scen), "kind": "enc", "v": v})
    # markers lal does not know (reference 7, date 11, xml 15, typed object 16) with enough bytes behind them to pass for a
    # value of that type: inside a strict array and an object, complete and cut 1 / 2 bytes short
    num, boo = {"k": "num", "id": 1}, {"k": "bool", "b": True}
    for m in (7, 11, 15, 16):
        unk = {"k": "unk", "m": m}
        shapes = [{"k": "strict", "cnt": 2, "vs": [unk, num]}, {"k": "strict", "cnt": 3, "vs": [unk, num, boo]},
                  {"k": "strict", "cnt": 1, "vs": [unk, num]}, {"k": "strict", "cnt": 1, "vs": [unk, num, boo]},   # bytes behind the last counted value
                  {"k": "strict", "cnt": 3, "vs": [num, unk, num]},
                  {"k": "obj", "end": True, "ps": [{"key": {"n": 2, "id": 7, "s": ""}, "v": unk}, {"key": {"n": 3, "id": 8, "s": ""}, "v": num}]},
                  {"k": "ecma", "cnt": 2, "end": True, "ps": [{"key": {"n": 2, "id": 7, "s": ""}, "v": unk}, {"key": {"n": 3, "id": 8, "s": ""}, "v": num}]}]
        for v in shapes:
            full = {"strict": lambda v: 5 + sum(1 if x["k"] == "unk" else (9 if x["k"] == "num" else 2) for x in v["vs"]),
                    "obj": lambda v: 1 + (2 + 2 + 1) + (2 + 3 + 9) + 3, "ecma": lambda v: 5 + (2 + 2 + 1) + (2 + 3 + 9) + 3}[v["k"]](v)
            for cut in (full, full - 1, full - 2):
                scen.append({"sc": len(scen), "kind": "dec", "v": v, "cut": cut})
    # object keys at and beyond what the 16-bit key length can say
    for n in (65535, 65536, 70000):
        scen.append({"sc": len(scen), "kind": "enc", "v": {"k": "obj", "end": True, "ps": [
            {"key": {"n": n, "id": 5, "s": ""}, "v": {"k": "num", "id": 1}}]}})
        scen.append({"sc": len(scen), "kind": "enc", "v": {"k": "obj", "end": True, "ps": [
            {"key": {"n": 2, "id": 7, "s": ""}, "v": {"k": "bool", "b": True}}, {"key": {"n": n, "id": 6, "s": ""}, "v": {"k": "str", "s": {"n": 3, "id": 2, "s": ""}}}]}})
    ndec = len(scen)
    ctx.log("%s: %d (value, cut) cases enumerated by TLC, %d values lal can encode" % (cfg, ndec - len(seen_enc), len(seen_enc)))
    depths = [1, 2, 63, 64, 65, 1000, 100000] + ([] if ctx.quick else [2000000, 5500000])
    for nest in ("obj", "ecma", "strict"):
        for n in depths:
            for closed in (True, False):
                if closed and n > 100000:
                    continue
                scen.append({"sc": len(scen), "kind": "deep", "nest": nest, "n": n, "closed": closed})
    objs = [{"k": "obj", "ps": [], "end": True},
            {"k": "obj", "ps": [{"key": {"n": 2, "id": 7, "s": ""}, "v": {"k": "num", "id": 1}}], "end": True},
            {"k": "ecma", "ps": [{"key": {"n": 3, "id": 8, "s": ""}, "v": {"k": "str", "s": {"n": 65535, "id": 3, "s": ""}}}],
             "cnt": 1, "end": True}]
    # (the last scenario repeats the first: the driver then sees whether what it was handed before is still intact)
    for o in objs + objs[:2]:
        for sdf in (True, False):
            scen.append({"sc": len(scen), "kind": "sdf", "v": o, "sdf": sdf})
        scen.append({"sc": len(scen), "kind": "sdf", "v": o, "sdf": True, "sdfLong": True})
    for (w, h, a, vc) in [(-1, -1, -1, -1), (1280, 720, 10, 7), (0, 0, 0, 0), (720, -1, 10, -1), (-1, 1280, -1, 12)]:
        scen.append({"sc": len(scen), "kind": "meta", "W": w, "H": h, "A": a, "Vc": vc})
    sp, tp = ctx.path("scen.ndjson"), ctx.path("trace.ndjson")
    E.write_ndjson(sp, scen)
    E.run_driver(ctx, "amf", sp, tp, timeout=1800)
    rows = E.read_ndjson(tp)
    ctx.cov["traces_validated_against_impl"] = len(rows) - 1
    ctx.cov["evaluations"] = len(rows) - 1
    ctx.cov["distinct_nontrivial"] = len(scen)
    ctx.cov["rule"] = ("every (value tree, cut point) enumerated by TLC decoded by lal's typed readers; every lal-encodable "
                       "value written by lal and tokenised; deep nesting x3 container kinds in a child process with a "
                       "64 MiB stack limit; @setDataFrame ensure/strip; BuildMetadata/ParseMetadata")
    ctx.sample(scen[0])
    ctx.sample(scen[ndec])
    rej = E.validate(ctx, "Trace_Amf0", "Trace_Amf0.cfg", rows)
    for r in rej:
        ev = r["event"]
        if ev["ev"] == "Dec":
            v = ev["v"]
            full = ev["cut"] == ev["total"]
            sig = "Dec:%s:%s:lal_%s" % (v["k"], "full" if full else "cut", "ok" if ev["res"]["ok"] else "err")
            inner = json.dumps(v)
            if '"n": 65536' in inner or '"n":65536' in inner or '"n": 70000' in inner:
                sig += ":longstr"
        elif ev["ev"] == "Deep":
            sig = "Deep:%s:%s:%s" % (ev["nest"], "died" if ev["died"] else "nodeath",
                                     "gt_limit" if ev["n"] > 64 else "le_limit")
        else:
            sig = ev["ev"]
        E.report(ctx, sig, "rejected %s: %s" % (ev["ev"], json.dumps(ev)[:300]), {"event": ev})
    ctx.assumptions += ["independent AMF0 encoder/tokenizer harness/proj/amf.go",
                        "deep-nesting cases run in a child process with debug.SetMaxStack(64 MiB)"]

"""C06 -- RTMP ingest reaches TS, HLS and RTSP consumers with the same frames
(spec/RemuxOut.tla, MC_RemuxOut.tla, Trace_RemuxOut.tla; driver remuxout).
Also decides the RTSP clause of C02 (a subscriber of the Group that sends DESCRIBE and SETUP / PLAY at any two instants is
described with the sequence header in force, starts at a key frame, is not held back without video) with the same acceptor."""
import os, re, json
import concurrent.futures as cf
import os
import engine as E
from props.fanout_common import behaviours

# codec combination -> (video kinds for bfs, for simulation)
COMBOS = {
    "avc_aac": ("avc", "aac"), "hevc_aac": ("hevc", "aac"), "avc_opus": ("avc", "opus"), "hevc_opus": ("hevc", "opus"),
    "avc_g711a": ("avc", "g711a"), "avc_g711u": ("avc", "g711u"), "avc_none": ("avc", "none"), "hevc_none": ("hevc", "none"),
    "none_aac": ("none", "aac"), "none_opus": ("none", "opus"),
}
NAL_SIZES = [1, 2, 183, 184, 185, 1198, 1199, 1200, 1201, 65535, 65536, 307200,
             # (the first nine are the "small" ones.)  Units whose last RTP fragment is exactly full (1 + 2 * 1198, 2 + 2 * 1197,
             # 1 + 3 * 1198 and neighbours), and pictures whose PES (access unit delimiter + start code + unit + PES header
             # fields) is just below / just above what PES_packet_length can hold
             2395, 2396, 2397, 2398, 3594, 3595, 65520, 65524]
AAC_SIZES = [1, 2, 7, 177, 188, 371, 1024, 1196, 1197, 8184]
RAW_SIZES = [2, 3, 160, 320, 1200, 1201, 1275]
T0_POOL = [0, 1000, 16777215 - 40, 0x7fffffff - 90000, 47721858, 0xffffffff]   # the last one is lowered so that the stream does not wrap


def write_cfg(combo, mode, max_pub, kinds, dts, max_ver=3, gop=1, inv="AllOk EndComplete RAllOk REndComplete", probe=16,
              tjoin=True, rjoin=True, rmut="none", tag=""):
    v, a = COMBOS[combo]
    lines = ["SPECIFICATION Spec", "CONSTANTS", '  VCodec = "%s"' % v, '  ACodec = "%s"' % a, "  MaxPub = %d" % max_pub,
             "  MaxVer = %d" % max_ver, "  VKinds <- %s" % (kinds if v != "none" else "NoKinds"), "  DtPool <- %s" % dts,
             "  AscPool = {1, 2, 3}", "  ProbeMax = %d" % probe, "  GopNum = %d" % gop,
             "  TJoin = %s" % ("TRUE" if tjoin else "FALSE"), "  RJoin = %s" % ("TRUE" if rjoin else "FALSE"), '  RMut = "%s"' % rmut, "INVARIANTS " + inv]
    if mode in ("bfs", "wit"):
        lines.append("VIEW View")
    else:
        lines.append("ACTION_CONSTRAINT EmitA")
    name = "MC_RemuxOut_gen_%s_%s%s.cfg" % (combo, mode, tag)
    with open(os.path.join(E.SPEC, name), "w") as f:
        f.write("\n".join(lines) + "\n")
    return name


def kinds_of(combo, rich):
    v = COMBOS[combo][0]
    if v == "none":
        return "NoKinds"
    return ("Avc" if v == "avc" else "Hevc") + ("All" if rich else "Core")


def concretise(ctx, combo, acts, sc_id, big_budget):
    """TLC behaviour (abstract kinds, timestamp increments) -> driver scenario (sizes from the boundary pools,
    absolute 32-bit timestamps, padding so that single-track streams leave the probe / analyse stages)."""
    v, a = COMBOS[combo]
    rng = ctx.rng
    msgs = []
    steps = [{"name": "Join", "c": "t1"}]
    for x in acts:
        if x["name"] == "End":
            break
        if x["name"] == "Join":
            steps.append({"name": "Join", "c": x["c"]})
            continue
        if x["name"] in ("DescR", "PlayR"):      # the second RTSP subscriber: DESCRIBE and SETUP / PLAY where TLC put them
            steps.append({"name": x["name"]})
            continue
        if x["name"] != "Pub":
            continue
        m = x["m"]
        mm = {"k": m["k"], "ver": m["ver"], "key": m["key"], "cts": m["cts"], "n": 0, "nals": [], "name": m["name"]}
        for u in m["nals"]:
            mm["nals"].append({"t": u["t"], "v": u["v"], "n": 0})
        st = {"name": "Pub", "m": mm, "dt": x["dt"]}
        steps.append(st)
        msgs.append(st)
    nframes = sum(1 for s in msgs if s["m"]["k"] in ("v", "a"))
    # padding: plain frames of the tracks present, a key frame first so that a waiting consumer can start
    pad = 0
    # (one single-track stream in five stays short: it ends while lal is still probing it)
    if nframes < 17 and (rng.random() < 0.8 if (v == "none" or a == "none") else rng.random() < 0.3):
        pad = 18 - nframes
    have_vsh = any(s["m"]["k"] == "vsh" for s in msgs)
    have_ash = any(s["m"]["k"] == "ash" for s in msgs)
    for i in range(pad):
        if v != "none" and have_vsh and (a == "none" or (a == "aac" and not have_ash) or i % 2 == 0):
            key = (i % 6 == 0)
            mm = {"k": "v", "ver": 0, "key": key, "cts": 0, "n": 0, "name": "pad",
                  "nals": [{"t": "idr" if key else "slice", "v": 0, "n": 0}]}
        elif a != "none" and (a != "aac" or have_ash):
            mm = {"k": "a", "ver": 0, "key": False, "cts": 0, "n": 0, "nals": [], "name": "pad"}
        else:
            break
        st = {"name": "Pub", "m": mm, "dt": 23}
        steps.append(st)
        msgs.append(st)
    if not any(s["name"] == "DescR" for s in steps):
        # the behaviour has no second RTSP subscriber (or was cut before it came): DESCRIBE at a random point
        steps.insert(rng.randrange(1, len(steps) + 1), {"name": "DescR"})
    if not any(s["name"] == "PlayR" for s in steps):
        k = [i for i, s in enumerate(steps) if s["name"] == "DescR"][0]
        steps.insert(rng.randrange(k + 1, len(steps) + 1), {"name": "PlayR"})
    steps.append({"name": "End"})
    # the first RTSP subscriber of the Group joins at a random point (before the first message: DESCRIBE waits for the SDP)
    steps.insert(rng.randrange(1, len(steps)), {"name": "JoinRtsp"})
    # sizes
    for s in msgs:
        m = s["m"]
        if m["k"] == "a":
            m["n"] = rng.choice(AAC_SIZES if a == "aac" else RAW_SIZES)
        for u in m["nals"]:
            if u["t"] in ("idr", "slice", "sei"):
                n = rng.choice(NAL_SIZES)
                if n > 2000:
                    if big_budget[0] <= 0 or m["name"] == "pad":
                        n = rng.choice(NAL_SIZES[:9])
                    else:
                        big_budget[0] -= 1
                u["n"] = n
    # timestamps.  One scenario in five jumps forward so that its later frames straddle a boundary of the top bits of the PES clock
    if rng.random() < 0.2 and len(msgs) > 6:
        k = rng.randrange(3, len(msgs) - 2)
        before = sum(s["dt"] for s in msgs[:k])
        edge = rng.choice(CLOCK_EDGES)
        if edge - rng.randrange(0, 120) > before:
            msgs[k]["dt"] += edge - rng.randrange(0, 120) - before
    span = sum(s["dt"] for s in msgs)
    t0 = rng.choice(T0_POOL)
    if t0 + span > 0xffffffff:
        t0 = 0xffffffff - span
    t = t0
    for s in msgs:
        t += s["dt"]
        s["ts"] = t
    cfg = {"v": v, "a": a, "gop": rng.choice([0, 1, 2]), "hls": True, "fragMs": rng.choice([100, 3000]), "rtsp": True,
           "enh": v == "hevc" and rng.random() < 0.4}
    return {"sc": sc_id, "cfg": cfg, "combo": combo, "steps": steps}


def dedupe_short(sc):
    """Units too short to carry their id (header + at most one body byte) have the same bytes whenever type and length
    agree; each such (type, length) is used once per scenario so that what a demuxer recovers identifies the unit."""
    hdr = 2 if sc["cfg"]["v"] == "hevc" else 1
    used = set()
    for st in sc["steps"]:
        m = st.get("m")
        if not m:
            continue
        if m["k"] == "a" and m["n"] <= 1:
            if ("a", m["n"]) in used:
                m["n"] = 6
            used.add(("a", m["n"]))
        for u in m["nals"]:
            if u["t"] in ("idr", "slice", "sei"):
                eff = max(u["n"], hdr)
                while eff <= hdr + 1 and (u["t"], eff) in used:
                    eff += 1
                if eff <= hdr + 1:
                    used.add((u["t"], eff))
                if eff != max(u["n"], hdr):
                    u["n"] = eff
    return sc


def directed(ctx, sc0):
    """Every NAL size of the pool in a key and a non-key frame (1-3 NAL units), every audio size, per codec."""
    out = []
    for combo in ("avc_aac", "hevc_aac", "avc_opus", "avc_g711a"):
        v, a = COMBOS[combo]
        sizes = NAL_SIZES if not ctx.quick or combo in ("avc_aac", "hevc_aac") else NAL_SIZES[:9]
        for i, n in enumerate(sizes):
            asz = (AAC_SIZES if a == "aac" else RAW_SIZES)
            steps = [{"name": "Join", "c": "t1"},
                     {"name": "Pub", "m": {"k": "vsh", "ver": 1, "key": False, "cts": 0, "n": 0, "nals": []}, "ts": 5000}]
            if a == "aac":
                steps.append({"name": "Pub", "m": {"k": "ash", "ver": 1 + i % 7, "key": False, "cts": 0, "n": 0, "nals": []}, "ts": 5000})
            t = 5000
            steps.append({"name": "Pub", "m": {"k": "v", "ver": 0, "key": True, "cts": 0, "n": 0,
                                               "nals": [{"t": "sei", "v": 0, "n": NAL_SIZES[(i + 3) % 9]}, {"t": "idr", "v": 0, "n": n}]}, "ts": t})
            for j in range(3):
                steps.append({"name": "Pub", "m": {"k": "a", "ver": 0, "key": False, "cts": 0, "n": asz[(i + j) % len(asz)], "nals": []}, "ts": t + 21 * j})
            steps.append({"name": "Join", "c": "t2"})
            steps.insert(1 + (i * 5) % len(steps), {"name": "JoinRtsp"})
            steps.append({"name": "Pub", "m": {"k": "v", "ver": 0, "key": False, "cts": 80, "n": 0,
                                               "nals": [{"t": "slice", "v": 0, "n": n}, {"t": "slice", "v": 0, "n": NAL_SIZES[i % 9]}]}, "ts": t + 40})
            steps.append({"name": "Pub", "m": {"k": "a", "ver": 0, "key": False, "cts": 0, "n": asz[(i + 5) % len(asz)], "nals": []}, "ts": t + 300})
            steps.append({"name": "Pub", "m": {"k": "v", "ver": 0, "key": True, "cts": 0, "n": 0,
                                               "nals": [{"t": "idr", "v": 0, "n": NAL_SIZES[(i + 1) % 9]}]}, "ts": t + 320})
            steps.append({"name": "Pub", "m": {"k": "v", "ver": 0, "key": False, "cts": 0, "n": 0,
                                               "nals": [{"t": "slice", "v": 0, "n": n}]}, "ts": t + 360})
            steps.append({"name": "End"})
            out.append({"sc": sc0 + len(out), "combo": combo, "steps": steps,
                        "cfg": {"v": v, "a": a, "gop": i % 3, "hls": True, "fragMs": 100, "rtsp": True, "enh": v == "hevc" and i % 2 == 1}})
    # parameter sets sent in band on their own (a pps before a non-key picture, an sps before a key picture)
    for combo in ("avc_aac", "hevc_opus", "avc_none"):
        v, a = COMBOS[combo]
        def vm(key, nals, cts=0):
            return {"k": "v", "ver": 0, "key": key, "cts": cts, "n": 0, "nals": nals}
        steps = [{"name": "Join", "c": "t1"},
                 {"name": "Pub", "m": {"k": "vsh", "ver": 1, "key": False, "cts": 0, "n": 0, "nals": []}, "ts": 900}]
        if a == "aac":
            steps.append({"name": "Pub", "m": {"k": "ash", "ver": 2, "key": False, "cts": 0, "n": 0, "nals": []}, "ts": 900})
        seq = [vm(True, [{"t": "idr", "v": 0, "n": 300}]), vm(False, [{"t": "pps", "v": 2, "n": 0}, {"t": "slice", "v": 0, "n": 200}]),
               vm(False, [{"t": "slice", "v": 0, "n": 185}], 40), vm(True, [{"t": "idr", "v": 0, "n": 1201}]),
               vm(True, [{"t": "sps", "v": 3, "n": 0}, {"t": "idr", "v": 0, "n": 184}]), vm(False, [{"t": "slice", "v": 0, "n": 7}])]
        t = 900
        for i, m in enumerate(seq):
            steps.append({"name": "Pub", "m": m, "ts": t})
            if a != "none":
                steps.append({"name": "Pub", "m": {"k": "a", "ver": 0, "key": False, "cts": 0, "n": 100 + i, "nals": []}, "ts": t + 10})
            if i == 1:
                steps.append({"name": "Join", "c": "t2"})
                steps.append({"name": "JoinRtsp"})
            t += 40
        for i in range(14 if a == "none" else 0):
            steps.append({"name": "Pub", "m": vm(i == 5, [{"t": "idr" if i == 5 else "slice", "v": 0, "n": 50 + i}]), "ts": t})
            t += 40
        steps.append({"name": "End"})
        out.append({"sc": sc0 + len(out), "combo": combo, "steps": steps,
                    "cfg": {"v": v, "a": a, "gop": 1, "hls": True, "fragMs": 100, "rtsp": True}})
    # a sequence-header change after the probe stage, then single parameter sets in band (a pps on its own, later an
    # sps on its own), each before a key picture: the sets written before the key pictures must be the ones in force
    for combo in ("avc_aac", "hevc_aac", "avc_none"):
        v, a = COMBOS[combo]
        def vm2(key, nals, cts=0):
            return {"k": "v", "ver": 0, "key": key, "cts": cts, "n": 0, "nals": nals}
        steps = [{"name": "Join", "c": "t1"},
                 {"name": "Pub", "m": {"k": "vsh", "ver": 1, "key": False, "cts": 0, "n": 0, "nals": []}, "ts": 700}]
        if a == "aac":
            steps.append({"name": "Pub", "m": {"k": "ash", "ver": 1, "key": False, "cts": 0, "n": 0, "nals": []}, "ts": 700})
        t = 700
        for i in range(18 if a == "none" else 3):
            steps.append({"name": "Pub", "m": vm2(i % 6 == 0, [{"t": "idr" if i % 6 == 0 else "slice", "v": 0, "n": 60 + i}]), "ts": t})
            if a != "none":
                steps.append({"name": "Pub", "m": {"k": "a", "ver": 0, "key": False, "cts": 0, "n": 90 + i, "nals": []}, "ts": t + 5})
            t += 40
        steps.append({"name": "Pub", "m": {"k": "vsh", "ver": 2, "key": False, "cts": 0, "n": 0, "nals": []}, "ts": t})
        seq = [vm2(True, [{"t": "idr", "v": 0, "n": 310}]), vm2(False, [{"t": "slice", "v": 0, "n": 120}]),
               vm2(True, [{"t": "pps", "v": 3, "n": 0}, {"t": "idr", "v": 0, "n": 222}]), vm2(False, [{"t": "slice", "v": 0, "n": 77}]),
               vm2(True, [{"t": "idr", "v": 0, "n": 405}]),
               vm2(True, [{"t": "sps", "v": 3, "n": 0}, {"t": "idr", "v": 0, "n": 188}]), vm2(True, [{"t": "idr", "v": 0, "n": 99}])]
        for i, m in enumerate(seq):
            steps.append({"name": "Pub", "m": m, "ts": t})
            if a != "none":
                steps.append({"name": "Pub", "m": {"k": "a", "ver": 0, "key": False, "cts": 0, "n": 140 + i, "nals": []}, "ts": t + 10})
            if i == 3:
                steps.append({"name": "Join", "c": "t2"})
            t += 40
        steps.append({"name": "End"})
        out.append({"sc": sc0 + len(out), "combo": combo, "steps": steps,
                    "cfg": {"v": v, "a": a, "gop": 1, "hls": True, "fragMs": 100, "rtsp": True}})
    # onMetaData before (and once in the middle of) the media, with an audiosamplerate that is not the RTP clock of the
    # codec (Opus: always 48000, RFC 7587; AAC: the rate of the AudioSpecificConfig): metadata is advisory, the clock
    # rate described to RTSP players and the RTP timestamps must agree
    for combo, rate in (("avc_opus", 44100), ("none_opus", 24000), ("hevc_opus", 0), ("avc_aac", 22050), ("avc_g711a", 8000), ("none_opus", 48000), ("avc_g711u", 0), ("none_aac", 0)):
        v, a = COMBOS[combo]
        def mt(n):
            return {"k": "meta", "ver": 0, "key": False, "cts": 0, "n": n, "nals": []}
        steps = [{"name": "Join", "c": "t1"}, {"name": "Pub", "m": mt(rate), "ts": 0}]
        if v != "none":
            steps.append({"name": "Pub", "m": {"k": "vsh", "ver": 1, "key": False, "cts": 0, "n": 0, "nals": []}, "ts": 1000})
        if a == "aac":
            steps.append({"name": "Pub", "m": {"k": "ash", "ver": 1, "key": False, "cts": 0, "n": 0, "nals": []}, "ts": 1000})
        t = 1000
        for i in range(12 if v == "none" else 8):
            if v != "none":
                steps.append({"name": "Pub", "m": {"k": "v", "ver": 0, "key": i % 4 == 0, "cts": 0, "n": 0,
                                                   "nals": [{"t": "idr" if i % 4 == 0 else "slice", "v": 0, "n": 80 + i}]}, "ts": t})
            steps.append({"name": "Pub", "m": {"k": "a", "ver": 0, "key": False, "cts": 0, "n": 30 + i, "nals": []}, "ts": t + 7})
            steps.append({"name": "Pub", "m": {"k": "a", "ver": 0, "key": False, "cts": 0, "n": 41 + i, "nals": []}, "ts": t + 27})
            if i == 2:
                steps.append({"name": "JoinRtsp"})
            if i == 5:
                steps.append({"name": "Pub", "m": mt(rate), "ts": t + 27})
                steps.append({"name": "Join", "c": "t2"})
            t += 40
        steps.append({"name": "End"})
        out.append({"sc": sc0 + len(out), "combo": combo, "steps": steps,
                    "cfg": {"v": v, "a": a, "gop": 1, "hls": True, "fragMs": 100, "rtsp": True}})
    # a sequence header that changes the pps only (same sps, field sv): whoever asks for the description afterwards, and every
    # key picture on the TS side, gets the pps in force next to the unchanged sps
    for combo in ("avc_aac", "hevc_aac", "avc_none"):
        v, a = COMBOS[combo]
        def vm3(key, n):
            return {"k": "v", "ver": 0, "key": key, "cts": 0, "n": 0, "nals": [{"t": "idr" if key else "slice", "v": 0, "n": n}]}
        steps = [{"name": "Join", "c": "t1"},
                 {"name": "Pub", "m": {"k": "vsh", "ver": 1, "key": False, "cts": 0, "n": 0, "nals": []}, "ts": 300}]
        if a == "aac":
            steps.append({"name": "Pub", "m": {"k": "ash", "ver": 3, "key": False, "cts": 0, "n": 0, "nals": []}, "ts": 300})
        t = 300
        for i in range(18 if a == "none" else 4):
            steps.append({"name": "Pub", "m": vm3(i % 5 == 0, 70 + i), "ts": t})
            if a != "none":
                steps.append({"name": "Pub", "m": {"k": "a", "ver": 0, "key": False, "cts": 0, "n": 50 + i, "nals": []}, "ts": t + 9})
            if i == 1:
                steps.append({"name": "JoinRtsp"})       # described by the first header
            t += 40
        steps.append({"name": "Pub", "m": {"k": "vsh", "ver": 2, "sv": 1, "key": False, "cts": 0, "n": 0, "nals": []}, "ts": t})
        for i in range(6):
            steps.append({"name": "Pub", "m": vm3(i % 3 == 0, 130 + i), "ts": t})
            if a != "none":
                steps.append({"name": "Pub", "m": {"k": "a", "ver": 0, "key": False, "cts": 0, "n": 20 + i, "nals": []}, "ts": t + 9})
            if i == 1:
                steps.append({"name": "DescR"})          # asks after the change
                steps.append({"name": "Join", "c": "t2"})
            if i == 2:
                steps.append({"name": "PlayR"})
            t += 40
        steps.append({"name": "End"})
        out.append({"sc": sc0 + len(out), "combo": combo, "steps": steps,
                    "cfg": {"v": v, "a": a, "gop": 1, "hls": True, "fragMs": 100, "rtsp": True}})
    return out


def directed_rtsp(ctx, sc0):
    """C02 for RTSP subscribers of the Group: DESCRIBE and PLAY around a key frame, in-band parameter sets of non-key
    pictures after PLAY, a sequence-header change before DESCRIBE, joins during lal's analyse stage, audio-only streams."""
    out = []

    def hdr(k, ver):
        return {"k": k, "ver": ver, "key": False, "cts": 0, "n": 0, "nals": []}

    def vm(key, nals):
        return {"k": "v", "ver": 0, "key": key, "cts": 0, "n": 0, "nals": [dict(u) for u in nals]}

    def au(n):
        return {"k": "a", "ver": 0, "key": False, "cts": 0, "n": n, "nals": []}
    K, P = [{"t": "idr", "v": 0, "n": 300}], [{"t": "slice", "v": 0, "n": 200}]
    for ci, combo in enumerate(("avc_aac", "hevc_opus", "avc_g711u", "avc_none", "none_aac", "none_opus")):
        v, a = COMBOS[combo]
        ps = (["vps"] if v == "hevc" else []) + ["sps", "pps"]
        for shape in range(4):
            seq = []          # messages and "DescR" / "PlayR" / "JoinRtsp" markers
            if v != "none":
                seq.append(hdr("vsh", 1))
            if a == "aac":
                seq.append(hdr("ash", 1 + ci % 3))
            if v == "none":
                # audio only: DESCRIBE while lal still analyses the stream (shape 0, 1) or afterwards; never held back
                for j in range(22):
                    if j == (3, 9, 17, 19)[shape]:
                        seq.append("DescR")
                    if j == (5, 17, 18, 20)[shape]:
                        seq.append("PlayR")
                    if j == 2 + shape:
                        seq.append("JoinRtsp")
                    seq.append(au(100 + j))
            else:
                def gop(n, withaudio=True):
                    for j in range(n):
                        seq.append(vm(j == 0, K if j == 0 else P))
                        if a != "none" and withaudio:
                            seq.append(au(120 + len(seq)))
                lead = 18 if a == "none" else 3
                if shape == 0:      # a key frame passes between DESCRIBE and PLAY
                    gop(lead); seq.append("DescR"); gop(3); seq.append("PlayR"); gop(3); gop(2)
                elif shape == 1:    # after PLAY: parameter sets travelling with / between non-key pictures, then a key frame
                    gop(lead); seq.append("DescR"); seq.append("PlayR")
                    seq.append(vm(False, [{"t": "pps", "v": 1, "n": 0}] + P))
                    seq.append(vm(False, P))
                    seq.append(vm(False, [{"t": t, "v": 1, "n": 0} for t in ps]))
                    seq.append(vm(False, P))
                    if a != "none":
                        seq.append(au(99))
                    gop(3); gop(2)
                elif shape == 2:    # the sequence header changes, then DESCRIBE: the description has to carry the new one
                    gop(lead); seq.append(hdr("vsh", 2)); gop(2); seq.append("JoinRtsp"); seq.append(hdr("vsh", 3)); seq.append("DescR")
                    gop(2); seq.append("PlayR"); gop(3); gop(2)
                else:               # DESCRIBE while lal still analyses the stream (second track late or absent), PLAY at once
                    seq2 = seq; seq = []
                    gop(4, withaudio=False); seq.append("DescR"); seq.append("PlayR"); seq.append("JoinRtsp")
                    gop(4 if a != "none" else 9); gop(3); gop(2)
                    if a == "aac":   # the audio sequence header only comes now
                        seq2 = [m for m in seq2 if not (isinstance(m, dict) and m["k"] == "ash")]
                        k = [i for i, m in enumerate(seq) if isinstance(m, dict) and m["k"] == "a"][0]
                        seq.insert(k, hdr("ash", 2))
                    seq = seq2 + seq
            steps = [{"name": "Join", "c": "t1"}]
            t = 7000 + 1000 * shape
            for m in seq:
                if isinstance(m, str):
                    steps.append({"name": m})
                    continue
                if m["k"] in ("v", "a"):
                    t += 20
                steps.append({"name": "Pub", "m": m, "ts": t})
            if not any(s["name"] == "JoinRtsp" for s in steps):
                steps.insert(2, {"name": "JoinRtsp"})
            steps.append({"name": "End"})
            out.append({"sc": sc0 + len(out), "combo": combo, "steps": steps,
                        "cfg": {"v": v, "a": a, "gop": shape % 3, "hls": True, "fragMs": 100, "rtsp": True, "enh": v == "hevc" and shape % 2 == 1}})
    # a track that shows up after lal's stages have ended (16+ messages of the other track): audio first, video later
    for ci, combo in enumerate(("avc_aac", "hevc_opus")):
        v, a = COMBOS[combo]
        seq = []
        if a == "aac":
            seq.append(hdr("ash", 1))
        for j in range(19):
            seq.append(au(100 + j))
        seq.append(hdr("vsh", 1))
        for j in range(3):
            seq.append(vm(j == 0, K if j == 0 else P))
            seq.append(au(140 + j))
        seq += ["DescR", "PlayR"]
        for g in range(2):
            for j in range(3):
                seq.append(vm(j == 0, K if j == 0 else P))
                seq.append(au(150 + 3 * g + j))
        steps = [{"name": "Join", "c": "t1"}] if os.environ.get("VERIF_LATE_TS") else []
        t = 20000
        for m in seq:
            if isinstance(m, str):
                steps.append({"name": m})
                continue
            if m["k"] in ("v", "a"):
                t += 20
            steps.append({"name": "Pub", "m": m, "ts": t})
        steps.insert(3, {"name": "JoinRtsp"})
        steps.append({"name": "End"})
        out.append({"sc": sc0 + len(out), "combo": combo, "steps": steps,
                    "cfg": {"v": v, "a": a, "gop": 1, "hls": bool(os.environ.get("VERIF_LATE_TS")), "fragMs": 100, "rtsp": True, "enh": False}})
    return out


def directed_short(ctx, sc0):
    """Streams that end while lal is still probing them (fewer than 16 messages, one track seen): what was published has to
    come out when the input leaves."""
    out = []
    shapes = [("none_aac", "a", 10), ("none_opus", "a", 7), ("avc_none", "v", 12), ("hevc_none", "v", 9),
              ("avc_aac", "v", 9), ("avc_aac", "a", 11), ("hevc_opus", "v", 14)]     # A/V whose second track never shows up
    for i, (combo, only, n) in enumerate(shapes):
        v, a = COMBOS[combo]
        steps = [{"name": "Join", "c": "t1"}]
        t = 3000 + 500 * i
        if only == "v":
            steps.append({"name": "Pub", "m": {"k": "vsh", "ver": 1, "key": False, "cts": 0, "n": 0, "nals": []}, "ts": t})
        elif a == "aac":
            steps.append({"name": "Pub", "m": {"k": "ash", "ver": 1 + i % 3, "key": False, "cts": 0, "n": 0, "nals": []}, "ts": t})
        for j in range(n):
            t += 40
            if only == "v":
                key = j % 5 == (1 if i % 2 else 0)
                m = {"k": "v", "ver": 0, "key": key, "cts": 0, "n": 0, "nals": [{"t": "idr" if key else "slice", "v": 0, "n": 150 + j}]}
            else:
                m = {"k": "a", "ver": 0, "key": False, "cts": 0, "n": 90 + j, "nals": []}
            steps.append({"name": "Pub", "m": m, "ts": t})
            if j == 3:
                steps.append({"name": "Join", "c": "t2"})
            if j == 1 + i % 4:
                steps.append({"name": "JoinRtsp"})
        steps.append({"name": "End"})
        out.append({"sc": sc0 + len(out), "combo": combo, "steps": steps,
                    "cfg": {"v": v, "a": a, "gop": i % 3, "hls": True, "fragMs": 100, "rtsp": True, "enh": False}})
    return out


# PES clock: pts = 90 * (ts - first ts of the track) + 63000 ticks; the three top bits of the 33-bit value change at 2^30, 2^31,
# 2^32 (and the value wraps at 2^33): stream times in ms at which that happens
CLOCK_EDGES = [((1 << b) - 63000) // 90 for b in (30, 31, 32, 33)]


def directed_clock(ctx, sc0):
    """Frames of both tracks, with and without composition offsets, on both sides of every boundary of the top bits of the
    33-bit PES clock, in one stream: an error that depends on those bits cannot hide in the per-consumer constant of TsTime."""
    out = []
    for ci, combo in enumerate(("avc_aac", "hevc_opus", "avc_none", "none_aac")):
        v, a = COMBOS[combo]
        for nedge in ((3, 4) if ci < 2 else (3,)):
            t0 = (5000, 123456, 4000, 77)[ci]
            steps = [{"name": "Join", "c": "t1"}]
            if v != "none":
                steps.append({"name": "Pub", "m": {"k": "vsh", "ver": 1, "key": False, "cts": 0, "n": 0, "nals": []}, "ts": t0})
            if a == "aac":
                steps.append({"name": "Pub", "m": {"k": "ash", "ver": 1, "key": False, "cts": 0, "n": 0, "nals": []}, "ts": t0})

            def burst(rel, n, first):
                for j in range(n):
                    t = t0 + rel + 40 * j
                    if v != "none":
                        key = j % 4 == 0
                        steps.append({"name": "Pub", "ts": t, "m": {"k": "v", "ver": 0, "key": key, "cts": 0 if key else (80, 0, 40)[j % 3], "n": 0,
                                                                   "nals": [{"t": "idr" if key else "slice", "v": 0, "n": 120 + j}]}})
                    if a != "none":
                        steps.append({"name": "Pub", "ts": t + 11, "m": {"k": "a", "ver": 0, "key": False, "cts": 0, "n": 64 + j, "nals": []}})
                        steps.append({"name": "Pub", "ts": t + 32, "m": {"k": "a", "ver": 0, "key": False, "cts": 0, "n": 80 + j, "nals": []}})
            burst(0, 9 if (v == "none" or a == "none") else 4, True)
            steps.append({"name": "Join", "c": "t2"})
            steps.append({"name": "JoinRtsp"})
            for e in CLOCK_EDGES[:nedge]:
                burst(e - 170, 9, False)      # 170 ms before to 190 ms after the edge: dts, pts (cts 40 / 80) and audio cross at different frames
            steps.append({"name": "End"})
            out.append({"sc": sc0 + len(out), "combo": combo, "steps": steps,
                        "cfg": {"v": v, "a": a, "gop": ci % 3, "hls": True, "fragMs": 100, "rtsp": True, "enh": False}})
    return out


def why_lines(ctx):
    """@WHY@<line>@<set of failing parts> printed by the trace spec next to every @REJ@."""
    out = {}
    for d in os.listdir(ctx.work):
        p = os.path.join(ctx.work, d, "out.txt")
        if d.startswith("tlc-val-") and os.path.exists(p):
            m2 = re.search(r"-s(\d+)$", d)
            with open(p, errors="replace") as f:
                for line in f:
                    m = re.search(r'@WHY@(\d+)@(.*?)"?$', line.strip())
                    if m:
                        out[(int(m2.group(1)) if m2 else 0, int(m.group(1)))] = m.group(2).replace('\\"', '').replace('"', '')
    return out


def run(ctx, c02=False, c09=False):
    """c09=True: only simulated and directed scenarios (the continuity counters that Rtmp2MpegtsRemuxer carries from one
    frame to the next on each PID, at HTTP-TS consumers and in HLS segments), no design-level runs.
    c02=True: the part that decides C02's clauses for HTTP-TS and RTSP consumers (late joiners: PAT/PMT or the session
    description first, the first video frame a key frame, no consumer of a stream without video held back) - the design
    runs with late consumers, two mutants, fewer simulated behaviours and the directed join scenarios."""
    E.build_harness(ctx)
    # design level: (combo, MaxPub, kinds, dts, late consumers, ProbeMax).  "t": a second HTTP-TS consumer joins anywhere;
    # "r": an RTSP subscriber of the Group sends DESCRIBE and PLAY at any two instants (C02 for RTSP).  Single-track streams
    # only leave lal's probe / analyse stage after ProbeMax messages: the model parameter is lowered for them.
    if ctx.quick:
        bfs = [("avc_aac", 5, "AvcCore", "Dt2", "t", 16), ("hevc_opus", 5, "HevcCore", "Dt2", "t", 16),
               ("avc_aac", 5, "AvcCore", "Dt2", "r", 16), ("avc_aac", 4, "AvcAll", "Dt1", "r", 16), ("none_aac", 7, "NoKinds", "Dt2", "r", 3)]
        nsim, depth, maxpub = 26, 16, 9
    else:
        bfs = [("avc_aac", 6, "AvcCore", "Dt2", "t", 16), ("hevc_aac", 6, "HevcCore", "Dt2", "t", 16), ("avc_opus", 5, "AvcAll", "Dt2", "t", 16),
               ("hevc_opus", 5, "HevcAll", "Dt2", "t", 16), ("none_aac", 8, "NoKinds", "Dt5", "t", 16), ("avc_none", 5, "AvcAll", "Dt2", "t", 16),
               ("avc_aac", 6, "AvcCore", "Dt2", "r", 16), ("avc_aac", 5, "AvcAll", "Dt1", "r", 16), ("hevc_opus", 5, "HevcAll", "Dt1", "r", 16),
               ("avc_g711a", 5, "AvcCore", "Dt2", "r", 16), ("none_aac", 8, "NoKinds", "Dt2", "r", 3), ("none_opus", 7, "NoKinds", "Dt2", "r", 3),
               ("avc_none", 6, "AvcCore", "Dt1", "r", 3)]
        nsim, depth, maxpub = 1900, 18, 10
    # model-level mutants of the RTSP reference that the design check must catch (TLC has to report a violated invariant)
    muts = [("stage", "avc_aac", 5, "AvcCore", "Dt2", 16), ("stale", "avc_aac", 5, "AvcCore", "Dt2", 16),
            ("nodrain", "none_aac", 4, "NoKinds", "Dt2", 16)]
    if not ctx.quick:
        muts += [("anyps", "avc_aac", 4, "AvcAll", "Dt1", 16), ("hold", "none_aac", 7, "NoKinds", "Dt2", 3)]
    if c09:
        bfs, muts = [], []
        nsim = max(5, nsim // 5)
    if c02:
        bfs = [b for b in bfs if b[0] in ("avc_aac", "none_aac")][:4]
        muts = [m for m in muts if m[0] in ("stage", "stale", "hold")]
        nsim = max(6, nsim // 4)

    def do_bfs(x):
        combo, mp, kinds, dts, late, probe = x
        cfg = write_cfg(combo, "bfs", mp, kinds, dts, max_ver=2, probe=probe, tjoin="t" in late, rjoin="r" in late,
                        tag="" if late == "t" else "_%s%d%s" % (late, mp, kinds[-4:].lower()))
        return x, E.tlc(ctx, "MC_RemuxOut", cfg, timeout=3000, deadlock=False, workers=max(2, E.NCPU // 3))

    def do_mut(x):
        mut, combo, mp, kinds, dts, probe = x
        cfg = write_cfg(combo, "mut", mp, kinds, dts, max_ver=2, probe=probe, tjoin=False, rjoin=True, rmut=mut, tag="_" + mut)
        return x, E.tlc(ctx, "MC_RemuxOut", cfg, timeout=900, deadlock=False, workers=2)

    def do_sim(combo):
        cfg = write_cfg(combo, "sim", maxpub, kinds_of(combo, True), "Dt5", max_ver=3, gop=(len(combo) % 2))
        return combo, E.tlc(ctx, "MC_RemuxOut", cfg, name="sim-" + combo, workers=1, timeout=900, deadlock=False,
                            simulate="num=%d" % nsim, depth=depth)

    def do_wit(x):
        inv, late = x
        cfg = write_cfg("avc_aac", "wit", 5, "AvcMin", "Dt2", max_ver=2, inv=inv, tjoin=late == "t", rjoin=late == "r",
                        tag="" if late == "t" else "_r")
        return x, E.tlc(ctx, "MC_RemuxOut", cfg, timeout=600, deadlock=False, workers=2)

    # non-vacuity of the design check: a behaviour in which both HTTP-TS consumers are handed video and audio and
    # the late joiner starts mid-stream must exist (TLC has to report the negated witness as violated); the same for an
    # RTSP subscriber that waited for a key frame and was then handed video and audio
    jobs = [(do_bfs, x) for x in bfs] + [(do_mut, x) for x in muts] + ([] if c09 else [(do_wit, ("WitnessV", "t")), (do_wit, ("WitnessR", "r"))])
    # the simulations that emit the scenarios run next to the design-level checks
    sim_ex = cf.ThreadPoolExecutor(max_workers=max(2, E.NCPU // 2))
    sim_futs = [sim_ex.submit(do_sim, combo) for combo in sorted(COMBOS)]
    with cf.ThreadPoolExecutor(max_workers=3) as ex:
        for (fn, x), (_, res) in zip(jobs, ex.map(lambda j: j[0](j[1]), jobs)):
            if fn is do_bfs:
                combo, mp, kinds, dts, late, probe = x
                E.require_design_ok(ctx, res, "MC_RemuxOut %s" % combo)
                ctx.log("design %s maxpub=%d late=%s: %d distinct states, reference model satisfies the acceptor (AllOk, EndComplete, "
                        "RAllOk, REndComplete)" % (combo, mp, late, res["distinct"]))
            elif fn is do_mut:
                if res.get("inv") not in ("RAllOk", "REndComplete", "EndComplete"):
                    raise E.Infra("design check is insensitive: the reference with mutant '%s' passes" % x[0])
            elif res.get("inv") != x[0]:
                raise E.Infra("design check is vacuous: no behaviour reaches the witness state %s" % x[0])
    ctx.log("design: %d mutants of the reference (%s) violate RAllOk / REndComplete / EndComplete; witnesses exist" %
            (len(muts), ", ".join(m[0] for m in muts)))
    scen = []
    big_budget = [12 if ctx.quick else 400]
    sims = [f.result() for f in sim_futs]
    sim_ex.shutdown()
    for combo, res in sims:
        if res["errors"]:
            raise E.Infra("simulation found a model error in %s: %s" % (combo, res["errors"][:2]))
        bs = behaviours(res)
        seen = set()
        for b in bs:
            key = json.dumps(b, sort_keys=True)
            if key in seen or not any(x["name"] == "Pub" for x in b):
                continue
            seen.add(key)
            scen.append(concretise(ctx, combo, b, len(scen), big_budget))
        ctx.log("simulate %s: %d behaviours, %d distinct" % (combo, len(bs), len(seen)))
    scen += directed(ctx, len(scen))
    if not c09:
        scen += directed_rtsp(ctx, len(scen))
    if not c02 and not c09:
        scen += directed_short(ctx, len(scen))
        scen += directed_clock(ctx, len(scen))
    scen = [dedupe_short(s) for s in scen]
    sp, tp = ctx.path("scen.ndjson"), ctx.path("trace.ndjson")
    E.write_ndjson(sp, scen)
    E.run_driver(ctx, "remuxout", sp, tp, timeout=2400)
    rows = E.read_ndjson(tp)
    nframes = sum(len(o["frames"]) for r in rows if r.get("ev") in ("Pub", "End") for o in r["out"].values())
    nhls = sum(len(r["hls"]["frames"]) for r in rows if r.get("ev") == "End")
    nrtp = sum(len(o["frames"]) for r in rows if r.get("ev") == "Pub" and "rtp" in r for o in r["rtp"].values())
    nrg = sum(len(r["rtp"]["rg"]["frames"]) for r in rows if r.get("ev") == "Pub" and "rtp" in r)
    ctx.log("driver: %d scenarios, %d events; %d TS frames at HTTP-TS consumers, %d in HLS segments, %d RTP frames" %
            (len(scen), len(rows), nframes, nhls, nrtp))
    ctx.log("        of which %d RTP frames through Group.feedRtpPacket -> rtsp.SubSession (interleaved)" % nrg)
    ctx.cov["traces_validated_against_impl"] = len(scen)
    ctx.cov["evaluations"] = nframes + nhls + nrtp
    ctx.cov["distinct_nontrivial"] = len(scen)
    ctx.cov["rule"] = ("scenario = TLC-simulated behaviour of MC_RemuxOut (message kinds x timestamp increments x join point of a "
                       "second HTTP-TS consumer, per codec combination; de-duplicated) with NAL / audio sizes drawn from the "
                       "boundary pools and a 32-bit start timestamp, DESCRIBE / PLAY of a second RTSP subscriber where TLC put "
                       "them, plus directed scenarios (NAL sizes, RTSP join shapes, streams shorter than lal's probe stage); "
                       "evaluations = PES frames / RTP frames decided by the acceptor")
    ctx.sample({k: scen[0][k] for k in ("sc", "cfg", "combo")})
    ctx.sample(scen[0]["steps"][:6])
    rej = E.validate(ctx, "Trace_RemuxOut", "Trace_RemuxOut.cfg", rows, shards=min(E.NCPU, 1 + len(rows) // 1500))
    whys = why_lines(ctx)
    starts = [i for i, r in enumerate(rows) if r.get("ev") == "reset"]
    for r in rej:
        ev = r["event"]
        sc = scen[r["sc"]] if r["sc"] is not None and r["sc"] < len(scen) else None
        tr = r["trace"]
        parts = None
        # (shard, line in shard) of the rejected event, to find the @WHY@ text printed next to its @REJ@
        if sc is not None:
            g0 = starts[r["sc"]]
            nsh = min(E.NCPU, 1 + len(rows) // 1500)
            per = (len(starts) + nsh - 1) // nsh
            sh = r["sc"] // per
            lo = starts[sh * per]
            parts = whys.get((sh, g0 - lo + r["line"] + 1))
        if c09:
            # C09 decides the TS layer only: a rejection counts if a PES frame of the event is malformed at that layer
            # (continuity, lengths, headers, stray bytes); anything else is C06's to report
            outs = list(ev.get("out", {}).values()) + ([ev["hls"]] if "hls" in ev else [])
            if not any(o.get("bad") or any(not (f["ccOk"] and f["lenOk"] and f["hdrOk"]) or f.get("junk") for f in o.get("frames", []))
                       for o in outs):
                continue
        kind = ev.get("m", {}).get("k", "") if ev.get("ev") == "Pub" else ""
        cls = sorted(set(re.sub(r"\bt[12]\b", "ts", x.strip()) for x in (parts or "?").strip("{}").split(",")))
        sig = "%s:%s:%s" % (ev.get("ev"), kind, "+".join(cls))
        E.report(ctx, sig, "trace rejected at %s (scenario %s line %d, failing parts %s): %s" %
                 (ev.get("ev"), r["sc"], r["line"], parts, json.dumps(ev)[:600]),
                 {"scenario": sc, "trace": tr[:r["line"] + 1]})
    if not rej and (nframes == 0 or nhls == 0 or nrtp == 0 or nrg == 0):
        raise E.Infra("vacuous run: a consumer class received nothing and nothing was rejected")
    ctx.assumptions += [
        "independent TS/PES/PSI, Annex-B, ADTS, RTP (RFC 6184/7798/3640) and SDP readers in harness/proj are the 'standards-conforming demuxer'",
        "HTTP-TS consumers are real httpts.SubSession objects on in-memory connections (synchronous writes); HLS segments are read "
        "back from disk in playlist order; the RTSP side is remux.Rtmp2RtspRemuxer fed with the same messages (ra) and two real "
        "rtsp.ServerCommandSession / SubSession objects of the Group over interleaved TCP on in-memory connections (rg: DESCRIBE, "
        "SETUP, PLAY in one go; rh: DESCRIBE and SETUP / PLAY at two instants); UDP transport is not exercised",
        "C02 for RTSP: the description must carry the VIDEO sequence header in force when DESCRIBE is answered; an AAC "
        "sequence-header change after lal's analyse stage is not demanded in the description (the running RTP clock cannot follow "
        "another sampling rate); tracks that first appear after the analyse stage are outside the enumerated streams",
        "publisher is well-formed: sequence headers precede the frames of their track, timestamps do not decrease, complete "
        "parameter-set groups in band, composition offsets >= 0, AAC object types 1-4, audio frames of 2+ bytes for Opus / G.711",
    ]

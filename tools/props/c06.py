"""C06 -- RTMP ingest reaches TS, HLS and RTSP consumers with the same frames
(spec/RemuxOut.tla, MC_RemuxOut.tla, Trace_RemuxOut.tla; driver remuxout)."""
import os, re, json
import concurrent.futures as cf
import engine as E
from props.fanout_common import behaviours

# codec combination -> (video kinds for bfs, for simulation)
COMBOS = {
    "avc_aac": ("avc", "aac"), "hevc_aac": ("hevc", "aac"), "avc_opus": ("avc", "opus"), "hevc_opus": ("hevc", "opus"),
    "avc_g711a": ("avc", "g711a"), "avc_g711u": ("avc", "g711u"), "avc_none": ("avc", "none"), "hevc_none": ("hevc", "none"),
    "none_aac": ("none", "aac"), "none_opus": ("none", "opus"),
}
NAL_SIZES = [1, 2, 183, 184, 185, 1198, 1199, 1200, 1201, 65535, 65536, 307200]
AAC_SIZES = [1, 2, 7, 177, 188, 371, 1024, 1196, 1197, 8184]
RAW_SIZES = [2, 3, 160, 320, 1200, 1201, 1275]
T0_POOL = [0, 1000, 16777215 - 40, 0x7fffffff - 90000, 47721858, 0xffffffff]   # the last one is lowered so that the stream does not wrap


def write_cfg(combo, mode, max_pub, kinds, dts, max_ver=3, gop=1, inv="AllOk EndComplete"):
    v, a = COMBOS[combo]
    lines = ["SPECIFICATION Spec", "CONSTANTS", '  VCodec = "%s"' % v, '  ACodec = "%s"' % a, "  MaxPub = %d" % max_pub,
             "  MaxVer = %d" % max_ver, "  VKinds <- %s" % (kinds if v != "none" else "NoKinds"), "  DtPool <- %s" % dts,
             "  AscPool = {1, 2, 3}", "  ProbeMax = 16", "  GopNum = %d" % gop, "INVARIANTS " + inv]
    if mode in ("bfs", "wit"):
        lines.append("VIEW View")
    else:
        lines.append("ACTION_CONSTRAINT EmitA")
    name = "MC_RemuxOut_gen_%s_%s.cfg" % (combo, mode)
    with open(os.path.join(E.SPEC, name), "w") as f:
        f.write("\n".join(lines) + "\n")
    return name


def kinds_of(combo, rich):
    v = COMBOS[combo][0]
    if v == "none":
        return "NoKinds"
    return ("Avc" if v == "avc" else "Hevc") + ("All" if rich else "Core")


def concretise(ctx, combo, acts, sc_id, big_budget):
    """TLC behaviour (abstract kinds, timestamp increments) -> driver scenario (sizes from the boundary pools,
    absolute 32-bit timestamps, padding so that single-track streams leave the probe / analyse stages)."""
    v, a = COMBOS[combo]
    rng = ctx.rng
    msgs = []
    steps = [{"name": "Join", "c": "t1"}]
    for x in acts:
        if x["name"] == "End":
            break
        if x["name"] == "Join":
            steps.append({"name": "Join", "c": x["c"]})
            continue
        if x["name"] != "Pub":
            continue
        m = x["m"]
        mm = {"k": m["k"], "ver": m["ver"], "key": m["key"], "cts": m["cts"], "n": 0, "nals": [], "name": m["name"]}
        for u in m["nals"]:
            mm["nals"].append({"t": u["t"], "v": u["v"], "n": 0})
        st = {"name": "Pub", "m": mm, "dt": x["dt"]}
        steps.append(st)
        msgs.append(st)
    nframes = sum(1 for s in msgs if s["m"]["k"] in ("v", "a"))
    # padding: plain frames of the tracks present, a key frame first so that a waiting consumer can start
    pad = 0
    if nframes < 17 and (v == "none" or a == "none" or rng.random() < 0.3):
        pad = 18 - nframes
    have_vsh = any(s["m"]["k"] == "vsh" for s in msgs)
    have_ash = any(s["m"]["k"] == "ash" for s in msgs)
    for i in range(pad):
        if v != "none" and have_vsh and (a == "none" or (a == "aac" and not have_ash) or i % 2 == 0):
            key = (i % 6 == 0)
            mm = {"k": "v", "ver": 0, "key": key, "cts": 0, "n": 0, "name": "pad",
                  "nals": [{"t": "idr" if key else "slice", "v": 0, "n": 0}]}
        elif a != "none" and (a != "aac" or have_ash):
            mm = {"k": "a", "ver": 0, "key": False, "cts": 0, "n": 0, "nals": [], "name": "pad"}
        else:
            break
        st = {"name": "Pub", "m": mm, "dt": 23}
        steps.append(st)
        msgs.append(st)
    steps.append({"name": "End"})
    # the RTSP subscriber of the Group joins at a random point (before the first message: DESCRIBE waits for the SDP)
    steps.insert(rng.randrange(1, len(steps)), {"name": "JoinRtsp"})
    # sizes
    for s in msgs:
        m = s["m"]
        if m["k"] == "a":
            m["n"] = rng.choice(AAC_SIZES if a == "aac" else RAW_SIZES)
        for u in m["nals"]:
            if u["t"] in ("idr", "slice", "sei"):
                n = rng.choice(NAL_SIZES)
                if n > 2000:
                    if big_budget[0] <= 0 or m["name"] == "pad":
                        n = rng.choice(NAL_SIZES[:9])
                    else:
                        big_budget[0] -= 1
                u["n"] = n
    # timestamps
    span = sum(s["dt"] for s in msgs)
    t0 = rng.choice(T0_POOL)
    if t0 + span > 0xffffffff:
        t0 = 0xffffffff - span
    t = t0
    for s in msgs:
        t += s["dt"]
        s["ts"] = t
    cfg = {"v": v, "a": a, "gop": rng.choice([0, 1, 2]), "hls": True, "fragMs": rng.choice([100, 3000]), "rtsp": True,
           "enh": v == "hevc" and rng.random() < 0.4}
    return {"sc": sc_id, "cfg": cfg, "combo": combo, "steps": steps}


def dedupe_short(sc):
    """Units too short to carry their id (header + at most one body byte) have the same bytes whenever type and length
    agree; each such (type, length) is used once per scenario so that what a demuxer recovers identifies the unit."""
    hdr = 2 if sc["cfg"]["v"] == "hevc" else 1
    used = set()
    for st in sc["steps"]:
        m = st.get("m")
        if not m:
            continue
        if m["k"] == "a" and m["n"] <= 1:
            if ("a", m["n"]) in used:
                m["n"] = 6
            used.add(("a", m["n"]))
        for u in m["nals"]:
            if u["t"] in ("idr", "slice", "sei"):
                eff = max(u["n"], hdr)
                while eff <= hdr + 1 and (u["t"], eff) in used:
                    eff += 1
                if eff <= hdr + 1:
                    used.add((u["t"], eff))
                if eff != max(u["n"], hdr):
                    u["n"] = eff
    return sc


def directed(ctx, sc0):
    """Every NAL size of the pool in a key and a non-key frame (1-3 NAL units), every audio size, per codec."""
    out = []
    for combo in ("avc_aac", "hevc_aac", "avc_opus", "avc_g711a"):
        v, a = COMBOS[combo]
        sizes = NAL_SIZES if not ctx.quick or combo in ("avc_aac", "hevc_aac") else NAL_SIZES[:9]
        for i, n in enumerate(sizes):
            asz = (AAC_SIZES if a == "aac" else RAW_SIZES)
            steps = [{"name": "Join", "c": "t1"},
                     {"name": "Pub", "m": {"k": "vsh", "ver": 1, "key": False, "cts": 0, "n": 0, "nals": []}, "ts": 5000}]
            if a == "aac":
                steps.append({"name": "Pub", "m": {"k": "ash", "ver": 1 + i % 3, "key": False, "cts": 0, "n": 0, "nals": []}, "ts": 5000})
            t = 5000
            steps.append({"name": "Pub", "m": {"k": "v", "ver": 0, "key": True, "cts": 0, "n": 0,
                                               "nals": [{"t": "sei", "v": 0, "n": NAL_SIZES[(i + 3) % 9]}, {"t": "idr", "v": 0, "n": n}]}, "ts": t})
            for j in range(3):
                steps.append({"name": "Pub", "m": {"k": "a", "ver": 0, "key": False, "cts": 0, "n": asz[(i + j) % len(asz)], "nals": []}, "ts": t + 21 * j})
            steps.append({"name": "Join", "c": "t2"})
            steps.insert(1 + (i * 5) % len(steps), {"name": "JoinRtsp"})
            steps.append({"name": "Pub", "m": {"k": "v", "ver": 0, "key": False, "cts": 80, "n": 0,
                                               "nals": [{"t": "slice", "v": 0, "n": n}, {"t": "slice", "v": 0, "n": NAL_SIZES[i % 9]}]}, "ts": t + 40})
            steps.append({"name": "Pub", "m": {"k": "a", "ver": 0, "key": False, "cts": 0, "n": asz[(i + 5) % len(asz)], "nals": []}, "ts": t + 300})
            steps.append({"name": "Pub", "m": {"k": "v", "ver": 0, "key": True, "cts": 0, "n": 0,
                                               "nals": [{"t": "idr", "v": 0, "n": NAL_SIZES[(i + 1) % 9]}]}, "ts": t + 320})
            steps.append({"name": "Pub", "m": {"k": "v", "ver": 0, "key": False, "cts": 0, "n": 0,
                                               "nals": [{"t": "slice", "v": 0, "n": n}]}, "ts": t + 360})
            steps.append({"name": "End"})
            out.append({"sc": sc0 + len(out), "combo": combo, "steps": steps,
                        "cfg": {"v": v, "a": a, "gop": i % 3, "hls": True, "fragMs": 100, "rtsp": True, "enh": v == "hevc" and i % 2 == 1}})
    # parameter sets sent in band on their own (a pps before a non-key picture, an sps before a key picture)
    for combo in ("avc_aac", "hevc_opus", "avc_none"):
        v, a = COMBOS[combo]
        def vm(key, nals, cts=0):
            return {"k": "v", "ver": 0, "key": key, "cts": cts, "n": 0, "nals": nals}
        steps = [{"name": "Join", "c": "t1"},
                 {"name": "Pub", "m": {"k": "vsh", "ver": 1, "key": False, "cts": 0, "n": 0, "nals": []}, "ts": 900}]
        if a == "aac":
            steps.append({"name": "Pub", "m": {"k": "ash", "ver": 2, "key": False, "cts": 0, "n": 0, "nals": []}, "ts": 900})
        seq = [vm(True, [{"t": "idr", "v": 0, "n": 300}]), vm(False, [{"t": "pps", "v": 2, "n": 0}, {"t": "slice", "v": 0, "n": 200}]),
               vm(False, [{"t": "slice", "v": 0, "n": 185}], 40), vm(True, [{"t": "idr", "v": 0, "n": 1201}]),
               vm(True, [{"t": "sps", "v": 3, "n": 0}, {"t": "idr", "v": 0, "n": 184}]), vm(False, [{"t": "slice", "v": 0, "n": 7}])]
        t = 900
        for i, m in enumerate(seq):
            steps.append({"name": "Pub", "m": m, "ts": t})
            if a != "none":
                steps.append({"name": "Pub", "m": {"k": "a", "ver": 0, "key": False, "cts": 0, "n": 100 + i, "nals": []}, "ts": t + 10})
            if i == 1:
                steps.append({"name": "Join", "c": "t2"})
                steps.append({"name": "JoinRtsp"})
            t += 40
        for i in range(14 if a == "none" else 0):
            steps.append({"name": "Pub", "m": vm(i == 5, [{"t": "idr" if i == 5 else "slice", "v": 0, "n": 50 + i}]), "ts": t})
            t += 40
        steps.append({"name": "End"})
        out.append({"sc": sc0 + len(out), "combo": combo, "steps": steps,
                    "cfg": {"v": v, "a": a, "gop": 1, "hls": True, "fragMs": 100, "rtsp": True}})
    return out


def why_lines(ctx):
    """@WHY@<line>@<set of failing parts> printed by the trace spec next to every @REJ@."""
    out = {}
    for d in os.listdir(ctx.work):
        p = os.path.join(ctx.work, d, "out.txt")
        if d.startswith("tlc-val-") and os.path.exists(p):
            m2 = re.search(r"-s(\d+)$", d)
            with open(p, errors="replace") as f:
                for line in f:
                    m = re.search(r'@WHY@(\d+)@(.*?)"?$', line.strip())
                    if m:
                        out[(int(m2.group(1)) if m2 else 0, int(m.group(1)))] = m.group(2).replace('\\"', '').replace('"', '')
    return out


def run(ctx):
    E.build_harness(ctx)
    if ctx.quick:
        bfs = [("avc_aac", 5, "AvcCore", "Dt2"), ("hevc_opus", 5, "HevcCore", "Dt2")]
        nsim, depth, maxpub = 26, 14, 9
    else:
        bfs = [("avc_aac", 6, "AvcCore", "Dt2"), ("hevc_aac", 6, "HevcCore", "Dt2"), ("avc_opus", 5, "AvcAll", "Dt2"),
               ("hevc_opus", 5, "HevcAll", "Dt2"), ("none_aac", 8, "NoKinds", "Dt5"), ("avc_none", 5, "AvcAll", "Dt2")]
        nsim, depth, maxpub = 1900, 16, 10

    def do_bfs(x):
        combo, mp, kinds, dts = x
        cfg = write_cfg(combo, "bfs", mp, kinds, dts, max_ver=2)
        return combo, mp, E.tlc(ctx, "MC_RemuxOut", cfg, timeout=3000, deadlock=False, workers=max(2, E.NCPU // 2))

    def do_sim(combo):
        cfg = write_cfg(combo, "sim", maxpub, kinds_of(combo, True), "Dt5", max_ver=3, gop=(len(combo) % 2))
        return combo, E.tlc(ctx, "MC_RemuxOut", cfg, name="sim-" + combo, workers=1, timeout=900, deadlock=False,
                            simulate="num=%d" % nsim, depth=depth)

    with cf.ThreadPoolExecutor(max_workers=2) as ex:
        for combo, mp, res in ex.map(do_bfs, bfs):
            E.require_design_ok(ctx, res, "MC_RemuxOut %s" % combo)
            ctx.log("design %s maxpub=%d: %d distinct states, reference remuxer satisfies the acceptor (AllOk, EndComplete)" %
                    (combo, mp, res["distinct"]))
    # non-vacuity of the design check: a behaviour in which both HTTP-TS consumers are handed video and audio and
    # the late joiner starts mid-stream must exist (TLC has to report the negated witness as violated)
    wcfg = write_cfg("avc_aac", "wit", 5, "AvcCore", "Dt2", max_ver=2, inv="WitnessV")
    wres = E.tlc(ctx, "MC_RemuxOut", wcfg, timeout=600, deadlock=False)
    if wres.get("inv") != "WitnessV":
        raise E.Infra("design check is vacuous: no behaviour reaches the witness state")
    scen = []
    big_budget = [12 if ctx.quick else 400]
    with cf.ThreadPoolExecutor(max_workers=max(2, E.NCPU // 2)) as ex:
        sims = list(ex.map(do_sim, sorted(COMBOS)))
    for combo, res in sims:
        if res["errors"]:
            raise E.Infra("simulation found a model error in %s: %s" % (combo, res["errors"][:2]))
        bs = behaviours(res)
        seen = set()
        for b in bs:
            key = json.dumps(b, sort_keys=True)
            if key in seen or not any(x["name"] == "Pub" for x in b):
                continue
            seen.add(key)
            scen.append(concretise(ctx, combo, b, len(scen), big_budget))
        ctx.log("simulate %s: %d behaviours, %d distinct" % (combo, len(bs), len(seen)))
    scen += directed(ctx, len(scen))
    scen = [dedupe_short(s) for s in scen]
    sp, tp = ctx.path("scen.ndjson"), ctx.path("trace.ndjson")
    E.write_ndjson(sp, scen)
    E.run_driver(ctx, "remuxout", sp, tp, timeout=2400)
    rows = E.read_ndjson(tp)
    nframes = sum(len(o["frames"]) for r in rows if r.get("ev") in ("Pub", "End") for o in r["out"].values())
    nhls = sum(len(r["hls"]["frames"]) for r in rows if r.get("ev") == "End")
    nrtp = sum(len(o["frames"]) for r in rows if r.get("ev") == "Pub" and "rtp" in r for o in r["rtp"].values())
    nrg = sum(len(r["rtp"]["rg"]["frames"]) for r in rows if r.get("ev") == "Pub" and "rtp" in r)
    ctx.log("driver: %d scenarios, %d events; %d TS frames at HTTP-TS consumers, %d in HLS segments, %d RTP frames" %
            (len(scen), len(rows), nframes, nhls, nrtp))
    ctx.log("        of which %d RTP frames through Group.feedRtpPacket -> rtsp.SubSession (interleaved)" % nrg)
    ctx.cov["traces_validated_against_impl"] = len(scen)
    ctx.cov["evaluations"] = nframes + nhls + nrtp
    ctx.cov["distinct_nontrivial"] = len(scen)
    ctx.cov["rule"] = ("scenario = TLC-simulated behaviour of MC_RemuxOut (message kinds x timestamp increments x join point of a "
                       "second HTTP-TS consumer, per codec combination; de-duplicated) with NAL / audio sizes drawn from the "
                       "boundary pools and a 32-bit start timestamp, plus one directed scenario per NAL size and codec; "
                       "evaluations = PES frames / RTP frames decided by the acceptor")
    ctx.sample({k: scen[0][k] for k in ("sc", "cfg", "combo")})
    ctx.sample(scen[0]["steps"][:6])
    rej = E.validate(ctx, "Trace_RemuxOut", "Trace_RemuxOut.cfg", rows, shards=min(E.NCPU, 1 + len(rows) // 1500))
    whys = why_lines(ctx)
    starts = [i for i, r in enumerate(rows) if r.get("ev") == "reset"]
    for r in rej:
        ev = r["event"]
        sc = scen[r["sc"]] if r["sc"] is not None and r["sc"] < len(scen) else None
        tr = r["trace"]
        parts = None
        # (shard, line in shard) of the rejected event, to find the @WHY@ text printed next to its @REJ@
        if sc is not None:
            g0 = starts[r["sc"]]
            nsh = min(E.NCPU, 1 + len(rows) // 1500)
            per = (len(starts) + nsh - 1) // nsh
            sh = r["sc"] // per
            lo = starts[sh * per]
            parts = whys.get((sh, g0 - lo + r["line"] + 1))
        kind = ev.get("m", {}).get("k", "") if ev.get("ev") == "Pub" else ""
        cls = sorted(set(re.sub(r"\bt[12]\b", "ts", x.strip()) for x in (parts or "?").strip("{}").split(",")))
        sig = "%s:%s:%s" % (ev.get("ev"), kind, "+".join(cls))
        E.report(ctx, sig, "trace rejected at %s (scenario %s line %d, failing parts %s): %s" %
                 (ev.get("ev"), r["sc"], r["line"], parts, json.dumps(ev)[:600]),
                 {"scenario": sc, "trace": tr[:r["line"] + 1]})
    if not rej and (nframes == 0 or nhls == 0 or nrtp == 0 or nrg == 0):
        raise E.Infra("vacuous run: a consumer class received nothing and nothing was rejected")
    ctx.assumptions += [
        "independent TS/PES/PSI, Annex-B, ADTS, RTP (RFC 6184/7798/3640) and SDP readers in harness/proj are the 'standards-conforming demuxer'",
        "HTTP-TS consumers are real httpts.SubSession objects on in-memory connections (synchronous writes); HLS segments are read "
        "back from disk in playlist order; the RTSP side is remux.Rtmp2RtspRemuxer fed with the same messages (no rtsp.SubSession, "
        "so Group.feedRtpPacket key-frame gating and the UDP / interleaved transports are not exercised)",
        "publisher is well-formed: sequence headers precede the frames of their track, timestamps do not decrease, complete "
        "parameter-set groups in band, composition offsets >= 0, AAC object types 1-4, audio frames of 2+ bytes for Opus / G.711",
    ]

"""C19 -- codec configuration across representations (spec/Codec.tla, driver codec)."""
import json
import engine as E


def sps_sig(ev):
    t = ev["t"]
    if ev.get("panic"):
        return "Sps:%s:panic" % t["codec"]
    if not ev["ok"]:
        return "Sps:%s:parse_error" % t["codec"]
    if t["codec"] == "h265":
        return "Sps:h265:size"
    if ev.get("epb", 0) > 0 and t.get("big"):
        return "Sps:h264:emulation_prevention"
    if t["crop"] == 1:
        chroma = t["chroma"] if t["sep"] == 0 else 0
        if t["fmo"] == 0:
            return "Sps:h264:crop:field_coded"
        return "Sps:h264:crop:chroma%d" % chroma
    return "Sps:h264:size:profile%d" % t["profile"]


def run(ctx):
    E.build_harness(ctx)
    cfg = "MC_Codec_q.cfg" if ctx.quick else "MC_Codec_t.cfg"
    res = E.tlc(ctx, "MC_Codec", cfg, timeout=2400, deadlock=False)
    E.require_design_ok(ctx, res, cfg)
    scen = []
    kinds = {}
    for s in E.emitted(res, "@S@"):
        s["sc"] = len(scen)
        scen.append(s)
        kinds[s["k"]] = kinds.get(s["k"], 0) + 1
    ctx.log("%s: scenarios enumerated by TLC: %s" % (cfg, json.dumps(kinds, sort_keys=True)))
    if not scen or len(kinds) < 5:
        raise E.Infra("scenario enumeration incomplete: %s" % kinds)
    # order by kind so that trace shards are homogeneous; the seed rotates the order inside a kind
    order = {"sps": 0, "car": 1, "nal": 2, "aac": 3, "sdp": 4}
    ctx.rng.shuffle(scen)
    scen.sort(key=lambda s: order[s["k"]])
    for i, s in enumerate(scen):
        s["sc"] = i
    sp, tp = ctx.path("scen.ndjson"), ctx.path("trace.ndjson")
    E.write_ndjson(sp, scen)
    E.run_driver(ctx, "codec", sp, tp, timeout=1800)
    rows = E.read_ndjson(tp)
    ctx.cov["traces_validated_against_impl"] = len(scen)
    ctx.cov["evaluations"] = len(rows) - len(scen)
    ctx.cov["distinct_nontrivial"] = len(scen)
    ctx.cov["scenario_kinds"] = kinds
    ctx.cov["rule"] = ("every SPS syntax tree of the TLC-enumerated space serialised by the independent bit writer and parsed "
                       "by avc.ParseSps / hevc.ParseSps; every path of length PathLen through the carrier graph (parameter-set "
                       "length tuples x content class), the framing graph (unit lists x start codes x trailing zeros) and the "
                       "AAC graph; every ADTS-carriable (object type, frequency index, channel configuration); every codec "
                       "pair for SDP via sdp.Pack and via remux.Rtmp2RtspRemuxer; scenarios are distinct by construction")
    for k in ("sps", "car", "nal", "aac", "sdp"):
        ctx.sample(next(s for s in scen if s["k"] == k))
    rej = E.validate(ctx, "Trace_Codec", "Trace_Codec.cfg", rows, timeout=2400)
    for r in rej:
        ev = r["event"]
        head = r["trace"][0]
        if ev["ev"] == "Sps":
            sig = sps_sig(ev)
        elif ev["ev"] == "Step":
            sig = "Car:%s:%s:%s" % (head.get("codec"), ev["edge"], "ok" if ev["ok"] else "error")
        elif ev["ev"] == "NStep":
            tz = "tz" if head.get("tz", 0) > 0 else "notz"
            sig = "Nal:%s:%s:%s" % (ev["edge"], "ok" if ev["ok"] else "error", tz)
        elif ev["ev"] == "AStep":
            sig = "Aac:%s:%s" % (ev["edge"], "ok" if ev["ok"] else "error")
        elif ev["ev"] == "Sdp":
            sig = "Sdp:%s:%s:%s" % (ev["v"], ev["a"], ev["via"])
        else:
            sig = ev["ev"]
        E.report(ctx, sig, "rejected %s (scenario %s line %d): %s" % (ev["ev"], r["sc"], r["line"], json.dumps(ev)[:400]),
                 {"trace": r["trace"]})
    ctx.assumptions += ["independent bit writer / record readers / Annex-B and AVCC splitters / RFC SDP reader harness/proj/codec.go",
                        "the bit writer's choice of the fields that do not affect the size (level, bit depth, scaling-list "
                        "values, VUI content) is trusted concretisation",
                        "H.265 oracle is the coded luma size (conformance window not applied, per the property's 'basic H.265 SPS')"]

"""C03 -- a stream has one input; foreign arrivals and departures never disturb it (spec/Lifecycle.tla)."""
from props.lifecycle_common import run_lifecycle


def run(ctx):
    if ctx.quick:
        run_lifecycle(ctx, bfs=[("L1", 2, 0)], emit=[("L2", 1, 0)], sim=[("L1", 4, 0, 300, 18)])
    else:
        run_lifecycle(ctx, bfs=[("L1", 3, 0)], emit=[("L2", 2, 0)], sim=[("L1", 6, 0, 4000, 26)])

"""C03 -- a stream has one input; foreign arrivals and departures never disturb it (spec/Lifecycle.tla)."""
from props.lifecycle_common import run_lifecycle


def run(ctx):
    if ctx.quick:
        run_lifecycle(ctx, bfs=[("L1", 2, 0), ("P3", 2, 3), ("L3", 2, 0)], emit=[("L2", 1, 0), ("P4", 1, 2)],
                      sim=[("L1", 4, 0, 300, 18), ("P3", 3, 4, 80, 14), ("L3", 3, 0, 150, 18), ("L4", 3, 0, 120, 18), ("P5", 3, 3, 80, 16), ("S3", 3, 0, 120, 18)])
    else:
        run_lifecycle(ctx, bfs=[("L1", 3, 0), ("P3", 3, 4), ("L3", 3, 0)], emit=[("L2", 2, 0), ("P4", 2, 3), ("P0", 2, 3)],
                      sim=[("L1", 6, 0, 4000, 26), ("P3", 5, 6, 1500, 22), ("P1", 5, 5, 800, 22), ("L3", 5, 0, 2000, 24), ("L4", 5, 0, 1500, 24), ("P5", 5, 5, 800, 22), ("S3", 5, 0, 1500, 24)])

"""C03 -- a stream has one input; foreign arrivals and departures never disturb it (spec/Lifecycle.tla)."""
from props.lifecycle_common import run_lifecycle, DIRECTED


def run(ctx):
    if ctx.quick:
        run_lifecycle(ctx, bfs=[("L1", 2, 0), ("P3", 2, 3), ("L3", 2, 0)], emit=[("L2", 1, 0), ("P4", 1, 2), ("H0", 1, 0), ("D0", 1, 1)],
                      sim=[("L1", 4, 0, 300, 18), ("P3", 3, 4, 80, 14), ("L3", 3, 0, 150, 18), ("L4", 3, 0, 120, 18), ("P5", 3, 3, 80, 16), ("S3", 3, 0, 120, 18),
                           ("H1", 3, 0, 80, 18), ("R3", 3, 4, 40, 14), ("D1", 3, 3, 40, 16)], directed=DIRECTED)
    else:
        run_lifecycle(ctx, bfs=[("L1", 3, 0), ("P3", 3, 4), ("L3", 3, 0), ("H1", 3, 0), ("D1", 3, 4), ("D2", 2, 3)], emit=[("L2", 2, 0), ("P4", 2, 3), ("P0", 2, 3), ("H0", 2, 0), ("R4", 2, 3), ("D0", 2, 2)],
                      sim=[("L1", 6, 0, 4000, 26), ("P3", 5, 6, 1500, 22), ("P1", 5, 5, 800, 22), ("L3", 5, 0, 2000, 24), ("L4", 5, 0, 1500, 24), ("P5", 5, 5, 800, 22), ("S3", 5, 0, 1500, 24),
                           ("H1", 5, 0, 1500, 24), ("H2", 5, 5, 600, 22),
                           ("R3", 5, 6, 1000, 22), ("R1", 5, 5, 600, 22), ("R5", 5, 5, 500, 22),
                           ("D1", 5, 5, 800, 22), ("D2", 5, 5, 800, 22)], directed=DIRECTED)

from props.lifecycle_common import run_lifecycle
def run(ctx):
    run_lifecycle(ctx, bfs=[("S1", 2, 0), ("S2", 2, 0)], emit=[("S0", 1, 0)], sim=[("S1", 3, 0, 150, 18), ("S2", 3, 0, 100, 18)])

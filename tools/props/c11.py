"""C11 -- FLV byte streams and WebSocket framing (spec/FlvWs.tla, driver flv)."""
import engine as E


def run(ctx):
    E.build_harness(ctx)
    cfg = "MC_FlvWs_q.cfg" if ctx.quick else "MC_FlvWs_t.cfg"
    res = E.tlc(ctx, "MC_FlvWs", cfg, timeout=900, deadlock=False)
    E.require_design_ok(ctx, res, cfg)
    g = E.Graph.load(res)
    paths, ncov = g.edge_cover(ctx.rng, max_len=12)
    ctx.log("%s: %d states, %d edges, %d cover paths" % (cfg, res["distinct"], g.nedges, len(paths)))
    scen = []
    tagset = {}
    for p in paths:
        mode = p[0].get("mode", "flv")
        scen.append({"sc": len(scen), "kind": "session", "mode": mode, "steps": p})
        if mode != "file":
            # the same session through lal's asynchronous write queue, the peer reading only after everything is queued
            scen.append({"sc": len(scen), "kind": "session", "mode": mode, "steps": p, "queued": True})
        for a in p:
            if a["name"] == "Tag":
                tagset[(a["t"], a["n"], tuple(a["ts"]))] = a
    # recordings with a tag that is larger than any buffer a writer may keep (256 KiB, 1 MiB) between small ones, with and
    # without the header written first: the file holds what was written, in the order it was written
    for big in (262129, 262144, 307200, 1 << 20):
        for lead in (True, False):
            p = [{"name": "Open", "mode": "file"}, {"name": "Hdr"}]
            if lead:
                p.append({"name": "Tag", "t": 8, "n": 7, "ts": [0, 0]})
            p += [{"name": "Tag", "t": 9, "n": big, "ts": [0, 40]}, {"name": "Tag", "t": 8, "n": 9, "ts": [0, 63]},
                  {"name": "Tag", "t": 9, "n": 111, "ts": [0, 80]}]
            scen.append({"sc": len(scen), "kind": "session", "mode": "file", "steps": p})
    # recordings read back through lal's own HTTP-FLV client (httpflv.PullSession) from a loopback HTTP server: a plain 200
    # response, and a 302 with a small body first - the client hands on the same tags
    k = 0
    for p in paths:
        if p[0].get("mode", "flv") == "file" and sum(1 for a in p if a["name"] == "Tag") >= 1 and any(a["name"] == "Hdr" for a in p):
            k += 1
            if k % (4 if ctx.quick else 1) == 0:
                scen.append({"sc": len(scen), "kind": "session", "mode": "file", "steps": p, "via": ("http", "redir")[(k // 4) % 2 if ctx.quick else k % 2]})
    for via in ("http", "redir"):
        p = [{"name": "Open", "mode": "file"}, {"name": "Hdr"}] + [
            {"name": "Tag", "t": (9, 8, 18)[i % 3], "n": (111, 7, 65521, 0, 300)[i % 5], "ts": [0, 40 * i]} for i in range(25)]
        scen.append({"sc": len(scen), "kind": "session", "mode": "file", "steps": p, "via": via})
    # the pure functions on every enumerated (type, length, timestamp) + big lengths
    steps = [dict(a) for a in sorted(tagset.values(), key=lambda a: (a["t"], a["n"], a["ts"]))]
    ctx.rng.shuffle(steps)     # consecutive steps give the (from, to) timestamp pairs of ModTagTimestamp
    tss = sorted(set(tuple(a["ts"]) for a in steps))
    for a in tss:              # ... and every ordered pair of pool timestamps explicitly
        for b in tss:
            steps.append({"name": "Tag", "t": 9, "n": 5, "ts": list(b)})
            steps.append({"name": "Tag", "t": 8, "n": 7, "ts": list(a)})
    for n in ([0xFFFFFF] if not ctx.quick else [1 << 20]):
        for ts in ([0, 0], [255, 65535], [65535, 65535]):
            steps.append({"name": "Tag", "t": 9, "n": n, "ts": ts})
    for i in range(0, len(steps), 50):
        scen.append({"sc": len(scen), "kind": "func", "mode": "func", "steps": steps[i:i + 50]})
    lens = [0, 1, 124, 125, 126, 127, 128, 65534, 65535, 65536, 65537, 0xFFFFFF, 0xFFFFFF + 15, 1 << 30]
    scen.append({"sc": len(scen), "kind": "ws", "mode": "wsfunc", "lens": lens})
    sp, tp = ctx.path("scen.ndjson"), ctx.path("trace.ndjson")
    E.write_ndjson(sp, scen)
    E.run_driver(ctx, "flv", sp, tp)
    rows = E.read_ndjson(tp)
    ctx.cov["traces_validated_against_impl"] = len(scen)
    ctx.cov["evaluations"] = len(rows)
    ctx.cov["distinct_nontrivial"] = len(scen)
    ctx.cov["rule"] = ("sessions = edge cover of the FlvWs state graph (mode x tag type x length x timestamp in every "
                       "position) run through httpflv.SubSession (plain/WebSocket) and FlvFileWriter; pure functions on "
                       "every enumerated triple; WebSocket header over the boundary lengths")
    ctx.sample(scen[0])
    ctx.sample(scen[-1])
    rej = E.validate(ctx, "Trace_FlvWs", "Trace_FlvWs.cfg", rows)
    for r in rej:
        ev = r["event"]
        mode = r["trace"][0].get("mode")
        sig = "%s:%s" % (mode, ev["ev"])
        if ev["ev"] in ("Tag", "Func", "Mod"):
            n, ts = ev["n"], ev["ts"]
            sig += ":len_%s:ts_%s" % ("le125" if n + 15 <= 125 else ("le65535" if n + 15 <= 65535 else "big"),
                                      "hi" if ts[0] >= 256 else "lo")
        if ev["ev"] == "Ws":
            sig += ":n=%d" % ev["n"]
        E.report(ctx, sig, "trace rejected at %s (scenario %s line %d)" % (ev["ev"], r["sc"], r["line"]),
                 {"trace": r["trace"]})
    ctx.assumptions += ["independent FLV / WebSocket reader harness/proj/flv.go"]

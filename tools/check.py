#!/usr/bin/env python3
"""Entry point:  ./check <ID> [--tier quick|thorough] [--replay path]"""
import argparse, importlib, os, sys, traceback

sys.path.insert(0, os.path.dirname(os.path.abspath(__file__)))
import engine


def main():
    ap = argparse.ArgumentParser()
    ap.add_argument("pid")
    ap.add_argument("--tier", default=os.environ.get("VERIF_TIER", "quick"))
    ap.add_argument("--replay", default=None)
    a = ap.parse_args()
    if a.tier not in ("quick", "thorough"):
        a.tier = "quick"
    try:
        seed = int(os.environ.get("VERIF_SEED", "1"))
    except ValueError:
        seed = 1
    pid = a.pid.upper()
    ctx = engine.Ctx(pid, a.tier, seed, a.replay)
    try:
        mod = importlib.import_module("props." + pid.lower())
        mod.run(ctx)
        rc = engine.finish(ctx)
    except engine.Infra as ex:
        print("INFRA property=%s %s" % (pid, ex), file=sys.stderr)
        rc = 2
    except Exception:
        traceback.print_exc()
        rc = 2
    sys.exit(rc)


if __name__ == "__main__":
    main()

#!/bin/bash
# usage: mkseed.sh <ID>  -> prepares /tmp/seed-<ID> (worktree + property.txt)
id=$1
rm -rf /tmp/seed-$id; mkdir -p /tmp/seed-$id/out && git -C /repo worktree prune && git -C /repo worktree add -q --detach /tmp/seed-$id/repo HEAD && python3 - $id <<'PY'
import json,sys
pid=sys.argv[1]
for l in open('/verif/properties.jsonl'):
    p=json.loads(l)
    if p['id']==pid:
        open('/tmp/seed-%s/property.txt'%pid,'w').write("Property %s: %s\n\nStatement: %s\n\nQuantifier (over %s): %s\n\nAnchored in files: %s\nState: %s\nMechanisms: %s\nObserve at: %s\n" % (pid,p['title'],p['statement'],p['quantifier']['over'],p['quantifier']['text'],p['anchors']['files'],json.dumps(p['anchors']['state']),json.dumps(p['anchors']['mechanism']),p['anchors']['observe_at']))
PY

SPECIFICATION Spec
CONSTANTS
  Modes = {1, 2}
  MaxEp = 3
  MaxGrp = 3
  MaxFeed = 2
  MaxAge = 4
  MaxPending = 2
  Capture = FALSE
INVARIANTS TypeOK LiveSpared Listed Cleaned NeverCleaned
ACTION_CONSTRAINT EmitA

SPECIFICATION Spec
CONSTANTS
  Surf = "client"
  Depth = 7
  Level = 2
INVARIANTS Total ClosedIsFinal Bounded
ACTION_CONSTRAINT EmitS
VIEW View

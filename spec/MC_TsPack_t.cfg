SPECIFICATION Spec
CONSTANTS
  LenPool <- T_Len
  CcPool = {0, 1, 2, 3, 4, 5, 6, 7, 8, 9, 10, 11, 12, 13, 14, 15}
  PtsPool <- Q_Pts
  CtsPool <- Q_Cts
INVARIANTS RefOK
ACTION_CONSTRAINT EmitS

---------------------------- MODULE Trace_Amf0 ----------------------------
(* Trace validation for C18: what lal's AMF0 readers/writers and metadata helpers returned,   *)
(* decided against the decoder machine and encoder of Amf0.                                    *)
EXTENDS Amf0, IOUtils

Trace == ndJsonDeserialize(IOEnv.TRACE)
VARIABLES l
TraceInit == l = 1 /\ TLCSet(1, 1)
IsEvent(e) == l <= Len(Trace) /\ Trace[l].ev = e /\ l' = l + 1
\* every line is an independent case: a rejected line is reported and validation continues
Check(c) == IF c THEN TRUE ELSE PrintT("@REJ@" \o ToString(l))

TraceReset == IsEvent("reset")

TraceDec == /\ IsEvent("Dec")
            /\ LET e == Trace[l]
               IN Check(/\ e.total = Bytes(Enc(e.v))
                        /\ e.res = Decode(e.v, e.cut)
                        /\ e.res2 = e.res)

\* an object key has a 16-bit length and no long form: a key of 65536 bytes or more has no AMF0 encoding, and the only
\* exact answer of an encoder is to refuse the value
KeysFit(v) == v.k # "obj" \/ \A i \in 1..Len(v.ps) : v.ps[i].key.n < 65536
TraceEnc == /\ IsEvent("Enc")
            /\ LET e == Trace[l]
               IN IF ~KeysFit(e.v) THEN Check(e.refused) ELSE
                  Check(/\ ~e.refused
                        /\ e.tokOk
                        /\ e.toks = Enc(e.v)
                        /\ e.total = Bytes(e.toks)
                        /\ e.res = (IF e.v.k = "null" THEN [ok |-> TRUE, used |-> 1, val |-> Skip]
                                    ELSE [ok |-> TRUE, used |-> e.total, val |-> View(e.v)]))

TraceDeep == /\ IsEvent("Deep")
             /\ LET e == Trace[l]
                    exp == e.closed /\ DeepOk(e.n)
                IN Check(/\ ~e.died
                         /\ e.ok = exp
                         /\ e.okMeta = (IF e.nest = "strict" THEN TRUE ELSE exp))

TraceSdf == /\ IsEvent("Sdf")
            /\ LET e == Trace[l]
               IN Check(e.ok /\ e.stable /\ e.with = EnsureWith(e.in) /\ e.without = EnsureWithout(e.in))

OnMeta == [n |-> 10, id |-> 0, s |-> "onMetaData"]
TraceMeta == /\ IsEvent("Meta")
             /\ LET e == Trace[l]
                    n == Len(e.toks)
                IN Check(/\ e.ok /\ n >= 6
                         /\ SubSeq(e.toks, 1, 3) = EncStr(OnMeta)
                         /\ e.toks[4] = M(3)
                         /\ SubSeq(e.toks, n - 1, n) = EndMark
                         /\ e.fields.width = e.w /\ e.fields.height = e.h
                         /\ e.fields.audiocodecid = e.a /\ e.fields.videocodecid = e.vc)

TraceNext == TraceReset \/ TraceDec \/ TraceEnc \/ TraceDeep \/ TraceSdf \/ TraceMeta
TraceSpec == TraceInit /\ [][TraceNext]_l
HighWater == TLCSet(1, IF l > TLCGet(1) THEN l ELSE TLCGet(1))
Accept == PrintT("@HW@" \o ToString(TLCGet(1)))
=============================================================================

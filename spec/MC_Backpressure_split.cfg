SPECIFICATION FineSpec
CONSTANTS
  Cons = {"s1", "s2"}
  Healthy = {}
  Other = {}
  N = 2
  HCap = 64
  Parts = 2
  ElemParts = 1
  WsMode = TRUE
  EnqAcct = FALSE
  HasDeadline = TRUE
  Prime = FALSE
  MaxPub = 3
  MaxRead = 2
  MaxStall = 1
  MaxSweep = 1
  MaxLeave = 0
  MaxPubB = 0
  MaxCmd = 0
INVARIANTS WholeUnits
VIEW FineView

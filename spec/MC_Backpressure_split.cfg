SPECIFICATION FineSpec
CONSTANTS
  Cons = {"s1", "s2"}
  Healthy = {}
  N = 2
  HCap = 64
  Parts = 2
  WsMode = TRUE
  MaxPub = 3
  MaxRead = 2
  MaxStall = 1
  MaxSweep = 1
  MaxLeave = 0
INVARIANTS WholeUnits
VIEW FineView

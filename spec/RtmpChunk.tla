------------------------------- MODULE RtmpChunk -------------------------------
(* RTMP chunk stream (C08).                                                              *)
(*   Writer  = a reference encoder that may take every legal choice: header format 0..3  *)
(*             for the first chunk of a message (deltas below ExtMark for formats 1..3), *)
(*             interleaving of chunk streams, Set Chunk Size in mid-stream, aggregates.  *)
(*   Reader  = the chunk-stream reader of the RTMP specification, one action per chunk,  *)
(*             structured like lal's ChunkComposer.RunLoop (per-csid header memory,      *)
(*             extended-timestamp rule, delta accumulation, peer chunk size).            *)
(* Writer and reader run in lock step over the same wire (each writer action emits one   *)
(* chunk which the reader consumes); RoundTrip says that what the reader delivers is     *)
(* what was submitted.  All timestamps are two-limb values (lib/U32).                    *)
EXTENDS Integers, Sequences, FiniteSets, TLC, Json, U32

CONSTANTS ExtMark,     \* U32 value of 0xFFFFFF
          Csids,       \* chunk stream ids the writer uses
          TsPool,      \* U32 message timestamps
          LenPool,     \* message lengths
          TypePool,    \* message type ids (8, 9, 18 ...)
          MsidPool,    \* message stream ids
          CsPool,      \* chunk sizes announced by Set Chunk Size messages
          InitCs,      \* chunk size before any Set Chunk Size (128)
          ScsLen,      \* payload length of a Set Chunk Size message (4)
          AggPool,     \* set of aggregate shapes: sequences of [type, len, dts, sid]
          MaxMsgs,     \* bound on submitted messages
          ScsCsid      \* chunk stream id used for protocol control messages (2)

VARIABLES wprev,  \* writer: per-csid memory of the last message header sent
          pend,   \* writer: per-csid message being chunked
          rd,     \* reader: per-csid state (lal: Stream)
          cs,     \* chunk size in force (writer's local = reader's peer chunk size)
          nsub,   \* number of messages submitted
          ok,     \* RoundTrip so far
          act     \* last action (emission only; hidden by VIEW)

vars == <<wprev, pend, rd, cs, nsub, ok, act>>
View == <<wprev, pend, rd, cs, nsub, ok>>

TypeScs == 1
TypeAgg == 22
Min(a, b) == IF a < b THEN a ELSE b

NoPrev == [on |-> FALSE, ts |-> UZero, len |-> 0, type |-> 0, msid |-> 0, fld |-> UZero]
NoMsg  == [csid |-> 0, ts |-> UZero, len |-> 0, type |-> 0, msid |-> 0, newcs |-> 0, subs |-> <<>>]
NoPend == [on |-> FALSE, m |-> NoMsg, sent |-> 0, ext |-> FALSE, extVal |-> UZero]
RdInit == [tsf |-> UZero, abs |-> UZero, absFlag |-> FALSE, len |-> 0, type |-> 0, msid |-> 0, have |-> 0]

RECURSIVE AggLen(_)
AggLen(subs) == IF subs = <<>> THEN 0 ELSE 11 + Head(subs).len + 4 + AggLen(Tail(subs))

PlainMsgs(c) == [csid : {c}, ts : TsPool, len : LenPool, type : TypePool, msid : MsidPool,
                 newcs : {0}, subs : {<<>>}]
ScsMsgs == [csid : {ScsCsid}, ts : {UZero}, len : {ScsLen}, type : {TypeScs}, msid : {0},
            newcs : CsPool, subs : {<<>>}]
AggMsgs(c) == {[csid |-> c, ts |-> t, len |-> AggLen(s), type |-> TypeAgg, msid |-> i,
                newcs |-> 0, subs |-> s] : t \in TsPool, s \in AggPool, i \in MsidPool}
MsgsOn(c) == PlainMsgs(c) \cup AggMsgs(c) \cup (IF c = ScsCsid THEN ScsMsgs ELSE {})
AllCsids == Csids \cup {ScsCsid}

---------------------------------------------------------------------------
(* Reader: one chunk.  Returns [r |-> new per-csid state, out |-> delivered messages,    *)
(*                              wf |-> chunk well-formed w.r.t. reader state]            *)
ReadChunk(r, ch, csz) ==
  LET r1 == CASE ch.fmt = 0 -> [r EXCEPT !.tsf = ch.tsf, !.abs = ch.tsf, !.absFlag = TRUE,
                                         !.len = ch.len, !.type = ch.type, !.msid = ch.msid]
              [] ch.fmt = 1 -> [r EXCEPT !.tsf = ch.tsf, !.len = ch.len, !.type = ch.type]
              [] ch.fmt = 2 -> [r EXCEPT !.tsf = ch.tsf]
              [] OTHER      -> r
      needExt == UGe(r1.tsf, ExtMark)
      r2 == IF needExt
              THEN [r1 EXCEPT !.tsf = ch.extVal, !.abs = IF ch.fmt = 0 THEN ch.extVal ELSE @]
              ELSE r1
      need == Min(r2.len - r2.have, csz)
      have2 == r2.have + need
      done == have2 = r2.len
      ts == IF r2.absFlag THEN r2.abs ELSE UAdd(r2.abs, r2.tsf)
      r3 == IF done THEN [r2 EXCEPT !.have = 0, !.abs = ts, !.absFlag = FALSE]
                    ELSE [r2 EXCEPT !.have = have2]
  IN [r |-> r3, done |-> done, ts |-> ts, need |-> need,
      wf |-> (ch.ext = needExt) /\ (ch.data = need)]

(* What a completed message delivers to the callback (aggregates are split).             *)
Delivered(c, r, ts, m) ==
  IF r.type = TypeAgg
    THEN [i \in 1..Len(m.subs) |->
            [csid |-> c, type |-> m.subs[i].type, msid |-> r.msid, len |-> m.subs[i].len,
             ts |-> UAdd(ts, UOfInt(m.subs[i].dts))]]
    ELSE << [csid |-> c, type |-> r.type, msid |-> r.msid, len |-> r.len, ts |-> ts] >>

Expected(m) ==
  IF m.type = TypeAgg
    THEN [i \in 1..Len(m.subs) |->
            [csid |-> m.csid, type |-> m.subs[i].type, msid |-> m.msid, len |-> m.subs[i].len,
             ts |-> UAdd(m.ts, UOfInt(m.subs[i].dts))]]
    ELSE << [csid |-> m.csid, type |-> m.type, msid |-> m.msid, len |-> m.len, ts |-> m.ts] >>

---------------------------------------------------------------------------
Init == /\ wprev = [c \in AllCsids |-> NoPrev]
        /\ pend  = [c \in AllCsids |-> NoPend]
        /\ rd    = [c \in AllCsids |-> RdInit]
        /\ cs = InitCs
        /\ nsub = 0
        /\ ok = TRUE
        /\ act = [name |-> "init"]

(* Legal header formats for the first chunk of message m on csid c.                      *)
Delta(c, m) == USub(m.ts, wprev[c].ts)
LegalFmt(c, m, f) ==
  CASE f = 0 -> TRUE
    [] f = 1 -> wprev[c].on /\ m.msid = wprev[c].msid /\ ULt(Delta(c, m), ExtMark)
    [] f = 2 -> wprev[c].on /\ m.msid = wprev[c].msid /\ ULt(Delta(c, m), ExtMark)
                /\ m.len = wprev[c].len /\ m.type = wprev[c].type
    [] f = 3 -> wprev[c].on /\ m.msid = wprev[c].msid /\ ULt(Delta(c, m), ExtMark)
                /\ m.len = wprev[c].len /\ m.type = wprev[c].type
                /\ Delta(c, m) = wprev[c].fld

(* Apply a chunk ch (carrying `data` payload bytes of message m) to the reader.           *)
Feed(c, ch, m, name) ==
  LET res == ReadChunk(rd[c], ch, cs)
      out == IF res.done THEN Delivered(c, res.r, res.ts, m) ELSE <<>>
  IN /\ rd' = [rd EXCEPT ![c] = res.r]
     /\ ok' = (ok /\ res.wf /\ (res.done => out = Expected(m)))
     /\ cs' = IF res.done /\ m.type = TypeScs THEN m.newcs ELSE cs
     /\ act' = [name |-> name, chunk |-> ch, msg |-> m, out |-> out, done |-> res.done]

Begin(c, m, f) ==
  /\ ~pend[c].on
  /\ nsub < MaxMsgs
  /\ LegalFmt(c, m, f)
  /\ LET fld  == IF f = 0 THEN m.ts ELSE IF f = 3 THEN wprev[c].fld ELSE Delta(c, m)
         ext  == UGe(fld, ExtMark)
         data == Min(m.len, cs)
         ch   == [fmt |-> f, csid |-> c,
                  tsf |-> IF f = 3 THEN UZero ELSE IF ext THEN ExtMark ELSE fld,
                  ext |-> ext, extVal |-> IF ext THEN fld ELSE UZero,
                  len |-> IF f <= 1 THEN m.len ELSE 0,
                  type |-> IF f <= 1 THEN m.type ELSE 0,
                  msid |-> IF f = 0 THEN m.msid ELSE 0,
                  data |-> data, off |-> 0]
     IN /\ wprev' = [wprev EXCEPT ![c] = [on |-> TRUE, ts |-> m.ts, len |-> m.len,
                                          type |-> m.type, msid |-> m.msid, fld |-> fld]]
        /\ pend' = [pend EXCEPT ![c] = IF data = m.len THEN NoPend
                                       ELSE [on |-> TRUE, m |-> m, sent |-> data, ext |-> ext,
                                             extVal |-> fld]]
        /\ nsub' = nsub + 1
        /\ Feed(c, ch, m, "Begin")

Cont(c) ==
  /\ pend[c].on
  /\ LET p == pend[c]
         data == Min(p.m.len - p.sent, cs)
         ch == [fmt |-> 3, csid |-> c, tsf |-> UZero, ext |-> p.ext,
                extVal |-> IF p.ext THEN p.extVal ELSE UZero,
                len |-> 0, type |-> 0, msid |-> 0, data |-> data, off |-> p.sent]
     IN /\ pend' = [pend EXCEPT ![c] = IF p.sent + data = p.m.len THEN NoPend
                                       ELSE [p EXCEPT !.sent = p.sent + data]]
        /\ UNCHANGED <<wprev, nsub>>
        /\ Feed(c, ch, p.m, "Cont")

Next == \/ \E c \in AllCsids : \E m \in MsgsOn(c) : \E f \in 0..3 : Begin(c, m, f)
        \/ \E c \in AllCsids : Cont(c)

Spec == Init /\ [][Next]_vars

---------------------------------------------------------------------------
RoundTrip == ok
TypeOK == /\ cs \in CsPool \cup {InitCs}
          /\ nsub \in 0..MaxMsgs
          /\ \A c \in AllCsids : pend[c].on => pend[c].sent < pend[c].m.len

(* Scenario emission: every generated transition, one JSON line.                          *)
St(w, p, r, z, n) == [wprev |-> w, pend |-> p, rd |-> r, cs |-> z, nsub |-> n]
Emit == PrintT("@E@" \o ToJson([f |-> St(wprev, pend, rd, cs, nsub), a |-> act',
                                 t |-> St(wprev', pend', rd', cs', nsub'),
                                 l |-> TLCGet("level")]))
=============================================================================

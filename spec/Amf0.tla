------------------------------- MODULE Amf0 -------------------------------
(* AMF0 values, their encoding as a token sequence, and lal's decoder (pkg/rtmp/amf0.go) as a  *)
(* depth-bounded recursive machine over tokens (C18).                                          *)
(*                                                                                              *)
(* Values (JSON-compatible records, shared with the Go driver):                                 *)
(*   [k |-> "num", id]  [k |-> "bool", b]  [k |-> "str", s |-> S]  [k |-> "null"]               *)
(*   [k |-> "undef"]  [k |-> "unk", m]  (a marker lal does not know)                            *)
(*   [k |-> "obj", ps, end]      ps = sequence of [key |-> S, v |-> value]                      *)
(*   [k |-> "ecma", ps, cnt, end]   cnt = announced count (-1 = 2^32-1)                         *)
(*   [k |-> "strict", vs, cnt]                                                                  *)
(*   [k |-> "lstr", decl, s]  long string with a declared length that differs from its bytes     *)
(*   [k |-> "deep", kind, n, leaf]  n-fold nesting of `kind` around leaf (never expanded here)  *)
(* Strings S = [n |-> length, id |-> position-code id, s |-> literal text or ""]                *)
(* Tokens: [t |-> "m"|"b8"|"u16"|"u32"|"f64"|"raw", v, sz]                                      *)
EXTENDS Integers, Sequences, TLC, Json

CONSTANTS DepthLimit   \* nesting depth above which lal's reader reports an error

M(x)      == [t |-> "m", v |-> x, sz |-> 1]
B8(x)     == [t |-> "b8", v |-> x, sz |-> 1]
U16(x)    == [t |-> "u16", v |-> x, sz |-> 2]
U32(x)    == [t |-> "u32", v |-> x, sz |-> 4]
F64(i)    == [t |-> "f64", v |-> i, sz |-> 8]
Raw(s)    == [t |-> "raw", v |-> [id |-> s.id, s |-> s.s], sz |-> s.n]

RECURSIVE Enc(_), EncPairs(_), EncVals(_)
EncStr(s) == IF s.n < 65536 THEN <<M(2), U16(s.n), Raw(s)>> ELSE <<M(12), U32(s.n), Raw(s)>>
EncKey(s) == <<U16(s.n), Raw(s)>>
EndMark == <<U16(0), M(9)>>
EncPairs(ps) == IF ps = <<>> THEN <<>> ELSE EncKey(ps[1].key) \o Enc(ps[1].v) \o EncPairs(Tail(ps))
EncVals(vs) == IF vs = <<>> THEN <<>> ELSE Enc(vs[1]) \o EncVals(Tail(vs))
Enc(v) ==
  CASE v.k = "num"    -> <<M(0), F64(v.id)>>
    [] v.k = "bool"   -> <<M(1), B8(IF v.b THEN 1 ELSE 0)>>
    [] v.k = "str"    -> EncStr(v.s)
    [] v.k = "lstr"   -> <<M(12), U32(v.decl), Raw(v.s)>>   \* long string whose declared length is v.decl
    [] v.k = "null"   -> <<M(5)>>
    [] v.k = "undef"  -> <<M(6)>>
    [] v.k = "unk"    -> <<M(v.m)>>
    [] v.k = "obj"    -> <<M(3)>> \o EncPairs(v.ps) \o (IF v.end THEN EndMark ELSE <<>>)
    [] v.k = "ecma"   -> <<M(8), U32(v.cnt)>> \o EncPairs(v.ps) \o (IF v.end THEN EndMark ELSE <<>>)
    [] v.k = "strict" -> <<M(10), U32(v.cnt)>> \o EncVals(v.vs)

RECURSIVE Bytes(_)
Bytes(toks) == IF toks = <<>> THEN 0 ELSE toks[1].sz + Bytes(Tail(toks))
RECURSIVE OffOf(_, _)
OffOf(toks, i) == IF i <= 1 THEN 0 ELSE toks[i-1].sz + OffOf(toks, i - 1)

---------------------------------------------------------------------------
(* lal's view of a decoded value: containers become key/value pair lists, null / undefined      *)
(* members are dropped, strict-array members get the empty key.                                 *)
EmptyS == [n |-> 0, id |-> 0, s |-> ""]
Err == [ok |-> FALSE, val |-> [k |-> "none"], next |-> 0]
Skip == [k |-> "skip"]

(* Decoder.  toks: tokens; i: token index; avail: bytes available; d: nesting depth; inner:     *)
(* TRUE inside a container (lal's `read`), FALSE at a top-level typed reader.                   *)
Has(toks, i, avail) == i <= Len(toks) /\ OffOf(toks, i) + toks[i].sz <= avail
IsEnd(toks, i, avail) == /\ Has(toks, i, avail) /\ Has(toks, i + 1, avail)
                         /\ toks[i].t = "u16" /\ toks[i].v = 0 /\ toks[i+1].t = "m" /\ toks[i+1].v = 9

RECURSIVE DecVal(_, _, _, _, _), DecObjLoop(_, _, _, _, _), DecCntLoop(_, _, _, _, _, _, _)

Append1(ps, key, r) == IF r.val = Skip THEN ps ELSE Append(ps, [key |-> key, v |-> r.val])

KeyAt(toks, i) == [n |-> toks[i].v, id |-> toks[i+1].v.id, s |-> toks[i+1].v.s]
HasKey(toks, i, avail) == /\ Has(toks, i, avail) /\ toks[i].t = "u16"
                          /\ Has(toks, i + 1, avail) /\ toks[i+1].t = "raw"

\* object members until the end marker
DecObjLoop(toks, i, avail, d, ps) ==
  IF IsEnd(toks, i, avail) THEN [ok |-> TRUE, val |-> [k |-> "pairs", ps |-> ps], next |-> i + 2]
  ELSE IF ~HasKey(toks, i, avail) THEN Err
  ELSE LET r == DecVal(toks, i + 2, avail, d, TRUE)
       IN IF ~r.ok THEN Err ELSE DecObjLoop(toks, r.next, avail, d, Append1(ps, KeyAt(toks, i), r))

\* cnt members (keyed = ECMA array, else strict array); cnt = -1 stands for 2^32-1
DecCntLoop(toks, i, avail, d, ps, cnt, keyed) ==
  IF cnt = 0 THEN [ok |-> TRUE, val |-> [k |-> "pairs", ps |-> ps], next |-> i]
  ELSE IF keyed
    THEN IF ~HasKey(toks, i, avail) THEN Err
         ELSE LET r == DecVal(toks, i + 2, avail, d, TRUE)
              IN IF ~r.ok THEN Err
                 ELSE DecCntLoop(toks, r.next, avail, d, Append1(ps, KeyAt(toks, i), r),
                                 IF cnt < 0 THEN cnt ELSE cnt - 1, keyed)
    ELSE LET r == DecVal(toks, i, avail, d, TRUE)
         IN IF ~r.ok THEN Err
            ELSE DecCntLoop(toks, r.next, avail, d, Append1(ps, EmptyS, r), IF cnt < 0 THEN cnt ELSE cnt - 1, keyed)

DecVal(toks, i, avail, d, inner) ==
  IF ~Has(toks, i, avail) \/ toks[i].t # "m" THEN Err
  ELSE LET m == toks[i].v IN
    CASE m = 0 -> IF Has(toks, i + 1, avail) THEN [ok |-> TRUE, val |-> [k |-> "num", id |-> toks[i+1].v], next |-> i + 2] ELSE Err
      [] m = 1 -> IF Has(toks, i + 1, avail) THEN [ok |-> TRUE, val |-> [k |-> "bool", b |-> toks[i+1].v # 0], next |-> i + 2] ELSE Err
      [] m \in {2, 12} ->
           IF ~(Has(toks, i + 1, avail) /\ Has(toks, i + 2, avail)) THEN Err
           ELSE IF toks[i+1].v # toks[i+2].sz THEN Err      \* declared length exceeds what follows (-k = 2^32-k)
           ELSE [ok |-> TRUE, val |-> [k |-> "str", s |-> [n |-> toks[i+1].v, id |-> toks[i+2].v.id, s |-> toks[i+2].v.s]],
                 next |-> i + 3]
      [] m \in {5, 6, 13} -> [ok |-> TRUE, val |-> Skip, next |-> i + 1]
      [] m = 3 -> IF d >= DepthLimit THEN Err ELSE DecObjLoop(toks, i + 1, avail, d + 1, <<>>)
      [] m = 8 -> IF d >= DepthLimit \/ ~Has(toks, i + 1, avail) THEN Err
                  ELSE LET r == DecCntLoop(toks, i + 2, avail, d + 1, <<>>, toks[i+1].v, TRUE)
                       IN IF ~r.ok THEN Err
                          ELSE IF IsEnd(toks, r.next, avail) THEN [r EXCEPT !.next = r.next + 2] ELSE r
      [] m = 10 -> IF d >= DepthLimit \/ ~Has(toks, i + 1, avail) THEN Err
                   ELSE DecCntLoop(toks, i + 2, avail, d + 1, <<>>, toks[i+1].v, FALSE)
      [] OTHER -> Err

(* The raw token of an empty string has size 0: it is present in the token list and Has() holds *)
(* for it whenever the bytes before it are available.                                           *)

(* Result of the top-level reader lal would use for this value kind, on the first `avail` bytes. *)
Decode(v, avail) ==
  LET toks == Enc(v)
      r == DecVal(toks, 1, avail, 0, FALSE)
  IN IF avail < 1 THEN [ok |-> FALSE, used |-> 0, val |-> [k |-> "none"]]
     ELSE IF r.ok THEN [ok |-> TRUE, used |-> OffOf(toks, r.next), val |-> r.val]
     ELSE [ok |-> FALSE, used |-> 0, val |-> [k |-> "none"]]

(* Cut points worth trying: around every token boundary.                                        *)
Cuts(v) == LET toks == Enc(v) tot == Bytes(toks)
           IN {c \in UNION {{OffOf(toks, i), OffOf(toks, i) + 1, OffOf(toks, i) + toks[i].sz - 1} : i \in 1..Len(toks)}
                     \cup {tot} : c >= 0 /\ c <= tot}

(* lal's view of a value it can encode itself (flat object of string / number / boolean).       *)
RECURSIVE ViewPairs(_)
View(v) == CASE v.k = "obj" -> [k |-> "pairs", ps |-> ViewPairs(v.ps)]
             [] OTHER -> v
ViewPairs(ps) == IF ps = <<>> THEN <<>> ELSE <<[key |-> ps[1].key, v |-> View(ps[1].v)]>> \o ViewPairs(Tail(ps))

(* Deep nesting (never expanded into tokens): n levels of `kind` around a leaf, each level one   *)
(* member with the empty key.  lal must answer with an error once n exceeds DepthLimit and with  *)
(* the value otherwise; it must never recurse deeper than DepthLimit.                            *)
DeepOk(n) == n <= DepthLimit

(* @setDataFrame handling on token sequences.                                                    *)
SdfS == [n |-> 13, id |-> 0, s |-> "@setDataFrame"]
IsSdf(toks) == Len(toks) >= 3 /\ toks[1] = M(2) /\ toks[2] = U16(13) /\ toks[3] = Raw(SdfS)
\* the prefix may also arrive in long-string form (marker 12, 32-bit length): lal's string reader accepts both
IsSdfL(toks) == Len(toks) >= 3 /\ toks[1] = M(12) /\ toks[2] = U32(13) /\ toks[3] = Raw(SdfS)
EnsureWith(toks) == IF IsSdf(toks) \/ IsSdfL(toks) THEN toks ELSE <<M(2), U16(13), Raw(SdfS)>> \o toks
EnsureWithout(toks) == IF IsSdf(toks) \/ IsSdfL(toks) THEN SubSeq(toks, 4, Len(toks)) ELSE toks
=============================================================================

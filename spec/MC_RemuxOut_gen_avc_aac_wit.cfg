SPECIFICATION Spec
CONSTANTS
  VCodec = "avc"
  ACodec = "aac"
  MaxPub = 5
  MaxVer = 2
  VKinds <- AvcMin
  DtPool <- Dt2
  AscPool = {1, 2, 3}
  ProbeMax = 16
  GopNum = 1
  TJoin = TRUE
  RJoin = FALSE
  RMut = "none"
INVARIANTS WitnessV
VIEW View

---------------------------- MODULE MC_RtmpChunk ----------------------------
EXTENDS RtmpChunk

\* ---- production constants (LimbB = 65536) with boundary pools
P_ExtMark == <<255, 65535>>
P_TsPoolA == { <<0,0>>, <<0,1>>, <<255,65534>>, <<255,65535>>, <<256,0>>, <<65535,65535>> }
P_TsPoolB == { <<0,0>>, <<0,40>>, <<255,65535>>, <<256,1>>, <<32768,0>>, <<65535,65500>> }
\* equal steps: a message that starts with a fmt 3 chunk repeats the delta of a fmt 1 / fmt 2 message before it (t, t+d, t+2d)
\* and, after a fmt 0 message, its timestamp (t, 2t)
P_TsPoolF == { <<0,0>>, <<0,40>>, <<0,80>>, <<0,120>>, <<0,160>> }
P_TsPoolC == { <<0,0>>, <<255,65535>>, <<256,1>>, <<65535,65500>> }
\* sid: the stream id written in the sub-message header (0: the aggregate's own).  RTMP 1.0
\* 6.1.1: the stream id of the aggregate overrides those of its sub-messages.
P_Agg1 == { << [type |-> 8, len |-> 3, dts |-> 0, sid |-> 0], [type |-> 9, len |-> 0, dts |-> 23, sid |-> 0] >>,
            << [type |-> 9, len |-> 5, dts |-> 0, sid |-> 0] >>,
            << [type |-> 9, len |-> 2, dts |-> 0, sid |-> 7], [type |-> 8, len |-> 1, dts |-> 5, sid |-> 0] >> }
NoAgg == {}

\* ---- scaled constants (LimbB = 4: timestamps 0..15, ExtMark = 7): whole ranges
S_ExtMark == <<1, 3>>
S_TsAll == U32Set
=============================================================================

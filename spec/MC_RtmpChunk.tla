---------------------------- MODULE MC_RtmpChunk ----------------------------
EXTENDS RtmpChunk

\* ---- production constants (LimbB = 65536) with boundary pools
P_ExtMark == <<255, 65535>>
P_TsPoolA == { <<0,0>>, <<0,1>>, <<255,65534>>, <<255,65535>>, <<256,0>>, <<65535,65535>> }
P_TsPoolB == { <<0,0>>, <<0,40>>, <<255,65535>>, <<256,1>>, <<32768,0>>, <<65535,65500>> }
P_TsPoolC == { <<0,0>>, <<255,65535>>, <<256,1>>, <<65535,65500>> }
P_Agg1 == { << [type |-> 8, len |-> 3, dts |-> 0], [type |-> 9, len |-> 0, dts |-> 23] >>,
            << [type |-> 9, len |-> 5, dts |-> 0] >> }
NoAgg == {}

\* ---- scaled constants (LimbB = 4: timestamps 0..15, ExtMark = 7): whole ranges
S_ExtMark == <<1, 3>>
S_TsAll == U32Set
=============================================================================

SPECIFICATION Spec
CONSTANTS
  Surf = "rtsp"
  Depth = 4
  Level = 2
INVARIANTS Total ClosedIsFinal Bounded
ACTION_CONSTRAINT EmitS
VIEW View

SPECIFICATION Spec
CONSTANTS
  CfgPool <- DecideCfgs
  AvPool = {TRUE}
  Kinds = {"Kb", "I"}
  Classes = {"tiny", "b1", "eq", "a1", "j0", "jump", "back0", "back", "backs"}
  MaxFrames = 4
  MaxEpoch = 1
  TargetLal = FALSE
INVARIANTS PlaylistWellFormed SeqMonotone TargetCovers ListedExist ListedWhole RecentStillPresent NoLossNoDup Finalised
ACTION_CONSTRAINT EmitS

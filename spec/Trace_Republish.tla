---------------------------- MODULE Trace_Republish ----------------------------
(* Trace validation for the start-clean clause of C16 on the TS / HLS / RTSP side: successive RTMP  *)
(* publishers of one name on one real logic.Group (driver remuxout with PubLeave / PubArrive steps); *)
(* what the HTTP-TS subscribers (staying across the republish, joining in the new epoch or between   *)
(* two), the HLS segments listed for the epoch and the RTSP subscriber of the epoch received,        *)
(* demultiplexed by the independent readers of harness/proj, is decided by the acceptor of RemuxOut  *)
(* for a FRESH stream (history, cursors, time bases reset at PubArrive) plus the epoch rules of      *)
(* Republish (EpSdpOk, StartsInTime for everyone attached when the epoch begins, JoinStartsInTime,   *)
(* KeyCuts, SdpArrives).                                                                            *)
EXTENDS Republish, IOUtils

Trace == ndJsonDeserialize(IOEnv.TRACE)
VARIABLES l, failed, fragMs
tvars == <<evars, l, failed, fragMs>>

TraceInit == /\ l = 1 /\ failed = FALSE /\ TLCSet(1, 1) /\ fragMs = 0
             /\ vc = "none" /\ ac = "none" /\ hist = HistInit /\ cons = [c \in TsAll |-> ConsInit]
             /\ rtp = [c \in RtpCons |-> RtpInit] /\ rm = RmInit /\ ep = EpInit /\ act = [name |-> "init"]
IsEvent(e) == l <= Len(Trace) /\ Trace[l].ev = e /\ l' = l + 1
Reject(why) == /\ failed' = TRUE
               /\ IF failed THEN TRUE ELSE PrintT("@REJ@" \o ToString(l)) /\ PrintT("@WHY@" \o ToString(l) \o "@" \o ToString(why))
               /\ UNCHANGED <<vc, ac, hist, cons, rtp, rm, ep, act, fragMs>>

TraceReset ==
  /\ IsEvent("reset")
  /\ vc' = Trace[l].v /\ ac' = Trace[l].a /\ hist' = HistInit /\ cons' = [c \in TsAll |-> ConsInit]
  /\ rtp' = [c \in RtpCons |-> RtpInit] /\ ep' = EpInit /\ fragMs' = Trace[l].fragMs
  /\ failed' = FALSE /\ UNCHANGED <<rm, act>>

TraceJoin ==
  /\ IsEvent("Join")
  /\ IF ~failed /\ Trace[l].c \in {"t1", "t2", "rg", "rh"}
     THEN /\ ep' = IF Trace[l].c = "rh" THEN ep ELSE EpJoin(ep, hist, Trace[l].c)
          /\ failed' = FALSE /\ UNCHANGED <<vc, ac, hist, cons, rtp, rm, act, fragMs>>
     ELSE Reject({"join"})
\* SETUP / PLAY of the second RTSP subscriber (what it is handed is reported with the messages)
TracePlay == /\ IsEvent("Play") /\ ep' = [ep EXCEPT !.played = TRUE, !.lateplay = @ \/ (ep.stay /\ ~ep.played)]
             /\ UNCHANGED <<vc, ac, hist, cons, rtp, rm, act, fragMs, failed>>

ConsAfter(h, o) == [c \in TsAll |-> IF c \in DOMAIN o THEN AcceptOut(h, cons[c], o[c]) ELSE cons[c]]
RgAfter(h, e, o) == IF o.panic = "" THEN AcceptRtp(h, EpSdps(h, e, rtp["rg"], o.sdp, 1), o.frames, 1)
                    ELSE [rtp["rg"] EXCEPT !.ok = FALSE]
\* rh: judged like rg in the epoch it joins in; once it has stayed across a republish only AcceptStay applies
RhAfter(h, e, x) == IF "rh" \notin DOMAIN x THEN rtp["rh"]
                    ELSE LET o == x["rh"] IN
                         IF o.panic # "" THEN [rtp["rh"] EXCEPT !.ok = FALSE]
                         ELSE IF e.stay THEN (IF o.sdp # <<>> \/ (e.lateplay /\ ~LatePlayStart(h, rtp["rh"], o.frames)) THEN [rtp["rh"] EXCEPT !.ok = FALSE]
                                              ELSE AcceptStay(h, rtp["rh"], o.frames, 1))
                         ELSE AcceptRtp(h, EpSdps(h, e, rtp["rh"], o.sdp, 1), o.frames, 1)

TracePub ==
  /\ IsEvent("Pub")
  /\ LET e == Trace[l]
         h2 == HistStep(hist, e.m, e.ts)
         e2 == EpPub(ep, e.m)
         c2 == ConsAfter(h2, e.out)
         r2 == RgAfter(h2, e2, e.rtp.rg)
         r3 == RhAfter(h2, e2, e.rtp)
     IN IF /\ ~failed /\ ep.live /\ e.panic = ""
           /\ IsT3(e.ts)
           /\ \A c \in TsAll : c2[c].ok
           /\ r2.ok /\ r3.ok
        THEN /\ hist' = h2 /\ cons' = c2 /\ rtp' = [rtp EXCEPT !["rg"] = r2, !["rh"] = r3] /\ ep' = e2 /\ failed' = FALSE
             /\ UNCHANGED <<vc, ac, rm, act, fragMs>>
        ELSE Reject({c \in TsAll : ~c2[c].ok} \cup (IF r2.ok THEN {} ELSE {"rg"}) \cup (IF e.panic = "" THEN {} ELSE {"panic"})
                    \cup (IF r3.ok THEN {} ELSE {IF ep.stay THEN "stay:rh" ELSE "rh"})
                    \cup (IF ep.live THEN {} ELSE {"no_publisher"}))

\* the publisher leaves: what is flushed still belongs to its stream; the HLS segments listed for this epoch are its
\* stream from the first boundary on; then the end-of-stream rules
TracePubLeave ==
  /\ IsEvent("PubLeave")
  /\ LET e == Trace[l]
         c1 == ConsAfter(hist, e.out)
         c2 == [c1 EXCEPT !["hls"] = AcceptOut(hist, c1["hls"], e.hls)]
         r2 == RgAfter(hist, ep, e.rtp.rg)
         r3 == RhAfter(hist, ep, e.rtp)
         late == {c \in TsAll : ep.since[c] > 0}
         early == {c \in TsAll : ep.since[c] = 0 /\ (c = "hls" => e.hls.on)}
         bad == {c \in TsAll : ~c2[c].ok}
                \cup {"end:" \o c : c \in {x \in TsAll : c2[x].ok /\ ~EndOk(hist, c2[x])}}
                \cup {"start:" \o c : c \in {x \in early : c2[x].ok /\ ~StartsInTime(hist, c2[x])}}
                \cup {"joinstart:" \o c : c \in {x \in late : c2[x].ok /\ ~JoinStartsInTime(hist, c2[x], ep.since[x])}}
                \cup (IF e.hls.on /\ c2["hls"].ok /\ ~KeyCuts(hist, e.hls, fragMs) THEN {"keycuts:hls"} ELSE {})
                \cup (IF r2.ok THEN {} ELSE {"rg"})
                \cup (IF r3.ok THEN {} ELSE {IF ep.stay THEN "stay:rh" ELSE "rh"})
                \cup (IF r3.ok /\ ~(IF ep.stay THEN StayEndOk(hist, r3) ELSE RtpEndOk(hist, r3)) THEN {IF ep.stay THEN "stayend:rh" ELSE "end:rh"} ELSE {})
                \cup (IF r2.ok /\ ~RtpEndOk(hist, r2) THEN {"end:rg"} ELSE {})
                \cup (IF r2.ok /\ ~SdpArrives(hist, ep, r2) THEN {"nosdp:rg"} ELSE {})
                \cup (IF e.panic = "" THEN {} ELSE {"panic"})
                \cup (IF ep.live THEN {} ELSE {"no_publisher"})
     IN IF ~failed /\ bad = {}
        THEN /\ cons' = c2 /\ rtp' = [rtp EXCEPT !["rg"] = r2, !["rh"] = r3] /\ ep' = EpLeave(ep) /\ failed' = FALSE
             /\ UNCHANGED <<vc, ac, hist, rm, act, fragMs>>
        ELSE Reject(bad)

\* the next publisher: a fresh stream for everybody
TracePubArrive ==
  /\ IsEvent("PubArrive")
  /\ LET e == Trace[l]
     IN IF ~failed /\ ~ep.live /\ e.err = ""
        THEN /\ vc' = e.v /\ ac' = e.a /\ hist' = HistInit /\ cons' = [c \in TsAll |-> ConsInit]
             /\ rtp' = [c \in RtpCons |-> RtpInit] /\ ep' = [EpArrive(ep) EXCEPT !.stay = ep.stay \/ rtp["rh"].sdp] /\ failed' = FALSE
             /\ UNCHANGED <<rm, act, fragMs>>
        ELSE Reject({"arrive"})

TraceNext == TraceReset \/ TraceJoin \/ TracePlay \/ TracePub \/ TracePubLeave \/ TracePubArrive
TraceSpec == TraceInit /\ [][TraceNext]_tvars
HighWater == TLCSet(1, IF l > TLCGet(1) THEN l ELSE TLCGet(1))
Accept == PrintT("@HW@" \o ToString(TLCGet(1)))
=============================================================================

SPECIFICATION Spec
CONSTANTS
  CfgPool <- RestartCfgs
  AvPool = {TRUE, FALSE}
  Kinds = {"Kb", "I"}
  Classes = {"eq", "jump"}
  MaxFrames = 7
  MaxEpoch = 3
  TargetLal = FALSE
INVARIANTS PlaylistWellFormed SeqMonotone TargetCovers ListedExist ListedWhole RecentStillPresent NoLossNoDup Finalised
ACTION_CONSTRAINT EmitS

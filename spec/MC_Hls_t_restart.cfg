SPECIFICATION Spec
CONSTANTS
  CfgPool <- RestartCfgs
  AvPool = {TRUE, FALSE}
  Kinds = {"Kb"}
  Classes = {"eq", "jump"}
  MaxFrames = 7
  MaxEpoch = 2
  TargetLal = FALSE
INVARIANTS PlaylistWellFormed SeqMonotone TargetCovers ListedExist ListedWhole RecentStillPresent NoLossNoDup Finalised
ACTION_CONSTRAINT EmitS

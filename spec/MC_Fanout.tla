---------------------------- MODULE MC_Fanout ----------------------------
EXTENDS Fanout
AllTypes == {"meta", "vsh", "ash", "key", "inter", "aud", "empty"}
NoEmpty == {"meta", "vsh", "ash", "key", "inter", "aud"}
Core == {"vsh", "key", "inter", "aud"}
VidOnly == {"vsh", "key", "inter"}
=============================================================================

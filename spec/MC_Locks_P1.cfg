SPECIFICATION Spec
CONSTANTS
  Objs <- Objs2
  MaxShutdown = 1
  QMax = 2
  Procs <- P1
INVARIANTS NoWaitCycle NoSelfLock NoBlockedSend NoBlockedSendUnderLock SendsDeclared TaskChanFree OrderOk Balanced

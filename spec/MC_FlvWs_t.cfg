SPECIFICATION Spec
CONSTANTS
  LimbB = 65536
  Modes = {"flv", "ws", "file"}
  TypePool = {8, 9, 18}
  LenPool <- T_Len
  TsPool <- T_Ts
  MaxTags = 3
INVARIANTS FieldsOK
VIEW View
ACTION_CONSTRAINT Emit

------------------------------- MODULE Payloads -------------------------------
(* C05 -- no published media payload can terminate or stall the server.                          *)
(*                                                                                                *)
(* The grammar of what an accepted publisher can put into a well-framed audio / video / metadata  *)
(* message, and the small machine of what the stream has seen so far, because which code of lal a *)
(* payload reaches depends on that history (sequence headers cached by the remuxers, codecs known *)
(* to the analysis stages, consumers waiting for a key frame, dummy-audio stage, timestamp half). *)
(*                                                                                                *)
(* A letter is a record                                                                           *)
(*   [name, t \in {"v","a","m"}, n = payload length, b0, b1 = first bytes (-1 if absent),          *)
(*    hv = bytes 1..4 are "hvc1", sh = kind of complete valid sequence header ("" if none),        *)
(*    loose = forwarded form is empty (delivery not predicted), tsx = sent with every ts class]    *)
(* The bytes behind a name are built by the driver (harness/drv/payloads.go), which refuses to run *)
(* when they do not have these attributes.  A timestamp class is one of                            *)
(*   "z" (back to 0)  "p1" (+1)  "p40" (+40)  "hop" (+1 h)  "jump" (+2^31)  "max" (2^32-1)             *)
(*   "dec" (-20, wraps).                                                                           *)
(*                                                                                                *)
(* For every (history, letter) the specification says what each output that forwards messages     *)
(* opaquely (stream hook, FLV recording, RTMP and HTTP-FLV consumers) does with the message:       *)
(* "forwarded" (byte-identical), "dropped", "gated" (consumer still waits for a key frame) or       *)
(* "absent" (consumer not there); the outcome is never a crash or a stall, whatever the letter.    *)
(* Remuxing outputs (TS, HLS, RTSP, TS recording) may drop or forward: only liveness is required.  *)
EXTENDS Integers, Sequences, TLC, Json

TsOps == {"z", "p1", "p40", "hop", "jump", "max", "dec"}

---------------------------------------------------------------------------
(* How lal classifies a message (pkg/base/t_rtmp.go): only the length and the first bytes matter.  *)
(* A payload too short to carry the bytes a test looks at is "not that kind of message".           *)
Ex(m)      == m.t = "v" /\ m.n >= 1 /\ m.b0 >= 128                       \* enhanced-RTMP video header
AvcKsh(m)  == m.t = "v" /\ m.n >= 2 /\ m.b0 = 23 /\ m.b1 = 0               \* 17 00
HevcKsh(m) == m.t = "v" /\ IF Ex(m) THEN m.n >= 5 /\ m.hv /\ (m.b0 % 16) = 0
                                    ELSE m.n >= 2 /\ m.b0 = 28 /\ m.b1 = 0 \* 1c 00
Ksh(m)     == AvcKsh(m) \/ HevcKsh(m)
AvcKey(m)  == m.t = "v" /\ m.n >= 2 /\ m.b0 = 23 /\ m.b1 = 1               \* 17 01
HevcKey(m) == m.t = "v" /\ IF Ex(m) THEN ((m.b0 \div 16) % 8) = 1 /\ (m.b0 % 16) # 0
                                    ELSE m.n >= 2 /\ m.b0 = 28 /\ m.b1 = 1 \* 1c 01
Key(m)     == AvcKey(m) \/ HevcKey(m)
AacSh(m)   == m.t = "a" /\ m.n >= 2 /\ (m.b0 \div 16) = 10 /\ m.b1 = 0

---------------------------------------------------------------------------
(* History.  cfg.predict: all outputs, no dummy audio, no GOP cache -- deliveries are predicted.    *)
(*   vc    stat.VideoCodec is set (a message that looks like a video sequence header was seen)      *)
(*   late  the consumers that join in mid-stream: "no" | "wait" (for a key frame) | "flow"          *)
(*   vk/ak what the remuxers could cache: none | avc | hevc | ehevc | bad ;  none | aac | other | bad *)
(*   hi    the timestamp is in the upper half of the 32-bit range                                    *)
(*   ds    dummy-audio filter stage: off | ana | ana1 (first video seen) | normal | dummy            *)
InitH(c) == [cfg |-> c, vc |-> FALSE, late |-> "no", vk |-> "none", ak |-> "none", hi |-> FALSE,
             ds |-> IF c.dummy THEN "ana" ELSE "off"]

NextDs(h, m, op) ==
  CASE h.ds = "ana"  -> IF m.t = "a" THEN "normal" ELSE IF m.t = "v" /\ ~Ksh(m) THEN "ana1" ELSE "ana"
    [] h.ds = "ana1" -> IF m.t = "a" THEN "normal"
                        ELSE IF m.t = "v" /\ ~Ksh(m) /\ op \in {"p40", "hop", "jump", "max", "dec"} THEN "dummy" ELSE "ana1"
    [] OTHER -> h.ds

NextHi(h, op) == CASE op = "z" -> FALSE [] op = "max" -> TRUE [] op = "jump" -> ~h.hi [] OTHER -> h.hi

Step(h, m, op) ==
  LET live == m.n > 0 IN
  IF h.cfg.predict
  THEN [h EXCEPT !.vc = h.vc \/ (live /\ Ksh(m)),
                 !.late = IF h.late = "wait" /\ live /\ Key(m) THEN "flow" ELSE h.late,
                 !.vk = IF live /\ Ksh(m) THEN (IF m.sh # "" THEN m.sh ELSE "bad") ELSE h.vk,
                 !.ak = IF m.t = "a" /\ live
                          THEN (IF AacSh(m) THEN (IF m.sh = "aac" THEN "aac" ELSE "bad")
                                ELSE IF (m.b0 \div 16) = 10 THEN h.ak ELSE "other")
                          ELSE h.ak,
                 !.hi = NextHi(h, op)]
  ELSE [h EXCEPT !.vk = IF live /\ m.t = "v" THEN "some" ELSE h.vk,
                 !.hi = NextHi(h, op),
                 !.ds = NextDs(h, m, op)]

JoinStep(h) == [h EXCEPT !.late = IF h.cfg.predict /\ h.vc THEN "wait" ELSE "flow"]

(* What the opaque outputs do with message m in history h.                                          *)
Outcome(h, m) ==
  LET live == m.n > 0
      h2 == Step(h, m, "p40")
      opaque == IF live THEN "forwarded" ELSE "dropped"
      late == IF h.late = "no" THEN "absent"
              ELSE IF ~live THEN "dropped"
              ELSE IF h2.late = "flow" THEN "forwarded" ELSE "gated"
  IN [hook |-> opaque, rec |-> opaque, early |-> opaque, late |-> late]

Outcomes == {"forwarded", "dropped", "gated", "absent"}     \* never "crash", never "stall"

(* Upper bound on the messages one published message may turn into (dummy-audio filler, flush of    *)
(* the analysis queue): linear in the number of messages published so far, never in the timestamp. *)
Burst(np) == 4 * np + 4
=============================================================================

------------------------------- MODULE Payloads -------------------------------
(* C05 -- no published media payload can terminate or stall the server.                          *)
(*                                                                                                *)
(* The grammar of what an accepted publisher can put into a well-framed audio / video / metadata  *)
(* message, and the small machine of what the stream has seen so far, because which code of lal a *)
(* payload reaches depends on that history (sequence headers cached by the remuxers, codecs known *)
(* to the analysis stages, consumers waiting for a key frame, dummy-audio stage, timestamp half). *)
(*                                                                                                *)
(* A letter is a record                                                                           *)
(*   [name, t \in {"v","a","m"}, n = payload length, b0, b1 = first bytes (-1 if absent),          *)
(*    hv = bytes 1..4 are "hvc1", sh = kind of complete valid sequence header ("" if none),        *)
(*    loose = forwarded form is empty (delivery not predicted), tsx = sent with every ts class,   *)
(*    mac = audio codec named by a metadata message, which lal's RTSP remuxer takes over ("" | "pt"),*)
(*    lax = not a complete valid header, yet lal's structural parsers take parameter sets / an audio *)
(*    config out of it]                                                                            *)
(* The bytes behind a name are built by the driver (harness/drv/payloads.go), which refuses to run *)
(* when they do not have these attributes.  A timestamp class is one of                            *)
(*   "z" (back to 0)  "p1" (+1)  "p40" (+40)  "hop" (+1 h)  "jump" (+2^31)  "max" (2^32-1)             *)
(*   "dec" (-20, wraps).                                                                           *)
(*                                                                                                *)
(* For every (history, letter) the specification says what each output that forwards messages     *)
(* opaquely (stream hook, FLV recording, RTMP and HTTP-FLV consumers) does with the message:       *)
(* "forwarded" (byte-identical), "dropped", "gated" (consumer still waits for a key frame) or       *)
(* "absent" (consumer not there); the outcome is never a crash or a stall, whatever the letter.    *)
(* Remuxing outputs (TS, HLS, RTSP, TS recording) may drop or forward: only liveness is required.  *)
EXTENDS Integers, Sequences, TLC, Json

TsOps == {"z", "p1", "p40", "hop", "jump", "max", "dec"}
\* "near" (2^32 - 448: a publisher whose timestamps are about to wrap) only occurs in directed scenarios
AllTsOps == TsOps \cup {"near"}

---------------------------------------------------------------------------
(* How lal classifies a message (pkg/base/t_rtmp.go): only the length and the first bytes matter.  *)
(* A payload too short to carry the bytes a test looks at is "not that kind of message".           *)
Ex(m)      == m.t = "v" /\ m.n >= 1 /\ m.b0 >= 128                       \* enhanced-RTMP video header
AvcKsh(m)  == m.t = "v" /\ m.n >= 2 /\ m.b0 = 23 /\ m.b1 = 0               \* 17 00
HevcKsh(m) == m.t = "v" /\ IF Ex(m) THEN m.n >= 5 /\ m.hv /\ (m.b0 % 16) = 0
                                    ELSE m.n >= 2 /\ m.b0 = 28 /\ m.b1 = 0 \* 1c 00
Ksh(m)     == AvcKsh(m) \/ HevcKsh(m)
AvcKey(m)  == m.t = "v" /\ m.n >= 2 /\ m.b0 = 23 /\ m.b1 = 1               \* 17 01
HevcKey(m) == m.t = "v" /\ IF Ex(m) THEN ((m.b0 \div 16) % 8) = 1 /\ (m.b0 % 16) # 0
                                    ELSE m.n >= 2 /\ m.b0 = 28 /\ m.b1 = 1 \* 1c 01
Key(m)     == AvcKey(m) \/ HevcKey(m)
AacSh(m)   == m.t = "a" /\ m.n >= 2 /\ (m.b0 \div 16) = 10 /\ m.b1 = 0

---------------------------------------------------------------------------
(* History.  cfg.predict: all outputs, no dummy audio, no GOP cache -- deliveries are predicted.    *)
(*   vc    stat.VideoCodec is set (a message that looks like a video sequence header was seen)      *)
(*   late  the consumers that join in mid-stream: "no" | "wait" (for a key frame) | "flow"          *)
(*   vk/ak what the remuxers could cache: none | avc | hevc | ehevc | bad ;  none | aac | other | bad *)
(*   hi    the timestamp is in the upper half of the 32-bit range                                    *)
(*   ds    dummy-audio filter stage: off | ana | ana1 (first video seen) | normal | dummy            *)
(* Stages that end BY COUNT.  lal's remuxers look at the first messages of a stream and leave that   *)
(* stage when they have identified both tracks or after 16 messages, whatever they found:            *)
(*   remux.rtmp2MpegtsFilter   probes every non-empty message (metadata included) until it has seen  *)
(*                             an audio and a video message, or 16 messages: then PAT/PMT go out for  *)
(*                             the codec ids it knows (possibly none) and the queue is flushed;       *)
(*   remux.Rtmp2RtspRemuxer    caches audio (> 2 bytes) / video (> 5 bytes) messages that are not     *)
(*                             sequence headers until parameter sets AND an audio codec are known, or *)
(*                             16 messages are cached: then the session description goes out with the *)
(*                             tracks identified so far (possibly none), parked DESCRIBEs are         *)
(*                             answered and the cache is flushed.  G.711 / Opus audio (or metadata    *)
(*                             naming them) identifies the audio track at any time, also afterwards.  *)
(* A history that went through a staging macro (stg = "s", see StageStep) carries the exact state of  *)
(* both:                                                                                             *)
(*   tp/tn/tv/ta  TS probe: "probe" | "id" (both seen) | "cnt" (16 messages); messages queued;        *)
(*                class of the codec id of the last video / audio message seen while probing          *)
(*   rp/rn/rv/ra  RTSP analysis: "ana" | "id" | "cnt"; messages cached; parameter sets known; audio   *)
(*                codec known                                                                         *)
(* stg = "" for the histories reached by single letters only (the stages are not tracked there: they  *)
(* end by identification in most of them), "end" for the sink behind a staged history.               *)
NoStage == [stg |-> "", tp |-> "probe", tn |-> 0, tv |-> "none", ta |-> "none",
            rp |-> "ana", rn |-> 0, rv |-> FALSE, ra |-> FALSE]
InitH(c) == [cfg |-> c, vc |-> FALSE, late |-> "no", vk |-> "none", ak |-> "none", hi |-> FALSE,
             ds |-> IF c.dummy THEN "ana" ELSE "off"] @@ NoStage

StageLimit == 16       \* maxAnalyzeAvMsgSize = calcFragmentHeaderQueueSize = 16

NextDs(h, m, op) ==
  CASE h.ds = "ana"  -> IF m.t = "a" THEN "normal" ELSE IF m.t = "v" /\ ~Ksh(m) THEN "ana1" ELSE "ana"
    [] h.ds = "ana1" -> IF m.t = "a" THEN "normal"
                        ELSE IF m.t = "v" /\ ~Ksh(m) /\ op \in {"p40", "hop", "jump", "max", "dec", "near"} THEN "dummy" ELSE "ana1"
    [] OTHER -> h.ds

NextHi(h, op) == CASE op = "z" -> FALSE [] op \in {"max", "near"} -> TRUE [] op = "jump" -> ~h.hi [] OTHER -> h.hi

\* codec id classes as mpegts.PackPmt distinguishes them
VidClass(m) == IF Ex(m) THEN (IF m.n >= 5 /\ m.hv THEN "hevc" ELSE "avc")
               ELSE IF (m.b0 % 16) = 7 THEN "avc" ELSE IF (m.b0 % 16) = 12 THEN "hevc" ELSE "other"
AudClass(m) == IF (m.b0 \div 16) = 10 THEN "aac" ELSE IF (m.b0 \div 16) = 13 THEN "opus" ELSE "other"
PcmOpus(m)  == m.t = "a" /\ m.n > 2 /\ (m.b0 \div 16) \in {7, 8, 13}
Cacheable(m) == \/ m.t = "a" /\ m.n > 2 /\ ~AacSh(m)
                \/ m.t = "v" /\ m.n > 5 /\ ~Ksh(m)

\* rtmp2MpegtsFilter.Push
TsProbe(h, m) ==
  IF h.tp # "probe" \/ m.n = 0 THEN h
  ELSE LET tv1 == IF m.t = "v" THEN VidClass(m) ELSE h.tv
           ta1 == IF m.t = "a" THEN AudClass(m) ELSE h.ta
           n1  == h.tn + 1
           tp1 == IF tv1 # "none" /\ ta1 # "none" THEN "id" ELSE IF n1 >= StageLimit THEN "cnt" ELSE "probe"
       IN [h EXCEPT !.tv = tv1, !.ta = ta1, !.tp = tp1, !.tn = IF tp1 = "probe" THEN n1 ELSE 0]

\* Rtmp2RtspRemuxer.FeedRtmpMsg
RtspAna(h, m) ==
  IF m.n = 0 THEN h
  ELSE IF m.t = "m" THEN [h EXCEPT !.ra = h.ra \/ m.mac # ""]
  ELSE IF (m.t = "a" /\ m.n <= 2) \/ (m.t = "v" /\ m.n <= 5) THEN h
  ELSE LET ra1 == h.ra \/ PcmOpus(m) \/ (h.rp = "ana" /\ AacSh(m) /\ (m.sh = "aac" \/ m.lax))
       IN IF h.rp # "ana" THEN [h EXCEPT !.ra = ra1]
          ELSE LET rv1 == IF Ksh(m) THEN (m.sh # "" \/ m.lax) ELSE h.rv
                   n1  == IF Cacheable(m) THEN h.rn + 1 ELSE h.rn
                   rp1 == IF rv1 /\ ra1 THEN "id" ELSE IF n1 >= StageLimit THEN "cnt" ELSE "ana"
               IN [h EXCEPT !.ra = ra1, !.rv = rv1, !.rp = rp1, !.rn = IF rp1 = "ana" THEN n1 ELSE 0]

Detailed(h) == h.cfg.predict \/ h.stg = "s"

Step(h, m, op) ==
  LET live == m.n > 0
      b == IF Detailed(h)
           THEN [h EXCEPT !.vc = h.vc \/ (live /\ Ksh(m)),
                          !.late = IF h.late = "wait" /\ live /\ Key(m) THEN "flow" ELSE h.late,
                          !.vk = IF live /\ Ksh(m) THEN (IF m.sh # "" THEN m.sh ELSE "bad") ELSE h.vk,
                          !.ak = IF m.t = "a" /\ live
                                   THEN (IF AacSh(m) THEN (IF m.sh = "aac" THEN "aac" ELSE "bad")
                                         ELSE IF (m.b0 \div 16) = 10 THEN h.ak ELSE "other")
                                   ELSE h.ak,
                          !.hi = NextHi(h, op),
                          !.ds = IF h.cfg.dummy THEN NextDs(h, m, op) ELSE h.ds]
           ELSE [h EXCEPT !.vk = IF live /\ m.t = "v" THEN "some" ELSE h.vk,
                          !.hi = NextHi(h, op),
                          !.ds = NextDs(h, m, op)]
  IN IF h.stg = "s" THEN RtspAna(TsProbe(b, m), m) ELSE b

JoinStep(h) == [h EXCEPT !.late = IF h.cfg.predict /\ h.vc THEN "wait" ELSE "flow"]

(* Staging macro: what the first messages of a stream look like when they come in a run.           *)
(*   s = [hdr, m, k, ts, j]: an optional sequence header (hdr.name = "" if none), then k copies of  *)
(*   letter m, each `ts` after the one before; if j > 0 the second set of consumers joins after j of *)
(*   them.  The driver expands it; the model folds Step over it, so the counters are exact.          *)
(* Only a stream that has published nothing yet can be staged.  A staged history takes every letter  *)
(* once more: a letter that leaves it unchanged can be followed by another one, the first one that  *)
(* changes anything ends the scenario (sink), which keeps the staged part of the graph a product    *)
(* (stage state) x (alphabet) instead of a closure under the whole alphabet.                          *)
NoLetter == [name |-> "", t |-> "m", n |-> 0, b0 |-> -1, b1 |-> -1, hv |-> FALSE, sh |-> "", loose |-> FALSE,
             tsx |-> FALSE, mac |-> "", lax |-> FALSE]
Fresh(h) == h = InitH(h.cfg)

RECURSIVE RepStep(_, _, _, _)
RepStep(h, m, op, k) == IF k <= 0 THEN h ELSE RepStep(Step(h, m, op), m, op, k - 1)

\* the history in which the LAST copy of s.m is published
StageBeforeLast(h, s) ==
  LET h0 == [h EXCEPT !.stg = "s"]
      h1 == IF s.hdr.name # "" THEN Step(h0, s.hdr, "p40") ELSE h0
      jj == IF s.j > 0 /\ s.j < s.k THEN s.j ELSE 0
      h2 == IF jj > 0 THEN JoinStep(RepStep(h1, s.m, s.ts, jj)) ELSE h1
  IN RepStep(h2, s.m, s.ts, s.k - jj - 1)
StageStep(h, s) == Step(StageBeforeLast(h, s), s.m, s.ts)
StageCount(s) == s.k + (IF s.hdr.name # "" THEN 1 ELSE 0)

Sink(c) == [InitH(c) EXCEPT !.stg = "end"]
\* the transition of the model for one published letter
MStep(h, m, op) == LET h2 == Step(h, m, op)
                   IN IF h.stg = "s" /\ h2 # h THEN Sink(h.cfg) ELSE h2

(* What the opaque outputs do with message m in history h.                                          *)
Outcome(h, m) ==
  LET live == m.n > 0
      h2 == Step(h, m, "p40")
      opaque == IF live THEN "forwarded" ELSE "dropped"
      late == IF h.late = "no" THEN "absent"
              ELSE IF ~live THEN "dropped"
              ELSE IF h2.late = "flow" THEN "forwarded" ELSE "gated"
  IN [hook |-> opaque, rec |-> opaque, early |-> opaque, late |-> late]

Outcomes == {"forwarded", "dropped", "gated", "absent"}     \* never "crash", never "stall"

(* Upper bound on the messages one published message may turn into (dummy-audio filler, flush of    *)
(* the analysis queue): linear in the number of messages published so far, never in the timestamp. *)
Burst(np) == 4 * np + 4
=============================================================================

------------------------------- MODULE Surfaces -------------------------------
(* C13: no input on lal's network surfaces other than the RTMP server terminates the process.   *)
(* One small protocol machine per surface.  Every action is "the peer sends a syntactically     *)
(* classed element": a record [k, a, b, c, n] (kind, class fields, integer parameter) - or, for  *)
(* the SDP surface, an SDP class record [k = "sdp", shape, v, vr, vf, a, ar, af, ctl] - whose    *)
(* fields come from malformation pools (valid, empty, truncated at offset n, zero, extreme).     *)
(* For every step the specification says what the peer may observe:                              *)
(*   "ok"      answered 200, the session stays (well-formed exchanges must keep working)         *)
(*   "alive"   nothing is answered and the session stays (datagrams never end a session)         *)
(*   "closed"  the session ends (TEARDOWN, end of stream)                                        *)
(*   "any"     answered with an error, ignored, or the session is closed                         *)
(*   "sent"    (lal as client) the upstream sent the element; whatever the session does with it  *)
(*             is fine as long as the process lives                                               *)
(*   "refused" an API call is answered with an error code and the session stays                   *)
(* and in no case allows the process to die or a panic to be recovered by a server loop.  After  *)
(* a scenario a bystander session opened before it still answers and a new well-formed session   *)
(* is served.  The concretisation of classes to bytes is harness/proj/surf.go.                   *)
EXTENDS Integers, Sequences, TLC, Json, FiniteSets

El(k, a, b, c, n) == [k |-> k, a |-> a, b |-> b, c |-> c, n |-> n]

---------------------------------------------------------------------------
(* RTSP command machine (plain and inside WebSocket frames)                                      *)
RtspInit == [ann |-> FALSE, sub |-> "none"]

RtspStep(st, e) ==
  CASE e.k = "ANNOUNCE" -> [st EXCEPT !.ann = TRUE]
    [] e.k = "DESCRIBE" -> [st EXCEPT !.sub = e.a]
    [] e.k = "ws" /\ e.c = "DESCRIBE" /\ e.a \in {"7m", "7u", "16m", "16u", "64m", "64u"} /\ e.b \in {"bin", "text"} /\ e.n = -1
         -> [st EXCEPT !.sub = "live"]
    [] OTHER -> st

RtspExpect(st, e) ==
  CASE e.k = "OPTIONS" /\ st = RtspInit -> "ok"
    [] e.k = "ANNOUNCE" /\ e.a \in {"ok", "hevc"} /\ st = RtspInit -> "ok"
    [] e.k = "TEARDOWN" -> "closed"
    [] e.k = "eof" -> "closed"
    [] OTHER -> "any"

(* WebSocket wrapper: frames are answered, ignored or end the session.                           *)
WsExpect(st, e) == "any"

(* Datagram surfaces: an RTP / RTCP datagram (RTSP publisher) or a PS-in-RTP packet (GB28181)    *)
(* is processed or dropped; the session it was sent to stays.                                   *)
DgramExpect(e) == "alive"

(* GB28181 over TCP - the PubSession that start_rtp_pub with is_tcp_flag = 1 puts behind a listener; a     *)
(* connection carries frames "2-byte length + RTP packet".  Whatever a peer does on connections - any      *)
(* declared length with any amount of data behind it, any payload, any cutting into writes, further        *)
(* connections (the newest replaces the one before), connections that say nothing and close - leaves the   *)
(* session in place.  The API ends it (kick_session: "closed"), refuses a second start for the stream name  *)
(* and a kick with another session id ("refused": answered with an error, the session stays); the tick of  *)
(* the liveness timeout ends it or not - either is fine for this property.                                 *)
PstExpect(e) ==
  CASE e.k = "api" /\ e.a = "kick" -> "closed"
    [] e.k = "api" /\ e.a \in {"start2", "start2_udp", "kick_other"} -> "refused"
    [] e.k = "api" /\ e.a = "tick" -> "any"
    [] OTHER -> "alive"

(* SDP surface: step 1 = ANNOUNCE with the classed SDP, step 2 = the publisher goes on (SETUP,    *)
(* RECORD, media of both tracks).  The well-formed SDP must be accepted.                          *)
GoodSdp == [k |-> "sdp", shape |-> "ok", v |-> "avc", vr |-> "ok", vf |-> "ok", a |-> "aac", ar |-> "ok", af |-> "ok", ctl |-> "ok"]
SdpWellFormed(e) == /\ e.shape \in {"ok", "lf"} /\ e.v \in {"avc", "hevc"} /\ e.vr = "ok" /\ e.vf = "ok"
                    /\ e.a \in {"aac", "pcma", "pcmu", "opus"} /\ e.ar = "ok" /\ e.af = "ok" /\ e.ctl = "ok"
SdpExpect(first, e) ==
  CASE e.k = "sdp" /\ SdpWellFormed(e) -> "ok"
    [] e.k = "media" /\ SdpWellFormed(first) /\ first.shape = "ok" -> "okmedia"
    [] OTHER -> "any"

(* HTTP surfaces (HTTP-API, HTTP-FLV / HTTP-TS optionally upgraded to WebSocket, HLS): a request =   *)
(* kind x path-or-endpoint class a x body-or-query class b x method-or-header class c.  The handler *)
(* answers, closes or keeps that connection; the plain well-formed requests must be served.         *)
HttpExpect(e) ==
  CASE e.k = "api" /\ e.a \in {"stat_lal_info", "stat_all_group"} /\ e.c \in {"GET", "POST"} -> "ok"
    [] e.k \in {"flv", "ts"} /\ e.a = "ok" /\ e.b = "none" /\ e.c = "plain" -> "ok"
    [] e.k \in {"flv", "ts"} /\ e.a = "ok" /\ e.b = "none" /\ e.c = "ws_ok" -> "ws101"
    [] OTHER -> "any"

(* lal as client: the element sequence is what the upstream sends.  Valid(proto) is the exchange    *)
(* that must succeed (the session call returns without error) whenever it is a prefix of the script. *)
R(a) == El("rtmp", a, "-", "-", -1)
Q(a) == El("rtsp", a, "-", "-", -1)
F(k, a, n) == El(k, a, "-", "-", n)
Valid(proto) ==
  CASE proto = "rtmp_pull" -> <<R("hs_ok"), R("connect_ok"), R("create_ok"), R("play_ok")>>
    [] proto = "rtmp_push" -> <<R("hs_ok"), R("connect_ok"), R("create_ok"), R("publish_ok")>>
    [] proto = "rtsp_tcp" -> <<Q("ok"), Q("ok"), Q("ok"), Q("ok"), Q("ok")>>
    [] proto = "rtsp_udp" -> <<Q("ok_udp"), Q("ok_udp"), Q("ok_udp"), Q("ok_udp"), Q("ok_udp")>>
    [] proto = "flv_pull" -> <<F("st", "ok", -1), F("fh", "ok", -1)>>
IsPrefix(p, s) == Len(p) <= Len(s) /\ SubSeq(s, 1, Len(p)) = p
MustSucceed(surf, cfg, steps) == surf = "client" /\ cfg.sdp = "good" /\ IsPrefix(Valid(cfg.proto), steps)

Expect(surf, st, first, e) ==
  CASE surf = "rtsp" -> RtspExpect(st, e)
    [] surf = "http" -> HttpExpect(e)
    [] surf = "client" -> "sent"
    [] surf = "ws" -> WsExpect(st, e)
    [] surf \in {"rtp", "ps", "psq", "udp"} -> DgramExpect(e)
    [] surf = "sdp" -> SdpExpect(first, e)
    [] surf = "pst" -> PstExpect(e)

Kinds == {"ok", "alive", "closed", "any", "okmedia", "ws101", "sent", "refused"}

(* What the peer may see for an expectation: obs = [codes, alive, panic, note].                  *)
All200(codes) == \A i \in 1..Len(codes) : codes[i] = 200
Allowed(x, obs) ==
  /\ ~obs.panic
  /\ obs.note = ""
  /\ CASE x = "ok" -> obs.alive /\ obs.codes = <<200>>
       [] x = "okmedia" -> obs.alive /\ obs.codes = <<200, 200, 200>>
       [] x = "alive" -> obs.alive /\ obs.codes = <<>>
       [] x = "closed" -> ~obs.alive /\ Len(obs.codes) <= 3 /\ All200(obs.codes)   \* late answers to earlier requests may precede the end
       [] x = "any" -> Len(obs.codes) <= 3
       [] x = "ws101" -> obs.alive /\ obs.codes = <<101>>
       [] x = "sent" -> TRUE
       [] x = "refused" -> obs.alive /\ Len(obs.codes) = 1 /\ obs.codes[1] # 200   \* an API error code

(* Outcomes the model explores for an expectation: does the session stay?                        *)
Stays(x) == CASE x \in {"ok", "alive", "okmedia", "ws101", "sent", "refused"} -> {TRUE} [] x = "closed" -> {FALSE} [] OTHER -> {TRUE, FALSE}

(* End of a scenario: the process is alive, no server loop had to recover a panic, only the       *)
(* offending session is gone.                                                                   *)
EndOk(e) == ~e.died /\ ~e.panic /\ e.second /\ e.bystander /\ e.note = "" /\ e.res \in {"ok", "err", "pending", "n/a"}
=============================================================================

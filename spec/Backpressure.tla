---------------------------- MODULE Backpressure ----------------------------
(* C15: a stalled consumer cannot delay others or corrupt its own framing.                         *)
(*                                                                                                 *)
(* Every subscriber connection of lal (naza connection) owns a bounded queue `q` (a Go channel of  *)
(* capacity cap) that a writer goroutine drains: it takes one element (`fl`, the write in flight)  *)
(* and hands it to the socket, where it stays until the consumer has read it; what the consumer    *)
(* has read is `wire`.  The fan-out loop of logic.Group (under Group.mutex) enqueues without ever   *)
(* waiting: an element that finds the queue full is dropped.  Elements are PARTS of protocol units  *)
(* [k, id, len]:                                                                                    *)
(*   http (response header)   msg (RTMP message = chunk group)   tag (FLV tags)   flvh (FLV header) *)
(*   ts (188-byte packet group)   empty (zero-length write)                                         *)
(*   wsf (WebSocket frame header + payload in one element)                                          *)
(*   wsh (WebSocket frame header alone, len = announced payload length; its payload is the next     *)
(*        element).  A unit enqueued as two parts can be cut by a slot that is full in between.     *)
(*                                                                                                 *)
(* Two granularities share the per-connection operators:                                            *)
(*   Fine*  one action per enqueue / writer take / socket write: every interleaving of the fan-out  *)
(*          loop with the writer goroutines; invariants WholeUnits, NoBlocking, liveness            *)
(*          EventuallyClosed.  This is the design-level model (Parts = 1: a unit is one element).   *)
(*   G*     one action per call into lal followed by quiescence of the writer goroutines (Settle):  *)
(*          deterministic, used to generate schedules and, in Trace_Backpressure, to predict what   *)
(*          the real connections show after each call.                                              *)
EXTENDS Integers, Sequences, FiniteSets, TLC, Json

CONSTANTS Cons,       \* consumers with the small queue (capacity N) that may stall
          Healthy,    \* consumers with the production queue size that always read
          N, HCap,
          Parts,      \* model checking only: elements per unit (1 = intended; 2 = header and payload apart)
          WsMode,     \* model checking only: the units are WebSocket frames
          MaxPub, MaxRead, MaxStall, MaxSweep,  \* bounds (MaxSweep = 0: unbounded, not counted)
          MaxLeave    \* how often the publisher may leave (and come back)

All == Cons \cup Healthy

VARIABLES con,     \* per consumer [open, closed, q, fl, wire, base, wr]
          cap,     \* per consumer queue capacity
          ws,      \* the stream is WebSocket framed
          npub,    \* publishes so far
          pend,    \* fine model: enqueues the running fan-out still has to do, << <<c, part>>, ... >>
          cnt,     \* [read, stall, sweep, leave] bounds bookkeeping, live = a publisher is attached
          act      \* last action (emission only)

vars == <<con, cap, ws, npub, pend, cnt, act>>

Min(a, b) == IF a < b THEN a ELSE b
CntInit == [read |-> 0, stall |-> 0, sweep |-> 0, leave |-> 0, live |-> TRUE]
ConsInit == [open |-> TRUE, closed |-> FALSE, q |-> <<>>, fl |-> <<>>, wire |-> <<>>, base |-> FALSE, wr |-> FALSE]

---------------------------------------------------------------------------
(* Framing grammar on sequences of parts.                                                          *)
PayloadKinds == {"tag", "flvh", "ts", "empty"}
SelfKinds(w) == IF w THEN {"http", "wsf"} ELSE {"http", "msg", "tag", "flvh", "ts", "empty"}
\* A "piece" is the i-th of `of` consecutive elements that only together are the unit (uk, id, len).
\* tail: the sequence may end inside a unit (a connection that was cut while the unit was under way).
RECURSIVE WholeT(_, _, _)
WholeT(s, w, tail) ==
  IF s = <<>> THEN TRUE
  ELSE IF s[1].k \in SelfKinds(w) THEN WholeT(Tail(s), w, tail)
  ELSE IF w /\ s[1].k = "wsh"
         THEN IF Len(s) = 1 THEN tail
              ELSE s[2].k \in PayloadKinds /\ s[2].len = s[1].len /\ WholeT(Tail(Tail(s)), w, tail)
  ELSE IF s[1].k = "piece"
         THEN LET n == s[1].of
                  m == Min(n, Len(s))
              IN /\ s[1].uk \in SelfKinds(w) /\ s[1].i = 1
                 /\ \A j \in 1..m : /\ s[j].k = "piece" /\ s[j].i = j /\ s[j].of = n
                                     /\ s[j].id = s[1].id /\ s[j].len = s[1].len
                 /\ IF Len(s) < n THEN tail ELSE WholeT(SubSeq(s, n + 1, Len(s)), w, tail)
  ELSE FALSE
Whole(s, w) == WholeT(s, w, FALSE)
\* a connection that was cut may end inside a unit; one that is still served may not
FramingOk(cs, w) == IF cs.closed THEN WholeT(cs.wire, w, TRUE)
                    ELSE Whole(cs.wire \o cs.fl \o cs.q, w)
HasBytes(s) == \E i \in 1..Len(s) : s[i].k # "empty"
RECURSIVE IsSubSeq(_, _)
IsSubSeq(a, b) == IF a = <<>> THEN TRUE ELSE IF b = <<>> THEN FALSE
                  ELSE IF a[1] = b[1] THEN IsSubSeq(Tail(a), Tail(b)) ELSE IsSubSeq(a, Tail(b))
RECURSIVE IdsOf(_)
IdsOf(s) == IF s = <<>> THEN <<>>     \* the units present completely (a unit in pieces counts with its last piece)
            ELSE (IF s[1].id # 0 /\ (s[1].k # "piece" \/ s[1].i = s[1].of) THEN <<s[1].id>> ELSE <<>>) \o IdsOf(Tail(s))

---------------------------------------------------------------------------
(* Per-connection operators.                                                                        *)
\* the writer goroutine runs until it is parked: idle (queue empty) or inside the socket write
Settle(cs) ==
  IF cs.closed THEN cs
  ELSE IF cs.open THEN [cs EXCEPT !.wire = @ \o cs.fl \o cs.q, !.fl = <<>>, !.q = <<>>,
                                  !.wr = @ \/ HasBytes(cs.fl \o cs.q)]
  ELSE IF cs.fl = <<>> /\ cs.q # <<>> THEN [cs EXCEPT !.fl = <<Head(cs.q)>>, !.q = Tail(cs.q)]
  ELSE cs

\* A burst P of enqueues meets an idle writer and does not fit: which elements are accepted depends on
\* when the writer goroutine wakes up.  For a consumer that is reading the outcome is visible at once
\* (acc); for a stalled one it is hidden in the queue, such steps are not replayed.
EnqRacy(cs, n, P) == ~cs.closed /\ ~cs.open /\ cs.fl = <<>> /\ Len(P) > n
EnqObserved(cs, n, P) == ~cs.closed /\ cs.open /\ Len(P) > n
LegalAcc(acc, P, n) == /\ IsSubSeq(acc, P) /\ Len(acc) >= Min(Len(P), n)
                       /\ (P # <<>> => (acc # <<>> /\ acc[1] = P[1]))
Enq(cs, n, P, acc) ==
  IF cs.closed THEN cs
  ELSE IF cs.open THEN Settle([cs EXCEPT !.q = IF Len(P) <= n THEN P ELSE acc])
  ELSE IF cs.fl = <<>> THEN Settle([cs EXCEPT !.q = P])
  ELSE [cs EXCEPT !.q = @ \o SubSeq(P, 1, Min(Len(P), n - Len(@)))]

ReadOne(cs) == Settle([cs EXCEPT !.wire = @ \o cs.fl, !.fl = <<>>, !.wr = @ \/ HasBytes(cs.fl)])
ResumeC(cs) == Settle([cs EXCEPT !.open = TRUE])
CutC(cs)    == [cs EXCEPT !.closed = TRUE, !.fl = <<>>, !.q = <<>>]
\* Group.disposeInactiveSessions: the first look takes the byte counter as base line; afterwards a
\* session that has not completed a write since the previous look is disposed
SweepC(cs) == IF cs.closed THEN cs
              ELSE IF ~cs.base THEN [cs EXCEPT !.base = TRUE, !.wr = FALSE]
              ELSE IF ~cs.wr THEN CutC(cs)
              ELSE [cs EXCEPT !.wr = FALSE]

---------------------------------------------------------------------------
(* The units of publish number n in the model-checking configurations.                              *)
Part(k, id, len) == [k |-> k, uk |-> k, id |-> id, len |-> len, i |-> 0, of |-> 0]
Burst(n) == IF Parts = 1 THEN <<Part(IF WsMode THEN "wsf" ELSE "msg", n, n)>>
            ELSE <<Part("wsh", 0, n), Part("tag", n, n)>>

Init == /\ con = [c \in All |-> ConsInit]
        /\ cap = [c \in All |-> IF c \in Healthy THEN HCap ELSE N]
        /\ ws = WsMode /\ npub = 0 /\ pend = <<>>
        /\ cnt = CntInit
        /\ act = [name |-> "init"]

SweepOk == MaxSweep = 0 \/ cnt.sweep < MaxSweep
SweepCnt == IF MaxSweep = 0 THEN cnt ELSE [cnt EXCEPT !.sweep = @ + 1]

(* ---- fine-grained model ---- *)
RECURSIVE SetToSeq(_)
SetToSeq(S) == IF S = {} THEN <<>> ELSE LET x == CHOOSE y \in S : TRUE IN <<x>> \o SetToSeq(S \ {x})
RECURSIVE Pairs(_, _)
Pairs(cs, P) == IF cs = <<>> THEN <<>> ELSE [i \in 1..Len(P) |-> <<cs[1], P[i]>>] \o Pairs(Tail(cs), P)

FinePublish == /\ pend = <<>> /\ npub < MaxPub /\ cnt.live
               /\ pend' = Pairs(SetToSeq(All), Burst(npub + 1)) /\ npub' = npub + 1
               /\ act' = [name |-> "Publish"] /\ UNCHANGED <<con, cap, ws, cnt>>
\* one enqueue: never waits for anybody
FanoutWrite == /\ pend # <<>>
               /\ LET c == pend[1][1] p == pend[1][2] cs == con[c]
                  IN con' = [con EXCEPT ![c] = IF cs.closed \/ Len(cs.q) >= cap[c] THEN cs
                                                ELSE [cs EXCEPT !.q = Append(@, p)]]
               /\ pend' = Tail(pend) /\ act' = [name |-> "FanoutWrite"] /\ UNCHANGED <<cap, ws, npub, cnt>>
WriterTake(c) == /\ ~con[c].closed /\ con[c].fl = <<>> /\ con[c].q # <<>>
                 /\ con' = [con EXCEPT ![c].fl = <<Head(con[c].q)>>, ![c].q = Tail(con[c].q)]
                 /\ act' = [name |-> "WriterTake", c |-> c] /\ UNCHANGED <<cap, ws, npub, pend, cnt>>
SocketWrite(c) == /\ ~con[c].closed /\ con[c].fl # <<>> /\ con[c].open
                  /\ con' = [con EXCEPT ![c].wire = @ \o con[c].fl, ![c].fl = <<>>, ![c].wr = @ \/ HasBytes(con[c].fl)]
                  /\ act' = [name |-> "SocketWrite", c |-> c] /\ UNCHANGED <<cap, ws, npub, pend, cnt>>
FineRead(c) == /\ ~con[c].closed /\ con[c].fl # <<>> /\ ~con[c].open /\ cnt.read < MaxRead
               /\ con' = [con EXCEPT ![c].wire = @ \o con[c].fl, ![c].fl = <<>>, ![c].wr = @ \/ HasBytes(con[c].fl)]
               /\ cnt' = [cnt EXCEPT !.read = @ + 1]
               /\ act' = [name |-> "Read", c |-> c] /\ UNCHANGED <<cap, ws, npub, pend>>
Stall(c) == /\ c \in Cons /\ ~con[c].closed /\ con[c].open /\ cnt.stall < MaxStall
            /\ con' = [con EXCEPT ![c].open = FALSE] /\ cnt' = [cnt EXCEPT !.stall = @ + 1]
            /\ act' = [name |-> "Stall", c |-> c] /\ UNCHANGED <<cap, ws, npub, pend>>
FineResume(c) == /\ ~con[c].closed /\ ~con[c].open
                 /\ con' = [con EXCEPT ![c].open = TRUE]
                 /\ act' = [name |-> "Resume", c |-> c] /\ UNCHANGED <<cap, ws, npub, pend, cnt>>
\* the deadline of the write in flight passes
DeadlineFire(c) == /\ ~con[c].closed /\ ~con[c].open /\ con[c].fl # <<>>
                   /\ con' = [con EXCEPT ![c] = CutC(@)]
                   /\ act' = [name |-> "Fire", c |-> c] /\ UNCHANGED <<cap, ws, npub, pend, cnt>>
Sweep == /\ SweepOk /\ pend = <<>>      \* Group.Tick takes Group.mutex
         /\ con' = [c \in All |-> SweepC(con[c])] /\ cnt' = SweepCnt
         /\ act' = [name |-> "Sweep"] /\ UNCHANGED <<cap, ws, npub, pend>>

\* DelRtmpPubSession / AddRtmpPubSession: critical sections under Group.mutex that, like the fan-out, never
\* wait for a consumer (what they hand to the consumers, if anything, is observed in the trace)
PubLeave == /\ cnt.live /\ cnt.leave < MaxLeave /\ pend = <<>>
            /\ cnt' = [cnt EXCEPT !.live = FALSE, !.leave = @ + 1]
            /\ act' = [name |-> "PubLeave"] /\ UNCHANGED <<con, cap, ws, npub, pend>>
PubArrive == /\ ~cnt.live /\ pend = <<>>
             /\ cnt' = [cnt EXCEPT !.live = TRUE]
             /\ act' = [name |-> "PubArrive"] /\ UNCHANGED <<con, cap, ws, npub, pend>>

FineNext == \/ FinePublish \/ FanoutWrite \/ Sweep \/ PubLeave \/ PubArrive
            \/ \E c \in All : WriterTake(c) \/ SocketWrite(c)
            \/ \E c \in Cons : FineRead(c) \/ Stall(c) \/ FineResume(c) \/ DeadlineFire(c)
FineSpec == Init /\ [][FineNext]_vars
\* fairness: the fan-out loop runs on (it never has to wait, NoBlocking), the timer ticks, deadlines pass;
\* nothing is assumed about the consumers or the scheduling of the writer goroutines
FineFair == FineSpec /\ WF_vars(FanoutWrite) /\ WF_vars(Sweep) /\ \A c \in Cons : WF_vars(DeadlineFire(c))

\* whatever a consumer holds, was given or will be given is a concatenation of whole units
WholeUnits == pend = <<>> => \A c \in All : FramingOk(con[c], ws)
\* the fan-out loop can always take its next step, whatever the consumers do
NoBlocking == pend # <<>> => ENABLED FanoutWrite
QueueBound == \A c \in All : Len(con[c].q) <= cap[c] /\ Len(con[c].fl) <= 1
\* a consumer does not stay stalled for ever: its write deadline or the sweep cuts it
EventuallyClosed == \A c \in Cons : <>[](con[c].closed \/ con[c].open)

(* ---- call-level model: one action per call into lal, writers run to quiescence ---- *)
GPublish == /\ npub < MaxPub /\ cnt.live /\ \A h \in Healthy : ~con[h].closed   \* the healthy consumer shows the units
            /\ LET P == Burst(npub + 1) IN
               /\ \A c \in All : ~EnqRacy(con[c], cap[c], P)
               /\ con' = [c \in All |-> Enq(con[c], cap[c], P, P)]
            /\ npub' = npub + 1 /\ act' = [name |-> "Publish"] /\ UNCHANGED <<cap, ws, pend, cnt>>
GRead(c) == /\ ~con[c].closed /\ ~con[c].open /\ con[c].fl # <<>> /\ cnt.read < MaxRead
            /\ con' = [con EXCEPT ![c] = ReadOne(@)] /\ cnt' = [cnt EXCEPT !.read = @ + 1]
            /\ act' = [name |-> "Read", c |-> c] /\ UNCHANGED <<cap, ws, npub, pend>>
GResume(c) == /\ ~con[c].closed /\ ~con[c].open
              /\ con' = [con EXCEPT ![c] = ResumeC(@)]
              /\ act' = [name |-> "Resume", c |-> c] /\ UNCHANGED <<cap, ws, npub, pend, cnt>>
GNext == \/ GPublish \/ Sweep \/ PubLeave \/ PubArrive
         \/ \E c \in Cons : GRead(c) \/ Stall(c) \/ GResume(c) \/ DeadlineFire(c)
GSpec == Init /\ [][GNext]_vars
\* in the call-level model every state is quiescent
Quiescent == \A c \in All : /\ (con[c].open => con[c].fl = <<>> /\ con[c].q = <<>>)
                            /\ (con[c].fl = <<>> => con[c].q = <<>>)

\* what decides which actions are enabled: the schedule graph is built on this abstraction
Abs(cn, np, ct) == [npub |-> np, cnt |-> ct,
                    c |-> [c \in All |-> <<cn[c].open, cn[c].closed, Len(cn[c].q), Len(cn[c].fl), cn[c].base, cn[c].wr>>]]
GView == Abs(con, npub, cnt)
FineView == <<con, cap, ws, npub, pend, cnt>>
Emit == PrintT("@E@" \o ToJson([f |-> Abs(con, npub, cnt), a |-> act', t |-> Abs(con', npub', cnt'), l |-> TLCGet("level")]))
EmitA == PrintT("@A@" \o ToJson([a |-> act, l |-> TLCGet("level")]))
=============================================================================

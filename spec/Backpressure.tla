---------------------------- MODULE Backpressure ----------------------------
(* C15: a stalled consumer cannot delay others or corrupt its own framing.                         *)
(*                                                                                                 *)
(* Every subscriber connection of lal (naza connection) owns a bounded queue `q` (a Go channel of  *)
(* capacity cap) that a writer goroutine drains: it takes one ELEMENT and hands its PARTS (one for  *)
(* Write, one per buffer for Writev) to the socket one after the other; `fl` holds the parts of the *)
(* element in flight that the consumer has not read yet, the first of them is blocked in the socket *)
(* write; what the consumer has read is `wire`.  The fan-out loop of logic.Group (under             *)
(* Group.mutex) enqueues without ever waiting: an element that finds the queue full is dropped.     *)
(* Parts are records [k, uk, id, len, i, of]:                                                       *)
(*   http (response header)   msg (RTMP message = chunk group)   tag (FLV tags)   flvh (FLV header) *)
(*   ts (188-byte packet group)   rtp ('$'-framed interleaved RTP/RTCP packet)   empty (no bytes)   *)
(*   hs (RTMP handshake S0 S1 S2)   rtspr (RTSP response)                                           *)
(*   wsf (WebSocket frame header + payload in one part)                                             *)
(*   wsh (WebSocket frame header alone, len = announced payload length; its payload is the next     *)
(*        part)   piece (i-th of `of` parts that only together are the unit uk/id/len).              *)
(* A unit whose parts are separate ELEMENTS can be cut by a slot that is full in between; the parts  *)
(* of one element are kept or dropped together.                                                     *)
(*                                                                                                 *)
(* Two granularities share the per-connection operators:                                            *)
(*   Fine*  one action per enqueue / writer take / socket write: every interleaving of the fan-out  *)
(*          loop with the writer goroutines; invariants WholeUnits, NoBlocking, liveness            *)
(*          EventuallyClosed.  This is the design-level model (Parts = 1: a unit is one element).   *)
(*   G*     one action per call into lal followed by quiescence of the writer goroutines (Settle):  *)
(*          deterministic, used to generate schedules and, in Trace_Backpressure, to predict what   *)
(*          the real connections show after each call.                                              *)
(* Consumers in Other subscribe to a second stream (another Group of the same ServerManager).       *)
EXTENDS Integers, Sequences, FiniteSets, TLC, Json

CONSTANTS Cons,       \* consumers with the small queue (capacity N) that may stall
          Healthy,    \* consumers of the same stream with the production queue size that always read
          Other,      \* healthy consumers of ANOTHER stream
          N, HCap,
          Parts,      \* model checking only: elements per unit (1 = intended; 2 = header and payload apart)
          ElemParts,  \* model checking only: parts per element (2 = two messages merged into one Writev)
          WsMode,     \* model checking only: the units are WebSocket frames
          EnqAcct,    \* model checking only: liveness is accounted at enqueue (RTSP) instead of at the socket
          HasDeadline, \* model checking only: every socket write has a deadline
          Prime,      \* schedule generation: a stalled consumer's writer is kept busy with a null unit
          MaxPub, MaxRead, MaxStall, MaxSweep,  \* bounds (MaxSweep = 0: unbounded, not counted)
          MaxLeave,   \* how often the publisher may leave (and come back)
          MaxPubB,    \* publishes on the other stream
          MaxCmd      \* requests the consumers send (each is answered by one unit on the consumer's own connection)

All == Cons \cup Healthy \cup Other

VARIABLES con,     \* per consumer [open, closed, q, fl, wire, base, wr]
          cap,     \* per consumer queue capacity
          pf,      \* protocol features [ws, enq, dl, two]: WebSocket framing, accounting at enqueue, write deadline,
                   \* a second stream exists
          npub,    \* publishes so far
          pend,    \* fine model: enqueues the running fan-out still has to do, << <<c, element>>, ... >>
          cnt,     \* [read, stall, sweep, leave, pubB] bounds bookkeeping, live = a publisher is attached
          act      \* last action (emission only)

vars == <<con, cap, pf, npub, pend, cnt, act>>

Min(a, b) == IF a < b THEN a ELSE b
CntInit == [read |-> 0, stall |-> 0, sweep |-> 0, leave |-> 0, pubB |-> 0, cmd |-> 0, live |-> TRUE]
ConsInit == [open |-> TRUE, closed |-> FALSE, q |-> <<>>, fl |-> <<>>, wire |-> <<>>, base |-> FALSE, wr |-> FALSE]
RECURSIVE Flat(_)
Flat(ss) == IF ss = <<>> THEN <<>> ELSE ss[1] \o Flat(Tail(ss))

---------------------------------------------------------------------------
(* Framing grammar on sequences of parts.                                                          *)
PayloadKinds == {"tag", "flvh", "ts", "rtp", "rtspr", "empty"}
SelfKinds(w) == IF w THEN {"http", "wsf"} ELSE {"http", "hs", "msg", "tag", "flvh", "ts", "rtp", "rtspr", "empty"}
\* A "piece" is the i-th of `of` consecutive parts that only together are the unit (uk, id, len).
\* tail: the sequence may end inside a unit (a connection that was cut while the unit was under way).
RECURSIVE WholeT(_, _, _)
WholeT(s, w, tail) ==
  IF s = <<>> THEN TRUE
  ELSE IF s[1].k \in SelfKinds(w) THEN WholeT(Tail(s), w, tail)
  ELSE IF w /\ s[1].k = "wsh"
         THEN IF Len(s) = 1 THEN tail
              ELSE s[2].k \in PayloadKinds /\ s[2].len = s[1].len /\ WholeT(Tail(Tail(s)), w, tail)
  ELSE IF s[1].k = "piece"
         THEN LET n == s[1].of
                  m == Min(n, Len(s))
              IN /\ s[1].uk \in SelfKinds(w) /\ s[1].i = 1
                 /\ \A j \in 1..m : /\ s[j].k = "piece" /\ s[j].i = j /\ s[j].of = n
                                     /\ s[j].id = s[1].id /\ s[j].len = s[1].len
                 /\ IF Len(s) < n THEN tail ELSE WholeT(SubSeq(s, n + 1, Len(s)), w, tail)
  ELSE FALSE
Whole(s, w) == WholeT(s, w, FALSE)
\* a connection that was cut may end inside a unit; one that is still served may not
FramingOk(cs, w) == IF cs.closed THEN WholeT(cs.wire, w, TRUE)
                    ELSE Whole(cs.wire \o cs.fl \o Flat(cs.q), w)
HasBytes(s) == \E i \in 1..Len(s) : s[i].k # "empty"
IsPrefix(a, b) == Len(a) <= Len(b) /\ SubSeq(b, 1, Len(a)) = a
RECURSIVE IdsOf(_)
IdsOf(s) == IF s = <<>> THEN <<>>     \* the units present completely (a unit in pieces counts with its last piece)
            ELSE (IF s[1].id # 0 /\ (s[1].k # "piece" \/ s[1].i = s[1].of) THEN <<s[1].id>> ELSE <<>>) \o IdsOf(Tail(s))

---------------------------------------------------------------------------
(* Per-connection operators.                                                                        *)
\* the writer goroutine runs until it is parked: idle (queue empty) or inside a socket write
Settle(cs) ==
  IF cs.closed THEN cs
  ELSE IF cs.open THEN [cs EXCEPT !.wire = @ \o cs.fl \o Flat(cs.q), !.fl = <<>>, !.q = <<>>,
                                  !.wr = @ \/ (~pf.enq /\ HasBytes(cs.fl \o Flat(cs.q)))]
  ELSE IF cs.fl = <<>> /\ cs.q # <<>> THEN [cs EXCEPT !.fl = Head(cs.q), !.q = Tail(cs.q)]
  ELSE cs

\* A burst E of enqueued elements meets an idle writer and does not fit: which elements are accepted depends
\* on when the writer goroutine wakes up.  For a consumer that is reading the outcome is visible at once
\* (acc = the parts it received); for a stalled one it is hidden in the queue, such steps are not replayed.
EnqRacy(cs, n, E) == ~cs.closed /\ ~cs.open /\ cs.fl = <<>> /\ Len(E) > n
EnqObserved(cs, n, E) == ~cs.closed /\ cs.open /\ Len(E) > n
RECURSIVE AccElems(_, _)
AccElems(acc, E) == IF E = <<>> THEN <<>>
                    ELSE IF IsPrefix(E[1], acc)
                           THEN <<E[1]>> \o AccElems(SubSeq(acc, Len(E[1]) + 1, Len(acc)), Tail(E))
                    ELSE AccElems(acc, Tail(E))
LegalAcc(acc, E, n) == LET A == AccElems(acc, E)
                       IN /\ Flat(A) = acc /\ Len(A) >= Min(Len(E), n)
                          /\ (E # <<>> => (A # <<>> /\ A[1] = E[1]))
Accepted(cs, n, E, acc) ==
  IF cs.closed THEN <<>>
  ELSE IF cs.open THEN (IF Len(E) <= n THEN E ELSE AccElems(acc, E))
  ELSE IF cs.fl = <<>> THEN E
  ELSE SubSeq(E, 1, Min(Len(E), n - Len(cs.q)))
\* counted: the elements are media handed over by the fan-out (they count for enqueue-side accounting)
Enq(cs, n, E, acc, counted) ==
  IF cs.closed THEN cs
  ELSE LET A == Accepted(cs, n, E, acc)
       IN Settle([cs EXCEPT !.q = @ \o A, !.wr = @ \/ (pf.enq /\ counted /\ HasBytes(Flat(A)))])

\* the consumer reads exactly one socket write
ReadOne(cs) == Settle([cs EXCEPT !.wire = Append(@, cs.fl[1]), !.fl = Tail(@),
                                 !.wr = @ \/ (~pf.enq /\ Len(cs.fl) = 1 /\ HasBytes(cs.fl))])
ResumeC(cs) == Settle([cs EXCEPT !.open = TRUE])
CutC(cs)    == [cs EXCEPT !.closed = TRUE, !.fl = <<>>, !.q = <<>>]
\* Group.disposeInactiveSessions: the first look takes the byte counter as base line; afterwards a
\* session whose counter has not moved since the previous look is disposed
SweepC(cs) == IF cs.closed THEN cs
              ELSE IF ~cs.base THEN [cs EXCEPT !.base = TRUE, !.wr = FALSE]
              ELSE IF ~cs.wr THEN CutC(cs)
              ELSE [cs EXCEPT !.wr = FALSE]
\* the null unit that keeps the writer of a stalled consumer busy (see Prime)
Part(k, id, len) == [k |-> k, uk |-> k, id |-> id, len |-> len, i |-> 0, of |-> 0]
NullElem == << Part(IF pf.ws THEN "wsf" ELSE "empty", 0, 0) >>
NeedsPrime(cs) == ~cs.closed /\ ~cs.open /\ cs.fl = <<>>
PrimeC(cs, elem) == Enq(cs, 1, <<elem>>, <<>>, FALSE)
\* An answer of the session to a request of its own consumer (ping response, _result, RTSP response): a unit of the
\* consumer's stream like any other, enqueued by the session's read loop; its id carries the value it echoes
\* (ids from ReplyBase on), so a unit that arrives altered is not the unit that was enqueued.  When the answer
\* cannot be queued the write fails and the read loop hangs up.
ReplyBase == 100000
ReplyC(cs, n, R, acc) == LET c1 == Enq(cs, n, R, acc, FALSE)
                         IN IF ~cs.closed /\ Accepted(cs, n, R, acc) # R THEN CutC(c1) ELSE c1

---------------------------------------------------------------------------
(* The units of publish number n in the model-checking configurations.                              *)
Burst(n) == IF Parts = 2 THEN << <<Part("wsh", 0, n)>>, <<Part("tag", n, n)>> >>
            ELSE IF ElemParts = 2 THEN << <<Part("msg", n, n), Part("msg", 100 + n, n)>> >>
            ELSE << <<Part(IF WsMode THEN "wsf" ELSE "msg", n, n)>> >>

Init == /\ con = [c \in All |-> ConsInit]
        /\ cap = [c \in All |-> IF c \in Cons THEN N ELSE HCap]
        /\ pf = [ws |-> WsMode, enq |-> EnqAcct, dl |-> HasDeadline, two |-> Other # {}]
        /\ npub = 0 /\ pend = <<>>
        /\ cnt = CntInit
        /\ act = [name |-> "init"]

SweepOk == MaxSweep = 0 \/ cnt.sweep < MaxSweep
SweepCnt == IF MaxSweep = 0 THEN cnt ELSE [cnt EXCEPT !.sweep = @ + 1]
StreamA == All \ Other

(* ---- fine-grained model ---- *)
RECURSIVE SetToSeq(_)
SetToSeq(S) == IF S = {} THEN <<>> ELSE LET x == CHOOSE y \in S : TRUE IN <<x>> \o SetToSeq(S \ {x})
RECURSIVE Pairs(_, _)
Pairs(cs, E) == IF cs = <<>> THEN <<>> ELSE [i \in 1..Len(E) |-> <<cs[1], E[i]>>] \o Pairs(Tail(cs), E)

FinePublish == /\ pend = <<>> /\ npub < MaxPub /\ cnt.live
               /\ pend' = Pairs(SetToSeq(StreamA), Burst(npub + 1)) /\ npub' = npub + 1
               /\ act' = [name |-> "Publish"] /\ UNCHANGED <<con, cap, pf, cnt>>
\* one enqueue: never waits for anybody
FanoutWrite == /\ pend # <<>>
               /\ LET c == pend[1][1] e == pend[1][2] cs == con[c]
                  IN con' = [con EXCEPT ![c] = IF cs.closed \/ Len(cs.q) >= cap[c] THEN cs
                                                ELSE [cs EXCEPT !.q = Append(@, e), !.wr = @ \/ (pf.enq /\ HasBytes(e))]]
               /\ pend' = Tail(pend) /\ act' = [name |-> "FanoutWrite"] /\ UNCHANGED <<cap, pf, npub, cnt>>
WriterTake(c) == /\ ~con[c].closed /\ con[c].fl = <<>> /\ con[c].q # <<>>
                 /\ con' = [con EXCEPT ![c].fl = Head(con[c].q), ![c].q = Tail(con[c].q)]
                 /\ act' = [name |-> "WriterTake", c |-> c] /\ UNCHANGED <<cap, pf, npub, pend, cnt>>
WriteOne(cs) == [cs EXCEPT !.wire = Append(@, cs.fl[1]), !.fl = Tail(@),
                           !.wr = @ \/ (~pf.enq /\ Len(cs.fl) = 1 /\ HasBytes(cs.fl))]
SocketWrite(c) == /\ ~con[c].closed /\ con[c].fl # <<>> /\ con[c].open
                  /\ con' = [con EXCEPT ![c] = WriteOne(@)]
                  /\ act' = [name |-> "SocketWrite", c |-> c] /\ UNCHANGED <<cap, pf, npub, pend, cnt>>
FineRead(c) == /\ ~con[c].closed /\ con[c].fl # <<>> /\ ~con[c].open /\ cnt.read < MaxRead
               /\ con' = [con EXCEPT ![c] = WriteOne(@)]
               /\ cnt' = [cnt EXCEPT !.read = @ + 1]
               /\ act' = [name |-> "Read", c |-> c] /\ UNCHANGED <<cap, pf, npub, pend>>
FineStall(c) == /\ c \in Cons /\ ~con[c].closed /\ con[c].open /\ cnt.stall < MaxStall
                /\ con' = [con EXCEPT ![c].open = FALSE] /\ cnt' = [cnt EXCEPT !.stall = @ + 1]
                /\ act' = [name |-> "Stall", c |-> c] /\ UNCHANGED <<cap, pf, npub, pend>>
FineResume(c) == /\ ~con[c].closed /\ ~con[c].open
                 /\ con' = [con EXCEPT ![c].open = TRUE]
                 /\ act' = [name |-> "Resume", c |-> c] /\ UNCHANGED <<cap, pf, npub, pend, cnt>>
\* the deadline of the write in flight passes
DeadlineFire(c) == /\ pf.dl /\ ~con[c].closed /\ ~con[c].open /\ con[c].fl # <<>>
                   /\ con' = [con EXCEPT ![c] = CutC(@)]
                   /\ act' = [name |-> "Fire", c |-> c] /\ UNCHANGED <<cap, pf, npub, pend, cnt>>
Sweep == /\ SweepOk /\ pend = <<>>      \* Group.Tick takes Group.mutex
         /\ con' = [c \in All |-> IF c \in Other /\ ~pf.two THEN con[c] ELSE SweepC(con[c])] /\ cnt' = SweepCnt
         /\ act' = [name |-> "Sweep"] /\ UNCHANGED <<cap, pf, npub, pend>>
\* DelRtmpPubSession / AddRtmpPubSession: critical sections under Group.mutex that, like the fan-out, never
\* wait for a consumer (what they hand to the consumers, if anything, is observed in the trace)
PubLeave == /\ cnt.live /\ cnt.leave < MaxLeave /\ pend = <<>>
            /\ cnt' = [cnt EXCEPT !.live = FALSE, !.leave = @ + 1]
            /\ act' = [name |-> "PubLeave"] /\ UNCHANGED <<con, cap, pf, npub, pend>>
PubArrive == /\ ~cnt.live /\ pend = <<>>
             /\ cnt' = [cnt EXCEPT !.live = TRUE]
             /\ act' = [name |-> "PubArrive"] /\ UNCHANGED <<con, cap, pf, npub, pend>>

\* the read loop of consumer c answers a request: one enqueue by another goroutine than the fan-out loop, at any moment
ReplyElem(k) == << Part(IF pf.ws THEN "wsf" ELSE "msg", ReplyBase + k, 1) >>
FineCmd(c) == /\ ~con[c].closed /\ cnt.cmd < MaxCmd
              /\ con' = [con EXCEPT ![c] = IF Len(@.q) >= cap[c] THEN CutC(@) ELSE [@ EXCEPT !.q = Append(@, ReplyElem(cnt.cmd + 1))]]
              /\ cnt' = [cnt EXCEPT !.cmd = @ + 1]
              /\ act' = [name |-> "Cmd", c |-> c] /\ UNCHANGED <<cap, pf, npub, pend>>

FineNext == \/ FinePublish \/ FanoutWrite \/ Sweep \/ PubLeave \/ PubArrive
            \/ \E c \in All : WriterTake(c) \/ SocketWrite(c)
            \/ \E c \in Cons : FineRead(c) \/ FineStall(c) \/ FineResume(c) \/ DeadlineFire(c) \/ FineCmd(c)
FineSpec == Init /\ [][FineNext]_vars
\* fairness: the fan-out loop runs on (it never has to wait, NoBlocking), the timer ticks, deadlines pass;
\* nothing is assumed about the consumers or the scheduling of the writer goroutines
FineFair == FineSpec /\ WF_vars(FanoutWrite) /\ WF_vars(Sweep) /\ \A c \in Cons : WF_vars(DeadlineFire(c))

\* whatever a consumer holds, was given or will be given is a concatenation of whole units
WholeUnits == pend = <<>> => \A c \in All : FramingOk(con[c], pf.ws)
\* the fan-out loop can always take its next step, whatever the consumers do
NoBlocking == pend # <<>> => ENABLED FanoutWrite
QueueBound == \A c \in All : Len(con[c].q) <= cap[c]
\* a consumer does not stay stalled for ever: its write deadline or the sweep cuts it
EventuallyClosed == \A c \in Cons : <>[](con[c].closed \/ con[c].open)

(* ---- call-level model: one action per call into lal, writers run to quiescence ---- *)
\* before a call the driver may keep the writers of stalled idle consumers busy with a null unit, so that the
\* burst of the call meets a full pipeline instead of racing with a writer that wakes up
Primed(cn) == [c \in All |-> IF Prime /\ c \in Cons /\ NeedsPrime(cn[c]) THEN PrimeC(cn[c], NullElem) ELSE cn[c]]
GPublish == /\ npub < MaxPub /\ cnt.live /\ \A h \in Healthy : ~con[h].closed   \* the healthy consumer shows the units
            /\ LET E == Burst(npub + 1) cn == Primed(con) IN
               /\ \A c \in StreamA : ~EnqRacy(cn[c], cap[c], E)
               /\ con' = [c \in All |-> IF c \in StreamA THEN Enq(cn[c], cap[c], E, Flat(E), TRUE) ELSE cn[c]]
            /\ npub' = npub + 1 /\ act' = [name |-> "Publish"] /\ UNCHANGED <<cap, pf, pend, cnt>>
\* a publish on the other stream, and a look at all groups (ServerManager.StatAllGroup)
GPublishB == /\ Other # {} /\ cnt.pubB < MaxPubB
             /\ LET E == << <<Part("msg", 200 + cnt.pubB, 1)>> >> IN
                con' = [c \in All |-> IF c \in Other THEN Enq(con[c], cap[c], E, Flat(E), TRUE) ELSE con[c]]
             /\ cnt' = [cnt EXCEPT !.pubB = @ + 1]
             /\ act' = [name |-> "PublishB"] /\ UNCHANGED <<cap, pf, npub, pend>>
GRead(c) == /\ ~con[c].closed /\ ~con[c].open /\ con[c].fl # <<>> /\ cnt.read < MaxRead
            /\ con' = [con EXCEPT ![c] = ReadOne(@)] /\ cnt' = [cnt EXCEPT !.read = @ + 1]
            /\ act' = [name |-> "Read", c |-> c] /\ UNCHANGED <<cap, pf, npub, pend>>
GStall(c) == /\ c \in Cons /\ ~con[c].closed /\ con[c].open /\ cnt.stall < MaxStall
             /\ con' = [con EXCEPT ![c] = [@ EXCEPT !.open = FALSE]] /\ cnt' = [cnt EXCEPT !.stall = @ + 1]
             /\ act' = [name |-> "Stall", c |-> c] /\ UNCHANGED <<cap, pf, npub, pend>>
GResume(c) == /\ ~con[c].closed /\ ~con[c].open
              /\ con' = [con EXCEPT ![c] = ResumeC(@)]
              /\ act' = [name |-> "Resume", c |-> c] /\ UNCHANGED <<cap, pf, npub, pend, cnt>>
GCmd(c) == /\ ~con[c].closed /\ cnt.cmd < MaxCmd
           /\ con' = [con EXCEPT ![c] = ReplyC(@, cap[c], <<ReplyElem(cnt.cmd + 1)>>, ReplyElem(cnt.cmd + 1))]
           /\ cnt' = [cnt EXCEPT !.cmd = @ + 1]
           /\ act' = [name |-> "Cmd", c |-> c] /\ UNCHANGED <<cap, pf, npub, pend>>
GNext == \/ GPublish \/ GPublishB \/ Sweep \/ PubLeave \/ PubArrive
         \/ \E c \in Cons : GRead(c) \/ GStall(c) \/ GResume(c) \/ DeadlineFire(c) \/ GCmd(c)
GSpec == Init /\ [][GNext]_vars
\* in the call-level model every state is quiescent
Quiescent == \A c \in All : /\ (con[c].open => con[c].fl = <<>> /\ con[c].q = <<>>)
                            /\ (con[c].fl = <<>> => con[c].q = <<>>)

\* what decides which actions are enabled: the schedule graph is built on this abstraction
Abs(cn, np, ct) == [npub |-> np, cnt |-> ct,
                    c |-> [c \in All |-> <<cn[c].open, cn[c].closed, Len(cn[c].q), Len(cn[c].fl), cn[c].base, cn[c].wr>>]]
GView == Abs(con, npub, cnt)
FineView == <<con, cap, pf, npub, pend, cnt>>
Emit == PrintT("@E@" \o ToJson([f |-> Abs(con, npub, cnt), a |-> act', t |-> Abs(con', npub', cnt'), l |-> TLCGet("level")]))
EmitA == PrintT("@A@" \o ToJson([a |-> act, l |-> TLCGet("level")]))
=============================================================================

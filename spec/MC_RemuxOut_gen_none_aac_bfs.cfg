SPECIFICATION Spec
CONSTANTS
  VCodec = "none"
  ACodec = "aac"
  MaxPub = 8
  MaxVer = 2
  VKinds <- NoKinds
  DtPool <- Dt5
  AscPool = {1, 2, 3}
  ProbeMax = 16
  GopNum = 1
  TJoin = TRUE
  RJoin = FALSE
  RMut = "none"
INVARIANTS AllOk EndComplete RAllOk REndComplete
VIEW View

--------------------------- MODULE MC_Backpressure ---------------------------
(* Model-checking instance of Backpressure (C15); the configurations are written by tools/props/c15.py. *)
EXTENDS Backpressure
=============================================================================

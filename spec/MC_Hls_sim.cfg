SPECIFICATION Spec
CONSTANTS
  CfgPool <- SimCfgs
  AvPool = {TRUE, FALSE}
  Kinds = {"Kb", "K", "I", "A"}
  Classes = {"tiny", "short", "below", "b1", "eq", "a1", "ab4", "ab8", "j0", "jump", "back0", "back", "backs"}
  MaxFrames = 14
  MaxEpoch = 2
  TargetLal = FALSE
INVARIANTS PlaylistWellFormed SeqMonotone TargetCovers ListedExist ListedWhole RecentStillPresent NoLossNoDup Finalised
ACTION_CONSTRAINT EmitS

SPECIFICATION TraceSpec
CONSTANTS
  ProbeMax = 16
  GopNum = 0
CONSTRAINT HighWater
POSTCONDITION Accept
CHECK_DEADLOCK FALSE

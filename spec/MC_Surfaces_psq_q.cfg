SPECIFICATION Spec
CONSTANTS
  Surf = "psq"
  Depth = 4
  Level = 1
INVARIANTS Total ClosedIsFinal Bounded
ACTION_CONSTRAINT EmitS
VIEW View

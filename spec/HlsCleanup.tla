------------------------------- MODULE HlsCleanup -------------------------------
(* C10, "delayed directory cleanup that must spare a live stream": the interplay, for ONE stream   *)
(* name, of logic.ServerManager.CleanupHlsIfNeeded (hls cleanup_mode 1 and 2) with the life of the  *)
(* Group object registered under that name.                                                        *)
(*                                                                                                 *)
(* Every action is one real step (a critical section of ServerManager, or the expiry of a timer):  *)
(*   PubStart  = AddCustomizePubSession: the Group of the name is looked up or created, the input   *)
(*               is attached, Group.startHlsIfNeeded makes a fresh hls.Muxer whose Start creates    *)
(*               the directory (MkdirAll) - neither mode removes anything here                      *)
(*   Feed      = frames that close two fragments: segments written, live playlist (re)written       *)
(*   PubStop   = DelCustomizePubSession: Muxer.Dispose closes the open fragment and finalises the   *)
(*               playlist (if anything was written), then CleanupHlsIfNeeded arms a timer of        *)
(*               fragment_duration_ms * (fragment_num + delete_threshold) ms in modes 1 and 2       *)
(*               (mode 0 never cleans; mode 2 differs from 1 only inside the muxer: segments that   *)
(*               leave the ring are removed at once and no record playlist is kept)                 *)
(*   SubJoin / SubLeave = an HTTP-FLV subscriber of the name (it creates the Group if none exists   *)
(*               and keeps it from being removed)                                                   *)
(*   Tick      = one iteration of the 1 s loop of ServerManager.RunLoop: the Group is disposed and  *)
(*               unregistered iff it has neither input nor output session (Group.IsInactive)        *)
(*   TimerFire = the oldest pending timer expires (all have the same delay): the directory is       *)
(*               spared iff a Group registered under the name AT THAT MOMENT has a live muxer,      *)
(*               otherwise RemoveAll                                                                *)
(* Next to the stream of the name a NEIGHBOUR stream of the same server is live all the time (nbr):  *)
(* no step of this name - the RemoveAll of an expiring timer least of all - may touch its directory. *)
(* HLS may be switched on by hls.enable or by hls.enable_https alone: the muxer's life is the same,  *)
(* the model has no variable for it (the driver replays cleanup_mode 0 both ways).                   *)
(* The directory is abstracted to: exists / state of the live playlist / publication (epoch) whose  *)
(* segments the playlist lists / epochs that have segment files in the directory.                   *)
EXTENDS Integers, Sequences, FiniteSets, TLC, Json

CONSTANTS Modes,       \* hls cleanup_mode values explored: 0 never, 1 in the end, 2 asap
          MaxEp,       \* publications of the name
          MaxGrp,      \* Group objects created for the name
          MaxFeed,     \* Feed steps per publication
          MaxAge,      \* steps between the arming of a timer and its expiry (what fits into the real delay)
          MaxPending,  \* timers pending at once (a limit of the driver's real-time schedule, not of lal)
          Capture      \* design mutant: the timer remembers the Group object of arming time instead of
                       \* looking the name up when it fires

VARIABLES mode,    \* cleanup_mode of the configuration (fixed in a behaviour)
          grp,     \* identity of the Group object registered under the name (0 = none)
          ngrp,    \* Group objects created so far
          pub,     \* an input is attached (<=> the hls muxer of the group is alive)
          sub,     \* a subscriber is attached
          ep,      \* publications so far (the current one while pub)
          fed,     \* Feed steps of the current publication (0: its muxer has written nothing yet)
          timers,  \* pending cleanup timers, oldest first: [g |-> Group identity at arming, age |-> steps since]
          fs,      \* [dir, pl, plEp, eps]
          nbr,     \* the directory, playlist and listed segments of ANOTHER stream name that is live all the time are intact
          act

vars == <<mode, grp, ngrp, pub, sub, ep, fed, timers, fs, nbr, act>>
View == <<mode, grp, ngrp, pub, sub, ep, fed, timers, fs, nbr>>

NoDir == [dir |-> FALSE, pl |-> "none", plEp |-> 0, eps |-> {}]

Init == /\ mode \in Modes /\ grp = 0 /\ ngrp = 0 /\ pub = FALSE /\ sub = FALSE /\ ep = 0 /\ fed = 0
        /\ timers = <<>> /\ fs = NoDir /\ nbr = TRUE /\ act = [name |-> "init"]

Cleans == mode \in {1, 2}
Aged(ts) == [i \in 1..Len(ts) |-> [ts[i] EXCEPT !.age = @ + 1]]
\* a step other than the expiry itself fits in only while the oldest timer has not used up its delay
Room == IF timers = <<>> THEN TRUE ELSE timers[1].age < MaxAge

\* ---- effects, shared with Trace_HlsCleanup (the model is deterministic given the action name)
PubStartOk == ~pub /\ ep < MaxEp /\ (grp = 0 => ngrp < MaxGrp) /\ Room
PubStartFx ==
  /\ grp' = (IF grp = 0 THEN ngrp + 1 ELSE grp) /\ ngrp' = (IF grp = 0 THEN ngrp + 1 ELSE ngrp)
  /\ pub' = TRUE /\ ep' = ep + 1 /\ fed' = 0
  /\ fs' = [fs EXCEPT !.dir = TRUE]
  /\ timers' = Aged(timers) /\ sub' = sub

FeedOk == pub /\ fed < MaxFeed /\ Room
FeedFx ==
  /\ fed' = fed + 1
  /\ fs' = (IF fs.dir THEN [dir |-> TRUE, pl |-> "live", plEp |-> ep, eps |-> fs.eps \cup {ep}] ELSE fs)
  /\ timers' = Aged(timers) /\ UNCHANGED <<grp, ngrp, pub, sub, ep>>

PubStopOk == pub /\ Room /\ (Cleans => Len(timers) < MaxPending)
PubStopFx ==
  /\ pub' = FALSE /\ fed' = 0
  /\ fs' = (IF fed > 0 /\ fs.dir THEN [fs EXCEPT !.pl = "ended"] ELSE fs)
  /\ timers' = (IF Cleans THEN Append(Aged(timers), [g |-> grp, age |-> 0]) ELSE Aged(timers))
  /\ UNCHANGED <<grp, ngrp, sub, ep>>

SubJoinOk == ~sub /\ (grp = 0 => ngrp < MaxGrp) /\ Room
SubJoinFx ==
  /\ grp' = (IF grp = 0 THEN ngrp + 1 ELSE grp) /\ ngrp' = (IF grp = 0 THEN ngrp + 1 ELSE ngrp)
  /\ sub' = TRUE /\ timers' = Aged(timers) /\ UNCHANGED <<pub, ep, fed, fs>>

SubLeaveOk == sub /\ Room
SubLeaveFx == sub' = FALSE /\ timers' = Aged(timers) /\ UNCHANGED <<grp, ngrp, pub, ep, fed, fs>>

Inactive == ~pub /\ ~sub
TickOk == Room
TickFx ==
  /\ grp' = (IF grp # 0 /\ Inactive THEN 0 ELSE grp)
  /\ timers' = Aged(timers) /\ UNCHANGED <<ngrp, pub, sub, ep, fed, fs>>

\* "is a muxer of that name alive?" as the expiring timer answers it
AliveFor(t) == IF Capture THEN t.g = grp /\ pub ELSE grp # 0 /\ pub
TimerFireOk == timers # <<>>
TimerFireFx ==
  /\ fs' = (IF AliveFor(timers[1]) THEN fs ELSE NoDir)
  /\ timers' = Tail(timers) /\ UNCHANGED <<grp, ngrp, pub, sub, ep, fed>>

PubStart  == PubStartOk  /\ PubStartFx  /\ act' = [name |-> "PubStart"]
Feed      == FeedOk      /\ FeedFx      /\ act' = [name |-> "Feed"]
PubStop   == PubStopOk   /\ PubStopFx   /\ act' = [name |-> "PubStop"]
SubJoin   == SubJoinOk   /\ SubJoinFx   /\ act' = [name |-> "SubJoin"]
SubLeave  == SubLeaveOk  /\ SubLeaveFx  /\ act' = [name |-> "SubLeave"]
Tick      == TickOk      /\ TickFx      /\ act' = [name |-> "Tick"]
TimerFire == TimerFireOk /\ TimerFireFx /\ act' = [name |-> "TimerFire"]

\* no step of this stream name - the RemoveAll of an expiring timer least of all - touches what belongs to another name
Next == (PubStart \/ Feed \/ PubStop \/ SubJoin \/ SubLeave \/ Tick \/ TimerFire) /\ mode' = mode /\ nbr' = nbr
Spec == Init /\ [][Next]_vars

\* ---- the clauses of C10 at this level
TypeOK ==
  /\ mode \in Modes /\ grp \in 0..MaxGrp /\ ngrp \in 0..MaxGrp /\ grp <= ngrp /\ pub \in BOOLEAN /\ sub \in BOOLEAN
  /\ ep \in 0..MaxEp /\ fed \in 0..MaxFeed /\ Len(timers) <= MaxPending
  /\ \A i \in 1..Len(timers) : timers[i].g \in 1..MaxGrp /\ timers[i].age \in 0..MaxAge
  /\ fs.dir \in BOOLEAN /\ fs.pl \in {"none", "live", "ended"} /\ fs.plEp \in 0..MaxEp /\ fs.eps \subseteq 1..MaxEp
  /\ (pub => grp # 0) /\ nbr \in BOOLEAN

\* what an observer of the directory may rely on, as a predicate of (muxer alive, has written, epoch, directory)
LiveSparedOf(alive, written, e, f) ==
  /\ (alive => f.dir)                                               \* Muxer.Start made it, nobody may remove it
  /\ ((alive /\ written) => (f.pl = "live" /\ f.plEp = e /\ e \in f.eps))
\* every listed segment exists
ListedOf(f) == f.pl # "none" => (f.dir /\ f.plEp \in f.eps)

LiveSpared == LiveSparedOf(pub, fed > 0, ep, fs) /\ nbr
Listed == ListedOf(fs)
\* after the last timer has expired with no live muxer the directory is gone (modes 1 and 2) ...
Cleaned == (Cleans /\ ~pub /\ timers = <<>>) => fs = NoDir
\* ... and mode 0 never arms a timer and never loses a directory
NeverCleaned == ~Cleans => (timers = <<>> /\ (ep > 0 => fs.dir))

\* ---- emission
St == [mode |-> mode, grp |-> grp, ngrp |-> ngrp, pub |-> pub, sub |-> sub, ep |-> ep, fed |-> fed, timers |-> timers, fs |-> fs]
Emit == PrintT("@E@" \o ToJson([f |-> St, a |-> act',
                                 t |-> [mode |-> mode', grp |-> grp', ngrp |-> ngrp', pub |-> pub', sub |-> sub', ep |-> ep', fed |-> fed',
                                        timers |-> timers', fs |-> fs'],
                                 l |-> TLCGet("level")]))
EmitA == PrintT("@A@" \o ToJson([a |-> act, l |-> TLCGet("level")]))
=============================================================================

------------------------------- MODULE Rtp -------------------------------
(* RTP packetisation / depacketisation (C12): rtprtcp.RtpPacker + RtpPackerPayload*,        *)
(* RtpUnpackContainer / RtpPacketList + RtpUnpacker{AvcHevc,Aac,Raw}.                        *)
(*   PackOK   - acceptor for the packets of a frame sequence: header fields, PayloadLimit,   *)
(*              MarkerLast, SeqStep, TsExact and "RFC 6184/7798/3640 reassembly of the       *)
(*              packets, in order, yields the original units" (both NAL header bytes).      *)
(*   RefPack  - reference packetiser; TLC checks it against PackOK on the enumerated space. *)
(*   Feed     - the receiver: sorted insert by modular compare, duplicate drop, stale drop   *)
(*              against the done sequence number, sequential drain, forced progress when     *)
(*              the list is full; Try = reassembly of one unit from the head of the list.    *)
(*   InWin    - "inside the reorder window" as a predicate on an arrival order.              *)
(* A unit is [h, n, id]: NAL header fields (avc <<F,NRI,Type>>, hevc <<F,Type,Layer,TID>>,   *)
(* audio <<>>), total size in bytes (header included) and the id of its position-coded body. *)
(* A packet is the record cut from the wire bytes by the independent reader: seq, ts (two    *)
(* 16-bit limbs), m, pt, wf, size (payload bytes), k (single|fu|au|raw|other), s, e, r, h,   *)
(* au (AU-size of the RFC 3640 AU header) and the body bytes it carries: (id, off, n, ok).   *)
EXTENDS Integers, Sequences, FiniteSets, TLC, Json

CONSTANTS SeqMod      \* 65536; scaled design models use a small power of two

---------------------------------------------------------------------------
(* 32-bit arithmetic on two 16-bit limbs (TLC integers are 32-bit signed).                   *)
UAdd(a, b) == LET lo == a[2] + b[2]
                  hi == a[1] + b[1] + (lo \div 65536)
              IN  <<hi % 65536, lo % 65536>>
UOf(n) == <<(n \div 65536) % 65536, n % 65536>>
RECURSIVE UMul(_, _)
UMul(x, n) == IF n = 0 THEN <<0, 0>>
              ELSE LET h == UMul(UAdd(x, x), n \div 2) IN IF n % 2 = 1 THEN UAdd(h, x) ELSE h
\* media time in ms at the clock rate, modulo 2^32:  floor(ms * rate / 1000)
TsOf(ms, rate) == UAdd(UMul(UOf(rate), ms \div 1000), UOf(((ms % 1000) * rate) \div 1000))

Video(c) == c \in {"avc", "hevc"}
HB(c)  == IF c = "avc" THEN 1 ELSE IF c = "hevc" THEN 2 ELSE 0      \* NAL header bytes
Ovh(c) == IF c = "avc" THEN 2 ELSE IF c = "hevc" THEN 3 ELSE IF c = "aac" THEN 4 ELSE 0
Next1(a, b) == ((a - b) + SeqMod) % SeqMod = 1                      \* SubSeq(a, b) == 1
\* rtprtcp.CompareSeq, literally
Cmp(a, b) == IF a = b THEN 0
             ELSE IF a > b THEN (IF a - b < SeqMod \div 2 THEN 1 ELSE -1)
             ELSE (IF b - a < SeqMod \div 2 THEN -1 ELSE 1)

\* a delivered unit; a body that is not the code of one unit from one offset is (id -1, off 0)
Dl(h, n, id, off, ok) == IF ok THEN [h |-> h, n |-> n, id |-> id, off |-> off, ok |-> TRUE]
                         ELSE [h |-> h, n |-> n, id |-> -1, off |-> 0, ok |-> FALSE]
\* what the original unit looks like when delivered intact
D(c, u) == [h |-> u.h, n |-> u.n, id |-> IF u.n = HB(c) THEN 0 ELSE u.id, off |-> 0, ok |-> TRUE]
Ds(c, us) == [i \in 1..Len(us) |-> D(c, us[i])]

---------------------------------------------------------------------------
(* Reassembly of one unit from the head of a list of packets (sorted by sequence number).    *)
Fail == [ok |-> FALSE, k |-> 0, seq |-> 0, u |-> <<>>]
Contig(l, a, b) == \A j \in a..b : /\ l[j].ok /\ l[j].id = l[a].id /\ l[j].h = l[a].h
                                   /\ (j > a => l[j].off = l[j-1].off + l[j-1].n)
RECURSIVE SumN(_, _, _)
SumN(l, a, b) == IF a > b THEN 0 ELSE l[a].n + SumN(l, a + 1, b)

\* Walk from the FU start at l[1]: every next packet must follow by one; a middle fragment goes on, an
\* end fragment completes the unit, anything else (or running out of packets) fails.  Written with a
\* set of stop points instead of a recursion so that TLC evaluates long fragment runs quickly.
MinOf(S) == CHOOSE x \in S : \A y \in S : x <= y
FuStop(l, i) == \/ ~Next1(l[i].seq, l[i-1].seq)
                \/ ~(l[i].k = "fu" /\ l[i].s = 0 /\ l[i].e = 0)
FuWalk(c, l, i0) ==
  LET stops == {i \in i0..Len(l) : FuStop(l, i)} IN
  IF stops = {} THEN Fail
  ELSE LET i == MinOf(stops)
           p == l[i]
       IN IF Next1(p.seq, l[i-1].seq) /\ p.k = "fu" /\ p.s = 0 /\ p.e = 1
          THEN [ok |-> TRUE, k |-> i, seq |-> p.seq,
                u |-> << Dl(l[1].h, HB(c) + SumN(l, 1, i), l[1].id, l[1].off, Contig(l, 1, i)) >>]
          ELSE Fail

RECURSIVE AuWalk(_, _, _)
AuWalk(l, i, acc) ==
  IF i > Len(l) THEN Fail
  ELSE LET p == l[i] IN
       IF ~Next1(p.seq, l[i-1].seq) \/ p.k # "au" \/ p.ts # l[1].ts \/ p.au # l[1].au THEN Fail
       ELSE IF acc + p.n < l[1].au THEN AuWalk(l, i + 1, acc + p.n)
       ELSE IF acc + p.n = l[1].au
            THEN [ok |-> TRUE, k |-> i, seq |-> p.seq,
                  u |-> << Dl(<<>>, l[1].au, l[1].id, l[1].off, Contig(l, 1, i)) >>]
       ELSE Fail

Try(c, l) ==
  IF Len(l) = 0 THEN Fail
  ELSE LET f == l[1] IN
       IF f.k \in {"single", "raw"}
       THEN [ok |-> TRUE, k |-> 1, seq |-> f.seq, u |-> << Dl(f.h, f.size, f.id, f.off, f.ok) >>]
       ELSE IF f.k = "au"
       THEN IF f.au <= f.n
            THEN [ok |-> TRUE, k |-> 1, seq |-> f.seq, u |-> << Dl(<<>>, f.au, f.id, f.off, f.ok) >>]
            ELSE AuWalk(l, 2, f.n)
       ELSE IF f.k = "fu" /\ f.s = 1 THEN FuWalk(c, l, 2)
       ELSE Fail

\* in-order reassembly of a whole packet sequence (the RFC reference depacketiser)
RECURSIVE Reasm(_, _)
Reasm(c, l) == IF l = <<>> THEN [ok |-> TRUE, u |-> <<>>]
               ELSE LET r == Try(c, l) IN
                    IF ~r.ok THEN [ok |-> FALSE, u |-> <<>>]
                    ELSE LET q == Reasm(c, SubSeq(l, r.k + 1, Len(l))) IN [ok |-> q.ok, u |-> r.u \o q.u]

---------------------------------------------------------------------------
(* Packer acceptor.  frames: sequence of [ms, us]; pk: per frame the sequence of its packets. *)
RECURSIVE Before(_, _)
Before(pk, j) == IF j = 1 THEN 0 ELSE Len(pk[j-1]) + Before(pk, j - 1)

PackOK(c, frames, s0, limit, rate, pt, pk) ==
  /\ Len(pk) = Len(frames)
  /\ \A j \in 1..Len(frames) :
       LET ps == pk[j]
           f  == frames[j]
       IN /\ Len(ps) >= 1
          /\ \A i \in 1..Len(ps) :
               /\ ps[i].wf /\ ps[i].pt = pt /\ ps[i].r = 0
               /\ ps[i].m = (IF i = Len(ps) THEN 1 ELSE 0)                   \* MarkerLast
               /\ ps[i].seq = (s0 + Before(pk, j) + (i - 1)) % SeqMod        \* SeqStep
               /\ ps[i].ts = TsOf(f.ms, rate)                                \* TsExact
               /\ (Video(c) => ps[i].size <= limit)                          \* PayloadLimit
          /\ Reasm(c, ps) = [ok |-> TRUE, u |-> Ds(c, f.us)]                 \* Lossless (in order)

---------------------------------------------------------------------------
(* Reference packetiser: single packet if the unit fits, else FU-A / FU (video) or RFC 3640   *)
(* fragments (aac) filled to the limit.                                                      *)
Body(c, u) == [id |-> IF u.n = HB(c) THEN 0 ELSE u.id, n |-> u.n - HB(c)]
One(c, u) == [k |-> IF Video(c) THEN "single" ELSE IF c = "aac" THEN "au" ELSE "raw",
              s |-> 0, e |-> 0, r |-> 0, h |-> u.h, au |-> IF c = "aac" THEN u.n ELSE 0,
              id |-> Body(c, u).id, off |-> 0, n |-> u.n - HB(c),
              size |-> u.n + (IF c = "aac" THEN 4 ELSE 0), ok |-> TRUE]
RECURSIVE Frags(_, _, _, _)
Frags(c, u, off, cap) ==
  LET rest == (u.n - HB(c)) - off
      n == IF rest > cap THEN cap ELSE rest
      p == [k |-> IF c = "aac" THEN "au" ELSE "fu",
            s |-> IF off = 0 /\ c # "aac" THEN 1 ELSE 0, e |-> IF rest <= cap /\ c # "aac" THEN 1 ELSE 0,
            r |-> 0, h |-> u.h, au |-> IF c = "aac" THEN u.n ELSE 0, id |-> u.id, off |-> off, n |-> n,
            size |-> n + Ovh(c), ok |-> TRUE]
  IN IF rest <= cap THEN <<p>> ELSE <<p>> \o Frags(c, u, off + n, cap)
Fits(c, u, limit) == IF c = "aac" THEN u.n + 4 <= limit ELSE (~Video(c) \/ u.n <= limit)
Payloads(c, u, limit) == IF Fits(c, u, limit) THEN << One(c, u) >> ELSE Frags(c, u, 0, limit - Ovh(c))
NPk(c, u, limit) == Len(Payloads(c, u, limit))
RECURSIVE FramePayloads(_, _, _, _)
FramePayloads(c, us, i, limit) == IF i > Len(us) THEN <<>>
                                  ELSE Payloads(c, us[i], limit) \o FramePayloads(c, us, i + 1, limit)
RECURSIVE RefPackFrom(_, _, _, _, _, _, _)
RefPackFrom(c, frames, j, seq, limit, rate, pt) ==
  IF j > Len(frames) THEN <<>>
  ELSE LET pl == FramePayloads(c, frames[j].us, 1, limit)
           ps == [i \in 1..Len(pl) |->
                    pl[i] @@ [seq |-> (seq + (i - 1)) % SeqMod, ts |-> TsOf(frames[j].ms, rate),
                              m |-> IF i = Len(pl) THEN 1 ELSE 0, pt |-> pt, wf |-> TRUE]]
       IN <<ps>> \o RefPackFrom(c, frames, j + 1, (seq + Len(pl)) % SeqMod, limit, rate, pt)
RefPack(c, frames, s0, limit, rate, pt) == RefPackFrom(c, frames, 1, s0, limit, rate, pt)
RECURSIVE Flat(_)
Flat(pk) == IF pk = <<>> THEN <<>> ELSE Head(pk) \o Flat(Tail(pk))

---------------------------------------------------------------------------
(* Receiver: RtpUnpackContainer.Feed over RtpPacketList.  st = [l, d, out]; d = -1 before the *)
(* first unit has been delivered.                                                             *)
RxInit == [l |-> <<>>, d |-> -1, out |-> <<>>]
\* RtpPacketList.Insert: scan from the head; equal -> drop, greater -> go on, smaller -> insert before
Ins(l, p, i0) == LET stops == {i \in i0..Len(l) : Cmp(p.seq, l[i].seq) # 1} IN
                 IF stops = {} THEN Append(l, p)
                 ELSE LET i == MinOf(stops) IN
                      IF Cmp(p.seq, l[i].seq) = 0 THEN l
                      ELSE SubSeq(l, 1, i - 1) \o <<p>> \o SubSeq(l, i, Len(l))
Stale(st, p) == st.d >= 0 /\ Cmp(p.seq, st.d) <= 0
FirstSeqOk(st) == Len(st.l) > 0 /\ (st.d < 0 \/ Next1(st.l[1].seq, st.d))
Unpack1(c, st) == LET r == Try(c, st.l) IN
                  IF r.ok THEN [ok |-> TRUE, st |-> [l |-> SubSeq(st.l, r.k + 1, Len(st.l)), d |-> r.seq,
                                                     out |-> st.out \o r.u]]
                  ELSE [ok |-> FALSE, st |-> st]
RECURSIVE Drain(_, _)
Drain(c, st) == IF ~FirstSeqOk(st) THEN [st |-> st, cnt |-> 0]
                ELSE LET r == Unpack1(c, st) IN
                     IF ~r.ok THEN [st |-> st, cnt |-> 0]
                     ELSE LET q == Drain(c, r.st) IN [st |-> q.st, cnt |-> q.cnt + 1]
Feed(c, st, p, max) ==
  IF Stale(st, p) THEN st
  ELSE LET s1 == [st EXCEPT !.l = Ins(st.l, p, 1)]
           q  == Drain(c, s1)
       IN IF q.cnt > 0 THEN q.st
          ELSE IF Len(s1.l) >= max
               THEN LET r == Unpack1(c, s1) IN
                    IF ~r.ok THEN [s1 EXCEPT !.l = Tail(s1.l)]      \* drop the oldest packet
                    ELSE Drain(c, r.st).st                          \* forced progress over a gap
               ELSE s1
RECURSIVE RxRun(_, _, _, _, _, _)
RxRun(c, pkts, order, max, st, t) ==
  IF t > Len(order) THEN st ELSE RxRun(c, pkts, order, max, Feed(c, st, pkts[order[t]], max), t + 1)

---------------------------------------------------------------------------
(* The reorder window.  A packet may overtake at most W-1 older packets that have not arrived *)
(* yet; a packet that has already arrived may arrive again at any time; the receiver          *)
(* synchronises on the first packet it sees, so the first arrival is the first packet sent.   *)
(* W follows from the list capacity: the list must hold the fragments of the unit under       *)
(* assembly (at most kmax - 1) and the W - 1 early packets without filling up.                *)
WinOf(max, kmax) == (max - kmax) + 1
RECURSIVE Adv(_, _)
Adv(got, o) == IF o \in got THEN Adv(got, o + 1) ELSE o
RECURSIVE InWinFrom(_, _, _, _, _)
InWinFrom(order, t, got, oldest, W) ==
  IF t > Len(order) THEN TRUE
  ELSE LET i == order[t]
           g2 == got \cup {i}
       IN /\ (i \in got \/ i < oldest + W)
          /\ InWinFrom(order, t + 1, g2, Adv(g2, oldest), W)
InWin(order, N, W) == /\ Len(order) >= 1 /\ order[1] = 1
                      /\ {order[t] : t \in 1..Len(order)} = 1..N
                      /\ InWinFrom(order, 1, {}, 1, W)
=============================================================================

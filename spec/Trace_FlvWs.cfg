SPECIFICATION TraceSpec
CONSTANTS
  LimbB = 65536
  Modes = {}
  TypePool = {}
  LenPool = {}
  TsPool = {}
  MaxTags = 0
CONSTRAINT HighWater
POSTCONDITION Accept
CHECK_DEADLOCK FALSE

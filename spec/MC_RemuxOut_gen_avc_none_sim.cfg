SPECIFICATION Spec
CONSTANTS
  VCodec = "avc"
  ACodec = "none"
  MaxPub = 9
  MaxVer = 3
  VKinds <- AvcAll
  DtPool <- Dt5
  AscPool = {1, 2, 3}
  ProbeMax = 16
  GopNum = 0
  TJoin = TRUE
  RJoin = TRUE
  RMut = "none"
INVARIANTS AllOk EndComplete RAllOk REndComplete
ACTION_CONSTRAINT EmitA

------------------------------- MODULE Lifecycle -------------------------------
(* Session bookkeeping of logic.ServerManager / logic.Group for one stream name (C03, C16, C17). *)
(* Every action is one critical section of the Go code (a public method that takes               *)
(* ServerManager.mutex and then Group.mutex):                                                    *)
(*   NewPub(x)   = OnNewRtmpPubSession / OnNewRtspPubSession      DelPub(x) = OnDelRtmp/RtspPubSession *)
(*   AddCust(x)  = AddCustomizePubSession       DelCust(x) = DelCustomizePubSession              *)
(*   StartPs(x)  = CtrlStartRtpPub              (a GB28181 input ends through Kick)               *)
(*   NewSub(x)   = OnNewRtmpSubSession / OnNewHttpflvSubSession   DelSub(x) = OnDel...SubSession  *)
(*   HlsOpen(x)  = first playlist request of an HLS client (OnNewHlsSubSession)   HlsPoll(x) = a  *)
(*                 request with its session_id   HlsExpire(x) = time-out + sweep (OnDelHlsSubSession)*)
(*   Kick(x)     = CtrlKickSession              Tick = one iteration of the 1 s loop of RunLoop   *)
(*   Probe(x)    = one media message offered by input x (accepted, or a customize input that has  *)
(*                 already been deleted)                                                          *)
(*   StartPull / StopPull = CtrlStartRelayPull / CtrlStopRelayPull; PullOk / PullFail / PullEnd   *)
(*                 = what the origin does to the attempt in flight; Advance = time passes;        *)
(*                 KickPull / KickStale = CtrlKickSession with the attached pull session's id /   *)
(*                 with a pull session id that is not attached (an earlier attempt's)             *)
(* Observations (act.obs): return code, notifications emitted, stream-hook callbacks, attempts.   *)
EXTENDS Integers, Sequences, FiniteSets, TLC, Json

CONSTANTS RtmpPubs, RtspPubs, CustPubs, PsPubs,     \* input sessions (ids)
          RtmpSubs, FlvSubs,                        \* output sessions
          TsSubs,                                   \* HTTP-TS subscribers (what they receive comes out of the TS remuxer: not observed by Probe)
          PullRetry,                                \* pull_retry_num of API-started pulls (-1 = forever)
          PullAuto,                                 \* auto_stop_pull_after_no_out_ms: -1 never, 0 immediately, > 0 window
          PullEnabled,                              \* relay pull actions are part of the model
          HookOn,                                   \* a stream hook is installed (it counts as a consumer: Group.hasSubSession)
          ShutdownEnabled,                          \* server shutdown is part of the model
          PushTargets,                              \* relay push targets (addr_list); {} = relay push off
          ParamLen,                                 \* length of the URL parameters of RTMP publishers (0 = none)
          ProbeMsgs,                                \* messages per Probe (2 when an AAC sequence header precedes the frame)
          MaxTick, MaxAttempts,
          WirePubs,                                 \* RTMP publishers on a real connection served by the server's own routine
          DescribeOn,                               \* RTSP players asking for the description are part of the model
          MaxSweep                                  \* idle sweeps (ticks whose count is a multiple of 120); 0 = not modelled

\* HLS subscribers (hls.sub_session_hash_key set): sessions without a connection - the first playlist request of a
\* client creates one (the 302 answer carries its session_id), every request with that session_id keeps it alive, and
\* the once-per-second sweep of hls.ServerHandler ends it when no request has arrived for sub_session_timeout_ms (or
\* when it has been kicked).  A definition, not a CONSTANT, so that configurations written before it existed still
\* load: a configuration with HLS subscribers overrides it (HlsSubs <- Hls1 / Hls2).
HlsSubs == {}
Hls1 == {"h1"}
Hls2 == {"h1", "h2"}
\* Messages the accepted relay pull delivers by itself when it attaches.  The pull machine is the same for an RTMP and an
\* RTSP origin; the one difference an observer sees is that an RTSP origin *describes* the stream (SDP with H.264 parameter
\* sets and the AAC configuration), and lal turns that description into metadata + video header + audio header messages
\* as soon as the session attaches - media of the accepted input, seen by the stream hook.  (How lal does it: the
\* properties only demand that whatever is forwarded comes from the accepted input.)  0 for an RTMP origin; the
\* configurations with an RTSP origin override it (PullHdrMsgs <- PullHdrRtsp).
PullHdrMsgs == 0
PullHdrRtsp == 3
\* RTSP players that stay (C03: which description does the stream hand out): a player asks for the description of the
\* stream on its own connection (DESCRIBE) and is answered at once if the accepted input has one, otherwise it stays
\* parked until an input that has one is accepted.  A definition like HlsSubs (Players <- Pl1).
Players == {}
Pl1 == {"v1"}

NetPubs == RtmpPubs \cup RtspPubs \cup WirePubs
\* sessions whose server goroutine reports their departure as soon as they are disposed (the driver owns
\* that goroutine for RtmpPubs / Subs, which are attached and deleted by direct calls)
AutoPubs == RtspPubs \cup WirePubs
Pubs == NetPubs \cup CustPubs \cup PsPubs
Subs == RtmpSubs \cup FlvSubs \cup TsSubs    \* subscribers on a connection (attached / deleted by NewSub / DelSub)
AllSubs == Subs \cup HlsSubs
FwdSubs == RtmpSubs \cup FlvSubs      \* subscribers a forwarded probe message reaches at once
Sessions == Pubs \cup AllSubs

VARIABLES grp,      \* the group exists
          inp,      \* accepted input: "" | session id | "pull"
          owner,    \* input for which the current pipeline (remuxers, hook, recorders) was set up
          ss,       \* session state: idle | in | refused | gone
          closed,   \* session has been disposed by a kick (its owner goroutine will call Del)
          nh,       \* notification state per session: none | started | stopped
          pull,     \* relay pull module
          clock,    \* abstract time: number of auto-stop windows that have elapsed
          nticks,
          push,     \* relay push per target: [s: idle | conn (connecting) | att (attached), n: length of the URL parameters the
                    \* connection being set up carries]; patt = connection attempts seen
          patt,
          down,     \* the server has been shut down (ServerManager.Dispose): nothing happens any more
          idl,      \* idle check per session (BasicSessionStat.staleStat): new (never checked) | moved | still
          nsweeps,
          pl,       \* RTSP players: [s: idle | parked (asked, no description yet) | got | gone, d: whose description it was given]
          act

vars == <<grp, inp, owner, ss, closed, nh, pull, clock, nticks, push, patt, down, idl, nsweeps, pl, act>>
View == <<grp, inp, owner, ss, closed, nh, pull, clock, nticks, push, patt, down, idl, nsweeps, pl>>
PlIdle == [s |-> "idle", d |-> ""]

PIdle == [s |-> "idle", n |-> 0]
PullInit == [api |-> FALSE, flying |-> FALSE, att |-> FALSE, n |-> 0, lastOut |-> 0, attempts |-> 0, gen |-> 0]

Init == /\ grp = FALSE /\ inp = "" /\ owner = ""
        /\ ss = [x \in Sessions |-> "idle"] /\ closed = [x \in Sessions |-> FALSE]
        /\ nh = [x \in Sessions |-> "none"]
        /\ pull = PullInit /\ clock = 0 /\ nticks = 0 /\ down = FALSE
        /\ push = [t \in PushTargets |-> PIdle] /\ patt = 0
        /\ idl = [x \in Sessions |-> "new"] /\ nsweeps = 0
        /\ pl = [x \in Players |-> PlIdle]
        /\ act = [name |-> "init"]

PlAttached(x) == pl[x].s \in {"parked", "got"}      \* (lal counts a player as a subscriber from DESCRIBE on)
HasSub == (\E x \in AllSubs : ss[x] = "in") \/ (\E x \in Players : PlAttached(x))
\* Group.hasSubSession(): subscribers of any protocol (HLS sessions too), or an installed stream hook
HasOutM == HasSub \/ (HookOn /\ owner # "")
HasIn == inp # ""

N(ev, x) == [ev |-> ev, id |-> x]

\* ---- relay pull predicates (group__relay_pull.go)
ShouldAutoStop(p, hasSub, now) ==
  /\ PullAuto >= 0 /\ ~hasSub
  /\ (PullAuto = 0 \/ now - p.lastOut >= 1)
ShouldStartPull(p, hasIn, hasSub, now) ==
  /\ ~hasIn /\ ~p.flying /\ p.api /\ ~ShouldAutoStop(p, hasSub, now)
  /\ (PullRetry < 0 \/ p.n <= PullRetry)
\* pullIfNeeded: returns the new module state
PullIfNeeded(p, hasIn, hasSub, now) ==
  IF ShouldStartPull(p, hasIn, hasSub, now)
    THEN [p EXCEPT !.flying = TRUE, !.n = @ + 1, !.attempts = @ + 1, !.gen = @ + 1]
    ELSE p

\* a subscriber arrives (Group.addSub): a consumer is present now, whether or not a tick sees it before it leaves again -
\* "attempted only while ... a consumer has been present within the configured window"
Seen(p) == [p EXCEPT !.lastOut = clock]
\* a group created now starts its pull module with lastHasOutTs = now
Created(p) == IF grp THEN p ELSE [PullInit EXCEPT !.lastOut = clock, !.attempts = p.attempts]

\* ---- the pipeline of an input
AddIn(x)  == IF HookOn THEN <<N("hook_start", x)>> ELSE <<>>
DelInEv   == IF HookOn /\ owner # "" THEN <<N("hook_stop", owner)>> ELSE <<>>

Obs(ret, notif, hook) == [ret |-> ret, notif |-> notif, hook |-> hook, attempts |-> pull.attempts]
ObsP(ret, notif, hook, p) == [ret |-> ret, notif |-> notif, hook |-> hook, attempts |-> p.attempts]
\* relay push (group__relay_push.go): startPushIfNeeded starts one connection per idle target while an
\* RTMP or RTSP publisher is the input (on its arrival and on every tick)
Pushable(i) == i \in NetPubs
\* a connection being set up carries the URL parameters of the RTMP publisher it was started under; every RTMP
\* publisher has parameters of its own (the driver derives the same length from the session id)
PLenOf(i) == IF i \in RtmpPubs /\ ParamLen > 0 THEN ParamLen + 7 * (Len(i) - 2) ELSE 0
Conn(p) == p.s = "conn"
StartPush(pu, i) == IF Pushable(i) THEN [t \in PushTargets |-> IF pu[t].s = "idle" THEN [s |-> "conn", n |-> PLenOf(i)] ELSE pu[t]] ELSE pu
NStarted(pu, i) == IF Pushable(i) THEN Cardinality({t \in PushTargets : pu[t].s = "idle"}) ELSE 0
\* stopPushIfNeeded (delIn): attached push sessions are closed; connections still being set up are not touched
StopPush(pu) == [t \in PushTargets |-> IF pu[t].s = "att" THEN PIdle ELSE pu[t]]
NAtt(pu) == Cardinality({t \in PushTargets : pu[t].s = "att"})

---------------------------------------------------------------------------
NewPub(x) ==
  /\ x \in NetPubs /\ ss[x] = "idle"
  /\ grp' = TRUE
  /\ IF ~HasIn
       THEN /\ ss' = [ss EXCEPT ![x] = "in"] /\ inp' = x /\ owner' = x
            /\ nh' = [nh EXCEPT ![x] = "started"]
            /\ act' = [name |-> "NewPub", x |-> x, obs |-> Obs("ok", <<N("pub_start", x)>>, AddIn(x))]
       ELSE /\ ss' = [ss EXCEPT ![x] = "refused"]
            /\ act' = [name |-> "NewPub", x |-> x, obs |-> Obs("dup", <<>>, <<>>)]
            /\ UNCHANGED <<inp, owner, nh>>
  /\ pull' = Created(pull)
  /\ UNCHANGED <<closed, clock, nticks>>

\* the server calls OnDel...PubSession once the accepted session's read loop has ended
DelPub(x) ==
  /\ x \in NetPubs /\ ss[x] = "in" /\ grp
  /\ ss' = [ss EXCEPT ![x] = "gone"]
  /\ nh' = [nh EXCEPT ![x] = "stopped"]
  /\ IF inp = x
       THEN /\ inp' = "" /\ owner' = ""
            /\ act' = [name |-> "DelPub", x |-> x, obs |-> Obs("ok", <<N("pub_stop", x)>>, DelInEv)]
       ELSE /\ act' = [name |-> "DelPub", x |-> x, obs |-> Obs("ok", <<N("pub_stop", x)>>, <<>>)]
            /\ UNCHANGED <<inp, owner>>
  /\ UNCHANGED <<grp, closed, pull, clock, nticks>>

AddCust(x) ==
  /\ x \in CustPubs /\ ss[x] = "idle"
  /\ grp' = TRUE
  /\ IF ~HasIn
       THEN /\ ss' = [ss EXCEPT ![x] = "in"] /\ inp' = x /\ owner' = x
            /\ act' = [name |-> "AddCust", x |-> x, obs |-> Obs("ok", <<>>, AddIn(x))]
       ELSE /\ ss' = [ss EXCEPT ![x] = "refused"]
            /\ act' = [name |-> "AddCust", x |-> x, obs |-> Obs("dup", <<>>, <<>>)]
            /\ UNCHANGED <<inp, owner>>
  /\ pull' = Created(pull)
  /\ UNCHANGED <<closed, nh, clock, nticks>>

DelCust(x) ==
  /\ x \in CustPubs /\ ss[x] = "in" /\ grp
  /\ ss' = [ss EXCEPT ![x] = "gone"]
  /\ IF inp = x
       THEN /\ inp' = "" /\ owner' = ""
            /\ act' = [name |-> "DelCust", x |-> x, obs |-> Obs("ok", <<>>, DelInEv)]
       ELSE /\ act' = [name |-> "DelCust", x |-> x, obs |-> Obs("ok", <<>>, <<>>)]
            /\ UNCHANGED <<inp, owner>>
  /\ UNCHANGED <<grp, closed, nh, pull, clock, nticks>>

\* start_rtp_pub: an input like any other -- refused with an error code while another is accepted
StartPs(x) ==
  /\ x \in PsPubs /\ ss[x] = "idle"
  /\ grp' = TRUE
  /\ IF ~HasIn
       THEN /\ ss' = [ss EXCEPT ![x] = "in"] /\ inp' = x /\ owner' = x
            /\ act' = [name |-> "StartPs", x |-> x, obs |-> Obs("ok", <<>>, AddIn(x))]
       ELSE /\ ss' = [ss EXCEPT ![x] = "refused"]
            /\ act' = [name |-> "StartPs", x |-> x, obs |-> Obs("dup", <<>>, <<>>)]
            /\ UNCHANGED <<inp, owner>>
  /\ pull' = Created(pull)
  /\ UNCHANGED <<closed, nh, clock, nticks>>

NewSub(x) ==
  /\ x \in Subs /\ ss[x] = "idle"
  /\ grp' = TRUE
  /\ ss' = [ss EXCEPT ![x] = "in"]
  /\ nh' = [nh EXCEPT ![x] = "started"]
  /\ pull' = IF PullEnabled THEN PullIfNeeded(Seen(Created(pull)), HasIn, TRUE, clock) ELSE pull     \* addSub -> pullIfNeeded
  /\ act' = [name |-> "NewSub", x |-> x, obs |-> ObsP("ok", <<N("sub_start", x)>>, <<>>, pull')]
  /\ UNCHANGED <<inp, owner, closed, clock, nticks>>

DelSub(x) ==
  /\ x \in Subs /\ ss[x] = "in" /\ grp
  /\ ss' = [ss EXCEPT ![x] = "gone"]
  /\ nh' = [nh EXCEPT ![x] = "stopped"]
  /\ act' = [name |-> "DelSub", x |-> x, obs |-> Obs("ok", <<N("sub_stop", x)>>, <<>>)]
  /\ UNCHANGED <<grp, inp, owner, closed, pull, clock, nticks>>

\* ---- HLS subscribers (pkg/hls/server_handler.go, ServerManager.OnNewHlsSubSession / OnDelHlsSubSession)
\* the first playlist request of a client: a session is created and attached like any other subscriber (group created,
\* sub_start, listed by the stat API, Group.addSub -> pullIfNeeded); the client is redirected to the same playlist with
\* the session_id of its session
HlsOpen(x) ==
  /\ x \in HlsSubs /\ ss[x] = "idle"
  /\ grp' = TRUE
  /\ ss' = [ss EXCEPT ![x] = "in"]
  /\ nh' = [nh EXCEPT ![x] = "started"]
  /\ pull' = IF PullEnabled THEN PullIfNeeded(Seen(Created(pull)), HasIn, TRUE, clock) ELSE pull
  /\ act' = [name |-> "HlsOpen", x |-> x, obs |-> ObsP("ok", <<N("sub_start", x)>>, <<>>, pull')]
  /\ UNCHANGED <<inp, owner, closed, clock, nticks>>

\* a request carrying the session_id (for the playlist or for a segment): served while the session exists (that is what
\* keeps it alive); the id of a session that has ended is refused, and nothing else happens - in particular no session
\* comes into being
HlsPoll(x) ==
  /\ x \in HlsSubs /\ ss[x] \in {"in", "gone"}
  /\ \E how \in {"m3u8", "ts"} :
       act' = [name |-> "HlsPoll", x |-> x, how |-> how, obs |-> Obs(IF ss[x] = "in" THEN "ok" ELSE "nosession", <<>>, <<>>)]
  /\ UNCHANGED <<grp, inp, owner, ss, closed, nh, pull, clock, nticks>>

\* the client of x stops asking: sub_session_timeout_ms passes without a request with its session_id and the next sweep
\* ends the session (the timer is abstract: while a session is attached and this action has not been taken its client
\* asks often enough - the driver keeps such sessions alive by requests in the background)
HlsExpire(x) ==
  /\ x \in HlsSubs /\ ss[x] = "in" /\ grp
  /\ ss' = [ss EXCEPT ![x] = "gone"]
  /\ nh' = [nh EXCEPT ![x] = "stopped"]
  /\ act' = [name |-> "HlsExpire", x |-> x, obs |-> Obs("ok", <<N("sub_stop", x)>>, <<>>)]
  /\ UNCHANGED <<grp, inp, owner, closed, pull, clock, nticks>>

\* the address of client x is put on the IP black-list (add_ip_blacklist) and x asks again with its session_id: the
\* session ends at that request - one sub_stop, like any other departure -, the request (and a retry) gets no content,
\* and the handler's sweep has nothing left to report.  From then on x is refused like any client whose session has
\* ended (HlsPoll).  Every client has an address of its own.
HlsBlacklist(x) ==
  /\ x \in HlsSubs /\ ss[x] = "in" /\ grp
  /\ ss' = [ss EXCEPT ![x] = "gone"]
  /\ nh' = [nh EXCEPT ![x] = "stopped"]
  /\ act' = [name |-> "HlsBlacklist", x |-> x, obs |-> Obs("ok", <<N("sub_stop", x)>>, <<>>)]
  /\ UNCHANGED <<grp, inp, owner, closed, pull, clock, nticks>>

\* time passes - more than sub_session_timeout_ms and a sweep - while every attached client keeps asking: nothing happens
\* (requests with the session_id are what keeps a session alive).  Only in configurations that ask for it
\* (HlsLingerOn <- Yes): the step costs real time.
HlsLingerOn == FALSE
Yes == TRUE
HlsLinger ==
  /\ HlsLingerOn /\ \E x \in HlsSubs : ss[x] = "in"
  /\ act' = [name |-> "HlsLinger", obs |-> Obs("ok", <<>>, <<>>)]
  /\ UNCHANGED <<grp, inp, owner, ss, closed, nh, pull, clock, nticks>>

\* kick_session: only attached network sessions (and GB28181 inputs) can be kicked; a customize
\* input has no kickable id.  A kicked GB28181 input is torn down by its own goroutine at once
\* (the driver waits for it); the others are deleted by their server goroutine (DelPub / DelSub).
Kickable(x) == ss[x] = "in" /\ x \notin CustPubs     \* (kicking an attached session twice succeeds twice)
Kick(x) ==
  /\ x \in Sessions
  /\ IF ~grp
       THEN /\ act' = [name |-> "Kick", x |-> x, obs |-> Obs("nogroup", <<>>, <<>>)]
            /\ UNCHANGED <<ss, closed, inp, owner>>
       ELSE IF ~Kickable(x)
         THEN /\ act' = [name |-> "Kick", x |-> x, obs |-> Obs("nosession", <<>>, <<>>)]
              /\ UNCHANGED <<ss, closed, inp, owner>>
         ELSE IF x \in PsPubs \cup AutoPubs \cup HlsSubs     \* served by their own goroutine: the departure follows at once
           \* (a kicked HLS session is only flagged; the sweep of hls.ServerHandler, which runs once a second on its
           \*  own, reports its departure - the action is the kick together with that sweep)
           THEN /\ ss' = [ss EXCEPT ![x] = "gone"]
                /\ IF inp = x THEN inp' = "" /\ owner' = "" ELSE UNCHANGED <<inp, owner>>
                /\ act' = [name |-> "Kick", x |-> x,
                           obs |-> Obs("ok", IF x \in AutoPubs THEN <<N("pub_stop", x)>>
                                             ELSE IF x \in HlsSubs THEN <<N("sub_stop", x)>> ELSE <<>>,
                                       IF inp = x THEN DelInEv ELSE <<>>)]
                /\ UNCHANGED closed
           ELSE /\ closed' = [closed EXCEPT ![x] = TRUE]
                /\ act' = [name |-> "Kick", x |-> x, obs |-> Obs("ok", <<>>, <<>>)]
                /\ UNCHANGED <<ss, inp, owner>>
  /\ nh' = IF grp /\ Kickable(x) /\ x \in AutoPubs \cup HlsSubs THEN [nh EXCEPT ![x] = "stopped"] ELSE nh
  /\ UNCHANGED <<grp, pull, clock, nticks>>

\* one media message offered by x: forwarded (the stream hook sees it) iff x is the accepted input
\* (a GB28181 input that has ended: its device goes on sending on the connection it had - TCP mode)
Probe(x) ==
  /\ x \in Pubs /\ (ss[x] = "in" \/ (x \in CustPubs \cup PsPubs /\ ss[x] = "gone"))
  /\ LET hk  == IF HookOn /\ inp = x /\ owner # "" THEN [i \in 1..ProbeMsgs |-> N("hook_msg", owner)] ELSE <<>>
         fwd == inp = x /\ \E y \in FwdSubs : ss[y] = "in" /\ ~closed[y]     \* an attached, un-kicked subscriber received it
     IN act' = [name |-> "Probe", x |-> x,
                obs |-> [ret |-> IF hk # <<>> \/ fwd THEN "ok" ELSE "rejected",   \* "ok" = it had an observable effect
                         notif |-> <<>>, hook |-> hk, attempts |-> pull.attempts, fwd |-> fwd]]
  /\ UNCHANGED <<grp, inp, owner, ss, closed, nh, pull, clock, nticks>>

\* one media message of the relay pull that is attached (it is the accepted input)
ProbePull ==
  /\ PullEnabled /\ pull.att /\ inp = "pull"
  /\ LET hk  == IF HookOn /\ owner # "" THEN [i \in 1..ProbeMsgs |-> N("hook_msg", owner)] ELSE <<>>
         fwd == \E y \in FwdSubs : ss[y] = "in" /\ ~closed[y]
     IN act' = [name |-> "ProbePull",
                obs |-> [ret |-> IF hk # <<>> \/ fwd THEN "ok" ELSE "rejected",
                         notif |-> <<>>, hook |-> hk, attempts |-> pull.attempts, fwd |-> fwd]]
  /\ UNCHANGED <<grp, inp, owner, ss, closed, nh, pull, clock, nticks>>

\* Tick: an empty group whose pull module is not alive is disposed and removed; otherwise Group.Tick
PullAlive == pull.att \/ pull.flying \/ ShouldStartPull(pull, HasIn, HasOutM, clock)
Inactive == ~HasIn /\ ~HasSub /\ ~(PullEnabled /\ PullAlive)
\* what the end of the attached pull session does (DelRtmpPullSession): used by PullEnd and by the
\* actions that dispose it (stop_relay_pull, kick, auto-stop), whose goroutine runs to completion at once
EndNotif == <<N("pull_stop", "pull")>>
EndHook == IF inp = "pull" THEN DelInEv ELSE <<>>

Tick ==
  /\ nticks < MaxTick
  /\ nticks' = nticks + 1
  /\ IF ~grp THEN /\ act' = [name |-> "Tick", obs |-> Obs("ok", <<>>, <<>>)] /\ UNCHANGED <<grp, pull, inp, owner>>
     ELSE IF Inactive
       THEN /\ grp' = FALSE /\ pull' = [PullInit EXCEPT !.attempts = pull.attempts]
            /\ act' = [name |-> "Tick", obs |-> Obs("ok", <<>>, <<>>)]
            /\ UNCHANGED <<inp, owner>>
       ELSE /\ grp' = grp
            /\ IF ~PullEnabled THEN /\ pull' = pull /\ UNCHANGED <<inp, owner>>
                                     /\ act' = [name |-> "Tick", obs |-> Obs("ok", <<>>, <<>>)]
               ELSE LET p1 == IF HasOutM THEN [pull EXCEPT !.lastOut = clock] ELSE pull
                    IN IF ShouldAutoStop(p1, HasOutM, clock)
                         THEN IF p1.att        \* stopPull disposes the attached session: it ends now
                                THEN /\ pull' = [p1 EXCEPT !.n = 0, !.att = FALSE, !.flying = FALSE]
                                     /\ inp' = IF inp = "pull" THEN "" ELSE inp
                                     /\ owner' = IF inp = "pull" THEN "" ELSE owner
                                     /\ act' = [name |-> "Tick", obs |-> Obs("ok", EndNotif, EndHook)]
                                ELSE /\ pull' = [p1 EXCEPT !.n = 0] /\ UNCHANGED <<inp, owner>>
                                     /\ act' = [name |-> "Tick", obs |-> Obs("ok", <<>>, <<>>)]
                         ELSE /\ pull' = PullIfNeeded(p1, HasIn, HasOutM, clock) /\ UNCHANGED <<inp, owner>>
                              /\ act' = [name |-> "Tick", obs |-> ObsP("ok", <<>>, <<>>, pull')]
  /\ UNCHANGED <<ss, closed, nh, clock>>

---------------------------------------------------------------------------
(* Relay pull (C17).                                                                              *)
StartPull ==
  /\ PullEnabled /\ pull.attempts < MaxAttempts
  /\ grp' = TRUE
  /\ LET p1 == [Created(pull) EXCEPT !.api = TRUE]
         go == ShouldStartPull(p1, HasIn, HasOutM, clock)
     IN /\ pull' = PullIfNeeded(p1, HasIn, HasOutM, clock)
        /\ act' = [name |-> "StartPull", obs |-> ObsP(IF go THEN "ok" ELSE "fail", <<>>, <<>>, pull')]
  /\ UNCHANGED <<inp, owner, ss, closed, nh, clock, nticks>>

\* stop_relay_pull: the module is disabled; an attached pull session is closed (its goroutine then
\* runs PullEnd); an attempt still in flight will find the module disabled when it connects.
StopPull ==
  /\ PullEnabled
  /\ IF ~grp
       THEN /\ act' = [name |-> "StopPull", obs |-> Obs("nogroup", <<>>, <<>>)] /\ UNCHANGED <<pull, inp, owner>>
       ELSE IF pull.att
         THEN /\ pull' = [pull EXCEPT !.api = FALSE, !.n = 0, !.att = FALSE, !.flying = FALSE]
              /\ inp' = IF inp = "pull" THEN "" ELSE inp
              /\ owner' = IF inp = "pull" THEN "" ELSE owner
              /\ act' = [name |-> "StopPull", obs |-> Obs("ok", EndNotif, EndHook)]
         ELSE /\ pull' = [pull EXCEPT !.api = FALSE, !.n = 0]
              /\ act' = [name |-> "StopPull", obs |-> Obs("nosession", <<>>, <<>>)]
              /\ UNCHANGED <<inp, owner>>
  /\ UNCHANGED <<grp, ss, closed, nh, clock, nticks>>

\* kick_session with the id of the attached pull session: the module is disabled and the session ends
KickPull ==
  /\ PullEnabled
  /\ IF ~grp
       THEN /\ act' = [name |-> "KickPull", obs |-> Obs("nogroup", <<>>, <<>>)] /\ UNCHANGED <<pull, inp, owner>>
       ELSE IF pull.att
         THEN /\ pull' = [pull EXCEPT !.api = FALSE, !.n = 0, !.att = FALSE, !.flying = FALSE]
              /\ inp' = IF inp = "pull" THEN "" ELSE inp
              /\ owner' = IF inp = "pull" THEN "" ELSE owner
              /\ act' = [name |-> "KickPull", obs |-> Obs("ok", EndNotif, EndHook)]
         ELSE /\ act' = [name |-> "KickPull", obs |-> Obs("nosession", <<>>, <<>>)]
              /\ UNCHANGED <<pull, inp, owner>>
  /\ UNCHANGED <<grp, ss, closed, nh, clock, nticks>>

\* kick_session with a pull session id that is not the attached one (the id of an attempt that has ended, which is
\* what start_relay_pull handed to the caller before a retry): answered 1003, the accepted pull is left alone
KickStale ==
  /\ PullEnabled
  /\ act' = [name |-> "KickStale", obs |-> Obs(IF grp THEN "nosession" ELSE "nogroup", <<>>, <<>>)]
  /\ UNCHANGED <<grp, ss, closed, nh, clock, nticks, pull, inp, owner>>

\* the origin accepts the attempt in flight: AddRtmpPullSession under the group lock
PullOk ==
  /\ PullEnabled /\ pull.flying /\ ~pull.att
  /\ IF ~HasIn /\ pull.api       \* (a module that was disabled while the attempt was in flight refuses it)
       THEN /\ inp' = "pull" /\ owner' = "pull"
            /\ pull' = [pull EXCEPT !.att = TRUE]
            /\ act' = [name |-> "PullOk",
                       obs |-> Obs("ok", <<N("pull_start", "pull")>>,
                                   AddIn("pull") \o (IF HookOn THEN [i \in 1..PullHdrMsgs |-> N("hook_msg", "pull")] ELSE <<>>))]
       ELSE \* overtaken by a publisher: refused, disposed; the goroutine's DelRtmpPullSession follows at once
            /\ pull' = [pull EXCEPT !.flying = FALSE]
            /\ act' = [name |-> "PullOk", obs |-> Obs("dup", <<N("pull_stop", "pull")>>, <<>>)]
            /\ UNCHANGED <<inp, owner>>
  /\ UNCHANGED <<grp, ss, closed, nh, clock, nticks>>

\* the origin refuses / drops the attempt in flight before it attached
PullFail ==
  /\ PullEnabled /\ pull.flying /\ ~pull.att
  /\ pull' = [pull EXCEPT !.flying = FALSE]
  /\ act' = [name |-> "PullFail", obs |-> Obs("ok", <<N("pull_stop", "pull")>>, <<>>)]
  /\ UNCHANGED <<grp, inp, owner, ss, closed, nh, clock, nticks>>

\* the attached pull session ends (origin closes, stop / kick / auto-stop disposed it)
PullEnd ==
  /\ PullEnabled /\ pull.att
  /\ pull' = [pull EXCEPT !.flying = FALSE, !.att = FALSE]
  /\ inp' = IF inp = "pull" THEN "" ELSE inp
  /\ owner' = IF inp = "pull" THEN "" ELSE owner
  /\ act' = [name |-> "PullEnd", obs |-> Obs("ok", <<N("pull_stop", "pull")>>, IF inp = "pull" THEN DelInEv ELSE <<>>)]
  /\ UNCHANGED <<grp, ss, closed, nh, clock, nticks>>

Advance ==
  /\ PullEnabled /\ PullAuto > 0 /\ clock < 3
  /\ clock' = clock + 1
  /\ act' = [name |-> "Advance", obs |-> Obs("ok", <<>>, <<>>)]
  /\ UNCHANGED <<grp, inp, owner, ss, closed, nh, pull, nticks>>

\* server shutdown (ServerManager.Dispose): every group is disposed - sessions closed (an attached relay
\* pull session too: its own goroutine then reports the end of the pull), the input's pipeline finalised
\* (delIn) - and nothing else is notified
Shutdown ==
  /\ ShutdownEnabled /\ ~down
  /\ down' = TRUE
  /\ inp' = "" /\ owner' = ""
  /\ closed' = [x \in Sessions |-> closed[x] \/ (ss[x] = "in" /\ x \notin CustPubs \cup HlsSubs)]
  /\ pull' = [pull EXCEPT !.att = FALSE, !.flying = FALSE]
  /\ act' = [name |-> "Shutdown", obs |-> Obs("ok", IF pull.att THEN EndNotif ELSE <<>>, IF grp THEN DelInEv ELSE <<>>)]
  /\ push' = StopPush(push) /\ patt' = patt
  /\ UNCHANGED <<grp, ss, nh, clock, nticks>>

\* an RTSP publisher's keep-alive (OPTIONS on the command connection): answered, and nothing else
KeepAlive(x) ==
  /\ MaxSweep > 0 /\ x \in RtspPubs /\ ss[x] = "in"
  /\ act' = [name |-> "KeepAlive", x |-> x, obs |-> Obs("ok", <<>>, <<>>)]
  /\ UNCHANGED <<grp, inp, owner, ss, closed, nh, pull, clock, nticks>>

\* a second ANNOUNCE, or a DESCRIBE, on the command connection of an accepted RTSP publisher: a connection is one
\* publisher or one player, once; the request is refused and the connection ends, which is the departure of the
\* publisher it carried (reported like any other departure)
Misuse(x) ==
  /\ DescribeOn /\ x \in RtspPubs /\ ss[x] = "in" /\ grp
  /\ ss' = [ss EXCEPT ![x] = "gone"]
  /\ nh' = [nh EXCEPT ![x] = "stopped"]
  /\ IF inp = x THEN inp' = "" /\ owner' = "" ELSE UNCHANGED <<inp, owner>>
  /\ \E how \in {"announce", "describe"} :
       act' = [name |-> "Misuse", x |-> x, how |-> how,
               obs |-> Obs("ok", <<N("pub_stop", x)>>, IF inp = x THEN DelInEv ELSE <<>>)]
  /\ UNCHANGED <<grp, closed, pull, clock, nticks>>

\* an RTSP player asks for the description of the stream (and hangs up again): it is answered at once iff an input
\* that has been described is attached - here: an RTSP publisher (its ANNOUNCE carried the description); for the other
\* inputs of this model no description exists (the remuxer's analysis has not seen 16 messages), and the description
\* of an input that is gone must not be handed out
Describe ==
  /\ DescribeOn /\ ~PullEnabled
  /\ \E k \in {1, 2} :      \* k = 2: the player repeats the DESCRIBE on its connection (refused; still one session, one pair)
       act' = [name |-> "Describe", k |-> k,
               obs |-> Obs(IF inp \in RtspPubs THEN "sdp" ELSE "wait",
                           <<N("sub_start", "player"), N("sub_stop", "player")>>, <<>>)]   \* (lal counts it as a subscriber from DESCRIBE on)
  /\ grp' = TRUE     \* (the group is created for the asking session)
  /\ UNCHANGED <<inp, owner, ss, closed, nh, pull, clock, nticks>>

\* ---- RTSP players that stay (C03: the stream's description is that of the accepted input)
\* The description of the stream is the accepted input's: an RTSP publisher announced it, an RTSP origin described
\* the stream the pull carries; the other inputs of this model have none (the driver never sends the 16 messages from
\* which lal would build one).  An input that was refused, or has left, describes nothing: "neither that refusal nor
\* the later departure of any session other than the accepted input changes ... the stream's outputs".
DescOf(i) == IF i \in RtspPubs THEN i ELSE IF i = "pull" /\ PullHdrMsgs > 0 THEN "pull" ELSE ""
PlayerAsk(x) ==
  /\ x \in Players /\ pl[x].s = "idle"
  /\ grp' = TRUE     \* (the group is created for the asking session)
  /\ pull' = Created(pull)
  /\ LET d == DescOf(inp)
     IN /\ pl' = [pl EXCEPT ![x] = [s |-> IF d = "" THEN "parked" ELSE "got", d |-> d]]
        /\ act' = [name |-> "PlayerAsk", x |-> x,
                   obs |-> ObsP(IF d = "" THEN "wait" ELSE "sdp:" \o d, <<N("sub_start", x)>>, <<>>, pull')]
  /\ UNCHANGED <<inp, owner, ss, closed, nh, clock, nticks>>
\* the player hangs up
PlayerBye(x) ==
  /\ x \in Players /\ PlAttached(x) /\ grp
  /\ pl' = [pl EXCEPT ![x] = [s |-> "gone", d |-> ""]]
  /\ act' = [name |-> "PlayerBye", x |-> x, obs |-> Obs("ok", <<N("sub_stop", x)>>, <<>>)]
  /\ UNCHANGED <<grp, inp, owner, ss, closed, nh, pull, clock, nticks>>
PlayerStep == \E x \in Players : PlayerAsk(x) \/ PlayerBye(x)
\* what a step of the session bookkeeping does to the players: a parked player is answered when an input that has a
\* description becomes the accepted one - and by nothing else
PlayFx == pl' = [x \in Players |-> IF pl[x].s = "parked" /\ inp' # inp /\ DescOf(inp') # ""
                                    THEN [s |-> "got", d |-> DescOf(inp')] ELSE pl[x]]

Step == \/ \E x \in NetPubs : NewPub(x) \/ DelPub(x)
        \/ \E x \in CustPubs : AddCust(x) \/ DelCust(x)
        \/ \E x \in PsPubs : StartPs(x)
        \/ \E x \in Subs : NewSub(x) \/ DelSub(x)
        \/ \E x \in HlsSubs : HlsOpen(x) \/ HlsPoll(x) \/ HlsExpire(x) \/ HlsBlacklist(x)
        \/ HlsLinger
        \/ \E x \in Sessions : Kick(x)
        \/ \E x \in Pubs : Probe(x)
        \/ \E x \in RtspPubs : KeepAlive(x) \/ Misuse(x)
        \/ Describe
        \/ Tick \/ StartPull \/ StopPull \/ KickPull \/ KickStale \/ PullOk \/ PullFail \/ PullEnd \/ Advance \/ ProbePull
\* (one conjunction, so that TLC's simulator chooses uniformly among successor states instead of
\*  picking the Shutdown disjunct half of the time)
\* after the shutdown nothing happens; Halt only exists so that a simulated behaviour still has a
\* step after Shutdown (the emission prints the action that led to the current state)
Halt == /\ down /\ act.name # "Halt" /\ act' = [name |-> "Halt"]
        /\ UNCHANGED <<grp, inp, owner, ss, closed, nh, pull, clock, nticks, push, patt, down, idl, nsweeps, pl>>
\* what a step of the session bookkeeping does to relay push
PushFx ==
  IF grp /\ ~grp' THEN push' = [t \in PushTargets |-> PIdle] /\ patt' = patt          \* group removed
  ELSE IF inp # "" /\ inp' = "" THEN push' = StopPush(push) /\ patt' = patt              \* delIn
  ELSE IF (inp' # inp /\ Pushable(inp')) \/ (act'.name = "Tick" /\ grp')                 \* addIn / Group.Tick
    THEN push' = StartPush(push, inp') /\ patt' = patt + NStarted(push, inp')
  ELSE push' = push /\ patt' = patt

\* the push target accepts the connection (handshake, connect, publish): the session attaches if an RTMP /
\* RTSP publisher is (still) the input, otherwise it is closed again
PushOk(t) ==
  /\ Conn(push[t])
  /\ push' = [push EXCEPT ![t] = IF Pushable(inp) THEN [s |-> "att", n |-> 0] ELSE PIdle]
  /\ act' = [name |-> "PushOk", x |-> t,
             obs |-> Obs(IF Pushable(inp) THEN "ok" ELSE "late", <<>>, <<>>),
             plen |-> push[t].n]
PushFail(t) ==
  /\ Conn(push[t])
  /\ push' = [push EXCEPT ![t] = PIdle]
  /\ act' = [name |-> "PushFail", x |-> t, obs |-> Obs("ok", <<>>, <<>>)]
PushEnd(t) ==
  /\ push[t].s = "att"
  /\ push' = [push EXCEPT ![t] = PIdle]
  /\ act' = [name |-> "PushEnd", x |-> t, obs |-> Obs("ok", <<>>, <<>>)]
PushStep == /\ \E t \in PushTargets : PushOk(t) \/ PushFail(t) \/ PushEnd(t)
            /\ patt' = patt
            /\ UNCHANGED <<grp, inp, owner, ss, closed, nh, pull, clock, nticks>>

\* ---- idle check (Group.disposeInactiveSessions, every 120th tick; BasicSessionStat.isAlive): the first
\* check of a session only records its byte counters; a later check disposes it when no byte has moved
\* since the previous one - read bytes for publishers, written bytes for subscribers.
\* Bytes move when a Probe travels through the session's connection: a wire publisher that sends it, a
\* subscriber it is forwarded to (the RtmpPubs / RtspPubs of the driver hand their media to the group
\* directly, so their connections never carry a byte).
\* In the configurations with idle sweeps the RTSP publishers of the driver are set up completely (SETUP interleaved,
\* RECORD) and a probe is accompanied by an RTCP sender report on the connection - media-side bytes.  Requests on the
\* command connection (KeepAlive) are not media: a publisher that only sends those has stopped sending.
Touched(x, p) == \/ (x = p /\ p \in WirePubs /\ ss[p] = "in")
                 \/ (x = p /\ p \in RtspPubs /\ ss[p] = "in" /\ MaxSweep > 0)
                 \/ (x \in FwdSubs /\ ss[x] = "in" /\ ~closed[x] /\ inp = p)
IdlFx == idl' = IF act'.name = "Probe"
                  THEN [x \in Sessions |-> IF idl[x] = "still" /\ Touched(x, act'.x) THEN "moved" ELSE idl[x]]
                  ELSE idl
Sweep ==
  /\ ~PullEnabled /\ PushTargets = {} /\ TsSubs = {} /\ HlsSubs = {} /\ Players = {} /\ nsweeps < MaxSweep
  /\ nsweeps' = nsweeps + 1
  /\ IF ~grp THEN /\ act' = [name |-> "Sweep", obs |-> Obs("ok", <<>>, <<>>)]
                  /\ UNCHANGED <<grp, inp, owner, ss, closed, nh, idl>>
     ELSE IF Inactive
       THEN /\ grp' = FALSE
            /\ act' = [name |-> "Sweep", obs |-> Obs("ok", <<>>, <<>>)]
            /\ UNCHANGED <<inp, owner, ss, closed, nh, idl>>
       ELSE LET chk  == {x \in NetPubs \cup Subs : ss[x] = "in"}
                dead == {x \in chk : idl[x] = "still"}
                auto == dead \cap AutoPubs          \* (an attached AutoPub is the accepted input)
            IN /\ grp' = grp
               /\ idl' = [x \in Sessions |-> IF x \in chk THEN "still" ELSE idl[x]]
               /\ closed' = [x \in Sessions |-> closed[x] \/ (x \in dead \ AutoPubs)]
               /\ ss' = [x \in Sessions |-> IF x \in auto THEN "gone" ELSE ss[x]]
               /\ nh' = [x \in Sessions |-> IF x \in auto THEN "stopped" ELSE nh[x]]
               /\ inp' = IF inp \in auto THEN "" ELSE inp
               /\ owner' = IF inp \in auto THEN "" ELSE owner
               /\ act' = [name |-> "Sweep",
                          obs |-> Obs("ok", IF inp \in auto THEN <<N("pub_stop", inp)>> ELSE <<>>,
                                             IF inp \in auto THEN DelInEv ELSE <<>>)]
  /\ UNCHANGED <<pull, clock, nticks, push, patt, down>>

Next == \/ /\ ~down
           /\ \/ (Step /\ PushFx /\ IdlFx /\ PlayFx /\ down' = down /\ nsweeps' = nsweeps)
              \/ (PushStep /\ down' = down /\ UNCHANGED <<idl, nsweeps, pl>>)
              \/ (PlayerStep /\ UNCHANGED <<push, patt, down, idl, nsweeps>>)
              \/ (Sweep /\ UNCHANGED pl)
              \/ (Shutdown /\ UNCHANGED <<idl, nsweeps, pl>>)
        \/ Halt
Spec == Init /\ [][Next]_vars

---------------------------------------------------------------------------
(* Properties.                                                                                    *)
\* C03: at most one accepted input, and it is a session that is attached (or the pull)
AtMostOneInput ==
  /\ Cardinality({x \in Pubs : ss[x] = "in" /\ inp = x}) <= 1
  /\ ~down => \A x \in Pubs : (ss[x] = "in") => (inp = x)   \* an attached input IS the accepted one
  /\ (inp \in Pubs) => ss[inp] = "in"
  /\ (inp = "pull") => pull.att
\* the pipeline belongs to the accepted input
PipelineOwned == owner = inp
\* notifications: started iff the network session is / was attached, stopped only after started
NotifyPaired ==
  \A x \in NetPubs \cup AllSubs :
    /\ (ss[x] = "in") => nh[x] = "started"
    /\ (ss[x] = "gone") => nh[x] = "stopped"
    /\ (ss[x] \in {"idle", "refused"}) => nh[x] = "none"
\* C03: a player holds the description of an input that can have one (and, by PlayFx / PlayerAsk, of the one that was
\* accepted when it was answered)
PlayerSane == \A x \in Players : (pl[x].s = "got") = (pl[x].d # "") /\ (pl[x].d # "" => pl[x].d \in RtspPubs \cup {"pull"})
\* C17: an attempt is in flight only while the module says so; never while an input is attached by it
PullSane == /\ (pull.att => pull.flying) /\ (pull.att => inp = "pull")
\* C17: relay push is attached only while an RTMP / RTSP publisher is the input (it ends with the publisher)
PushSane == \A t \in PushTargets : push[t].s = "att" => Pushable(inp)
\* C16: a group with nothing left is removed by the next tick (checked as: an inactive group never survives a Tick)
EmptyRemovedAct == [][(act'.name = "Tick" /\ grp /\ Inactive) => ~grp']_vars

\* C16: an attached network session that moved no byte between two idle checks is disconnected by the second
\* one, and one that did is left alone
IdleDisconnectedAct ==
  [][(act'.name = "Sweep" /\ grp /\ ~Inactive) =>
       \A x \in NetPubs \cup Subs : ss[x] = "in" =>
          IF idl[x] = "still" THEN (closed'[x] \/ ss'[x] = "gone")
          ELSE (ss'[x] = "in" /\ closed'[x] = closed[x])]_vars

St == [grp |-> grp, inp |-> inp, owner |-> owner, ss |-> ss, closed |-> closed, pull |-> pull, clock |-> clock,
       nticks |-> nticks, down |-> down, push |-> push, patt |-> patt, idl |-> idl, nsweeps |-> nsweeps, pl |-> pl]
Emit == PrintT("@E@" \o ToJson([f |-> St, a |-> act',
                                 t |-> [grp |-> grp', inp |-> inp', owner |-> owner', ss |-> ss', closed |-> closed',
                                        pull |-> pull', clock |-> clock', nticks |-> nticks', down |-> down', push |-> push', patt |-> patt',
                                        idl |-> idl', nsweeps |-> nsweeps', pl |-> pl'],
                                 l |-> TLCGet("level")]))
EmitA == PrintT("@A@" \o ToJson([a |-> act, l |-> TLCGet("level")]))
=============================================================================

------------------------------- MODULE Fanout -------------------------------
(* Fan-out of one stream inside logic.Group (C01, C02, start-clean clause of C16).             *)
(* One action per critical section of the Go code (everything below runs under Group.mutex):    *)
(*   PubArrive  = AddRtmpPubSession (addIn)         PubLeave = DelRtmpPubSession (delIn)        *)
(*   Publish    = OnReadRtmpAvMsg -> broadcastByRtmpMsg (the whole fan-out of one message)      *)
(*   Join(c)    = AddRtmpSubSession / AddHttpflvSubSession     Leave(c) = Del...SubSession      *)
(* Consumers: RTMP subscribers (optionally behind the merge writer), HTTP-FLV / WebSocket-FLV   *)
(* subscribers, relay-push targets (PushSubs: one connection attempt per publisher epoch, attached  *)
(* when the target accepts it, closed with the publisher; no key-frame gating, metadata with        *)
(* @setDataFrame), the FLV recording (attached for exactly the publisher's lifetime).            *)
(* A message is a record [id, t, ep, hv, ha, sz]: t in meta|vsh|ash|key|inter|aud|empty;        *)
(* hv / ha = content version of the video / audio sequence header in force when it was          *)
(* published (for a header message: the version it carries; a header may be re-sent unchanged). *)
EXTENDS Integers, Sequences, FiniteSets, TLC, Json

CONSTANTS RtmpSubs, FlvSubs,     \* consumer ids
          PushSubs,              \* relay-push targets
          GopNumR, GopNumF,      \* rtmp.gop_num, httpflv.gop_num
          CapR, CapF,            \* single_gop_max_frame_num (0 = unlimited)
          MwBudget,              \* rtmp.merge_write_size in size units (0 = merge writer off)
          SzPool,                \* message sizes (size units; bytes in traces)
          Record,                \* FLV recording enabled
          MaxPub, MaxEpoch,      \* bounds
          Types                  \* message types the publisher may send

Subs == RtmpSubs \cup FlvSubs \cup PushSubs

VARIABLES live,    \* a publisher is attached
          epoch,   \* number of publishers so far
          next,    \* id of the next message
          hdr,     \* [v, a]: content versions of the sequence headers in force in this epoch (0 = none)
          nver,    \* last content version handed out
          statV,   \* group.stat.VideoCodec # ""
          pubs,    \* non-empty messages published in the current epoch (history, for the properties)
          cacheR, cacheF,   \* GopCache of the rtmp / httpflv outputs
          mw,      \* merge writer buffer (sequence of messages)
          sub,     \* per consumer: [in, fresh, wait, got, run, proAt, proGops]
          rec,     \* messages written to the FLV record of the current epoch
          act      \* last action + predicted deliveries (emission only)

vars == <<live, epoch, next, hdr, nver, statV, pubs, cacheR, cacheF, mw, sub, rec, act>>
View == <<live, epoch, next, hdr, nver, statV, pubs, cacheR, cacheF, mw, sub, rec>>

EmptyCache == [meta |-> <<>>, vsh |-> <<>>, ash |-> <<>>, ring |-> <<>>]
\* ep: publisher epoch whose push attempt the target has consumed (push targets only)
SubInit == [in |-> FALSE, fresh |-> FALSE, wait |-> FALSE, got |-> <<>>, run |-> 0, proAt |-> 0, proGops |-> FALSE, ep |-> 0]

IsFrame(m) == m.t \in {"key", "inter", "aud"}
IsVideo(m) == m.t \in {"key", "inter"}
RECURSIVE SumSz(_)
SumSz(s) == IF s = <<>> THEN 0 ELSE s[1].sz + SumSz(Tail(s))
RECURSIVE Flat(_)
Flat(ss) == IF ss = <<>> THEN <<>> ELSE ss[1] \o Flat(Tail(ss))
Last(s) == s[Len(s)]
Ids(s) == [i \in 1..Len(s) |-> s[i].id]

---------------------------------------------------------------------------
(* remux.GopCache: latest metadata / sequence headers and a ring of the last gopNum GOPs.  A    *)
(* GOP accepts frames while it holds at most cap entries (so it holds at most cap+1).  A        *)
(* sequence header whose content differs from the cached one empties the ring: the cached       *)
(* frames were encoded against the old parameter sets.                                          *)
GopCount(c) == Len(c.ring)
Headers(c) == c.meta \o c.vsh \o c.ash
Prologue(c) == Headers(c) \o Flat(c.ring)

FeedCache(c, m, gopNum, cap) ==
  CASE m.t = "meta" -> [c EXCEPT !.meta = <<m>>]
    [] m.t = "ash"  -> [c EXCEPT !.ash = <<m>>, !.ring = IF c.ash # <<>> /\ c.ash[1].ha # m.ha THEN <<>> ELSE @]
    [] m.t = "vsh"  -> [c EXCEPT !.vsh = <<m>>, !.ring = IF c.vsh # <<>> /\ c.vsh[1].hv # m.hv THEN <<>> ELSE @]
    [] gopNum = 0   -> c
    [] m.t = "key"  -> [c EXCEPT !.ring = (IF Len(@) = gopNum THEN Tail(@) ELSE @) \o << <<m>> >>]
    [] OTHER        -> IF c.ring = <<>> THEN c
                       ELSE LET n == Len(c.ring) g == c.ring[n]
                            IN IF cap = 0 \/ Len(g) <= cap
                                 THEN [c EXCEPT !.ring = [@ EXCEPT ![n] = Append(g, m)]]
                                 ELSE c

---------------------------------------------------------------------------
Init == /\ live = FALSE /\ epoch = 0 /\ next = 1 /\ hdr = [v |-> 0, a |-> 0] /\ nver = 0 /\ statV = FALSE
        /\ pubs = <<>> /\ cacheR = EmptyCache /\ cacheF = EmptyCache /\ mw = <<>>
        /\ sub = [c \in Subs |-> SubInit] /\ rec = <<>>
        /\ act = [name |-> "init"]

PubArrive ==
  /\ ~live /\ epoch < MaxEpoch
  /\ live' = TRUE /\ epoch' = epoch + 1
  /\ act' = [name |-> "PubArrive"]
  /\ UNCHANGED <<next, hdr, nver, statV, pubs, cacheR, cacheF, mw, sub, rec>>

(* delIn: caches cleared, codec information reset, the merge writer's tail is flushed to the     *)
(* admitted subscribers, the recording is closed.                                                *)
LeaveRcp == {c \in RtmpSubs : sub[c].in /\ ~sub[c].fresh /\ ~sub[c].wait}
PredLeaveDel == [c \in Subs |-> IF c \in LeaveRcp THEN Ids(mw) ELSE <<>>]

PubLeave ==
  /\ live
  /\ live' = FALSE
  /\ hdr' = [v |-> 0, a |-> 0] /\ statV' = FALSE /\ pubs' = <<>>
  /\ cacheR' = EmptyCache /\ cacheF' = EmptyCache
  /\ LET rcp == {c \in RtmpSubs : sub[c].in /\ ~sub[c].fresh /\ ~sub[c].wait}
         del == [c \in Subs |-> IF c \in rcp THEN mw ELSE <<>>]
     IN /\ sub' = [c \in Subs |-> IF c \in PushSubs THEN [SubInit EXCEPT !.ep = sub[c].ep]    \* stopPushIfNeeded: closed
                                  ELSE [sub[c] EXCEPT !.got = @ \o del[c], !.run = 0, !.proAt = 0, !.proGops = FALSE,
                                                !.wait = FALSE]]   \* nobody waits for a key frame of a stream that is gone
        /\ act' = [name |-> "PubLeave", del |-> [c \in Subs |-> Ids(del[c])], rec |-> Ids(rec)]
  /\ mw' = <<>> /\ rec' = <<>>
  /\ UNCHANGED <<epoch, next, nver>>

\* a push target can accept the one connection attempt startPushIfNeeded made when the publisher arrived
JoinOk(c) == ~sub[c].in /\ (c \in PushSubs => (live /\ sub[c].ep # epoch))
Join(c) ==
  /\ JoinOk(c)
  /\ sub' = [sub EXCEPT ![c] = [SubInit EXCEPT !.in = TRUE, !.fresh = TRUE, !.wait = IF c \in PushSubs THEN FALSE ELSE statV,
                                                !.ep = IF c \in PushSubs THEN epoch ELSE 0]]
  /\ act' = [name |-> "Join", c |-> c]
  /\ UNCHANGED <<live, epoch, next, hdr, nver, statV, pubs, cacheR, cacheF, mw, rec>>

Leave(c) ==
  /\ sub[c].in
  /\ sub' = [sub EXCEPT ![c] = [SubInit EXCEPT !.ep = sub[c].ep]]
  /\ act' = [name |-> "Leave", c |-> c]
  /\ UNCHANGED <<live, epoch, next, hdr, nver, statV, pubs, cacheR, cacheF, mw, rec>>

(* The publisher's grammar: a well-formed stream (video frames only after a video sequence      *)
(* header, inter frames only after a key frame encoded against the current header).             *)
KeySinceHdr == \E i \in 1..Len(pubs) : pubs[i].t = "key" /\ pubs[i].hv = hdr.v
                                       /\ \A j \in (i+1)..Len(pubs) : ~(pubs[j].t = "vsh" /\ pubs[j].hv # hdr.v)
Allowed(t, newver) ==
  CASE t = "key"   -> hdr.v # 0 /\ ~newver
    [] t = "inter" -> hdr.v # 0 /\ KeySinceHdr /\ ~newver
    [] t = "vsh"   -> newver \/ hdr.v # 0
    [] t = "ash"   -> newver \/ hdr.a # 0
    [] OTHER       -> ~newver

(* ---- the fan-out of one non-empty message ---- *)
Fan(m) ==
  LET R == {c \in RtmpSubs : sub[c].in}
      F == {c \in FlvSubs : sub[c].in}
      P == {c \in PushSubs : sub[c].in}     \* relay push: prologue from the RTMP cache, then every message
      isKey == m.t = "key"
      \* RTMP loop
      proR(c)   == IF sub[c].fresh THEN Prologue(cacheR) ELSE <<>>
      wait1R(c) == IF sub[c].fresh /\ GopCount(cacheR) > 0 THEN FALSE ELSE sub[c].wait
      flushNow  == mw # <<>> /\ \E c \in R : sub[c].fresh \/ (sub[c].wait /\ isKey)
      rcp1      == {c \in R : ~sub[c].fresh /\ ~sub[c].wait}
      wait2R(c) == IF wait1R(c) /\ isKey THEN FALSE ELSE wait1R(c)
      mw1       == (IF flushNow THEN <<>> ELSE mw) \o <<m>>
      full      == MwBudget = 0 \/ SumSz(mw1) >= MwBudget
      rcp2      == {c \in R : ~wait2R(c)}
      flush1(c) == IF flushNow /\ c \in rcp1 THEN mw ELSE <<>>
      liveR(c)  == flush1(c) \o (IF full /\ c \in rcp2 THEN mw1 ELSE <<>>)
      \* HTTP-FLV loop
      proF(c)   == IF sub[c].fresh THEN Prologue(cacheF) ELSE <<>>
      wait1F(c) == IF sub[c].fresh /\ GopCount(cacheF) > 0 THEN FALSE ELSE sub[c].wait
      getF(c)   == ~wait1F(c) \/ isKey
      liveF(c)  == IF getF(c) THEN <<m>> ELSE <<>>
      pro(c)  == IF c \in R \cup P THEN proR(c) ELSE IF c \in F THEN proF(c) ELSE <<>>
      lv(c)   == IF c \in R THEN liveR(c) ELSE IF c \in F THEN liveF(c) ELSE IF c \in P THEN <<m>> ELSE <<>>
      gops(c) == IF c \in R \cup P THEN GopCount(cacheR) > 0 ELSE GopCount(cacheF) > 0
      \* a consumer that has been waiting is admitted by this key frame: the metadata and sequence
      \* headers now in the cache are (re)sent first, since any that arrived while it was waiting
      \* were withheld from it
      adm(c)  == IF (c \in R \/ c \in F) /\ ~sub[c].fresh /\ sub[c].wait /\ isKey
                   THEN Headers(IF c \in R THEN cacheR ELSE cacheF) ELSE <<>>
      all(c)  == pro(c) \o adm(c) \o lv(c)
      upd(c, w) == [sub[c] EXCEPT !.fresh = FALSE, !.wait = w, !.got = @ \o all(c),
                                  !.run = IF @ = 0 /\ lv(c) # <<>> THEN lv(c)[1].id ELSE @,
                                  !.proAt = IF sub[c].fresh THEN m.id ELSE @,
                                  !.proGops = IF sub[c].fresh THEN gops(c) ELSE @]
  IN [del |-> [c \in Subs |-> all(c)],
      sub |-> [c \in Subs |->
                 IF c \in R THEN upd(c, wait2R(c))
                 ELSE IF c \in F THEN upd(c, IF getF(c) THEN FALSE ELSE wait1F(c))
                 ELSE IF c \in P THEN upd(c, FALSE)
                 ELSE sub[c]],
      mw |-> IF R = {} THEN mw ELSE IF full THEN <<>> ELSE mw1]

MsgOf(t, sz, newver) ==
  LET ver == IF newver THEN nver + 1 ELSE 0
  IN [id |-> next, t |-> t, ep |-> epoch,
      hv |-> IF t = "vsh" /\ newver THEN ver ELSE hdr.v,
      ha |-> IF t = "ash" /\ newver THEN ver ELSE hdr.a, sz |-> sz]

\* predicted deliveries (message ids per consumer) of publishing (t, sz, newver) now
PredDel(t, sz, newver) ==
  IF t = "empty" THEN [c \in Subs |-> <<>>]
  ELSE LET f == Fan(MsgOf(t, sz, newver)) IN [c \in Subs |-> Ids(f.del[c])]

PubStep(t, sz, newver) ==
  LET m == MsgOf(t, sz, newver)
  IN /\ nver' = IF newver THEN nver + 1 ELSE nver
     /\ IF t = "empty"
          THEN /\ act' = [name |-> "Publish", m |-> m, del |-> [c \in Subs |-> <<>>]]
               /\ UNCHANGED <<hdr, statV, pubs, cacheR, cacheF, mw, sub, rec>>
          ELSE LET f == Fan(m) IN
               /\ sub' = f.sub /\ mw' = f.mw
               /\ rec' = IF Record THEN Append(rec, m) ELSE rec
               /\ cacheR' = FeedCache(cacheR, m, GopNumR, CapR)
               /\ cacheF' = FeedCache(cacheF, m, GopNumF, CapF)
               /\ hdr' = [v |-> m.hv, a |-> m.ha]
               /\ statV' = (statV \/ t = "vsh")
               /\ pubs' = Append(pubs, m)
               /\ act' = [name |-> "Publish", m |-> m, del |-> [c \in Subs |-> Ids(f.del[c])]]
     /\ next' = next + 1
     /\ UNCHANGED <<live, epoch>>

Publish(t, sz, newver) == live /\ next <= MaxPub /\ Allowed(t, newver) /\ PubStep(t, sz, newver)

Next == \/ PubArrive \/ PubLeave
        \/ \E c \in Subs : Join(c) \/ Leave(c)
        \/ \E t \in Types, sz \in SzPool, nv \in BOOLEAN : Publish(t, sz, nv)
Spec == Init /\ [][Next]_vars

---------------------------------------------------------------------------
(* Properties, stated on what every consumer has received since it joined (sub[c].got) and on   *)
(* the history of the current epoch (pubs).                                                      *)

NoEmptyDelivered == \A c \in Subs : \A i \in 1..Len(sub[c].got) : sub[c].got[i].t # "empty"

\* C01: from its first live message on, a consumer has received every non-empty message of the
\* epoch, in order, exactly once -- RTMP consumers up to what is still in the merge writer.
Contiguous ==
  \A c \in Subs :
    (live /\ sub[c].run # 0) =>
      LET g    == sub[c].got
          lv   == SelectSeq(g, LAMBDA x : x.ep = epoch /\ x.id >= sub[c].run)
          all  == SelectSeq(pubs, LAMBDA x : x.id >= sub[c].run)
          pend == IF c \in RtmpSubs THEN Len(mw) ELSE 0
      IN /\ Len(all) >= pend
         /\ Ids(lv) = Ids(SubSeq(all, 1, Len(all) - pend))
         /\ (pend > 0 => Ids(SubSeq(all, Len(all) - pend + 1, Len(all))) = Ids(mw))

\* the merge writer never holds the configured size or more
Lag == IF MwBudget = 0 THEN mw = <<>> ELSE SumSz(mw) < MwBudget

\* C02 GopReplay: the ring is exactly the most recent (at most gopNum) GOPs published since the last
\* change of a sequence header, each cut where the per-GOP cap says, oldest first ...
SinceHdrChange ==
  LET idx == {i \in 1..Len(pubs) : \/ (pubs[i].t = "vsh" /\ \E j \in 1..(i-1) : pubs[j].t = "vsh" /\ pubs[j].hv # pubs[i].hv
                                                           /\ \A k \in (j+1)..(i-1) : pubs[k].t # "vsh")
                                   \/ (pubs[i].t = "ash" /\ \E j \in 1..(i-1) : pubs[j].t = "ash" /\ pubs[j].ha # pubs[i].ha
                                                           /\ \A k \in (j+1)..(i-1) : pubs[k].t # "ash")}
      from == IF idx = {} THEN 1 ELSE (CHOOSE i \in idx : \A j \in idx : j <= i)
  IN SelectSeq(SubSeq(pubs, from, Len(pubs)), IsFrame)
RECURSIVE SplitGops(_, _)
SplitGops(fr, acc) ==     \* acc: sequence of GOPs built so far
  IF fr = <<>> THEN acc
  ELSE IF fr[1].t = "key" THEN SplitGops(Tail(fr), Append(acc, <<fr[1]>>))
  ELSE IF acc = <<>> THEN SplitGops(Tail(fr), acc)
  ELSE SplitGops(Tail(fr), [acc EXCEPT ![Len(acc)] = Append(@, fr[1])])
CutGop(g, cap) == IF cap = 0 \/ Len(g) <= cap + 1 THEN g ELSE SubSeq(g, 1, cap + 1)
ExpectedRing(gopNum, cap) ==
  LET gs == SplitGops(SinceHdrChange, <<>>)
      k  == IF Len(gs) < gopNum THEN Len(gs) ELSE gopNum
      lastk == SubSeq(gs, Len(gs) - k + 1, Len(gs))
  IN [i \in 1..k |-> CutGop(lastk[i], cap)]
GopReplay == live => /\ cacheR.ring = ExpectedRing(GopNumR, CapR)
                     /\ cacheF.ring = ExpectedRing(GopNumF, CapF)

\* ... and live data follows the replay without a gap: a consumer that was given GOPs starts its
\* live run at the very message during which it was given them.
Junction == \A c \in Subs : (live /\ sub[c].proGops /\ sub[c].run # 0) => sub[c].run = sub[c].proAt

\* C02 HeaderInForce: every frame a consumer received was preceded (in what it received) by a
\* sequence header with the content in force when the frame was published.
HeaderInForce ==
  \A c \in Subs : LET g == sub[c].got IN
    \A i \in 1..Len(g) :
      /\ (IsVideo(g[i]) => \E j \in 1..(i-1) : /\ g[j].t = "vsh" /\ g[j].hv = g[i].hv /\ g[j].ep = g[i].ep
                                               /\ \A k \in (j+1)..(i-1) : g[k].t # "vsh")
      /\ ((g[i].t = "aud" /\ g[i].ha # 0) => \E j \in 1..(i-1) : /\ g[j].t = "ash" /\ g[j].ha = g[i].ha /\ g[j].ep = g[i].ep
                                                                 /\ \A k \in (j+1)..(i-1) : g[k].t # "ash")

\* C02 HeadersFirst: if metadata was published before the first frame a consumer receives, that
\* metadata or a newer one reaches it before that frame (sequence headers: HeaderInForce).
HeadersFirst ==
  \A c \in Subs : LET g == sub[c].got IN
    \A i \in 1..Len(g) :
      (live /\ IsFrame(g[i]) /\ g[i].ep = epoch /\ \A k \in 1..(i-1) : ~(IsFrame(g[k]) /\ g[k].ep = epoch)) =>
        \A p \in 1..Len(pubs) :
          (/\ pubs[p].t = "meta" /\ pubs[p].id < g[i].id
           /\ \A q \in (p+1)..Len(pubs) : ~(pubs[q].t = "meta" /\ pubs[q].id < g[i].id))
          => \E j \in 1..(i-1) : g[j].t = "meta" /\ g[j].ep = epoch /\ g[j].id >= pubs[p].id

\* C02 KeyFirst: the first video frame a consumer receives in an epoch is a key frame.
\* (a relay-push session is not gated: it carries on from wherever the stream is)
KeyFirst ==
  \A c \in Subs \ PushSubs : LET g == sub[c].got IN
    \A i \in 1..Len(g) :
      (IsVideo(g[i]) /\ \A k \in 1..(i-1) : ~(IsVideo(g[k]) /\ g[k].ep = g[i].ep)) => g[i].t = "key"

\* C02 NoWaitWithoutVideo: a consumer of a stream that currently has no video is not held back.
NoWaitWithoutVideo ==
  \A c \in Subs : (sub[c].in /\ ~sub[c].fresh /\ live /\ hdr.v = 0) => ~sub[c].wait

\* C16 CleanStart: a consumer never receives anything of an earlier epoch after something of a later one.
CleanStart ==
  \A c \in Subs : LET g == sub[c].got IN
    \A i, j \in 1..Len(g) : i < j => g[i].ep <= g[j].ep

\* exactly-once, in order, within an epoch
NoDupNoReorder ==
  \A c \in Subs : LET g == sub[c].got IN
    \A i, j \in 1..Len(g) : (i < j /\ g[i].ep = g[j].ep /\ IsFrame(g[i]) /\ IsFrame(g[j])) => g[i].id < g[j].id

RecordExact == (Record /\ live) => Ids(rec) = Ids(pubs)

(* Emission of every transition for scenario generation.                                         *)
St(l, e, n, h, nv, sv, cr, cf, w, s, ksh) ==
  [ksh |-> ksh, live |-> l, epoch |-> e, next |-> n, hdr |-> h, nver |-> nv, statV |-> sv,
   cr |-> Ids(cr.meta \o cr.vsh \o cr.ash), crr |-> [i \in 1..Len(cr.ring) |-> Ids(cr.ring[i])],
   cf |-> Ids(cf.meta \o cf.vsh \o cf.ash), cfr |-> [i \in 1..Len(cf.ring) |-> Ids(cf.ring[i])],
   mw |-> Ids(w),
   sub |-> [c \in Subs |-> <<s[c].in, s[c].fresh, s[c].wait, s[c].run, Ids(s[c].got), s[c].ep>>]]
Emit == PrintT("@E@" \o ToJson([f |-> St(live, epoch, next, hdr, nver, statV, cacheR, cacheF, mw, sub, KeySinceHdr), a |-> act',
                                 t |-> St(live', epoch', next', hdr', nver', statV', cacheR', cacheF', mw', sub', KeySinceHdr'),
                                 l |-> TLCGet("level")]))
\* simulation mode: TLC evaluates the constraint on several candidate successors, so the action that is
\* certain is the one that led to the *current* state
EmitA == PrintT("@A@" \o ToJson([a |-> act, l |-> TLCGet("level")]))
=============================================================================

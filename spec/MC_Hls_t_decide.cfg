SPECIFICATION Spec
CONSTANTS
  CfgPool <- DecideCfgs
  AvPool = {TRUE, FALSE}
  Kinds = {"Kb", "K", "I", "A"}
  Classes = {"short", "eq", "jump", "back"}
  MaxFrames = 4
  MaxEpoch = 1
  TargetLal = FALSE
INVARIANTS PlaylistWellFormed SeqMonotone TargetCovers ListedExist ListedWhole RecentStillPresent NoLossNoDup Finalised
ACTION_CONSTRAINT EmitS

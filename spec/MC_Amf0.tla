---------------------------- MODULE MC_Amf0 ----------------------------
EXTENDS Amf0, FiniteSets

CONSTANTS StrLens, Level    \* Level 1: flat containers; 2: + one level of nesting; 3: + two; 4: + wide two-member containers

VARIABLES v, cut, act
vars == <<v, cut, act>>

S(n, id) == [n |-> n, id |-> id, s |-> ""]
Str(n) == [k |-> "str", s |-> S(n, IF n = 0 THEN 0 ELSE 1)]
LeafS == { [k |-> "num", id |-> 1], [k |-> "bool", b |-> TRUE], Str(2), [k |-> "null"] }
\* (numbers are pool indices: 6 = negative zero, 8 = a NaN with a payload - they come back bit for bit)
Leaf == LeafS \cup { [k |-> "num", id |-> 0], [k |-> "num", id |-> 2], [k |-> "num", id |-> 6], [k |-> "num", id |-> 8], [k |-> "bool", b |-> FALSE],
                     [k |-> "undef"], [k |-> "unk", m |-> 11], [k |-> "unk", m |-> 13] }
             \cup { Str(n) : n \in StrLens }
             \cup { [k |-> "lstr", decl |-> d, s |-> S(8, 1)] : d \in {-1, -2, -3, -4, -5, 2147483647} }
Keys == { EmptyS, S(2, 7), S(3, 8) }
KeysS == { S(2, 9) }

P1(ks, vals) == { <<[key |-> kk, v |-> x]>> : kk \in ks, x \in vals }
P2(ks, vals) == { p \o q : p \in P1(ks, vals), q \in P1(ks, vals) }
\* Level 4 (thorough): two-member containers over every key (empty, repeated) x every leaf in second position
P2x == { p \o q : p \in P1(Keys, LeafS), q \in P1(Keys, Leaf) }
PairsOf(vals) == {<<>>} \cup P1(Keys, vals) \cup P2(KeysS, LeafS) \cup (IF Level >= 4 /\ vals = Leaf THEN P2x ELSE {})
SeqsOf(vals) == {<<>>} \cup { <<x>> : x \in vals } \cup { <<x, y>> : x \in LeafS, y \in LeafS }
Cnts(n) == { c \in {n - 1, n, n + 1, -1} : c >= -1 }

Containers(vals) ==
     { [k |-> "obj", ps |-> p, end |-> e] : p \in PairsOf(vals), e \in BOOLEAN }
\cup { [k |-> "ecma", ps |-> pc[1], cnt |-> pc[2], end |-> e] :
         pc \in UNION { {<<p, c>> : c \in Cnts(Len(p))} : p \in PairsOf(vals) }, e \in BOOLEAN }
\cup { [k |-> "strict", vs |-> qc[1], cnt |-> qc[2]] :
         qc \in UNION { {<<q, c>> : c \in Cnts(Len(q))} : q \in SeqsOf(vals) } }

\* well-formed single-member containers used as members of the next nesting level
Good(vals) == { [k |-> "obj", ps |-> p, end |-> TRUE] : p \in P1(KeysS, vals) }
         \cup { [k |-> "ecma", ps |-> p, cnt |-> 1, end |-> TRUE] : p \in P1(KeysS, vals) }
         \cup { [k |-> "strict", vs |-> <<x>>, cnt |-> 1] : x \in vals }
G1 == Good(LeafS)
G2 == Good(G1)

TestValues == Leaf \cup Containers(Leaf)
              \cup (IF Level >= 2 THEN Containers(G1) ELSE {})
              \cup (IF Level >= 3 THEN Containers(G2) ELSE {})

Init == /\ v \in TestValues /\ cut \in Cuts(v) /\ act = [name |-> "init"]
Do == /\ act.name = "init"
      /\ act' = [name |-> "Dec", v |-> v, cut |-> cut, exp |-> Decode(v, cut)]
      /\ UNCHANGED <<v, cut>>
Spec == Init /\ [][Do]_vars

\* RoundTrip at the design level: an uncut well-formed value that lal can represent decodes to
\* its view and consumes the whole encoding.
RECURSIVE WellFormed(_)
WellFormed(x) == CASE x.k = "obj" -> x.end /\ \A i \in 1..Len(x.ps) : WellFormed(x.ps[i].v)
                   [] x.k = "ecma" -> x.end /\ x.cnt = Len(x.ps) /\ \A i \in 1..Len(x.ps) : WellFormed(x.ps[i].v)
                   [] x.k = "strict" -> x.cnt = Len(x.vs) /\ \A i \in 1..Len(x.vs) : WellFormed(x.vs[i])
                   [] x.k = "unk" -> x.m = 13
                   [] x.k = "lstr" -> FALSE
                   [] OTHER -> TRUE
RoundTrip == (act.name = "Dec" /\ cut = Bytes(Enc(v)) /\ WellFormed(v) /\ v.k \notin {"null", "undef"})
               => (act.exp.ok /\ act.exp.used = cut)
Total == act.name = "Dec" => act.exp.ok \in BOOLEAN
EmitS == act'.name = "Dec" => PrintT("@S@" \o ToJson(act'))
=============================================================================

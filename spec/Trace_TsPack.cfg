SPECIFICATION TraceSpec
CONSTANTS
  LenPool = {}
  CcPool = {}
  PtsPool = {}
  CtsPool = {}
CONSTRAINT HighWater
POSTCONDITION Accept
CHECK_DEADLOCK FALSE

---------------------------- MODULE Trace_Codec ----------------------------
(* Trace validation for C19.  One JSON line per event; every scenario starts with `reset`.     *)
(*   Sps    an SPS tree written by the independent bit writer, with what lal's ParseSps said    *)
(*   Step   one edge of the parameter-set carrier graph: the sets an independent reader finds   *)
(*          in lal's output (or lal returned), position-coded                                    *)
(*   NStep  one edge of list <-> AVCC <-> Annex-B: the units found                               *)
(*   AStep  one edge of ASC <-> sequence header <-> ADTS <-> SDP config                          *)
(*   Sdp    the SDP lal generated, as understood by lal, by lal again, and by the RFC reader     *)
(* A line the specification does not allow is reported (@REJ@) and the rest of its scenario is  *)
(* skipped.                                                                                      *)
EXTENDS Codec, IOUtils

Trace == ndJsonDeserialize(IOEnv.TRACE)

VARIABLES l,       \* next line
          o,       \* the reset line of the current scenario
          node,    \* current node of a path scenario
          failed
tvars == <<l, o, node, failed>>

TraceInit == l = 1 /\ o = [k |-> "none"] /\ node = "none" /\ failed = FALSE /\ TLCSet(1, 1)
IsEvent(e) == l <= Len(Trace) /\ Trace[l].ev = e /\ l' = l + 1

Judge(c) == IF failed \/ c THEN UNCHANGED failed
            ELSE failed' = TRUE /\ PrintT("@REJ@" \o ToString(l))

StartNode(k) == CASE k = "car" -> "bare" [] k = "nal" -> "list" [] k = "aac" -> "asc" [] OTHER -> "none"
TraceReset == /\ IsEvent("reset") /\ o' = Trace[l] /\ node' = StartNode(Trace[l].k) /\ failed' = FALSE

TraceSps == /\ IsEvent("Sps")
            /\ LET e == Trace[l]
               IN Judge(/\ o.k = "sps"
                        /\ IF e.t.codec = "h264" THEN H264Valid(e.t) ELSE H265Valid(e.t)
                        /\ e.ok
                        /\ <<e.w, e.h>> = Dim(e.t))
            /\ UNCHANGED <<o, node>>

TraceStep ==
  /\ IsEvent("Step")
  /\ LET e == Trace[l]
         known == e.edge \in CarEdgeNames
         x == CarEdge(e.edge)
     IN /\ Judge(/\ o.k = "car" /\ known
                 /\ x.f = node
                 /\ CarEnabled(o.codec, o.sets, o.min, e.edge)
                 /\ e.ok
                 /\ e.sets = o.sets                      \* same sets, same order, byte for byte
                 /\ (x.t = "seq" => IF o.codec = "h264" THEN AvcRecOK(e.rec) ELSE HevcRecOK(e.rec)))
        /\ node' = IF known THEN x.t ELSE node
  /\ UNCHANGED o

TraceNStep ==
  /\ IsEvent("NStep")
  /\ LET e == Trace[l]
         known == e.edge \in NalEdgeNames
         x == NalEdge(e.edge)
     IN /\ Judge(/\ o.k = "nal" /\ known
                 /\ x.f = node
                 /\ e.ok /\ e.wf
                 /\ e.units = o.units)
        /\ node' = IF known THEN x.t ELSE node
  /\ UNCHANGED o

TraceAStep ==
  /\ IsEvent("AStep")
  /\ LET e == Trace[l]
         known == e.edge \in AacEdgeNames
         x == AacEdge(e.edge)
     IN /\ Judge(/\ o.k = "aac" /\ known
                 /\ x.f = node
                 /\ AacEnabled(o.asc, e.edge)
                 /\ e.ok
                 /\ e.asc = o.asc
                 /\ (x.t = "adts" => AdtsOK(o.asc, e.hdr, o.flen))
                 /\ (x.t = "seq" => e.hdr.tag = <<175, 0>>)
                 /\ (x.t = "sdp" => e.hdr.codec = "AAC" /\ e.hdr.rate = o.rate))
        /\ node' = IF known THEN x.t ELSE node
  /\ UNCHANGED o

TraceSdp == /\ IsEvent("Sdp")
            /\ Judge(o.k = "sdp" /\ SdpOK(Trace[l]))
            /\ UNCHANGED <<o, node>>

TraceNext == TraceReset \/ TraceSps \/ TraceStep \/ TraceNStep \/ TraceAStep \/ TraceSdp
TraceSpec == TraceInit /\ [][TraceNext]_tvars
HighWater == TLCSet(1, IF l > TLCGet(1) THEN l ELSE TLCGet(1))
Accept == PrintT("@HW@" \o ToString(TLCGet(1)))
=============================================================================

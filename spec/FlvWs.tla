------------------------------- MODULE FlvWs -------------------------------
(* FLV byte streams and WebSocket framing (C11): httpflv.PackHttpflvTag / ReadTag,          *)
(* FlvFileWriter / FlvFileReader, base.MakeWsFrameHeader, BasicHttpSubSession.Write.        *)
(* A session is a sequence of write units: the FLV header (9 bytes + zero back-pointer),    *)
(* then tags; over WebSocket every unit is one unmasked binary frame.                       *)
EXTENDS Integers, Sequences, TLC, Json, U32

CONSTANTS Modes,     \* subset of {"flv", "ws", "file"}
          TypePool,  \* tag types 8, 9, 18
          LenPool,   \* payload lengths
          TsPool,    \* U32 timestamps
          MaxTags

VARIABLES mode, stage, ntags, act
vars == <<mode, stage, ntags, act>>
View == <<mode, stage, ntags>>

(* Fields of the 11-byte tag header and the trailing PreviousTagSize, for any tag.          *)
TagFields(t, n, ts) ==
  [type |-> t, size |-> n, tsLow |-> (ts[1] % 256) * 65536 + ts[2], tsExt |-> ts[1] \div 256,
   sid |-> 0, prev |-> 11 + n]

(* What lal's reader must return for the same tag.                                          *)
ReadBack(t, n, ts) == [type |-> t, size |-> n, ts |-> ts, rawOk |-> TRUE]

(* RFC 6455 frame header for an unmasked, final, binary frame of n payload bytes; the       *)
(* extended length is a sequence of 16-bit words.                                           *)
WsFields(n) ==
  [fin |-> 1, rsv |-> 0, opcode |-> 2, masked |-> 0,
   len7 |-> IF n < 126 THEN n ELSE IF n <= 65535 THEN 126 ELSE 127,
   ext |-> IF n < 126 THEN <<>> ELSE IF n <= 65535 THEN <<n>> ELSE <<0, 0, n \div 65536, n % 65536>>,
   hdrSize |-> IF n < 126 THEN 2 ELSE IF n <= 65535 THEN 4 ELSE 10,
   n |-> n]

FlvHeaderFields == [sig |-> TRUE, version |-> 1, flags |-> 5, off |-> 9, prev0 |-> 0]

Init == /\ mode \in Modes /\ stage = "idle" /\ ntags = 0 /\ act = [name |-> "init"]

Open == /\ stage = "idle"
        /\ stage' = IF mode = "file" THEN "opened" ELSE "http"
        /\ act' = [name |-> "Open", mode |-> mode]
        /\ UNCHANGED <<mode, ntags>>

WriteHeader == /\ stage \in {"http", "opened"}
               /\ stage' = "tags"
               /\ act' = [name |-> "Hdr", mode |-> mode]
               /\ UNCHANGED <<mode, ntags>>

WriteTag(t, n, ts) ==
  /\ stage = "tags" /\ ntags < MaxTags
  /\ ntags' = ntags + 1
  /\ act' = [name |-> "Tag", mode |-> mode, t |-> t, n |-> n, ts |-> ts]
  /\ UNCHANGED <<mode, stage>>

Next == Open \/ WriteHeader \/ \E t \in TypePool, n \in LenPool, ts \in TsPool : WriteTag(t, n, ts)
Spec == Init /\ [][Next]_vars

(* Design-level sanity of the field functions over the enumerated pools.                    *)
FieldsOK == \A n \in LenPool, ts \in TsPool :
              LET f == TagFields(8, n, ts) w == WsFields(11 + n + 4)
              IN /\ f.tsLow \in 0..16777215 /\ f.tsExt \in 0..255
                 /\ UAdd(UOfInt(0), <<f.tsExt * 256 + f.tsLow \div 65536, f.tsLow % 65536>>) = ts
                 /\ (w.len7 < 126 => w.len7 = w.n) /\ (w.len7 = 126 => w.ext[1] = w.n)
                 /\ (w.len7 = 127 => w.ext[3] * 65536 + w.ext[4] = w.n)

St(m, s, k) == [mode |-> m, stage |-> s, ntags |-> k]
Emit == PrintT("@E@" \o ToJson([f |-> St(mode, stage, ntags), a |-> act', t |-> St(mode', stage', ntags'),
                                 l |-> TLCGet("level")]))
=============================================================================

SPECIFICATION Spec
CONSTANTS
  Surf = "ps"
  Depth = 3
  Level = 2
INVARIANTS Total ClosedIsFinal Bounded
ACTION_CONSTRAINT EmitS
VIEW View

---------------------------- MODULE MC_RtmpSession ----------------------------
(* Model-checking harness for RtmpSession (C04).                                                *)
(*  Depth = 0  graph mode: the whole alphabet from the very first byte; TLC explores the state   *)
(*             graph of the protocol machine and prints every edge (@E@).                        *)
(*  Depth > 0  sequence mode: the state carries the history; TLC enumerates every sequence over  *)
(*             Alphabet up to Depth messages (a closed connection ends a sequence) starting from *)
(*             a finished handshake in each role of InitRoles, and prints every maximal one (@S@) *)
EXTENDS RtmpSession, FiniteSets

CONSTANTS Depth, AlphaName, InitRoles, TypePool

VARIABLES st, hist, r0, act
vars == <<st, hist, r0, act>>

Msg(m, a, s) == [m |-> m, a |-> a, s |-> s]
Of(m, as, ss) == { Msg(m, a, s) : a \in as, s \in ss }

Handshake == Of("c0c1", {"simple", "digest0", "digest1", "baddigest", "ver6", "ff"}, {"full"})
        \cup {Msg("c0c1", "simple", "short"), Msg("c2", "echo", "full"), Msg("c2", "echo", "short")}
Junk == Of("junk", {"zero", "ff", "rnd"}, {"1", "64"})
Control == Of("scs", {"0", "1", "128", "4096", "max31", "max32"}, {"ok"})
      \cup {Msg("scs", "128", "short"), Msg("scs", "128", "empty"), Msg("scs", "4096", "long")}
      \cup Of("ack", {""}, {"0", "3", "4", "8"})
      \cup Of("winack", {""}, {"0", "3", "4z", "4m", "4", "5", "4one", "4two", "4three", "4h"})
      \cup Of("uc", {"ping"}, {"0", "1", "2", "3", "4", "5", "6", "7", "8"})
      \cup {Msg("uc", "begin", "2"), Msg("uc", "begin", "6"), Msg("uc", "ff", "2"), Msg("uc", "buflen", "8")}
Others == Of("other", {ToString(t) : t \in TypePool}, {"empty", "1", "16"})
Commands == Of("cmd", {"connect"}, {"ok", "ok3", "nolast", "badmarker", "null", "noapp", "noend", "deep", "deeparr", "deepmix", "deepok",
                                     "appnum", "appbool", "appobj", "tcnum", "oestr", "fvobj"})
       \cup Of("cmd", {"createStream"}, {"ok", "nolast"})
       \cup Of("cmd", {"publish"}, {"ok", "nolast", "noname", "badmarker", "numforstr", "longstr", "emptyname", "query", "dots", "cutstr", "lstrname"})
       \cup Of("cmd", {"play"}, {"ok", "nolast", "noname", "badmarker", "numforstr", "longstr", "emptyname"})
       \cup Of("cmd", {"deleteStream"}, {"ok", "nolast"})
       \cup Of("cmd", {"FCPublish", "releaseStream", "getStreamLength", "FCUnpublish"}, {"ok"})
       \cup Of("cmd", {"unknown"}, {"ok"} \cup ParseFail)
       \cup Of("cmd3", {"connect", "publish", "play"}, {"ok"})
       \cup {Msg("cmd3", "unknown", "empty"), Msg("cmd3", "unknown", "only0")}
Data == Of("data", {"meta", "sdfmeta", "sdfonly", "sample", "empty", "1byte", "numfirst", "nameonly", "trunc", "deep", "other"}, {""})
\* payload classes whose *content* is malformed are C05's subject once they reach the stream
\* pipeline; here they exercise the RTMP layer (shape "rtmp" = executed with the stub observer only)
Media == Of("audio", {"empty", "seqhdr", "frame", "g711"}, {""})
    \cup Of("audio", {"1", "2", "seq2", "seq3"}, {"rtmp"})
    \cup Of("video", {"empty", "seqhdr", "key", "inter"}, {""})
    \cup Of("video", {"1", "2", "3", "4", "5", "seqcut", "ex1", "ex4", "exseq", "hevcseq", "badnalu"}, {"rtmp"})
    \cup Of("agg", {"ok", "empty", "subhdr", "sublen", "sublenmax", "noprev", "prev2", "sub0"}, {""})
Faults == Of("chunk", {"f3fresh", "f2fresh", "f1fresh", "csid2lo", "csid2hi", "csid3lo", "csid3hi", "extts", "exttsmax",
                       "exttssmall", "lenmax", "truncnew", "shrink"}, {""})

Full == Handshake \cup Junk \cup Control \cup Others \cup Commands \cup Data \cup Media \cup Faults

\* every order of the messages that move the protocol machine or are sensitive to its state
Core == { Msg("cmd", "connect", "ok"), Msg("cmd", "createStream", "ok"), Msg("cmd", "publish", "ok"), Msg("cmd", "play", "ok"),
          Msg("cmd", "deleteStream", "ok"), Msg("cmd3", "publish", "ok"), Msg("audio", "frame", ""), Msg("video", "key", ""),
          Msg("data", "meta", ""), Msg("agg", "ok", ""), Msg("uc", "ping", "6"), Msg("scs", "1", "ok"),
          Msg("chunk", "lenmax", ""), Msg("chunk", "shrink", "") }
CoreSmall == { Msg("cmd", "connect", "ok"), Msg("cmd", "publish", "ok"), Msg("cmd", "play", "ok"), Msg("cmd", "deleteStream", "ok"),
               Msg("video", "key", ""), Msg("data", "meta", ""), Msg("agg", "ok", ""), Msg("scs", "max32", "ok"),
               Msg("chunk", "lenmax", ""), Msg("chunk", "shrink", "") }

Alphabet == CASE AlphaName = "full" -> Full
              [] AlphaName = "core" -> Core
              [] AlphaName = "small" -> CoreSmall
              [] AlphaName = "types" -> Others

\* nominal wire lengths for graph mode (the trace specification uses the lengths the driver logged)
NomLen(msg) == CASE msg.m = "c0c1" -> IF msg.s = "short" THEN 1000 ELSE 1537
                 [] msg.m = "c2" -> IF msg.s = "short" THEN 700 ELSE 1536
                 [] msg.m = "junk" -> IF msg.s = "1" THEN 1 ELSE 64
                 [] OTHER -> 50

Init == /\ r0 \in InitRoles
        /\ st = IF Depth = 0 THEN St0 ELSE Ready(r0)
        /\ hist = <<>>
        /\ act = [name |-> "init"]

\* graph mode sends the whole alphabet in every role at the chunk sizes 128, 1 and 2^32-1 while no message is
\* unfinished, and this subset in the other combinations of chunk size and unfinished message
Reduced == Control \cup Faults \cup Core \cup {Msg("cmd", "publish", "longstr"), Msg("agg", "noprev", ""), Msg("junk", "rnd", "64")}

\* graph mode keeps the handshake part of the graph small: while the handshake is open only the
\* handshake packets, junk and three ordinary messages are sent
PreHs == Handshake \cup Junk \cup {Msg("cmd", "connect", "ok"), Msg("video", "key", ""), Msg("scs", "4096", "ok")}

Send(msg) ==
  LET n == NomLen(msg) IN
  /\ Depth = 0 \/ (Len(hist) < Depth /\ st.mode # "closed")
  /\ Depth = 0 => (st.hs > 0 => msg \in PreHs /\ (msg \notin Handshake => st.hs \in {HsLen, 1536}))
  /\ Depth = 0 => (st.hs = 0 /\ st.mode = "sync" /\ ~(st.part = "no" /\ st.cs \in {"128", "1", "max32"}) => msg \in Reduced)
  /\ \E obs \in Outcomes(st, msg, n) :
       /\ st' = After(st, msg, n, obs)
       /\ act' = [name |-> "send", msg |-> msg, obs |-> obs]
  /\ hist' = IF Depth = 0 THEN hist ELSE Append(hist, msg)
  /\ UNCHANGED r0

Next == \E msg \in Alphabet : Send(msg)
Spec == Init /\ [][Next]_vars

View == <<st, hist, r0>>

\* ---- design-level invariants
NeverCrashes == \A msg \in Alphabet : TotalAndSafe(st, msg, NomLen(msg))
ClosedIsFinal == st.mode = "closed" => \A msg \in Alphabet : Outcomes(st, msg, NomLen(msg)) = Closed
RoleOnce == act.name = "send" /\ act.msg.m \in {"cmd", "cmd3"} /\ act.msg.a \in {"publish", "play"} /\ act.obs = "served"
              => st.mode # "sync" \/ st.hs > 0 \/ st.role # "none"
TypeOk == /\ st.hs \in 0..HsLen /\ st.role \in {"none", "pub", "sub"} /\ st.mode \in {"sync", "desync", "swallow", "closed"}

Emit == PrintT("@E@" \o ToJson([f |-> st, a |-> act'.msg, t |-> st', l |-> TLCGet("level")]))
EmitS == (Len(hist') = Depth \/ st'.mode = "closed") => PrintT("@S@" \o ToJson([r |-> r0, h |-> hist']))
=============================================================================

--------------------------------- MODULE Locks ---------------------------------
(* Locking and channel discipline of lal's server (C20).                                        *)
(*                                                                                              *)
(* Every goroutine class of the server is a process that runs straight-line programs over a      *)
(* small instruction set; the programs follow the Go call structure (file:function in the        *)
(* comments).  Mutexes: ServerManager.mutex (sm), Group.mutex (one per group object), hls.      *)
(* ServerHandler.mutex (hls), rtsp.BaseInSession.mu (rin), IpBlacklist.mu (ipb), base.          *)
(* PeriodRecord.mu (fps), the mutex of the notify task pool (pool).  Channels: Group.exitChan    *)
(* (capacity 1, read once by Group.RunLoop), ServerManager.exitChan (capacity 1, read once by    *)
(* the tick loop, which then ends), the task channel of the single notify worker (capacity 1).   *)
(* lal never closes a channel (Closes = {}).                                                     *)
(*                                                                                              *)
(* One stream name; the group registered under it is an object from a finite pool (a removed     *)
(* group stays referenced by relay / input goroutines that hold the pointer: anyg).              *)
(*                                                                                              *)
(* Checked by TLC: no deadlock (built-in check, every process loops), NoWaitCycle (no cycle of   *)
(* goroutines waiting for mutexes), NoBlockedSend (no goroutine waits on a full channel whose    *)
(* reader is gone), TaskChanFree (the pool hands a task only to a worker whose channel is        *)
(* empty), OrderOk (the acquired-while-holding relation stays inside the declared order, which   *)
(* is acyclic), and under fairness Completes (every call / callback returns).                    *)
EXTENDS Integers, Sequences, FiniteSets, TLC

CONSTANTS Objs,          \* pool of group objects, e.g. {"g1","g2"}
          MaxShutdown,   \* how many times ServerManager.Dispose is called (lal: once, by the signal handler)
          QMax,          \* bound of the blocked-task list of the notify pool (abstraction of an unbounded list)
          Procs          \* processes: subset of AllProcs

AllProcs == {"s1", "s2", "api", "tick", "shut", "pull", "rin", "hls", "clean", "nw"}
ASSUME Procs \subseteq AllProcs

----------------------------------------------------------------------------------
(* instruction set: [op, a, j]  (a = mutex name, j = relative skip)                               *)
I(op, a, j) == [op |-> op, a |-> a, j |-> j]
Lk(m)   == I("lock", m, 0)      \* m.Lock()
Ul(m)   == I("unlock", m, 0)
LkG     == I("lockg", "", 0)     \* g.mutex.Lock() of the group object the goroutine holds
UlG     == I("unlockg", "", 0)
Get(j)  == I("get", "", j)       \* g := sm.getGroup(..); if g == nil skip j instructions
GetC    == I("getc", "", 0)      \* g := sm.getOrCreateGroup(..)  (a new group starts its RunLoop goroutine)
AnyG    == I("anyg", "", 0)      \* the goroutine was started with a pointer to some group object
Alt(j)  == I("alt", "", j)       \* branch: continue or skip j instructions
AltD(j) == I("altd", "", j)     \* the same; the first branch (dispose and erase) only while the object pool is not exhausted
Skip(j) == I("skip", "", j)
SendX   == I("sendx", "", 0)     \* g.exitChan <- struct{}{}
SendSm  == I("sendsm", "", 0)    \* sm.exitChan <- struct{}{}
Erase   == I("erase", "", 0)     \* the group manager forgets g
\* Leaf mutexes (nothing is acquired and nothing blocks inside their critical sections - for the task pool
\* that is invariant TaskChanFree) are one instruction each: the whole critical section.
TGo     == I("tgo", "pool", 0)   \* pool.Go: lock; idle worker -> w.taskChan <- task, else append to the blocked list; unlock
TIdle   == I("tidle", "pool", 0) \* pool.onIdle: lock; blocked task -> own taskChan, else the worker becomes idle; unlock
Leaf(m) == I("leaf", m, 0)       \* m.Lock(); ...; m.Unlock()   (IpBlacklist.mu, PeriodRecord.mu)

\* sm.nhOnXxx -> notifyHandlerThread.Go (naza taskpool)
Notify == <<TGo>>
\* group.HasInSession(); group.HasOutSession()
HasInOut == <<LkG, UlG>>
\* group.GetStat: group.mutex -> PeriodRecord.mu (StatGroup.GetFpsFrom)
Stat == <<LkG, Leaf("fps"), UlG>>

\* ---- session goroutines (rtmp / rtsp / http-flv / http-ts): server_manager__.go OnNew* / OnDel*
OnNew == <<Lk("sm"), GetC, LkG, UlG>> \o HasInOut \o Notify \o <<Ul("sm")>>
OnNewRefused == <<Lk("sm"), GetC, LkG, UlG, Ul("sm")>>                       \* ErrDupInStream: returns early
OnDel == <<Lk("sm"), Get(5), LkG, UlG>> \o HasInOut \o Notify \o <<Ul("sm")>>
\* media of an attached input: group__core_streaming.go OnReadRtmpAvMsg (hls fragment -> OnHlsMakeTs -> notify)
Media == <<AnyG, LkG, Alt(1)>> \o Notify \o <<UlG>>
SessionPaths == <<OnNew, OnNewRefused, OnDel, Media>>

\* ---- HTTP-API handlers: server_manager__api.go
ApiKick  == <<Lk("sm"), Get(2), LkG, UlG, Ul("sm")>>          \* CtrlKickSession / CtrlStopRelayPull: session.Dispose takes no lal mutex
ApiStart == <<Lk("sm"), GetC, LkG, UlG, Ul("sm")>>            \* CtrlStartRelayPull / CtrlStartRtpPub
ApiStat  == <<Lk("sm"), Get(3)>> \o Stat \o <<Ul("sm")>>      \* StatGroup / StatAllGroup
ApiBlack == <<Lk("sm"), Leaf("ipb"), Ul("sm")>>      \* CtrlAddIpBlacklist
ApiPaths == <<ApiKick, ApiStart, ApiStat, ApiBlack>>

\* ---- the 1 s loop of ServerManager.RunLoop (server_manager__.go) / VerifTick
\* IsInactive; then either Dispose (send, lock) + erase, or Tick
TickBody == <<Lk("sm"), Get(10), LkG, UlG, AltD(5), SendX, LkG, UlG, Erase, Skip(2), LkG, UlG, Ul("sm")>>
\* every update_interval_sec: StatAllGroup, then nhOnUpdate without the server mutex
TickStat == <<Lk("sm"), Get(3)>> \o Stat \o <<Ul("sm")>> \o Notify
TickPaths == <<TickBody, TickBody \o TickStat>>

\* ---- ServerManager.Dispose: listeners closed, every group disposed (not erased), exit message
ShutPaths == << <<Lk("sm"), Get(3), SendX, LkG, UlG, Ul("sm"), SendSm>> >>

\* ---- relay pull / relay push / GB28181 goroutines started by a group (group__relay_pull.go,
\* group__relay_push.go, group__in.go StartRtpPub): Add (observer called under the group mutex), media, Del
PullRun == <<AnyG, LkG>> \o Notify \o <<UlG, LkG, Alt(1)>> \o Notify \o <<UlG, LkG>> \o Notify \o <<UlG>>
PullFail == <<AnyG, LkG>> \o Notify \o <<UlG>>
PullPaths == <<PullRun, PullFail>>

\* ---- rtsp/base_in_session.go: reader goroutine of an RTSP publisher / puller
\* onAvPacketUnpacked: mu -> observer.OnAvPacket -> group.mutex; handleRtpPacket: OnRtpPacket, then mu
RinPaths == << <<AnyG, Lk("rin"), LkG, UlG, Ul("rin")>>, <<AnyG, LkG, UlG, Lk("rin"), Ul("rin")>> >>

\* ---- hls/server_handler.go: createSubSession / clearExpireSession / CloseSubSessionIfExist hold the
\* handler mutex around the observer callback; serveHls consults the blacklist first
HlsNew == <<Leaf("ipb"), Lk("hls"), Lk("sm"), GetC, LkG, UlG>> \o HasInOut \o Notify \o <<Ul("sm"), Ul("hls")>>
HlsDel == <<Lk("hls"), Lk("sm"), Get(5), LkG, UlG>> \o HasInOut \o Notify \o <<Ul("sm"), Ul("hls")>>
HlsKeep == <<Lk("hls"), Ul("hls")>>
HlsPaths == <<HlsNew, HlsDel, HlsKeep>>

\* ---- deferred HLS cleanup task (CleanupHlsIfNeeded): sm.GetGroup, then g.IsHlsMuxerAlive
CleanPaths == << <<Lk("sm"), Get(4), Ul("sm"), LkG, UlG, Skip(1), Ul("sm")>> >>

\* ---- the notify worker (naza taskpool worker): receive, run the handler (which may call the API), onIdle
NwPaths == << <<TIdle>>, ApiKick \o <<TIdle>>, ApiStat \o <<TIdle>> >>

Paths(p) == CASE p \in {"s1", "s2"} -> SessionPaths
              [] p = "api"   -> ApiPaths
              [] p = "tick"  -> TickPaths
              [] p = "shut"  -> ShutPaths
              [] p = "pull"  -> PullPaths
              [] p = "rin"   -> RinPaths
              [] p = "hls"   -> HlsPaths
              [] p = "clean" -> CleanPaths
              [] p = "nw"    -> NwPaths

----------------------------------------------------------------------------------
(* declared lock order: the transitive closure of Base; every nested acquisition of the model    *)
(* (and of the code: Trace_Locks) must be one of its pairs.  Group objects form the class "grp": *)
(* no goroutine holds two group mutexes.                                                         *)
\* "pst": gb28181.PubSession.tcpMutex, a leaf around the connection field of a TCP-mode GB28181 session (taken by the
\* accept loop without any lock, and by Dispose under the group lock)
Base == {<<"hls", "sm">>, <<"sm", "grp">>, <<"rin", "grp">>, <<"grp", "fps">>, <<"grp", "pool">>, <<"sm", "ipb">>, <<"grp", "pst">>}
LockNames == {"hls", "sm", "rin", "grp", "fps", "pool", "ipb", "pst"}
RECURSIVE TC(_)
TC(R) == LET R2 == R \cup {<<a, c>> \in LockNames \X LockNames : \E b \in LockNames : <<a, b>> \in R /\ <<b, c>> \in R}
         IN IF R2 = R THEN R ELSE TC(R2)
Allowed == TC(Base)
ASSUME \A m \in LockNames : <<m, m>> \notin Allowed      \* the declared order is acyclic

\* blocking sends the design performs while a mutex is held, and who reaches them
SendUnderAllowed == {<<"sm", "gexit">>}
Class(m) == IF m \in Objs THEN "grp" ELSE m

----------------------------------------------------------------------------------
VARIABLES pc,       \* [p -> [k, i]]: path k of Paths(p), next instruction i (0 = between calls)
          g,        \* [p -> group object the goroutine works on, or "none"]
          holder,   \* [mutex -> process or "free"]
          mgr,      \* object registered in the group manager, or "none"
          nalloc,   \* group objects created so far
          xbuf,     \* [o -> messages buffered in o.exitChan]
          rl,       \* [o -> "none" | "wait" (RunLoop goroutine blocked in receive) | "done"]
          smbuf,    \* messages buffered in sm.exitChan
          tickAlive,\* the tick loop has not yet received from sm.exitChan
          nshut,    \* Dispose calls so far
          widle, tbuf, queue    \* notify pool: worker idle, worker's task channel, blocked task list

vars == <<pc, g, holder, mgr, nalloc, xbuf, rl, smbuf, tickAlive, nshut, widle, tbuf, queue>>

Mutexes == {"sm", "hls", "rin"} \cup Objs
ObjSeq == CHOOSE s \in [1..Cardinality(Objs) -> Objs] : \A i, j \in 1..Cardinality(Objs) : i # j => s[i] # s[j]

Init == /\ pc = [p \in Procs |-> [k |-> 0, i |-> 0]]
        /\ g = [p \in Procs |-> "none"]
        /\ holder = [m \in Mutexes |-> "free"]
        /\ mgr = "none" /\ nalloc = 0
        /\ xbuf = [o \in Objs |-> 0] /\ rl = [o \in Objs |-> "none"]
        /\ smbuf = 0 /\ tickAlive = TRUE /\ nshut = 0
        /\ widle = TRUE /\ tbuf = 0 /\ queue = 0

Held(p) == {m \in Mutexes : holder[m] = p}
Cur(p) == Paths(p)[pc[p].k][pc[p].i]
Adv(p, n) == LET len == Len(Paths(p)[pc[p].k])
                 ni == pc[p].i + n
             IN pc' = [pc EXCEPT ![p] = IF ni > len THEN [k |-> 0, i |-> 0] ELSE [k |-> pc[p].k, i |-> ni]]

Acquire(p, m) == /\ holder[m] = "free"
                 /\ holder' = [holder EXCEPT ![m] = p]

\* a call starts: the tick loop only while alive, Dispose MaxShutdown times, the notify worker when it has a task
Start(p) == /\ pc[p].i = 0
            /\ p = "tick" => tickAlive
            /\ p = "shut" => nshut < MaxShutdown
            /\ p = "nw" => tbuf > 0
            /\ \E k \in {kk \in 1..Len(Paths(p)) : Paths(p)[kk][1].op = "anyg" => nalloc > 0} :
                  pc' = [pc EXCEPT ![p] = [k |-> k, i |-> 1]]
            /\ nshut' = IF p = "shut" THEN nshut + 1 ELSE nshut
            /\ tbuf' = IF p = "nw" THEN tbuf - 1 ELSE tbuf
            /\ UNCHANGED <<g, holder, mgr, nalloc, xbuf, rl, smbuf, tickAlive, widle, queue>>

Exec(p) ==
  /\ pc[p].i > 0
  /\ LET c == Cur(p) IN
     CASE c.op = "lock" ->
            /\ Acquire(p, c.a) /\ Adv(p, 1)
            /\ UNCHANGED <<g, mgr, nalloc, xbuf, rl, smbuf, tickAlive, nshut, widle, tbuf, queue>>
       [] c.op = "unlock" ->
            /\ holder[c.a] = p
            /\ holder' = [holder EXCEPT ![c.a] = "free"] /\ Adv(p, 1)
            /\ UNCHANGED <<g, mgr, nalloc, xbuf, rl, smbuf, tickAlive, nshut, widle, tbuf, queue>>
       [] c.op = "lockg" ->
            /\ Acquire(p, g[p]) /\ Adv(p, 1)
            /\ UNCHANGED <<g, mgr, nalloc, xbuf, rl, smbuf, tickAlive, nshut, widle, tbuf, queue>>
       [] c.op = "unlockg" ->
            /\ holder[g[p]] = p
            /\ holder' = [holder EXCEPT ![g[p]] = "free"] /\ Adv(p, 1)
            /\ UNCHANGED <<g, mgr, nalloc, xbuf, rl, smbuf, tickAlive, nshut, widle, tbuf, queue>>
       [] c.op = "get" ->
            /\ g' = [g EXCEPT ![p] = mgr]
            /\ Adv(p, IF mgr = "none" THEN 1 + c.j ELSE 1)
            /\ UNCHANGED <<holder, mgr, nalloc, xbuf, rl, smbuf, tickAlive, nshut, widle, tbuf, queue>>
       [] c.op = "getc" ->
            /\ IF mgr # "none"
               THEN /\ g' = [g EXCEPT ![p] = mgr] /\ UNCHANGED <<mgr, nalloc, rl>>
               ELSE /\ nalloc < Cardinality(Objs)         \* bound of the model: the pool is exhausted
                    /\ LET o == ObjSeq[nalloc + 1] IN
                       /\ mgr' = o /\ nalloc' = nalloc + 1
                       /\ rl' = [rl EXCEPT ![o] = "wait"]   \* go g.RunLoop()
                       /\ g' = [g EXCEPT ![p] = o]
            /\ Adv(p, 1)
            /\ UNCHANGED <<holder, xbuf, smbuf, tickAlive, nshut, widle, tbuf, queue>>
       [] c.op = "anyg" ->
            /\ nalloc > 0
            /\ \E n \in 1..nalloc : g' = [g EXCEPT ![p] = ObjSeq[n]]
            /\ Adv(p, 1)
            /\ UNCHANGED <<holder, mgr, nalloc, xbuf, rl, smbuf, tickAlive, nshut, widle, tbuf, queue>>
       [] c.op = "alt" ->
            /\ \/ Adv(p, 1) \/ Adv(p, 1 + c.j)
            /\ UNCHANGED <<g, holder, mgr, nalloc, xbuf, rl, smbuf, tickAlive, nshut, widle, tbuf, queue>>
       [] c.op = "altd" ->
            /\ \/ nalloc < Cardinality(Objs) /\ Adv(p, 1)
               \/ Adv(p, 1 + c.j)
            /\ UNCHANGED <<g, holder, mgr, nalloc, xbuf, rl, smbuf, tickAlive, nshut, widle, tbuf, queue>>
       [] c.op = "skip" ->
            /\ Adv(p, 1 + c.j)
            /\ UNCHANGED <<g, holder, mgr, nalloc, xbuf, rl, smbuf, tickAlive, nshut, widle, tbuf, queue>>
       [] c.op = "sendx" ->
            /\ xbuf[g[p]] < 1
            /\ xbuf' = [xbuf EXCEPT ![g[p]] = @ + 1] /\ Adv(p, 1)
            /\ UNCHANGED <<g, holder, mgr, nalloc, rl, smbuf, tickAlive, nshut, widle, tbuf, queue>>
       [] c.op = "sendsm" ->
            /\ smbuf < 1
            /\ smbuf' = smbuf + 1 /\ Adv(p, 1)
            /\ UNCHANGED <<g, holder, mgr, nalloc, xbuf, rl, tickAlive, nshut, widle, tbuf, queue>>
       [] c.op = "erase" ->
            /\ mgr' = IF mgr = g[p] THEN "none" ELSE mgr
            /\ Adv(p, 1)
            /\ UNCHANGED <<g, holder, nalloc, xbuf, rl, smbuf, tickAlive, nshut, widle, tbuf, queue>>
       [] c.op = "leaf" ->
            /\ Adv(p, 1)
            /\ UNCHANGED <<g, holder, mgr, nalloc, xbuf, rl, smbuf, tickAlive, nshut, widle, tbuf, queue>>
       [] c.op = "tgo" ->
            /\ IF widle
               THEN /\ tbuf < 1 /\ tbuf' = tbuf + 1 /\ widle' = FALSE /\ UNCHANGED queue
               ELSE /\ queue' = (IF queue < QMax THEN queue + 1 ELSE queue) /\ UNCHANGED <<tbuf, widle>>
            /\ Adv(p, 1)
            /\ UNCHANGED <<g, holder, mgr, nalloc, xbuf, rl, smbuf, tickAlive, nshut>>
       [] c.op = "tidle" ->
            /\ IF queue > 0
               THEN /\ tbuf < 1 /\ tbuf' = tbuf + 1 /\ queue' = queue - 1 /\ UNCHANGED widle
               ELSE /\ widle' = TRUE /\ UNCHANGED <<tbuf, queue>>
            /\ Adv(p, 1)
            /\ UNCHANGED <<g, holder, mgr, nalloc, xbuf, rl, smbuf, tickAlive, nshut>>

\* Group.RunLoop: <-group.exitChan, once
RunLoopRecv(o) == /\ rl[o] = "wait" /\ xbuf[o] > 0
                  /\ xbuf' = [xbuf EXCEPT ![o] = @ - 1] /\ rl' = [rl EXCEPT ![o] = "done"]
                  /\ UNCHANGED <<pc, g, holder, mgr, nalloc, smbuf, tickAlive, nshut, widle, tbuf, queue>>

\* the select of the tick loop takes the exit message between two ticks and returns
TickExit == /\ "tick" \in Procs /\ tickAlive /\ pc["tick"].i = 0 /\ smbuf > 0
            /\ smbuf' = smbuf - 1 /\ tickAlive' = FALSE
            /\ UNCHANGED <<pc, g, holder, mgr, nalloc, xbuf, rl, nshut, widle, tbuf, queue>>

Step(p) == Start(p) \/ Exec(p)
Next == (\E p \in Procs : Step(p)) \/ (\E o \in Objs : RunLoopRecv(o)) \/ TickExit

Spec == Init /\ [][Next]_vars
FairSpec == Spec /\ (\A p \in Procs : SF_vars(Exec(p))) /\ (\A o \in Objs : WF_vars(RunLoopRecv(o)))

----------------------------------------------------------------------------------
(* invariants *)
At(p, op) == pc[p].i > 0 /\ Cur(p).op = op

\* the mutex a goroutine is waiting for (it is at a lock instruction and somebody else holds it)
Wants(p) == IF At(p, "lock") THEN Cur(p).a ELSE IF At(p, "lockg") THEN g[p] ELSE "none"
WaitsFor(p) == IF Wants(p) # "none" /\ holder[Wants(p)] \notin {"free", p} THEN holder[Wants(p)] ELSE "none"
RECURSIVE Chain(_, _, _)
Chain(p, q, n) == IF q = "none" \/ n = 0 THEN FALSE ELSE IF q = p THEN TRUE ELSE Chain(p, WaitsFor(q), n - 1)
NoWaitCycle == \A p \in Procs : ~Chain(p, WaitsFor(p), Cardinality(Procs))
\* a goroutine never locks a mutex it already holds (sync.Mutex is not re-entrant)
NoSelfLock == \A p \in Procs : Wants(p) = "none" \/ holder[Wants(p)] # p

\* a goroutine at a send on a full channel whose only reader has gone waits forever
StuckSend(p) == \/ At(p, "sendx") /\ xbuf[g[p]] >= 1 /\ rl[g[p]] = "done"
                \/ At(p, "sendsm") /\ smbuf >= 1 /\ ~tickAlive
NoBlockedSend == \A p \in Procs : ~StuckSend(p)
\* the same, restricted to goroutines that hold a mutex while they wait
NoBlockedSendUnderLock == \A p \in Procs : StuckSend(p) => Held(p) = {}
\* sends under a mutex are only the declared ones
SendsDeclared == \A p \in Procs : /\ At(p, "sendx") => \A h \in Held(p) : <<Class(h), "gexit">> \in SendUnderAllowed
                                  /\ At(p, "sendsm") => Held(p) = {}
\* the pool hands a task only to a worker whose channel is empty: that send never waits
TaskChanFree == \A p \in Procs : (At(p, "tgo") /\ widle) \/ (At(p, "tidle") /\ queue > 0) => tbuf = 0
\* every nested acquisition is a pair of the declared order (a goroutine about to take a mutex - or to run
\* the critical section of a leaf mutex - holds only mutexes that precede it)
Next2(p) == IF Wants(p) # "none" THEN Class(Wants(p))
            ELSE IF pc[p].i > 0 /\ Cur(p).op \in {"leaf", "tgo", "tidle"} THEN Cur(p).a ELSE "none"
OrderOk == \A p \in Procs : Next2(p) # "none" => \A h \in Held(p) : <<Class(h), Next2(p)>> \in Allowed
\* nobody returns from a call with a mutex held
Balanced == \A p \in Procs : pc[p].i = 0 => Held(p) = {}

\* every call / callback / teardown returns
Completes == \A p \in Procs : (pc[p].i > 0) ~> (pc[p].i = 0)
=============================================================================

------------------------------- MODULE Codec -------------------------------
(* Codec configuration across representations (C19).                                          *)
(*  (d) SPS syntax trees and the picture size the standards derive from them                   *)
(*      (H.264 7.4.2.1.1 eq. 7-13..7-22 with Table 6-1; H.265: coded luma size)                *)
(*  (a) carrier graph of parameter sets: bare, RTMP sequence header, Annex-B, SDP sprop        *)
(*  (b) NAL unit list <-> length-prefixed (AVCC) <-> Annex-B byte stream (H.264 Annex B)       *)
(*  (c) what a reader must understand from the SDP generated for a stream                      *)
(*  (e) AudioSpecificConfig <-> AAC sequence header <-> ADTS header <-> SDP config             *)
(* Parameter-set bytes are position-coded by the driver: a set is [k, n, eq] = kind (from its  *)
(* NAL unit type), length, bytes-equal-to-the-original.                                        *)
EXTENDS Integers, Sequences, TLC, Json

Min(a, b) == IF a < b THEN a ELSE b
Range(s) == { s[i] : i \in DOMAIN s }

---------------------------------------------------------------------------
(* (d) H.264 sequence parameter set: fields that decide the frame size.                        *)
(*   profile, chroma (chroma_format_idc), sep (separate_colour_plane_flag), scal (scaling      *)
(*   matrix: 0 absent, 1 flags only, 2 lists), poc (pic_order_cnt_type), cyc, big (offsets     *)
(*   that need emulation prevention), wmbs, hmap, fmo (frame_mbs_only_flag), mbaff, crop, co   *)
(*   (left, right, top, bottom), vui.                                                           *)
ChromaProfiles == {100, 110, 122, 244, 44, 83, 86, 118, 128, 138, 139, 134, 135}
HasChromaInfo(t) == t.profile \in ChromaProfiles
ChromaIdc(t) == IF HasChromaInfo(t) THEN t.chroma ELSE 1
SepPlane(t) == IF HasChromaInfo(t) /\ t.chroma = 3 THEN t.sep ELSE 0
ChromaArrayType(t) == IF SepPlane(t) = 1 THEN 0 ELSE ChromaIdc(t)
SubWidthC(c) == IF c \in {1, 2} THEN 2 ELSE 1           \* Table 6-1 (c = 1, 2, 3)
SubHeightC(c) == IF c = 1 THEN 2 ELSE 1
CropUnitX(t) == IF ChromaArrayType(t) = 0 THEN 1 ELSE SubWidthC(ChromaArrayType(t))
CropUnitY(t) == (IF ChromaArrayType(t) = 0 THEN 1 ELSE SubHeightC(ChromaArrayType(t))) * (2 - t.fmo)
LumaW(t) == 16 * (t.wmbs + 1)
LumaH(t) == 16 * (2 - t.fmo) * (t.hmap + 1)
CropOf(t) == IF t.crop = 1 THEN t.co ELSE <<0, 0, 0, 0>>
H264Dim(t) == << LumaW(t) - CropUnitX(t) * (CropOf(t)[1] + CropOf(t)[2]),
                 LumaH(t) - CropUnitY(t) * (CropOf(t)[3] + CropOf(t)[4]) >>
\* what an encoder following the standard may write (7.4.2.1.1 ranges), without redundant twins
H264Valid(t) ==
  /\ CropUnitX(t) * (CropOf(t)[1] + CropOf(t)[2]) < LumaW(t)
  /\ CropUnitY(t) * (CropOf(t)[3] + CropOf(t)[4]) < LumaH(t)
  /\ (~HasChromaInfo(t) => t.chroma = 1 /\ t.scal = 0)
  /\ (t.chroma # 3 => t.sep = 0)
  /\ (t.poc # 1 => t.cyc = 0 /\ t.big = 0)
  /\ (t.fmo = 1 => t.mbaff = 0)
  /\ (t.crop = 0 => t.co = <<0, 0, 0, 0>>)

(* H.265: lal reports the coded luma size (pic_width/height_in_luma_samples); the conformance  *)
(* window is outside "basic H.265 SPS".                                                         *)
H265Dim(t) == <<t.w, t.h>>
H265Valid(t) == /\ (t.chroma # 3 => t.sep = 0)
                /\ (t.crop = 0 => t.co = <<0, 0, 0, 0>>)
                /\ (t.msl = 0 => t.slp = 0 /\ t.sll = 0)
                /\ t.w % 8 = 0 /\ t.h % 8 = 0

Dim(t) == IF t.codec = "h264" THEN H264Dim(t) ELSE H265Dim(t)
DimSane(t) == Dim(t)[1] > 0 /\ Dim(t)[2] > 0 /\
              (t.codec = "h264" => Dim(t)[1] <= LumaW(t) /\ Dim(t)[2] <= LumaH(t))

---------------------------------------------------------------------------
(* (a) carriers of parameter sets.                                                              *)
Kinds(codec) == IF codec = "h264" THEN <<"sps", "pps">> ELSE <<"vps", "sps", "pps">>
CarEdges == { [e |-> "ext.seq",   f |-> "bare", t |-> "seq"],    \* another muxer's sequence header
              [e |-> "build",     f |-> "bare", t |-> "seq"],    \* Build*SeqHeaderFrom*
              [e |-> "parse",     f |-> "seq",  t |-> "bare"],   \* Parse*FromSeqHeader
              [e |-> "seq2anb",   f |-> "seq",  t |-> "anb"],    \* h2645.SeqHeader2Annexb
              [e |-> "bare2anb",  f |-> "bare", t |-> "anb"],    \* Build*2Annexb
              [e |-> "ext.anb",   f |-> "bare", t |-> "anb"],    \* 3- and 4-byte start codes
              [e |-> "splitanb",  f |-> "anb",  t |-> "bare"],   \* avc.SplitNaluAnnexb
              [e |-> "sdp.pack",  f |-> "bare", t |-> "sdp"],    \* sdp.Pack
              [e |-> "ext.sdp",   f |-> "bare", t |-> "sdp"],    \* another RFC 6184/7798 writer
              [e |-> "sdp.parse", f |-> "sdp",  t |-> "bare"] }  \* sdp.ParseSdp2LogicContext
CarEdgeNames == { x.e : x \in CarEdges }
CarEdge(n) == CHOOSE x \in CarEdges : x.e = n
(* Edges on which the decoder configuration record needs profile / level / chroma taken from   *)
(* the syntax of VPS and SPS: only defined when those sets are long enough to hold it.          *)
Syntactic(codec) == IF codec = "h264" THEN {"build"} ELSE {"build", "bare2anb"}
MinOf(min, k) == IF k = "vps" THEN min[1] ELSE IF k = "sps" THEN min[2] ELSE 0
CarEnabled(codec, sets, min, e) ==
  e \in Syntactic(codec) => \A i \in DOMAIN sets : sets[i].n >= MinOf(min, sets[i].k)
OrigSets(codec, lens) == [i \in DOMAIN lens |-> [k |-> Kinds(codec)[i], n |-> lens[i], eq |-> TRUE]]

(* Abstract representations: what of a set's length survives in each carrier.                   *)
LenField(n) == <<n \div 256, n % 256>>                    \* 16-bit big-endian length
FieldLen(f) == f[1] * 256 + f[2]
B64(n) == [chars |-> 4 * ((n + 2) \div 3), pad |-> (3 - (n % 3)) % 3]
B64Len(b) == (b.chars \div 4) * 3 - b.pad
Repr(node, lens) ==
  CASE node = "bare" -> lens
    [] node = "seq"  -> [i \in DOMAIN lens |-> LenField(lens[i])]
    [] node = "anb"  -> [i \in DOMAIN lens |-> [sc |-> 4, n |-> lens[i]]]
    [] node = "sdp"  -> [i \in DOMAIN lens |-> B64(lens[i])]
Back(node, r) ==
  CASE node = "bare" -> r
    [] node = "seq"  -> [i \in DOMAIN r |-> FieldLen(r[i])]
    [] node = "anb"  -> [i \in DOMAIN r |-> r[i].n]
    [] node = "sdp"  -> [i \in DOMAIN r |-> B64Len(r[i])]
Preserved(node, lens) ==
  /\ Back(node, Repr(node, lens)) = lens
  /\ node = "seq" => \A i \in DOMAIN lens : LenField(lens[i])[1] < 256

AvcRecOK(r) == /\ ~r.bad /\ r.tag = <<23, 0, 0, 0, 0>> /\ r.version = 1 /\ r.counts = <<1, 1>>
               /\ r.trail = 0 /\ r.lenSize \in {1, 2, 4}
               /\ (r.spsProfile >= 0 => r.profile = r.spsProfile)
               /\ (r.spsLevel >= 0 => r.level = r.spsLevel)
HevcRecOK(r) == /\ ~r.bad /\ r.tag = <<28, 0, 0, 0, 0>> /\ r.version = 1 /\ r.lenSize \in {1, 2, 4}
                /\ r.arrays = <<32, 33, 34>> /\ r.counts = <<1, 1, 1>> /\ r.trail = 0

---------------------------------------------------------------------------
(* (b) framing.  A unit is [b, n]: explicit head bytes (< 128) and n filler bytes (>= 128).     *)
NalEdges == { [e |-> "join",       f |-> "list", t |-> "avcc"],   \* h2645.JoinNaluAvcc
              [e |-> "ext.avcc",   f |-> "list", t |-> "avcc"],
              [e |-> "ext.anb",    f |-> "list", t |-> "anb"],    \* chosen start codes, trailing zeros
              [e |-> "avcc2anb",   f |-> "avcc", t |-> "anb"],    \* avc.Avcc2Annexb
              [e |-> "anb2avcc",   f |-> "anb",  t |-> "avcc"],   \* avc.Annexb2Avcc
              [e |-> "split.avcc", f |-> "avcc", t |-> "list"],   \* avc.SplitNaluAvcc
              [e |-> "split.anb",  f |-> "anb",  t |-> "list"] }  \* avc.SplitNaluAnnexb
NalEdgeNames == { x.e : x \in NalEdges }
NalEdge(n) == CHOOSE x \in NalEdges : x.e = n
UnitViews(us) == [i \in DOMAIN us |-> [b |-> us[i].b, n |-> us[i].n, eq |-> TRUE]]

(* byte-level model (filler shortened to at most two bytes of value 128)                        *)
Expand(u) == u.b \o [i \in 1..Min(u.n, 2) |-> 128]
\* a NAL unit never contains 00 00 00 / 00 00 01 / 00 00 02 and never ends with 00
NalLegal(s) == /\ s # <<>> /\ s[Len(s)] # 0
               /\ \A i \in 1..(Len(s) - 2) : ~(s[i] = 0 /\ s[i+1] = 0 /\ s[i+2] <= 2)
RECURSIVE Zeros(_)
Zeros(k) == IF k <= 0 THEN <<>> ELSE <<0>> \o Zeros(k - 1)
RECURSIVE AnbWrite(_, _, _)
AnbWrite(us, scs, tz) ==
  IF us = <<>> THEN Zeros(tz)
  ELSE Zeros(scs[1] - 1) \o <<1>> \o us[1] \o AnbWrite(Tail(us), Tail(scs), tz)
IsPrefix3(s, i) == i + 2 <= Len(s) /\ s[i] = 0 /\ s[i+1] = 0 /\ s[i+2] = 1
RECURSIVE NextPrefix(_, _)
NextPrefix(s, i) == IF i + 2 > Len(s) THEN 0 ELSE IF IsPrefix3(s, i) THEN i ELSE NextPrefix(s, i + 1)
RECURSIVE StripZ(_)
StripZ(s) == IF s # <<>> /\ s[Len(s)] = 0 THEN StripZ(SubSeq(s, 1, Len(s) - 1)) ELSE s
RECURSIVE AnbSplitFrom(_, _)
AnbSplitFrom(s, i) ==
  LET j == NextPrefix(s, i)
  IN IF j = 0 THEN <<StripZ(SubSeq(s, i, Len(s)))>>
     ELSE <<StripZ(SubSeq(s, i, j - 1))>> \o AnbSplitFrom(s, j + 3)
AnbSplit(s) == LET j == NextPrefix(s, 1) IN IF j = 0 THEN <<>> ELSE AnbSplitFrom(s, j + 3)
Len4(n) == <<0, 0, n \div 256, n % 256>>
RECURSIVE AvccWrite(_)
AvccWrite(us) == IF us = <<>> THEN <<>> ELSE Len4(Len(us[1])) \o us[1] \o AvccWrite(Tail(us))
RECURSIVE AvccSplit(_)
AvccSplit(s) == IF Len(s) < 4 THEN <<>>
                ELSE LET n == s[3] * 256 + s[4]
                     IN <<SubSeq(s, 5, 4 + n)>> \o AvccSplit(SubSeq(s, 5 + n, Len(s)))
FramingPreserves(us, scs, tz) ==
  LET bs == [i \in DOMAIN us |-> Expand(us[i])]
  IN /\ \A i \in DOMAIN bs : NalLegal(bs[i])
     /\ AnbSplit(AnbWrite(bs, scs, tz)) = bs
     /\ AvccSplit(AvccWrite(bs)) = bs
     /\ AnbSplit(AnbWrite(AvccSplit(AvccWrite(AnbSplit(AnbWrite(bs, scs, tz)))), scs, 0)) = bs

---------------------------------------------------------------------------
(* (c) SDP.  A media view is [codec, pt, rate, ctl, sets].                                      *)
NoMedia == [codec |-> "none", pt |-> -1, rate |-> 0, ctl |-> "", sets |-> <<>>]
VideoSets(v, lens) == IF v = "none" THEN <<>> ELSE OrigSets(IF v = "H264" THEN "h264" ELSE "h265", lens)
AudioSets(a, ascn) == IF a = "AAC" THEN << [k |-> "asc", n |-> ascn, eq |-> TRUE] >> ELSE <<>>
MediaOK(m, codec, rate, sets) ==
  IF codec = "none" THEN m = NoMedia
  ELSE /\ m.codec = codec /\ m.rate = rate /\ m.sets = sets
       /\ m.pt \in 0..127 /\ m.ctl # ""
       /\ (m.pt < 96 => (m.pt = 0 /\ codec = "PCMU") \/ (m.pt = 8 /\ codec = "PCMA"))   \* RFC 3551 static types
SdpOK(e) ==
  /\ e.ok
  /\ e.lal = e.rfc /\ e.lal2 = e.rfc                      \* lal (twice) and the RFC reader agree
  /\ MediaOK(e.rfc.v, e.v, 90000, VideoSets(e.v, e.lens))  \* ... on what the stream has
  /\ MediaOK(e.rfc.a, e.a, e.rate, AudioSets(e.a, e.ascn))
  /\ e.nmedia = (IF e.v = "none" THEN 0 ELSE 1) + (IF e.a = "none" THEN 0 ELSE 1)
  /\ (e.v # "none" /\ e.a # "none" => e.rfc.v.pt # e.rfc.a.pt /\ e.rfc.v.ctl # e.rfc.a.ctl)

---------------------------------------------------------------------------
(* (e) AAC.  An ASC view is [ot, fi, ch, low, n, eq].                                           *)
AacEdges == { [e |-> "seq",       f |-> "asc",  t |-> "seq"],    \* aac.MakeAudioDataSeqHeaderWithAsc
              [e |-> "seq2asc",   f |-> "seq",  t |-> "asc"],    \* payload[2:] of an AAC sequence header
              [e |-> "adts",      f |-> "asc",  t |-> "adts"],   \* AscContext.PackAdtsHeader
              [e |-> "adts2asc",  f |-> "adts", t |-> "asc"],    \* aac.MakeAscWithAdtsHeader
              [e |-> "adts2seq",  f |-> "adts", t |-> "seq"],    \* aac.MakeAudioDataSeqHeaderWithAdtsHeader
              [e |-> "sdp.pack",  f |-> "asc",  t |-> "sdp"],
              [e |-> "sdp.parse", f |-> "sdp",  t |-> "asc"] }
AacEdgeNames == { x.e : x \in AacEdges }
AacEdge(n) == CHOOSE x \in AacEdges : x.e = n
\* what the ADTS fixed header can carry: 2-bit profile, sampling index, 3-bit channel configuration
Carriable(a) == a.ot \in 1..4 /\ a.fi \in 0..12 /\ a.ch \in 0..7 /\ a.low = 0 /\ a.n = 2
AacEnabled(a, e) == (e = "adts" => Carriable(a)) /\ (e = "sdp.pack" => a.fi \in 0..12)
AdtsOK(a, h, flen) ==
  /\ h.size = 7 /\ h.sync = 4095 /\ h.layer = 0 /\ h.pa = 1
  /\ h.profile = a.ot - 1 /\ h.fi = a.fi /\ h.ch = a.ch
  /\ h.len = flen + 7 /\ h.blocks = 0
AdtsFits(a, flen) == Carriable(a) => a.ot - 1 \in 0..3 /\ a.fi < 16 /\ a.ch < 8 /\ flen + 7 < 8192
=============================================================================

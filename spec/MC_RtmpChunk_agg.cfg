SPECIFICATION Spec
CONSTANTS
  LimbB = 65536
  ExtMark <- P_ExtMark
  Csids = {3}
  TsPool <- P_TsPoolC
  LenPool = {1}
  TypePool = {8}
  MsidPool = {1}
  CsPool = {40}
  InitCs = 16
  ScsLen = 4
  AggPool <- P_Agg1
  MaxMsgs = 2
  ScsCsid = 2
INVARIANTS RoundTrip TypeOK
VIEW View
ACTION_CONSTRAINT Emit

SPECIFICATION Spec
CONSTANTS
  Modes = {1, 2}
  MaxEp = 3
  MaxGrp = 3
  MaxFeed = 1
  MaxAge = 4
  MaxPending = 2
  Capture = TRUE
INVARIANTS TypeOK LiveSpared
VIEW View

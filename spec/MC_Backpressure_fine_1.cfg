SPECIFICATION FineSpec
CONSTANTS
  Cons = {"s1", "s2"}
  Healthy = {}
  Other = {}
  N = 1
  HCap = 64
  Parts = 1
  ElemParts = 1
  WsMode = TRUE
  EnqAcct = FALSE
  HasDeadline = TRUE
  Prime = FALSE
  MaxPub = 4
  MaxRead = 2
  MaxStall = 2
  MaxSweep = 2
  MaxLeave = 0
  MaxPubB = 0
  MaxCmd = 0
INVARIANTS WholeUnits NoBlocking QueueBound
VIEW FineView

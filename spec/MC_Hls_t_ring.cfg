SPECIFICATION Spec
CONSTANTS
  CfgPool <- RingCfgs
  AvPool = {TRUE}
  Kinds = {"Kb"}
  Classes = {"eq", "short", "jump"}
  MaxFrames = 8
  MaxEpoch = 1
  TargetLal = FALSE
INVARIANTS PlaylistWellFormed SeqMonotone TargetCovers ListedExist ListedWhole RecentStillPresent NoLossNoDup Finalised
ACTION_CONSTRAINT EmitS

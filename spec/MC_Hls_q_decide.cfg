SPECIFICATION Spec
CONSTANTS
  CfgPool <- DecideCfgs
  AvPool = {TRUE, FALSE}
  Kinds = {"Kb", "I", "A"}
  Classes = {"short", "below", "eq", "jump", "back"}
  MaxFrames = 3
  MaxEpoch = 1
  TargetLal = FALSE
INVARIANTS PlaylistWellFormed SeqMonotone TargetCovers ListedExist ListedWhole RecentStillPresent NoLossNoDup Finalised
ACTION_CONSTRAINT EmitS

SPECIFICATION Spec
CONSTANTS
  Surf = "http"
  Depth = 2
  Level = 2
INVARIANTS Total ClosedIsFinal Bounded
ACTION_CONSTRAINT EmitS
VIEW View

------------------------------- MODULE MC_Rtp -------------------------------
(* Scaled exhaustive model for C12: every unit sequence (sizes at the fragment-count         *)
(* boundaries of a small payload limit) x initial sequence number at the wrap x every        *)
(* arrival order inside the reorder window x one duplicated packet.                          *)
EXTENDS Rtp

CONSTANTS Limit, MaxList, Codecs, MaxUnits, S0s, Slacks
\* slack = 0: arrivals stay inside the window (Lossless must hold); slack > 0: arrivals may leave
\* it by slack positions (scenarios for the forced-progress branch, conformance only)

VARIABLES c, us, s0, sl, pk, cnt, order, dup, rx
vars == <<c, us, s0, sl, pk, cnt, order, dup, rx>>

Rate == 90000
Pt == 96
Hdr(cd, i) == IF cd = "avc" THEN <<0, i % 4, i>> ELSE IF cd = "hevc" THEN <<0, i, i, i>> ELSE <<>>
Cap(cd) == Limit - Ovh(cd)
Sizes(cd) == IF cd = "raw" THEN {1, Limit + 1}
             ELSE IF cd = "aac" THEN {1, Cap(cd), Cap(cd) + 1, 2 * Cap(cd), 2 * Cap(cd) + 1}
             ELSE {HB(cd), Limit, Limit + 1, HB(cd) + 2 * Cap(cd), HB(cd) + 2 * Cap(cd) + 1}
SizeSeqs(cd) == UNION { [1..k -> Sizes(cd)] : k \in 1..MaxUnits }
Units(cd, ns) == [i \in 1..Len(ns) |-> [h |-> Hdr(cd, i), n |-> ns[i], id |-> i]]
Frames(uu) == [j \in 1..Len(uu) |-> [ms |-> 40 * j, us |-> <<uu[j]>>]]
KMax(cd, uu) == LET ks == {NPk(cd, uu[i], Limit) : i \in 1..Len(uu)} IN CHOOSE k \in ks : \A q \in ks : q <= k
N == Len(pk)
W == WinOf(MaxList, KMax(c, us))
Got == {i \in 1..N : cnt[i] >= 1}
All == Got = 1..N

Init == /\ c \in Codecs /\ s0 \in S0s /\ sl \in Slacks
        /\ \E ns \in SizeSeqs(c) : us = Units(c, ns)
        /\ pk = Flat(RefPack(c, Frames(us), s0, Limit, Rate, Pt))
        /\ cnt = [i \in 1..Len(pk) |-> 0] /\ order = <<>> /\ dup = FALSE /\ rx = RxInit
Deliver(i) == /\ cnt[i] = 0 /\ (order = <<>> => i = 1) /\ i < Adv(Got, 1) + W + sl
              /\ cnt' = [cnt EXCEPT ![i] = 1] /\ order' = Append(order, i)
              /\ rx' = Feed(c, rx, pk[i], MaxList)
              /\ UNCHANGED <<c, us, s0, sl, pk, dup>>
Dup(i) == /\ cnt[i] = 1 /\ ~dup /\ dup' = TRUE
          /\ cnt' = [cnt EXCEPT ![i] = 2] /\ order' = Append(order, i)
          /\ rx' = Feed(c, rx, pk[i], MaxList)
          /\ UNCHANGED <<c, us, s0, sl, pk>>
Next == \E i \in 1..N : Deliver(i) \/ Dup(i)
Spec == Init /\ [][Next]_vars

IsPrefix(a, b) == Len(a) <= Len(b) /\ SubSeq(b, 1, Len(a)) = a
PackerOK == order = <<>> => PackOK(c, Frames(us), s0, Limit, Rate, Pt, RefPack(c, Frames(us), s0, Limit, Rate, Pt))
WindowPositive == W >= 1
Prefix == sl = 0 => IsPrefix(rx.out, Ds(c, us))                          \* in order, nothing twice
Lossless == (All /\ sl = 0) => (rx.out = Ds(c, us) /\ rx.l = <<>>)       \* OrderInsensitive: for every arrival order
WinSound == (All /\ sl = 0) => InWin(order, N, W)
EmitS == (Got' = 1..N) =>
           PrintT("@S@" \o ToJson([c |-> c, ns |-> [i \in 1..Len(us) |-> us[i].n], limit |-> Limit, s0 |-> s0,
                                   max |-> MaxList, sl |-> sl, order |-> order']))
=============================================================================

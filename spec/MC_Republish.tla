---------------------------- MODULE MC_Republish ----------------------------
(* Generator + design-level check for the start-clean clause of C16 on the TS side: every behaviour  *)
(* of a sequence of well-formed publishers (epoch plan E1 > E2 [> E3], each with its own track set   *)
(* and fresh parameter-set / ASC versions) over message kinds x timestamp increments x join point of *)
(* a second HTTP-TS consumer (inside an epoch or between two) is run through the reference model of  *)
(* lal with RmLeave / RmArrive between the epochs; what the staying HTTP-TS consumer, the joining one *)
(* and the HLS muxer are handed in epoch k must satisfy the acceptor of a fresh stream.              *)
EXTENDS Republish

CONSTANTS NEp, E1V, E1A, E2V, E2A, E3V, E3A,   \* epoch plan (codec names; unused epochs "none")
          MaxPub,      \* messages per epoch
          MaxPub1,     \* messages of the first epoch (it only has to leave something behind)
          MinPub,      \* messages before a publisher may leave
          MaxVer,      \* new parameter-set versions per epoch
          KindSel,     \* "min" | "core" | "all"
          DtPool,      \* timestamp increments (ms)
          AscPool,     \* AudioSpecificConfig versions
          T0Pool,      \* first timestamp of a later publisher (ms)
          KeepHdr      \* TRUE: the model-level mutant (sequence headers survive the input) - must be caught

VARIABLES uid, now, npub, plan, lastAsc, leaveOk
mvars == <<evars, uid, now, npub, plan, lastAsc, leaveOk>>
View == <<vc, ac, hist, cons, rtp, rm, ep, uid, now, npub, plan, lastAsc, leaveOk>>

P(v, a) == [v |-> v, a |-> a]
PlanC == SubSeq(<< P(E1V, E1A), P(E2V, E2A), P(E3V, E3A) >>, 1, NEp)

T0 == 1000
DefN == 100
AscTab(v) == CASE v = 1 -> <<2, 4, 2>> [] v = 2 -> <<2, 3, 2>> [] v = 4 -> <<2, 3, 6>> [] v = 5 -> <<1, 4, 7>>
               [] v = 6 -> <<4, 0, 2>> [] v = 7 -> <<2, 12, 4>> [] OTHER -> <<2, 11, 1>>

K(name, key, cts, nals, newps) == [name |-> name, key |-> key, cts |-> cts, nals |-> nals, newps |-> newps]
PsSeq == IF vc = "hevc" THEN <<"vps", "sps", "pps">> ELSE <<"sps", "pps">>
Min2 == { K("K", TRUE, 0, <<"idr">>, FALSE), K("P", FALSE, 0, <<"slice">>, FALSE) }
Core == Min2 \cup { K("B", FALSE, 80, <<"slice">>, FALSE), K("Kp", TRUE, 0, PsSeq \o <<"idr">>, FALSE),
                    K("Kn", TRUE, 0, PsSeq \o <<"idr">>, TRUE) }
More == { K("Ks", TRUE, 40, <<"sei", "idr">>, FALSE), K("Ka", TRUE, 0, <<"aud", "idr", "idr">>, FALSE),
          K("Pa", FALSE, 0, <<"aud", "slice">>, FALSE), K("Ps", FALSE, 40, <<"sei", "slice", "slice">>, FALSE),
          K("S", FALSE, 0, PsSeq, TRUE), K("Kas", TRUE, 0, <<"aud">> \o PsSeq \o <<"sei", "idr">>, FALSE),
          K("Ksp", TRUE, 0, <<"sps", "idr">>, TRUE), K("Pp", FALSE, 0, <<"pps", "slice">>, TRUE) }
VKinds == CASE KindSel = "min" -> Min2 [] KindSel = "core" -> Core [] OTHER -> Core \cup More
Dt1 == {23}
Dt2 == {23, 400}
Dt5 == {0, 23, 160, 400, 70000}
T0One == {1000}
T0Two == {40, 200000}

NCoded(ts, i) == Cardinality({j \in 1..i : ts[j] \in {"idr", "slice", "sei"}})
MkV(k, tm) ==
  LET v == IF k.newps THEN ep.vmax + 1 ELSE ep.vmax IN
  [k |-> "v", name |-> k.name, ver |-> 0, key |-> k.key, cts |-> k.cts, n |-> 0, id |-> 0, tm |-> tm, asc |-> <<>>,
   nals |-> [i \in 1..Len(k.nals) |->
              LET t == k.nals[i] IN
              [t |-> t, n |-> DefN, v |-> IF t \in {"sps", "pps", "vps"} THEN v ELSE 0,
               id |-> IF t \in {"idr", "slice", "sei"} THEN uid + NCoded(k.nals, i) ELSE 0]]]
MkHdr(k, ver, tm) == [k |-> k, name |-> k, ver |-> ver, key |-> FALSE, cts |-> 0, n |-> 0, id |-> 0, tm |-> tm,
                      asc |-> IF k = "ash" THEN AscTab(ver) ELSE <<>>, nals |-> <<>>]
MkA(tm) == [k |-> "a", name |-> "A", ver |-> 0, key |-> FALSE, cts |-> 0, n |-> DefN, id |-> uid + 1, tm |-> tm, asc |-> <<>>, nals |-> <<>>]

Init == /\ plan = PlanC /\ vc = PlanC[1].v /\ ac = PlanC[1].a /\ hist = HistInit
        /\ cons = [c \in SubAll |-> ConsInit] /\ rtp = [c \in RtpCons |-> RtpInit]
        /\ rm = RmArrive([RmInit3 EXCEPT !.sub["t1"] = [in |-> TRUE, fresh |-> TRUE, wait |-> TRUE]])
        /\ ep = [EpInit EXCEPT !.since["t1"] = 0]
        /\ uid = 0 /\ now = T0 /\ npub = 0 /\ lastAsc = 0 /\ leaveOk = TRUE
        /\ act = [name |-> "init"]

Step(m, dt) ==
  LET h2 == HistStep(hist, m, T3OfInt(m.tm))
      y == FeedAll(RmPush(rm, m), NoDel3, 1)
  IN /\ hist' = h2
     /\ rm' = y.r
     /\ cons' = [c \in SubAll |-> AcceptTs(h2, cons[c], y.del[c], 1)]
     /\ ep' = EpPub(ep, m)
     /\ now' = m.tm /\ npub' = npub + 1
     /\ act' = [name |-> "Pub", m |-> m, dt |-> dt]
     /\ UNCHANGED <<vc, ac, rtp, plan, leaveOk>>

CanPub == ep.live /\ npub < (IF ep.n = 1 THEN MaxPub1 ELSE MaxPub)
MayNewVer == ep.vmax - ep.vbase < MaxVer
PubVsh == /\ CanPub /\ vc # "none" /\ (hist.vshv = 0 \/ MayNewVer)
          /\ Step(MkHdr("vsh", ep.vmax + 1, now), 0) /\ UNCHANGED <<uid, lastAsc>>
PubAsh == /\ CanPub /\ ac = "aac"
          /\ \E v \in AscPool : v # lastAsc /\ Step(MkHdr("ash", v, now), 0) /\ lastAsc' = v
          /\ uid' = uid
PubV == /\ CanPub /\ vc # "none" /\ hist.vshv > 0
        /\ \E k \in VKinds, dt \in DtPool :
             /\ (k.newps => MayNewVer)
             /\ Step(MkV(k, now + dt), dt)
             /\ uid' = uid + NCoded(k.nals, Len(k.nals))
        /\ UNCHANGED lastAsc
PubA == /\ CanPub /\ ac # "none" /\ (ac = "aac" => hist.ascv > 0)
        /\ \E dt \in DtPool : Step(MkA(now + dt), dt)
        /\ uid' = uid + 1 /\ UNCHANGED lastAsc
Join2 == /\ ~rm.sub["t2"].in
         /\ rm' = [rm EXCEPT !.sub["t2"] = [in |-> TRUE, fresh |-> TRUE, wait |-> TRUE]]
         /\ ep' = EpJoin(ep, hist, "t2")
         /\ act' = [name |-> "Join", c |-> "t2"]
         /\ UNCHANGED <<vc, ac, hist, cons, rtp, uid, now, npub, plan, lastAsc, leaveOk>>

\* what must hold of an epoch when its publisher leaves (the acceptor's end-of-stream rules)
LeaveRules(h, cs, e) ==
  \A c \in SubAll :
    /\ EndOk(h, cs[c])
    /\ e.since[c] = 0 => StartsInTime(h, cs[c])
    /\ e.since[c] > 0 => JoinStartsInTime(h, cs[c], e.since[c])

PubLeave == /\ ep.live /\ npub >= MinPub
            /\ LET y == IF KeepHdr THEN RmLeaveKeepHdr(rm) ELSE RmLeave(rm)
                   c2 == [c \in SubAll |-> AcceptTs(hist, cons[c], y.del[c], 1)]
               IN /\ rm' = y.r /\ cons' = c2
                  /\ leaveOk' = (leaveOk /\ LeaveRules(hist, c2, ep))
            /\ ep' = EpLeave(ep)
            /\ act' = [name |-> "PubLeave"]
            /\ UNCHANGED <<vc, ac, hist, rtp, uid, now, npub, plan, lastAsc>>

PubArrive == /\ ~ep.live /\ Len(plan) > 1
             /\ plan' = Tail(plan) /\ vc' = plan[2].v /\ ac' = plan[2].a
             /\ hist' = HistInit /\ cons' = [c \in SubAll |-> ConsInit]
             /\ rm' = RmArrive(rm) /\ ep' = EpArrive(ep)
             /\ \E t \in T0Pool : now' = t /\ act' = [name |-> "PubArrive", v |-> plan[2].v, a |-> plan[2].a, t0 |-> t]
             /\ npub' = 0
             /\ UNCHANGED <<rtp, uid, lastAsc, leaveOk>>

Next == PubVsh \/ PubAsh \/ PubV \/ PubA \/ Join2 \/ PubLeave \/ PubArrive
Spec == Init /\ [][Next]_mvars

AllOk == \A c \in SubAll : cons[c].ok
EpochComplete == leaveOk
\* between two publishers nothing of the first is left in the reference model
CleanBetween == ~ep.live => /\ rm.ring = <<>> /\ ~rm.patpmt /\ rm.sp = NoPs /\ ~rm.hasSp /\ rm.asc = <<>>
                            /\ rm.cache = <<>> /\ ~rm.opened /\ ~rm.done /\ rm.q = <<>> /\ rm.vb = -1 /\ rm.ab = -1
\* non-vacuity: a behaviour exists in which, in the last epoch, the staying consumer, a consumer that joined
\* in that epoch and the HLS muxer were all handed frames (TLC must report the negation as violated)
Witness == ~(/\ ~ep.live /\ Len(plan) = 1 /\ ep.n = NEp /\ ep.since["t2"] > 0
             /\ \A c \in SubAll : cons[c].start > 0)
EmitA == PrintT("@A@" \o ToJson([a |-> act, l |-> TLCGet("level")]))
=============================================================================

---------------------------- MODULE Trace_Rtp ----------------------------
(* Trace validation for C12.  Pack: the packets returned by rtprtcp.RtpPacker.Pack (src lal) or *)
(* by the independent RFC packetiser (src ref), cut into records by the independent RTP reader, *)
(* decided by PackOK; e.ref are the units the independent RFC depacketiser found in the bytes.  *)
(* Feed: the units delivered by lal's RtpUnpackContainer callback for an arrival order, decided  *)
(* by the receiver model (conformance) and - inside the reorder window - by Lossless.            *)
EXTENDS Rtp, IOUtils

Trace == ndJsonDeserialize(IOEnv.TRACE)
VARIABLES l
TraceInit == l = 1 /\ TLCSet(1, 1)
IsEvent(e) == l <= Len(Trace) /\ Trace[l].ev = e /\ l' = l + 1
\* every line is an independent case: a rejected line is reported and validation continues
Check(c) == IF c THEN TRUE ELSE PrintT("@REJ@" \o ToString(l))

RECURSIVE AllUnits(_, _)
AllUnits(frames, j) == IF j > Len(frames) THEN <<>> ELSE frames[j].us \o AllUnits(frames, j + 1)
RECURSIVE MaxK(_, _)
MaxK(c, pl) == IF pl = <<>> THEN 0
               ELSE LET r == Try(c, pl) IN
                    IF ~r.ok THEN Len(pl)
                    ELSE LET q == MaxK(c, SubSeq(pl, r.k + 1, Len(pl))) IN IF r.k > q THEN r.k ELSE q

TraceReset == IsEvent("reset")

TracePack == /\ IsEvent("Pack")
             /\ LET e == Trace[l]
                IN Check(/\ PackOK(e.c, e.frames, e.s0, e.limit, e.rate, e.pt, e.pk)
                         /\ e.ref = Ds(e.c, AllUnits(e.frames, 1)))

TraceFeed == /\ IsEvent("Feed")
             /\ LET e == Trace[l]
                    N == Len(e.pkts)
                    W == WinOf(e.max, MaxK(e.c, e.pkts))
                    m == RxRun(e.c, e.pkts, e.order, e.max, RxInit, 1)
                IN Check(/\ e.perr = 0
                         /\ e.out = m.out                                            \* the receiver is the modelled one
                         /\ InWin(e.order, N, W) => e.out = Ds(e.c, e.us))          \* Lossless / OrderInsensitive

TraceNext == TraceReset \/ TracePack \/ TraceFeed
TraceSpec == TraceInit /\ [][TraceNext]_l
HighWater == TLCSet(1, IF l > TLCGet(1) THEN l ELSE TLCGet(1))
Accept == PrintT("@HW@" \o ToString(TLCGet(1)))
=============================================================================

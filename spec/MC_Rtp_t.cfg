SPECIFICATION Spec
CONSTANTS
  SeqMod = 32
  Limit = 6
  MaxList = 5
  Codecs = {"avc", "hevc", "aac", "raw"}
  MaxUnits = 3
  S0s = {0, 29, 31}
  Slacks = {0, 1}
INVARIANTS PackerOK WindowPositive Prefix Lossless WinSound
ACTION_CONSTRAINT EmitS

------------------------------- MODULE Auth -------------------------------
(* C14: access control of lal admits exactly the authorised requests.                           *)
(*                                                                                              *)
(* (a) simple-auth decision table: protocol-direction x enabled flags x form of the secret      *)
(*     -> the set of observation records a correct server may produce;                          *)
(* (b) RTSP authentication machine of one connection: challenges issued so far, credentials     *)
(*     offered, response;                                                                       *)
(* (c) kick and the IP black-list (address -> expiry);                                          *)
(* (d) path confinement: request paths / stream names as sequences of path segments, the        *)
(*     lexical normalisation of a path and the prefix order `Inside`.                           *)
(* Everything is an operator over JSON-compatible records so that the model checker (MC_Auth)   *)
(* and the trace specification (Trace_Auth) share the same definitions.                         *)
EXTENDS Integers, Sequences, FiniteSets, TLC

ToSet(s) == { s[i] : i \in DOMAIN s }

---------------------------------------------------------------------------
(* (a) simple-auth                                                                              *)
Flags == {"pub_rtmp_enable", "sub_rtmp_enable", "sub_httpflv_enable", "sub_httpts_enable",
          "pub_rtsp_enable", "sub_rtsp_enable", "hls_m3u8_enable"}
HlsPds == {"hls_m3u8", "hls_m3u8_dir"}          \* /hls/<s>.m3u8 and /hls/<s>/playlist.m3u8
PubPds == {"rtmp_pub", "rtsp_pub"}
Pds == {"rtmp_pub", "rtmp_sub", "flv_sub", "ts_sub", "rtsp_pub", "rtsp_sub"} \cup HlsPds
FlagOf(pd) == CASE pd = "rtmp_pub" -> "pub_rtmp_enable"
                [] pd = "rtmp_sub" -> "sub_rtmp_enable"
                [] pd = "flv_sub"  -> "sub_httpflv_enable"
                [] pd = "ts_sub"   -> "sub_httpts_enable"
                [] pd = "rtsp_pub" -> "pub_rtsp_enable"
                [] pd = "rtsp_sub" -> "sub_rtsp_enable"
                [] pd \in HlsPds   -> "hls_m3u8_enable"

(* Forms of the query string.  right = md5(key ++ stream) in lower-case hex.                    *)
AdmitForms  == {"right", "rightUpper", "rightAmongOthers", "ovrExact"}
RejectForms == {"absent", "noParam", "empty", "wrong", "other", "badEscape"}
(* the property statement does not fix these: duplicated parameter, other parameter malformed,  *)
(* second '?', parameter name / override secret in another letter case                          *)
EitherForms == {"nameCase", "dupRightFirst", "dupWrongFirst", "badOther", "doubleQ", "ovrLower", "ovrUpper"}
OvrForms == {"ovrExact", "ovrLower", "ovrUpper"}
Forms == AdmitForms \cup RejectForms \cup EitherForms
Ovrs == {"none", "lower", "mixed"}              \* override secret: not configured / "backdoor9" / "BackDoor9"

\* without a configured override the ovr* forms carry the empty secret
EffForm(form, ovr) == IF ovr = "none" /\ form \in OvrForms THEN "empty"
                      ELSE IF ovr = "lower" /\ form = "ovrLower" THEN "ovrExact" ELSE form

Guarded(flags, pd) == FlagOf(pd) \in flags
Verdicts(flags, pd, form, ovr) ==
  LET f == EffForm(form, ovr) IN
  IF ~Guarded(flags, pd) THEN {TRUE}
  ELSE IF f \in AdmitForms THEN {TRUE}
  ELSE IF f \in RejectForms THEN {FALSE}
  ELSE BOOLEAN

(* Observation of one request: resp = media / SDP / playlist bytes came back (ANNOUNCE: 200),   *)
(* listed = the session is in the stat API, pub = a publisher exists, closed = connection gone. *)
SaObs(pd, admitted) ==
  IF admitted
  THEN {[resp |-> pd # "rtmp_pub", listed |-> pd \notin HlsPds, pub |-> pd \in PubPds, closed |-> FALSE]}
  ELSE {[resp |-> FALSE, listed |-> FALSE, pub |-> FALSE, closed |-> c] : c \in BOOLEAN}
SaAllowed(flags, pd, form, ovr) == UNION { SaObs(pd, v) : v \in Verdicts(flags, pd, form, ovr) }

---------------------------------------------------------------------------
(* (b) RTSP authentication (DESCRIBE).  method 0 = Basic, 1 = Digest.                            *)
(* The challenge machine spans several connections of one server: every step names the           *)
(* connection it is made on, `issued` counts the challenges each connection has received.        *)
RaConns == {"c1", "c2"}
BasicCreds  == {"basicRight", "basicWrongPass", "basicWrongUser", "basicBadB64", "basicNoColon"}
DigestCreds == {"digestRight", "digestWrongPass", "digestWrongMethod", "digestOtherUri"}
Creds == {"none", "bearer"} \cup BasicCreds \cup DigestCreds
(* nonce used by Digest credentials: the last / first challenge of THIS connection, the last      *)
(* challenge the server gave to the other live connection, a challenge it gave to a connection    *)
(* that has been closed since, a value the server never issued, the empty string                  *)
Nonces == {"last", "first", "otherLive", "otherClosed", "forged", "empty"}

(* "yes" | "no" | "either".  Valid Digest credentials answer a challenge of the connection they   *)
(* are sent on: a response computed for a nonce the server never gave to this connection (one it   *)
(* gave to somebody else, live or gone, or nobody) is not an answer to this connection's          *)
(* challenge, whoever computed it.  Only the superseded own challenge is left open (RFC 7616      *)
(* lets a server accept it or answer stale).                                                     *)
Valid(method, cred, nonce, issued) ==
  IF method = 0 THEN (IF cred = "basicRight" THEN "yes" ELSE "no")
  ELSE IF cred # "digestRight" THEN "no"
  ELSE IF nonce = "last" THEN (IF issued >= 1 THEN "yes" ELSE "no")
  ELSE IF nonce = "first" THEN (IF issued = 1 THEN "yes" ELSE IF issued > 1 THEN "either" ELSE "no")
  ELSE "no"

Scheme(method) == IF method = 0 THEN "Basic" ELSE "Digest"

\* is response o to step s allowed on a connection that has received `issued` challenges?
\* (fresh: the nonce of the challenge differs from every nonce the server has issued before, to
\* whatever connection)
RaStepOk(enable, method, issued, s, o) ==
  IF ~enable THEN o.sdp /\ o.code = 200
  ELSE IF s.cred = "none"
       THEN /\ o.code = 401 /\ ~o.sdp /\ ~o.closed
            /\ o.chal = Scheme(method)
            /\ (method = 1 => o.fresh)
  ELSE LET v == Valid(method, s.cred, s.nonce, issued) IN
       CASE v = "yes" -> o.sdp /\ o.code = 200
         [] v = "no"  -> ~o.sdp /\ o.code # 200
         [] OTHER     -> (o.sdp /\ o.code = 200) \/ (~o.sdp /\ o.code # 200)

RaIssued0 == [k \in RaConns |-> 0]
RaIssue(enable, issued, s) == IF enable /\ s.cred = "none" THEN [issued EXCEPT ![s.conn] = @ + 1] ELSE issued
RECURSIVE RaIssuedAfter(_, _, _)
RaIssuedAfter(steps, i, issued) ==      \* challenges per connection after steps[1..i] (authentication enabled)
  IF i = 0 THEN issued ELSE RaIssue(TRUE, RaIssuedAfter(steps, i - 1, issued), steps[i])

RECURSIVE RaOk(_, _, _, _, _)
\* steps: sequence of records with the request (conn, cred, nonce) and the observed response
RaOk(enable, method, steps, i, issued) ==
  IF i > Len(steps) THEN TRUE
  ELSE /\ steps[i].conn \in RaConns /\ steps[i].nonce \in Nonces \cup {""}
       /\ RaStepOk(enable, method, issued[steps[i].conn], steps[i], steps[i])
       /\ RaOk(enable, method, steps, i + 1, RaIssue(enable, issued, steps[i]))

---------------------------------------------------------------------------
(* (c) kick, black-list                                                                          *)
(* the kicked session is the one named by the id: it is disconnected (an HLS session: its        *)
(* session id stops being served); an unknown id disconnects nothing - also one that is a prefix *)
(* of the id of a session of the stream                                                          *)
KickPds == {"rtmp_pub", "rtmp_sub", "flv_sub", "ts_sub", "rtsp_pub", "rtsp_sub", "hls_sub"}
KickOk(which, had, ok, closed) ==
  /\ had
  /\ IF which = "real" THEN ok /\ closed ELSE ~ok /\ ~closed

(* black-list: address -> expiry; a probe k seconds after Add(a, dur), Add(c, dur + 5) gets      *)
(* nothing for a listed address before its expiry and content after it (the instant k = dur is   *)
(* not fixed); another address always gets content.  "Content" is every file the HLS server      *)
(* offers: the playlist under its three URL forms and a segment under its two.                   *)
BlAdd(tbl, ip, now, dur) == [x \in DOMAIN tbl \cup {ip} |-> IF x = ip THEN now + dur ELSE tbl[x]]
BlMay(tbl, ip, now) ==      \* set of allowed answers to "is content served?"
  IF ip \notin DOMAIN tbl THEN {TRUE}
  ELSE IF now < tbl[ip] THEN {FALSE} ELSE IF now > tbl[ip] THEN {TRUE} ELSE BOOLEAN
BlIps == {"a", "b", "c"}
\* v6x: listed in the expanded spelling of the IPv6 address; v4m: an IPv4 peer listed in IPv4-mapped spelling (::ffff:a.b.c.d) -
\* other spellings of the same address
BlFams == {"v4", "v6", "v6x", "v4m"}
BlTbl(dur) == BlAdd(BlAdd(<<>>, "a", 0, dur), "c", 0, dur + 5)
BlProbeOk(dur, p) ==
  /\ p.ip \in BlIps
  /\ Len(p.got) = 5
  /\ \A i \in DOMAIN p.got : p.got[i] \in BlMay(BlTbl(dur), p.ip, p.k)

---------------------------------------------------------------------------
(* (c') spellings of one HLS request.  The admission gate (simple-auth), the black-list check     *)
(* and the file server each interpret the request path; the property's iff is about what comes    *)
(* back: whatever path yields playlist content of a stream must have carried the secret of that   *)
(* stream when the flag is on, whatever path yields any content must come from an address that    *)
(* is not listed, and the documented spellings are served when admitted.  The driver plants       *)
(* tagged files for the streams cam1 and CAM1; o = [what, stream] names the tag that came back.   *)
HpShapes   == {"flat", "dir", "rec", "tsflat", "tsdir"}   \* /hls/<s>.m3u8 /hls/<s>/playlist.m3u8 /hls/<s>/record.m3u8
                                                           \* /hls/<s>-1-0.ts /hls/<s>/<s>-1-0.ts
HpPrefixes == {"hls", "HLS", "%68ls"}
HpStreams  == {"cam1", "CAM1", "Cam1", "%63am1"}
HpFnames   == {"lower", "upper", "mixed", "esc"}           \* playlist PLAYLIST Playlist %70laylist (record likewise)
HpExtM     == {"m3u8", "M3U8", "M3u8", "m3u%38", "%6d3u8"}
HpExtT     == {"ts", "TS", "Ts", "t%73"}
HpSlashes  == {"none", "trail", "dupMid", "dupHead", "dot"} \* x/  <dir>//<file>  /hls//x  /hls/./x
HpForms    == {"absent", "wrong", "s_cam1", "s_CAM1"}      \* secret derived from the name cam1 / CAM1
HpCfgs     == {"none", "hls", "allbuthls", "all"}          \* simple-auth flags that are on
HpIsTs(p) == p.shape \in {"tsflat", "tsdir"}
HpWellFormed(p) ==
  /\ p.shape \in HpShapes /\ p.prefix \in HpPrefixes /\ p.stream \in HpStreams /\ p.slash \in HpSlashes
  /\ p.ext \in (IF HpIsTs(p) THEN HpExtT ELSE HpExtM)
  /\ p.fname \in (IF p.shape \in {"dir", "rec"} THEN HpFnames ELSE {"lower"})
HpDev(p) == (IF p.prefix = "hls" THEN 0 ELSE 1) + (IF p.stream = "cam1" THEN 0 ELSE 1)
            + (IF p.fname = "lower" THEN 0 ELSE 1) + (IF p.ext \in {"m3u8", "ts"} THEN 0 ELSE 1)
            + (IF p.slash = "none" THEN 0 ELSE 1)
\* the documented URL forms of pkg/hls/path_strategy.go for a stream that exists
HpCanon(p) == /\ p.prefix = "hls" /\ p.stream \in {"cam1", "CAM1"} /\ p.fname = "lower"
              /\ p.ext \in {"m3u8", "ts"} /\ p.slash = "none"
HpWhat(p) == IF HpIsTs(p) THEN "ts" ELSE IF p.shape = "rec" THEN "record" ELSE "playlist"
HpGuarded(cfg) == cfg \in {"hls", "all"}
HpSecretOf(form) == CASE form = "s_cam1" -> "cam1" [] form = "s_CAM1" -> "CAM1" [] OTHER -> ""
HpObsSpace == {[what |-> w, stream |-> s] : w \in {"none", "playlist", "record", "ts", "other"}, s \in {"", "cam1", "CAM1"}}
HpOk(cfg, p, form, listed, o) ==
  /\ o.what \in {"none", "playlist", "record", "ts"}                \* never bytes that are no planted file
  /\ (o.what = "none") = (o.stream = "")
  /\ listed => o.what = "none"
  /\ (HpGuarded(cfg) /\ o.what \in {"playlist", "record"}) => HpSecretOf(form) = o.stream
  /\ (HpCanon(p) /\ ~listed /\ (HpIsTs(p) \/ ~HpGuarded(cfg) \/ HpSecretOf(form) = p.stream))
       => o = [what |-> HpWhat(p), stream |-> p.stream]
HpAllowed(cfg, p, form, listed) == {o \in HpObsSpace : HpOk(cfg, p, form, listed, o)}

(* spellings of one HTTP-FLV / HTTP-TS pull: /live/<s>.flv, a publisher exists for cam1 only     *)
SvPds     == {"flv_sub", "ts_sub"}
SvStreams == {"cam1", "CAM1", "%63am1"}
SvExts    == {"lower", "upper", "esc"}                     \* .flv .FLV .fl%76 / .ts .TS .t%73
SvSlashes == {"none", "trail", "dup"}
SvForms   == {"absent", "s_cam1", "s_CAM1"}
SvCanon(p) == p.stream = "cam1" /\ p.ext = "lower" /\ p.slash = "none"
SvOk(on, pd, p, form, o) ==
  /\ (o.resp \/ o.listed) => (~on \/ form = "s_cam1")     \* media of cam1 only with the secret of cam1
  /\ ~o.pub
  /\ (SvCanon(p) /\ (~on \/ form = "s_cam1")) => o \in SaObs(pd, TRUE)

---------------------------------------------------------------------------
(* (d) path confinement.  Paths are sequences of segments relative to the directory that holds  *)
(* the configured roots.                                                                        *)
RootHls == <<"a", "b", "hls">>
RootFlv == <<"a", "b", "flv">>
RootTs  == <<"a", "b", "ts">>
Inside(p, root) == Len(p) > Len(root) /\ SubSeq(p, 1, Len(root)) = root
InsideAny(p) == Inside(p, RootHls) \/ Inside(p, RootFlv) \/ Inside(p, RootTs)

RECURSIVE Norm(_, _)
\* lexical normalisation (path.Clean / filepath.Join): "" and "." vanish, ".." removes a segment
Norm(s, acc) ==
  IF s = <<>> THEN acc
  ELSE LET h == Head(s) IN
       IF h \in {"", "."} THEN Norm(Tail(s), acc)
       ELSE IF h = ".." THEN Norm(Tail(s), IF acc = <<>> THEN <<>> ELSE SubSeq(acc, 1, Len(acc) - 1))
       ELSE Norm(Tail(s), Append(acc, h))

Plain(seg) == seg \notin {"", ".", ".."}

(* Request tokens: decoded path segment, file type, stem of <stem>.m3u8, stream of <s>-<t>-<i>.ts *)
TokInfo(t) ==
  CASE t = "name"          -> [seg |-> "name", ft |-> "", stem |-> "", ts |-> ""]
    [] t = "."             -> [seg |-> ".", ft |-> "", stem |-> "", ts |-> ""]
    [] t = ".."            -> [seg |-> "..", ft |-> "", stem |-> "", ts |-> ""]
    [] t = ""              -> [seg |-> "", ft |-> "", stem |-> "", ts |-> ""]
    [] t = "%2e%2e"        -> [seg |-> "..", ft |-> "", stem |-> "", ts |-> ""]
    [] t = "..-1-2.ts"     -> [seg |-> "..-1-2.ts", ft |-> "ts", stem |-> "", ts |-> ".."]
    [] t = "...m3u8"       -> [seg |-> "...m3u8", ft |-> "m3u8", stem |-> "..", ts |-> ""]
    [] t = "playlist.m3u8" -> [seg |-> "playlist.m3u8", ft |-> "m3u8", stem |-> "playlist", ts |-> ""]
    [] t = "record.m3u8"   -> [seg |-> "record.m3u8", ft |-> "m3u8", stem |-> "record", ts |-> ""]
    [] t = "name.m3u8"     -> [seg |-> "name.m3u8", ft |-> "m3u8", stem |-> "name", ts |-> ""]
    [] t = "name-1-2.ts"   -> [seg |-> "name-1-2.ts", ft |-> "ts", stem |-> "", ts |-> "name"]
    [] t = "hls-1-2.ts"    -> [seg |-> "hls-1-2.ts", ft |-> "ts", stem |-> "", ts |-> "hls"]
    \* the same in another letter case: not a documented form (no target), must stay inside all the same
    [] t = "..-1-2.TS"     -> [seg |-> "..-1-2.TS", ft |-> "", stem |-> "", ts |-> ""]
    [] t = "...M3U8"       -> [seg |-> "...M3U8", ft |-> "", stem |-> "", ts |-> ""]
    [] t = "PLAYLIST.M3U8" -> [seg |-> "PLAYLIST.M3U8", ft |-> "", stem |-> "", ts |-> ""]
ReqTokens == {"name", ".", "..", "", "%2e%2e", "..-1-2.ts", "...m3u8", "playlist.m3u8", "record.m3u8",
              "name.m3u8", "name-1-2.ts", "..-1-2.TS", "...M3U8", "PLAYLIST.M3U8"}
Segs(req) == [i \in DOMAIN req |-> TokInfo(req[i]).seg]

(* The HTTP layer (net/http ServeMux, pattern /hls/) hands a request to the handler only if its  *)
(* decoded path is clean; a trailing slash survives cleaning.                                    *)
Delivered(req) == \A i \in DOMAIN req : Plain(Segs(req)[i]) \/ (i = Len(req) /\ req[i] = "")

(* Documented mapping of pkg/hls/path_strategy.go (URL path = /hls/ ++ req).                     *)
Named == {"playlist.m3u8", "record.m3u8"}
StreamOf(req) ==
  LET last == TokInfo(req[Len(req)]) IN
  IF last.ft = "m3u8"
  THEN IF last.seg \in Named THEN (IF Len(req) = 1 THEN "hls" ELSE TokInfo(req[Len(req) - 1]).seg) ELSE last.stem
  ELSE last.ts
FileOf(req) ==
  LET last == TokInfo(req[Len(req)]) IN
  IF last.ft = "m3u8" /\ last.seg \notin Named THEN "playlist.m3u8" ELSE last.seg
HasTarget(req) == TokInfo(req[Len(req)]).ft \in {"m3u8", "ts"}
Target(req) == Norm(RootHls \o <<StreamOf(req), FileOf(req)>>, <<>>)
(* requests a naive join would answer from outside the root                                     *)
RdEscapes(req) == Delivered(req) /\ HasTarget(req) /\ ~Inside(Target(req), RootHls)
(* well-formed requests for files that exist (the driver plants them): must be served           *)
RdCanonical(req) == /\ Delivered(req) /\ HasTarget(req)
                    /\ StreamOf(req) \in {"name", "hls"}
                    /\ \A i \in DOMAIN req : Plain(Segs(req)[i])
RdOk(req, served) ==
  /\ served = <<>> \/ Inside(served, RootHls)
  /\ ~Delivered(req) => served = <<>>
  /\ RdCanonical(req) => served = Target(req)

(* Stream names chosen by a publisher: segments joined with "/" (an RTMP publish name is an     *)
(* arbitrary string; an RTSP name is the last item of the URL path).                            *)
\* "hls_evil": a sibling of the HLS root whose name begins with the root's name (a textual prefix test on joined paths takes
\* a/b/hls_evil for something below a/b/hls)
NameSegs == {"name", ".", "..", "", "a", "%2e%2e", "..-1-2.ts", "...m3u8", "hls_evil"}
WrEscapes(name) ==      \* a naive join of the name below a root leaves the root (or is the root's parent)
  LET d == Norm(RootHls \o name, <<>>) IN ~(d = RootHls \/ Inside(d, RootHls))
WrOk(name, proto, created, deleted) ==
  /\ \A i \in DOMAIN created : InsideAny(created[i])
  /\ deleted = <<>>
  /\ (name = <<"name">>) =>
       /\ \E i \in DOMAIN created : Inside(created[i], RootFlv)
       /\ \E i \in DOMAIN created : Inside(created[i], RootTs)
       /\ proto = "rtmp" => \E i \in DOMAIN created : Inside(created[i], RootHls)
=============================================================================

------------------------------- MODULE Auth -------------------------------
(* C14: access control of lal admits exactly the authorised requests.                           *)
(*                                                                                              *)
(* (a) simple-auth decision table: protocol-direction x enabled flags x form of the secret      *)
(*     -> the set of observation records a correct server may produce;                          *)
(* (b) RTSP authentication machine of one connection: challenges issued so far, credentials     *)
(*     offered, response;                                                                       *)
(* (c) kick and the IP black-list (address -> expiry);                                          *)
(* (d) path confinement: request paths / stream names as sequences of path segments, the        *)
(*     lexical normalisation of a path and the prefix order `Inside`.                           *)
(* Everything is an operator over JSON-compatible records so that the model checker (MC_Auth)   *)
(* and the trace specification (Trace_Auth) share the same definitions.                         *)
EXTENDS Integers, Sequences, FiniteSets, TLC

ToSet(s) == { s[i] : i \in DOMAIN s }

---------------------------------------------------------------------------
(* (a) simple-auth                                                                              *)
Flags == {"pub_rtmp_enable", "sub_rtmp_enable", "sub_httpflv_enable", "sub_httpts_enable",
          "pub_rtsp_enable", "sub_rtsp_enable", "hls_m3u8_enable"}
HlsPds == {"hls_m3u8", "hls_m3u8_dir"}          \* /hls/<s>.m3u8 and /hls/<s>/playlist.m3u8
PubPds == {"rtmp_pub", "rtsp_pub"}
Pds == {"rtmp_pub", "rtmp_sub", "flv_sub", "ts_sub", "rtsp_pub", "rtsp_sub"} \cup HlsPds
FlagOf(pd) == CASE pd = "rtmp_pub" -> "pub_rtmp_enable"
                [] pd = "rtmp_sub" -> "sub_rtmp_enable"
                [] pd = "flv_sub"  -> "sub_httpflv_enable"
                [] pd = "ts_sub"   -> "sub_httpts_enable"
                [] pd = "rtsp_pub" -> "pub_rtsp_enable"
                [] pd = "rtsp_sub" -> "sub_rtsp_enable"
                [] pd \in HlsPds   -> "hls_m3u8_enable"

(* Forms of the query string.  right = md5(key ++ stream) in lower-case hex.                    *)
AdmitForms  == {"right", "rightUpper", "rightAmongOthers", "ovrExact"}
RejectForms == {"absent", "noParam", "empty", "wrong", "other", "badEscape"}
(* the property statement does not fix these: duplicated parameter, other parameter malformed,  *)
(* second '?', parameter name / override secret in another letter case                          *)
EitherForms == {"nameCase", "dupRightFirst", "dupWrongFirst", "badOther", "doubleQ", "ovrLower", "ovrUpper"}
OvrForms == {"ovrExact", "ovrLower", "ovrUpper"}
Forms == AdmitForms \cup RejectForms \cup EitherForms
Ovrs == {"none", "lower", "mixed"}              \* override secret: not configured / "backdoor9" / "BackDoor9"

\* without a configured override the ovr* forms carry the empty secret
EffForm(form, ovr) == IF ovr = "none" /\ form \in OvrForms THEN "empty"
                      ELSE IF ovr = "lower" /\ form = "ovrLower" THEN "ovrExact" ELSE form

Guarded(flags, pd) == FlagOf(pd) \in flags
Verdicts(flags, pd, form, ovr) ==
  LET f == EffForm(form, ovr) IN
  IF ~Guarded(flags, pd) THEN {TRUE}
  ELSE IF f \in AdmitForms THEN {TRUE}
  ELSE IF f \in RejectForms THEN {FALSE}
  ELSE BOOLEAN

(* Observation of one request: resp = media / SDP / playlist bytes came back (ANNOUNCE: 200),   *)
(* listed = the session is in the stat API, pub = a publisher exists, closed = connection gone. *)
SaObs(pd, admitted) ==
  IF admitted
  THEN {[resp |-> pd # "rtmp_pub", listed |-> pd \notin HlsPds, pub |-> pd \in PubPds, closed |-> FALSE]}
  ELSE {[resp |-> FALSE, listed |-> FALSE, pub |-> FALSE, closed |-> c] : c \in BOOLEAN}
SaAllowed(flags, pd, form, ovr) == UNION { SaObs(pd, v) : v \in Verdicts(flags, pd, form, ovr) }

---------------------------------------------------------------------------
(* (b) RTSP authentication (DESCRIBE).  method 0 = Basic, 1 = Digest.                            *)
BasicCreds  == {"basicRight", "basicWrongPass", "basicWrongUser", "basicBadB64", "basicNoColon"}
DigestCreds == {"digestRight", "digestWrongPass", "digestWrongMethod", "digestOtherUri"}
Creds == {"none", "bearer"} \cup BasicCreds \cup DigestCreds
(* nonce used by Digest credentials: the last / first challenge of this connection, a challenge  *)
(* the server gave to another connection, or a value the server never issued                    *)
Nonces == {"last", "first", "other", "forged"}

\* "yes" | "no" | "either"
Valid(method, cred, nonce, issued) ==
  IF method = 0 THEN (IF cred = "basicRight" THEN "yes" ELSE "no")
  ELSE IF cred # "digestRight" THEN "no"
  ELSE IF nonce = "last" THEN (IF issued >= 1 THEN "yes" ELSE "no")
  ELSE IF nonce = "first" THEN (IF issued = 1 THEN "yes" ELSE IF issued > 1 THEN "either" ELSE "no")
  ELSE IF nonce = "other" THEN "either"
  ELSE "no"

Scheme(method) == IF method = 0 THEN "Basic" ELSE "Digest"

\* is response o to step s allowed on a connection that has received `issued` challenges?
RaStepOk(enable, method, issued, s, o) ==
  IF ~enable THEN o.sdp /\ o.code = 200
  ELSE IF s.cred = "none"
       THEN /\ o.code = 401 /\ ~o.sdp /\ ~o.closed
            /\ o.chal = Scheme(method)
            /\ (method = 1 => o.fresh)
  ELSE LET v == Valid(method, s.cred, s.nonce, issued) IN
       CASE v = "yes" -> o.sdp /\ o.code = 200
         [] v = "no"  -> ~o.sdp /\ o.code # 200
         [] OTHER     -> (o.sdp /\ o.code = 200) \/ (~o.sdp /\ o.code # 200)

RECURSIVE RaOk(_, _, _, _, _)
\* steps: sequence of records with the request (cred, nonce) and the observed response
RaOk(enable, method, steps, i, issued) ==
  IF i > Len(steps) THEN TRUE
  ELSE /\ RaStepOk(enable, method, issued, steps[i], steps[i])
       /\ RaOk(enable, method, steps, i + 1, IF enable /\ steps[i].cred = "none" THEN issued + 1 ELSE issued)

---------------------------------------------------------------------------
(* (c) kick, black-list                                                                          *)
KickOk(which, had, ok, closed) ==
  /\ had
  /\ IF which = "real" THEN ok /\ closed ELSE ~ok /\ ~closed

(* black-list: address -> expiry; a probe k seconds after Add(a, dur) of the listed address a   *)
(* gets nothing before expiry and content after it (the instant k = dur is not fixed); another  *)
(* address always gets content.                                                                 *)
BlAdd(tbl, ip, now, dur) == [x \in DOMAIN tbl \cup {ip} |-> IF x = ip THEN now + dur ELSE tbl[x]]
BlMay(tbl, ip, now) ==      \* set of allowed answers to "is content served?"
  IF ip \notin DOMAIN tbl THEN {TRUE}
  ELSE IF now < tbl[ip] THEN {FALSE} ELSE IF now > tbl[ip] THEN {TRUE} ELSE BOOLEAN
BlProbeOk(dur, p) ==
  LET tbl == BlAdd(<<>>, "a", 0, dur) IN
  /\ p.m3u8 \in BlMay(tbl, p.ip, p.k)
  /\ p.ts \in BlMay(tbl, p.ip, p.k)

---------------------------------------------------------------------------
(* (d) path confinement.  Paths are sequences of segments relative to the directory that holds  *)
(* the configured roots.                                                                        *)
RootHls == <<"a", "b", "hls">>
RootFlv == <<"a", "b", "flv">>
RootTs  == <<"a", "b", "ts">>
Inside(p, root) == Len(p) > Len(root) /\ SubSeq(p, 1, Len(root)) = root
InsideAny(p) == Inside(p, RootHls) \/ Inside(p, RootFlv) \/ Inside(p, RootTs)

RECURSIVE Norm(_, _)
\* lexical normalisation (path.Clean / filepath.Join): "" and "." vanish, ".." removes a segment
Norm(s, acc) ==
  IF s = <<>> THEN acc
  ELSE LET h == Head(s) IN
       IF h \in {"", "."} THEN Norm(Tail(s), acc)
       ELSE IF h = ".." THEN Norm(Tail(s), IF acc = <<>> THEN <<>> ELSE SubSeq(acc, 1, Len(acc) - 1))
       ELSE Norm(Tail(s), Append(acc, h))

Plain(seg) == seg \notin {"", ".", ".."}

(* Request tokens: decoded path segment, file type, stem of <stem>.m3u8, stream of <s>-<t>-<i>.ts *)
TokInfo(t) ==
  CASE t = "name"          -> [seg |-> "name", ft |-> "", stem |-> "", ts |-> ""]
    [] t = "."             -> [seg |-> ".", ft |-> "", stem |-> "", ts |-> ""]
    [] t = ".."            -> [seg |-> "..", ft |-> "", stem |-> "", ts |-> ""]
    [] t = ""              -> [seg |-> "", ft |-> "", stem |-> "", ts |-> ""]
    [] t = "%2e%2e"        -> [seg |-> "..", ft |-> "", stem |-> "", ts |-> ""]
    [] t = "..-1-2.ts"     -> [seg |-> "..-1-2.ts", ft |-> "ts", stem |-> "", ts |-> ".."]
    [] t = "...m3u8"       -> [seg |-> "...m3u8", ft |-> "m3u8", stem |-> "..", ts |-> ""]
    [] t = "playlist.m3u8" -> [seg |-> "playlist.m3u8", ft |-> "m3u8", stem |-> "playlist", ts |-> ""]
    [] t = "record.m3u8"   -> [seg |-> "record.m3u8", ft |-> "m3u8", stem |-> "record", ts |-> ""]
    [] t = "name.m3u8"     -> [seg |-> "name.m3u8", ft |-> "m3u8", stem |-> "name", ts |-> ""]
    [] t = "name-1-2.ts"   -> [seg |-> "name-1-2.ts", ft |-> "ts", stem |-> "", ts |-> "name"]
    [] t = "hls-1-2.ts"    -> [seg |-> "hls-1-2.ts", ft |-> "ts", stem |-> "", ts |-> "hls"]
ReqTokens == {"name", ".", "..", "", "%2e%2e", "..-1-2.ts", "...m3u8", "playlist.m3u8", "record.m3u8",
              "name.m3u8", "name-1-2.ts"}
Segs(req) == [i \in DOMAIN req |-> TokInfo(req[i]).seg]

(* The HTTP layer (net/http ServeMux, pattern /hls/) hands a request to the handler only if its  *)
(* decoded path is clean; a trailing slash survives cleaning.                                    *)
Delivered(req) == \A i \in DOMAIN req : Plain(Segs(req)[i]) \/ (i = Len(req) /\ req[i] = "")

(* Documented mapping of pkg/hls/path_strategy.go (URL path = /hls/ ++ req).                     *)
Named == {"playlist.m3u8", "record.m3u8"}
StreamOf(req) ==
  LET last == TokInfo(req[Len(req)]) IN
  IF last.ft = "m3u8"
  THEN IF last.seg \in Named THEN (IF Len(req) = 1 THEN "hls" ELSE TokInfo(req[Len(req) - 1]).seg) ELSE last.stem
  ELSE last.ts
FileOf(req) ==
  LET last == TokInfo(req[Len(req)]) IN
  IF last.ft = "m3u8" /\ last.seg \notin Named THEN "playlist.m3u8" ELSE last.seg
HasTarget(req) == TokInfo(req[Len(req)]).ft \in {"m3u8", "ts"}
Target(req) == Norm(RootHls \o <<StreamOf(req), FileOf(req)>>, <<>>)
(* requests a naive join would answer from outside the root                                     *)
RdEscapes(req) == Delivered(req) /\ HasTarget(req) /\ ~Inside(Target(req), RootHls)
(* well-formed requests for files that exist (the driver plants them): must be served           *)
RdCanonical(req) == /\ Delivered(req) /\ HasTarget(req)
                    /\ StreamOf(req) \in {"name", "hls"}
                    /\ \A i \in DOMAIN req : Plain(Segs(req)[i])
RdOk(req, served) ==
  /\ served = <<>> \/ Inside(served, RootHls)
  /\ ~Delivered(req) => served = <<>>
  /\ RdCanonical(req) => served = Target(req)

(* Stream names chosen by a publisher: segments joined with "/" (an RTMP publish name is an     *)
(* arbitrary string; an RTSP name is the last item of the URL path).                            *)
NameSegs == {"name", ".", "..", "", "a", "%2e%2e", "..-1-2.ts", "...m3u8"}
WrEscapes(name) ==      \* a naive join of the name below a root leaves the root (or is the root's parent)
  LET d == Norm(RootHls \o name, <<>>) IN ~(d = RootHls \/ Inside(d, RootHls))
WrOk(name, proto, created, deleted) ==
  /\ \A i \in DOMAIN created : InsideAny(created[i])
  /\ deleted = <<>>
  /\ (name = <<"name">>) =>
       /\ \E i \in DOMAIN created : Inside(created[i], RootFlv)
       /\ \E i \in DOMAIN created : Inside(created[i], RootTs)
       /\ proto = "rtmp" => \E i \in DOMAIN created : Inside(created[i], RootHls)
=============================================================================

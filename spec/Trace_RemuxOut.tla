---------------------------- MODULE Trace_RemuxOut ----------------------------
(* Trace validation for C06: RTMP messages published through a real logic.Group; what the HTTP-TS  *)
(* subscribers received after every message, the concatenated HLS segments and the RTP packets of   *)
(* remux.Rtmp2RtspRemuxer, demultiplexed by the independent readers of harness/proj, are decided    *)
(* by the acceptor of RemuxOut (SameUnits, OnlyAllowedExtras, KeyHasParamSets, TsTime, Adts,        *)
(* RtpTime, completeness at the end of the stream).  C02 for the RTSP subscribers of the Group (rg:  *)
(* DESCRIBE / SETUP / PLAY in one go at some point; rh: DESCRIBE and PLAY at two points): described as  *)
(* the stream is at that moment (SdpCur), first video frame a key frame (KeyFirst), started by the next *)
(* key frame / the next audio frame after PLAY (RtspStartsInTime).                                      *)
EXTENDS RemuxOut, IOUtils

Trace == ndJsonDeserialize(IOEnv.TRACE)
VARIABLES l, failed
tvars == <<vars, l, failed>>

AllCons == {"t1", "t2", "hls"}
TraceInit == /\ l = 1 /\ failed = FALSE /\ TLCSet(1, 1)
             /\ vc = "none" /\ ac = "none" /\ hist = HistInit /\ cons = [c \in AllCons |-> ConsInit]
             /\ rtp = [c \in RtpCons |-> RtpInit] /\ rm = RmInit /\ act = [name |-> "init"]
IsEvent(e) == l <= Len(Trace) /\ Trace[l].ev = e /\ l' = l + 1
Reject(why) == /\ failed' = TRUE
               /\ IF failed THEN TRUE ELSE PrintT("@REJ@" \o ToString(l)) /\ PrintT("@WHY@" \o ToString(l) \o "@" \o ToString(why))
               /\ UNCHANGED <<vc, ac, hist, cons, rtp, rm, act>>

TraceReset ==
  /\ IsEvent("reset")
  /\ vc' = Trace[l].v /\ ac' = Trace[l].a /\ hist' = HistInit /\ cons' = [c \in AllCons |-> ConsInit]
  /\ rtp' = [c \in RtpCons |-> IF c \in RtpGated THEN [RtpInit EXCEPT !.gate = TRUE] ELSE RtpInit]
  /\ failed' = FALSE /\ UNCHANGED <<rm, act>>

ConsAfter(h, o) == [c \in AllCons |-> IF c \in DOMAIN o THEN AcceptOut(h, cons[c], o[c]) ELSE cons[c]]
RtpAfter(h, e) == IF "rtp" \in DOMAIN e
                  THEN [c \in RtpCons |->
                         IF c \in DOMAIN e.rtp
                         THEN LET o == e.rtp[c] IN
                              IF o.panic = "" THEN RtpPlayed(h, AcceptRtp(h, AcceptSdps(h, rtp[c], o.sdp, 1, o.late), o.frames, 1), o)
                              ELSE [rtp[c] EXCEPT !.ok = FALSE]
                         ELSE rtp[c]]
                  ELSE rtp

\* an HTTP-TS subscriber joins, or an RTSP subscriber sends DESCRIBE (answered at once if the stream is described
\* already: that description is judged against the stream as it is now) or, later, SETUP / PLAY
TraceJoin ==
  /\ IsEvent("Join") \/ IsEvent("Play")
  /\ LET r2 == RtpAfter(hist, Trace[l])
     IN IF ~failed /\ \A c \in RtpCons : r2[c].ok
        THEN rtp' = r2 /\ failed' = FALSE /\ UNCHANGED <<vc, ac, hist, cons, rm, act>>
        ELSE Reject({c \in RtpCons : ~r2[c].ok})

TracePub ==
  /\ IsEvent("Pub")
  /\ LET e == Trace[l]
         h2 == HistStep(hist, e.m, e.ts)
         c2 == ConsAfter(h2, e.out)
         r2 == RtpAfter(h2, e)
     IN IF /\ ~failed /\ e.panic = ""
           /\ IsT3(e.ts)
           /\ \A c \in AllCons : c2[c].ok
           /\ \A c \in RtpCons : r2[c].ok
        THEN hist' = h2 /\ cons' = c2 /\ rtp' = r2 /\ failed' = FALSE /\ UNCHANGED <<vc, ac, rm, act>>
        ELSE Reject({c \in AllCons : ~c2[c].ok} \cup {c \in RtpCons : ~r2[c].ok} \cup (IF e.panic = "" THEN {} ELSE {"panic"}))

TraceEnd ==
  /\ IsEvent("End")
  /\ LET e == Trace[l]
         c1 == ConsAfter(hist, e.out)
         c2 == [c1 EXCEPT !["hls"] = AcceptOut(hist, c1["hls"], e.hls)]
     IN IF /\ ~failed /\ e.panic = ""
           /\ \A c \in AllCons : c2[c].ok /\ EndOk(hist, c2[c])
           /\ \A c \in RtpCons : RtpEndOk(hist, rtp[c])
           /\ ("t1" \in DOMAIN e.out => StartsInTime(hist, c2["t1"])) /\ (e.hls.on => StartsInTime(hist, c2["hls"]))
           /\ RtpStartsInTime(hist, rtp["ra"])
           /\ \A c \in RtpGated : RtspStartsInTime(hist, rtp[c])
        THEN cons' = c2 /\ failed' = FALSE /\ UNCHANGED <<vc, ac, hist, rtp, rm, act>>
        ELSE Reject({c \in AllCons : ~c2[c].ok} \cup {"end:" \o c : c \in {x \in AllCons : c2[x].ok /\ ~EndOk(hist, c2[x])}}
                    \cup {"start:" \o c : c \in {x \in {"t1", "hls"} : (IF x = "t1" THEN "t1" \in DOMAIN e.out ELSE e.hls.on) /\ ~StartsInTime(hist, c2[x])}}
                    \cup (IF RtpStartsInTime(hist, rtp["ra"]) THEN {} ELSE {"start:ra"})
                    \cup {"start:" \o c : c \in {x \in RtpGated : ~RtspStartsInTime(hist, rtp[x])}}
                    \cup {"end:" \o c : c \in {x \in RtpCons : ~RtpEndOk(hist, rtp[x])}} \cup (IF e.panic = "" THEN {} ELSE {"panic"}))

TraceNext == TraceReset \/ TraceJoin \/ TracePub \/ TraceEnd
TraceSpec == TraceInit /\ [][TraceNext]_tvars
HighWater == TLCSet(1, IF l > TLCGet(1) THEN l ELSE TLCGet(1))
Accept == PrintT("@HW@" \o ToString(TLCGet(1)))
=============================================================================

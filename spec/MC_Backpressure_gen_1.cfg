SPECIFICATION GSpec
CONSTANTS
  Cons = {"s1", "s2"}
  Healthy = {"h"}
  Other = {"hb"}
  N = 1
  HCap = 64
  Parts = 1
  ElemParts = 1
  WsMode = FALSE
  EnqAcct = FALSE
  HasDeadline = TRUE
  Prime = TRUE
  MaxPub = 6
  MaxRead = 4
  MaxStall = 2
  MaxSweep = 3
  MaxLeave = 1
  MaxPubB = 2
  MaxCmd = 3
INVARIANTS Quiescent QueueBound WholeUnits
VIEW GView

SPECIFICATION Spec
CONSTANTS
  Cfgs <- QuickCfgs
  Letters <- AllLetters
INVARIANTS TypeOK Total OpaqueForward NoWaitWithoutVideo KeyAdmits
VIEW View
ACTION_CONSTRAINT Emit

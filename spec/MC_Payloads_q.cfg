SPECIFICATION Spec
CONSTANTS
  Cfgs <- QuickCfgs
  Letters <- AllLetters
  StagedCfgs <- BothStaged
INVARIANTS TypeOK StageOK Total OpaqueForward NoWaitWithoutVideo KeyAdmits
VIEW View
ACTION_CONSTRAINT Emit

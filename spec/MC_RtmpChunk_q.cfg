SPECIFICATION Spec
CONSTANTS
  LimbB = 65536
  ExtMark <- P_ExtMark
  Csids = {3, 64}
  TsPool <- P_TsPoolA
  LenPool = {0, 1, 2, 3, 5}
  TypePool = {8, 9}
  MsidPool = {1}
  CsPool = {2, 3}
  InitCs = 2
  ScsLen = 4
  AggPool <- NoAgg
  MaxMsgs = 2
  ScsCsid = 2
INVARIANTS RoundTrip TypeOK
VIEW View
ACTION_CONSTRAINT Emit

SPECIFICATION Spec
CONSTANTS
  Surf = "psq"
  Depth = 5
  Level = 2
INVARIANTS Total ClosedIsFinal Bounded
ACTION_CONSTRAINT EmitS
VIEW View

SPECIFICATION TraceSpec
CONSTANTS
  Cons = {"s1", "s2"}
  Healthy = {"h"}
  Other = {"hb"}
  N = 0
  HCap = 1024
  Parts = 1
  ElemParts = 1
  WsMode = FALSE
  EnqAcct = FALSE
  HasDeadline = TRUE
  Prime = FALSE
  MaxPub = 0
  MaxRead = 0
  MaxStall = 0
  MaxSweep = 0
  MaxLeave = 0
  MaxPubB = 0
  MaxCmd = 0
CONSTRAINT HighWater
POSTCONDITION Accept
CHECK_DEADLOCK FALSE

SPECIFICATION Spec
CONSTANTS
  Thorough = TRUE
  PathLen = 5
INVARIANTS InvDim InvPreserved InvFraming InvAdts InvSdp
ACTION_CONSTRAINT EmitS

SPECIFICATION TraceSpec
CONSTANTS
  Objs = {"g1", "g2"}
  MaxShutdown = 1
  QMax = 2
  Procs = {"s1"}
CONSTRAINT HighWater
POSTCONDITION Accept
CHECK_DEADLOCK FALSE

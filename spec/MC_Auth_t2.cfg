SPECIFICATION Spec
CONSTANTS
  FlagMode = "all"
  RdLen = 4
  WrLen = 4
  Durs = {0, 1, 2}
  RaPre = 4
  HpMaxDev = 5
  Kinds = {"ra", "rd"}
INVARIANTS SaUnaffected SaNoLeak SaIff SaMonotone RaSdpIff RaBound RdSound WrSound BlSound HpSound SvSound
ACTION_CONSTRAINT EmitS

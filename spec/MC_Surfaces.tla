---------------------------- MODULE MC_Surfaces ----------------------------
EXTENDS Surfaces

CONSTANTS Surf,     \* the surface this run enumerates
          Depth,    \* longest element sequence
          Level     \* 1 quick pools, 2 thorough pools

VARIABLES cfg, seq, open, st, act
vars == <<cfg, seq, open, st, act>>

D == "-"
---------------------------------------------------------------------------
\* RTSP
Transports == {"tcp01", "tcp_big", "tcp_garb", "tcp_one", "tcp_empty", "tcp_neg", "udp", "udp0", "udp65535", "udp_big",
               "udp_garb", "udp_one", "udp_noport", "empty", "none"}
RtspCore == { El("OPTIONS", D, D, D, -1), El("ANNOUNCE", "ok", D, D, -1), El("DESCRIBE", "live", D, D, -1),
              El("DESCRIBE", "own", D, D, -1), El("SETUP", "tcp01", "v", "own", -1), El("SETUP", "tcp01", "v", "live", -1),
              El("RECORD", D, D, D, -1), El("PLAY", D, D, D, -1) }
RtspPool == RtspCore
  \cup { El(m, D, D, D, -1) : m \in {"TEARDOWN", "GET_PARAMETER", "PAUSE", "FOO"} }
  \cup { El("ANNOUNCE", a, D, D, -1) : a \in {"hevc", "empty", "garbage", "nom"} }
  \cup { El("SETUP", t, u, c, -1) : t \in Transports, u \in (IF Level >= 2 THEN {"v", "a", "x", "bare"} ELSE {"v", "x"}), c \in {"own", "live"} }
  \cup { El("bad", a, D, D, -1) : a \in {"nospace", "binary", "emptyline", "nocolon", "nocseq", "twospaces", "nouri", "baduri", "nopath",
                                          "httpuri", "cl_neg", "cl_huge", "cl_2e62", "cl_nan", "longline", "manyhdr", "auth"} }
  \cup { El("frame", ch, n, D, -1) : ch \in {"0", "1", "2", "3", "9", "255"}, n \in {"0", "1", "2", "12", "rtp", "sr"} }
  \cup { El("eof", a, D, D, -1) : a \in {"now", "req_cut", "line_cut", "hdr_end_cut", "body_cut", "cl_big", "frame1", "frame2", "frame3", "frame_cut"} }

\* WebSocket wrapper
WsForms == {"7m", "7u", "16m", "16u", "64m", "64u", "2e63m", "2e63u", "2e64m1m", "16bigm"}
WsCore == { El("ws", "7m", "bin", "DESCRIBE", -1), El("ws", "16u", "text", "long", -1) }
WsPool == WsCore
  \cup { El("ws", f, b, c, -1) : f \in WsForms, b \in {"bin", "text", "cont", "close", "ping", "nofin", "rsv"},
                                 c \in {"OPTIONS", "DESCRIBE", "SETUP", "PLAY", "TEARDOWN", "garbage", "half", "long", "empty", "dollar"} }
  \cup { El("ws", f, "bin", "OPTIONS", n) : f \in {"7m", "16m", "64m", "64u"}, n \in 0..14 }
  \cup { El("ws", "16u", "bin", "huge", -1) }

\* RTP / RTCP datagrams of an RTSP publisher
Hdrs == {"ok", "nopl", "v0", "v3", "pad0", "pad1", "pad4", "pad255", "padAll", "padHdr", "ext0", "ext1", "extPast", "extCut",
         "extAll", "cc2", "cc15short", "cc15all", "ptOther"}
AvcPl == {"single", "single1", "sps", "pps", "stapOk", "stapIdr", "stap1", "stap2", "stap3", "stapSize0", "stapAll0", "stapPast", "stapFFFF",
          "stapOdd", "fuS", "fuM", "fuE", "fu1", "fu2S", "fu2E", "fu2M", "fuSE", "fuB", "t30", "t0", "mtap", "fbit"}
HevcPl == {"single", "single1", "single2", "sps", "vps", "pps", "apOk", "ap1", "ap2", "ap3", "apSize0", "apPast", "apFFFF", "apOdd",
           "fuS", "fuM", "fuE", "fu1", "fu2", "fu3S", "fu3E", "fu3M", "fuSE", "t50", "t63", "fbit"}
AacPl == {"auOk", "au2", "auFragS", "auFragE", "auFragOver", "pl1", "pl2", "pl3", "ahl0", "ahl0only", "ahlFFFF", "ahlOdd", "ahl8",
          "ahl32short", "auSize0", "au2Past", "au2Short", "auMax"}
VPl(c) == IF c.vc = "avc" THEN AvcPl ELSE HevcPl
RtcpKinds == {"sr", "srlong", "rr", "bye", "app", "x"}
RtpCore(c) == { El("rtp", "v", "ok", p, -1) : p \in (IF c.vc = "avc" THEN {"fuS", "fu2S", "stapOk", "single"} ELSE {"fuS", "fu3S", "apOk", "single"}) }
              \cup { El("rtp", "a", "ok", p, -1) : p \in {"auFragS", "auOk"} }
RtpPool(c) == RtpCore(c)
  \cup { El("rtp", "v", "ok", p, -1) : p \in VPl(c) }
  \cup { El("rtp", "v", h, p, -1) : h \in Hdrs, p \in {"single", "fuE"} }
  \cup { El("rtp", "v", "cut", "single", n) : n \in 0..16 }
  \cup { El("rtp", "a", "ok", p, -1) : p \in AacPl }
  \cup { El("rtp", "a", h, "auOk", -1) : h \in Hdrs }
  \cup { El("rtcp", t, "sr", D, n) : t \in {"v", "a"}, n \in (0..28) \cup {-1} }
  \cup { El("rtcp", "v", k, D, n) : k \in RtcpKinds, n \in {0, 1, 2, 3, 4, 7, 8, -1} }
  \cup { El("rtcp_on_rtp", "v", k, D, n) : k \in {"sr", "rr"}, n \in {1, 4, 11, 12, -1} }
  \cup { El("rtp_on_rtcp", t, D, "single", -1) : t \in {"v"} }

\* GB28181 program stream in RTP
PsVariants ==
  [ pack |-> {"ok", "stuff7", "stuff7short", "mpeg1"},
    sys |-> {"ok", "len0", "lenFFFF", "hik", "padding"},
    psm |-> {"avc", "hevc", "g711", "unk", "len0", "len4", "psiPast", "esmPast", "esm1", "esm5", "esiPast", "esi3", "many"},
    pesv |-> {"ok", "hevc", "ptsdts", "nopts", "len0", "len1", "len2", "len3", "lenFFFF", "hdl255", "hdlPast", "ptsShort", "dtsShort",
              "empty", "sc3", "scOnly4", "scOnly3", "sc3nal1", "scTwice", "nosc", "one", "unkId", "private1"},
    pesa |-> {"ok", "nopts", "len0", "len3", "lenFFFF", "hdl255", "empty", "adtsShort", "adts7", "adtsLen0", "adtsBig", "one"},
    raw |-> {"zeros", "ff", "sc", "end", "one"} ]
PsCore == { El("psm", "avc", "ok", D, -1), El("psm", "hevc", "ok", D, -1), El("pack", "ok", "ok", D, -1), El("pesv", "ok", "ok", D, -1),
            El("pesa", "ok", "ok", D, -1), El("pesv", "nopts", "ok", D, -1) }
PsPool == PsCore
  \cup UNION { { El(k, v, "ok", D, -1) : v \in PsVariants[k] } : k \in DOMAIN PsVariants }
  \cup { El(k, (IF k = "psm" THEN "avc" ELSE "ok"), "ok", D, n) : k \in {"pack", "sys", "psm", "pesv", "pesa"}, n \in 0..(IF Level >= 2 THEN 40 ELSE 30) }
  \cup { El("pesv", "ok", h, D, -1) : h \in Hdrs \ {"ok"} }
  \cup { El("pesv", "ok", "cut", D, n) : n \in 0..13 }

\* SDP: every record that differs from the well-formed one in at most MaxDiff fields
SdpF == [ shape |-> {"ok", "empty", "novo", "nom", "lf", "m100", "garbage", "noeq", "onlyattrs"},
          v |-> {"avc", "hevc", "none", "unk", "nortpmap"},
          vr |-> {"ok", "0", "1", "999", "big", "neg", "nan", "none"},
          vf |-> {"ok", "none", "cut", "empty", "nokv", "one", "badb64", "short", "zero"},
          a |-> {"aac", "pcma", "pcmu", "opus", "none", "unk", "pt0", "pt14"},
          ar |-> {"ok", "0", "1", "999", "big", "neg", "nan", "none"},
          af |-> {"ok", "none", "cfg1", "cfgodd", "cfgbad", "cfg0", "noconfig", "cfglong", "cfgzero", "cfgesc"},
          ctl |-> {"ok", "none", "abs", "dup"} ]
SdpAll == [ k : {"sdp"}, shape : SdpF.shape, v : SdpF.v, vr : SdpF.vr, vf : SdpF.vf, a : SdpF.a, ar : SdpF.ar, af : SdpF.af, ctl : SdpF.ctl ]
Diff(r) == Cardinality({ f \in DOMAIN SdpF : r[f] # GoodSdp[f] })
SdpPool == { r \in SdpAll : Diff(r) <= (IF Level >= 2 THEN 3 ELSE 2) }
Media == [k |-> "media"]

Cfgs == CASE Surf = "rtp" -> { [vc |-> v, ac |-> "aac", sub |-> s] : v \in {"avc", "hevc"}, s \in {"n", "y"} }
          [] Surf = "ps" -> { [pre |-> p] : p \in {"none", "good"} }
          [] OTHER -> { [x |-> D] }
Core == CASE Surf = "rtsp" -> RtspCore [] Surf = "ws" -> WsCore [] Surf = "rtp" -> RtpCore(cfg) [] Surf = "ps" -> PsCore [] OTHER -> {}
Pool == CASE Surf = "rtsp" -> RtspPool [] Surf = "ws" -> WsPool [] Surf = "rtp" -> RtpPool(cfg) [] Surf = "ps" -> PsPool [] OTHER -> {}

Init == /\ cfg \in Cfgs /\ seq = <<>> /\ open = TRUE /\ st = RtspInit /\ act = [name |-> "init"]

First == IF Len(seq) > 0 THEN seq[1] ELSE GoodSdp
Send(e) ==
  LET x == Expect(Surf, st, First, e) IN
  /\ \E stays \in Stays(x) :
       /\ open' = (stays /\ (e \in Core \/ Surf = "sdp"))    \* an element outside the core ends the sequence
       /\ act' = [name |-> "Send", el |-> e, exp |-> x, stays |-> stays]
  /\ seq' = Append(seq, e)
  /\ st' = RtspStep(st, e)
  /\ UNCHANGED cfg

Next == /\ open /\ Len(seq) < Depth
        /\ IF Surf = "sdp"
           THEN IF seq = <<>> THEN \E e \in SdpPool : Send(e) ELSE Send(Media)
           ELSE \E e \in Pool : Send(e)
Spec == Init /\ [][Next]_vars

\* totality: every (state, element) has a defined expectation that never admits a crash, and what the
\* specification expects can be observed (the allowed set is not empty)
Witness(x, stays) == [codes |-> (IF x = "ok" THEN <<200>> ELSE IF x = "okmedia" THEN <<200, 200, 200>> ELSE <<>>), alive |-> stays, panic |-> FALSE, note |-> ""]
Total == act.name = "Send" => /\ act.exp \in Kinds
                              /\ Allowed(act.exp, Witness(act.exp, act.stays))
                              /\ ~Allowed(act.exp, [Witness(act.exp, act.stays) EXCEPT !.panic = TRUE])
ClosedIsFinal == ~open => (Len(seq) >= 1)
Bounded == Len(seq) <= Depth
Done == ~open' \/ Len(seq') = Depth \/ (Surf = "sdp" /\ Len(seq') = 2)
EmitS == Done => PrintT("@S@" \o ToJson([surf |-> Surf, cfg |-> cfg, steps |-> seq']))
View == <<cfg, seq, open, st>>
=============================================================================

---------------------------- MODULE MC_Surfaces ----------------------------
EXTENDS Surfaces

CONSTANTS Surf,     \* the surface this run enumerates
          Depth,    \* longest element sequence
          Level     \* 1 quick pools, 2 thorough pools

VARIABLES cfg, seq, open, st, act
vars == <<cfg, seq, open, st, act>>

D == "-"
---------------------------------------------------------------------------
\* RTSP
Transports == {"tcp01", "tcp_big", "tcp_garb", "tcp_one", "tcp_empty", "tcp_neg", "udp", "udp0", "udp65535", "udp_big",
               "udp_garb", "udp_one", "udp_noport", "empty", "none"}
RtspCore == { El("OPTIONS", D, D, D, -1), El("ANNOUNCE", "ok", D, D, -1), El("DESCRIBE", "live", D, D, -1),
              El("DESCRIBE", "own", D, D, -1), El("SETUP", "tcp01", "v", "own", -1), El("SETUP", "tcp01", "v", "live", -1),
              El("RECORD", D, D, D, -1), El("PLAY", D, D, D, -1) }
RtspPool == RtspCore
  \cup { El(m, D, D, D, -1) : m \in {"TEARDOWN", "GET_PARAMETER", "PAUSE", "FOO"} }
  \cup { El("ANNOUNCE", a, D, D, -1) : a \in {"hevc", "empty", "garbage", "nom"} }
  \cup { El("SETUP", t, u, c, -1) : t \in Transports, u \in (IF Level >= 2 THEN {"v", "a", "x", "bare"} ELSE {"v", "x"}), c \in {"own", "live"} }
  \cup { El("bad", a, D, D, -1) : a \in {"nospace", "binary", "emptyline", "nocolon", "nocseq", "twospaces", "nouri", "baduri", "nopath",
                                          "httpuri", "cl_neg", "cl_huge", "cl_2e62", "cl_nan", "longline", "manyhdr", "auth"} }
  \cup { El("frame", ch, n, D, -1) : ch \in {"0", "1", "2", "3", "9", "255"}, n \in {"0", "1", "2", "12", "rtp", "sr"} }
  \cup { El("eof", a, D, D, -1) : a \in {"now", "req_cut", "line_cut", "hdr_end_cut", "body_cut", "cl_big", "frame1", "frame2", "frame3", "frame_cut"} }

\* WebSocket wrapper
WsForms == {"7m", "7u", "16m", "16u", "64m", "64u", "2e63m", "2e63u", "2e64m1m", "16bigm"}
WsCore == { El("ws", "7m", "bin", "DESCRIBE", -1), El("ws", "16u", "text", "long", -1) }
WsPool == WsCore
  \cup { El("ws", f, b, c, -1) : f \in WsForms, b \in {"bin", "text", "cont", "close", "ping", "nofin", "rsv"},
                                 c \in {"OPTIONS", "DESCRIBE", "SETUP", "PLAY", "TEARDOWN", "garbage", "half", "long", "empty", "dollar"} }
  \cup { El("ws", f, "bin", "OPTIONS", n) : f \in {"7m", "16m", "64m", "64u"}, n \in 0..14 }
  \cup { El("ws", "16u", "bin", "huge", -1) }

\* RTP / RTCP datagrams of an RTSP publisher
Hdrs == {"ok", "nopl", "v0", "v3", "pad0", "pad1", "pad4", "pad255", "padAll", "padHdr", "ext0", "ext1", "extPast", "extCut",
         "extAll", "ext4000", "ext8000", "extc000", "ext4001", "cc2", "cc15short", "cc15all", "ptOther"}
AvcPl == {"single", "single1", "sps", "pps", "stapOk", "stapIdr", "stap1", "stap2", "stap3", "stapSize0", "stapAll0", "stapPast", "stapFFFF",
          "stapOdd", "fuS", "fuM", "fuE", "fu1", "fu2S", "fu2E", "fu2M", "fuSE", "fuB", "t30", "t0", "mtap", "fbit"}
HevcPl == {"single", "single1", "single2", "sps", "vps", "pps", "apOk", "ap1", "ap2", "ap3", "apSize0", "apPast", "apFFFF", "apOdd",
           "fuS", "fuM", "fuE", "fu1", "fu2", "fu3S", "fu3E", "fu3M", "fuSE", "t50", "t63", "fbit"}
AacPl == {"auOk", "au2", "auFragS", "auFragE", "auFragOver", "pl1", "pl2", "pl3", "ahl0", "ahl0only", "ahlFFFF", "ahlOdd", "ahl8",
          "ahl32short", "auSize0", "au2Past", "au2Short", "auMax"}
VPl(c) == IF c.vc = "avc" THEN AvcPl ELSE HevcPl
RtcpKinds == {"sr", "srlong", "rr", "bye", "app", "x"}
RtpCore(c) == { El("rtp", "v", "ok", p, -1) : p \in (IF c.vc = "avc" THEN {"fuS", "fu2S", "stapOk", "single"} ELSE {"fuS", "fu3S", "apOk", "single"}) }
              \cup { El("rtp", "a", "ok", p, -1) : p \in {"auFragS", "auOk"} }
RtpPool(c) == RtpCore(c)
  \cup { El("rtp", "v", "ok", p, -1) : p \in VPl(c) }
  \cup { El("rtp", "v", h, p, -1) : h \in Hdrs, p \in {"single", "fuE"} }
  \cup { El("rtp", "v", "cut", "single", n) : n \in 0..16 }
  \cup { El("rtp", "a", "ok", p, -1) : p \in AacPl }
  \cup { El("rtp", "a", h, "auOk", -1) : h \in Hdrs }
  \cup { El("rtcp", t, "sr", D, n) : t \in {"v", "a"}, n \in (0..28) \cup {-1} }
  \cup { El("rtcp", "v", k, D, n) : k \in RtcpKinds, n \in {0, 1, 2, 3, 4, 7, 8, -1} }
  \cup { El("rtcp_on_rtp", "v", k, D, n) : k \in {"sr", "rr"}, n \in {1, 4, 11, 12, -1} }
  \cup { El("rtp_on_rtcp", t, D, "single", -1) : t \in {"v"} }
  \* report intervals in which the highest sequence number does not advance: RTP s, SR, then the same packet again (dup),
  \* an older one (old), nothing (none), the packets around the wrap of the sequence number (wrap), each followed by an SR
  \cup { El("rtcp_seq", t, k, D, -1) : t \in {"v", "a"}, k \in {"dup", "old", "none", "wrap"} }

\* GB28181 program stream in RTP
PsVariants ==
  [ pack |-> {"ok", "stuff7", "stuff7short", "mpeg1"},
    sys |-> {"ok", "len0", "lenFFFF", "hik", "padding"},
    psm |-> {"avc", "hevc", "g711", "unk", "len0", "len4", "psiPast", "esmPast", "esm1", "esm5", "esiPast", "esi3", "many"},
    pesv |-> {"ok", "hevc", "ptsdts", "nopts", "len0", "len1", "len2", "len3", "lenFFFF", "hdl255", "hdlPast", "ptsShort", "dtsShort",
              "empty", "sc3", "scOnly4", "scOnly3", "sc3nal1", "scTwice", "nosc", "one", "unkId", "private1"},
    pesa |-> {"ok", "nopts", "len0", "len3", "lenFFFF", "hdl255", "empty", "adtsShort", "adts7", "adtsLen0", "adtsBig", "one"},
    raw |-> {"zeros", "ff", "sc", "end", "one"} ]
PsCore == { El("psm", "avc", "ok", D, -1), El("psm", "hevc", "ok", D, -1), El("pack", "ok", "ok", D, -1), El("pesv", "ok", "ok", D, -1),
            El("pesa", "ok", "ok", D, -1), El("pesv", "nopts", "ok", D, -1) }
PsPool == PsCore
  \cup UNION { { El(k, v, "ok", D, -1) : v \in PsVariants[k] } : k \in DOMAIN PsVariants }
  \cup { El(k, (IF k = "psm" THEN "avc" ELSE "ok"), "ok", D, n) : k \in {"pack", "sys", "psm", "pesv", "pesa"}, n \in 0..(IF Level >= 2 THEN 40 ELSE 30) }
  \cup { El("pesv", "ok", h, D, -1) : h \in Hdrs \ {"ok"} }
  \cup { El("pesv", "ok", "cut", D, n) : n \in 0..13 }

\* SDP: every record that differs from the well-formed one in at most MaxDiff fields
SdpF == [ shape |-> {"ok", "empty", "novo", "nom", "lf", "m100", "garbage", "noeq", "onlyattrs"},
          v |-> {"avc", "hevc", "none", "unk", "nortpmap"},
          vr |-> {"ok", "0", "1", "999", "big", "neg", "nan", "none"},
          vf |-> {"ok", "none", "cut", "empty", "nokv", "one", "badb64", "short", "zero"},
          a |-> {"aac", "pcma", "pcmu", "opus", "none", "unk", "pt0", "pt14"},
          ar |-> {"ok", "0", "1", "999", "big", "neg", "nan", "none"},
          af |-> {"ok", "none", "cfg1", "cfgodd", "cfgbad", "cfg0", "noconfig", "cfglong", "cfgzero", "cfgesc"},
          ctl |-> {"ok", "none", "abs", "dup"} ]
SdpAll == [ k : {"sdp"}, shape : SdpF.shape, v : SdpF.v, vr : SdpF.vr, vf : SdpF.vf, a : SdpF.a, ar : SdpF.ar, af : SdpF.af, ctl : SdpF.ctl ]
Diff(r) == Cardinality({ f \in DOMAIN SdpF : r[f] # GoodSdp[f] })
SdpPool == { r \in SdpAll : Diff(r) <= (IF Level >= 2 THEN 3 ELSE 2) }
Media == [k |-> "media"]


\* HTTP surfaces of lal as server
ApiEps == {"stat_group", "stat_all_group", "stat_lal_info", "start_relay_pull", "stop_relay_pull", "kick_session", "start_rtp_pub",
           "add_ip_blacklist", "lal_html", "unknown", "root", "api_dir", "case", "dots"}
ApiBodies == {"none", "empty", "ok", "notjson", "trunc", "array", "null", "string", "number", "missing", "firstonly", "wrongtype_num",
              "wrongtype_str", "wrongtype_obj", "wrongtype_arr", "wrongtype_bool", "nullfields", "huge", "exp", "neg", "float", "max64",
              "emptystr", "longstr", "unknown", "nested", "nested_open", "dup", "dup_types", "big", "utf", "bom", "trailing", "caps"}
ApiSpecial == [ start_relay_pull |-> {"url_empty", "url_garbage", "url_noscheme", "url_nopath", "url_onlyapp", "url_badport", "url_rtsp",
                                      "url_rtsp_user", "url_flv", "url_unknown", "url_space", "url_long", "url_ipv6",
                                      "url_q1", "url_q2", "url_q2app", "url_q2root", "url_q3", "url_frag", "url_qonly"},
                start_rtp_pub |-> {"rtp_port_neg", "rtp_port_big", "rtp_port_1", "rtp_tcp", "rtp_dump", "rtp_empty_name",
                                   "rtp_to_1", "rtp_to_500", "rtp_to_999", "rtp_to_1001", "rtp_to_neg", "rtp_to_max"},
                add_ip_blacklist |-> {"bl_badip", "bl_neg", "bl_max"},
                kick_session |-> {"kick_empty", "kick_nostream"} ]
ApiQueries == {"q_stream", "q_nostream", "q_emptyval", "q_dup", "q_esc", "q_badesc", "q_long", "q_semi"}
HPaths == {"ok", "noext", "onlyext", "emptyname", "root", "prefixonly", "deep", "noapp", "esc", "badesc", "pctend", "long", "dotdot", "dotdot2",
           "space", "utf", "dblslash", "twoext", "upper", "hash", "semicolon", "tsname", "tsname_bad", "star", "abs", "noslash"}
HQueries == {"none", "empty", "novalue", "noname", "ok", "dup", "esc", "badesc", "long", "session", "session_empty", "amp", "qq", "semi"}
HHeaders == {"plain", "ws_ok", "ws_nokey", "ws_emptykey", "ws_badkey", "ws_longkey", "ws_twokeys", "ws_upgrade_only", "ws_conn_only", "ws_case",
             "nohost", "emptyhost", "badhost", "hostport", "http10", "range", "many"}
HKinds == {"flv", "ts", "m3u8", "hls"}
HttpCore == { El("api", "start_rtp_pub", "ok", "POST", -1), El("api", "start_relay_pull", "ok", "POST", -1), El("api", "add_ip_blacklist", "ok", "POST", -1),
              El("flv", "ok", "none", "plain", -1), El("m3u8", "ok", "none", "plain", -1) }
HttpPool == HttpCore
  \cup { El("api", ep, b, m, -1) : ep \in ApiEps, b \in ApiBodies, m \in {"POST", "GET"} }
  \cup UNION { { El("api", ep, b, m, -1) : b \in ApiSpecial[ep], m \in {"POST", "GET"} } : ep \in DOMAIN ApiSpecial }
  \cup { El("api", ep, "ok", m, -1) : ep \in ApiEps, m \in {"PUT", "HEAD", "DELETE", "OPTIONS"} }
  \cup { El("api", ep, "none", q, -1) : ep \in {"stat_group", "stop_relay_pull"}, q \in ApiQueries }
  \cup { El(k, p, "none", "plain", -1) : k \in HKinds, p \in HPaths }
  \cup { El(k, "ok", q, "plain", -1) : k \in HKinds, q \in HQueries }
  \cup { El(k, "ok", "none", h, -1) : k \in HKinds, h \in HHeaders }
  \cup { El(k, p, q, "ws_ok", -1) : k \in HKinds, p \in HPaths, q \in (IF Level >= 2 THEN HQueries ELSE {"session", "badesc", "dup"}) }
  \cup (IF Level >= 2 THEN { El(k, p, q, "plain", -1) : k \in HKinds, p \in HPaths, q \in HQueries } ELSE {})

\* lal as client: what the upstream sends
RtmpEls == {"hs_ok", "hs_v0", "hs_v6", "hs_ff", "hs_short", "hs_s0s1", "hs_text", "winack_ok", "winack_small", "winack_neg",
     "winack_short", "winack_empty", "bw_ok", "bw_short", "cs_ok", "cs_0", "cs_1", "cs_huge", "cs_neg", "cs_short",
     "cs_empty", "abort", "abort_short", "ack_ok", "ack_3", "ack_1", "ack_0", "uc_begin", "uc_ping", "uc_ping_5",
     "uc_ping_2", "uc_1", "uc_0", "uc_unknown", "type0", "type7", "type15", "type16", "type17", "type19",
     "type22", "type22_short", "type127", "connect_ok", "connect_rejected", "connect_nocode", "connect_codenum", "connect_oneobj", "connect_nulls", "connect_noobj",
     "connect_ecma", "create_ok", "create_nonum", "create_nonull", "create_strid", "create_bigid", "create_nan", "create_neg", "result_tid0", "result_tid99",
     "result_tidnan", "result_tidstr", "result_only", "play_ok", "publish_ok", "status_other", "status_nocode", "status_codenum", "status_nonull", "status_noobj",
     "status_only", "error_ok", "error_nodesc", "error_descnum", "error_noobj", "error_needauth", "error_reason3", "error_reason2", "error_reason_empty", "cmd_unknown",
     "cmd_bwdone", "cmd_empty", "cmd_num", "cmd_strcut", "cmd_notid", "cmd_objcut", "cmd_deep", "meta_ok", "meta_sample", "meta_empty",
     "meta_num", "meta_strcut", "video_ok", "video_seq", "video_0", "video_1", "video_2", "video_4", "video_hevc1", "video_ext",
     "audio_ok", "audio_seq", "audio_seq1", "audio_0", "audio_1", "chunk_fmt1_first", "chunk_fmt3_first", "chunk_csid0", "chunk_csid1", "chunk_lenmax",
     "chunk_tsext", "chunk_len0", "chunk_cut", "bytes_ff"}
RtspEls == {"ok", "ok_gp", "ok_udp", "s461", "s404", "s500body", "s302", "status_garbage", "status_nospace", "status_onlycode",
     "status_empty", "status_http", "status_codestr", "status_long", "nocseq", "hdr_nocolon", "hdr_dup", "a401_nochal", "a401_basic", "a401_digest",
     "a401_both", "a401_norealm", "a401_openquote", "a401_empty", "a401_schemeonly", "a401_unknown", "a401_sha", "a401_long", "cl_short", "cl_long",
     "cl_neg", "cl_huge", "cl_2e62", "cl_nan", "cl_none_body", "t_none", "t_garbage", "t_noports", "t_port_garbage", "t_port_one",
     "t_port_big", "t_port_0", "t_il_garbage", "sess_empty", "sess_long", "il_before", "il_only", "il_short", "il_hdr1", "il_len0",
     "il_ch255", "il_rtcp1", "il_rtp_small", "il_media", "two", "half", "bytes"}
FlvSt == {"ok", "ok10", "chunked", "cl0", "s404", "s500", "s302_self", "s302_noloc", "s302_bad", "s302_rel", "s302_https", "s302_rtmp", "s302_empty",
          "garbage", "empty", "nospace", "onlycode", "nocolon", "longline", "manyhdr", "rtmp"}
FlvFh == {"ok", "garbage", "v9", "offs", "noflags"}
FlvTag == {"meta", "vseq", "video", "audio", "size0", "size1", "asize1", "msize1", "declmax", "declbig", "type0", "type255", "tsmax", "prevbad", "chunkhdr", "ff"}
ClientPool(c) ==
  CASE c.proto \in {"rtmp_pull", "rtmp_push"} -> { R(a) : a \in RtmpEls }
    [] c.proto \in {"rtsp_tcp", "rtsp_udp"} -> { Q(a) : a \in RtspEls }
    [] c.proto = "flv_pull" -> { F("st", a, -1) : a \in FlvSt } \cup { F("st", "cut", n) : n \in 0..47 }
                               \cup { F("fh", a, -1) : a \in FlvFh } \cup { F("fh", "cut", n) : n \in 0..12 }
                               \cup { F("tag", a, -1) : a \in FlvTag } \cup { F("tag", "cut", n) : n \in 0..39 }
\* elements that may follow the valid exchange without ending the sequence
ClientAfter(c) ==
  CASE c.proto \in {"rtmp_pull", "rtmp_push"} -> { R(a) : a \in {"cs_ok", "cs_1", "winack_small", "video_seq", "audio_seq", "meta_ok"} }
    [] c.proto \in {"rtsp_tcp", "rtsp_udp"} -> { Q(a) : a \in {"il_media", "ok", "ok_gp"} }
    [] c.proto = "flv_pull" -> { F("tag", a, -1) : a \in {"vseq", "video", "audio"} }
SdpClasses == {"good", "hevc", "clock0", "nocontrol", "abscontrol", "garbage", "empty", "m100", "nom", "noeq", "videoonly", "shortsets"}

\* GB28181 RTP sequencing: packets arriving in order / after a gap / into the gap, with a well-formed unit,
\* an unknown start code or continuation bytes, and "fill" elements the driver expands to more packets
\* than the unpacker's reorder list holds (consecutive numbers behind a gap, or every other number)
PsqCore == { El("good", "next", D, D, -1), El("good", "gap", D, D, -1), El("good", "hole", D, D, -1),
             El("bad", "next", D, D, -1), El("bad", "hole", D, D, -1), El("cont", "next", D, D, -1) }
PsqPool == PsqCore
  \cup { El("fill", a, D, D, -1) : a \in {"consec_nosc", "consec_sc", "consec_bad", "gapped"} }
  \cup { El(k, "back", D, D, -1) : k \in {"good", "bad", "cont"} }
  \cup { El("bad", "gap", D, D, -1), El("cont", "gap", D, D, -1), El("cont", "hole", D, D, -1) }
PsqFirst == { El("good", "next", D, D, -1), El("good", "gap", D, D, -1) }

\* UDP transport of an RTSP publisher: SDP tracks x tracks set up; datagrams to the RTP / RTCP socket of a
\* track with the payload type of that track / the other track / 0 / an unknown one, sender reports with the
\* SSRC of either kind of packet
UdpPts == {"own", "other", "zero", "unk"}
UdpSsrcs == {"v", "a", "zero", "unk"}
UdpCore == { El("rtp", t, p, "std", -1) : t \in {"v", "a"}, p \in UdpPts }
UdpPool == UdpCore
  \cup { El("rtp", t, p, "multi", -1) : t \in {"v", "a"}, p \in UdpPts }
  \cup { El("rtcp", t, "sr", c, n) : t \in {"v", "a"}, c \in UdpSsrcs, n \in {-1, 27, 4, 1} }
  \cup { El("rtcp", t, k, c, -1) : t \in {"v", "a"}, k \in {"rr", "srlong", "bye"}, c \in {"v", "a"} }
  \cup { El("rtcp_seq", t, k, D, -1) : t \in {"v", "a"}, k \in {"dup", "old", "none", "wrap"} }

\* GB28181 over TCP (surface "pst"): the real PubSession of start_rtp_pub with is_tcp_flag = 1 on a real ServerManager,
\* real loopback connections.  Data elements go to the newest connection (one is opened if there is none):
\*   u    a PS element (kind a, variant b; a = "good": a whole well-formed unit) in an RTP packet with header class c
\*        (n cuts the packet), carried in a frame of exactly that length
\*   len  the declared length against what follows: 0 / 1 / 11 (shorter than an RTP header) / more than follows before
\*        the peer closes (over_close) or falls silent (over_idle) / 65535 with all of it (max_full) or little of it and
\*        silence (max_idle) / half a length field, then close or silence
\*   wr   two frames in one write, the boundary inside a length field, one byte per write, three pieces, a burst of 50
\*   conn open (a further connection; lal closes the one before) / quiet (the same without waiting for lal to accept) /
\*        empty (connect, say nothing, close) / storm (three of those) / close / reset / half (shutdown of the sending side) /
\*        handover (the newest connection has just sent a 65535-byte frame full of pictures when a further connection
\*        arrives with the same: lal is still at work on the first one's frame)
\*   old  frames on the FIRST connection of the scenario, whatever has been opened since
\*   api  kick_session of the session, of another id; a second start_rtp_pub for the stream name (tcp / udp); one tick
\* cfg: pre = what happened before the first element (none: no connection was ever accepted / conn: one is open /
\* good: one is open and has carried well-formed units), to = liveness timeout of the session in seconds (0 = none)
PstLens == {"zero", "one", "eleven", "over_close", "over_idle", "max_full", "max_idle", "half_close", "half_idle"}
PstCore == { El("conn", "open", D, D, -1), El("conn", "close", D, D, -1), El("u", "good", "ok", "ok", -1),
             El("len", "max_idle", D, D, -1), El("api", "tick", D, D, -1) }
PstPool == PstCore
  \cup { El("len", a, D, D, -1) : a \in PstLens }
  \cup UNION { { El("u", k, v, "ok", -1) : v \in PsVariants[k] } : k \in DOMAIN PsVariants }
  \cup { El("u", "pesv", "ok", h, -1) : h \in Hdrs \ {"ok"} }
  \cup { El("u", "good", "ok", "cut", n) : n \in 0..13 }
  \cup { El("wr", a, D, D, -1) : a \in {"two", "two_split", "split1", "split3", "many"} }
  \cup { El("conn", a, D, D, -1) : a \in {"open", "quiet", "empty", "storm", "close", "reset", "half", "handover"} }
  \cup { El("old", a, D, D, -1) : a \in {"good", "zero", "max_idle", "garbage"} }
  \cup { El("api", a, D, D, -1) : a \in {"kick", "kick_other", "start2", "start2_udp", "tick"} }

Cfgs == CASE Surf = "rtp" -> { [vc |-> v, ac |-> "aac", sub |-> s, rate |-> "ok"] : v \in {"avc", "hevc"}, s \in {"n", "y"} }
                           \cup { [vc |-> v, ac |-> "aac", sub |-> "n", rate |-> r] : v \in {"avc", "hevc"}, r \in {"0", "1", "999"} }   \* SDP clock rate class of both tracks
          [] Surf = "psq" -> { [pre |-> p] : p \in {"none", "good"} }
          [] Surf = "udp" -> { [sdp |-> x[1], setup |-> x[2]] : x \in {<<"va", "va">>, <<"va", "v">>, <<"va", "a">>, <<"v", "v">>, <<"a", "a">>} }
          [] Surf = "ps" -> { [pre |-> p] : p \in {"none", "good"} }
          [] Surf = "pst" -> { [pre |-> p, to |-> t] : p \in {"none", "conn", "good"}, t \in {"0", "1"} }
          [] Surf = "client" -> { [proto |-> p, sdp |-> "good"] : p \in {"rtmp_pull", "rtmp_push", "rtsp_tcp", "rtsp_udp", "flv_pull"} }
                                \cup { [proto |-> "rtsp_tcp", sdp |-> x] : x \in SdpClasses }
          [] OTHER -> { [x |-> D] }
Core == CASE Surf = "rtsp" -> RtspCore [] Surf = "ws" -> WsCore [] Surf = "rtp" -> RtpCore(cfg) [] Surf = "ps" -> PsCore
          [] Surf = "http" -> HttpCore [] Surf = "psq" -> PsqCore [] Surf = "udp" -> UdpCore [] Surf = "pst" -> PstCore [] OTHER -> {}
Pool == CASE Surf = "rtsp" -> RtspPool [] Surf = "ws" -> WsPool [] Surf = "rtp" -> RtpPool(cfg) [] Surf = "ps" -> PsPool
          [] Surf = "http" -> HttpPool [] Surf = "client" -> ClientPool(cfg) \cup ClientAfter(cfg)
          [] Surf = "psq" -> (IF seq = <<>> THEN PsqFirst ELSE PsqPool) [] Surf = "udp" -> UdpPool [] Surf = "pst" -> PstPool [] OTHER -> {}
\* does the sequence go on after element e?  client: only along the valid exchange, then through ClientAfter
Continues(e) ==
  CASE Surf = "sdp" -> TRUE
    [] Surf = "client" -> LET v == Valid(cfg.proto) IN
                          IF Len(seq) < Len(v) THEN IsPrefix(seq, v) /\ e = v[Len(seq) + 1] ELSE e \in ClientAfter(cfg)
    [] OTHER -> e \in Core

Init == /\ cfg \in Cfgs /\ seq = <<>> /\ open = TRUE /\ st = RtspInit /\ act = [name |-> "init"]

First == IF Len(seq) > 0 THEN seq[1] ELSE GoodSdp
Send(e) ==
  LET x == Expect(Surf, st, First, e) IN
  /\ \E stays \in Stays(x) :
       /\ open' = (stays /\ Continues(e))    \* an element outside the core ends the sequence
       /\ act' = [name |-> "Send", el |-> e, exp |-> x, stays |-> stays]
  /\ seq' = Append(seq, e)
  /\ st' = RtspStep(st, e)
  /\ UNCHANGED cfg

Next == /\ open /\ Len(seq) < Depth
        /\ IF Surf = "sdp"
           THEN IF seq = <<>> THEN \E e \in SdpPool : Send(e) ELSE Send(Media)
           ELSE \E e \in Pool : Send(e)
Spec == Init /\ [][Next]_vars

\* totality: every (state, element) has a defined expectation that never admits a crash, and what the
\* specification expects can be observed (the allowed set is not empty)
Witness(x, stays) == [codes |-> (IF x = "ok" THEN <<200>> ELSE IF x = "okmedia" THEN <<200, 200, 200>> ELSE IF x = "ws101" THEN <<101>> ELSE IF x = "refused" THEN <<2003>> ELSE <<>>), alive |-> stays, panic |-> FALSE, note |-> ""]
Total == act.name = "Send" => /\ act.exp \in Kinds
                              /\ Allowed(act.exp, Witness(act.exp, act.stays))
                              /\ ~Allowed(act.exp, [Witness(act.exp, act.stays) EXCEPT !.panic = TRUE])
ClosedIsFinal == ~open => (Len(seq) >= 1)
Bounded == Len(seq) <= Depth
Done == ~open' \/ Len(seq') = Depth \/ (Surf = "sdp" /\ Len(seq') = 2)
EmitS == Done => PrintT("@S@" \o ToJson([surf |-> Surf, cfg |-> cfg, steps |-> seq']))
View == <<cfg, seq, open, st>>
=============================================================================

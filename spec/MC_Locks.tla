------------------------------ MODULE MC_Locks ------------------------------
EXTENDS Locks
Objs2 == {"g1", "g2"}
Objs3 == {"g1", "g2", "g3"}
\* quick: every process class next to the tick loop / shutdown it can collide with
P1 == {"s1", "tick", "shut"}
P2 == {"api", "tick", "shut"}
P3 == {"s1", "pull", "nw"}
P4 == {"hls", "clean", "tick"}
P5 == {"rin", "s1", "tick"}
P6 == {"s1", "s2", "shut"}
\* thorough
PA == {"s1", "api", "tick", "shut"}
PB == {"s1", "tick", "pull", "nw"}
PC == {"s1", "hls", "clean", "tick"}
PD == {"s1", "rin", "tick", "shut"}
PE == {"api", "shut", "nw", "tick"}
=============================================================================

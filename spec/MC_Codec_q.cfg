SPECIFICATION Spec
CONSTANTS
  Thorough = FALSE
  PathLen = 4
INVARIANTS InvDim InvPreserved InvFraming InvAdts InvSdp
ACTION_CONSTRAINT EmitS

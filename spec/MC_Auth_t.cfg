SPECIFICATION Spec
CONSTANTS
  FlagMode = "all"
  RdLen = 4
  WrLen = 4
  Durs = {0, 1, 2}
INVARIANTS SaUnaffected SaNoLeak SaIff SaMonotone RaSdpIff RdSound WrSound BlSound
ACTION_CONSTRAINT EmitS

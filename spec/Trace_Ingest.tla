---------------------------- MODULE Trace_Ingest ----------------------------
(* Trace validation for C07: what an HTTP-FLV subscriber received from lal for a source stream    *)
(* published over the customize-pub API, an RTSP session (interleaved RTP) or GB28181 PS over RTP, *)
(* decided by Ingest!Conforms.  Every Run line is an independent case.                            *)
EXTENDS Ingest, IOUtils

Trace == ndJsonDeserialize(IOEnv.TRACE)
VARIABLES l
TraceInit == l = 1 /\ TLCSet(1, 1)
IsEvent(e) == l <= Len(Trace) /\ Trace[l].ev = e /\ l' = l + 1
Check(c) == IF c THEN TRUE ELSE PrintT("@REJ@" \o ToString(l))

TraceReset == IsEvent("reset")

TraceRun == /\ IsEvent("Run")
            /\ LET e == Trace[l]
               IN Check(/\ e.panic = ""
                        /\ e.bad = <<>>
                        /\ Conforms(e.path, e.vc, e.ac, e.vrate, e.arate, e.asc, e.sdp, e.frames, e.out))

TraceNext == TraceReset \/ TraceRun
TraceSpec == TraceInit /\ [][TraceNext]_l
HighWater == TLCSet(1, IF l > TLCGet(1) THEN l ELSE TLCGet(1))
Accept == PrintT("@HW@" \o ToString(TLCGet(1)))
=============================================================================

---------------------------- MODULE MC_Codec ----------------------------
(* Scenario enumeration for C19: one initial state per scenario; path scenarios (car, nal, aac) *)
(* grow edge by edge through their graph and are emitted when they reach PathLen.                *)
EXTENDS Codec, FiniteSets

CONSTANTS Thorough      \* FALSE: quick pools, TRUE: thorough pools
          , PathLen     \* edges per path scenario

VARIABLES sc, node, path, act
vars == <<sc, node, path, act>>

---------------------------------------------------------------------------
\* (d) SPS trees
Profiles == IF Thorough THEN {66, 77, 100, 122, 244, 44} ELSE {66, 100, 244}
Sizes == IF Thorough THEN { <<0, 0>>, <<1, 2>>, <<79, 44>>, <<119, 67>>, <<119, 33>>, <<255, 134>> }
         ELSE { <<0, 0>>, <<119, 67>> }
Crops == IF Thorough THEN { <<0, 0, 0, 4>>, <<1, 2, 3, 1>>, <<0, 3, 0, 0>>, <<2, 0, 1, 0>> }
         ELSE { <<0, 0, 0, 4>>, <<1, 2, 3, 1>> }
H264Trees ==
  { t \in [codec : {"h264"}, profile : Profiles, chroma : 0..3, sep : 0..1, scal : 0..2, poc : 0..2,
           cyc : {0, 2}, big : 0..1, wmbs : { s[1] : s \in Sizes }, hmap : { s[2] : s \in Sizes },
           fmo : 0..1, mbaff : 0..1, crop : 0..1, co : Crops \cup {<<0, 0, 0, 0>>}, vui : 0..1] :
      /\ <<t.wmbs, t.hmap>> \in Sizes
      /\ (t.crop = 1 => t.co # <<0, 0, 0, 0>>)
      /\ H264Valid(t) }
LumaSizes == IF Thorough THEN { <<8, 8>>, <<16, 16>>, <<1280, 720>>, <<1920, 1080>>, <<3840, 2160>>, <<8192, 4320>> }
             ELSE { <<16, 16>>, <<1920, 1080>>, <<3840, 2160>> }
H265Trees ==
  { t \in [codec : {"h265"}, chroma : 0..3, sep : 0..1, msl : {0, 1, 2, 6}, slp : 0..1, sll : 0..1,
           w : { s[1] : s \in LumaSizes }, h : { s[2] : s \in LumaSizes }, crop : 0..1,
           co : {<<0, 0, 0, 0>>, <<0, 0, 0, 4>>, <<1, 2, 3, 1>>}, ord : 0..1, bd : {0, 2}] :
      /\ <<t.w, t.h>> \in LumaSizes
      /\ (t.crop = 1 => t.co # <<0, 0, 0, 0>>)
      /\ H265Valid(t) }
SpsScen == { [k |-> "sps", t |-> t] : t \in H264Trees \cup H265Trees }

\* (a) carriers: length tuples (sps, pps) / (vps, sps, pps); 9 / 23 / 28 are the shortest sets with full syntax
Min264 == <<0, 9, 1>>
Min265 == <<23, 28, 2>>
Lens264 == { <<1, 1>>, <<2, 2>>, <<9, 65535>>, <<255, 256>>, <<256, 255>>, <<65535, 1>>, <<65535, 65535>> }
           \cup (IF Thorough THEN { <<a, b>> : a \in {1, 2, 9, 254, 255, 256, 257, 65534, 65535}, b \in {1, 2, 255, 256, 65535} } ELSE {})
Lens265 == { <<1, 1, 1>>, <<2, 2, 2>>, <<23, 28, 2>>, <<255, 256, 65535>>, <<65535, 255, 256>>, <<256, 65535, 255>>,
             <<65535, 65535, 65535>> }
           \cup (IF Thorough THEN { <<a, b, c>> : a \in {23, 255, 256, 65535}, b \in {28, 255, 256, 65534, 65535}, c \in {1, 2, 255, 256, 65535} } ELSE {})
CarScen == { [k |-> "car", codec |-> "h264", lens |-> ls, cls |-> c] : ls \in Lens264, c \in {"p", "e"} }
      \cup { [k |-> "car", codec |-> "h265", lens |-> ls, cls |-> c] : ls \in Lens265, c \in {"p", "e"} }
MinFor(codec) == IF codec = "h264" THEN Min264 ELSE Min265

\* (b) framing
U(b, n) == [b |-> b, n |-> n]
UnitPool == { U(<<101>>, 0), U(<<>>, 1), U(<<101>>, 300), U(<<9, 0, 0, 3>>, 0), U(<<101, 0, 0, 3, 1>>, 2), U(<<5, 0, 1>>, 70000) }
            \cup (IF Thorough THEN { U(<<1, 0>>, 3) } ELSE {})
UnitPool3 == { U(<<>>, 1), U(<<9, 0, 0, 3>>, 0) } \cup (IF Thorough THEN { U(<<101>>, 300) } ELSE {})
UnitLists == { <<a>> : a \in UnitPool } \cup { <<a, b>> : a \in UnitPool, b \in UnitPool }
             \cup { <<a, b, c>> : a \in UnitPool3, b \in UnitPool3, c \in UnitPool3 }
\* start codes of 3 and 4 bytes, and longer zero runs before the 01 (zero_byte / trailing_zero_8bits of Annex B.1 between units)
ScsOf(n) == [1..n -> IF Thorough THEN {3, 4, 5, 6} ELSE {3, 4, 6}]
Tzs == IF Thorough THEN {0, 1, 2, 3} ELSE {0, 2}
NalScen == { [k |-> "nal", units |-> us, scs |-> s, tz |-> z] : us \in UnitLists, s \in UNION { ScsOf(n) : n \in 1..3 }, z \in Tzs }
AllFour(s) == \A i \in DOMAIN s : s[i] = 4

\* (e) AAC
A(ot, fi, ch, low, ext) == [ot |-> ot, fi |-> fi, ch |-> ch, low |-> low, ext |-> ext]
AscPool == { A(2, 4, 2, 0, 0), A(1, 0, 7, 0, 0), A(4, 12, 0, 0, 0), A(2, 3, 1, 4, 0), A(5, 4, 2, 0, 3), A(29, 6, 1, 0, 5),
             A(2, 11, 8, 0, 0), A(3, 8, 6, 1, 2) }
AscAll == { A(ot, fi, ch, 0, 0) : ot \in 1..4, fi \in 0..12, ch \in 0..7 }
AView(a) == [ot |-> a.ot, fi |-> a.fi, ch |-> a.ch, low |-> a.low, n |-> 2 + a.ext, eq |-> TRUE]
Flens == IF Thorough THEN {0, 1, 1000, 8184} ELSE {0, 1000}
AacScen == { [k |-> "aac", asc |-> a, flen |-> 371] : a \in AscPool }
AdtsScen == { [k |-> "adts", asc |-> a, flen |-> f, path |-> <<"adts", "adts2asc", "adts", "adts2seq", "seq2asc">>] :
              a \in AscAll, f \in Flens }

\* (c) SDP
SdpScen == { [k |-> "sdp", v |-> v, a |-> a, via |-> via, lens |-> ls, cls |-> c, asc |-> asc] :
             v \in {"H264", "H265", "none"}, a \in {"AAC", "PCMA", "PCMU", "OPUS", "none"}, via \in {"pack", "remux"},
             ls \in Lens264 \cup Lens265, c \in {"p", "e"}, asc \in AscPool }
SdpScenOK(s) == /\ ~(s.v = "none" /\ s.a = "none")
                /\ (s.via = "remux" => s.v # "none" /\ s.a # "none")
                /\ (s.v = "H264" => s.lens \in Lens264) /\ (s.v = "H265" => s.lens \in Lens265)
                /\ (s.v = "none" => s.lens = <<1, 1>> /\ s.cls = "p")
                /\ (s.a # "AAC" => s.asc = A(2, 4, 2, 0, 0))
                /\ (s.a = "AAC" => s.asc.fi \in 0..12)
                /\ (~Thorough => s.lens \in {<<2, 2>>, <<255, 256>>, <<65535, 65535>>, <<1, 1>>, <<23, 28, 2>>, <<255, 256, 65535>>, <<65535, 65535, 65535>>})

---------------------------------------------------------------------------
StartNode(k) == CASE k = "car" -> "bare" [] k = "nal" -> "list" [] k = "aac" -> "asc" [] OTHER -> "none"
Scenarios == SpsScen \cup CarScen \cup NalScen \cup AacScen \cup AdtsScen \cup { s \in SdpScen : SdpScenOK(s) }

Init == /\ sc \in Scenarios /\ node = StartNode(sc.k) /\ path = <<>> /\ act = [name |-> "init"]

Done(p) == IF Len(p) = PathLen THEN [name |-> "S", sc |-> [sc EXCEPT !.k = sc.k] @@ [path |-> p]] ELSE [name |-> "step"]

Fire == /\ sc.k \in {"sps", "sdp", "adts"} /\ act.name = "init"
        /\ act' = [name |-> "S", sc |-> IF sc.k = "adts" THEN [sc EXCEPT !.k = "aac"] ELSE sc]
        /\ UNCHANGED <<sc, node, path>>

StepCar == /\ sc.k = "car" /\ Len(path) < PathLen
           /\ \E x \in CarEdges :
                /\ x.f = node
                /\ CarEnabled(sc.codec, OrigSets(sc.codec, sc.lens), MinFor(sc.codec), x.e)
                /\ node' = x.t /\ path' = Append(path, x.e) /\ act' = Done(path')
           /\ UNCHANGED sc
StepNal == /\ sc.k = "nal" /\ Len(path) < PathLen
           /\ Len(sc.scs) = Len(sc.units)
           /\ \E x \in NalEdges :
                /\ x.f = node
                /\ (path = <<>> /\ x.e # "ext.anb" => AllFour(sc.scs) /\ sc.tz = 0)   \* start codes only matter there
                /\ (path # <<>> => x.e \notin {"ext.anb", "ext.avcc"} \/ path[1] \notin {"ext.anb"})
                /\ node' = x.t /\ path' = Append(path, x.e) /\ act' = Done(path')
           /\ UNCHANGED sc
StepAac == /\ sc.k = "aac" /\ Len(path) < PathLen
           /\ \E x \in AacEdges :
                /\ x.f = node /\ AacEnabled(AView(sc.asc), x.e)
                /\ node' = x.t /\ path' = Append(path, x.e) /\ act' = Done(path')
           /\ UNCHANGED sc
Next == Fire \/ StepCar \/ StepNal \/ StepAac
Spec == Init /\ [][Next]_vars

---------------------------------------------------------------------------
\* design-level invariants
InvDim == sc.k = "sps" => DimSane(sc.t)
InvPreserved == sc.k = "car" => Preserved(node, sc.lens)
InvFraming == (sc.k = "nal" /\ path = <<>> /\ Len(sc.scs) = Len(sc.units)) => FramingPreserves(sc.units, sc.scs, sc.tz)
InvAdts == sc.k \in {"aac", "adts"} => AdtsFits(AView(sc.asc), sc.flen)
InvSdp == sc.k = "sdp" => /\ VideoSets(sc.v, sc.lens) = <<>> <=> sc.v = "none"
                          /\ Len(AudioSets(sc.a, 2 + sc.asc.ext)) = (IF sc.a = "AAC" THEN 1 ELSE 0)

EmitS == act'.name = "S" => PrintT("@S@" \o ToJson(act'.sc))
=============================================================================

---------------------------- MODULE Trace_Payloads ----------------------------
(* Trace validation for C05.  One JSON line per step of a scenario run against lal in a child     *)
(* process (harness/drv/payloads.go):                                                             *)
(*   reset {sc, cfg}                   a new stream: publisher accepted, early consumers joined    *)
(*   Join  {obs}                       a second set of consumers joins                             *)
(*   Pub   {m, ts, obs}                one message of the accepted publisher                       *)
(*   Stage {s, obs}                    a staging macro (see Payloads!StageStep): header, k copies   *)
(*                                     of a letter, consumers joining in between; obs.hookN counts  *)
(*                                     the whole macro, the got flags are those of the last copy    *)
(*   End   {obs}                       publisher and consumers leave                               *)
(* obs = [died, stalled, other, hookN, hook, rec, r0, f0, r1, f1 : [got, bad], crash, frame,        *)
(*        confirmed]:  the process died / the call exceeded its budget (linear in the payload size) *)
(* / a frame published to a second, idle stream reached its consumer / messages the hook saw in     *)
(* this step / per opaque output: the message arrived byte-identical (got), messages that are not   *)
(* byte-identical to anything published (bad).  desc / pat (the first, parked RTSP subscriber has    *)
(* had its DESCRIBE answered / PAT and PMT are in the TS recording) are not judged: where they differ *)
(* from the stage state of the model a line @MIS@ is printed, counted by the check as a coverage     *)
(* figure (the staged part of the model is meant to be exact).                                       *)
(* Whatever the letter: the server lives, the call returns, the other stream flows, nothing is      *)
(* altered, the fan-out is bounded independently of the timestamp; where the configuration makes    *)
(* deliveries deterministic they are exactly the predicted ones.                                   *)
EXTENDS Payloads, IOUtils

Trace == ndJsonDeserialize(IOEnv.TRACE)

VARIABLES l,       \* next line
          h,       \* history of the current scenario
          np,      \* messages published so far in the current scenario
          failed   \* the current scenario has been rejected (its remaining lines are skipped)
tvars == <<l, h, np, failed>>

NoCfg == [dummy |-> FALSE, predict |-> FALSE]
TraceInit == l = 1 /\ h = InitH(NoCfg) /\ np = 0 /\ failed = FALSE /\ TLCSet(1, 1)

IsEvent(e) == l <= Len(Trace) /\ Trace[l].ev = e /\ l' = l + 1

\* A rejected line marks the scenario failed, reports its line once, and skips to the next reset.
Reject == /\ failed' = TRUE
          /\ IF failed THEN TRUE ELSE PrintT("@REJ@" \o ToString(l))
          /\ UNCHANGED <<h, np>>

Opaque == {"hook", "rec", "r0", "f0", "r1", "f1"}
AliveN(o, c) == /\ ~o.died /\ ~o.stalled /\ o.other
                /\ \A x \in Opaque : o[x].bad = 0
                /\ o.hookN <= c * Burst(np + c)
Alive(o) == AliveN(o, 1)

\* not judged: the stage state of a staged history of the predicted configuration against what lal shows
NoteStage(hn, o) ==
  IF hn.stg = "s" /\ hn.cfg.predict /\ (o.desc # (hn.rp # "ana") \/ o.pat # (hn.tp # "probe"))
  THEN PrintT("@MIS@" \o ToString(l)) ELSE TRUE

TraceReset ==
  /\ IsEvent("reset")
  /\ h' = InitH([dummy |-> Trace[l].cfg.dummy, predict |-> Trace[l].cfg.predict])
  /\ np' = 0 /\ failed' = FALSE

TraceJoin ==
  /\ IsEvent("Join")
  /\ LET o == Trace[l].obs
     IN IF ~failed /\ h.late = "no" /\ h.stg # "end" /\ Alive(o)
        THEN h' = JoinStep(h) /\ UNCHANGED <<np, failed>>
        ELSE Reject

Got(x) == x = "forwarded"

TracePub ==
  /\ IsEvent("Pub")
  /\ LET e == Trace[l]
         m == e.m
         o == e.obs
         p == Outcome(h, m)
     IN IF /\ ~failed
           /\ e.ts \in AllTsOps
           /\ Alive(o)
           /\ (h.cfg.predict /\ ~m.loose) =>
                 /\ o.hook.got = Got(p.hook) /\ o.rec.got = Got(p.rec)
                 /\ o.r0.got = Got(p.early) /\ o.f0.got = Got(p.early)
                 /\ o.r1.got = Got(p.late) /\ o.f1.got = Got(p.late)
                 /\ o.hookN = IF m.n > 0 THEN 1 ELSE 0
           /\ h.stg # "end"
           /\ o.hookN <= Burst(np)
        THEN /\ h' = MStep(h, m, e.ts) /\ np' = np + 1 /\ UNCHANGED failed
             /\ NoteStage(Step(h, m, e.ts), o)
        ELSE Reject

TraceStage ==
  /\ IsEvent("Stage")
  /\ LET e == Trace[l]
         s == e.s
         o == e.obs
         c == StageCount(s)
         hb == StageBeforeLast(h, s)
         p == Outcome(hb, s.m)
     IN IF /\ ~failed
           /\ Fresh(h)
           /\ s.ts \in AllTsOps /\ s.k \in 1..64 /\ s.j \in 0..64
           /\ AliveN(o, c)
           /\ (h.cfg.predict /\ ~s.m.loose) =>
                 /\ o.hook.got = Got(p.hook) /\ o.rec.got = Got(p.rec)
                 /\ o.r0.got = Got(p.early) /\ o.f0.got = Got(p.early)
                 /\ o.r1.got = Got(p.late) /\ o.f1.got = Got(p.late)
                 /\ o.hookN = (IF s.hdr.n > 0 THEN 1 ELSE 0) + (IF s.m.n > 0 THEN s.k ELSE 0)
        THEN /\ h' = StageStep(h, s) /\ np' = np + c /\ UNCHANGED failed
             /\ NoteStage(StageStep(h, s), o)
        ELSE Reject

TraceEnd ==
  /\ IsEvent("End")
  /\ LET o == Trace[l].obs
     IN IF ~failed /\ Alive(o)
        THEN UNCHANGED <<h, np, failed>>
        ELSE Reject

TraceNext == TraceReset \/ TraceJoin \/ TracePub \/ TraceStage \/ TraceEnd
TraceSpec == TraceInit /\ [][TraceNext]_tvars

HighWater == TLCSet(1, IF l > TLCGet(1) THEN l ELSE TLCGet(1))
Accept == PrintT("@HW@" \o ToString(TLCGet(1)))
=============================================================================

SPECIFICATION FineSpec
CONSTANTS
  Cons = {"s1", "s2"}
  Healthy = {}
  Other = {}
  N = 2
  HCap = 64
  Parts = 1
  ElemParts = 1
  WsMode = FALSE
  EnqAcct = FALSE
  HasDeadline = TRUE
  Prime = FALSE
  MaxPub = 2
  MaxRead = 2
  MaxStall = 2
  MaxSweep = 1
  MaxLeave = 0
  MaxPubB = 0
  MaxCmd = 2
INVARIANTS WholeUnits NoBlocking QueueBound
VIEW FineView

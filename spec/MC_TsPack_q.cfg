SPECIFICATION Spec
CONSTANTS
  LenPool <- Q_Len
  CcPool = {0, 14, 15}
  PtsPool <- Q_Pts
  CtsPool <- Q_Cts
INVARIANTS RefOK
ACTION_CONSTRAINT EmitS

---------------------------- MODULE MC_RemuxOut ----------------------------
(* Generator + design-level check for C06: every behaviour of a well-formed publisher (sequence  *)
(* headers before the frames of their track, non-decreasing timestamps) over the message kinds   *)
(* below x codec combination x join point of a second HTTP-TS consumer is run through the         *)
(* reference model of lal, and what it hands to the consumers must satisfy the acceptor.          *)
(* C02 for RTSP: a subscriber of the Group sends DESCRIBE (DescR) and SETUP / PLAY (PlayR) at any  *)
(* two instants; what the RTSP reference (RrStep) hands it must satisfy the RTP acceptor with      *)
(* SdpCur, KeyFirst and RtspStartsInTime.                                                         *)
EXTENDS RemuxOut

CONSTANTS VCodec, ACodec,
          MaxPub,      \* messages per behaviour
          MaxVer,      \* parameter-set / sequence-header versions
          VKinds,      \* video message kinds: [name, key, cts, nals (types), newps]
          DtPool,      \* timestamp increments (ms)
          AscPool,     \* AudioSpecificConfig versions
          TJoin, RJoin,\* which late consumers a behaviour may have: a second HTTP-TS one, an RTSP one
          RMut         \* "none", or the mutant of the reference the design check must catch (RTSP side, or "nodrain":
                       \* the probe queue is dropped when the input leaves)

VARIABLES uid, now, npub, ended,
          rr          \* reference model of the RTSP side
mvars == <<vars, uid, now, npub, ended, rr>>
View == <<vc, ac, hist, cons, rtp, rm, uid, now, npub, ended, rr>>

T0 == 1000
DefN == 100
AscTab(v) == CASE v = 1 -> <<2, 4, 2>> [] v = 2 -> <<2, 3, 2>> [] v = 4 -> <<2, 3, 6>> [] v = 5 -> <<1, 4, 7>>
               [] v = 6 -> <<4, 0, 2>> [] v = 7 -> <<2, 12, 4>> [] OTHER -> <<2, 11, 1>>

\* ---- message kinds (nal types per message) ----
K(name, key, cts, nals, newps) == [name |-> name, key |-> key, cts |-> cts, nals |-> nals, newps |-> newps]
AvcCore == { K("K", TRUE, 0, <<"idr">>, FALSE), K("P", FALSE, 0, <<"slice">>, FALSE), K("B", FALSE, 80, <<"slice">>, FALSE),
             K("Kp", TRUE, 0, <<"sps", "pps", "idr">>, FALSE), K("Kn", TRUE, 0, <<"sps", "pps", "idr">>, TRUE) }
AvcMore == { K("Ks", TRUE, 40, <<"sei", "idr">>, FALSE), K("Ka", TRUE, 0, <<"aud", "idr", "idr">>, FALSE),
             K("Pa", FALSE, 0, <<"aud", "slice">>, FALSE), K("Ps", FALSE, 40, <<"sei", "slice", "slice">>, FALSE),
             K("S", FALSE, 0, <<"sps", "pps">>, TRUE), K("E", FALSE, 0, <<"sei">>, FALSE),
             K("Kas", TRUE, 0, <<"aud", "sps", "pps", "sei", "idr">>, FALSE),
             K("Ksp", TRUE, 0, <<"sps", "idr">>, TRUE), K("Pp", FALSE, 0, <<"pps", "slice">>, TRUE) }
HevcCore == { K("K", TRUE, 0, <<"idr">>, FALSE), K("P", FALSE, 0, <<"slice">>, FALSE), K("B", FALSE, 80, <<"slice">>, FALSE),
              K("Kp", TRUE, 0, <<"vps", "sps", "pps", "idr">>, FALSE), K("Kn", TRUE, 0, <<"vps", "sps", "pps", "idr">>, TRUE) }
HevcMore == { K("Ks", TRUE, 40, <<"sei", "idr">>, FALSE), K("Ka", TRUE, 0, <<"aud", "idr", "idr">>, FALSE),
              K("Pa", FALSE, 0, <<"aud", "slice">>, FALSE), K("Ps", FALSE, 40, <<"sei", "slice", "slice">>, FALSE),
              K("S", FALSE, 0, <<"vps", "sps", "pps">>, TRUE),
              K("Kas", TRUE, 0, <<"aud", "vps", "sps", "pps", "sei", "idr">>, FALSE),
              K("Ksp", TRUE, 0, <<"sps", "idr">>, TRUE), K("Pp", FALSE, 0, <<"pps", "slice">>, TRUE),
              K("Pv", FALSE, 0, <<"vps", "sps", "pps", "slice">>, FALSE) }
AvcMin == { K("K", TRUE, 0, <<"idr">>, FALSE), K("P", FALSE, 0, <<"slice">>, FALSE) }     \* enough for the witnesses
AvcAll == AvcCore \cup AvcMore
HevcAll == HevcCore \cup HevcMore
NoKinds == {}
Dt3 == {0, 23, 400}
Dt5 == {0, 23, 160, 400, 70000}
Dt2 == {23, 400}
Dt1 == {23}

CurVer == LET s == {hist.ps.sps, hist.ps.pps, hist.ps.vps, hist.vshv} IN CHOOSE x \in s : \A y \in s : y <= x
NCoded(ts, i) == Cardinality({j \in 1..i : ts[j] \in {"idr", "slice", "sei"}})
MkV(k, tm) ==
  LET v == IF k.newps THEN CurVer + 1 ELSE CurVer IN
  [k |-> "v", name |-> k.name, ver |-> 0, key |-> k.key, cts |-> k.cts, n |-> 0, id |-> 0, tm |-> tm, asc |-> <<>>,
   nals |-> [i \in 1..Len(k.nals) |->
              LET t == k.nals[i] IN
              [t |-> t, n |-> DefN, v |-> IF t \in {"sps", "pps", "vps"} THEN v ELSE 0,
               id |-> IF t \in {"idr", "slice", "sei"} THEN uid + NCoded(k.nals, i) ELSE 0]]]
MkHdr(k, ver, tm) == [k |-> k, name |-> k, ver |-> ver, key |-> FALSE, cts |-> 0, n |-> 0, id |-> 0, tm |-> tm,
                      asc |-> IF k = "ash" THEN AscTab(ver) ELSE <<>>, nals |-> <<>>]
MkA(tm) == [k |-> "a", name |-> "A", ver |-> 0, key |-> FALSE, cts |-> 0, n |-> DefN, id |-> uid + 1, tm |-> tm, asc |-> <<>>, nals |-> <<>>]

TsCons == {"t1", "t2"}
Init == /\ vc = VCodec /\ ac = ACodec /\ hist = HistInit
        /\ cons = [c \in {"t1", "t2", "hls"} |-> ConsInit]
        /\ rtp = [c \in RtpCons |-> IF c \in RtpGated THEN [RtpInit EXCEPT !.gate = TRUE] ELSE RtpInit] /\ rr = RrInit
        /\ rm = [RmInit EXCEPT !.sub["t1"] = [in |-> TRUE, fresh |-> TRUE, wait |-> TRUE]]
        /\ uid = 0 /\ now = T0 /\ npub = 0 /\ ended = FALSE
        /\ act = [name |-> "init"]

Step(m, dt) ==
  LET h2 == HistStep(hist, m, T3OfInt(m.tm))
      y == FeedAll(RmPush(rm, m), NoDel, 1)
      z == IF RJoin THEN RrStep(rr, m, RMut)      \* without an RTSP subscriber the RTSP side is not run
           ELSE [r |-> rr, del |-> RrNoDel, sdp |-> RrNoDel]
  IN /\ hist' = h2
     /\ rm' = y.r
     /\ rr' = z.r
     /\ rtp' = [c \in RtpCons |-> IF c \in DOMAIN z.del
                                  THEN AcceptRtp(h2, AcceptSdps(h2, rtp[c], z.sdp[c], 1, TRUE), z.del[c], 1) ELSE rtp[c]]
     /\ cons' = [c \in DOMAIN cons |-> IF c \in TsCons THEN AcceptTs(h2, cons[c], y.del[c], 1) ELSE cons[c]]
     /\ now' = m.tm /\ npub' = npub + 1
     /\ act' = [name |-> "Pub", m |-> m, dt |-> dt]
     /\ UNCHANGED <<vc, ac, ended>>

PubVsh == /\ ~ended /\ npub < MaxPub /\ VCodec # "none"
          /\ (hist.vshv = 0 \/ CurVer < MaxVer)
          /\ Step(MkHdr("vsh", CurVer + 1, now), 0) /\ uid' = uid
PubAsh == /\ ~ended /\ npub < MaxPub /\ ACodec = "aac"
          /\ \E v \in AscPool : v # hist.ascv /\ (hist.ascv = 0 => v = 1) /\ Step(MkHdr("ash", v, now), 0)
          /\ uid' = uid
PubV == /\ ~ended /\ npub < MaxPub /\ VCodec # "none" /\ hist.vshv > 0
        /\ \E k \in VKinds, dt \in DtPool :
             /\ (k.newps => CurVer < MaxVer)
             /\ Step(MkV(k, now + dt), dt)
             /\ uid' = uid + NCoded(k.nals, Len(k.nals))
PubA == /\ ~ended /\ npub < MaxPub /\ ACodec # "none" /\ (ACodec = "aac" => hist.ascv > 0)
        /\ \E dt \in DtPool : Step(MkA(now + dt), dt)
        /\ uid' = uid + 1
Join2 == /\ TJoin /\ ~ended /\ ~rm.sub["t2"].in
         /\ rm' = [rm EXCEPT !.sub["t2"] = [in |-> TRUE, fresh |-> TRUE, wait |-> TRUE]]
         /\ act' = [name |-> "Join", c |-> "t2"]
         /\ UNCHANGED <<vc, ac, hist, cons, rtp, uid, now, npub, ended, rr>>
\* the RTSP subscriber rh: DESCRIBE (answered at once if the stream is described), later SETUP / PLAY
DescR == /\ RJoin /\ ~ended /\ rr.sub["rh"].st = "no"
         /\ IF rr.sdp # <<>>
            THEN /\ rr' = [rr EXCEPT !.sub["rh"].st = "sdp"]
                 /\ rtp' = [rtp EXCEPT !["rh"] = AcceptSdps(hist, @, rr.sdp, 1, TRUE)]
            ELSE rr' = [rr EXCEPT !.sub["rh"].st = "desc"] /\ rtp' = rtp
         /\ act' = [name |-> "DescR"]
         /\ UNCHANGED <<vc, ac, hist, cons, rm, uid, now, npub, ended>>
PlayR == /\ RJoin /\ ~ended /\ rr.sub["rh"].st = "sdp"
         /\ rr' = [rr EXCEPT !.sub["rh"] = [st |-> "play", wait |-> rr.sub["rh"].wait /\ (hist.vshv > 0 \/ RMut = "hold")]]   \* stat.VideoCodec known
         /\ rtp' = [rtp EXCEPT !["rh"].play = hist.step]
         /\ act' = [name |-> "PlayR"]
         /\ UNCHANGED <<vc, ac, hist, cons, rm, uid, now, npub, ended>>
End == /\ ~ended /\ npub > 0
       /\ LET y == FeedAll(IF RMut = "nodrain" THEN RmFlushAudio(rm) ELSE RmDispose(rm), NoDel, 1)
          IN /\ rm' = y.r
             /\ cons' = [c \in DOMAIN cons |-> IF c \in TsCons THEN AcceptTs(hist, cons[c], y.del[c], 1) ELSE cons[c]]
       /\ ended' = TRUE /\ act' = [name |-> "End"]
       /\ UNCHANGED <<vc, ac, hist, rtp, uid, now, npub, rr>>

Next == PubVsh \/ PubAsh \/ PubV \/ PubA \/ Join2 \/ DescR \/ PlayR \/ End
Spec == Init /\ [][Next]_mvars

AllOk == \A c \in TsCons : cons[c].ok
EndComplete == ended => (\A c \in TsCons : EndOk(hist, cons[c])) /\ StartsInTime(hist, cons["t1"])
WitnessV == ~(ended /\ cons["t1"].vcur >= 2 /\ cons["t1"].acur >= 1 /\ cons["t2"].vcur >= 1 /\ cons["t2"].start > 3)
RAllOk == \A c \in RtpGated : rtp[c].ok
REndComplete == ended => \A c \in RtpGated : RtpEndOk(hist, rtp[c]) /\ RtspStartsInTime(hist, rtp[c])
\* non-vacuity: the RTSP subscriber joined a described stream in the middle of a GOP, waited, and was handed video and audio
WitnessR == ~(ended /\ rtp["rh"].play >= 2 /\ rtp["rh"].start > rtp["rh"].play + 1 /\ rtp["rh"].vcur >= 1 /\ rtp["rh"].acur >= 1)
EmitA == PrintT("@A@" \o ToJson([a |-> act, l |-> TLCGet("level")]))
=============================================================================

----------------------------- MODULE Trace_Hls -----------------------------
(* Trace validation for C10.  The driver logs the calls made on a real hls.Muxer (feed / stop /    *)
(* restart) and, for EVERY operation the muxer performs on the file-system layer, the operation,   *)
(* the parsed content of the file it touched (independent m3u8 / TS readers) and the directory.    *)
(* Each operation must be the next one the muxer model queued, must leave the touched file and the *)
(* directory exactly as the model's file system says, and the state after it must satisfy every    *)
(* property of C10 (PropVals).  EXT-X-TARGETDURATION is taken from the observation: the property   *)
(* only bounds it (TargetCovers).  Reject-and-continue: a refused line prints @REJ@ and @WHY@.     *)
EXTENDS Hls, IOUtils

Trace == ndJsonDeserialize(IOEnv.TRACE)
VARIABLES l, l0, sc, failed,
          soft     \* a playlist was written whose content is not the model's: the observed content is adopted, the
                   \* properties go on judging it, and the scenario is refused at its end at the latest
tvars == <<S, l, l0, sc, failed, soft>>

DummyCfg == [n |-> 1, d |-> 0, f |-> 1000, mode |-> 0]
TraceInit == S = Init0(DummyCfg, TRUE) /\ l = 1 /\ l0 = 1 /\ sc = 0 /\ failed = FALSE /\ soft = <<>> /\ TLCSet(1, 1)
IsEvent(e) == l <= Len(Trace) /\ Trace[l].ev = e /\ l' = l + 1

Reject(why) == /\ failed' = TRUE
               /\ IF failed THEN TRUE
                  ELSE /\ PrintT("@REJ@" \o ToString(l))
                       /\ PrintT("@WHY@" \o ToJson([sc |-> sc, line |-> l - l0, why |-> why]))
               /\ UNCHANGED <<S, l0, sc, soft>>
Accepting(s2) == S' = s2 /\ failed' = FALSE /\ UNCHANGED <<l0, sc, soft>>

TraceReset ==
  /\ IsEvent("reset")
  /\ S' = Init0(Trace[l].cfg, Trace[l].av) /\ l0' = l /\ sc' = Trace[l].sc /\ failed' = FALSE /\ soft' = <<>>

\* a call on the muxer: everything the model queued for the previous call must have been observed
Call(ok, s2) ==
  IF failed THEN Reject(<<>>)
  ELSE IF S.pend # <<>> THEN Reject(<<"Op:missing:" \o Head(S.pend).o \o ":" \o Head(S.pend).k>>)
  ELSE IF ~ok THEN Reject(<<"Call:not-enabled">>)
  ELSE Accepting(s2)

\* the sequence number a fresh muxer starts with is read off the name of the file it creates next
ObservedBase == IF l < Len(Trace) /\ Trace[l+1].ev = "op" /\ Trace[l+1].o = "create" /\ Trace[l+1].k = "ts"
                  THEN Trace[l+1].t[2] ELSE Continuation(S)
TraceFeed == IsEvent("feed") /\ Call(S.phase = "live", FeedStep(S, Trace[l].fr, ObservedBase))
TraceStop == IsEvent("stop") /\ Call(S.phase = "live", StopStep(S))
TraceRestart == IsEvent("restart") /\ Call(S.phase = "stopped", RestartStep(S))
TraceEnd == IsEvent("end") /\ (IF ~failed /\ S.pend = <<>> /\ Broken(S) # <<>> THEN Reject(Broken(S))
                               ELSE IF ~failed /\ S.pend = <<>> /\ soft # <<>> THEN Reject(soft)
                               ELSE Call(TRUE, S))
TracePanic == IsEvent("panic") /\ (IF failed THEN Reject(<<>>) ELSE Reject(<<"Panic">>))

ToSet(s) == {s[i] : i \in 1..Len(s)}
\* the state after an operation the muxer model did not queue: the file system does what was observed, and the
\* properties are evaluated on that (so that e.g. a playlist written in place is refused as not well-formed)
Generic(e) ==
  LET had == IF e.k = "ts" /\ e.t \in DOMAIN S.tsf THEN Len(S.tsf[e.t].g) ELSE 0
      obs == [o |-> e.o, k |-> e.k, t |-> e.t, p |-> e.p, to |-> e.to,
              g |-> IF e.k = "ts" /\ e.o = "write" /\ Len(e.seg.g) >= had THEN SubSeq(e.seg.g, had + 1, Len(e.seg.g)) ELSE <<>>,
              c |-> e.pl, ap |-> FALSE]
  IN Apply(S, obs, 0 - 1)
TraceOp ==
  /\ IsEvent("op")
  /\ LET e == Trace[l] IN
     IF failed THEN Reject(<<>>)
     ELSE IF e.o = "read" /\ (S.pend = <<>> \/ OpId(Head(S.pend)) # [o |-> e.o, k |-> e.k, t |-> e.t, p |-> e.p, to |-> e.to])
       THEN Accepting(S)       \* reading changes nothing
     ELSE IF S.pend = <<>> THEN Reject(Broken(Generic(e)) \o <<"Op:unexpected:" \o e.o \o ":" \o e.k>>)
     ELSE
       LET op  == Head(S.pend)
           tgt == IF op.k = "pl" /\ op.o = "write" THEN e.pl.target ELSE 0 - 1
           s2  == [Apply(S, op, tgt) EXCEPT !.pend = Tail(@)]
           same == CASE e.k = "ts" /\ e.o \in {"create", "write", "close"} ->
                           e.t \in DOMAIN s2.tsf /\ s2.tsf[e.t] = e.seg
                     [] e.k = "pl" /\ e.o \in {"create", "write", "close"} ->
                           e.p \in DOMAIN s2.plf /\ s2.plf[e.p] = e.pl
                     [] e.k = "pl" /\ e.o = "rename" ->
                           e.to \in DOMAIN s2.plf /\ s2.plf[e.to] = e.pl
                     [] OTHER -> TRUE
           dir == ToSet(e.dts) = DOMAIN s2.tsf /\ ToSet(e.dpl) = DOMAIN s2.plf
       IN IF OpId(op) # [o |-> e.o, k |-> e.k, t |-> e.t, p |-> e.p, to |-> e.to]
            THEN Reject(Broken(Generic(e)) \o <<"Op:mismatch:" \o e.o \o ":" \o e.k \o ":expected:" \o op.o \o ":" \o op.k>>)
          ELSE IF e.err THEN Reject(<<"Op:error:" \o e.o \o ":" \o e.k>>)
          ELSE IF ~same /\ e.k = "pl" /\ e.o = "write" THEN
                 LET s3 == [Generic(e) EXCEPT !.pend = Tail(@)]
                 IN IF Broken(s3) # <<>> THEN Reject(Broken(s3) \o <<"Content:write:" \o e.p>>)
                    ELSE /\ S' = s3 /\ failed' = FALSE /\ UNCHANGED <<l0, sc>>
                         /\ soft' = IF soft = <<>> THEN <<"Content:write:" \o e.p>> ELSE soft
          ELSE IF ~same THEN Reject(<<"Content:" \o e.o \o ":" \o (IF e.k = "ts" THEN "ts" ELSE e.p)>>)
          ELSE IF ~dir THEN Reject(<<"Dir:" \o e.o \o ":" \o e.k>>)
          ELSE IF Broken(s2) # <<>> THEN Reject(Broken(s2))
          ELSE Accepting(s2)

TraceNext == TraceReset \/ TraceFeed \/ TraceStop \/ TraceRestart \/ TraceEnd \/ TracePanic \/ TraceOp
TraceSpec == TraceInit /\ [][TraceNext]_tvars
HighWater == TLCSet(1, IF l > TLCGet(1) THEN l ELSE TLCGet(1))
Accept == PrintT("@HW@" \o ToString(TLCGet(1)))
=============================================================================

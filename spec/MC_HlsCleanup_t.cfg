SPECIFICATION Spec
CONSTANTS
  Modes = {0, 1, 2}
  MaxEp = 4
  MaxGrp = 4
  MaxFeed = 2
  MaxAge = 5
  MaxPending = 2
  Capture = FALSE
INVARIANTS TypeOK LiveSpared Listed Cleaned NeverCleaned
VIEW View

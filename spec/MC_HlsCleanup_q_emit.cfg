SPECIFICATION Spec
CONSTANTS
  Modes = {0, 1}
  MaxEp = 2
  MaxGrp = 2
  MaxFeed = 1
  MaxAge = 3
  MaxPending = 1
  Capture = FALSE
INVARIANTS TypeOK LiveSpared Listed Cleaned NeverCleaned
VIEW View
ACTION_CONSTRAINT Emit

SPECIFICATION TraceSpec
CONSTANTS
  DepthLimit = 64
CONSTRAINT HighWater
POSTCONDITION Accept
CHECK_DEADLOCK FALSE

---------------------------- MODULE MC_Auth ----------------------------
(* Enumeration of the C14 cases: every case is one initial state; the single step prints it as a *)
(* scenario for the driver.  Invariants are design-level sanity of the definitions in Auth.      *)
EXTENDS Auth, Json

CONSTANTS FlagMode,     \* "edge": none / all / singletons / all-but-one;  "all": every subset
          RdLen, WrLen, \* longest request path / stream name (segments)
          Durs          \* black-list durations (seconds)

VARIABLES c, act
vars == <<c, act>>

SeqsUpTo(S, n) == UNION { [1..k -> S] : k \in 1..n }

Dflt == [kind |-> "", flags |-> {}, pd |-> "", form |-> "", ovr |-> "none", enable |-> FALSE, method |-> 0,
         pass |-> "plain", steps |-> <<>>, req |-> <<>>, name |-> <<>>, proto |-> "", dur |-> 0,
         probes |-> <<>>, which |-> "", esc |-> FALSE]

FlagSets == IF FlagMode = "all" THEN SUBSET Flags
            ELSE {{}, Flags} \cup {{f} : f \in Flags} \cup {Flags \ {f} : f \in Flags}
FormOvr == {[form |-> x, ovr |-> "none"] : x \in Forms \ OvrForms}
           \cup {[form |-> x, ovr |-> o] : x \in OvrForms \cup {"right", "wrong", "empty"}, o \in {"lower", "mixed"}}
SaCases == {[Dflt EXCEPT !.kind = "sa", !.flags = f, !.pd = p, !.form = fo.form, !.ovr = fo.ovr] :
              f \in FlagSets, p \in Pds, fo \in FormOvr}

St(cr, n) == [cred |-> cr, nonce |-> n]
Finals == {St(cr, "") : cr \in {"none", "bearer"} \cup BasicCreds} \cup {St(cr, n) : cr \in DigestCreds, n \in Nonces}
Prefixes == {<<>>, <<St("none", "")>>, <<St("none", ""), St("none", "")>>}
RaCases == {[Dflt EXCEPT !.kind = "ra", !.enable = TRUE, !.method = m, !.pass = pw, !.steps = p \o <<f>>] :
              m \in {0, 1}, pw \in {"plain", "colon"}, p \in Prefixes, f \in Finals}
           \cup {[Dflt EXCEPT !.kind = "ra", !.enable = FALSE, !.method = m, !.steps = <<f>>] :
              m \in {0, 1}, f \in {St("none", ""), St("basicWrongPass", ""), St("digestWrongPass", "forged")}}

KickCases == {[Dflt EXCEPT !.kind = "kick", !.pd = p, !.which = w] : p \in Pds \ HlsPds, w \in {"real", "unknown"}}
BlCases == {[Dflt EXCEPT !.kind = "bl", !.dur = d, !.probes = [i \in 1..(d + 2) |-> i - 1]] : d \in Durs}
RdCases == {[Dflt EXCEPT !.kind = "rd", !.req = r, !.esc = RdEscapes(r)] : r \in SeqsUpTo(ReqTokens, RdLen)}
WrCases == {[Dflt EXCEPT !.kind = "wr", !.name = n, !.proto = "rtmp", !.esc = WrEscapes(n)] : n \in SeqsUpTo(NameSegs, WrLen)}
           \cup {[Dflt EXCEPT !.kind = "wr", !.name = n, !.proto = "rtsp", !.esc = WrEscapes(n)] : n \in SeqsUpTo(NameSegs, 2)}

Cases == SaCases \cup RaCases \cup KickCases \cup BlCases \cup RdCases \cup WrCases

Init == c \in Cases /\ act = "init"
Do == act = "init" /\ act' = "emit" /\ UNCHANGED c
Spec == Init /\ [][Do]_vars
EmitS == act' = "emit" => PrintT("@S@" \o ToJson(c))

---------------------------------------------------------------------------
Sa == c.kind = "sa"
\* a protocol whose flag is off is unaffected, whatever the URL carries
SaUnaffected == (Sa /\ ~Guarded(c.flags, c.pd)) => SaAllowed(c.flags, c.pd, c.form, c.ovr) = SaObs(c.pd, TRUE)
\* nothing observable leaks from a request that is not admitted
SaNoLeak == Sa => \A o \in SaAllowed(c.flags, c.pd, c.form, c.ovr) :
                     (o.resp \/ o.listed \/ o.pub) => (o \in SaObs(c.pd, TRUE) /\ TRUE \in Verdicts(c.flags, c.pd, c.form, c.ovr))
\* the guarded decision depends on the secret only: iff
SaIff == (Sa /\ Guarded(c.flags, c.pd)) =>
           /\ EffForm(c.form, c.ovr) \in AdmitForms => Verdicts(c.flags, c.pd, c.form, c.ovr) = {TRUE}
           /\ EffForm(c.form, c.ovr) \in RejectForms => Verdicts(c.flags, c.pd, c.form, c.ovr) = {FALSE}
\* enabling more flags never admits more
SaMonotone == Sa => \A f \in Flags : Verdicts(c.flags \cup {f}, c.pd, c.form, c.ovr) \subseteq
                                       (Verdicts(c.flags, c.pd, c.form, c.ovr) \cup {FALSE})

Ra == c.kind = "ra" /\ c.enable
LastStep == c.steps[Len(c.steps)]
NIssued == Len(c.steps) - 1
RaV == Valid(c.method, LastStep.cred, LastStep.nonce, NIssued)
\* credentials of the other scheme, unknown schemes and missing credentials are never valid;
\* right credentials of the configured scheme (with the nonce of the last challenge) always are
RaSdpIff == Ra => /\ (c.method = 0 /\ LastStep.cred = "basicRight") => RaV = "yes"
                  /\ (c.method = 1 /\ LastStep.cred = "digestRight" /\ LastStep.nonce = "last" /\ NIssued >= 1) => RaV = "yes"
                  /\ (c.method = 1 /\ LastStep.cred \in BasicCreds) => RaV = "no"
                  /\ (c.method = 0 /\ LastStep.cred \in DigestCreds) => RaV = "no"
                  /\ LastStep.cred \in {"none", "bearer"} => RaV = "no"
                  /\ LastStep.nonce = "forged" => RaV = "no"

\* the specification never demands an answer from outside the root, and says "nothing" for every
\* request a naive join would answer from outside
RdSound == c.kind = "rd" => /\ RdCanonical(c.req) => Inside(Target(c.req), RootHls)
                            /\ RdEscapes(c.req) => ~RdCanonical(c.req)
                            /\ RdOk(c.req, <<>>) \/ RdCanonical(c.req)
WrSound == c.kind = "wr" => /\ (c.name = <<"name">> => ~WrEscapes(c.name))
                            /\ WrOk(c.name, c.proto, <<>>, <<>>) \/ c.name = <<"name">>
BlSound == c.kind = "bl" => \A i \in DOMAIN c.probes :
                              LET t == BlAdd(<<>>, "a", 0, c.dur) IN
                              /\ BlMay(t, "b", c.probes[i]) = {TRUE}
                              /\ c.probes[i] < c.dur => BlMay(t, "a", c.probes[i]) = {FALSE}
                              /\ c.probes[i] > c.dur => BlMay(t, "a", c.probes[i]) = {TRUE}
=============================================================================

---------------------------- MODULE MC_Auth ----------------------------
(* Enumeration of the C14 cases: every case is one initial state; the single step prints it as a *)
(* scenario for the driver.  Invariants are design-level sanity of the definitions in Auth.      *)
EXTENDS Auth, Json

CONSTANTS FlagMode,     \* "edge": none / all / singletons / all-but-one;  "all": every subset
          RdLen, WrLen, \* longest request path / stream name (segments)
          Durs,         \* black-list durations (seconds)
          RaPre,        \* longest prefix of challenges / successful authentications before the judged DESCRIBE
          HpMaxDev,     \* most path components of an HLS request spelled differently from the documented form
          Kinds         \* case kinds enumerated by this run (the kinds are independent: the check runs them side by side)

VARIABLES c, act
vars == <<c, act>>

SeqsUpTo(S, n) == UNION { [1..k -> S] : k \in 1..n }

Dflt == [kind |-> "", flags |-> {}, pd |-> "", form |-> "", ovr |-> "none", enable |-> FALSE, method |-> 0,
         pass |-> "plain", steps |-> <<>>, req |-> <<>>, name |-> <<>>, proto |-> "", dur |-> 0,
         probes |-> <<>>, which |-> "", esc |-> FALSE, peers |-> 0, fam |-> "", cfg |-> "", listed |-> FALSE,
         hp |-> [shape |-> "", prefix |-> "", stream |-> "", fname |-> "", ext |-> "", slash |-> ""]]

FlagSets == IF FlagMode = "all" THEN SUBSET Flags
            ELSE {{}, Flags} \cup {{f} : f \in Flags} \cup {Flags \ {f} : f \in Flags}
FormOvr == {[form |-> x, ovr |-> "none"] : x \in Forms \ OvrForms}
           \cup {[form |-> x, ovr |-> o] : x \in OvrForms \cup {"right", "wrong", "empty"}, o \in {"lower", "mixed"}}
SaCases == {[Dflt EXCEPT !.kind = "sa", !.flags = f, !.pd = p, !.form = fo.form, !.ovr = fo.ovr] :
              f \in FlagSets, p \in Pds, fo \in FormOvr}

St(k, cr, n) == [conn |-> k, cred |-> cr, nonce |-> n]
Other(k) == IF k = "c1" THEN "c2" ELSE "c1"
RightOf(m) == IF m = 0 THEN "basicRight" ELSE "digestRight"
\* prefix alphabet: a DESCRIBE without credentials (challenge) or with the right ones, on either connection
PreSteps(m) == {St(k, "none", "") : k \in RaConns} \cup {St(k, RightOf(m), IF m = 0 THEN "" ELSE "last") : k \in RaConns}
\* a prefix is made of steps the server answers without closing: right Digest credentials need a challenge first
PreOk(m, p) == \A i \in DOMAIN p : (m = 1 /\ p[i].cred = "digestRight") => RaIssuedAfter(p, i - 1, RaIssued0)[p[i].conn] >= 1
Prefixes(m) == {p \in {<<>>} \cup SeqsUpTo(PreSteps(m), RaPre) : PreOk(m, p)}
\* nonce classes that are distinct after prefix p on connection k
NoncesAt(p, k) == LET n == RaIssuedAfter(p, Len(p), RaIssued0) IN
                  {"last", "otherClosed", "forged", "empty"} \cup (IF n[k] >= 2 THEN {"first"} ELSE {})
                  \cup (IF n[Other(k)] >= 1 THEN {"otherLive"} ELSE {})
Finals(m) == {St(k, cr, "") : cr \in {"none", "bearer"} \cup BasicCreds, k \in RaConns}
                \cup (IF m = 1 THEN {St(k, cr, n) : cr \in DigestCreds, k \in RaConns, n \in Nonces}
                               ELSE {St(k, cr, "last") : cr \in DigestCreds, k \in RaConns})
\* the two connections are interchangeable: the first step of a case is made on c1
RaSeqs(m) == {s \in {p \o <<f>> : p \in Prefixes(m), f \in Finals(m)} :
                /\ s[1].conn = "c1"
                /\ LET f == s[Len(s)] IN (m = 1 /\ f.cred \in DigestCreds) => f.nonce \in NoncesAt(SubSeq(s, 1, Len(s) - 1), f.conn)}
RaCasesOf(m) == {[Dflt EXCEPT !.kind = "ra", !.enable = TRUE, !.method = m, !.pass = pw, !.steps = s] :
                  pw \in {"plain", "colon"}, s \in RaSeqs(m)}
RaCases == RaCasesOf(0) \cup RaCasesOf(1)
           \cup {[Dflt EXCEPT !.kind = "ra", !.enable = FALSE, !.method = m, !.steps = <<f>>] :
              m \in {0, 1}, f \in {St("c1", "none", ""), St("c1", "basicWrongPass", ""), St("c1", "digestWrongPass", "forged")}}

\* peers: another session of the same kind on the same stream exists when the id is kicked (one publisher per stream)
KickCases == {[Dflt EXCEPT !.kind = "kick", !.pd = x.pd, !.which = w, !.peers = x.n] :
                x \in {[pd |-> p, n |-> n] : p \in KickPds, n \in {0, 1}} \ {[pd |-> p, n |-> 1] : p \in {"rtmp_pub", "rtsp_pub"}},
                w \in {"real", "unknown", "prefix"}}     \* prefix: the id of the session without its last character
BlCases == {[Dflt EXCEPT !.kind = "bl", !.dur = d, !.fam = f, !.probes = [i \in 1..(d + 2) |-> i - 1]] : d \in Durs, f \in BlFams}
RdCases == {[Dflt EXCEPT !.kind = "rd", !.req = r, !.esc = RdEscapes(r)] : r \in SeqsUpTo(ReqTokens, RdLen)}
WrCases == {[Dflt EXCEPT !.kind = "wr", !.name = n, !.proto = "rtmp", !.esc = WrEscapes(n)] : n \in SeqsUpTo(NameSegs, WrLen)}
           \cup {[Dflt EXCEPT !.kind = "wr", !.name = n, !.proto = "rtsp", !.esc = WrEscapes(n)] : n \in SeqsUpTo(NameSegs, 2)}

HpPaths == {p \in [shape : HpShapes, prefix : HpPrefixes, stream : HpStreams, fname : HpFnames,
                    ext : HpExtM \cup HpExtT, slash : HpSlashes] : HpWellFormed(p) /\ HpDev(p) <= HpMaxDev}
\* flag configuration x secret form x black-listed or not: every guarded form, the unguarded ones that must not matter
HpCtl == {[cfg |-> "hls", form |-> f, listed |-> FALSE] : f \in HpForms}
         \cup {[cfg |-> "all", form |-> f, listed |-> FALSE] : f \in {"absent", "s_cam1"}}
         \cup {[cfg |-> "none", form |-> f, listed |-> FALSE] : f \in {"absent", "wrong"}}
         \cup {[cfg |-> "allbuthls", form |-> "absent", listed |-> FALSE], [cfg |-> "none", form |-> "absent", listed |-> TRUE]}
HpCases == {[Dflt EXCEPT !.kind = "hp", !.cfg = x.cfg, !.form = x.form, !.listed = x.listed, !.hp = p] : x \in HpCtl, p \in HpPaths}
SvCases == {[Dflt EXCEPT !.kind = "sv", !.pd = pd, !.enable = on, !.form = f,
                         !.hp = [shape |-> "live", prefix |-> "live", stream |-> st, fname |-> "lower", ext |-> e, slash |-> sl]] :
              pd \in SvPds, on \in BOOLEAN, f \in SvForms, st \in SvStreams, e \in SvExts, sl \in SvSlashes}

On(k, S) == IF k \in Kinds THEN S ELSE {}
Cases == On("sa", SaCases) \cup On("ra", RaCases) \cup On("kick", KickCases) \cup On("bl", BlCases) \cup On("rd", RdCases)
         \cup On("wr", WrCases) \cup On("hp", HpCases) \cup On("sv", SvCases)

Init == c \in Cases /\ act = "init"
Do == act = "init" /\ act' = "emit" /\ UNCHANGED c
Spec == Init /\ [][Do]_vars
EmitS == act' = "emit" => PrintT("@S@" \o ToJson(c))

---------------------------------------------------------------------------
Sa == c.kind = "sa"
\* a protocol whose flag is off is unaffected, whatever the URL carries
SaUnaffected == (Sa /\ ~Guarded(c.flags, c.pd)) => SaAllowed(c.flags, c.pd, c.form, c.ovr) = SaObs(c.pd, TRUE)
\* nothing observable leaks from a request that is not admitted
SaNoLeak == Sa => \A o \in SaAllowed(c.flags, c.pd, c.form, c.ovr) :
                     (o.resp \/ o.listed \/ o.pub) => (o \in SaObs(c.pd, TRUE) /\ TRUE \in Verdicts(c.flags, c.pd, c.form, c.ovr))
\* the guarded decision depends on the secret only: iff
SaIff == (Sa /\ Guarded(c.flags, c.pd)) =>
           /\ EffForm(c.form, c.ovr) \in AdmitForms => Verdicts(c.flags, c.pd, c.form, c.ovr) = {TRUE}
           /\ EffForm(c.form, c.ovr) \in RejectForms => Verdicts(c.flags, c.pd, c.form, c.ovr) = {FALSE}
\* enabling more flags never admits more
SaMonotone == Sa => \A f \in Flags : Verdicts(c.flags \cup {f}, c.pd, c.form, c.ovr) \subseteq
                                       (Verdicts(c.flags, c.pd, c.form, c.ovr) \cup {FALSE})

Ra == c.kind = "ra" /\ c.enable
LastStep == c.steps[Len(c.steps)]
NIssued == RaIssuedAfter(c.steps, Len(c.steps) - 1, RaIssued0)[LastStep.conn]
RaV == Valid(c.method, LastStep.cred, LastStep.nonce, NIssued)
\* credentials of the other scheme, unknown schemes and missing credentials are never valid;
\* right credentials of the configured scheme (with the nonce of the last challenge) always are
RaSdpIff == Ra => /\ (c.method = 0 /\ LastStep.cred = "basicRight") => RaV = "yes"
                  /\ (c.method = 1 /\ LastStep.cred = "digestRight" /\ LastStep.nonce = "last" /\ NIssued >= 1) => RaV = "yes"
                  /\ (c.method = 1 /\ LastStep.cred \in BasicCreds) => RaV = "no"
                  /\ (c.method = 0 /\ LastStep.cred \in DigestCreds) => RaV = "no"
                  /\ LastStep.cred \in {"none", "bearer"} => RaV = "no"
                  /\ LastStep.nonce \in {"forged", "empty", "otherLive", "otherClosed"} => RaV = "no"
\* a nonce is bound to the connection it was issued to: what another connection was challenged with, or did with
\* its challenge, never changes the verdict
RaBound == Ra => LET own == SelectSeq(SubSeq(c.steps, 1, Len(c.steps) - 1), LAMBDA x : x.conn = LastStep.conn) IN
                  RaV = Valid(c.method, LastStep.cred, LastStep.nonce, RaIssuedAfter(own, Len(own), RaIssued0)[LastStep.conn])

\* the specification never demands an answer from outside the root, and says "nothing" for every
\* request a naive join would answer from outside
RdSound == c.kind = "rd" => /\ RdCanonical(c.req) => Inside(Target(c.req), RootHls)
                            /\ RdEscapes(c.req) => ~RdCanonical(c.req)
                            /\ RdOk(c.req, <<>>) \/ RdCanonical(c.req)
WrSound == c.kind = "wr" => /\ (c.name = <<"name">> => ~WrEscapes(c.name))
                            /\ WrOk(c.name, c.proto, <<>>, <<>>) \/ c.name = <<"name">>
\* the gate of a spelled HLS request: no playlist of a stream without that stream's secret when the flag is on,
\* nothing at all for a listed address, the documented forms unaffected when the flag is off; always satisfiable
HpSound == c.kind = "hp" =>
             LET al == HpAllowed(c.cfg, c.hp, c.form, c.listed) IN
             /\ al # {}
             /\ (HpGuarded(c.cfg) /\ c.form \in {"absent", "wrong"}) => \A o \in al : o.what \notin {"playlist", "record"}
             /\ c.listed => al = {[what |-> "none", stream |-> ""]}
             /\ (~HpGuarded(c.cfg) /\ ~c.listed /\ HpCanon(c.hp)) => al = {[what |-> HpWhat(c.hp), stream |-> c.hp.stream]}
             /\ HpGuarded(c.cfg) => \A o \in al : o.what \in {"playlist", "record"} => o.stream = HpSecretOf(c.form)
SvSound == c.kind = "sv" =>
             /\ (c.enable /\ c.form # "s_cam1") => \A o \in SaObs(c.pd, TRUE) : ~SvOk(c.enable, c.pd, c.hp, c.form, o)
             /\ \E o \in SaObs(c.pd, TRUE) \cup SaObs(c.pd, FALSE) : SvOk(c.enable, c.pd, c.hp, c.form, o)
BlSound == c.kind = "bl" => \A i \in DOMAIN c.probes :
                              LET t == BlTbl(c.dur) IN
                              /\ BlMay(t, "c", c.probes[i]) = {FALSE}
                              /\ BlMay(t, "b", c.probes[i]) = {TRUE}
                              /\ c.probes[i] < c.dur => BlMay(t, "a", c.probes[i]) = {FALSE}
                              /\ c.probes[i] > c.dur => BlMay(t, "a", c.probes[i]) = {TRUE}
=============================================================================

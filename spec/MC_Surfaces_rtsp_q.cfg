SPECIFICATION Spec
CONSTANTS
  Surf = "rtsp"
  Depth = 3
  Level = 1
INVARIANTS Total ClosedIsFinal Bounded
ACTION_CONSTRAINT EmitS
VIEW View

SPECIFICATION Spec
CONSTANTS
  Surf = "udp"
  Depth = 3
  Level = 2
INVARIANTS Total ClosedIsFinal Bounded
ACTION_CONSTRAINT EmitS
VIEW View

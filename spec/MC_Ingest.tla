------------------------------- MODULE MC_Ingest -------------------------------
(* Exhaustive design model for C07.  TLC enumerates: path x codec x audio (codec, clock rate) x    *)
(* every sequence of frame shapes x packetisation class / PS packing / AvPacket framing x SDP with *)
(* or without parameter sets x first sequence number x timestamp region; builds the source stream,  *)
(* the RTP packet plan / PS packing and the design's output (Machine) and checks Conforms; then    *)
(* every arrival order of the RTP packets of the perturbed track inside the reorder window with    *)
(* at most MaxOvt overtakings and one duplicate.  @S@ lines carry the built scenario (once per     *)
(* parameter record), @O@ lines the completed arrival orders.                                     *)
(* Timestamp regions (Reg): where the source clock of a track stands - near 0, 10^9, across 2^31,  *)
(* across 2^32 (wrap of the RTP field, bit 32 of the PS clock, end of the 32-bit RTMP range for    *)
(* customize ms), above 2^32, across 2^33 (wrap of the PS clock), at a Unix-epoch ms value.  The   *)
(* full product of shapes and packings runs in the regions BaseRegs with both tracks in the same   *)
(* region; the streams TsShps x packings TsRtspCls / TsPsPk / TsCustFmt run with every pair of     *)
(* regions (video, audio) of TsRegsRtsp / TsRegsPs / TsRegsCust and the audio clocks TsAudios*.    *)
EXTENDS Ingest

CONSTANTS Paths, Vcs, AudiosRtsp, AudiosOther, MaxV, S0s, BaseRegs, Win, MaxPert, RtspCls, PsPk, CustFmt, ShapeIds,
          TsShpNames, TsRegsRtsp, TsRegsPs, TsRegsCust, TsAudiosRtsp, TsAudiosOther, TsRtspCls, TsPsPk, TsCustFmt, TsS0s

VARIABLES par, n, order, cnt, dup, pert, fin
vars == <<par, n, order, cnt, dup, pert, fin>>

AudioTab == [none     |-> [c |-> "none", r |-> 0, fi |-> 0],
             aac8000  |-> [c |-> "aac", r |-> 8000, fi |-> 11],
             aac16000 |-> [c |-> "aac", r |-> 16000, fi |-> 8],
             aac22050 |-> [c |-> "aac", r |-> 22050, fi |-> 7],
             aac44100 |-> [c |-> "aac", r |-> 44100, fi |-> 4],
             aac48000 |-> [c |-> "aac", r |-> 48000, fi |-> 3],
             aac96000 |-> [c |-> "aac", r |-> 96000, fi |-> 0],
             pcma8000 |-> [c |-> "pcma", r |-> 8000, fi |-> 0],
             pcmu8000 |-> [c |-> "pcmu", r |-> 8000, fi |-> 0],
             opus48000 |-> [c |-> "opus", r |-> 48000, fi |-> 0]]

\* frame shapes; "ps" stands for the codec's parameter sets
Shapes == << <<"ps", "idr">>,
             <<"aud", "ps", "sei", "idr">>,
             <<"ps", "idr", "sei">>,
             <<"idr", "idr">>,
             <<"p">>,
             <<"aud", "p">>,
             <<"sei", "p", "p">>,
             <<"idr">> >>
RECURSIVE Expand(_, _, _)
Expand(vc, sh, i) == IF i > Len(sh) THEN <<>>
                     ELSE (IF sh[i] = "ps" THEN Need(vc) ELSE <<sh[i]>>) \o Expand(vc, sh, i + 1)
ShpSeqs == UNION { [1..k -> ShapeIds] : k \in 1..MaxV }

\* PS packings: PES per video / audio frame (m / ma), RTP packets per pack, PTS on every PES, system header, PSM on
\* every key frame, audio PES joined to the preceding pack, DTS field written (PTS_DTS_flags = 3) with
\* PTS - DTS = dv / da ticks on the video / audio track; ga = AAC (ADTS) frames per audio PES group: the first
\* carries the PTS, the others ride behind it in the same PES payload (cut into ma PES like a single frame: with
\* ma = 2 and no PTS on the second PES, a PES without PTS may begin with a new ADTS frame); tiny = audio frames
\* of 1..4 bytes (ADTS: 8..11 bytes with the header); pph = a pack header in front of EVERY PES of a video frame (one
\* access unit spread over several packs, as senders with a small pack size do)
PsTab == [p1 |-> [m |-> 1, ma |-> 1, c |-> 1, pall |-> TRUE, sys |-> TRUE, psme |-> TRUE, join |-> FALSE, dts |-> FALSE, dv |-> 0, da |-> 0, ga |-> 1, tiny |-> FALSE, pph |-> FALSE],
          p2 |-> [m |-> 2, ma |-> 2, c |-> 1, pall |-> TRUE, sys |-> FALSE, psme |-> FALSE, join |-> FALSE, dts |-> FALSE, dv |-> 0, da |-> 0, ga |-> 1, tiny |-> FALSE, pph |-> FALSE],
          p3 |-> [m |-> 3, ma |-> 2, c |-> 2, pall |-> FALSE, sys |-> TRUE, psme |-> TRUE, join |-> TRUE, dts |-> FALSE, dv |-> 0, da |-> 0, ga |-> 1, tiny |-> FALSE, pph |-> FALSE],
          p4 |-> [m |-> 2, ma |-> 1, c |-> 3, pall |-> FALSE, sys |-> FALSE, psme |-> TRUE, join |-> FALSE, dts |-> FALSE, dv |-> 0, da |-> 0, ga |-> 1, tiny |-> FALSE, pph |-> FALSE],
          p5 |-> [m |-> 1, ma |-> 1, c |-> 2, pall |-> TRUE, sys |-> TRUE, psme |-> FALSE, join |-> TRUE, dts |-> FALSE, dv |-> 0, da |-> 0, ga |-> 1, tiny |-> FALSE, pph |-> FALSE],
          p6 |-> [m |-> 0, ma |-> 1, c |-> 1, pall |-> FALSE, sys |-> TRUE, psme |-> TRUE, join |-> FALSE, dts |-> FALSE, dv |-> 0, da |-> 0, ga |-> 1, tiny |-> FALSE, pph |-> FALSE],
          p7 |-> [m |-> 1, ma |-> 1, c |-> 1, pall |-> TRUE, sys |-> TRUE, psme |-> TRUE, join |-> FALSE, dts |-> TRUE, dv |-> 0, da |-> 0, ga |-> 1, tiny |-> FALSE, pph |-> FALSE],
          p8 |-> [m |-> 2, ma |-> 2, c |-> 2, pall |-> FALSE, sys |-> TRUE, psme |-> TRUE, join |-> TRUE, dts |-> TRUE, dv |-> 3000, da |-> 900, ga |-> 1, tiny |-> FALSE, pph |-> FALSE],
          p9 |-> [m |-> 2, ma |-> 2, c |-> 1, pall |-> TRUE, sys |-> FALSE, psme |-> TRUE, join |-> FALSE, dts |-> TRUE, dv |-> 7200, da |-> 0, ga |-> 1, tiny |-> FALSE, pph |-> FALSE],
          p10 |-> [m |-> 1, ma |-> 1, c |-> 1, pall |-> TRUE, sys |-> TRUE, psme |-> TRUE, join |-> FALSE, dts |-> FALSE, dv |-> 0, da |-> 0, ga |-> 2, tiny |-> FALSE, pph |-> FALSE],
          p11 |-> [m |-> 2, ma |-> 2, c |-> 2, pall |-> FALSE, sys |-> TRUE, psme |-> TRUE, join |-> TRUE, dts |-> TRUE, dv |-> 3000, da |-> 900, ga |-> 3, tiny |-> FALSE, pph |-> FALSE],
          p12 |-> [m |-> 1, ma |-> 1, c |-> 1, pall |-> TRUE, sys |-> TRUE, psme |-> TRUE, join |-> FALSE, dts |-> FALSE, dv |-> 0, da |-> 0, ga |-> 1, tiny |-> TRUE, pph |-> FALSE],
          p13 |-> [m |-> 2, ma |-> 2, c |-> 2, pall |-> FALSE, sys |-> FALSE, psme |-> TRUE, join |-> TRUE, dts |-> TRUE, dv |-> 0, da |-> 0, ga |-> 1, tiny |-> TRUE, pph |-> FALSE],
          p14 |-> [m |-> 3, ma |-> 1, c |-> 3, pall |-> FALSE, sys |-> TRUE, psme |-> FALSE, join |-> FALSE, dts |-> FALSE, dv |-> 0, da |-> 0, ga |-> 3, tiny |-> TRUE, pph |-> FALSE],
          p15 |-> [m |-> 3, ma |-> 1, c |-> 1, pall |-> FALSE, sys |-> TRUE, psme |-> TRUE, join |-> FALSE, dts |-> FALSE, dv |-> 0, da |-> 0, ga |-> 1, tiny |-> FALSE, pph |-> TRUE],
          p16 |-> [m |-> 2, ma |-> 2, c |-> 2, pall |-> TRUE, sys |-> TRUE, psme |-> FALSE, join |-> TRUE, dts |-> TRUE, dv |-> 3000, da |-> 0, ga |-> 1, tiny |-> FALSE, pph |-> TRUE]]

\* timestamp regions: at = the landmark, x = the track crosses it (else it starts there)
Reg == [lo  |-> [at |-> <<0, 0, 0>>, x |-> FALSE],
        g1  |-> [at |-> <<0, 15258, 51712>>, x |-> FALSE],          \* 10^9
        m31 |-> [at |-> <<0, 32768, 0>>, x |-> TRUE],               \* 2^31
        x32 |-> [at |-> <<1, 0, 0>>, x |-> TRUE],                   \* 2^32
        hi  |-> [at |-> <<1, 32768, 0>>, x |-> FALSE],              \* 2^32 + 2^31
        x33 |-> [at |-> <<2, 0, 0>>, x |-> TRUE],                   \* 2^33
        ep  |-> [at |-> <<395, 53221, 26624>>, x |-> FALSE]]        \* 1.7 * 10^12 (Unix ms, 2023)
ShpTab == [s2 |-> <<1, 5>>, s3 |-> <<2, 7, 5>>, s1 |-> <<3>>]
TsShps == {ShpTab[x] : x \in TsShpNames}

\* ra = "same": the audio track is in the video track's region
TsPar(path, aus, vs, sdps, s0s, regs) ==
  [path : {path} \cap Paths, vc : Vcs, au : aus \ {"none"}, shp : TsShps, v : vs, sdp : sdps, s0 : s0s, rv : regs, ra : regs]
  \cup [path : {path} \cap Paths, vc : Vcs, au : aus \cap {"none"}, shp : TsShps, v : vs, sdp : sdps, s0 : s0s, rv : regs, ra : {"same"}]
Params ==
  [path : {"cust"} \cap Paths, vc : Vcs, au : AudiosOther, shp : ShpSeqs, v : CustFmt, sdp : {FALSE}, s0 : {0}, rv : BaseRegs, ra : {"same"}]
  \cup [path : {"rtsp"} \cap Paths, vc : Vcs, au : AudiosRtsp, shp : ShpSeqs, v : RtspCls, sdp : BOOLEAN, s0 : S0s, rv : BaseRegs, ra : {"same"}]
  \cup [path : {"ps"} \cap Paths, vc : Vcs, au : AudiosOther \ {"opus48000"}, shp : ShpSeqs, v : PsPk, sdp : {FALSE}, s0 : S0s, rv : BaseRegs, ra : {"same"}]
  \cup TsPar("cust", TsAudiosOther, TsCustFmt, {FALSE}, {0}, TsRegsCust)
  \cup TsPar("rtsp", TsAudiosRtsp, TsRtspCls, {FALSE}, TsS0s, TsRegsRtsp)
  \cup TsPar("ps", TsAudiosOther \ {"opus48000"}, TsPsPk, {FALSE}, TsS0s, TsRegsPs)

---------------------------------------------------------------------------
VStep(path) == IF path = "cust" THEN 40 ELSE 3600
AStep(path, a) == IF path = "cust" THEN 23 ELSE IF path = "ps" THEN 1920 ELSE IF a.c = "aac" THEN 1024 ELSE a.r \div 50
VSec(path) == IF path = "cust" THEN 1000 ELSE 90000
ASec(path, a) == IF path = "rtsp" THEN a.r ELSE VSec(path)

\* size of unit i of frame j: parameter sets grow by one filler byte on every other frame
USize(k, j, i) == IF k \in ParamKinds THEN 1 + (j % 2) ELSE IF k = "aud" THEN 2 ELSE 7 + 3 * i + j
\* the first frame of a track (its DTS): at the landmark (+ off), or so that the landmark lies half a
\* step before the last real frame
Lead(step, L) == IF L = 1 THEN step \div 2 ELSE ((L - 1) * step) - (step \div 2)
Start(r, step, L, off) == IF Reg[r].x THEN T3SubN(Reg[r].at, Lead(step, L)) ELSE T3AddN(Reg[r].at, off)
DV(p) == IF p.path = "ps" /\ PsTab[p.v].dts THEN PsTab[p.v].dv ELSE 0
DA(p) == IF p.path = "ps" /\ PsTab[p.v].dts THEN PsTab[p.v].da ELSE 0
VStart(p) == Start(p.rv, VStep(p.path), Len(p.shp), 0)
\* ps with AAC: GA frames per audio PES group, one group per video frame; the heads of the groups stand GA frame
\* durations (rounded up to a tick) apart, the riders at their implied times
GA(p) == IF p.path = "ps" /\ AudioTab[p.au].c = "aac" THEN PsTab[p.v].ga ELSE 1
Tiny(p) == p.path = "ps" /\ PsTab[p.v].tiny
AStepF(p) == IF GA(p) = 1 THEN AStep(p.path, AudioTab[p.au])
             ELSE GA(p) * (ImpOff(1, 90000, AudioTab[p.au].r) + 1)
AStartF(p) == Start(IF p.ra = "same" THEN p.rv ELSE p.ra, AStepF(p), Len(p.shp), 777)
ASize(p, idx) == IF Tiny(p) THEN 1 + (idx % 4) ELSE 10 + idx
VFrame(p, j) == LET ks == Expand(p.vc, Shapes[p.shp[j]], 1)
                IN [trk |-> "v", ts |-> T3AddN(VStart(p), DV(p) + (j - 1) * VStep(p.path)), d |-> DV(p), g |-> 0,
                    us |-> [i \in 1..Len(ks) |-> [k |-> ks[i], id |-> (j - 1) * 6 + i, n |-> USize(ks[i], j, i)]]]
\* audio frame x (1..GA) of group j; idx = its position on the track, from 0
AFrame(p, j, x) == LET idx == (j - 1) * GA(p) + (x - 1)
                       head == T3AddN(AStartF(p), DA(p) + (j - 1) * AStepF(p))
                   IN [trk |-> "a", ts |-> T3AddN(head, ImpOff(x - 1, 90000, AudioTab[p.au].r)), d |-> DA(p), g |-> x - 1,
                       us |-> <<[k |-> "au", id |-> 61 + idx, n |-> ASize(p, idx)]>>]
SentV(p, L, x) == [trk |-> "v", ts |-> T3AddN(VStart(p), DV(p) + (L - 1) * VStep(p.path) + x * 2 * VSec(p.path)), d |-> DV(p), g |-> 0,
                   us |-> <<[k |-> "idr", id |-> SentId + x, n |-> 9]>>]
SentA(p, L, x) == [trk |-> "a", ts |-> T3AddN(AStartF(p), DA(p) + (L - 1) * AStepF(p) + x * 2 * ASec(p.path, AudioTab[p.au])), d |-> DA(p), g |-> 0,
                   us |-> <<[k |-> "au", id |-> SentId + 2 + x, n |-> 9]>>]
HasA(p) == p.au # "none"
RECURSIVE Real(_, _)
Real(p, j) == IF j > Len(p.shp) THEN <<>>
              ELSE <<VFrame(p, j)>> \o (IF HasA(p) THEN [x \in 1..GA(p) |-> AFrame(p, j, x)] ELSE <<>>) \o Real(p, j + 1)
Frames(p) == LET L == Len(p.shp) IN
             Real(p, 1) \o <<SentV(p, L, 1)>> \o (IF HasA(p) THEN <<SentA(p, L, 1)>> ELSE <<>>)
                        \o <<SentV(p, L, 2)>> \o (IF HasA(p) THEN <<SentA(p, L, 2)>> ELSE <<>>)

\* RTP packet plan of one frame
Whole(f, idx) == [f |-> f, us |-> idx, i |-> 1, m |-> 1]
RECURSIVE PlanUnits(_, _, _, _)
PlanUnits(fr, f, i, cls) ==
  IF i > Len(fr.us) THEN <<>>
  ELSE (IF cls = "fu" /\ fr.us[i].k \notin (ParamKinds \cup {"aud"}) /\ fr.us[i].id < SentId
        THEN [x \in 1..3 |-> [f |-> f, us |-> <<i>>, i |-> x, m |-> 3]]
        ELSE <<Whole(f, <<i>>)>>) \o PlanUnits(fr, f, i + 1, cls)
PlanFrame(fr, f, cls, ac) ==
  IF fr.trk = "a"
  THEN IF cls = "fu" /\ ac = "aac" /\ fr.us[1].id < SentId
       THEN [x \in 1..2 |-> [f |-> f, us |-> <<1>>, i |-> x, m |-> 2]]
       ELSE <<Whole(f, <<1>>)>>
  ELSE IF cls = "agg" /\ Len(fr.us) >= 2 THEN <<Whole(f, [x \in 1..Len(fr.us) |-> x])>>
  ELSE PlanUnits(fr, f, 1, cls)
RECURSIVE PlanFrom(_, _, _, _)
PlanFrom(frames, f, cls, ac) == IF f > Len(frames) THEN <<>>
                                ELSE PlanFrame(frames[f], f, cls, ac) \o PlanFrom(frames, f + 1, cls, ac)
Plan(p) == IF p.path = "rtsp" THEN PlanFrom(Frames(p), 1, p.v, AudioTab[p.au].c) ELSE <<>>

\* PS packing of every frame
HasKind(fr, ks) == \E i \in 1..Len(fr.us) : fr.us[i].k \in ks
PsPlan(p) ==
  IF p.path # "ps" THEN <<>>
  ELSE LET fs == Frames(p)
           t == PsTab[p.v]
       IN [f \in 1..Len(fs) |->
             [f |-> f, m |-> IF fs[f].trk = "v" THEN t.m ELSE t.ma, c |-> t.c, pall |-> t.pall,
              sys |-> t.sys /\ (f = 1 \/ HasKind(fs[f], {"idr"})),
              psm |-> f = 1 \/ (t.psme /\ HasKind(fs[f], ParamKinds \cup {"idr"})),
              join |-> t.join /\ fs[f].trk = "a" /\ f > 1, dts |-> t.dts, ride |-> fs[f].g > 0,
              pph |-> t.pph /\ fs[f].trk = "v"]]

SdpSets(p) == IF p.sdp THEN [x \in 1..Len(Need(p.vc)) |-> [k |-> Need(p.vc)[x], n |-> 1]] ELSE <<>>
Asc(p) == <<2, AudioTab[p.au].fi, IF AudioTab[p.au].r >= 44100 THEN 2 ELSE 1>>
\* the perturbed packets: rtsp = the packets of one track (video if there is video), ps = all
PTrk(p) == IF p.path = "ps" THEN "all" ELSE "v"
NPert(p) == IF p.path = "rtsp" THEN LET fs == Frames(p) IN Len(SelectSeq(Plan(p), LAMBDA q : fs[q.f].trk = "v"))
            ELSE IF p.path = "ps" THEN LET pp == PsPlan(p)
                                           idx == {f \in 1..Len(pp) : ~pp[f].join /\ ~pp[f].ride}
                                       IN Cardinality(idx) * PsTab[p.v].c
            ELSE 0

Scen(p) == [path |-> p.path, vc |-> p.vc, ac |-> AudioTab[p.au].c, vrate |-> 90000, arate |-> AudioTab[p.au].r,
            asc |-> Asc(p), sdp |-> SdpSets(p), fmt |-> p.v, frames |-> Frames(p), plan |-> Plan(p), ps |-> PsPlan(p),
            s0 |-> p.s0, ptrk |-> PTrk(p), np |-> NPert(p), reg |-> [v |-> p.rv, a |-> p.ra]]
Out(p) == Machine(p.path, p.vc, AudioTab[p.au].c, 90000, AudioTab[p.au].r, Asc(p), SdpSets(p), Frames(p), Plan(p))

---------------------------------------------------------------------------
Got == {i \in 1..n : cnt[i] >= 1}
Init == /\ par \in Params
        /\ n = NPert(par)
        /\ cnt = [i \in 1..n |-> 0] /\ order = <<>> /\ dup = FALSE /\ pert = 0 /\ fin = FALSE
\* perturbations: a packet overtakes older ones inside the window; a packet arrives a second time
\* while it is still inside the window; at most MaxPert perturbations per run
Deliver(i) == /\ ~fin /\ cnt[i] = 0 /\ (order = <<>> => i = 1) /\ i < Adv(Got, 1) + Win
              /\ (i # Adv(Got, 1) => pert < MaxPert)
              /\ pert' = (IF i # Adv(Got, 1) THEN pert + 1 ELSE pert)
              /\ cnt' = [cnt EXCEPT ![i] = 1] /\ order' = Append(order, i)
              /\ UNCHANGED <<par, n, dup, fin>>
Dup(i) == /\ ~fin /\ cnt[i] = 1 /\ ~dup /\ pert < MaxPert /\ i + Win >= Adv(Got, 1)
          /\ dup' = TRUE /\ pert' = pert + 1
          /\ cnt' = [cnt EXCEPT ![i] = 2] /\ order' = Append(order, i)
          /\ UNCHANGED <<par, n, fin>>
Fin == /\ ~fin /\ Got = 1..n /\ fin' = TRUE /\ UNCHANGED <<par, n, order, cnt, dup, pert>>
Next == Fin \/ \E i \in 1..n : Deliver(i) \/ Dup(i)
Spec == Init /\ [][Next]_vars

\* the design conforms to the property on every enumerated stream
DesignConforms ==
  order = <<>> => LET s == Scen(par) IN Conforms(s.path, s.vc, s.ac, s.vrate, s.arate, s.asc, s.sdp, s.frames, Out(par))
EmitS == /\ ((order = <<>> /\ ~fin) => PrintT("@S@" \o ToJson([par |-> par, sc |-> Scen(par)])))
         /\ ((fin' /\ ~fin) => PrintT("@O@" \o ToJson([par |-> par, order |-> order])))
=============================================================================

SPECIFICATION FineFair
CONSTANTS
  Cons = {"s1", "s2"}
  Healthy = {}
  N = 1
  HCap = 64
  Parts = 1
  WsMode = FALSE
  MaxPub = 3
  MaxRead = 2
  MaxStall = 2
  MaxSweep = 0
  MaxLeave = 0
PROPERTY EventuallyClosed

SPECIFICATION FineFair
CONSTANTS
  Cons = {"s1", "s2"}
  Healthy = {}
  Other = {}
  N = 1
  HCap = 64
  Parts = 1
  ElemParts = 1
  WsMode = FALSE
  EnqAcct = FALSE
  HasDeadline = TRUE
  Prime = FALSE
  MaxPub = 2
  MaxRead = 2
  MaxStall = 2
  MaxSweep = 0
  MaxLeave = 0
  MaxPubB = 0
  MaxCmd = 0
PROPERTY EventuallyClosed

SPECIFICATION Spec
CONSTANTS
  Surf = "pst"
  Depth = 2
  Level = 1
INVARIANTS Total ClosedIsFinal Bounded
ACTION_CONSTRAINT EmitS
VIEW View

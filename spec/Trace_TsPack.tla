---------------------------- MODULE Trace_TsPack ----------------------------
(* Trace validation for C09: records cut from the bytes returned by mpegts.Frame.Pack,     *)
(* PackPat and PackPmt by the independent TS reader, decided by the acceptors of TsPack.    *)
EXTENDS TsPack, IOUtils

Trace == ndJsonDeserialize(IOEnv.TRACE)

VARIABLES l, cc, failed
tvars == <<vars, l, cc, failed>>

TraceInit == /\ l = 1 /\ cc = 0 /\ failed = FALSE
             /\ frame = <<>> /\ ccIn = 0 /\ pkts = <<>> /\ act = [name |-> "init"]
             /\ TLCSet(1, 1)
IsEvent(e) == l <= Len(Trace) /\ Trace[l].ev = e /\ l' = l + 1
Dummy == UNCHANGED vars

Reject == /\ failed' = TRUE
          /\ IF failed THEN TRUE ELSE PrintT("@REJ@" \o ToString(l))
          /\ UNCHANGED cc

TraceReset == /\ IsEvent("reset") /\ cc' = Trace[l].cc /\ failed' = FALSE /\ Dummy

TraceFrame ==
  /\ IsEvent("Frame")
  /\ LET e == Trace[l]
     IN IF /\ ~failed
           /\ e.ccIn = cc
           /\ e.size = 188 * Len(e.pkts)
           /\ FrameOK(e.frame, e.ccIn, e.pkts, e.ccOut)
        THEN cc' = e.ccOut /\ failed' = FALSE
        ELSE Reject
  /\ Dummy

TracePsi ==
  /\ IsEvent("Psi")
  /\ LET e == Trace[l]
     IN IF /\ ~failed
           /\ e.size = 188
           /\ IF e.kind = "pat" THEN PatOK(e.pkt, e.sec) ELSE PmtOK(e.pkt, e.sec, e.v, e.a)
        THEN UNCHANGED <<cc, failed>>
        ELSE Reject
  /\ Dummy

TraceNext == TraceReset \/ TraceFrame \/ TracePsi
TraceSpec == TraceInit /\ [][TraceNext]_tvars
HighWater == TLCSet(1, IF l > TLCGet(1) THEN l ELSE TLCGet(1))
Accept == PrintT("@HW@" \o ToString(TLCGet(1)))
=============================================================================

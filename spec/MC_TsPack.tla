---------------------------- MODULE MC_TsPack ----------------------------
EXTENDS TsPack
Q_Len == (1..400) \cup {551, 552, 553, 735, 736, 737}
T_Len == 1..1200
\* every value of the three top bits (bits 32..30 of the 33-bit clock, first limb) occurs: they share a byte with the
\* 4-bit prefix and a marker bit; the last value wraps once lal's 63000-tick delay is added
Q_Pts == { <<0,0,0>>, <<0,2,1000>>, <<1,0,0>>, <<2,5,7>>, <<3,32767,32767>>, <<4,0,1>>, <<5,16384,0>>, <<6,1,32767>>, <<7,0,0>>,
           <<7,32767,32000>> }
Q_Cts == { <<0,0,0>>, <<0,0,3600>> }
=============================================================================

SPECIFICATION TraceSpec
CONSTANTS
  CfgPool = {}
  AvPool = {}
  Kinds = {}
  Classes = {}
  MaxFrames = 0
  MaxEpoch = 0
  TargetLal = FALSE
CONSTRAINT HighWater
POSTCONDITION Accept
CHECK_DEADLOCK FALSE

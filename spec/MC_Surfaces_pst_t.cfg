SPECIFICATION Spec
CONSTANTS
  Surf = "pst"
  Depth = 3
  Level = 2
INVARIANTS Total ClosedIsFinal Bounded
ACTION_CONSTRAINT EmitS
VIEW View

SPECIFICATION GSpec
CONSTANTS
  Cons = {"s1", "s2"}
  Healthy = {"h"}
  N = 2
  HCap = 64
  Parts = 1
  WsMode = FALSE
  MaxPub = 4
  MaxRead = 3
  MaxStall = 2
  MaxSweep = 2
  MaxLeave = 1
INVARIANTS Quiescent QueueBound WholeUnits
VIEW GView
ACTION_CONSTRAINT Emit

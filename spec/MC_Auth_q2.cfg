SPECIFICATION Spec
CONSTANTS
  FlagMode = "edge"
  RdLen = 3
  WrLen = 3
  Durs = {1}
  RaPre = 3
  HpMaxDev = 2
  Kinds = {"ra", "rd"}
INVARIANTS SaUnaffected SaNoLeak SaIff SaMonotone RaSdpIff RaBound RdSound WrSound BlSound HpSound SvSound
ACTION_CONSTRAINT EmitS

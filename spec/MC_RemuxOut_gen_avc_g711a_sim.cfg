SPECIFICATION Spec
CONSTANTS
  VCodec = "avc"
  ACodec = "g711a"
  MaxPub = 9
  MaxVer = 3
  VKinds <- AvcAll
  DtPool <- Dt5
  AscPool = {1, 2, 3}
  ProbeMax = 16
  GopNum = 1
INVARIANTS AllOk EndComplete
ACTION_CONSTRAINT EmitA

SPECIFICATION Spec
CONSTANTS
  Depth = 0
  AlphaName = "full"
  InitRoles = {"none"}
  TypePool = {0, 2, 6, 7, 15, 16, 19, 21, 23, 255}
INVARIANTS NeverCrashes ClosedIsFinal RoleOnce TypeOk
VIEW View
ACTION_CONSTRAINT Emit

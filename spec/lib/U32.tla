------------------------------- MODULE U32 -------------------------------
(* Unsigned two-limb arithmetic.  A value is <<hi, lo>> with 0 <= hi, lo < LimbB.          *)
(* Production: LimbB = 65536 (32-bit values; TLC integers are 32-bit signed and overflow   *)
(* is an error).  Scaled design models use LimbB = 4 (values 0..15) so that whole ranges   *)
(* are enumerated.                                                                          *)
EXTENDS Integers
CONSTANT LimbB

U32Set == (0..(LimbB-1)) \X (0..(LimbB-1))
IsU32(a) == /\ a[1] \in 0..(LimbB-1) /\ a[2] \in 0..(LimbB-1)
UZero == <<0, 0>>
UOfInt(n) == <<(n \div LimbB) % LimbB, n % LimbB>>        \* n must fit a TLC integer
UAdd(a, b) == LET lo == a[2] + b[2]
                  hi == a[1] + b[1] + (lo \div LimbB)
              IN  <<hi % LimbB, lo % LimbB>>
USub(a, b) == LET lo == a[2] - b[2]
                  br == IF lo < 0 THEN 1 ELSE 0
                  hi == a[1] - b[1] - br
              IN  <<(hi + LimbB) % LimbB, (lo + LimbB) % LimbB>>
ULt(a, b) == a[1] < b[1] \/ (a[1] = b[1] /\ a[2] < b[2])
ULe(a, b) == a = b \/ ULt(a, b)
UGe(a, b) == ~ULt(a, b)
UGt(a, b) == ULt(b, a)
UMin(a, b) == IF ULt(a, b) THEN a ELSE b
=============================================================================

---------------------------- MODULE Trace_Fanout ----------------------------
(* Trace validation for C01 / C02 (RTMP, HTTP-FLV, WebSocket-FLV, FLV record) and the start-clean *)
(* clause of C16: what every consumer of a real logic.Group received after each critical section, *)
(* projected to message ids, must be exactly what the specification predicts; `bad` lists byte-    *)
(* level differences (payload, timestamp, header normalisation, metadata form) and must be empty.  *)
EXTENDS Fanout, IOUtils

Trace == ndJsonDeserialize(IOEnv.TRACE)
VARIABLES l, failed
tvars == <<vars, l, failed>>

TraceInit == Init /\ l = 1 /\ failed = FALSE /\ TLCSet(1, 1)
IsEvent(e) == l <= Len(Trace) /\ Trace[l].ev = e /\ l' = l + 1
Reject == /\ failed' = TRUE
          /\ IF failed THEN TRUE ELSE PrintT("@REJ@" \o ToString(l))
          /\ UNCHANGED vars

TraceReset ==
  /\ IsEvent("reset")
  /\ live' = FALSE /\ epoch' = 0 /\ next' = 1 /\ hdr' = [v |-> 0, a |-> 0] /\ nver' = 0 /\ statV' = FALSE
  /\ pubs' = <<>> /\ cacheR' = EmptyCache /\ cacheF' = EmptyCache /\ mw' = <<>>
  /\ sub' = [c \in Subs |-> SubInit] /\ rec' = <<>> /\ act' = [name |-> "init"]
  /\ failed' = FALSE

TracePubArrive ==
  /\ IsEvent("PubArrive")
  /\ IF ~failed /\ ~live /\ Trace[l].ok THEN PubArrive /\ failed' = FALSE ELSE Reject

TracePubLeave ==
  /\ IsEvent("PubLeave")
  /\ LET e == Trace[l]
     IN IF /\ ~failed /\ live
           /\ e.bad = <<>>
           /\ e.del = PredLeaveDel
           /\ (Record => e.rec = Ids(rec))
        THEN PubLeave /\ failed' = FALSE
        ELSE Reject

TraceJoin ==
  /\ IsEvent("Join")
  /\ LET c == Trace[l].c
     IN IF ~failed /\ c \in Subs /\ JoinOk(c) /\ ("ok" \in DOMAIN Trace[l] => Trace[l].ok)   \* (push target: the attempt existed and attached)
        THEN Join(c) /\ failed' = FALSE ELSE Reject

TraceLeave ==
  /\ IsEvent("Leave")
  /\ LET c == Trace[l].c IN IF ~failed /\ c \in Subs /\ sub[c].in THEN Leave(c) /\ failed' = FALSE ELSE Reject

TracePublish ==
  /\ IsEvent("Publish")
  /\ LET e == Trace[l]
         m == e.m
         newver == (m.t = "vsh" /\ m.hv # hdr.v) \/ (m.t = "ash" /\ m.ha # hdr.a)
     IN IF /\ ~failed /\ live
           /\ m.id = next
           /\ e.bad = <<>>
           /\ e.del = PredDel(m.t, m.sz, newver)
        THEN PubStep(m.t, m.sz, newver) /\ failed' = FALSE
        ELSE Reject

TraceNext == TraceReset \/ TracePubArrive \/ TracePubLeave \/ TraceJoin \/ TraceLeave \/ TracePublish
TraceSpec == TraceInit /\ [][TraceNext]_tvars
HighWater == TLCSet(1, IF l > TLCGet(1) THEN l ELSE TLCGet(1))
Accept == PrintT("@HW@" \o ToString(TLCGet(1)))
=============================================================================

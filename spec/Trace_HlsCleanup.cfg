SPECIFICATION TraceSpec
CONSTANTS
  Modes = {0, 1, 2}
  MaxEp = 1000
  MaxGrp = 1000
  MaxFeed = 1000
  MaxAge = 1000
  MaxPending = 1000
  Capture = FALSE
  FragNum = 2
CONSTRAINT HighWater
POSTCONDITION Accept
CHECK_DEADLOCK FALSE

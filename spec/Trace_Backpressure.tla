------------------------- MODULE Trace_Backpressure -------------------------
(* Trace validation for C15.  The trace is what the gated connections of real rtmp / httpflv /     *)
(* httpts sub sessions showed after every call into a real logic.Group (driver "stall"): per        *)
(* consumer the part blocked in the socket write (infl), the parts that reached the consumer since  *)
(* the previous event (wire), whether the connection was closed; for a publish also whether the     *)
(* call blocked, how long it took and how long the healthy consumer waited for its data.  The parts *)
(* the healthy consumer h was handed during a call are the units of that call (every consumer of    *)
(* the protocol is handed the same buffers).  The specification predicts every observation with the *)
(* call-level operators of Backpressure and demands FramingOk of every predicted state; at the end  *)
(* every connected consumer reads all that is queued and the projection of its complete byte stream *)
(* by the independent protocol readers (ids, left, bad) must be that of the predicted wire.         *)
EXTENDS Backpressure, IOUtils

Trace == ndJsonDeserialize(IOEnv.TRACE)
VARIABLES l, failed, skip, sc, l0, bound
tvars == <<vars, l, failed, skip, sc, l0, bound>>
H == CHOOSE h \in Healthy : TRUE

TraceInit == Init /\ l = 1 /\ failed = FALSE /\ skip = FALSE /\ sc = 0 /\ l0 = 1 /\ bound = 0 /\ TLCSet(1, 1)
IsEvent(e) == l <= Len(Trace) /\ Trace[l].ev = e /\ l' = l + 1
Keep == UNCHANGED <<sc, l0, bound>>
Reject(why) == /\ failed' = TRUE /\ skip' = skip
               /\ IF failed THEN TRUE
                  ELSE /\ PrintT("@REJ@" \o ToString(l))
                       /\ PrintT("@WHY@" \o ToString(sc) \o ":" \o ToString(l - l0) \o ":" \o why)
               /\ UNCHANGED vars /\ Keep
Pass == UNCHANGED <<vars, failed, skip>> /\ Keep
\* the outcome of this step is hidden in a queue (EnqRacy) or its units are unknown: the rest of the
\* scenario is not judged
SkipRest(why) == /\ skip' = TRUE /\ failed' = failed /\ PrintT("@SKIP@" \o ToString(sc) \o ":" \o why)
                 /\ UNCHANGED vars /\ Keep
Step(nxt) == /\ con' = nxt /\ failed' = FALSE /\ skip' = skip /\ Keep
             /\ UNCHANGED <<cap, pf, npub, pend, cnt, act>>

Delta(old, new) == SubSeq(new.wire, Len(old.wire) + 1, Len(new.wire))
Infl(cs) == IF cs.fl = <<>> THEN <<>> ELSE <<cs.fl[1]>>
ObsOk(e, nxt) == \A c \in All : /\ e.infl[c] = Infl(nxt[c])
                                /\ e.wire[c] = Delta(con[c], nxt[c])
                                /\ e.closed[c] = nxt[c].closed
AllFraming(nxt) == \A c \in All : FramingOk(nxt[c], pf.ws)
\* why a predicted step is not what was observed (first reason that applies)
\* answers of a session to its consumer (ids from ReplyBase on) that are not what was enqueued
Rep(s) == SelectSeq(s, LAMBDA p : p.id >= ReplyBase)
ReplyDiff(e, nxt) == \E c \in All : Rep(Infl(nxt[c]) \o Delta(con[c], nxt[c])) # Rep(e.infl[c] \o e.wire[c])
\* a consumer that had to be disconnected by this step is still connected
StillThere(e, nxt) == \E c \in All : nxt[c].closed /\ ~e.closed[c]
Judge(e, nxt) == IF ~ObsOk(e, nxt) THEN (IF ReplyDiff(e, nxt) THEN "ReplyAltered"
                                          ELSE IF StillThere(e, nxt) THEN "NotDisconnected" ELSE "Mismatch")
                 ELSE IF ~AllFraming(nxt) THEN "WholeUnits" ELSE "ok"
Do(e, nxt) == LET j == Judge(e, nxt) IN IF j = "ok" THEN Step(nxt) ELSE Reject(j)

TraceReset ==
  /\ IsEvent("reset")
  /\ con' = [c \in All |-> ConsInit]
  /\ cap' = [c \in All |-> IF c \in Cons THEN Trace[l].n ELSE HCap]
  /\ pf' = [ws |-> Trace[l].ws, enq |-> Trace[l].enq, dl |-> Trace[l].dl, two |-> Trace[l].two] /\ npub' = 0 /\ pend' = <<>> /\ cnt' = CntInit
  /\ act' = [name |-> "init"]
  /\ failed' = FALSE /\ skip' = FALSE /\ sc' = Trace[l].sc /\ l0' = l /\ bound' = Trace[l].boundUs

\* the parts a healthy consumer was handed during the call, grouped into queue elements (el = sizes)
RECURSIVE Group(_, _)
Group(parts, sizes) == IF sizes = <<>> THEN <<>>
                       ELSE <<SubSeq(parts, 1, sizes[1])>> \o Group(SubSeq(parts, sizes[1] + 1, Len(parts)), Tail(sizes))
Units(e, h) == Group(e.wire[h], e.el[h])
\* a burst of enqueued elements E meets the consumers in T; before the call the driver may have kept the
\* writer of a stalled idle consumer busy with a null unit of its own (primed)
Burst2(e, EA, EB) ==
  LET pr(c) == IF c \in Cons THEN e.primed[c] ELSE <<>>
      E(c) == IF c \in Other THEN EB ELSE EA
      cn == [c \in All |-> IF pr(c) # <<>> THEN PrimeC(con[c], pr(c)) ELSE con[c]]
      nxt == [c \in All |-> Enq(cn[c], cap[c], E(c), e.wire[c], TRUE)]
  IN IF \E c \in Cons : pr(c) # <<>> /\ (~NeedsPrime(con[c]) \/ pr(c)[1].id # 0) THEN Reject("Mismatch")
     ELSE IF \E c \in All : EnqRacy(cn[c], cap[c], E(c)) THEN SkipRest("racy")
     ELSE IF \E c \in All : EnqObserved(cn[c], cap[c], E(c)) /\ ~LegalAcc(e.wire[c], E(c), cap[c]) THEN Reject("IllegalDrop")
     ELSE Do(e, nxt)
HB == CHOOSE o \in Other : TRUE

\* attaching the sessions writes the protocol preamble
TraceJoin == /\ IsEvent("Join")
             /\ IF skip \/ failed THEN Pass
                ELSE IF Trace[l].lost # "" THEN Reject("ReplyLost")   \* an answer during setup was dropped, the session hung up
                ELSE Burst2(Trace[l], Units(Trace[l], H), Units(Trace[l], HB))

\* consumer c sends a request (the healthy consumer sends the same one and shows the answer R): the answer is ONE
\* element, it is the answer to this request, and it meets c's queue like any other unit; if it cannot be queued
\* the session hangs up
ReplyId(r) == (IF r.k = "ping" THEN 1 ELSE IF r.k = "cs" THEN 2 ELSE 3) * ReplyBase + r.v
TraceCmd ==
  /\ IsEvent("Cmd")
  /\ LET e == Trace[l] c == e.c
         R == Units(e, H)
         nxt == [con EXCEPT ![c] = ReplyC(@, cap[c], R, e.wire[c]), ![H] = ReplyC(@, cap[H], R, e.wire[H])]
     IN IF skip \/ failed THEN Pass
        ELSE IF e.blocked THEN Reject("NoBlocking")
        ELSE IF IdsOf(Flat(R)) # <<ReplyId(e.req)>> THEN Reject("ReplyAltered")
        ELSE IF Len(R) # 1 THEN Reject("ReplySplit")
        ELSE Do(e, nxt)

TracePublish ==
  /\ IsEvent("Publish")
  /\ LET e == Trace[l] IN
     IF skip \/ failed THEN Pass
     ELSE IF e.blocked THEN Reject("NoBlocking")
     ELSE IF e.callUs > bound \/ e.latUs > bound THEN Reject("Latency")
     ELSE IF con[H].closed /\ \E c \in Cons : ~con[c].closed THEN SkipRest("healthy consumer gone")
     ELSE Burst2(e, Units(e, H), <<>>)

TraceStall == /\ IsEvent("Stall")
              /\ LET e == Trace[l] c == e.c
                     st == IF con[c].closed THEN con[c] ELSE [con[c] EXCEPT !.open = FALSE]
                     pr == e.primed[c]
                 IN IF skip \/ failed THEN Pass
                    ELSE IF pr # <<>> /\ (~NeedsPrime(st) \/ pr[1].id # 0) THEN Reject("Mismatch")
                    ELSE Do(e, [con EXCEPT ![c] = IF pr # <<>> THEN PrimeC(st, pr) ELSE st])

TraceResume == /\ IsEvent("Resume")
               /\ LET e == Trace[l] c == e.c IN
                  IF skip \/ failed THEN Pass
                  ELSE Do(e, [con EXCEPT ![c] = IF @.closed THEN @ ELSE ResumeC(@)])

TraceRead == /\ IsEvent("Read")
             /\ LET e == Trace[l] c == e.c
                    can == ~con[c].closed /\ ~con[c].open /\ con[c].fl # <<>>
                IN IF skip \/ failed THEN Pass
                   ELSE IF e.released # can THEN Reject("Mismatch")
                   ELSE Do(e, [con EXCEPT ![c] = IF can THEN ReadOne(@) ELSE @])

\* the write deadline of the write in flight passes: a deadline must have been armed for it and the
\* connection is closed
TraceFire == /\ IsEvent("Fire")
             /\ LET e == Trace[l] c == e.c
                    can == ~con[c].closed /\ ~con[c].open /\ con[c].fl # <<>>
                IN IF skip \/ failed THEN Pass
                   ELSE IF e.had # can THEN Reject("Mismatch")
                   ELSE IF can /\ pf.dl /\ ~e.armed THEN Reject("NoWriteDeadline")
                   ELSE Do(e, [con EXCEPT ![c] = IF can /\ e.armed THEN CutC(@) ELSE @])

\* calls that run under Group.mutex must return whatever the consumers do
TraceSweep == /\ IsEvent("Sweep")
              /\ IF skip \/ failed THEN Pass
                 ELSE IF Trace[l].blocked THEN Reject("NoBlocking")
                 ELSE Do(Trace[l], [c \in All |-> IF c \in Other /\ ~pf.two THEN con[c] ELSE SweepC(con[c])])

\* the publisher leaves / a publisher arrives: the call returns, and whatever it hands to the consumers
\* (seen at the healthy one) meets their queues like any other burst
TracePubLeave == /\ IsEvent("PubLeave")
                 /\ LET e == Trace[l] IN
                    IF skip \/ failed THEN Pass
                    ELSE IF e.blocked THEN Reject("NoBlocking")
                    ELSE IF con[H].closed /\ \E c \in Cons : ~con[c].closed THEN SkipRest("healthy consumer gone")
                    ELSE Burst2(e, Units(e, H), <<>>)
TracePubArrive == /\ IsEvent("PubArrive")
                  /\ LET e == Trace[l] IN
                     IF skip \/ failed THEN Pass
                     ELSE IF e.blocked THEN Reject("NoBlocking")
                     ELSE IF ~e.ok THEN Reject("PubArrive")
                     ELSE IF con[H].closed /\ \E c \in Cons : ~con[c].closed THEN SkipRest("healthy consumer gone")
                     ELSE Burst2(e, Units(e, H), <<>>)

\* the other stream: its publisher and its consumer are served whatever the consumers of this one do
TracePublishB ==
  /\ IsEvent("PublishB")
  /\ LET e == Trace[l] IN
     IF skip \/ failed THEN Pass
     ELSE IF e.blocked THEN Reject("NoBlocking")
     ELSE IF e.callUs > bound \/ e.latUs > bound THEN Reject("Latency")
     ELSE Burst2(e, <<>>, Units(e, HB))
\* a call that looks at every group under the ServerManager lock
TraceStat == /\ IsEvent("Stat")
             /\ IF skip \/ failed THEN Pass
                ELSE IF Trace[l].blocked THEN Reject("NoBlocking")
                ELSE Burst2(Trace[l], <<>>, <<>>)

\* consumers on real TCP connections (driver file stall_tcp.go): what the kernel buffers is not modelled; judged are
\* the duration of every call into lal and of the delivery to the healthy consumer (NoBlocking, "small bound": closing
\* or otherwise touching the socket of a stalled consumer happens under Group.mutex), and that the stalled consumers,
\* once nothing more is taken for them (saturated), are disconnected by the second sweep
TraceTcp ==
  /\ IsEvent("Tcp")
  /\ LET e == Trace[l] IN
     IF skip \/ failed THEN Pass
     ELSE IF e.callUs > bound \/ e.latUs > bound THEN Reject("Latency")
     \* (the healthy consumer of these real-time scenarios is a goroutine of the driver reading a loopback socket: when the
     \*  machine did not run it between two sweeps lal has disconnected it like any idle consumer - nothing left to judge)
     ELSE IF "hgone" \in DOMAIN e /\ e.hgone /\ e.step \notin {"kick", "publish3"} THEN SkipRest("healthy consumer gone")
     ELSE IF ~e.gotData THEN Reject("HealthyStarved")
     ELSE IF e.step = "publish2" /\ e.saturated /\ e.departed < e.stalled THEN Reject("NotDisconnected")
     ELSE Pass

\* the consumer sends something the session does not answer (an RTCP receiver report): nothing changes - in particular a
\* consumer that takes nothing is disconnected by the sweep whatever it sends
TraceRR == /\ IsEvent("RR")
           /\ IF skip \/ failed THEN Pass
              ELSE IF Trace[l].blocked THEN Reject("NoBlocking")
              ELSE Do(Trace[l], con)

TraceDrain ==
  /\ IsEvent("Drain")
  /\ LET e == Trace[l]
         nxt == [c \in All |-> IF con[c].closed THEN con[c] ELSE ResumeC(con[c])]
         cut(c) == nxt[c].closed /\ ~Whole(nxt[c].wire, pf.ws)
     IN IF skip \/ failed THEN Pass
        ELSE IF Judge(e, nxt) # "ok" THEN Reject(Judge(e, nxt))
        ELSE IF \E c \in All :
                  IF cut(c)     \* cut inside a unit: the readers may or may not report the unit under way
                    THEN /\ e.ids[c] # IdsOf(nxt[c].wire)
                         /\ e.ids[c] # Append(IdsOf(nxt[c].wire), nxt[c].wire[Len(nxt[c].wire)].id)
                    ELSE e.ids[c] # IdsOf(nxt[c].wire) \/ e.bad[c] # <<>> \/ e.left[c] # 0
               THEN Reject("StreamProjection")
        ELSE Step(nxt)

TraceNext == \/ TraceReset \/ TracePubArrive \/ TracePubLeave \/ TraceJoin \/ TracePublish \/ TraceStall \/ TraceResume
             \/ TraceRead \/ TraceFire \/ TraceSweep \/ TraceDrain \/ TracePublishB \/ TraceStat \/ TraceCmd \/ TraceTcp \/ TraceRR
TraceSpec == TraceInit /\ [][TraceNext]_tvars
HighWater == TLCSet(1, IF l > TLCGet(1) THEN l ELSE TLCGet(1))
Accept == PrintT("@HW@" \o ToString(TLCGet(1)))
=============================================================================

SPECIFICATION Spec
CONSTANTS
  VCodec = "hevc"
  ACodec = "opus"
  MaxPub = 9
  MaxVer = 3
  VKinds <- HevcAll
  DtPool <- Dt5
  AscPool = {1, 2, 3}
  ProbeMax = 16
  GopNum = 1
  TJoin = TRUE
  RJoin = TRUE
  RMut = "none"
INVARIANTS AllOk EndComplete RAllOk REndComplete
ACTION_CONSTRAINT EmitA

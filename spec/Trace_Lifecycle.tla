---------------------------- MODULE Trace_Lifecycle ----------------------------
(* Trace validation for C03 / C16 / C17: after every critical section of a real ServerManager the  *)
(* return code, the notifications it emitted, the stream-hook callbacks, the number of relay-pull   *)
(* connection attempts seen by the origin and the sessions listed by the stat API must be what the  *)
(* specification predicts.                                                                          *)
EXTENDS Lifecycle, IOUtils
Neg1 == -1
\* components of the per-input pipeline the driver's configuration enables (sorted), C16
PipeNone == <<>>
PipeHook == <<"hook">>
PipeAll == <<"hls", "hook", "recflv", "rects", "ts">>
CONSTANT PipeComps

Trace == ndJsonDeserialize(IOEnv.TRACE)
VARIABLES l, failed,
          npub      \* (trace only) media frames the accepted input has published since it was accepted: every Probe of the
                    \* accepted input is one AAC frame
tvars == <<vars, l, failed, npub>>

TraceInit == Init /\ l = 1 /\ failed = FALSE /\ npub = 0 /\ TLCSet(1, 1)

TraceReset ==
  /\ l <= Len(Trace) /\ Trace[l].ev = "reset" /\ l' = l + 1
  /\ grp' = FALSE /\ inp' = "" /\ owner' = ""
  /\ ss' = [x \in Sessions |-> "idle"] /\ closed' = [x \in Sessions |-> FALSE]
  /\ nh' = [x \in Sessions |-> "none"]
  /\ pull' = PullInit /\ clock' = 0 /\ nticks' = 0 /\ down' = FALSE /\ act' = [name |-> "init"]
  /\ push' = [t \in PushTargets |-> PIdle] /\ patt' = 0
  /\ idl' = [x \in Sessions |-> "new"] /\ nsweeps' = 0
  /\ pl' = [x \in Players |-> PlIdle]
  /\ failed' = FALSE /\ npub' = 0

PushRest == patt' = patt /\ UNCHANGED <<grp, inp, owner, ss, closed, nh, pull, clock, nticks>>
IsPushEv(n) == n \in {"PushOk", "PushFail", "PushEnd"}
IsPlayerEv(n) == n \in {"PlayerAsk", "PlayerBye"}

Do(name, e) ==
  CASE name = "NewPub"  -> NewPub(e.x)
    [] name = "DelPub"  -> DelPub(e.x)
    [] name = "AddCust" -> AddCust(e.x)
    [] name = "DelCust" -> DelCust(e.x)
    [] name = "StartPs" -> StartPs(e.x)
    [] name = "NewSub"  -> NewSub(e.x)
    [] name = "DelSub"  -> DelSub(e.x)
    [] name = "HlsOpen"   -> HlsOpen(e.x)
    [] name = "HlsPoll"   -> HlsPoll(e.x) /\ act'.how = e.how
    [] name = "HlsExpire" -> HlsExpire(e.x)
    [] name = "HlsLinger" -> HlsLinger
    [] name = "HlsBlacklist" -> HlsBlacklist(e.x)
    [] name = "PlayerAsk" -> PlayerAsk(e.x)
    [] name = "PlayerBye" -> PlayerBye(e.x)
    [] name = "Kick"    -> Kick(e.x)
    [] name = "Probe"   -> Probe(e.x)
    [] name = "Tick"    -> Tick
    [] name = "StartPull" -> StartPull
    [] name = "StopPull"  -> StopPull
    [] name = "KickPull"  -> KickPull
    [] name = "KickStale" -> KickStale
    [] name = "PullOk"    -> PullOk
    [] name = "PullFail"  -> PullFail
    [] name = "PullEnd"   -> PullEnd
    [] name = "Advance"   -> Advance
    [] name = "ProbePull" -> ProbePull
    [] name = "Shutdown"  -> Shutdown
    [] name = "PushOk"    -> PushOk(e.x) /\ PushRest
    [] name = "PushFail"  -> PushFail(e.x) /\ PushRest
    [] name = "PushEnd"   -> PushEnd(e.x) /\ PushRest
    [] name = "Sweep"     -> Sweep
    [] name = "KeepAlive" -> KeepAlive(e.x)
    [] name = "Describe"  -> Describe /\ act'.k = e.k
    [] name = "Misuse"    -> Misuse(e.x) /\ act'.how = e.how

\* C03 StatOnlyAttached: the stat API lists exactly the attached network / GB28181 input and the attached subscribers
\* (HLS sessions among them), and a relay pull session exactly while it is attached
Listed(i, s) == (IF i \in NetPubs \cup PsPubs THEN {i} ELSE {}) \cup {x \in AllSubs : s[x] = "in"}
SeqSet(q) == {q[k] : k \in 1..Len(q)}

\* the observation of the step is the model's.  One thing the model does not track: a subscriber that joins while the accepted
\* input is a pull from an RTSP origin finds a stream that has announced video (the description became a video sequence header)
\* and waits for a key frame, which the audio probes of the driver never are - so a probe of such a pull that the model forwards
\* may have reached nobody (C02's start-decodable gate; subscribers that were attached before the description do get it).  The
\* other direction is judged: nothing is forwarded unless a subscriber is attached.
ObsOk(e) ==
  IF e.ev = "ProbePull" /\ PullHdrMsgs > 0 /\ act'.obs.fwd /\ ~e.obs.fwd
    THEN e.obs = [act'.obs EXCEPT !.fwd = FALSE, !.ret = IF act'.obs.hook # <<>> THEN "ok" ELSE "rejected"]
    ELSE act'.obs = e.obs

TraceStep ==
  /\ l <= Len(Trace) /\ Trace[l].ev \notin {"reset", "Leak", "Died"} /\ l' = l + 1
  /\ LET e == Trace[l] IN
     IF failed THEN UNCHANGED vars /\ failed' = failed /\ npub' = npub
     ELSE /\ Do(e.ev, e)
          /\ npub' = IF owner' # owner THEN 0
                     ELSE IF (e.ev = "Probe" /\ inp = e.x) \/ e.ev = "ProbePull" THEN npub + 1 ELSE npub
          /\ (e.ev # "Shutdown" => down' = down)
          /\ ((~IsPushEv(e.ev) /\ ~IsPlayerEv(e.ev) /\ e.ev \notin {"Shutdown", "Sweep"}) => (PushFx /\ IdlFx /\ PlayFx /\ nsweeps' = nsweeps))
          /\ ((IsPushEv(e.ev) \/ e.ev = "Shutdown") => UNCHANGED <<idl, nsweeps, pl>>)
          /\ (IsPlayerEv(e.ev) => UNCHANGED <<push, patt, idl, nsweeps>>)
          /\ (e.ev = "Sweep" => UNCHANGED pl)
          /\ LET good == /\ ObsOk(e)
                         /\ ("pipe" \in DOMAIN e => e.pipe = (IF owner' = "" THEN <<>> ELSE PipeComps))
                         /\ ("filesOk" \in DOMAIN e => e.filesOk)
                         \* C16: when the input ends, every frame it published is in the TS recording, in the HLS segments and in
                         \* the FLV recording of that publication (also when it ends inside the remuxer's probing stage)
                         /\ (("media" \in DOMAIN e /\ owner # "" /\ owner' = "") =>
                                /\ e.media.ts = npub /\ e.media.flv = npub
                                \* (lal opens an HLS fragment at a video key frame once the stream has announced video: the pull
                                \*  from an RTSP origin did - the SDP became a video header - and the probes carry audio only)
                                /\ ((owner = "pull" /\ PullHdrMsgs > 0) \/ e.media.hls = npub))
                         /\ ("pa" \in DOMAIN e => e.pa = patt' /\ e.pn = NAtt(push'))   \* push attempts seen / sessions attached
                         /\ ("orph" \in DOMAIN e => e.orph = 0)   \* connections orphaned by the removal of the group are closed when they complete
                         /\ ("plen" \in DOMAIN e => e.plen = act'.plen)                   \* URL parameters forwarded in full
                         \* C03: whose description every RTSP player holds after the step ("" = none: not asked, parked, gone)
                         /\ ("desc" \in DOMAIN e => \A x \in Players : e.desc[x] = pl'[x].d)
                         /\ (("stat" \in DOMAIN e /\ ~down') =>     \* (after a shutdown the listing is moot)
                               /\ e.stat.exists = grp'
                               /\ (grp' => SeqSet(e.stat.listed) = Listed(inp', ss') \cup {x \in Players : pl'[x].s \in {"parked", "got"}})
                               /\ ("pull" \in DOMAIN e.stat => e.stat.pull = (inp' = "pull"))   \* StatPull: the attached pull session, and only that
                               /\ Len(e.stat.listed) = Cardinality(SeqSet(e.stat.listed)))
             IN /\ failed' = ~good
                /\ IF good THEN TRUE ELSE PrintT("@REJ@" \o ToString(l))

\* C16 ResourcesReturn: goroutines and descriptors measured after n1 and after n2 > n1 publish/unpublish
\* cycles with every output enabled and all sessions gone: no growth (small slack for the runtime)
TraceLeak ==
  /\ l <= Len(Trace) /\ Trace[l].ev = "Leak" /\ l' = l + 1
  /\ LET e == Trace[l]
         good == e.g2 - e.g1 <= 2 /\ e.fd2 - e.fd1 <= 2 /\ e.n2 > e.n1
     IN /\ failed' = failed /\ UNCHANGED <<vars, npub>>
        /\ IF good THEN TRUE ELSE PrintT("@REJ@" \o ToString(l))

\* the process serving the scenario died (a panic in a goroutine lal owns): no behaviour of the model
TraceDied ==
  /\ l <= Len(Trace) /\ Trace[l].ev = "Died" /\ l' = l + 1
  /\ failed' = TRUE /\ UNCHANGED <<vars, npub>>
  /\ PrintT("@REJ@" \o ToString(l))

TraceNext == TraceReset \/ TraceStep \/ TraceLeak \/ TraceDied
TraceSpec == TraceInit /\ [][TraceNext]_tvars
HighWater == TLCSet(1, IF l > TLCGet(1) THEN l ELSE TLCGet(1))
Accept == PrintT("@HW@" \o ToString(TLCGet(1)))
=============================================================================

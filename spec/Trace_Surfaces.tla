---------------------------- MODULE Trace_Surfaces ----------------------------
(* Trace validation for C13.  One JSON line per event, many scenarios concatenated:              *)
(*   reset {sc, surf, cfg, steps}      a scenario starts (fresh sessions on the same server)     *)
(*   step  {i, el, obs}                the peer sent element el (= steps[i]) and saw obs =        *)
(*                                     [codes, alive, panic, note]                               *)
(*   end   {died, confirmed, panic, second, bystander, done, crash, frame, note, res}            *)
(*         res: what the client session call returned (lal as client), "n/a" elsewhere            *)
(* A line the specification does not allow is reported (@REJ@) and the rest of that scenario is   *)
(* skipped.  The process must not have died, no server loop may have recovered a panic, every     *)
(* step must have been answered as Surfaces.Expect allows, the steps executed must be all steps   *)
(* or end with the session closed, the bystander and a second well-formed session are served.     *)
EXTENDS Surfaces, IOUtils

Trace == ndJsonDeserialize(IOEnv.TRACE)

VARIABLES l, surf, cfg, steps, k, st, open, failed
tvars == <<l, surf, cfg, steps, k, st, open, failed>>

TraceInit == /\ l = 1 /\ surf = "none" /\ cfg = [x |-> "-"] /\ steps = <<>> /\ k = 0 /\ st = RtspInit /\ open = TRUE /\ failed = FALSE
             /\ TLCSet(1, 1)
IsEvent(e) == l <= Len(Trace) /\ Trace[l].ev = e /\ l' = l + 1

Reject == /\ failed' = TRUE
          /\ IF failed THEN TRUE ELSE PrintT("@REJ@" \o ToString(l))
          /\ UNCHANGED <<surf, cfg, steps, k, st, open>>

TraceReset == /\ IsEvent("reset")
              /\ surf' = Trace[l].surf /\ cfg' = Trace[l].cfg /\ steps' = Trace[l].steps /\ k' = 0 /\ st' = RtspInit /\ open' = TRUE
              /\ failed' = FALSE

TraceStep ==
  /\ IsEvent("step")
  /\ LET e == Trace[l]
         first == IF Len(steps) > 0 THEN steps[1] ELSE GoodSdp
     IN IF /\ ~failed /\ open
           /\ e.i = k + 1 /\ e.i <= Len(steps) /\ e.el = steps[e.i]
           /\ Allowed(Expect(surf, st, first, e.el), e.obs)
        THEN /\ k' = k + 1 /\ st' = RtspStep(st, e.el) /\ open' = e.obs.alive /\ failed' = FALSE
             /\ UNCHANGED <<surf, cfg, steps>>
        ELSE Reject

TraceEnd ==
  /\ IsEvent("end")
  /\ LET e == Trace[l]
     IN IF /\ ~failed /\ EndOk(e) /\ e.done = k /\ (k = Len(steps) \/ ~open)
           /\ (MustSucceed(surf, cfg, steps) => e.res = "ok")
        THEN failed' = FALSE /\ UNCHANGED <<surf, cfg, steps, k, st, open>>
        ELSE Reject

TraceNext == TraceReset \/ TraceStep \/ TraceEnd
TraceSpec == TraceInit /\ [][TraceNext]_tvars
HighWater == TLCSet(1, IF l > TLCGet(1) THEN l ELSE TLCGet(1))
Accept == PrintT("@HW@" \o ToString(TLCGet(1)))
=============================================================================

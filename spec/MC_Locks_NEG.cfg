SPECIFICATION Spec
CONSTANTS
  Objs <- Objs2
  MaxShutdown = 3
  QMax = 2
  Procs <- P1
INVARIANTS NoBlockedSend

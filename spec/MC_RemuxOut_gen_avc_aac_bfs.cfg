SPECIFICATION Spec
CONSTANTS
  VCodec = "avc"
  ACodec = "aac"
  MaxPub = 5
  MaxVer = 2
  VKinds <- AvcCore
  DtPool <- Dt2
  AscPool = {1, 2, 3}
  ProbeMax = 16
  GopNum = 1
  TJoin = TRUE
  RJoin = FALSE
  RMut = "none"
INVARIANTS AllOk EndComplete RAllOk REndComplete
VIEW View

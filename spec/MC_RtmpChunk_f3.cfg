SPECIFICATION Spec
CONSTANTS
  LimbB = 65536
  ExtMark <- P_ExtMark
  Csids = {3, 64}
  TsPool <- P_TsPoolF
  LenPool = {1, 3}
  TypePool = {9}
  MsidPool = {1}
  CsPool = {}
  InitCs = 2
  ScsLen = 4
  AggPool <- NoAgg
  MaxMsgs = 3
  ScsCsid = 2
INVARIANTS RoundTrip TypeOK
VIEW View
ACTION_CONSTRAINT Emit

------------------------------- MODULE TsPack -------------------------------
(* MPEG-TS packetisation of one PES frame (C09): mpegts.Frame.Pack, PackPat, PackPmt.      *)
(*   FrameOK    - acceptor: what any conforming demuxer must find in the packets of a frame *)
(*   RefPack    - reference packetiser with lal's layout strategy (stuffing in the last     *)
(*                packet by growing/creating the adaptation field); TLC checks that it      *)
(*                satisfies FrameOK for every frame of the enumerated space.                *)
(*   PsiOK      - PAT / PMT section syntax, stream list and CRC-32/MPEG-2 (16-bit limbs).   *)
(* 33-bit clocks are three limbs <<bits 32..30, 29..15, 14..0>>.                            *)
EXTENDS Integers, Sequences, TLC, Json, Bitwise

CONSTANTS LenPool,    \* frame lengths
          CcPool,     \* incoming continuity counters
          PtsPool,    \* T3 values
          CtsPool     \* T3 offsets pts - dts (<<0,0,0>> = equal)

VARIABLES frame, ccIn, pkts, act
vars == <<frame, ccIn, pkts, act>>

T3Norm(a, b, c) == LET c2 == c % 32768
                       b1 == b + (c \div 32768)
                       b2 == b1 % 32768
                       a1 == a + (b1 \div 32768)
                   IN <<a1 % 8, b2, c2>>
T3Add(x, y) == T3Norm(x[1] + y[1], x[2] + y[2], x[3] + y[3])
T3Gt(x, y) == \/ x[1] > y[1]
              \/ x[1] = y[1] /\ x[2] > y[2]
              \/ x[1] = y[1] /\ x[2] = y[2] /\ x[3] > y[3]
T3Sub(x, y) == \* x >= y
  LET c == x[3] - y[3]
      bc == IF c < 0 THEN 1 ELSE 0
      b == x[2] - y[2] - bc
      bb == IF b < 0 THEN 1 ELSE 0
  IN << x[1] - y[1] - bb, (b + 32768) % 32768, (c + 32768) % 32768 >>
T3Zero == <<0, 0, 0>>
Delay == <<0, 1, 30232>>        \* 63000 ticks = 700 ms, added by lal to every PTS/DTS

ExpPcr(f) == IF T3Gt(f.dts, Delay) THEN T3Sub(f.dts, Delay) ELSE T3Zero
PesFlags(f) == IF f.pts # f.dts THEN 3 ELSE 2
PesHdrLen(f) == IF f.pts # f.dts THEN 10 ELSE 5
ExpPesLen(f) == IF f.len + PesHdrLen(f) + 3 > 65535 THEN 0 ELSE f.len + PesHdrLen(f) + 3

---------------------------------------------------------------------------
(* Acceptor over packet records produced by the independent parser.                       *)
PacketWF(p) ==
  /\ p.sync /\ ~p.bad /\ p.tei = 0 /\ p.scr = 0
  /\ p.afc \in {1, 3}
  /\ (p.afc = 3) <=> (p.afLen >= 0)
  /\ p.stuffOk
  /\ p.afLen > 0 => p.afLen = 1 + 6 * p.pcrFlag + p.stuffN
  /\ p.afLen <= 0 => p.stuffN = 0 /\ p.pcrFlag = 0 /\ p.rai = 0
  /\ 4 + (IF p.afLen >= 0 THEN 1 + p.afLen ELSE 0) + (IF p.hasPes THEN p.pes.size ELSE 0) + p.n = 188

PesOK(f, h) ==
  /\ h.startCode /\ h.sid = f.sid /\ h.marker = 128
  /\ h.flags = PesFlags(f) /\ h.hdrLen = PesHdrLen(f) /\ h.size = 9 + PesHdrLen(f)
  /\ h.markersOk
  /\ h.pts = T3Add(f.pts, Delay) /\ h.ptsPrefix = PesFlags(f)
  /\ h.dts = T3Add(f.dts, Delay) /\ (h.flags = 3 => h.dtsPrefix = 1)
  /\ h.pesLen = ExpPesLen(f)

FrameOK(f, cc, ps, ccOut) ==
  /\ Len(ps) >= 1
  /\ ccOut % 16 = (cc + Len(ps)) % 16   \* (lal keeps the counter in a uint8 and masks on write)
  /\ \A i \in 1..Len(ps) :
       LET p == ps[i] IN
       /\ PacketWF(p)
       /\ p.pid = f.pid
       /\ p.pusi = (IF i = 1 THEN 1 ELSE 0)
       /\ p.cc = (cc + i) % 16                       \* one step per packet, continuing across frames
       /\ p.hasPes = (i = 1)
       /\ (i = 1 => PesOK(f, p.pes))
       /\ p.rai = (IF f.key /\ i = 1 THEN 1 ELSE 0)   \* random access + PCR exactly on a key frame's first packet
       /\ p.pcrFlag = p.rai
       /\ (p.pcrFlag = 1 => p.pcr = ExpPcr(f) /\ p.pcrExt = 0)
       /\ p.dataOk                                  \* payload bytes are the frame's bytes at p.off
       /\ p.off = (IF i = 1 THEN 0 ELSE ps[i-1].off + ps[i-1].n)
  /\ ps[Len(ps)].off + ps[Len(ps)].n = f.len        \* lossless: the whole frame, nothing more

---------------------------------------------------------------------------
(* Reference packetiser (lal's strategy).                                                  *)
NoPes == [startCode |-> FALSE, sid |-> 0, pesLen |-> 0, marker |-> 0, flags |-> 0, hdrLen |-> 0,
          pts |-> T3Zero, dts |-> T3Zero, ptsPrefix |-> 0, dtsPrefix |-> 0, markersOk |-> FALSE, size |-> 0]
RefPes(f) == [startCode |-> TRUE, sid |-> f.sid, pesLen |-> ExpPesLen(f), marker |-> 128,
              flags |-> PesFlags(f), hdrLen |-> PesHdrLen(f), pts |-> T3Add(f.pts, Delay),
              dts |-> T3Add(f.dts, Delay), ptsPrefix |-> PesFlags(f),
              dtsPrefix |-> IF PesFlags(f) = 3 THEN 1 ELSE 0, markersOk |-> TRUE, size |-> 9 + PesHdrLen(f)]

RECURSIVE RefPackFrom(_, _, _, _)
RefPackFrom(f, cc, off, i) ==
  LET first == (i = 1)
      pes   == IF first THEN 9 + PesHdrLen(f) ELSE 0
      af0   == IF first /\ f.key THEN 8 ELSE 0               \* adaptation bytes incl. the length byte
      room  == 184 - af0 - pes
      rest  == f.len - off
      stuff == IF rest < room THEN room - rest ELSE 0       \* bytes to absorb in the adaptation field
      afTot == af0 + stuff
      n     == IF rest < room THEN rest ELSE room
      p == [sync |-> TRUE, bad |-> FALSE, tei |-> 0, scr |-> 0, pid |-> f.pid,
            pusi |-> IF first THEN 1 ELSE 0, cc |-> (cc + i) % 16,
            afc |-> IF afTot > 0 THEN 3 ELSE 1, afLen |-> afTot - 1,
            rai |-> IF af0 > 0 THEN 1 ELSE 0, pcrFlag |-> IF af0 > 0 THEN 1 ELSE 0,
            pcr |-> IF af0 > 0 THEN ExpPcr(f) ELSE T3Zero, pcrExt |-> 0,
            stuffN |-> IF af0 > 0 THEN stuff ELSE (IF stuff >= 2 THEN stuff - 2 ELSE 0),
            stuffOk |-> TRUE, hasPes |-> first, pes |-> IF first THEN RefPes(f) ELSE NoPes,
            n |-> n, off |-> off, dataOk |-> TRUE]
  IN IF off + n = f.len THEN <<p>> ELSE <<p>> \o RefPackFrom(f, cc, off + n, i + 1)

RefPack(f, cc) == RefPackFrom(f, cc, 0, 1)

Frames == { [len |-> n, key |-> k, pts |-> T3Add(d, c), dts |-> d, pid |-> pp[1], sid |-> pp[2]] :
            n \in LenPool, k \in BOOLEAN, d \in PtsPool, c \in CtsPool, pp \in {<<256, 224>>, <<257, 192>>} }

Init == /\ frame \in Frames /\ ccIn \in CcPool /\ pkts = <<>> /\ act = [name |-> "init"]
Pack == /\ pkts = <<>>
        /\ pkts' = RefPack(frame, ccIn)
        /\ act' = [name |-> "Pack", frame |-> frame, cc |-> ccIn, npkts |-> Len(pkts')]
        /\ UNCHANGED <<frame, ccIn>>
Next == Pack
Spec == Init /\ [][Next]_vars

RefOK == pkts # <<>> => FrameOK(frame, ccIn, pkts, (ccIn + Len(pkts)) % 16)
EmitS == act'.name = "Pack" => PrintT("@S@" \o ToJson(act'))

---------------------------------------------------------------------------
(* PSI: CRC-32/MPEG-2 over 16-bit limbs.                                                   *)
XorL(a, b) == << a[1] ^^ b[1], a[2] ^^ b[2] >>
Shl1(c) == << ((c[1] * 2) % 65536) + (c[2] \div 32768), (c[2] * 2) % 65536 >>
CrcBit(c) == IF c[1] >= 32768 THEN XorL(Shl1(c), <<1217, 7607>>) ELSE Shl1(c)
RECURSIVE CrcBits(_, _)
CrcBits(c, k) == IF k = 0 THEN c ELSE CrcBits(CrcBit(c), k - 1)
RECURSIVE CrcSeq(_, _, _)
CrcSeq(c, s, i) == IF i > Len(s) THEN c ELSE CrcSeq(CrcBits(XorL(c, <<s[i] * 256, 0>>), 8), s, i + 1)
Crc32Mpeg(s) == CrcSeq(<<65535, 65535>>, s, 1)

ExpStreams(v, a) ==
  (IF v = 7 THEN << <<27, 256>> >> ELSE IF v = 12 THEN << <<36, 256>> >> ELSE <<>>)
  \o (IF a = 10 THEN << <<15, 257>> >> ELSE IF a = 13 THEN << <<6, 257>> >> ELSE <<>>)

PsiCommon(p, s) ==
  /\ PacketWF(p) /\ p.pusi = 1 /\ p.afc = 1 /\ p.cc = 0
  /\ ~s.bad /\ s.pointer = 0 /\ s.ssi = 1 /\ s.curNext = 1 /\ s.secNum = 0 /\ s.lastSec = 0
  /\ s.trailOk
  /\ s.crc = Crc32Mpeg(s.body)

PatOK(p, s) == /\ PsiCommon(p, s) /\ p.pid = 0 /\ s.tid = 0
               /\ s.programs = << <<1, 4097>> >>
PmtOK(p, s, v, a) ==
  /\ PsiCommon(p, s) /\ p.pid = 4097 /\ s.tid = 2 /\ s.idExt = 1
  /\ s.pcrPid = 256 /\ s.progInfoLen = 0
  /\ [i \in 1..Len(s.streams) |-> <<s.streams[i].st, s.streams[i].pid>>] = ExpStreams(v, a)
  /\ \A i \in 1..Len(s.streams) : (s.streams[i].st # 6) => s.streams[i].esInfo = <<>>
=============================================================================

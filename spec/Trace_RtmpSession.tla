---------------------------- MODULE Trace_RtmpSession ----------------------------
(* Trace validation for C04.  One JSON line per event, many scenarios concatenated.            *)
(*   reset {sc, mode, frag}        a new connection to a live server                            *)
(*   send  {i, msg, n, obs, ..}    the peer sent msg as n bytes; obs = what was observed once lal *)
(*                                 had consumed them: "served" | "closed" | "panic" | "hung"      *)
(*   end   {died, fin, probe, ..}  died: the server process terminated during the scenario;      *)
(*                                 fin: the session ended when the peer disconnected;             *)
(*                                 probe: "ok" iff a second, well-formed connection published     *)
(* The specification decides: obs must be an outcome the protocol machine allows in the state     *)
(* reached so far (never anything but served / closed), the process must not have died, the       *)
(* session must have ended and the second connection must have been served.                      *)
EXTENDS RtmpSession, IOUtils

Trace == ndJsonDeserialize(IOEnv.TRACE)

VARIABLES l, st, failed
tvars == <<l, st, failed>>

TraceInit == l = 1 /\ st = St0 /\ failed = FALSE /\ TLCSet(1, 1)

IsEvent(e) == l <= Len(Trace) /\ Trace[l].ev = e /\ l' = l + 1

\* A rejected line marks the scenario failed, reports its line once, and skips to the next reset.
Reject == /\ failed' = TRUE
          /\ IF failed THEN TRUE ELSE PrintT("@REJ@" \o ToString(l))
          /\ UNCHANGED st

TraceReset == IsEvent("reset") /\ st' = St0 /\ failed' = FALSE

TraceSend ==
  /\ IsEvent("send")
  /\ LET e == Trace[l]
     IN IF ~failed /\ e.obs \in Outcomes(st, e.msg, e.n)
        THEN st' = After(st, e.msg, e.n, e.obs) /\ failed' = FALSE
        ELSE Reject

TraceEnd ==
  /\ IsEvent("end")
  /\ LET e == Trace[l]
     IN IF failed \/ (~e.died /\ e.fin /\ e.probe = "ok")
        THEN UNCHANGED <<st, failed>>
        ELSE Reject

TraceNext == TraceReset \/ TraceSend \/ TraceEnd
TraceSpec == TraceInit /\ [][TraceNext]_tvars

HighWater == TLCSet(1, IF l > TLCGet(1) THEN l ELSE TLCGet(1))
Accept == PrintT("@HW@" \o ToString(TLCGet(1)))
=============================================================================

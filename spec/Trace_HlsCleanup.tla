---------------------------- MODULE Trace_HlsCleanup ----------------------------
(* Trace validation for the cleanup clause of C10 (driver hlscleanup): a real logic.ServerManager  *)
(* with hls enabled runs a behaviour of HlsCleanup; after every step the driver reports the         *)
(* OBSERVED abstract state - identity of the Group object registered under the name, muxer alive,   *)
(* directory exists, state of the live playlist, publication of the segments it lists, whether      *)
(* every listed segment exists, publications that have segment files.  The trace spec runs the SAME *)
(* actions as the model, demands that the observation equals the model state after the step         *)
(* (reference-equality, one tag per field that differs) and evaluates the C10 clauses LiveSpared /  *)
(* Listed on the observed state.  A TimerFire event carries a second observation ("pre") taken just  *)
(* before the timer is due: it must still equal the state before the step (tags "early:...").      *)
(* Reject-and-continue: a refused line prints @REJ@ and @WHY@.                                      *)
EXTENDS HlsCleanup, IOUtils

CONSTANT FragNum      \* fragment_num of the driver's configuration: a written playlist lists that many segments

Trace == ndJsonDeserialize(IOEnv.TRACE)
VARIABLES l, l0, sc, failed
mvars == <<mode, grp, ngrp, pub, sub, ep, fed, timers, fs, nbr, act>>
tvars == <<mvars, l, l0, sc, failed>>

TraceInit == Init /\ mode = 0 /\ l = 1 /\ l0 = 1 /\ sc = -1 /\ failed = FALSE /\ TLCSet(1, 1)

TraceReset ==
  /\ l <= Len(Trace) /\ Trace[l].ev = "reset" /\ l' = l + 1 /\ l0' = l /\ sc' = Trace[l].sc
  /\ mode' = Trace[l].mode
  /\ grp' = 0 /\ ngrp' = 0 /\ pub' = FALSE /\ sub' = FALSE /\ ep' = 0 /\ fed' = 0
  /\ timers' = <<>> /\ fs' = NoDir /\ nbr' = TRUE /\ act' = [name |-> "init"]
  /\ failed' = FALSE

Names == {"PubStart", "Feed", "PubStop", "SubJoin", "SubLeave", "Tick", "TimerFire"}
OkOf(n) == CASE n = "PubStart"  -> PubStartOk
             [] n = "Feed"      -> FeedOk
             [] n = "PubStop"   -> PubStopOk
             [] n = "SubJoin"   -> SubJoinOk
             [] n = "SubLeave"  -> SubLeaveOk
             [] n = "Tick"      -> TickOk
             [] n = "TimerFire" -> TimerFireOk
             [] OTHER           -> FALSE
FxOf(n) == CASE n = "PubStart"  -> PubStartFx
             [] n = "Feed"      -> FeedFx
             [] n = "PubStop"   -> PubStopFx
             [] n = "SubJoin"   -> SubJoinFx
             [] n = "SubLeave"  -> SubLeaveFx
             [] n = "Tick"      -> TickFx
             [] n = "TimerFire" -> TimerFireFx

SeqSet(q) == {q[k] : k \in 1..Len(q)}
\* the directory as observed, in the shape of the model's fs
ObsFs(o) == [dir |-> o.dir, pl |-> o.pl, plEp |-> (IF Len(o.plEps) = 1 THEN o.plEps[1] ELSE IF o.plEps = <<>> THEN 0 ELSE -1),
             eps |-> SeqSet(o.eps)]

\* what differs between the observation o and the model state (g, p, e, w, f) after the step
Diff(o, g, p, e, w, f) ==
     (IF o.gid = g THEN {} ELSE {"group"})
  \cup (IF o.mux = p THEN {} ELSE {"muxer"})
  \cup (IF o.dir = f.dir THEN {} ELSE {"dir"})
  \cup (IF o.pl = f.pl THEN {} ELSE {"playlist"})
  \cup (IF ObsFs(o).plEp = f.plEp THEN {} ELSE {"listedEpoch"})
  \cup (IF o.nseg = (IF f.pl = "none" THEN 0 ELSE FragNum) THEN {} ELSE {"listedCount"})
  \cup (IF SeqSet(o.eps) = f.eps /\ Len(o.eps) = Cardinality(f.eps) THEN {} ELSE {"segmentFiles"})
  \cup (IF o.segsOk THEN {} ELSE {"listedSegmentMissing"})
  \cup (IF LiveSparedOf(o.mux, w, e, ObsFs(o)) THEN {} ELSE {"LiveSpared"})
  \cup (IF ListedOf(ObsFs(o)) /\ o.segsOk THEN {} ELSE {"Listed"})
  \cup (IF o.nb = nbr THEN {} ELSE {"neighbour"})     \* the other live stream of the same server: untouched

Refuse(why) == /\ failed' = TRUE
               /\ PrintT("@REJ@" \o ToString(l))
               /\ PrintT("@WHY@" \o ToJson([sc |-> sc, line |-> l - l0, why |-> why]))

TraceStep ==
  /\ l <= Len(Trace) /\ Trace[l].ev \in Names /\ l' = l + 1 /\ UNCHANGED <<l0, sc>>
  /\ LET e == Trace[l] IN
     IF failed THEN UNCHANGED mvars /\ failed' = TRUE
     ELSE IF e.panic # "" THEN UNCHANGED mvars /\ Refuse({"panic"})
     ELSE IF ~OkOf(e.ev) THEN UNCHANGED mvars /\ Refuse({"notEnabled"})
     ELSE /\ FxOf(e.ev) /\ mode' = mode /\ nbr' = nbr /\ act' = [name |-> e.ev]
          /\ LET early == IF "pre" \in DOMAIN e THEN {"early:" \o x : x \in Diff(e.pre, grp, pub, ep, fed > 0, fs)} ELSE {}
                 why == early \cup Diff(e.obs, grp', pub', ep', fed' > 0, fs')
             IN IF why = {} THEN failed' = FALSE ELSE Refuse(why)

\* "TimerFire+PubStart": the driver let a publisher arrive INSIDE the expiry - after the timer had decided to remove the
\* directory and before it removed it (verif hook between the two).  The property allows no third outcome: the expiry and
\* the arrival are serialised, and since the decision was taken first the result is that of TimerFire followed by PubStart
\* (a fresh directory for the new publication).  Only the state after both can be observed.
RaceOk == TimerFireOk /\ ~AliveFor(timers[1]) /\ ~pub /\ ep < MaxEp /\ (grp = 0 => ngrp < MaxGrp)
RaceFx ==
  /\ grp' = (IF grp = 0 THEN ngrp + 1 ELSE grp) /\ ngrp' = (IF grp = 0 THEN ngrp + 1 ELSE ngrp)
  /\ pub' = TRUE /\ ep' = ep + 1 /\ fed' = 0
  /\ fs' = [NoDir EXCEPT !.dir = TRUE]
  /\ timers' = Aged(Tail(timers)) /\ sub' = sub
TraceRace ==
  /\ l <= Len(Trace) /\ Trace[l].ev = "TimerFire+PubStart" /\ l' = l + 1 /\ UNCHANGED <<l0, sc>>
  /\ LET e == Trace[l] IN
     IF failed THEN UNCHANGED mvars /\ failed' = TRUE
     ELSE IF e.panic # "" THEN UNCHANGED mvars /\ Refuse({"panic"})
     ELSE IF ~RaceOk THEN UNCHANGED mvars /\ Refuse({"notEnabled"})
     ELSE /\ RaceFx /\ mode' = mode /\ nbr' = nbr /\ act' = [name |-> e.ev]
          /\ LET early == {"early:" \o x : x \in Diff(e.pre, grp, pub, ep, fed > 0, fs)}
                 why == early \cup Diff(e.obs, grp', pub', ep', fed' > 0, fs')
             IN IF why = {} THEN failed' = FALSE ELSE Refuse(why)

\* a scenario that missed a real-time bound is not judged (the check reports it as an infrastructure failure)
TraceLate ==
  /\ l <= Len(Trace) /\ Trace[l].ev = "late" /\ l' = l + 1
  /\ failed' = TRUE /\ UNCHANGED <<mvars, l0, sc>>

TraceNext == TraceReset \/ TraceStep \/ TraceRace \/ TraceLate
TraceSpec == TraceInit /\ [][TraceNext]_tvars
HighWater == TLCSet(1, IF l > TLCGet(1) THEN l ELSE TLCGet(1))
Accept == PrintT("@HW@" \o ToString(TLCGet(1)))
=============================================================================

---------------------------- MODULE Trace_Locks ----------------------------
(* Trace validation for C20.  Every line is an independent fact:                                 *)
(*  - facts extracted from lal's current source by harness/cmd/lockgraph (mutexes, nested        *)
(*    acquisitions with a witness call chain, blocking sends and close() under a mutex, who      *)
(*    reaches the sends on the exit channels, fields of mutex-carrying structs accessed without  *)
(*    the mutex, mutexes held at a return), decided against the order, the channel discipline    *)
(*    and the protected-state declaration of Locks;                                              *)
(*  - the outcome of a stress run of a real ServerManager (driver "stress"): it must neither die *)
(*    nor hang.                                                                                  *)
(* Race events (Go race detector, auxiliary observer) are consumed and never rejected: data-race *)
(* freedom of arbitrary memory accesses is not decided by this specification.                    *)
EXTENDS Locks, Json, IOUtils

Trace == ndJsonDeserialize(IOEnv.TRACE)
VARIABLES l
TraceInit == l = 1 /\ TLCSet(1, 1) /\ Init      \* the model state is not used: only the declarations of Locks
IsEvent(e) == l <= Len(Trace) /\ Trace[l].ev = e /\ l' = l + 1
Check(c) == IF c THEN TRUE ELSE PrintT("@REJ@" \o ToString(l))

\* mutexes of the code and the lock class of the specification each belongs to
CodeLock == ("logic.ServerManager.mutex" :> "sm") @@ ("logic.Group.mutex" :> "grp") @@
            ("hls.ServerHandler.mutex" :> "hls") @@ ("rtsp.BaseInSession.mu" :> "rin") @@
            ("logic.IpBlacklist.mu" :> "ipb") @@ ("base.PeriodRecord.mu" :> "fps") @@
            ("gb28181.PubSession.tcpMutex" :> "pst")
\* channels of the model
CodeChan == ("logic.Group.exitChan" :> "gexit") @@ ("logic.ServerManager.exitChan" :> "smexit")
\* channels of capacity 1 that are written at exactly one place, inside a sync.Once body (the dispose paths of the rtsp
\* sessions, which run under whatever lock the caller of Dispose holds): the one send can never block
OnceChans == {"rtsp.BaseInSession.waitChan", "rtsp.BaseOutSession.waitChan"}
\* who may reach the send of Group.Dispose / ServerManager.Dispose: the tick loop (which then erases
\* the group), the deterministic tick hook, ServerManager.Dispose and the signal handler that calls it
GexitReach == {"(*logic.Group).Dispose", "(*logic.ServerManager).Dispose", "(*logic.ServerManager).Dispose$1",
               "(*logic.ServerManager).RunLoop", "(*logic.ServerManager).RunLoop$11", "(*logic.ServerManager).RunLoop$2",
               "(*logic.ServerManager).VerifTick", "(*logic.ServerManager).VerifTick$1",
               "innertest.Entry", "innertest.entry"}
SmexitReach == {"(*logic.ServerManager).Dispose", "(*logic.ServerManager).RunLoop$2", "innertest.Entry", "innertest.entry"}

\* "all group state behind one mutex": every field of Group but the ones that are constant after NewGroup;
\* elsewhere the containers the mutex exists for
FullyGuarded == {"logic.Group"}
ConstAfterInit == {"UniqueKey", "appName", "streamName", "config", "option", "observer", "exitChan", "mutex"}
ExplicitGuarded == {"logic.ServerManager.groupManager", "hls.ServerHandler.sessionMap", "logic.IpBlacklist.ips",
                    "rtsp.BaseInSession.avPacketQueue", "base.PeriodRecord.ringBuf"}
Guarded(e) == (e.struct \in FullyGuarded /\ e.name \notin ConstAfterInit) \/ e.field \in ExplicitGuarded

TraceReset == IsEvent("reset")
\* a mutex the specification does not know is a change of the design: the model has to be revisited
TraceMutex == IsEvent("Mutex") /\ Check(Trace[l].mu \in DOMAIN CodeLock)
TraceEdge == /\ IsEvent("Edge")
             /\ LET e == Trace[l]
                IN Check(/\ e.from \in DOMAIN CodeLock /\ e.to \in DOMAIN CodeLock
                         /\ <<CodeLock[e.from], CodeLock[e.to]>> \in Allowed)
TraceSendUnder == /\ IsEvent("SendUnder")
                  /\ LET e == Trace[l]
                     IN Check(\/ e.to \in OnceChans
                              \/ /\ e.from \in DOMAIN CodeLock /\ e.to \in DOMAIN CodeChan
                                 /\ <<CodeLock[e.from], CodeChan[e.to]>> \in SendUnderAllowed)
\* the exit channels are written at one place each (Group.Dispose, ServerManager.Dispose)
TraceSend == /\ IsEvent("Send")
             /\ LET e == Trace[l] IN Check(e.to \in DOMAIN CodeChan \cup OnceChans => e.sites = 1)
\* lal never closes a channel that is sent on, which is why a send can never hit a closed one.  The one close there is:
\* a done-signal channel local to a function - created per connection, never sent on, closed once (defer) by the goroutine
\* that owns it, waited for by the accept loop (gb28181.PubSession.runLoopTcp)
DoneCloseSites == {"(*gb28181.PubSession).runLoopTcp$1"}
TraceClose == /\ IsEvent("Close") \/ IsEvent("CloseUnder")
              /\ LET e == Trace[l]
                 IN Check(/\ e.ev = "Close" /\ e.to = "?local"
                          /\ \A i \in 1..Len(e.fns) : e.fns[i] \in DoneCloseSites)
TraceReach == /\ IsEvent("Reach")
              /\ LET e == Trace[l]
                     fs == {e.fns[i] : i \in 1..Len(e.fns)}
                 IN Check(/\ e.chan = "logic.Group.exitChan" => fs \subseteq GexitReach
                          /\ e.chan = "logic.ServerManager.exitChan" => fs \subseteq SmexitReach)
TraceUnguarded == IsEvent("Unguarded") /\ Check(~Guarded(Trace[l]))
TraceLeak == IsEvent("Leak") /\ Check(FALSE)
\* the locks of the design are exclusive (Locks.tla has no shared mode): a function that holds a mutex in read mode and
\* writes to the struct the mutex guards - itself or through what it calls - is outside it
TraceRWrite == IsEvent("RWrite") /\ Check(FALSE)
TraceSummary == IsEvent("Summary")
TraceStress == /\ IsEvent("Stress")
               /\ LET e == Trace[l] IN Check(e.died = FALSE /\ e.hung = FALSE /\ e.calls > 0)
TraceRace == IsEvent("Race")

TraceNext == TraceReset \/ TraceMutex \/ TraceEdge \/ TraceSendUnder \/ TraceSend \/ TraceClose \/ TraceReach
             \/ TraceUnguarded \/ TraceLeak \/ TraceRWrite \/ TraceSummary \/ TraceStress \/ TraceRace
TraceSpec == TraceInit /\ [][TraceNext /\ UNCHANGED vars]_<<l, vars>>
HighWater == TLCSet(1, IF l > TLCGet(1) THEN l ELSE TLCGet(1))
Accept == PrintT("@HW@" \o ToString(TLCGet(1)))
=============================================================================

------------------------------- MODULE MC_Hls -------------------------------
EXTENDS Hls
Cfgs(ns, ds, fs, ms) == {[n |-> n, d |-> d, f |-> f, mode |-> m] : n \in ns, d \in ds, f \in fs, m \in ms}
\* decisions of updateFragment: every step class, small rings
DecideCfgs == Cfgs({1, 2}, {0, 1}, {3000}, {0, 2})
\* ring arithmetic: every ring size and cleanup mode, steps that close a fragment at (nearly) every frame
RingCfgs == Cfgs({1, 2, 3}, {0, 1, 2}, {1000}, {0, 1, 2})
\* rounding of the target duration
RoundCfgs == Cfgs({2}, {0}, {2500, 3000, 5000}, {0})
\* re-publish of the same stream name: small rings so that the first publication moves the media sequence
RestartCfgs == Cfgs({1, 2}, {0, 1}, {1000}, {0, 1, 2})
\* long random behaviours (simulation): everything
SimCfgs == Cfgs({1, 2, 3}, {0, 1, 2}, {1000, 2500, 3000}, {0, 1, 2})
=============================================================================

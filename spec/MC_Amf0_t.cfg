SPECIFICATION Spec
CONSTANTS
  DepthLimit = 64
  StrLens = {0, 2, 65535, 65536, 70000}
  Level = 4
INVARIANTS RoundTrip Total
ACTION_CONSTRAINT EmitS

SPECIFICATION Spec
CONSTANTS
  CfgPool <- RoundCfgs
  AvPool = {TRUE}
  Kinds = {"Kb"}
  Classes = {"short", "below", "eq", "ab4", "ab8"}
  MaxFrames = 5
  MaxEpoch = 1
  TargetLal = FALSE
INVARIANTS PlaylistWellFormed SeqMonotone TargetCovers ListedExist ListedWhole RecentStillPresent NoLossNoDup Finalised
ACTION_CONSTRAINT EmitS

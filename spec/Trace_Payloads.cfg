SPECIFICATION TraceSpec
CONSTRAINT HighWater
POSTCONDITION Accept
CHECK_DEADLOCK FALSE

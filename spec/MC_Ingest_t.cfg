SPECIFICATION Spec
CONSTANTS
  Paths = {"cust", "rtsp", "ps"}
  Vcs = {"avc", "hevc"}
  AudiosRtsp = {"none", "aac8000", "aac16000", "aac22050", "aac44100", "aac48000", "aac96000", "pcma8000", "pcmu8000", "opus48000"}
  AudiosOther = {"none", "aac44100", "pcma8000", "opus48000"}
  MaxV = 2
  ShapeIds = {1, 2, 3, 4, 5, 6, 7, 8}
  S0s = {0, 65533}
  BaseRegs = {"lo", "g1"}
  TsShpNames = {"s1", "s2", "s3"}
  TsRegsRtsp = {"lo", "m31", "x32"}
  TsRegsPs = {"lo", "m31", "x32", "hi", "x33"}
  TsRegsCust = {"lo", "m31", "x32", "x33", "ep"}
  TsAudiosRtsp = {"none", "aac8000", "aac16000", "aac22050", "aac44100", "aac48000", "aac96000", "pcma8000", "pcmu8000", "opus48000"}
  TsAudiosOther = {"none", "aac44100", "pcma8000", "opus48000"}
  TsRtspCls = {"single", "agg", "fu"}
  TsPsPk = {"p1", "p2", "p3", "p4", "p5", "p6", "p7", "p8", "p9", "p10", "p11", "p13"}
  TsCustFmt = {"annexb", "avcc"}
  TsS0s = {65533}
  Win = 3
  MaxPert = 1
  RtspCls = {"single", "agg", "fu"}
  PsPk = {"p1", "p2", "p3", "p4", "p5", "p6", "p10", "p11", "p12", "p13", "p14", "p15", "p16"}
  CustFmt = {"annexb", "annexb3", "avcc"}
INVARIANTS DesignConforms
ACTION_CONSTRAINT EmitS

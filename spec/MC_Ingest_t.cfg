SPECIFICATION Spec
CONSTANTS
  Paths = {"cust", "rtsp", "ps"}
  Vcs = {"avc", "hevc"}
  AudiosRtsp = {"none", "aac8000", "aac16000", "aac22050", "aac44100", "aac48000", "aac96000", "pcma8000", "pcmu8000", "opus48000"}
  AudiosOther = {"none", "aac44100", "pcma8000", "opus48000"}
  MaxV = 2
  ShapeIds = {1, 2, 3, 4, 5, 6, 7, 8}
  S0s = {0, 65533}
  Bases = {0, 1000000000}
  Win = 3
  MaxPert = 1
  RtspCls = {"single", "agg", "fu"}
  PsPk = {"p1", "p2", "p3", "p4", "p5", "p6"}
  CustFmt = {"annexb", "annexb3", "avcc"}
INVARIANTS DesignConforms
ACTION_CONSTRAINT EmitS

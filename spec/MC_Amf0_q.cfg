SPECIFICATION Spec
CONSTANTS
  DepthLimit = 64
  StrLens = {0, 65535, 65536}
  Level = 2
INVARIANTS RoundTrip Total
ACTION_CONSTRAINT EmitS

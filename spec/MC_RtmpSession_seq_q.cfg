SPECIFICATION Spec
CONSTANTS
  Depth = 4
  AlphaName = "core"
  InitRoles = {"none"}
  TypePool = {}
INVARIANTS NeverCrashes ClosedIsFinal RoleOnce TypeOk
ACTION_CONSTRAINT EmitS

SPECIFICATION FairSpec
CONSTANTS
  Objs <- Objs2
  MaxShutdown = 1
  QMax = 2
  Procs <- P2
PROPERTY Completes

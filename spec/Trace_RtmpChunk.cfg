SPECIFICATION TraceSpec
CONSTANTS
  LimbB = 65536
  ExtMark <- P_ExtMark
  Csids = {}
  TsPool = {}
  LenPool = {}
  TypePool = {}
  MsidPool = {}
  CsPool = {}
  InitCs = 128
  ScsLen = 4
  AggPool = {}
  MaxMsgs = 0
  ScsCsid = 2
CONSTRAINT HighWater
POSTCONDITION Accept
CHECK_DEADLOCK FALSE

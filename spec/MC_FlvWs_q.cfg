SPECIFICATION Spec
CONSTANTS
  LimbB = 65536
  Modes = {"flv", "ws", "file"}
  TypePool = {8, 9, 18}
  LenPool <- Q_Len
  TsPool <- Q_Ts
  MaxTags = 2
INVARIANTS FieldsOK
VIEW View
ACTION_CONSTRAINT Emit

SPECIFICATION Spec
CONSTANTS
  VCodec = "avc"
  ACodec = "none"
  MaxPub = 5
  MaxVer = 2
  VKinds <- AvcAll
  DtPool <- Dt3
  AscPool = {1, 2, 3}
  ProbeMax = 16
  GopNum = 1
INVARIANTS AllOk EndComplete
VIEW View

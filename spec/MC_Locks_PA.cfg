SPECIFICATION Spec
CONSTANTS
  Objs <- Objs2
  MaxShutdown = 1
  QMax = 2
  Procs <- PA
INVARIANTS NoWaitCycle NoSelfLock NoBlockedSend NoBlockedSendUnderLock SendsDeclared TaskChanFree OrderOk Balanced

SPECIFICATION Spec
CONSTANTS
  Depth = 6
  AlphaName = "small"
  InitRoles = {"none"}
  TypePool = {}
INVARIANTS NeverCrashes ClosedIsFinal RoleOnce TypeOk
ACTION_CONSTRAINT EmitS

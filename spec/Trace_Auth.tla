---------------------------- MODULE Trace_Auth ----------------------------
(* Trace validation for C14: every line is what the real lal code did for one request scenario *)
(* (projected by harness/drv/auth.go), decided against the definitions of Auth.                *)
EXTENDS Auth, IOUtils, Json

Trace == ndJsonDeserialize(IOEnv.TRACE)
VARIABLES l
TraceInit == l = 1 /\ TLCSet(1, 1)
IsEvent(e) == l <= Len(Trace) /\ Trace[l].ev = e /\ l' = l + 1
\* every line is an independent case: a rejected line is reported and validation continues
Check(c) == IF c THEN TRUE ELSE PrintT("@REJ@" \o ToString(l))

TraceReset == IsEvent("reset")

TraceSa == /\ IsEvent("Sa")
           /\ LET e == Trace[l]
              IN Check(/\ e.pd \in Pds /\ e.form \in Forms /\ e.ovr \in Ovrs /\ ToSet(e.flags) \subseteq Flags
                       /\ e.obs \in SaAllowed(ToSet(e.flags), e.pd, e.form, e.ovr))

TraceRa == /\ IsEvent("Ra")
           /\ LET e == Trace[l]
              IN Check(/\ Len(e.steps) >= 1
                       /\ \A i \in DOMAIN e.steps : e.steps[i].cred \in Creds
                       /\ RaOk(e.enable, e.method, e.steps, 1, RaIssued0))

TraceKick == /\ IsEvent("Kick")
             /\ LET e == Trace[l] IN Check(e.pd \in KickPds /\ KickOk(e.which, e.had, e.ok, e.closed))

TraceBl == /\ IsEvent("Bl")
           /\ LET e == Trace[l]
              IN Check(/\ Len(e.probes) >= 2
                       /\ \A i \in DOMAIN e.probes : BlProbeOk(e.dur, e.probes[i]))

TraceRd == /\ IsEvent("Rd")
           /\ LET e == Trace[l]
              IN Check(/\ \A i \in DOMAIN e.req : e.req[i] \in ReqTokens
                       /\ e.note = ""
                       /\ RdOk(e.req, e.served))

TraceWr == /\ IsEvent("Wr")
           /\ LET e == Trace[l] IN Check(WrOk(e.name, e.proto, e.created, e.deleted))

TraceHp == /\ IsEvent("Hp")
           /\ LET e == Trace[l]
              IN Check(/\ HpWellFormed(e.hp) /\ e.cfg \in HpCfgs /\ e.form \in HpForms /\ e.listed \in BOOLEAN
                       /\ e.note = ""
                       /\ HpOk(e.cfg, e.hp, e.form, e.listed, e.obs))

TraceSv == /\ IsEvent("Sv")
           /\ LET e == Trace[l]
              IN Check(/\ e.pd \in SvPds /\ e.form \in SvForms /\ e.on \in BOOLEAN
                       /\ e.hp.stream \in SvStreams /\ e.hp.ext \in SvExts /\ e.hp.slash \in SvSlashes
                       /\ SvOk(e.on, e.pd, e.hp, e.form, e.obs))

TraceNext == TraceReset \/ TraceSa \/ TraceRa \/ TraceKick \/ TraceBl \/ TraceRd \/ TraceWr \/ TraceHp \/ TraceSv
TraceSpec == TraceInit /\ [][TraceNext]_l
HighWater == TLCSet(1, IF l > TLCGet(1) THEN l ELSE TLCGet(1))
Accept == PrintT("@HW@" \o ToString(TLCGet(1)))
=============================================================================

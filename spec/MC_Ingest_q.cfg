SPECIFICATION Spec
CONSTANTS
  Paths = {"cust", "rtsp", "ps"}
  Vcs = {"avc", "hevc"}
  AudiosRtsp = {"none", "aac44100", "pcma8000"}
  AudiosOther = {"none", "aac44100"}
  MaxV = 2
  ShapeIds = {1, 2, 3, 5, 7}
  S0s = {0, 65533}
  Bases = {1000000000}
  Win = 3
  MaxPert = 1
  RtspCls = {"single", "agg", "fu"}
  PsPk = {"p1", "p2", "p3", "p4", "p5", "p6"}
  CustFmt = {"annexb", "annexb3", "avcc"}
INVARIANTS DesignConforms
ACTION_CONSTRAINT EmitS

SPECIFICATION Spec
CONSTANTS
  Paths = {"cust", "rtsp", "ps"}
  Vcs = {"avc", "hevc"}
  AudiosRtsp = {"none", "aac44100", "pcma8000"}
  AudiosOther = {"none", "aac44100"}
  MaxV = 2
  ShapeIds = {1, 2, 3, 5, 7}
  S0s = {0, 65533}
  BaseRegs = {"g1"}
  TsShpNames = {"s2", "s3"}
  TsRegsRtsp = {"lo", "m31", "x32"}
  TsRegsPs = {"lo", "m31", "x32", "hi", "x33"}
  TsRegsCust = {"lo", "m31", "x32", "x33", "ep"}
  TsAudiosRtsp = {"none", "aac44100", "aac48000", "pcma8000"}
  TsAudiosOther = {"none", "aac44100"}
  TsRtspCls = {"single", "fu"}
  TsPsPk = {"p1", "p3", "p7", "p8", "p9", "p11"}
  TsCustFmt = {"annexb"}
  TsS0s = {65533}
  Win = 3
  MaxPert = 1
  RtspCls = {"single", "agg", "fu"}
  PsPk = {"p1", "p2", "p3", "p4", "p5", "p6", "p10", "p12", "p15"}
  CustFmt = {"annexb", "annexb3", "avcc"}
INVARIANTS DesignConforms
ACTION_CONSTRAINT EmitS

------------------------------ MODULE RemuxOut ------------------------------
(* C06: what an RTMP publisher sends must be what TS (HTTP-TS, HLS) and RTP (RTSP) consumers     *)
(* recover.                                                                                      *)
(*   Acceptor  - AcceptTs / AcceptRtp / EndOk / StartsInTime: what any standards-conforming      *)
(*               demuxer must find in the output, relative to the history of published messages: *)
(*               SameUnits (every NAL unit / audio frame once, in order, complete, from the      *)
(*               consumer's first frame on), OnlyAllowedExtras (AUDs, parameter sets), the       *)
(*               parameter sets in force before every key picture and every in-band set before   *)
(*               the picture it was sent with, TsTime (one constant per track and consumer,      *)
(*               mod 2^33), Adts, RtpTime (one tick), completeness at the end of the stream and  *)
(*               a timely start of the consumers that are attached from the beginning (also of a *)
(*               stream that ends while lal still probes it).  C02 for the RTSP subscribers of   *)
(*               the Group (gate): SdpCur (described with the video sequence header in force at  *)
(*               that moment), KeyFirst, RtspStartsInTime (after PLAY: the next key frame, or    *)
(*               the next audio frame when described without video).                             *)
(*   Reference - RmPush / RmFlushAudio / FeedTs: lal's Rtmp2MpegtsRemuxer (probe queue,          *)
(*               parameter set cache, AUD / parameter-set insertion, audio batching and flush    *)
(*               rules, `opened`, boundary rule, per-track time base) and the HTTP-TS fan-out of *)
(*               logic.Group (fresh / wait-boundary / GOP cache) as a deterministic machine;     *)
(*               RrStep: remux.Rtmp2RtspRemuxer (analyse stage, description, re-description) and *)
(*               Group.feedRtpPacket (key-frame gate of playing subscribers);                    *)
(*               TLC checks that it satisfies the acceptor for every enumerated behaviour and    *)
(*               emits the behaviours that are replayed against the real code.  Trace validation *)
(*               uses the acceptor only: the code may batch or flush differently (the HLS muxer  *)
(*               forces flushes) as long as the property holds.                                  *)
(* Payloads are position coded: a unit is (id, off, n, ok) - "bytes off..off+n of unit id, all   *)
(* bytes equal".  33-bit clocks are three 15-bit limbs (T3), 32-bit ones use a 2-bit top limb.   *)
EXTENDS Integers, Sequences, FiniteSets, TLC, Json

CONSTANTS ProbeMax,      \* calcFragmentHeaderQueueSize (16)
          GopNum         \* httpts.gop_num (reference model only)

VARIABLES vc, ac,     \* codecs of the stream under test: avc|hevc|none, aac|opus|g711a|g711u|none
          hist,       \* what was published so far (per track), parameter sets / ASC in force
          cons,       \* acceptor state per TS consumer (t1, t2 = HTTP-TS, hls = concatenated segments)
          rtp,        \* acceptor state of the RTP consumer
          rm,         \* reference model of lal (model checking only)
          act
vars == <<vc, ac, hist, cons, rtp, rm, act>>

B == 32768
---------------------------------------------------------------------------
(* 33-bit arithmetic on <<bits 32..30, 29..15, 14..0>>                                           *)
T3Norm(a, b, c) == LET c2 == c % B
                       b1 == b + (c \div B)
                       b2 == b1 % B
                       a1 == a + (b1 \div B)
                   IN <<a1 % 8, b2, c2>>
T3Add(x, y) == T3Norm(x[1] + y[1], x[2] + y[2], x[3] + y[3])
T3Sub(x, y) == \* modulo 2^33
  LET c == x[3] - y[3]
      bc == IF c < 0 THEN 1 ELSE 0
      b == x[2] - y[2] - bc
      bb == IF b < 0 THEN 1 ELSE 0
  IN << (x[1] - y[1] - bb + 8) % 8, (b + B) % B, (c + B) % B >>
T3Mul90(x) == T3Norm(90 * x[1], 90 * x[2], 90 * x[3])
T3OfInt(n) == T3Norm(0, n \div B, n % B)
IsT3(x) == Len(x) = 3 /\ x[1] \in 0..7 /\ x[2] \in 0..(B-1) /\ x[3] \in 0..(B-1)

(* four-limb big-endian base-32768 numbers for ts * rate / 1000                                  *)
L4Mul(x, k) == LET p0 == x[4] * k
                   p1 == x[3] * k + (p0 \div B)
                   p2 == x[2] * k + (p1 \div B)
                   p3 == x[1] * k + (p2 \div B)
               IN <<p3 % B, p2 % B, p1 % B, p0 % B>>
L4Add(x, y) == LET s0 == x[4] + y[4]
                   s1 == x[3] + y[3] + (s0 \div B)
                   s2 == x[2] + y[2] + (s1 \div B)
                   s3 == x[1] + y[1] + (s2 \div B)
               IN <<s3 % B, s2 % B, s1 % B, s0 % B>>
L4Shl(x) == <<x[2], x[3], x[4], 0>>
L4Div(x, k) == LET c3 == x[1]
                   c2 == (c3 % k) * B + x[2]
                   c1 == (c2 % k) * B + x[3]
                   c0 == (c1 % k) * B + x[4]
               IN <<c3 \div k, c2 \div k, c1 \div k, c0 \div k>>
(* floor(ts * rate / 1000) mod 2^32 as <<bits 31..30, 29..15, 14..0>>                             *)
RtpExpect(ts, rate) ==
  LET x == <<0, ts[1], ts[2], ts[3]>>
      p == L4Add(L4Mul(x, rate % B), L4Shl(L4Mul(x, rate \div B)))
      e == L4Div(p, 1000)
  IN <<e[2] % 4, e[3], e[4]>>
N32(a, b, c) == LET t == T3Norm(a, b, c) IN <<t[1] % 4, t[2], t[3]>>
RtpTimeOk(obs, ts, rate) ==
  LET e == RtpExpect(ts, rate)
  IN obs \in { e, N32(e[1], e[2], e[3] + 1), N32(e[1] + 3, e[2] + B - 1, e[3] + B - 1) }

AscFreq(i) == CASE i = 0 -> 96000 [] i = 1 -> 88200 [] i = 2 -> 64000 [] i = 3 -> 48000 [] i = 4 -> 44100
                [] i = 5 -> 32000 [] i = 6 -> 24000 [] i = 7 -> 22050 [] i = 8 -> 16000 [] i = 9 -> 12000
                [] i = 10 -> 11025 [] i = 11 -> 8000 [] i = 12 -> 7350 [] OTHER -> 0

---------------------------------------------------------------------------
(* History of the publication.                                                                   *)
NoPs == [sps |-> 0, pps |-> 0, vps |-> 0]
PsTypes == IF vc = "hevc" THEN {"vps", "sps", "pps"} ELSE {"sps", "pps"}
\* a video sequence header carries the parameter sets of version m.ver - or, when it has the field sv, the pps of version
\* m.ver next to the sps (and vps) of version m.sv: a header that changes the pps only
SvOf(m) == IF "sv" \in DOMAIN m THEN m.sv ELSE m.ver
HistInit == [pubV |-> <<>>, pubVR |-> <<>>, pubA |-> <<>>, ps |-> NoPs, asc |-> <<>>, ascv |-> 0, vshv |-> 0, vshs |-> 0, step |-> 0,
             nv |-> 0, na |-> 0]      \* video / audio messages so far (of any kind)

IsCoded(u) == u.t \in {"idr", "slice", "sei"}
IsPsU(u) == u.t \in {"sps", "pps", "vps"}
Required(u) == u.t \in {"idr", "slice"} \/ (u.t = "sei" /\ vc = "avc")
RECURSIVE PsAfter(_, _, _)
PsAfter(ps, nals, i) == IF i > Len(nals) THEN ps
                        ELSE PsAfter(IF IsPsU(nals[i]) THEN [ps EXCEPT ![nals[i].t] = nals[i].v] ELSE ps, nals, i + 1)

HistStep(h0, m, ts) ==
  LET st == h0.step + 1
      h == [h0 EXCEPT !.nv = IF m.k \in {"vsh", "v"} THEN @ + 1 ELSE @, !.na = IF m.k \in {"ash", "a"} THEN @ + 1 ELSE @] IN
  CASE m.k = "vsh" -> [h EXCEPT !.step = st, !.vshv = m.ver, !.vshs = SvOf(m), !.ps = [sps |-> SvOf(m), pps |-> m.ver, vps |-> SvOf(m)]]
    [] m.k = "ash" -> [h EXCEPT !.step = st, !.ascv = m.ver, !.asc = m.asc]
    [] m.k = "v" ->
         LET ps2 == PsAfter(h.ps, m.nals, 1)
             coded == SelectSeq(m.nals, IsCoded)
             nonaud == SelectSeq(m.nals, LAMBDA u : u.t # "aud")
             hasReq == \E i \in 1..Len(m.nals) : Required(m.nals[i])
             fr == [ts |-> ts, cts |-> m.cts, units |-> coded, key |-> (\E i \in 1..Len(coded) : coded[i].t = "idr"),
                    inband |-> {m.nals[i].t : i \in {j \in 1..Len(m.nals) : IsPsU(m.nals[j])}}, ps |-> ps2, step |-> st]
         IN [h EXCEPT !.step = st, !.ps = ps2,
                      !.pubV = IF hasReq THEN Append(@, fr) ELSE @,
                      !.pubVR = IF nonaud # <<>> THEN Append(@, [ts |-> ts, units |-> nonaud, step |-> st]) ELSE @]
    [] m.k = "a" -> [h EXCEPT !.step = st, !.pubA = Append(@, [ts |-> ts, n |-> m.n, id |-> m.id, asc |-> h.asc, step |-> st])]
    [] OTHER -> [h EXCEPT !.step = st]

---------------------------------------------------------------------------
(* Acceptor, TS side.  Consumer state: cursors into pubV / pubA (0 = not started), time-base      *)
(* constants (<<>> = unbound), publication step of the first frame received, verdict so far.      *)
ConsInit == [ok |-> TRUE, vcur |-> 0, acur |-> 0, vbase |-> <<>>, abase |-> <<>>, start |-> 0]

FrameWF(f) == f.lenOk /\ f.ccOk /\ f.hdrOk /\ f.junk = 0 /\ IsT3(f.pts) /\ IsT3(f.dts) /\ Len(f.units) >= 1

NalU(f) == SelectSeq(f.units, LAMBDA u : u.k = "nal")
UnitIs(u, p) == u.id = p.id /\ u.off = 0 /\ u.n = p.n /\ u.ok /\ u.t = p.t
SameSeq(d, p) == Len(d) = Len(p) /\ \A i \in 1..Len(p) : UnitIs(d[i], p[i])
FirstIdr(f) == IF \E i \in 1..Len(f.units) : f.units[i].k = "nal" /\ f.units[i].t = "idr"
               THEN CHOOSE i \in 1..Len(f.units) : /\ f.units[i].k = "nal" /\ f.units[i].t = "idr"
                                                    /\ \A j \in 1..(i-1) : ~(f.units[j].k = "nal" /\ f.units[j].t = "idr")
               ELSE 0
FirstVcl(f) == IF \E i \in 1..Len(f.units) : f.units[i].k = "nal" /\ f.units[i].t \in {"idr", "slice"}
               THEN CHOOSE i \in 1..Len(f.units) : /\ f.units[i].k = "nal" /\ f.units[i].t \in {"idr", "slice"}
                                                    /\ \A j \in 1..(i-1) : ~(f.units[j].k = "nal" /\ f.units[j].t \in {"idr", "slice"})
               ELSE Len(f.units) + 1
FindV(h, id) == IF \E j \in 1..Len(h.pubV) : \E i \in 1..Len(h.pubV[j].units) : h.pubV[j].units[i].id = id
                THEN CHOOSE j \in 1..Len(h.pubV) : \E i \in 1..Len(h.pubV[j].units) : h.pubV[j].units[i].id = id
                ELSE 0
FindA(h, id) == IF \E j \in 1..Len(h.pubA) : h.pubA[j].id = id
                THEN CHOOSE j \in 1..Len(h.pubA) : h.pubA[j].id = id ELSE 0
Min(a, b) == IF a < b THEN a ELSE b
StartOf(c, st) == IF c.start = 0 THEN st ELSE Min(c.start, st)

VideoOk(h, f, p) ==
  LET d == NalU(f)
      i0 == FirstIdr(f)
  IN /\ \A i \in 1..Len(f.units) : f.units[i].k \in {"aud", "ps", "nal"}            \* OnlyAllowedExtras
     /\ \/ SameSeq(d, p.units)                                                          \* SameUnits
        \/ vc = "hevc" /\ SameSeq(d, SelectSeq(p.units, LAMBDA u : u.t # "sei"))       \*   (H.265 SEI may be omitted)
     /\ \A i \in 1..Len(f.units) : f.units[i].k = "ps" =>                              \* parameter sets: those in force,
          /\ f.units[i].ok /\ f.units[i].t \in PsTypes /\ f.units[i].v = p.ps[f.units[i].t]
          /\ \/ (i0 > 0 /\ i < i0)                                                       \*   before a key picture
             \/ f.units[i].t \in p.inband                                                \*   or where the publisher put them
     /\ p.key => \A t \in PsTypes : \E i \in 1..(i0-1) : f.units[i].k = "ps" /\ f.units[i].t = t   \* KeyHasParamSets
     /\ \A t \in p.inband : \E i \in 1..(FirstVcl(f)-1) : f.units[i].k = "ps" /\ f.units[i].t = t       \* a set sent in band reaches
                                                                                                   \*   the decoder before the picture
     /\ T3Sub(f.pts, f.dts) = T3OfInt(90 * p.cts)                                       \* TsTime
     /\ f.st = (IF vc = "hevc" THEN 36 ELSE 27)

AdtsOk(u, p) ==
  /\ u.k = "adts" /\ u.id = p.id /\ u.off = 0 /\ u.n = p.n /\ u.ok
  /\ Len(p.asc) = 3
  /\ u.h.sync /\ u.h.layer = 0 /\ u.h.blocks = 0
  /\ u.h.hdr = (IF u.h.protAbs = 1 THEN 7 ELSE 9)
  /\ u.h.profile = p.asc[1] - 1 /\ u.h.sfi = p.asc[2] /\ u.h.ch = p.asc[3]
  /\ u.h.flen = u.h.hdr + p.n

AcceptVideo(h, c, f) ==
  LET d == NalU(f)
      j == IF c.vcur = 0 THEN (IF d = <<>> THEN 0 ELSE FindV(h, d[1].id)) ELSE c.vcur + 1
  IN IF j = 0 \/ j > Len(h.pubV) THEN [c EXCEPT !.ok = FALSE]
     ELSE LET p == h.pubV[j]
              base == T3Sub(f.dts, T3Mul90(p.ts))
          IN IF FrameWF(f) /\ vc \in {"avc", "hevc"} /\ VideoOk(h, f, p) /\ (c.vbase = <<>> \/ c.vbase = base)
             THEN [c EXCEPT !.vcur = j, !.vbase = base, !.start = StartOf(c, p.step)]
             ELSE [c EXCEPT !.ok = FALSE]

AcceptAudio(h, c, f) ==
  LET k == Len(f.units)
      j == IF c.acur = 0 THEN (IF k = 0 THEN 0 ELSE FindA(h, f.units[1].id)) ELSE c.acur + 1
  IN IF j = 0 \/ j + k - 1 > Len(h.pubA) \/ ~FrameWF(f) THEN [c EXCEPT !.ok = FALSE]
     ELSE LET p == h.pubA[j]
              base == T3Sub(f.pts, T3Mul90(p.ts))
              unitsOk == IF ac = "aac" THEN f.st = 15 /\ \A i \in 1..k : AdtsOk(f.units[i], h.pubA[j + i - 1])
                         ELSE /\ ac = "opus" /\ k = 1
                              /\ f.units[1].k = "raw" /\ f.units[1].id = p.id /\ f.units[1].off = 0
                              /\ f.units[1].n = p.n /\ f.units[1].ok
          IN IF unitsOk /\ f.pts = f.dts /\ (c.abase = <<>> \/ c.abase = base)
             THEN [c EXCEPT !.acur = j + k - 1, !.abase = base, !.start = StartOf(c, p.step)]
             ELSE [c EXCEPT !.ok = FALSE]

RECURSIVE AcceptTs(_, _, _, _)
AcceptTs(h, c, fs, i) ==
  IF i > Len(fs) \/ ~c.ok THEN c
  ELSE AcceptTs(h, IF fs[i].pid = 256 THEN AcceptVideo(h, c, fs[i])
                   ELSE IF fs[i].pid = 257 THEN AcceptAudio(h, c, fs[i])
                   ELSE [c EXCEPT !.ok = FALSE], fs, i + 1)

(* what one consumer received in one step: frames + demuxer-level facts                          *)
AcceptOut(h, c, o) == IF o.bad = <<>> THEN AcceptTs(h, c, o.frames, 1) ELSE [c EXCEPT !.ok = FALSE]

TsAudio == ac \in {"aac", "opus"}
(* completeness at the end of the stream: from its first frame on a consumer missed nothing      *)
EndOk(h, c) ==
  c.start > 0 =>
    /\ IF c.vcur > 0 THEN c.vcur = Len(h.pubV) ELSE \A j \in 1..Len(h.pubV) : h.pubV[j].step <= c.start
    /\ TsAudio => IF c.acur > 0 THEN c.acur = Len(h.pubA) ELSE \A j \in 1..Len(h.pubA) : h.pubA[j].step <= c.start

(* a consumer that is attached before the first message has started, once the stream is over, no   *)
(* later than the first key frame (or, for a stream without video, the first audio frame) - also   *)
(* when the stream ended while lal was still probing it (fewer than ProbeMax messages of one track): *)
(* what was published is handed out when the input leaves                                           *)
ProbeDone(h) == (h.nv > 0 /\ h.na > 0) \/ h.step >= ProbeMax
FirstKeyStep(h) == IF \E j \in 1..Len(h.pubV) : h.pubV[j].key
                   THEN h.pubV[CHOOSE j \in 1..Len(h.pubV) : h.pubV[j].key /\ \A i \in 1..(j-1) : ~h.pubV[i].key].step
                   ELSE 0
StartsInTime(h, c) ==
  /\ FirstKeyStep(h) > 0 => c.start > 0 /\ c.start <= FirstKeyStep(h)
  /\ (h.nv = 0 /\ TsAudio /\ h.pubA # <<>>) => c.start > 0 /\ c.start <= h.pubA[1].step

---------------------------------------------------------------------------
(* Acceptor, RTP side (one session: SDP, then the packets of both tracks).                       *)
RtpInit == [ok |-> TRUE, sdp |-> FALSE, vrate |-> 0, arate |-> 0, vcur |-> 0, acur |-> 0, vseq |-> -1, aseq |-> -1, start |-> 0,
            gate |-> FALSE,    \* a subscriber of the Group (C02: described as the stream is now, starts at a key frame)
            play |-> -1]       \* messages published when its PLAY was answered (-1: not playing)

RtpUnitIs(u, p) == IF IsPsU(p) THEN u.k = "ps" /\ u.t = p.t /\ u.v = p.v /\ u.ok
                   ELSE u.k = "nal" /\ UnitIs(u, p)

RtpFrameIs(g, p) == Len(g.units) = Len(p.units) /\ \A i \in 1..Len(p.units) : RtpUnitIs(g.units[i], p.units[i])
\* the first frame of a consumer may lack leading units (key-frame gating admits it at the first boundary packet)
RtpFrameTail(g, p) == /\ Len(g.units) <= Len(p.units)
                      /\ \A i \in 1..Len(g.units) : RtpUnitIs(g.units[i], p.units[Len(p.units) - Len(g.units) + i])
\* where a consumer starts: the first published frame the packets of its first frame reassemble to
FindVR(h, g) == IF \E j \in 1..Len(h.pubVR) : RtpFrameTail(g, h.pubVR[j])
                THEN CHOOSE j \in 1..Len(h.pubVR) : RtpFrameTail(g, h.pubVR[j]) /\ \A i \in 1..(j-1) : ~RtpFrameTail(g, h.pubVR[i])
                ELSE 0

VRKey(p) == \E i \in 1..Len(p.units) : p.units[i].t = "idr"
HdrVer(h, t) == IF t = "pps" THEN h.vshv ELSE h.vshs      \* the sets of the sequence header in force
SdpOk(h, s, late) ==
  LET ms == s.media
      vm == SelectSeq(ms, LAMBDA x : x.kind = "video")
      am == SelectSeq(ms, LAMBDA x : x.kind = "audio")
  IN /\ IF late THEN Len(vm) <= 1 ELSE Len(vm) = (IF h.vshv > 0 THEN 1 ELSE 0)
     /\ Len(vm) = 1 =>
          /\ vm[1].rate = 90000 /\ vm[1].enc = (IF vc = "hevc" THEN "H265" ELSE "H264") /\ vm[1].pt \in 96..127
          /\ \A t \in PsTypes : IF late THEN vm[1][t] \in 1..h.vshv ELSE vm[1][t] = HdrVer(h, t)
     /\ Len(am) <= 1
     /\ Len(am) = 1 =>
          CASE ac = "aac" -> /\ am[1].enc = "MPEG4-GENERIC" /\ am[1].asc >= 1
                             /\ (~late => am[1].asc = h.ascv /\ Len(h.asc) = 3 /\ am[1].rate = AscFreq(h.asc[2]))
            [] ac = "opus" -> am[1].enc = "OPUS" /\ am[1].rate = 48000
            [] ac = "g711a" -> am[1].enc = "PCMA" /\ am[1].rate = 8000 /\ am[1].pt = 8
            [] ac = "g711u" -> am[1].enc = "PCMU" /\ am[1].rate = 8000 /\ am[1].pt = 0
            [] OTHER -> FALSE
     /\ Len(vm) + Len(am) >= 1

(* C02 for a subscriber of the Group, whenever it joins: the description carries the video parameter   *)
(* sets of the sequence header in force now (not those of the time lal analysed the stream).           *)
VideoCurrent(h, s) == LET vm == SelectSeq(s.media, LAMBDA x : x.kind = "video")
                      IN Len(vm) = 1 => \A t \in PsTypes : vm[1][t] = HdrVer(h, t)
SdpCur(h, s) == SdpOk(h, s, TRUE) /\ VideoCurrent(h, s)
(* the remuxer may describe the stream again after a sequence-header change: same tracks, same clock   *)
(* rates, the parameter sets in force now                                                              *)
SdpRe(h, r, s) ==
  LET vm == SelectSeq(s.media, LAMBDA x : x.kind = "video")
      am == SelectSeq(s.media, LAMBDA x : x.kind = "audio")
  IN /\ SdpOk(h, s, TRUE) /\ VideoCurrent(h, s)
     /\ Len(vm) = (IF r.vrate > 0 THEN 1 ELSE 0) /\ Len(am) = (IF r.arate > 0 THEN 1 ELSE 0)
     /\ Len(am) = 1 => am[1].rate = r.arate

RtpSdp(h, r, s, late) ==
  IF r.sdp /\ ~r.gate /\ ~late /\ SdpRe(h, r, s) THEN r
  ELSE IF ~r.sdp /\ (IF r.gate THEN SdpCur(h, s) ELSE SdpOk(h, s, late))
  THEN LET vm == SelectSeq(s.media, LAMBDA x : x.kind = "video")
           am == SelectSeq(s.media, LAMBDA x : x.kind = "audio")
       IN [r EXCEPT !.sdp = TRUE, !.vrate = IF vm = <<>> THEN 0 ELSE vm[1].rate, !.arate = IF am = <<>> THEN 0 ELSE am[1].rate]
  ELSE [r EXCEPT !.ok = FALSE]

AcceptRtpFrame(h, r, g) ==
  IF ~(r.sdp /\ g.wf /\ g.seqOk /\ g.mk /\ Len(g.units) >= 1) THEN [r EXCEPT !.ok = FALSE]
  ELSE IF g.tr = "v" THEN
    LET j == IF r.vcur = 0 THEN FindVR(h, g) ELSE r.vcur + 1 IN
    IF j = 0 \/ j > Len(h.pubVR) THEN [r EXCEPT !.ok = FALSE]
    ELSE LET p == h.pubVR[j] IN
         IF /\ (IF r.vcur = 0 THEN RtpFrameTail(g, p) ELSE RtpFrameIs(g, p))
            /\ (r.gate /\ r.vcur = 0) => VRKey(p)                                      \* KeyFirst
            /\ (r.vseq < 0 \/ g.seq = r.vseq)
            /\ r.vrate > 0 /\ RtpTimeOk(g.ts, p.ts, r.vrate)
         THEN [r EXCEPT !.vcur = j, !.vseq = (g.seq + g.np) % 65536, !.start = StartOf(r, p.step)]
         ELSE [r EXCEPT !.ok = FALSE]
  ELSE
    LET j == IF r.acur = 0 THEN FindA(h, g.units[1].id) ELSE r.acur + 1 IN
    IF j = 0 \/ j > Len(h.pubA) THEN [r EXCEPT !.ok = FALSE]
    ELSE LET p == h.pubA[j] u == g.units[1] IN
         IF /\ Len(g.units) = 1 /\ u.k = "raw" /\ u.id = p.id /\ u.off = 0 /\ u.n = p.n /\ u.ok
            /\ (r.aseq < 0 \/ g.seq = r.aseq)
            /\ r.arate > 0 /\ RtpTimeOk(g.ts, p.ts, r.arate)
         THEN [r EXCEPT !.acur = j, !.aseq = (g.seq + g.np) % 65536, !.start = StartOf(r, p.step)]
         ELSE [r EXCEPT !.ok = FALSE]

RECURSIVE AcceptRtp(_, _, _, _)
AcceptRtp(h, r, gs, i) == IF i > Len(gs) \/ ~r.ok THEN r ELSE AcceptRtp(h, AcceptRtpFrame(h, r, gs[i]), gs, i + 1)
RECURSIVE AcceptSdps(_, _, _, _, _)
AcceptSdps(h, r, ss, i, late) == IF i > Len(ss) \/ ~r.ok THEN r ELSE AcceptSdps(h, RtpSdp(h, r, ss[i], late), ss, i + 1, late)
RtpCons == {"ra", "rg", "rh"}   \* ra: remux.Rtmp2RtspRemuxer alone; rg, rh: RTSP subscribers (interleaved) of the Group
RtpGated == {"rg", "rh"}

RtpEndOk(h, r) ==
  r.start > 0 =>
    /\ IF r.vcur > 0 THEN r.vcur = Len(h.pubVR) ELSE \A j \in 1..Len(h.pubVR) : h.pubVR[j].step <= r.start
    /\ IF r.acur > 0 THEN r.acur = Len(h.pubA) ELSE \A j \in 1..Len(h.pubA) : h.pubA[j].step <= r.start

(* C02 for a subscriber of the Group: once its PLAY is answered it starts no later than the next key  *)
(* frame - or, described without video, the next audio frame (never held back waiting for a key frame) *)
RtspStartsInTime(h, r) ==
  r.play >= 0 =>
    LET ks == {h.pubVR[j].step : j \in {i \in 1..Len(h.pubVR) : VRKey(h.pubVR[i]) /\ h.pubVR[i].step > r.play}}
        as == {h.pubA[j].step : j \in {i \in 1..Len(h.pubA) : h.pubA[i].step > r.play}}
        first(S) == CHOOSE x \in S : \A y \in S : x <= y
    IN /\ (r.vrate > 0 /\ ks # {}) => r.start > 0 /\ r.start <= first(ks)
       /\ (r.vrate = 0 /\ r.arate > 0 /\ as # {}) => r.start > 0 /\ r.start <= first(as)
RtpPlayed(h, r, o) == IF "played" \in DOMAIN o /\ o.played /\ r.play < 0 THEN [r EXCEPT !.play = h.step] ELSE r

(* the consumer of the remuxer itself is there from the start: once the session description is out *)
(* it has everything from the first frame of each described track                                  *)
RtpStartsInTime(h, r) ==
  r.sdp =>
    LET firsts == (IF r.vrate > 0 /\ h.pubVR # <<>> THEN {h.pubVR[1].step} ELSE {}) \cup
                  (IF r.arate > 0 /\ h.pubA # <<>> THEN {h.pubA[1].step} ELSE {})
    IN firsts # {} => r.start > 0 /\ \A x \in firsts : r.start <= x

---------------------------------------------------------------------------
(* Reference model of lal: Rtmp2MpegtsRemuxer + HTTP-TS fan-out.  Times are integers (ms).        *)
(* A message carries tm (publication time in ms).                                                 *)
Delay == 63000
RmInit == [done |-> FALSE, q |-> <<>>, vseen |-> FALSE, aseen |-> FALSE, sp |-> NoPs, hasSp |-> FALSE,
           asc |-> <<>>, cache |-> <<>>, cpts |-> 0, opened |-> FALSE, vb |-> -1, ab |-> -1,
           out |-> <<>>,                     \* frames produced in this step: [f, boundary]
           patpmt |-> FALSE, ring |-> <<>>,  \* Group.patpmt, httptsGopCache
           sub |-> [c \in {"t1", "t2"} |-> [in |-> FALSE, fresh |-> FALSE, wait |-> FALSE]]]

MkUnit(k, t, v, id, n) == [k |-> k, t |-> t, v |-> v, id |-> id, off |-> 0, n |-> n, ok |-> TRUE]
PsUnits(sp) == [i \in 1..Cardinality(PsTypes) |->
                 LET t == IF vc = "hevc" THEN <<"vps", "sps", "pps">>[i] ELSE <<"sps", "pps">>[i]
                 IN MkUnit("ps", t, sp[t], 0, 0)]
MkFrame(pid, st, dts, pts, key, units) ==
  [pid |-> pid, st |-> st, pts |-> T3OfInt(pts + Delay), dts |-> T3OfInt(dts + Delay),
   flags |-> IF pts = dts THEN 2 ELSE 3, rai |-> IF key THEN 1 ELSE 0,
   lenOk |-> TRUE, ccOk |-> TRUE, hdrOk |-> TRUE, junk |-> 0, units |-> units]

(* onFrame: time-base filter, boundary rule, `opened`                                             *)
RmOnFrame(r, pid, dts, cts, key, units) ==
  LET isA == pid = 257
      b0 == IF isA THEN (IF r.ab < 0 THEN dts ELSE r.ab) ELSE (IF r.vb < 0 THEN dts ELSE r.vb)
      d == dts - b0
      boundary == IF isA THEN ~r.hasSp ELSE key /\ (r.asc = <<>> \/ ~r.opened \/ r.cache # <<>>)
      st == IF isA THEN (IF ac = "aac" THEN 15 ELSE 6) ELSE (IF vc = "hevc" THEN 36 ELSE 27)
      f == MkFrame(pid, st, d, d + 90 * cts, key, units)
  IN [r EXCEPT !.ab = IF isA THEN b0 ELSE @, !.vb = IF isA THEN @ ELSE b0,
               !.opened = @ \/ boundary, !.out = Append(@, [f |-> f, b |-> boundary])]

AdtsUnit(a) == [MkUnit("adts", "", 0, a.id, a.n) EXCEPT !.k = "adts"] @@
               [h |-> [sync |-> TRUE, layer |-> 0, blocks |-> 0, protAbs |-> 1, hdr |-> 7,
                       profile |-> a.asc[1] - 1, sfi |-> a.asc[2], ch |-> a.asc[3], flen |-> 7 + a.n]]
RmFlushAudio(r) ==
  IF r.cache = <<>> THEN r
  ELSE LET us == IF ac = "aac" THEN [i \in 1..Len(r.cache) |-> AdtsUnit(r.cache[i])]
                 ELSE << MkUnit("raw", "", 0, r.cache[1].id, r.cache[1].n) >>
       IN RmOnFrame([r EXCEPT !.cache = <<>>], 257, r.cpts, 0, FALSE, us)

(* feedVideo: walk the NAL units of one message                                                   *)
HasIdr(nals) == \E i \in 1..Len(nals) : nals[i].t = "idr"
RECURSIVE VWalk(_, _, _)
VWalk(nals, i, s) ==   \* s = [units, aud, sent, frame (a picture / SEI unit was written), sp, hasSp, drop]
  IF i > Len(nals) \/ s.drop THEN s
  ELSE LET u == nals[i]
           withAud == IF s.aud THEN s.units ELSE Append(s.units, MkUnit("aud", "aud", 0, 0, 0))
       IN
       IF u.t = "aud" \/ (vc = "hevc" /\ u.t = "sei") THEN VWalk(nals, i + 1, s)
       ELSE IF IsPsU(u) THEN
         \* every set updates the cache on its own; it stays in place unless the cache is written before a key picture
         LET sp2 == [s.sp EXCEPT ![u.t] = u.v]
             s2 == [s EXCEPT !.sp = sp2, !.hasSp = @ \/ \A t \in PsTypes : sp2[t] # 0]
         IN IF HasIdr(nals) THEN VWalk(nals, i + 1, s2)
            ELSE VWalk(nals, i + 1, [s2 EXCEPT !.units = Append(withAud, MkUnit("ps", u.t, u.v, 0, 0)), !.aud = TRUE,
                                               !.sent = IF vc = "avc" THEN @ ELSE FALSE])
       ELSE
         LET isKey == u.t = "idr"
             needPs == isKey /\ ~s.sent
             withPs == IF needPs THEN withAud \o PsUnits(s.sp) ELSE withAud
             sent2 == IF isKey THEN TRUE ELSE IF vc = "avc" /\ u.t = "sei" THEN s.sent ELSE FALSE
         IN IF needPs /\ ~s.hasSp THEN [s EXCEPT !.drop = TRUE]
            ELSE VWalk(nals, i + 1, [s EXCEPT !.units = Append(withPs, MkUnit("nal", u.t, 0, u.id, u.n)),
                                              !.aud = TRUE, !.sent = sent2, !.frame = TRUE])

RmPop(r, m) ==
  CASE m.k = "vsh" -> [r EXCEPT !.sp = [sps |-> SvOf(m), pps |-> m.ver, vps |-> SvOf(m)], !.hasSp = TRUE]
    [] m.k = "ash" -> IF ac = "aac" THEN [r EXCEPT !.asc = m.asc] ELSE r
    [] m.k = "v" ->
         LET s == VWalk(m.nals, 1, [units |-> <<>>, aud |-> FALSE, sent |-> FALSE, frame |-> FALSE, sp |-> r.sp,
                                    hasSp |-> r.hasSp, drop |-> FALSE])
             r1 == [r EXCEPT !.sp = s.sp, !.hasSp = s.hasSp]
             dts == 90 * m.tm
             r2 == IF r1.cache # <<>> /\ r1.cpts + 27000 < dts THEN RmFlushAudio(r1) ELSE r1
         IN IF s.drop \/ s.units = <<>> \/ ~s.frame THEN r1
            ELSE RmOnFrame(r2, 256, dts, m.cts, m.key, s.units)
    [] m.k = "a" ->
         IF ac = "aac" THEN
           IF r.asc = <<>> THEN r
           ELSE LET pts == 90 * m.tm
                    r1 == IF r.cache # <<>> /\ r.cpts + 13500 < pts THEN RmFlushAudio(r) ELSE r
                IN [r1 EXCEPT !.cpts = IF r1.cache = <<>> THEN pts ELSE @,
                              !.cache = Append(@, [id |-> m.id, n |-> m.n, asc |-> r.asc])]
         ELSE IF ac = "opus" THEN RmFlushAudio([r EXCEPT !.cpts = 90 * m.tm, !.cache = Append(@, [id |-> m.id, n |-> m.n, asc |-> <<>>])])
         ELSE r
    [] OTHER -> r

RECURSIVE RmPopAll(_, _, _)
RmPopAll(r, q, i) == IF i > Len(q) THEN r ELSE RmPopAll(RmPop(r, q[i]), q, i + 1)

(* rtmp2MpegtsFilter.Push                                                                         *)
RmPush(r, m) ==
  IF r.done THEN RmPop(r, m)
  ELSE LET q2 == Append(r.q, m)
           vs == r.vseen \/ m.k \in {"vsh", "v"}
           as == r.aseen \/ m.k \in {"ash", "a"}
       IN IF (vs /\ as) \/ Len(q2) >= ProbeMax
          THEN RmPopAll([r EXCEPT !.done = TRUE, !.q = <<>>, !.vseen = vs, !.aseen = as, !.patpmt = TRUE], q2, 1)
          ELSE [r EXCEPT !.q = q2, !.vseen = vs, !.aseen = as]

(* Rtmp2MpegtsRemuxer.Dispose: what the probe queue still holds is remuxed (PAT/PMT for the tracks *)
(* seen so far), then the pending audio is flushed                                                  *)
RmDispose(r) == RmFlushAudio(IF ~r.done /\ r.q # <<>>
                             THEN RmPopAll([r EXCEPT !.done = TRUE, !.q = <<>>, !.patpmt = TRUE], r.q, 1) ELSE r)

(* Group.feedTsPackets for one frame; del = frames handed to each consumer in this step           *)
RingFlat(ring) == IF ring = <<>> THEN <<>> ELSE
                  LET RECURSIVE F(_) F(i) == IF i > Len(ring) THEN <<>> ELSE ring[i] \o F(i + 1) IN F(1)
FeedTs(r, del, x) ==
  LET one(c) ==
        LET s == r.sub[c]
            pre == IF s.in /\ s.fresh THEN RingFlat(r.ring) ELSE <<>>
            wait1 == IF s.in /\ s.fresh /\ r.ring # <<>> THEN FALSE ELSE s.wait
            give == s.in /\ (~wait1 \/ x.b)
        IN [sub |-> [s EXCEPT !.fresh = IF s.in THEN FALSE ELSE @, !.wait = IF give THEN FALSE ELSE wait1],
            del |-> del[c] \o pre \o (IF give THEN <<x.f>> ELSE <<>>)]
      ring2 == IF GopNum = 0 THEN r.ring
               ELSE IF x.b THEN (IF Len(r.ring) = GopNum THEN Tail(r.ring) ELSE r.ring) \o << <<x.f>> >>
               ELSE IF r.ring = <<>> THEN r.ring
               ELSE [r.ring EXCEPT ![Len(r.ring)] = Append(@, x.f)]
  IN [r |-> [r EXCEPT !.sub = [c \in DOMAIN r.sub |-> one(c).sub], !.ring = ring2],
      del |-> [c \in DOMAIN r.sub |-> one(c).del]]
RECURSIVE FeedAll(_, _, _)
FeedAll(r, del, i) == IF i > Len(r.out) THEN [r |-> [r EXCEPT !.out = <<>>], del |-> del]
                      ELSE LET y == FeedTs(r, del, r.out[i]) IN FeedAll(y.r, y.del, i + 1)
NoDel == [c \in {"t1", "t2"} |-> <<>>]

---------------------------------------------------------------------------
(* Reference model of lal, RTSP side: remux.Rtmp2RtspRemuxer (analyse stage of ProbeMax messages,    *)
(* session description, described again when the video sequence header changes, one RTP frame per    *)
(* message) and Group.feedRtpPacket (a subscriber that is playing and still waits is admitted at the  *)
(* first parameter set / IDR unit of a key-frame message; without video in the description at once). *)
(* Subscriber stages: no -> desc (DESCRIBE sent) -> sdp (answered) -> play.                            *)
(* mut selects a model-level mutant the design check must catch ("none": the reference): "stale" the *)
(* description keeps the first sequence header, "anyps" a parameter set of any message opens the gate, *)
(* "stage" a key frame that passes between DESCRIBE and PLAY ends the wait, "hold" a subscriber of a  *)
(* stream without video waits for a key frame all the same.                                           *)
RrInit == [done |-> FALSE, cache |-> <<>>, sps |-> 0, sv |-> 0, asc |-> 0, ascf |-> <<>>, apt |-> FALSE,
           sdp |-> <<>>,                      \* <<>> or << session description >>
           vseq |-> 0, aseq |-> 0,
           out |-> <<>>,                      \* frames produced in this step: [g, key]
           sub |-> [c \in RtpGated |-> [st |-> "no", wait |-> TRUE]]]

RrARate(r) == CASE ac = "aac" -> AscFreq(r.ascf[2]) [] ac = "opus" -> 48000 [] OTHER -> 8000
RrSdp(r) ==
  [media |->
    (IF r.sps > 0
     THEN << [kind |-> "video", enc |-> IF vc = "hevc" THEN "H265" ELSE "H264", rate |-> 90000, pt |-> 96,
              sps |-> r.sv, pps |-> r.sps, vps |-> IF vc = "hevc" THEN r.sv ELSE 0, asc |-> 0] >> ELSE <<>>) \o
    (IF r.asc > 0 \/ r.apt
     THEN << [kind |-> "audio", rate |-> RrARate(r), sps |-> 0, pps |-> 0, vps |-> 0, asc |-> r.asc,
              enc |-> CASE ac = "aac" -> "MPEG4-GENERIC" [] ac = "opus" -> "OPUS" [] ac = "g711a" -> "PCMA" [] OTHER -> "PCMU",
              pt |-> CASE ac = "g711a" -> 8 [] ac = "g711u" -> 0 [] OTHER -> 97] >> ELSE <<>>)]
RrHasVideo(r) == r.sdp # <<>> /\ r.sps > 0 /\ \E i \in 1..Len(r.sdp[1].media) : r.sdp[1].media[i].kind = "video"

RrUnit(u) == IF IsPsU(u) THEN [k |-> "ps", t |-> u.t, v |-> u.v, id |-> 0, off |-> 0, n |-> 0, ok |-> TRUE]
             ELSE [k |-> "nal", t |-> u.t, v |-> 0, id |-> u.id, off |-> 0, n |-> u.n, ok |-> TRUE]
RrG(tr, seq, ts, units) == [tr |-> tr, wf |-> TRUE, seqOk |-> TRUE, mk |-> TRUE, seq |-> seq, np |-> 1, ts |-> ts, units |-> units]
\* remux(): one message -> at most one frame (no packer for a track that is not known)
RrRemux(r, m) ==
  IF m.k = "v" THEN
    LET us == SelectSeq(m.nals, LAMBDA u : u.t # "aud") IN
    IF r.sps = 0 \/ us = <<>> THEN r
    ELSE [r EXCEPT !.vseq = (@ + 1) % 65536,
                   !.out = Append(@, [key |-> m.key,
                                      g |-> RrG("v", r.vseq, RtpExpect(T3OfInt(m.tm), 90000), [i \in 1..Len(us) |-> RrUnit(us[i])])])]
  ELSE IF m.k = "a" /\ (r.asc > 0 \/ r.apt) THEN
    [r EXCEPT !.aseq = (@ + 1) % 65536,
              !.out = Append(@, [key |-> FALSE,
                                 g |-> RrG("a", r.aseq, RtpExpect(T3OfInt(m.tm), RrARate(r)),
                                           << [k |-> "raw", t |-> "", v |-> 0, id |-> m.id, off |-> 0, n |-> m.n, ok |-> TRUE] >>)])]
  ELSE r
RECURSIVE RrRemuxAll(_, _, _)
RrRemuxAll(r, q, i) == IF i > Len(q) THEN r ELSE RrRemuxAll(RrRemux(r, q[i]), q, i + 1)

RrPush(r, m, mut) ==
  IF r.done THEN
    IF m.k = "vsh" THEN (IF r.sps > 0 /\ m.ver # r.sps /\ mut # "stale" THEN LET r1 == [r EXCEPT !.sps = m.ver, !.sv = SvOf(m)] IN [r1 EXCEPT !.sdp = << RrSdp(r1) >>] ELSE r)
    ELSE IF m.k = "ash" THEN r
    ELSE RrRemux(r, m)
  ELSE LET r1 == CASE m.k = "vsh" -> [r EXCEPT !.sps = m.ver, !.sv = SvOf(m)]
                   [] m.k = "ash" -> [r EXCEPT !.asc = m.ver, !.ascf = m.asc]
                   [] m.k = "a" -> [r EXCEPT !.apt = @ \/ ac # "aac", !.cache = Append(@, m)]
                   [] OTHER -> [r EXCEPT !.cache = Append(@, m)]
       IN IF (r1.sps > 0 /\ (r1.asc > 0 \/ r1.apt)) \/ Len(r1.cache) >= ProbeMax
          THEN RrRemuxAll([r1 EXCEPT !.done = TRUE, !.cache = <<>>, !.sdp = << RrSdp(r1) >>], r1.cache, 1)
          ELSE r1

\* Group.feedRtpPacket for one frame; del = what each subscriber is handed in this step
RrBoundaryAt(x, mut) == IF x.g.tr = "v" /\ (x.key \/ mut = "anyps") /\ \E i \in 1..Len(x.g.units) : x.g.units[i].k = "ps" \/ x.g.units[i].t = "idr"
                   THEN CHOOSE i \in 1..Len(x.g.units) : /\ (x.g.units[i].k = "ps" \/ x.g.units[i].t = "idr")
                                                          /\ \A j \in 1..(i-1) : ~(x.g.units[j].k = "ps" \/ x.g.units[j].t = "idr")
                   ELSE 0
RrFeed(r, del, x, mut) ==
  LET one(c) ==
        LET s == r.sub[c]
            i0 == IF RrHasVideo(r) \/ mut = "hold" THEN RrBoundaryAt(x, mut) ELSE 1
        IN IF s.st # "play" THEN [sub |-> IF mut = "stage" /\ s.st = "sdp" /\ i0 > 0 THEN [s EXCEPT !.wait = FALSE] ELSE s, del |-> del[c]]
           ELSE IF ~s.wait THEN [sub |-> s, del |-> Append(del[c], x.g)]
           ELSE IF i0 = 0 THEN [sub |-> s, del |-> del[c]]
           ELSE [sub |-> [s EXCEPT !.wait = FALSE],
                 del |-> Append(del[c], [x.g EXCEPT !.units = SubSeq(x.g.units, i0, Len(x.g.units))])]
  IN [r |-> [r EXCEPT !.sub = [c \in DOMAIN r.sub |-> one(c).sub]], del |-> [c \in DOMAIN r.sub |-> one(c).del]]
RECURSIVE RrFeedAll(_, _, _, _)
RrFeedAll(r, del, i, mut) == IF i > Len(r.out) THEN [r |-> [r EXCEPT !.out = <<>>], del |-> del]
                             ELSE LET y == RrFeed(r, del, r.out[i], mut) IN RrFeedAll(y.r, y.del, i + 1, mut)
RrNoDel == [c \in RtpGated |-> <<>>]
\* one published message: the description (if it came into being now) goes to the subscribers whose DESCRIBE is
\* pending - they were not playing when the frames of this step went by
RrStep(r, m, mut) ==
  LET r1 == RrPush(r, m, mut)
      y == RrFeedAll(r1, RrNoDel, 1, mut)
      fresh == r.sdp = <<>> /\ r1.sdp # <<>>
  IN [r |-> [y.r EXCEPT !.sub = [c \in DOMAIN y.r.sub |->
                                   IF fresh /\ y.r.sub[c].st = "desc" THEN [y.r.sub[c] EXCEPT !.st = "sdp"] ELSE y.r.sub[c]]],
      del |-> y.del,
      sdp |-> [c \in DOMAIN r.sub |-> IF fresh /\ r.sub[c].st = "desc" THEN r1.sdp ELSE <<>>]]
=============================================================================

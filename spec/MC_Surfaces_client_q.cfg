SPECIFICATION Spec
CONSTANTS
  Surf = "client"
  Depth = 6
  Level = 1
INVARIANTS Total ClosedIsFinal Bounded
ACTION_CONSTRAINT EmitS
VIEW View

SPECIFICATION GSpec
CONSTANTS
  Cons = {"s1", "s2"}
  Healthy = {"h"}
  N = 3
  HCap = 64
  Parts = 1
  WsMode = FALSE
  MaxPub = 6
  MaxRead = 4
  MaxStall = 2
  MaxSweep = 3
  MaxLeave = 1
INVARIANTS Quiescent QueueBound WholeUnits
VIEW GView
ACTION_CONSTRAINT Emit

SPECIFICATION Spec
CONSTANTS
  FlagMode = "edge"
  RdLen = 3
  WrLen = 3
  Durs = {1}
INVARIANTS SaUnaffected SaNoLeak SaIff SaMonotone RaSdpIff RdSound WrSound BlSound
ACTION_CONSTRAINT EmitS

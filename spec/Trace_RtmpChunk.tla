---------------------------- MODULE Trace_RtmpChunk ----------------------------
(* Trace validation for C08.  One JSON line per event, many scenarios concatenated.        *)
(*   reset   {sc, kind, cs, nmsgs}                                                         *)
(*   Chunk   w2s: a chunk cut from lal's writer output by the independent splitter          *)
(*   Feed    s2r: a chunk chosen by the reference writer, with what lal's reader delivered  *)
(*   End     {leftover, lalout, lalerr}                                                     *)
EXTENDS RtmpChunk, IOUtils

P_ExtMark == <<255, 65535>>

Trace == ndJsonDeserialize(IOEnv.TRACE)

VARIABLES l,      \* next line
          kind,   \* scenario kind
          nmsgs,  \* w2s: messages submitted to lal's writer
          exp,    \* expected deliveries so far
          failed  \* the current scenario has been rejected (its remaining lines are skipped)

tvars == <<vars, l, kind, nmsgs, exp, failed>>

AnyCsids == 2..65599
RdOf(c) == IF c \in DOMAIN rd THEN rd[c] ELSE RdInit

TraceInit ==
  /\ l = 1 /\ kind = "none" /\ nmsgs = 0 /\ exp = <<>> /\ failed = FALSE
  /\ rd = << >> /\ cs = 128
  /\ wprev = << >> /\ pend = << >> /\ nsub = 0 /\ ok = TRUE /\ act = [name |-> "init"]
  /\ TLCSet(1, 1)

IsEvent(e) == l <= Len(Trace) /\ Trace[l].ev = e /\ l' = l + 1

Dummy == UNCHANGED <<wprev, pend, nsub, act>>

TraceReset ==
  /\ IsEvent("reset")
  /\ kind' = Trace[l].kind /\ nmsgs' = Trace[l].nmsgs /\ exp' = <<>>
  /\ rd' = << >> /\ cs' = Trace[l].cs /\ ok' = TRUE /\ failed' = FALSE
  /\ Dummy

ProjOut(o) == [csid |-> o.csid, type |-> o.type, msid |-> o.msid, len |-> o.len, ts |-> o.ts]
ProjOuts(s) == [i \in 1..Len(s) |-> ProjOut(s[i])]
AllOk(s) == \A i \in 1..Len(s) : s[i].ok

MsgOf(j) == [csid |-> j.csid, ts |-> j.ts, len |-> j.len, type |-> j.type, msid |-> j.msid,
             newcs |-> j.newcs, subs |-> j.subs]

\* A rejected line marks the scenario failed, reports its line once, and skips to the next reset.
Reject == /\ failed' = TRUE
          /\ IF failed THEN TRUE ELSE PrintT("@REJ@" \o ToString(l))
          /\ UNCHANGED <<rd, cs, exp>>

\* shared reader step; returns the record of ReadChunk plus deliveries
Step(ch, m) ==
  LET res == ReadChunk(RdOf(ch.csid), ch, cs)
      out == IF res.done THEN Delivered(ch.csid, res.r, res.ts, m) ELSE <<>>
  IN [res |-> res, out |-> out]

Apply(ch, m, s) ==
  /\ rd' = [c \in (DOMAIN rd) \cup {ch.csid} |-> IF c = ch.csid THEN s.res.r ELSE rd[c]]
  /\ cs' = IF s.res.done /\ s.res.r.type = TypeScs /\ m.newcs > 0 THEN m.newcs ELSE cs
  /\ exp' = exp \o s.out

\* w2s: what lal wrote must be a well-formed chunk that the specification's reader maps back
\* to the submitted message.
TraceChunk ==
  /\ IsEvent("Chunk")
  /\ LET e == Trace[l]
         ch == e.chunk
         m == MsgOf(e.msg)
         s == Step(ch, m)
     IN IF /\ ~failed
           /\ ~e.short
           /\ e.dataOk
           /\ s.res.wf
           /\ s.res.done => s.out = Expected(m)
        THEN Apply(ch, m, s) /\ failed' = FALSE
        ELSE Reject
  /\ UNCHANGED <<kind, nmsgs, ok>> /\ Dummy

\* s2r: lal's reader, fed a chunk chosen by the reference writer, must deliver exactly what
\* the specification's reader delivers at that chunk.
TraceFeed ==
  /\ IsEvent("Feed")
  /\ LET e == Trace[l]
         ch == e.chunk
         m == MsgOf(e.msg)
         s == Step(ch, m)
     IN IF /\ ~failed
           /\ s.res.wf
           /\ ProjOuts(e.lalout) = s.out
           /\ AllOk(e.lalout)
        THEN Apply(ch, m, s) /\ failed' = FALSE
        ELSE Reject
  /\ UNCHANGED <<kind, nmsgs, ok>> /\ Dummy

TraceEnd ==
  /\ IsEvent("End")
  /\ LET e == Trace[l]
     IN IF /\ ~failed
           /\ e.leftover = 0
           /\ e.lalerr = "eof"
           /\ AllOk(e.lalout)
           /\ IF kind = "w2s"
                THEN /\ \A c \in DOMAIN rd : rd[c].have = 0  \* no message left incomplete
                     /\ Len(exp) = nmsgs                  \* every submitted message was decodable
                     /\ ProjOuts(e.lalout) = exp           \* and lal's own reader agrees
                ELSE e.lalout = <<>>
        THEN UNCHANGED <<rd, cs, exp, failed>>
        ELSE Reject
  /\ UNCHANGED <<kind, nmsgs, ok>> /\ Dummy

TraceNext == TraceReset \/ TraceChunk \/ TraceFeed \/ TraceEnd
TraceSpec == TraceInit /\ [][TraceNext]_tvars

HighWater == TLCSet(1, IF l > TLCGet(1) THEN l ELSE TLCGet(1))
Accept == PrintT("@HW@" \o ToString(TLCGet(1)))
=============================================================================

------------------------------ MODULE Republish ------------------------------
(* C16, "a later publisher of the same name starts clean", for the MPEG-TS side (HTTP-TS, HLS) and  *)
(* the RTSP side: a scenario is a sequence of *epochs* (publishers of one name, each with its own    *)
(* track set and parameter-set / ASC versions) on one surviving logic.Group, separated by PubLeave / *)
(* PubArrive (Group.DelRtmpPubSession / AddRtmpPubSession).                                          *)
(*   Acceptor  - the acceptor of epoch k is the acceptor of RemuxOut for a FRESH stream: at          *)
(*               PubArrive the publication history, every consumer's cursors and time bases are      *)
(*               reset, so nothing of the predecessor (units, parameter sets, ASC, cached GOPs,      *)
(*               stream types, time base) is known to it - whatever a consumer receives after        *)
(*               PubArrive must be explained by the messages of the new publisher alone.  On top:    *)
(*               EpSdpOk (a session description names tracks and parameter-set / ASC versions of     *)
(*               this epoch only), StartsInTime for every consumer attached when the epoch begins    *)
(*               (staying subscribers, the HLS muxer), JoinStartsInTime (a consumer that joins a     *)
(*               stream without AAC starts at the next key frame), KeyCuts (HLS still cuts segments  *)
(*               of such a stream at key frames), SdpArrives (an RTSP subscriber of the epoch gets   *)
(*               its description once the stream is past the analysis stage), AcceptStay (an RTSP    *)
(*               subscriber that stays attached across a republish is handed frames of the present   *)
(*               publisher only - nothing more is demanded of a session that cannot be re-described). *)
(*   Reference - RmLeave / RmArrive: what logic.Group does to the TS side when an input leaves and   *)
(*               the next one arrives (flush, new remuxer, GOP cache and PAT/PMT dropped, subscriber *)
(*               flags kept, HLS muxer replaced).                                                    *)
EXTENDS RemuxOut

VARIABLE ep     \* epoch bookkeeping (derived from the published messages only)
evars == <<vars, ep>>

TsAll == {"t1", "t2", "hls"}
EpInit == [n |-> 1, live |-> TRUE,
           vbase |-> 0,            \* highest parameter-set version used by earlier epochs
           vmax |-> 0,             \* highest parameter-set version published so far
           ascs |-> {},            \* ASC versions published in this epoch
           since |-> [c \in TsAll |-> IF c = "hls" THEN 0 ELSE -1],   \* -1 absent, 0 attached when the epoch began / before its
                                                                     \* first message, s > 0 joined after s messages
           rg |-> -1,              \* the same for the RTSP subscriber
           stay |-> FALSE,         \* the RTSP subscriber rh was described by an earlier publisher and stayed attached
           played |-> FALSE,       \* rh has sent PLAY
           lateplay |-> FALSE]     \* ... and it sent it in this epoch although an earlier publisher had described it

Max(a, b) == IF a > b THEN a ELSE b
RECURSIVE MaxV(_, _, _)
MaxV(nals, i, m) == IF i > Len(nals) THEN m ELSE MaxV(nals, i + 1, IF IsPsU(nals[i]) THEN Max(m, nals[i].v) ELSE m)

EpPub(e, m) == CASE m.k = "vsh" -> [e EXCEPT !.vmax = Max(@, m.ver)]
                 [] m.k = "ash" -> [e EXCEPT !.ascs = @ \cup {m.ver}]
                 [] m.k = "v" -> [e EXCEPT !.vmax = MaxV(m.nals, 1, @)]
                 [] OTHER -> e
EpJoin(e, h, c) == LET s == IF e.live THEN h.step ELSE 0
                   IN IF c = "rg" THEN [e EXCEPT !.rg = s] ELSE [e EXCEPT !.since[c] = s]
EpLeave(e) == [e EXCEPT !.live = FALSE, !.vbase = e.vmax, !.rg = -1]
EpArrive(e) == [e EXCEPT !.n = @ + 1, !.live = TRUE, !.ascs = {}, !.lateplay = FALSE,
                         !.since = [c \in TsAll |-> IF c = "hls" \/ e.since[c] >= 0 THEN 0 ELSE -1]]

---------------------------------------------------------------------------
(* Session description of an RTSP subscriber of this epoch: the tracks of this publisher only,      *)
(* parameter sets and ASC in versions this publisher sent.                                          *)
EpSdpOk(h, e, s) ==
  LET vm == SelectSeq(s.media, LAMBDA x : x.kind = "video")
      am == SelectSeq(s.media, LAMBDA x : x.kind = "audio")
  IN /\ SdpOk(h, s, TRUE)
     /\ vc = "none" => vm = <<>>
     /\ ac = "none" => am = <<>>
     /\ Len(vm) = 1 => \A t \in PsTypes : vm[1][t] > e.vbase
     /\ (Len(am) = 1 /\ ac = "aac") => am[1].asc \in e.ascs

EpRtpSdp(h, e, r, s) ==
  IF ~r.sdp /\ EpSdpOk(h, e, s)
  THEN LET vm == SelectSeq(s.media, LAMBDA x : x.kind = "video")
           am == SelectSeq(s.media, LAMBDA x : x.kind = "audio")
       IN [r EXCEPT !.sdp = TRUE, !.vrate = IF vm = <<>> THEN 0 ELSE vm[1].rate, !.arate = IF am = <<>> THEN 0 ELSE am[1].rate]
  ELSE [r EXCEPT !.ok = FALSE]
RECURSIVE EpSdps(_, _, _, _, _)
EpSdps(h, e, r, ss, i) == IF i > Len(ss) \/ ~r.ok THEN r ELSE EpSdps(h, e, EpRtpSdp(h, e, r, ss[i]), ss, i + 1)

(* An RTSP subscriber that stays attached across a republish cannot be described again: RTSP gives    *)
(* the server no means to change tracks, payload types or clock rates of a running session, and the   *)
(* properties do not ask for the session to be ended.  What C16 does demand of it is that nothing of   *)
(* the predecessor reaches it: every frame it is handed is a frame of the present publisher, per track *)
(* in order and complete from the first one on.  Session description, RTP clock and a key-frame start  *)
(* are not demanded (unspecified) - with one exception: a session that sends its PLAY under the later  *)
(* publisher has not started yet, and like every consumer that starts it starts at a key frame when    *)
(* the stream has video (LatePlayStart, C02).                                                          *)
LatePlayStart(h, r, gs) ==
  LET vs == SelectSeq(gs, LAMBDA g : g.tr = "v")
  IN (r.vcur = 0 /\ vs # <<>>) => LET j == FindVR(h, vs[1]) IN j > 0 /\ VRKey(h.pubVR[j])
AcceptStayFrame(h, r, g) ==
  IF ~(g.wf /\ g.seqOk /\ g.mk /\ Len(g.units) >= 1) THEN [r EXCEPT !.ok = FALSE]
  ELSE IF g.tr = "v" THEN
    LET j == IF r.vcur = 0 THEN FindVR(h, g) ELSE r.vcur + 1 IN
    IF j = 0 \/ j > Len(h.pubVR) THEN [r EXCEPT !.ok = FALSE]
    ELSE LET p == h.pubVR[j] IN
         IF (IF r.vcur = 0 THEN RtpFrameTail(g, p) ELSE RtpFrameIs(g, p)) /\ (r.vseq < 0 \/ g.seq = r.vseq)
         THEN [r EXCEPT !.vcur = j, !.vseq = (g.seq + g.np) % 65536, !.start = StartOf(r, p.step)]
         ELSE [r EXCEPT !.ok = FALSE]
  ELSE
    LET j == IF r.acur = 0 THEN FindA(h, g.units[1].id) ELSE r.acur + 1 IN
    IF j = 0 \/ j > Len(h.pubA) THEN [r EXCEPT !.ok = FALSE]
    ELSE LET p == h.pubA[j] u == g.units[1] IN
         IF /\ Len(g.units) = 1 /\ u.k = "raw" /\ u.id = p.id /\ u.off = 0 /\ u.n = p.n /\ u.ok
            /\ (r.aseq < 0 \/ g.seq = r.aseq)
         THEN [r EXCEPT !.acur = j, !.aseq = (g.seq + g.np) % 65536, !.start = StartOf(r, p.step)]
         ELSE [r EXCEPT !.ok = FALSE]
RECURSIVE AcceptStay(_, _, _, _)
AcceptStay(h, r, gs, i) == IF i > Len(gs) \/ ~r.ok THEN r ELSE AcceptStay(h, AcceptStayFrame(h, r, gs[i]), gs, i + 1)
StayEndOk(h, r) == /\ r.vcur > 0 => r.vcur = Len(h.pubVR)
                   /\ r.acur > 0 => r.acur = Len(h.pubA)

(* lal answers DESCRIBE once both tracks are known or 16 frames were looked at                      *)
AnalysisDone(h) == (h.vshv > 0 /\ h.na > 0) \/ Len(h.pubVR) + Len(h.pubA) >= ProbeMax
SdpArrives(h, e, r) == (e.rg >= 0 /\ AnalysisDone(h)) => r.sdp

---------------------------------------------------------------------------
(* A consumer that joins in the middle of a stream without an AAC track (video only, or video with  *)
(* Opus / G.711) starts no later than the first key frame published after it joined.                *)
KeyStepsAfter(h, s) == {h.pubV[j].step : j \in {i \in 1..Len(h.pubV) : h.pubV[i].key /\ h.pubV[i].step > s}}
SetMin(S) == CHOOSE x \in S : \A y \in S : x <= y
JoinStartsInTime(h, c, s) ==
  (h.ascv = 0 /\ KeyStepsAfter(h, s) # {}) => c.start > 0 /\ c.start <= SetMin(KeyStepsAfter(h, s))

(* HLS: the segments of a stream without an AAC track are cut at key frames - no listed segment     *)
(* runs on past a key frame that lies a full target duration after the segment's first picture.     *)
(* o.seg[i] = index of the segment frame i was read from.                                           *)
T3Small(x) == IF x[1] = 0 THEN x[2] * B + x[3] ELSE 2000000000
KeyCuts(h, o, fragMs) ==
  h.ascv = 0 =>
    \A i \in 1..Len(o.frames) :
      LET f == o.frames[i]
          first == {j \in 1..(i-1) : o.seg[j] = o.seg[i] /\ o.frames[j].pid = 256}
      IN (f.pid = 256 /\ f.rai = 1 /\ first # {}) =>
           LET g == o.frames[SetMin(first)]
           IN (IsT3(f.dts) /\ IsT3(g.dts)) => T3Small(T3Sub(f.dts, g.dts)) < 90 * fragMs

---------------------------------------------------------------------------
(* Reference model: Group.delIn / addIn on the TS side.                                             *)
SubAll == {"t1", "t2", "hls"}
RmInit3 == [RmInit EXCEPT !.sub = [c \in SubAll |-> [in |-> FALSE, fresh |-> FALSE, wait |-> FALSE]]]
NoDel3 == [c \in SubAll |-> <<>>]
\* the input leaves: the probe queue is drained and pending audio flushed to whoever is attached, then the remuxer, the GOP cache and PAT/PMT go;
\* subscribers keep their flags (a subscriber that was admitted stays admitted)
RmLeave(r) == LET y == FeedAll(RmDispose(r), NoDel3, 1)
              IN [r |-> [RmInit3 EXCEPT !.sub = y.r.sub], del |-> y.del]
\* the seeded class of defects at model level: the remuxer object survives with its sequence headers
RmLeaveKeepHdr(r) == LET y == RmLeave(r)
                     IN [y EXCEPT !.r.sp = r.sp, !.r.hasSp = r.hasSp, !.r.asc = r.asc]
\* the next input arrives: a new HLS muxer waits for its first boundary
RmArrive(r) == [r EXCEPT !.sub["hls"] = [in |-> TRUE, fresh |-> FALSE, wait |-> TRUE]]
=============================================================================

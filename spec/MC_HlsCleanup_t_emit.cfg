SPECIFICATION Spec
CONSTANTS
  Modes = {0, 1}
  MaxEp = 3
  MaxGrp = 3
  MaxFeed = 1
  MaxAge = 3
  MaxPending = 2
  Capture = FALSE
INVARIANTS TypeOK LiveSpared Listed Cleaned NeverCleaned
VIEW View
ACTION_CONSTRAINT Emit

SPECIFICATION Spec
CONSTANTS
  Cfgs <- AllCfgs
  Letters <- AllLetters
INVARIANTS TypeOK Total OpaqueForward NoWaitWithoutVideo KeyAdmits
VIEW View
ACTION_CONSTRAINT Emit

SPECIFICATION Spec
CONSTANTS
  Cfgs <- AllCfgs
  Letters <- AllLetters
  StagedCfgs <- BothStaged
INVARIANTS TypeOK StageOK Total OpaqueForward NoWaitWithoutVideo KeyAdmits
VIEW View
ACTION_CONSTRAINT Emit

SPECIFICATION FineSpec
CONSTANTS
  Cons = {"s1", "s2"}
  Healthy = {}
  Other = {}
  N = 2
  HCap = 64
  Parts = 1
  ElemParts = 2
  WsMode = FALSE
  EnqAcct = FALSE
  HasDeadline = TRUE
  Prime = FALSE
  MaxPub = 3
  MaxRead = 3
  MaxStall = 2
  MaxSweep = 2
  MaxLeave = 0
  MaxPubB = 0
  MaxCmd = 0
INVARIANTS WholeUnits NoBlocking QueueBound
VIEW FineView

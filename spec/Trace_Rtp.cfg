SPECIFICATION TraceSpec
CONSTANTS
  SeqMod = 65536
CONSTRAINT HighWater
POSTCONDITION Accept
CHECK_DEADLOCK FALSE

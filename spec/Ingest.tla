------------------------------- MODULE Ingest -------------------------------
(* Ingest of AvPacket-based publishers into the RTMP/FLV plane (C07):                            *)
(*   cust  logic.CustomizePubSessionContext -> remux.AvPacket2RtmpRemuxer                        *)
(*   rtsp  RTP -> rtprtcp.RtpUnpackContainer/unpackers -> rtsp.AvPacketQueue -> remuxer          *)
(*   ps    RTP -> gb28181.PsUnpacker (PES reassembly, frame boundary = PTS change) -> remuxer    *)
(* A source stream is a sequence of frames [trk, ts, d, g, us]: track "v"/"a", source timestamp ts *)
(* (the source's clock as it runs on, NOT reduced to the width of the wire field: 48 bits, three   *)
(* 16-bit limbs <<h, m, l>>; ticks of the track's clock, ms for cust, 90 kHz PTS for ps), d = PTS  *)
(* minus DTS in ticks (ps with a DTS field, one constant per track; 0 otherwise) and units         *)
(* [k, id, n]: kind (vps sps pps aud idr p sei | au), id of the position-coded body, size         *)
(* (parameter sets: number of filler bytes after the syntax prefix).  What travels on the wire is  *)
(* the clock modulo the width of the field (WBits): 2^32 for RTP timestamps, 2^33 for PES PTS/DTS, *)
(* the whole int64 for AvPacket.Timestamp of the customize-pub API.                                *)
(* g > 0 (AAC in ADTS, which is self-framing): the frame has no timestamp of its own on the wire,  *)
(* it is the g-th frame behind the audio frame whose PES it rides in (one PES header, one PTS, the *)
(* ADTS frames back to back; ISO 13818-1 2.4.3.7: a PTS refers to the first access unit that       *)
(* commences in the PES packet).  Its source time is the implied one: the time of that head frame  *)
(* plus g * 1024 samples at the sampling rate of the ADTS header, in ticks of the track's clock     *)
(* (ImpOff, rounded down to a tick); its ts field is not read.                                     *)
(* The output is the sequence of messages a subscriber received:                                  *)
(*   [t |-> "meta"]   [t |-> "vsh", ts, sets: <<[k, n, eq]>>, ok]   [t |-> "ash", ts, asc, ok]      *)
(*   [t |-> "v", key, ts, us: <<[k, id, n, eq]>>, ok]   [t |-> "a", fmt, ts, us, ok]               *)
(* eq = the bytes are exactly the source unit's; ok = the container fields around them are sane. *)
(*                                                                                                *)
(* Conforms is the property, a predicate on (source, output):                                     *)
(*   SeqHeaderFromParamSets / SameUnits  per track, the items of the output (sequence headers and  *)
(*        units, in order) are the items the source defines: access-unit delimiters dropped,      *)
(*        every completed group of parameter sets one sequence header, all other units byte for   *)
(*        byte, each once, from the first forwarded item on (the ps path may start at the first   *)
(*        parameter set); units of the sentinel frames (id >= SentId) are ignored                 *)
(*   KeyMarked    a video message is marked key iff it carries an IDR/IRAP unit                   *)
(*   TimeAffine   per track out(i) - out(first) = floor((src(i) - src(first)) * 1000 / rate) +- 1 *)
(*        modulo 2^32 (the width of an RTMP timestamp) for every forwarded unit: no cumulative    *)
(*        drift.  src is, for the whole track, one of the VIEWS of the source clock:              *)
(*          0  the clock as it runs on (a wrap of the wire field is not visible in the output)    *)
(*          1  the wire field itself, ts mod 2^WBits (the output repeats the jump of -2^WBits     *)
(*             ticks the source's field makes when it wraps, and nothing else)                    *)
(*          2  ps: the DTS field, (ts - d) mod 2^33                                               *)
(*        a frame that rides in the PES of a head frame (g > 0) stands ImpOff ticks behind its    *)
(*        head in every view (it has no field of its own that could wrap)                         *)
(*        Below the wrap of the field the views differ by a constant; a jump anywhere else (2^31, *)
(*        2^32 on the 33-bit PS clock, 2^32 ms of the customize API) fits no view.                *)
(*   ReorderInvariant  Conforms does not mention the arrival order: every arrival order inside    *)
(*        the window, duplicate and first sequence number must give a conforming output           *)
(* Machine is the design: the chain of deterministic machines (timestamp conversion, A/V queue,   *)
(* PES reassembly, remuxer) in the form the property demands; MC_Ingest checks that the design    *)
(* conforms on every enumerated stream, Trace_Ingest checks that lal's output conforms.           *)
EXTENDS Integers, Sequences, FiniteSets, TLC, Json

SentId == 120
ParamKinds == {"vps", "sps", "pps"}

---------------------------------------------------------------------------
(* 32-bit values as <<hi, lo>> (TLC integers are 32-bit signed).                                  *)
UOf(n) == <<(n \div 65536) % 65536, n % 65536>>
USub(a, b) == LET lo == a[2] - b[2]
                  br == IF lo < 0 THEN 1 ELSE 0
                  hi == (a[1] - b[1]) - br
              IN  <<(hi + 65536) % 65536, (lo + 65536) % 65536>>
UAddN(a, k) == LET lo == a[2] + k                            \* 0 <= k < 2^31 - 2^16, modulo 2^32
               IN  <<(a[1] + (lo \div 65536)) % 65536, lo % 65536>>
Small(a) == a[1] < 32768
ToInt(a) == a[1] * 65536 + a[2]
\* floor(d * 1000 / rate) for 0 <= d < 2^31, 1000 <= rate <= 96000, without overflow
MsOf(d, rate) == (d \div rate) * 1000 + ((d % rate) * 1000) \div rate
Abs(x) == IF x < 0 THEN -x ELSE x

\* 48-bit naturals as <<h, m, l>>
T3Lt(a, b) == a[1] < b[1] \/ (a[1] = b[1] /\ (a[2] < b[2] \/ (a[2] = b[2] /\ a[3] < b[3])))
T3Sub(a, b) == LET l == a[3] - b[3]                          \* a >= b
                   bl == IF l < 0 THEN 1 ELSE 0
                   m == (a[2] - b[2]) - bl
                   bm == IF m < 0 THEN 1 ELSE 0
               IN  <<(a[1] - b[1]) - bm, (m + 65536) % 65536, (l + 65536) % 65536>>
T3AddN(a, k) == LET l == a[3] + k                            \* 0 <= k < 2^31 - 2^16
                    m == a[2] + (l \div 65536)
                IN  <<a[1] + (m \div 65536), m % 65536, l % 65536>>
T3SubN(a, k) == T3Sub(a, T3AddN(<<0, 0, 0>>, k))             \* a >= k
Mask(a, w) == IF w = 32 THEN <<0, a[2], a[3]>> ELSE IF w = 33 THEN <<a[1] % 2, a[2], a[3]>> ELSE a
\* floor(x * 1000 / rate) for x < 3 * 2^32 at rates >= 8000, x < 2^31 below (InRange): long division, one byte at a time
RECURSIVE DivR(_, _, _, _, _)
DivR(dg, i, r, q, rem) == IF i > Len(dg) THEN [q |-> q, rem |-> rem]
                          ELSE LET c == rem * 256 + dg[i] IN DivR(dg, i + 1, r, q * 256 + (c \div r), c % r)
MsT(x, rate) == LET y == DivR(<<x[1] \div 256, x[1] % 256, x[2] \div 256, x[2] % 256, x[3] \div 256, x[3] % 256>>, 1, rate, 0, 0)
                IN  y.q * 1000 + ((y.rem * 1000) \div rate)
InRange(x, rate) == x[1] < (IF rate < 8000 THEN 1 ELSE 3) /\ (rate >= 8000 \/ x[2] < 32768)
\* o, o0: output timestamps (32 bits); v, v0: the source clock of the two units in one view; rid: the unit rides in
\* the PES of a head frame, its time is the sum of two conversions (head, offset): where the unit stands BEFORE the
\* first one in the view (wrap of the field), the signed difference may be truncated either way (floor of the
\* negative difference as TimeAffine is written, or of its absolute value as for every other unit)
Aff(o, o0, v, v0, rate, rid) ==
  IF T3Lt(v, v0)
  THEN LET dd == USub(o0, o)
           ds == T3Sub(v0, v)
           e == ToInt(dd) - MsT(ds, rate)
       IN Small(dd) /\ InRange(ds, rate) /\ (IF rid THEN e \in -1..2 ELSE Abs(e) <= 1)
  ELSE LET dd == USub(o, o0)
           ds == T3Sub(v, v0)
       IN Small(dd) /\ InRange(ds, rate) /\ Abs(ToInt(dd) - MsT(ds, rate)) <= 1
WBits(path) == IF path = "rtsp" THEN 32 ELSE IF path = "ps" THEN 33 ELSE 0
Views(path) == IF path = "rtsp" THEN {0, 1} ELSE IF path = "ps" THEN {0, 1, 2} ELSE {0}
ViewOf(f, c, w) == IF c = 0 THEN f.ts ELSE IF c = 1 THEN Mask(f.ts, w) ELSE Mask(T3SubN(f.ts, f.d), w)
\* frames that ride in the PES of an earlier audio frame: g * 1024 samples at fs Hz in ticks of a clock of `tick` Hz
SamplesPerAac == 1024
ImpOff(g, tick, fs) == (g * SamplesPerAac * tick) \div fs       \* g <= 20 at 90 kHz: below 2^31
RECURSIVE PrevOf(_, _, _)
PrevOf(frames, i, t) == IF i < 1 THEN 0 ELSE IF frames[i].trk = t THEN i ELSE PrevOf(frames, i - 1, t)
RECURSIVE HeadOf(_, _, _)
HeadOf(frames, j, g) ==                                          \* the g-th frame of j's track before j
  IF g = 0 THEN j
  ELSE LET i == PrevOf(frames, j - 1, frames[j].trk) IN IF i = 0 THEN j ELSE HeadOf(frames, i, g - 1)
ViewAt(frames, j, c, w, tick, fs) ==
  IF frames[j].g = 0 THEN ViewOf(frames[j], c, w)
  ELSE T3AddN(ViewOf(frames[HeadOf(frames, j, frames[j].g)], c, w), ImpOff(frames[j].g, tick, fs))

---------------------------------------------------------------------------
(* What the source defines.                                                                       *)
Need(vc) == IF vc = "hevc" THEN <<"vps", "sps", "pps">> ELSE <<"sps", "pps">>
NoSets == [vps |-> -1, sps |-> -1, pps |-> -1]
Complete(vc, ps) == \A i \in 1..Len(Need(vc)) : ps[Need(vc)[i]] >= 0
SetsOf(vc, ps) == [i \in 1..Len(Need(vc)) |-> [k |-> Need(vc)[i], n |-> ps[Need(vc)[i]]]]

\* items of the units of one video frame; ps = parameter sets gathered so far
RECURSIVE ReqUnits(_, _, _, _, _)
ReqUnits(vc, us, i, ps, f) ==
  IF i > Len(us) THEN [it |-> <<>>, ps |-> ps]
  ELSE LET u == us[i] IN
       IF u.k = "aud" THEN ReqUnits(vc, us, i + 1, ps, f)
       ELSE IF u.k \in ParamKinds
       THEN LET p2 == [ps EXCEPT ![u.k] = u.n] IN
            IF Complete(vc, p2)
            THEN LET r == ReqUnits(vc, us, i + 1, NoSets, f)
                 IN [it |-> <<[t |-> "sh", sets |-> SetsOf(vc, p2), f |-> f]>> \o r.it, ps |-> r.ps]
            ELSE ReqUnits(vc, us, i + 1, p2, f)
       ELSE LET r == ReqUnits(vc, us, i + 1, ps, f)
            IN [it |-> <<[t |-> "u", k |-> u.k, id |-> u.id, n |-> u.n, f |-> f]>> \o r.it, ps |-> r.ps]

\* iterative over frames (long runs): acc = [it, ps]
RECURSIVE ReqVFrom(_, _, _, _)
ReqVFrom(vc, frames, j, acc) ==
  IF j > Len(frames) THEN acc.it
  ELSE IF frames[j].trk # "v" THEN ReqVFrom(vc, frames, j + 1, acc)
  ELSE LET r == ReqUnits(vc, frames[j].us, 1, acc.ps, j)
       IN ReqVFrom(vc, frames, j + 1, [it |-> acc.it \o r.it, ps |-> r.ps])
ReqV(vc, frames, sdp) ==
  ReqVFrom(vc, frames, 1, [it |-> IF sdp = <<>> THEN <<>> ELSE <<[t |-> "sh", sets |-> sdp, f |-> 0]>>, ps |-> NoSets])

RECURSIVE ReqAFrom(_, _, _)
ReqAFrom(frames, j, acc) ==
  IF j > Len(frames) THEN acc
  ELSE IF frames[j].trk # "a" THEN ReqAFrom(frames, j + 1, acc)
  ELSE LET u == frames[j].us[1]
       IN ReqAFrom(frames, j + 1, Append(acc, [t |-> "u", k |-> u.k, id |-> u.id, n |-> u.n, f |-> j]))
ReqA(ac, frames, asc) ==
  ReqAFrom(frames, 1, IF ac = "aac" THEN <<[t |-> "sh", sets |-> asc, f |-> 0]>> ELSE <<>>)

NotSent(it) == it.t = "sh" \/ it.id < SentId

---------------------------------------------------------------------------
(* What the output carries.                                                                       *)
ItemsOf(m) ==
  IF m.t = "vsh"
  THEN <<[t |-> "sh", sets |-> [i \in 1..Len(m.sets) |-> [k |-> m.sets[i].k, n |-> m.sets[i].n]],
          ok |-> m.ok /\ \A i \in 1..Len(m.sets) : m.sets[i].eq, ts |-> m.ts]>>
  ELSE IF m.t = "ash"
  THEN <<[t |-> "sh", sets |-> m.asc, ok |-> m.ok, ts |-> m.ts]>>
  ELSE [i \in 1..Len(m.us) |-> [t |-> "u", k |-> m.us[i].k, id |-> m.us[i].id, n |-> m.us[i].n,
                                 ok |-> m.ok /\ m.us[i].eq, ts |-> m.ts]]
RECURSIVE ObsFrom(_, _, _, _)
ObsFrom(out, i, kinds, acc) ==
  IF i > Len(out) THEN acc
  ELSE IF out[i].t \in kinds THEN ObsFrom(out, i + 1, kinds, acc \o ItemsOf(out[i]))
  ELSE ObsFrom(out, i + 1, kinds, acc)
Obs(out, kinds) == SelectSeq(ObsFrom(out, 1, kinds, <<>>), NotSent)

Same(o, r) == /\ o.t = r.t /\ o.ok
              /\ IF o.t = "sh" THEN o.sets = r.sets ELSE (o.k = r.k /\ o.id = r.id /\ o.n = r.n)
SameFrom(obs, req, k) == /\ Len(obs) = (Len(req) - k) + 1
                         /\ \A i \in 1..Len(obs) : Same(obs[i], req[(k + i) - 1])
\* rate: ticks per second of the track's source clock; fs: sampling rate of the ADTS header (frames with g > 0)
TimeOk(path, obs, req, k, frames, rate, fs) ==
  LET ui == {i \in 1..Len(obs) : obs[i].t = "u"} IN
  ui = {} \/ LET a == CHOOSE x \in ui : \A y \in ui : x <= y IN
             \E c \in Views(path) :
               \A i \in ui : Aff(obs[i].ts, obs[a].ts, ViewAt(frames, req[(k + i) - 1].f, c, WBits(path), rate, fs),
                                 ViewAt(frames, req[(k + a) - 1].f, c, WBits(path), rate, fs), rate, frames[req[(k + i) - 1].f].g > 0)
\* the ps path forwards video from the first parameter set on
FirstSh(req) == LET s == {i \in 1..Len(req) : req[i].t = "sh"} IN
                IF s = {} THEN Len(req) + 1 ELSE CHOOSE x \in s : \A y \in s : x <= y
K0(path, req) == IF path = "ps" THEN FirstSh(req) ELSE 1

VRate(path, vrate) == IF path = "cust" THEN 1000 ELSE IF path = "ps" THEN 90000 ELSE vrate
ARate(path, arate) == IF path = "cust" THEN 1000 ELSE IF path = "ps" THEN 90000 ELSE arate

SameUnitsV(path, vc, frames, sdp, vrate, out) ==
  LET req == SelectSeq(ReqV(vc, frames, sdp), NotSent)
      obs == Obs(out, {"vsh", "v"})
  IN \E k \in 1..K0(path, req) : SameFrom(obs, req, k) /\ TimeOk(path, obs, req, k, frames, VRate(path, vrate), 1)
SameUnitsA(path, ac, frames, asc, arate, out) ==
  LET req == SelectSeq(ReqA(ac, frames, asc), NotSent)
      obs == Obs(out, {"ash", "a"})
  IN SameFrom(obs, req, 1) /\ TimeOk(path, obs, req, 1, frames, ARate(path, arate), IF arate > 0 THEN arate ELSE 1)
KeyMarked(out) ==
  \A i \in 1..Len(out) :
     out[i].t = "v" => /\ Len(out[i].us) >= 1
                       /\ out[i].key = (\E j \in 1..Len(out[i].us) : out[i].us[j].k = "idr")

Conforms(path, vc, ac, vrate, arate, asc, sdp, frames, out) ==
  /\ (vc # "none" => SameUnitsV(path, vc, frames, sdp, vrate, out))
  /\ (ac # "none" => SameUnitsA(path, ac, frames, asc, arate, out))
  /\ KeyMarked(out)

---------------------------------------------------------------------------
(* The design.  AvPackets are [trk, ms, us]; ms is a plain integer up to the remuxer, which takes  *)
(* <<hi, lo>> = AvPacket.Timestamp modulo 2^32.                                                  *)

\* remux.AvPacket2RtmpRemuxer: st = [ps]; one AvPacket -> messages
RECURSIVE RemuxUnits(_, _, _, _, _, _)
RemuxUnits(vc, us, i, ps, ms, data) ==          \* -> [msgs, ps, data]
  IF i > Len(us) THEN [msgs |-> <<>>, ps |-> ps, data |-> data]
  ELSE LET u == us[i] IN
       IF u.k = "aud" THEN RemuxUnits(vc, us, i + 1, ps, ms, data)
       ELSE IF u.k \in ParamKinds
       THEN LET p2 == [ps EXCEPT ![u.k] = u.n] IN
            IF Complete(vc, p2)
            THEN LET r == RemuxUnits(vc, us, i + 1, NoSets, ms, data)
                     sh == [t |-> "vsh", ts |-> ms, ok |-> TRUE,
                            sets |-> [x \in 1..Len(Need(vc)) |-> [k |-> Need(vc)[x], n |-> p2[Need(vc)[x]], eq |-> TRUE]]]
                 IN [msgs |-> <<sh>> \o r.msgs, ps |-> r.ps, data |-> r.data]
            ELSE RemuxUnits(vc, us, i + 1, p2, ms, data)
       ELSE RemuxUnits(vc, us, i + 1, ps, ms, Append(data, [k |-> u.k, id |-> u.id, n |-> u.n, eq |-> TRUE]))
Fmt(ac) == IF ac = "aac" THEN 175 ELSE IF ac = "pcma" THEN 114 ELSE IF ac = "pcmu" THEN 130 ELSE 223
\* an audio AvPacket carries one frame or (AAC in ADTS) several ADTS frames back to back: one message per frame,
\* whatever its size, the x-th at the packet's timestamp + (x - 1) * 1024 samples in ms, computed from x each time
RemuxPkt(vc, ac, fs, ps, p) ==                   \* -> [msgs, ps]
  IF p.trk = "a"
  THEN [msgs |-> [x \in 1..Len(p.us) |->
                    [t |-> "a", fmt |-> Fmt(ac), ts |-> UAddN(p.ms, ImpOff(x - 1, 1000, fs)), ok |-> TRUE,
                     us |-> <<[k |-> "au", id |-> p.us[x].id, n |-> p.us[x].n, eq |-> TRUE]>>]], ps |-> ps]
  ELSE LET r == RemuxUnits(vc, p.us, 1, ps, p.ms, <<>>)
           key == \E j \in 1..Len(r.data) : r.data[j].k = "idr"       \* any IDR/IRAP unit of the packet
       IN [msgs |-> r.msgs \o (IF r.data = <<>> THEN <<>>
                               ELSE <<[t |-> "v", key |-> key, ts |-> p.ms, us |-> r.data, ok |-> TRUE]>>),
           ps |-> r.ps]
RECURSIVE RemuxAll(_, _, _, _, _, _, _)
RemuxAll(vc, ac, fs, pkts, i, ps, acc) ==
  IF i > Len(pkts) THEN acc
  ELSE LET r == RemuxPkt(vc, ac, fs, ps, pkts[i]) IN RemuxAll(vc, ac, fs, pkts, i + 1, r.ps, acc \o r.msgs)

\* rtsp.AvPacketQueue (TimestampFilterHandleRotateFlag): every track re-based to 0, merge by time;
\* q = [a, v, pa, pv, out]; pX = [o, m] previous origin / modified timestamp (-1 = none)
QInit == [a |-> <<>>, v |-> <<>>, pa |-> [o |-> -1, m |-> -1], pv |-> [o |-> -1, m |-> -1], out |-> <<>>]
Rebase(pp, ms) == IF pp.o = -1 THEN [ms |-> 0, p |-> [o |-> ms, m |-> 0]]
                  ELSE LET n == pp.m + (ms - pp.o)
                           n2 == IF n < 0 THEN 0 ELSE n
                       IN [ms |-> n2, p |-> [o |-> ms, m |-> n2]]
RECURSIVE QMerge(_, _)
QMerge(q, lastIsAudio) ==
  IF q.a = <<>> \/ q.v = <<>> THEN q
  ELSE LET ah == Head(q.a)
           vh == Head(q.v)
           popA == ah.ms < vh.ms \/ (ah.ms = vh.ms /\ ~lastIsAudio)
       IN IF popA THEN QMerge([q EXCEPT !.a = Tail(q.a), !.out = Append(q.out, ah)], lastIsAudio)
          ELSE QMerge([q EXCEPT !.v = Tail(q.v), !.out = Append(q.out, vh)], lastIsAudio)
QFeed(q, p) ==
  IF p.trk = "a"
  THEN LET r == Rebase(q.pa, p.ms) IN QMerge([q EXCEPT !.pa = r.p, !.a = Append(q.a, [p EXCEPT !.ms = r.ms])], TRUE)
  ELSE LET r == Rebase(q.pv, p.ms) IN QMerge([q EXCEPT !.pv = r.p, !.v = Append(q.v, [p EXCEPT !.ms = r.ms])], FALSE)
RECURSIVE QAll(_, _, _)
QAll(pkts, i, q) == IF i > Len(pkts) THEN q.out ELSE QAll(pkts, i + 1, QFeed(q, pkts[i]))

\* the RTP path: the plan says which units travel in which packet (p = [f, us, i, m]); the jitter
\* buffer hands the packets over in sequence order, each once (Rtp.tla: Lossless inside the window);
\* an AvPacket leaves the unpacker with the last packet of a unit / an aggregate.  The unpacker
\* extends the 32-bit RTP timestamp by the (signed, modulo 2^32) steps it sees, starting from the
\* first value on the wire, and converts the extended value: a wrap of the field is not visible
Pick(us, idx) == [x \in 1..Len(idx) |-> us[idx[x]]]
FirstOf(frames, t) == CHOOSE j \in 1..Len(frames) : frames[j].trk = t /\ \A i \in 1..(j - 1) : frames[i].trk # t
ExtTs(frames, f) == LET f0 == frames[FirstOf(frames, f.trk)]
                    IN  T3AddN(Mask(f0.ts, 32), ToInt(<<T3Sub(f.ts, f0.ts)[2], T3Sub(f.ts, f0.ts)[3]>>))
RtpPkts(frames, plan, vrate, arate) ==
  LET done == SelectSeq(plan, LAMBDA p : p.i = p.m)
  IN [x \in 1..Len(done) |->
        LET f == frames[done[x].f]
        IN [trk |-> f.trk, ms |-> MsT(ExtTs(frames, f), IF f.trk = "v" THEN vrate ELSE arate), us |-> Pick(f.us, done[x].us)]]

\* the PS path: every frame is written as PES packets of its track; a PES with a PTS that differs
\* from the one under assembly closes the frame under assembly; every NAL unit of a closed video
\* frame is one AvPacket, forwarded from the first parameter set on; the last frame of a track
\* stays in the buffer.  Video takes the 33-bit PTS field / 90, audio the DTS field / 90.  An audio frame that
\* rides in the PES of the frame under assembly (g > 0) has no PTS of its own and closes nothing: it travels in
\* the AvPacket of its head frame, ADTS frame after ADTS frame
RECURSIVE GroupUs(_, _, _)
GroupUs(frames, i, j) == IF i > j THEN <<>>                      \* the units of the audio frames i..j
                         ELSE (IF frames[i].trk = "a" THEN frames[i].us ELSE <<>>) \o GroupUs(frames, i + 1, j)
PsMs(f) == MsT(Mask(IF f.trk = "a" THEN T3SubN(f.ts, f.d) ELSE f.ts, 33), 90000)
RECURSIVE PsFrom(_, _, _, _, _)
PsFrom(frames, j, cur, wait, acc) ==      \* cur = [v |-> frame under assembly or 0, a |-> ...]
  IF j > Len(frames) THEN acc
  ELSE LET t == frames[j].trk
           c == cur[t]
       IN IF t = "a" /\ frames[j].g > 0 THEN PsFrom(frames, j + 1, cur, wait, acc)
          ELSE IF c = 0 THEN PsFrom(frames, j + 1, [cur EXCEPT ![t] = j], wait, acc)
          ELSE LET f == frames[c]
                   ms == PsMs(f)
               IN IF t = "a"
                  THEN PsFrom(frames, j + 1, [cur EXCEPT ![t] = j], wait, Append(acc, [trk |-> "a", ms |-> ms, us |-> GroupUs(frames, c, j - 1)]))
                  ELSE LET firstSet == {i \in 1..Len(f.us) : f.us[i].k \in ParamKinds}
                           from == IF ~wait THEN 1
                                   ELSE IF firstSet = {} THEN Len(f.us) + 1
                                   ELSE CHOOSE x \in firstSet : \A y \in firstSet : x <= y
                           w2 == wait /\ firstSet = {}
                       IN PsFrom(frames, j + 1, [cur EXCEPT ![t] = j], w2,
                                 acc \o [x \in 1..((Len(f.us) - from) + 1) |-> [trk |-> "v", ms |-> ms, us |-> <<f.us[(from + x) - 1]>>]])
PsPkts(frames) == PsFrom(frames, 1, [v |-> 0, a |-> 0], TRUE, <<>>)

\* the customize API: AvPacket.Timestamp is an int64 in ms; the RTMP timestamp is its low 32 bits
CustPkts(frames) == [j \in 1..Len(frames) |-> [trk |-> frames[j].trk, ms |-> <<frames[j].ts[2], frames[j].ts[3]>>, us |-> frames[j].us]]
Limbed(pk) == [x \in 1..Len(pk) |-> [pk[x] EXCEPT !.ms = UOf(pk[x].ms)]]

HasTrk(frames, t) == \E j \in 1..Len(frames) : frames[j].trk = t
Machine(path, vc, ac, vrate, arate, asc, sdp, frames, plan) ==
  LET pk == IF path = "cust" THEN CustPkts(frames)
            ELSE IF path = "ps" THEN Limbed(PsPkts(frames))
            ELSE LET r == RtpPkts(frames, plan, vrate, arate)
                 IN Limbed(IF vc # "none" /\ ac # "none" THEN QAll(r, 1, QInit) ELSE r)
      pre == (IF ac = "aac" /\ (path # "ps" \/ HasTrk(frames, "a")) THEN <<[t |-> "ash", ts |-> <<0, 0>>, asc |-> asc, ok |-> TRUE]>> ELSE <<>>)
             \o (IF sdp = <<>> THEN <<>>
                 ELSE <<[t |-> "vsh", ts |-> <<0, 0>>, ok |-> TRUE, sets |-> [x \in 1..Len(sdp) |-> [k |-> sdp[x].k, n |-> sdp[x].n, eq |-> TRUE]]]>>)
  IN <<[t |-> "meta"]>> \o pre \o RemuxAll(vc, ac, IF arate > 0 THEN arate ELSE 1, pk, 1, NoSets, <<>>)

---------------------------------------------------------------------------
(* The reorder window (as in Rtp.tla): a packet may overtake at most W-1 older packets that have  *)
(* not arrived yet, a packet that has arrived may arrive again, the first arrival is the first    *)
(* packet sent.                                                                                   *)
RECURSIVE Adv(_, _)
Adv(got, o) == IF o \in got THEN Adv(got, o + 1) ELSE o
=============================================================================

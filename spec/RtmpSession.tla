------------------------------ MODULE RtmpSession ------------------------------
(* C04: the protocol machine of lal's rtmp.ServerSession (pkg/rtmp/server_session.go,        *)
(* chunk_composer.go, handshake.go, amf0.go) as a TCP peer sees it.  The peer sends messages  *)
(* from an alphabet of well-formed, malformed and out-of-order items; for every (state,       *)
(* message) the machine says what may be observed afterwards: the connection is still         *)
(* "served" or it has been "closed".  There is no third outcome: a crash of the process, a    *)
(* hang, or an effect on another connection is not in the range of Outcomes for any state     *)
(* and any message -- that is property C04.                                                    *)
(*                                                                                              *)
(* State  [hs, role, cs, part, mode]                                                           *)
(*   hs    bytes of the handshake (C0C1 1537 + C2 1536) lal still has to read: lal checks      *)
(*         nothing in them, whatever arrives is consumed                                       *)
(*   role  "none" | "pub" | "sub"  (lal keeps no record of connect / createStream)             *)
(*   cs    chunk size announced by the peer ("0","1","128","4096","max31","max32")             *)
(*   part  how much of an unfinished message sits on the chunk stream used by lenmax / shrink  *)
(*         ("no" | "some" | "many" = more than the four bytes of the message shrink announces)  *)
(*   mode  "sync"    lal and the peer agree where the next chunk starts                        *)
(*         "desync"  they do not (bytes spilled over the handshake, junk, a payload that the   *)
(*                   announced chunk size cannot carry, a header that shortens an unfinished   *)
(*                   message): whatever follows is parsed at an arbitrary offset -- either     *)
(*                   outcome is acceptable, a crash is not                                     *)
(*         "swallow" lal waits for the rest of a 16 MiB message: everything is payload         *)
(*         "closed"  lal has closed the connection: every further send is a no-op              *)
(* Message [m, a, s]: kind, argument, shape (strings; table in proj/rtmpwire.go).              *)
EXTENDS Integers, Sequences, TLC, Json

HsLen == 3073
Big == {"max31", "max32"}

St0 == [hs |-> HsLen, role |-> "none", cs |-> "128", part |-> "no", mode |-> "sync"]
Norm(mode) == [hs |-> 0, role |-> "none", cs |-> "128", part |-> "no", mode |-> mode]
Ready(role) == [hs |-> 0, role |-> role, cs |-> "128", part |-> "no", mode |-> "sync"]

Served == {"served"}
Closed == {"closed"}
Either == {"served", "closed"}

StrLt(s, set) == s \in set

---------------------------------------------------------------------------
(* Commands (AMF0, type 20): name, transaction id, arguments.                                   *)
\* lstrmax / lstrwrap: the command name is an AMF0 long string announcing 2^32-1 / 2^32-4 bytes
ParseFail == {"empty", "1byte", "notid", "tidstr", "namenum", "cutname", "cuttid", "lstrmax", "lstrwrap"}
\* tcnum / oestr / fvobj: a property lal can do without has another AMF type than expected (it counts as absent);
\* appnum / appbool / appobj: the application name does (the connect is refused like one without it)
ConnectOk == {"ok", "ok3", "deepok", "tcnum", "oestr", "fvobj"}
PublishOk == {"ok", "nolast", "longstr", "emptyname", "query", "dots"}
PlayOk    == {"ok", "nolast", "longstr", "emptyname"}
Ignored   == {"deleteStream", "FCPublish", "releaseStream", "getStreamLength", "FCUnpublish", "unknown", "createStream"}

\* result: [o |-> outcomes, t |-> state if served]
Keep(st) == [o |-> Served, t |-> st]
Drop(st) == [o |-> Closed, t |-> st]

Cmd(st, name, shape) ==
  IF shape \in ParseFail THEN Drop(st)
  ELSE CASE name = "connect" -> IF shape \in ConnectOk THEN Keep(st) ELSE Drop(st)
         [] name = "publish" -> IF shape \in PublishOk /\ st.role = "none"
                                  THEN [o |-> Served, t |-> [st EXCEPT !.role = "pub"]] ELSE Drop(st)
         [] name = "play"    -> IF shape \in PlayOk /\ st.role = "none"
                                  THEN [o |-> Served, t |-> [st EXCEPT !.role = "sub"]] ELSE Drop(st)
         [] OTHER            -> Keep(st)      \* answered or ignored, arguments not read

IfPub(st) == IF st.role = "pub" THEN Keep(st) ELSE Drop(st)

\* message type ids without a handler of their own, and the generic payloads "empty" / "1" (one zero
\* byte) / "16" (sixteen position-coded bytes 00 02 00 00 ..) under every type id
Other(st, t, s) ==
  CASE t = "1" -> IF s = "16" THEN [o |-> Served, t |-> [st EXCEPT !.cs = "odd"]] ELSE Keep(st)
    [] t \in {"3", "5"} -> IF s = "16" THEN Keep(st) ELSE Drop(st)
    [] t = "4" -> IF s = "16" THEN Keep(st) ELSE Drop(st)
    [] t \in {"8", "9"} -> IfPub(st)
    [] t = "17" -> IF s = "16" THEN Keep(st) ELSE Drop(st)   \* 00 | "" | number: an unknown command
    [] t \in {"18", "20"} -> Drop(st)
    [] t = "22" -> IF s = "empty" THEN Keep(st) ELSE Drop(st)
    [] OTHER -> Keep(st)

UcLen(s) == CASE s = "0" -> 0 [] s = "1" -> 1 [] s = "2" -> 2 [] s = "3" -> 3 [] s = "4" -> 4
              [] s = "5" -> 5 [] s = "6" -> 6 [] s = "7" -> 7 [] OTHER -> 8

\* the message carries no payload bytes (matters when the peer has announced chunk size 0)
NoPayload(st, msg) ==
  \/ msg.m \in {"ack", "winack", "uc"} /\ msg.s = "0"
  \/ msg.m \in {"other", "cmd", "cmd3", "scs"} /\ msg.s = "empty"
  \/ msg.m \in {"data", "audio", "video", "agg"} /\ msg.a = "empty"
  \/ msg.m = "chunk" /\ msg.a \in {"f3fresh", "f2fresh", "csid3lo", "exttssmall"}
  \/ msg.m = "chunk" /\ msg.a = "lenmax" /\ st.cs = "0"
  \/ msg.m = "chunk" /\ msg.a = "f1fresh" /\ st.cs \in {"0", "1"}

Desync(st) == [o |-> Either, t |-> Norm("desync")]

\* bytes of the unfinished 16 MiB message after one more chunk of it: none / a few / more than four
Part(st) == CASE st.cs \in {"128", "4096"} -> "many"
              [] st.cs = "1" -> IF st.part = "many" THEN "many" ELSE "some"
              [] OTHER -> st.part

Sync(st, msg) ==
  CASE msg.m \in {"c0c1", "c2", "junk"} -> Desync(st)
    [] msg.m = "scs" -> IF msg.s \in {"ok", "long"} THEN [o |-> Served, t |-> [st EXCEPT !.cs = msg.a]] ELSE Keep(st)
    [] msg.m = "ack" -> IF msg.s \in {"0", "3"} THEN Drop(st) ELSE Keep(st)
    [] msg.m = "winack" -> IF msg.s \in {"0", "3"} THEN Drop(st) ELSE Keep(st)
    [] msg.m = "uc" -> IF UcLen(msg.s) < 2 \/ (msg.a = "ping" /\ UcLen(msg.s) < 6) THEN Drop(st) ELSE Keep(st)
    [] msg.m = "other" -> Other(st, msg.a, msg.s)
    [] msg.m = "cmd" -> Cmd(st, msg.a, msg.s)
    [] msg.m = "cmd3" -> IF msg.s \in {"empty", "only0"} THEN Drop(st) ELSE Cmd(st, msg.a, msg.s)
    [] msg.m = "data" -> IF st.role # "pub" \/ msg.a \in {"empty", "1byte", "numfirst"} THEN Drop(st) ELSE Keep(st)
    [] msg.m \in {"audio", "video"} -> IfPub(st)
    [] msg.m = "agg" -> CASE msg.a = "empty" -> Keep(st)
                          [] msg.a \in {"ok", "sub0"} -> IfPub(st)
                          [] OTHER -> Drop(st)
    [] msg.m = "chunk" ->
         CASE msg.a = "lenmax" -> IF st.cs \in Big THEN [o |-> Served, t |-> Norm("swallow")]
                                  ELSE [o |-> Served, t |-> [st EXCEPT !.part = Part(st)]]
           [] msg.a = "truncnew" -> Desync(st)
           \* a header that makes an unfinished message shorter than what has been received of it
           [] msg.a = "shrink" -> CASE st.part = "no" -> Keep(st)
                                    [] st.part = "some" -> Desync(st)
                                    [] OTHER -> Drop(st)
           [] OTHER -> Keep(st)

\* Step: what may be observed after the peer has sent msg (n bytes on the wire) in state st.
Step(st, msg, n) ==
  CASE st.mode = "closed"  -> [o |-> Closed, t |-> st]
    [] st.mode = "swallow" -> Keep(st)
    [] st.mode = "desync"  -> Desync(st)
    [] st.hs > 0 -> IF n <= st.hs THEN [o |-> Served, t |-> [st EXCEPT !.hs = st.hs - n]] ELSE Desync(st)
    [] st.cs \in {"0", "odd"} /\ ~NoPayload(st, msg) -> Desync(st)
    [] OTHER -> Sync(st, msg)

Outcomes(st, msg, n) == Step(st, msg, n).o
After(st, msg, n, obs) == IF obs = "closed" THEN Norm("closed") ELSE Step(st, msg, n).t

\* C04 at the design level: for every state and message the machine names at least one outcome and
\* names nothing but "served" and "closed"; a closed connection stays closed.
TotalAndSafe(st, msg, n) == Outcomes(st, msg, n) # {} /\ Outcomes(st, msg, n) \subseteq Either
=============================================================================

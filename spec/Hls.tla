-------------------------------- MODULE Hls --------------------------------
(* HLS output of one stream name (C10): hls.Muxer driven by TS frames, with the FILE SYSTEM AS A  *)
(* VARIABLE and ONE STEP PER FILE-SYSTEM OPERATION, so that every state of the graph is an instant *)
(* "between two file-system operations" and the properties of C10 are evaluated there.             *)
(*                                                                                                 *)
(*   Feed(frame) = Muxer.FeedMpegts: updateFragment decides (forced split on a timestamp jump,     *)
(*                 split on a boundary frame once the fragment reached the target), the resulting  *)
(*                 file-system operations are queued in `pend` and executed one per step            *)
(*   Stop        = Muxer.Dispose (closeFragment(true))                                             *)
(*   Restart     = a new Muxer for the same stream name (re-publish)                               *)
(*   OpStep      = the next queued operation of the IFileSystemLayer                               *)
(*                                                                                                 *)
(* Times are integer milliseconds (the driver uses 90 kHz ticks = 90 * ms, so every comparison of  *)
(* the Go code is exact on milliseconds).  A TS file is a sequence of packet groups: "psi" (PAT +  *)
(* PMT) or one PES ("v" / "a") carrying frame `id`; `key` is the random-access indicator.  A       *)
(* playlist is [ok, open, seq, target, ents, endlist]; an entry is [t, dur, discont] where t is    *)
(* the segment name <<epoch, id>>.  os.WriteFile is create(truncate) ; write ; close.               *)
EXTENDS Integers, Sequences, FiniteSets, TLC, Json

CONSTANTS CfgPool,      \* set of [n, d, f, mode]: fragment_num, delete_threshold, fragment_duration_ms, cleanup_mode
          AvPool,       \* subset of BOOLEAN: TRUE = stream with video (boundary = some key frames), FALSE = audio only
          Kinds,        \* subset of {"Kb", "K", "I", "A"}: key+boundary, key, inter, audio (audio-only streams: audio+boundary)
          Classes,      \* timestamp step classes, see Dt
          MaxFrames, MaxEpoch,
          TargetLal     \* TRUE: the model computes EXT-X-TARGETDURATION as lal does (for showing the deviation F10a)

VARIABLE S
vars == <<S>>

Max2(a, b) == IF a > b THEN a ELSE b
Last(s) == s[Len(s)]
RECURSIVE Flat(_)
Flat(ss) == IF ss = <<>> THEN <<>> ELSE ss[1] \o Flat(Tail(ss))

\* timestamp step (ms, relative to the previous frame) of a class, for target fragment duration F
Dt(c, F) == CASE c = "tiny"  -> 40
              [] c = "short" -> 400
              [] c = "below" -> F - 400       \* + short = exactly the target
              [] c = "b1"    -> F - 1
              [] c = "eq"    -> F
              [] c = "a1"    -> F + 1
              [] c = "ab4"   -> F + 400
              [] c = "ab8"   -> F + 800
              [] c = "j0"    -> 10 * F        \* not a jump when it directly follows the opening frame
              [] c = "jump"  -> 10 * F + 1
              [] c = "back0" -> 0 - 1000      \* not a jump
              [] c = "back"  -> 0 - 1001
              [] c = "backs" -> 0 - 500

---------------------------------------------------------------------------
(* Playlists *)
NoName == <<0, 0>>
RH(ms) == (ms + 500) \div 1000                       \* round half up to whole seconds
RECURSIVE MaxRH(_)
MaxRH(ents) == IF ents = <<>> THEN 0 ELSE Max2(RH(ents[1].dur), MaxRH(Tail(ents)))
RECURSIVE LalMax(_, _)
LalMax(m, ents) == IF ents = <<>> THEN m
                   ELSE LalMax(IF ents[1].dur > m THEN ents[1].dur + 500 ELSE m, Tail(ents))
Target(F, ents) == IF TargetLal THEN LalMax(F, ents) \div 1000 ELSE Max2(RH(F), MaxRH(ents))

EmptyFile == [ok |-> FALSE, open |-> TRUE, seq |-> 0, target |-> 0, ents |-> <<>>, endlist |-> FALSE]
Names(ents) == [i \in 1..Len(ents) |-> ents[i].t]
NameSet(ents) == {ents[i].t : i \in 1..Len(ents)}

---------------------------------------------------------------------------
(* Operations of the file-system layer.  k = "ts" (name t) or "pl" (name p; `to` for rename).    *)
(* g = packet groups appended by a TS write; c = playlist content written; ap = the content is   *)
(* the record playlist read before, with the entries of c appended (writeRecordPlaylist).         *)
TsOp(o, t, g) == [o |-> o, k |-> "ts", t |-> t, p |-> "", to |-> "", g |-> g, c |-> EmptyFile, ap |-> FALSE]
PlOp(o, p, to, c, ap) == [o |-> o, k |-> "pl", t |-> NoName, p |-> p, to |-> to, g |-> <<>>, c |-> c, ap |-> ap]
OpId(op) == [o |-> op.o, k |-> op.k, t |-> op.t, p |-> op.p, to |-> op.to]
WriteFileOps(bak, name, c, ap) ==
  << PlOp("create", bak, "", EmptyFile, FALSE), PlOp("write", bak, "", c, ap), PlOp("close", bak, "", EmptyFile, FALSE),
     PlOp("rename", bak, name, EmptyFile, FALSE) >>

PsiGroup == [k |-> "psi", id |-> 0, key |-> FALSE]
FrameGroup(fr) == [k |-> IF fr.v THEN "v" ELSE "a", id |-> fr.id, key |-> fr.key]

---------------------------------------------------------------------------
(* hls.Muxer: m = [cfg, ep, opened, fragTs, frag, nfrags, ring]                                    *)
Cap(c) == c.n + c.d + 1
Slot(m, k) == (m.frag + k) % Cap(m.cfg)
NoFrag == [has |-> FALSE, t |-> NoName, dur |-> 0, discont |-> FALSE]
\* fresh: no fragment opened yet; the sequence number of the first one (frag) is fixed at that moment
NewMuxer(c, ep) == [cfg |-> c, ep |-> ep, opened |-> FALSE, fragTs |-> 0, frag |-> 0, nfrags |-> 0, fresh |-> TRUE,
                    ring |-> [i \in 0..(Cap(c) - 1) |-> NoFrag]]
Nothing(m) == [m |-> m, ops |-> <<>>, forced |-> {}]

\* closeFragment(isLast): CloseFile ; incrFrag ; writePlaylist ; writeRecordPlaylist | remove the stale fragment
ClosePlan(m, isLast) ==
  IF ~m.opened THEN Nothing(m)
  ELSE LET cur  == m.ring[Slot(m, m.nfrags)]
           full == m.nfrags = m.cfg.n
           m1   == [m EXCEPT !.opened = FALSE, !.frag = IF full THEN @ + 1 ELSE @, !.nfrags = IF full THEN @ ELSE @ + 1]
           ent(r) == [t |-> r.t, dur |-> r.dur, discont |-> r.discont]
           ents == [i \in 1..m1.nfrags |-> ent(m1.ring[Slot(m1, i - 1)])]
           live == [ok |-> TRUE, open |-> TRUE, seq |-> m1.frag, target |-> Target(m.cfg.f, ents), ents |-> ents,
                    endlist |-> isLast]
           closed == m1.ring[Slot(m1, m1.nfrags - 1)]
           rec  == [ok |-> TRUE, open |-> TRUE, seq |-> 0, target |-> 0, ents |-> <<ent(closed)>>, endlist |-> TRUE]
           del  == m1.ring[Slot(m1, m1.nfrags)]
       IN [m |-> m1, forced |-> {},
           ops |-> << TsOp("close", cur.t, <<>>) >>
                   \o WriteFileOps("livebak", "live", live, FALSE)
                   \o (IF m.cfg.mode \in {0, 1}
                         THEN << PlOp("read", "rec", "", EmptyFile, FALSE) >> \o WriteFileOps("recbak", "rec", rec, TRUE)
                         ELSE <<>>)
                   \o (IF m.cfg.mode = 2 /\ del.has THEN << TsOp("remove", del.t, <<>>) >> ELSE <<>>)]

\* openFragment(ts, discont): Create ; Write(PAT/PMT) ; the ring slot of the new fragment is initialised
OpenPlan(m, ts, discont) ==
  LET t == <<m.ep, m.frag + m.nfrags>>
  IN [m |-> [m EXCEPT !.opened = TRUE, !.fragTs = ts, !.fresh = FALSE,
                      !.ring[Slot(m, m.nfrags)] = [has |-> TRUE, t |-> t, dur |-> 0, discont |-> discont]],
      ops |-> << TsOp("create", t, <<>>), TsOp("write", t, <<PsiGroup>>) >>, forced |-> {}]

Then(a, b) == [m |-> b.m, ops |-> a.ops \o b.ops, forced |-> a.forced \cup b.forced]
Split(m, ts, discont, forced) ==
  LET a == ClosePlan(m, FALSE)
      b == OpenPlan(a.m, ts, discont)
  IN [Then(a, b) EXCEPT !.forced = IF forced THEN {<<m.ep, a.m.frag + a.m.nfrags>>} ELSE {}]

\* updateFragment + the write of the frame's packets.  Note `f`: the Go code keeps the pointer to the
\* slot of the fragment that was current on entry, also after a forced split.
FeedPlan(m, fr) ==
  LET ts   == fr.ts
      F    == m.cfg.f
      fi   == Slot(m, m.nfrags)
      jump == m.opened /\ ((ts > m.fragTs /\ ts - m.fragTs > 10 * F) \/ (m.fragTs > ts /\ m.fragTs - ts > 1000))
      a    == IF jump THEN Split(m, ts, TRUE, TRUE) ELSE Nothing(m)
      mb   == IF m.opened /\ ts > a.m.fragTs
                THEN [a.m EXCEPT !.ring[fi].dur = Max2(@, ts - a.m.fragTs)] ELSE a.m
      short == m.opened /\ mb.ring[fi].dur < F
      c    == IF ~short /\ fr.b THEN Split(mb, ts, ~m.opened, FALSE) ELSE Nothing(mb)
      r    == Then(a, c)
  IN IF r.m.opened
       THEN [r EXCEPT !.ops = @ \o << TsOp("write", r.m.ring[Slot(r.m, r.m.nfrags)].t, <<FrameGroup(fr)>>) >>] @@ [acc |-> TRUE]
       ELSE r @@ [acc |-> FALSE]

---------------------------------------------------------------------------
(* The file system (generic semantics of one operation) and the history the properties speak of. *)
(*   tsf, plf : name -> content          vers    : names listed by the last d+1 versions of the   *)
(*   prevSeq  : media sequence of the              live playlist (newest last)                     *)
(*              previous live version    ever    : every segment name created, in order            *)
(*   arch     : content of every segment ever written (kept after removal)                         *)
EmptyFn == [x \in {} |-> 0]
Without(f, x) == [y \in (DOMAIN f \ {x}) |-> f[y]]
LiveOf(plf) == IF "live" \in DOMAIN plf THEN <<plf["live"]>> ELSE <<>>

ApplyTs(s, op) ==
  CASE op.o = "create" -> [s EXCEPT !.tsf = (op.t :> [open |-> TRUE, whole |-> TRUE, g |-> <<>>]) @@ @,
                                    !.arch = (op.t :> <<>>) @@ @,
                                    !.ever = IF \E i \in 1..Len(@) : @[i] = op.t THEN @ ELSE Append(@, op.t)]
    [] op.o = "write" /\ op.t \in DOMAIN s.tsf ->
                          [s EXCEPT !.tsf[op.t].g = @ \o op.g, !.arch[op.t] = @ \o op.g]
    [] op.o = "close" /\ op.t \in DOMAIN s.tsf -> [s EXCEPT !.tsf[op.t].open = FALSE]
    [] op.o = "remove" -> [s EXCEPT !.tsf = Without(@, op.t)]
    [] OTHER -> s

RecContent(s, op, tgt) ==
  LET c0 == IF ~op.ap THEN op.c
            ELSE IF "rec" \in DOMAIN s.plf
                   THEN [s.plf["rec"] EXCEPT !.ents = @ \o op.c.ents, !.endlist = TRUE, !.open = TRUE,
                                            !.target = Max2(@, MaxRH(op.c.ents))]
                   ELSE [op.c EXCEPT !.target = MaxRH(op.c.ents)]
  IN IF tgt >= 0 THEN [c0 EXCEPT !.target = tgt] ELSE c0

ApplyPl(s, op, tgt) ==
  LET plf2 == CASE op.o = "create" -> (op.p :> EmptyFile) @@ s.plf
                [] op.o = "write" /\ op.p \in DOMAIN s.plf -> [s.plf EXCEPT ![op.p] = RecContent(s, op, tgt)]
                [] op.o = "close" /\ op.p \in DOMAIN s.plf -> [s.plf EXCEPT ![op.p].open = FALSE]
                [] op.o = "rename" /\ op.p \in DOMAIN s.plf -> (op.to :> s.plf[op.p]) @@ Without(s.plf, op.p)
                [] op.o = "remove" -> Without(s.plf, op.p)
                [] OTHER -> s.plf
      old == LiveOf(s.plf)
      new == LiveOf(plf2)
      changed == new # <<>> /\ new # old
  IN [s EXCEPT !.plf = plf2,
               !.vers = IF changed THEN LET v == Append(@, NameSet(new[1].ents))
                                        IN SubSeq(v, Max2(1, Len(v) - s.cfg.d), Len(v))
                        ELSE @,
               !.prevSeq = IF changed /\ old # <<>> THEN old[1].seq ELSE @]

\* tgt >= 0: EXT-X-TARGETDURATION observed in a trace replaces the model's (the property only bounds it)
Apply(s, op, tgt) == IF op.k = "ts" THEN ApplyTs(s, op) ELSE ApplyPl(s, op, tgt)

---------------------------------------------------------------------------
Init0(c, av) ==
  [cfg |-> c, av |-> av, phase |-> "live", m |-> NewMuxer(c, 1), pend |-> <<>>,
   tsf |-> EmptyFn, plf |-> EmptyFn, vers |-> <<>>, prevSeq |-> 0, ever |-> <<>>, arch |-> EmptyFn,
   fed |-> <<>>, forced |-> {}, nf |-> 0, ts |-> 2000, inp |-> <<>>]

Init == \E c \in CfgPool, av \in AvPool : S = Init0(c, av)

\* Sequence number with which a new muxer continues a live playlist that a previous publication of the
\* same stream name left behind (media sequence numbers never decrease); 0 when there is none.
Continuation(s) == IF "live" \in DOMAIN s.plf /\ s.plf["live"].ok THEN s.plf["live"].seq + Len(s.plf["live"].ents) ELSE 0

\* base: sequence number of the first fragment of a fresh muxer (the model: Continuation; a trace: as observed,
\* SeqMonotone judges it)
FeedStep(s, fr, base) ==
  LET p == FeedPlan(IF s.m.fresh THEN [s.m EXCEPT !.frag = base] ELSE s.m, fr)
  IN [s EXCEPT !.m = p.m, !.pend = p.ops, !.forced = @ \cup p.forced,
               !.fed = IF p.acc THEN Append(@, fr.id) ELSE @,
               !.nf = @ + 1, !.ts = fr.ts, !.inp = Append(@, [a |-> "feed", fr |-> fr])]
StopStep(s) ==
  LET p == ClosePlan(s.m, TRUE)
  IN [s EXCEPT !.m = p.m, !.pend = p.ops, !.phase = "stopped", !.inp = Append(@, [a |-> "stop", fr |-> <<>>])]
RestartStep(s) ==
  [s EXCEPT !.m = NewMuxer(s.cfg, s.m.ep + 1), !.phase = "live", !.inp = Append(@, [a |-> "restart", fr |-> <<>>])]

FrameOf(s, kind, cls) ==
  [id |-> s.nf + 1, v |-> kind # "A", key |-> kind \in {"Kb", "K"},
   b |-> IF s.av THEN kind = "Kb" ELSE TRUE, ts |-> s.ts + Dt(cls, s.cfg.f)]

Idle == S.pend = <<>>
Feed(kind, cls) ==
  /\ Idle /\ S.phase = "live" /\ S.nf < MaxFrames
  /\ (S.av => kind \in Kinds) /\ (~S.av => kind = "A")
  /\ S.ts + Dt(cls, S.cfg.f) >= 0
  /\ S' = FeedStep(S, FrameOf(S, kind, cls), Continuation(S))
Stop == Idle /\ S.phase = "live" /\ S' = StopStep(S)
Restart == Idle /\ S.phase = "stopped" /\ S.m.ep < MaxEpoch /\ S' = RestartStep(S)
OpStep == ~Idle /\ S' = [Apply(S, Head(S.pend), 0 - 1) EXCEPT !.pend = Tail(@)]

Next == OpStep \/ Stop \/ Restart \/ \E k \in Kinds \cup {"A"}, c \in Classes : Feed(k, c)
Spec == Init /\ [][Next]_vars

---------------------------------------------------------------------------
(* The properties of C10, as predicates of a state s (used as invariants of the model and, by    *)
(* Trace_Hls, after every observed file-system operation).                                         *)
HasLive(s) == "live" \in DOMAIN s.plf
Live(s) == s.plf["live"]

PlaylistWellFormedP(s) == HasLive(s) => Live(s).ok /\ ~Live(s).open
SeqMonotoneP(s) == HasLive(s) => Live(s).seq >= s.prevSeq
TargetCoversP(s) == HasLive(s) => \A i \in 1..Len(Live(s).ents) : Live(s).target >= RH(Live(s).ents[i].dur)
ListedExistP(s) == HasLive(s) => \A i \in 1..Len(Live(s).ents) : Live(s).ents[i].t \in DOMAIN s.tsf
FirstVideoKey(g) == \A i \in 1..Len(g) : (g[i].k = "v" /\ \A j \in 1..(i-1) : g[j].k # "v") => g[i].key
SegOk(s, t) == LET f == s.tsf[t]
               IN /\ ~f.open /\ f.whole /\ f.g # <<>> /\ f.g[1].k = "psi"
                  /\ \A i \in 1..Len(f.g) : f.g[i].k \in {"psi", "v", "a"}
                  /\ (t \notin s.forced => FirstVideoKey(f.g))
ListedWholeP(s) == HasLive(s) => \A i \in 1..Len(Live(s).ents) :
                      LET t == Live(s).ents[i].t IN t \in DOMAIN s.tsf => SegOk(s, t)
RecentStillPresentP(s) == \A i \in 1..Len(s.vers) : s.vers[i] \subseteq DOMAIN s.tsf
Frames(g) == SelectSeq(g, LAMBDA x : x.k # "psi")
Stored(s) == LET all == Flat([i \in 1..Len(s.ever) |-> Frames(s.arch[s.ever[i]])]) IN [i \in 1..Len(all) |-> all[i].id]
NoLossNoDupP(s) ==
  LET st == Stored(s)
  IN /\ Len(st) <= Len(s.fed) /\ st = SubSeq(s.fed, 1, Len(st))
     /\ Len(st) >= Len(s.fed) - (IF s.pend = <<>> THEN 0 ELSE 1)
     /\ \A t \in DOMAIN s.tsf : s.tsf[t].g = s.arch[t]
EpochSegs(s) == SelectSeq(s.ever, LAMBDA t : t[1] = s.m.ep)
FinalisedP(s) ==
  (s.phase = "stopped" /\ s.pend = <<>>) =>
     /\ (EpochSegs(s) # <<>> => HasLive(s))
     /\ (HasLive(s) => Live(s).endlist)
     /\ ((s.cfg.mode # 2 /\ s.ever # <<>>) => "rec" \in DOMAIN s.plf /\ Names(s.plf["rec"].ents) = s.ever)

PropNames == <<"PlaylistWellFormed", "SeqMonotone", "TargetCovers", "ListedExist", "ListedWhole",
               "RecentStillPresent", "NoLossNoDup", "Finalised">>
PropVals(s) == <<PlaylistWellFormedP(s), SeqMonotoneP(s), TargetCoversP(s), ListedExistP(s), ListedWholeP(s),
                 RecentStillPresentP(s), NoLossNoDupP(s), FinalisedP(s)>>
Broken(s) == LET v == PropVals(s)
             IN SelectSeq([i \in 1..Len(PropNames) |-> IF v[i] THEN "" ELSE PropNames[i]], LAMBDA x : x # "")

PlaylistWellFormed == PlaylistWellFormedP(S)
SeqMonotone == SeqMonotoneP(S)
TargetCovers == TargetCoversP(S)
ListedExist == ListedExistP(S)
ListedWhole == ListedWholeP(S)
RecentStillPresent == RecentStillPresentP(S)
NoLossNoDup == NoLossNoDupP(S)
Finalised == FinalisedP(S)

(* Scenario emission: the input history of every behaviour that has just come to rest after Stop. *)
Rest(s) == s.phase = "stopped" /\ s.pend = <<>>
EmitS == IF Rest(S') /\ ~Rest(S)
           THEN PrintT("@S@" \o ToJson([cfg |-> S'.cfg, av |-> S'.av, steps |-> S'.inp]))
           ELSE TRUE
=============================================================================

SPECIFICATION Spec
CONSTANTS
  LimbB = 4
  ExtMark <- S_ExtMark
  Csids = {3}
  TsPool <- S_TsAll
  LenPool = {0, 1, 2, 3}
  TypePool = {8, 9}
  MsidPool = {1, 2}
  CsPool = {1, 2}
  InitCs = 2
  ScsLen = 1
  AggPool <- NoAgg
  MaxMsgs = 3
  ScsCsid = 2
INVARIANTS RoundTrip TypeOK
VIEW View

SPECIFICATION Spec
CONSTANTS
  LimbB = 65536
  ExtMark <- P_ExtMark
  Csids = {3}
  TsPool <- P_TsPoolC
  LenPool = {0, 1, 3}
  TypePool = {8}
  MsidPool = {1, 2}
  CsPool = {3}
  InitCs = 2
  ScsLen = 4
  AggPool <- NoAgg
  MaxMsgs = 3
  ScsCsid = 2
INVARIANTS RoundTrip TypeOK
VIEW View
ACTION_CONSTRAINT Emit

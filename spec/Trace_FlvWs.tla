---------------------------- MODULE Trace_FlvWs ----------------------------
(* Trace validation for C11.  Events of a session (mode flv | ws | file), cut from the bytes *)
(* lal wrote by the independent FLV / WebSocket reader:                                      *)
(*   reset {sc, mode}   Open {httpOk}   Hdr {elem, frame}   Tag {t,n,ts,fields,payloadOk,lal,frame}  End {...}  *)
(* and of the pure functions:  Func {t,n,ts,fields,payloadOk,lal,total}   Ws {n, fields}     *)
EXTENDS FlvWs, IOUtils

Trace == ndJsonDeserialize(IOEnv.TRACE)
VARIABLES l, failed
tvars == <<vars, l, failed>>

TraceInit == /\ l = 1 /\ failed = FALSE /\ mode = "none" /\ stage = "idle" /\ ntags = 0
             /\ act = [name |-> "init"] /\ TLCSet(1, 1)
IsEvent(e) == l <= Len(Trace) /\ Trace[l].ev = e /\ l' = l + 1
Reject == /\ failed' = TRUE
          /\ IF failed THEN TRUE ELSE PrintT("@REJ@" \o ToString(l))
          /\ UNCHANGED <<mode, stage, ntags>>
Keep == UNCHANGED act

TraceReset == /\ IsEvent("reset") /\ mode' = Trace[l].mode /\ stage' = "idle" /\ ntags' = 0
              /\ failed' = FALSE /\ Keep

FrameOK(e, n) == mode = "ws" => e.frame = WsFields(n)

TraceOpen == /\ IsEvent("Open")
             /\ IF ~failed /\ stage = "idle" /\ Trace[l].httpOk
                  THEN /\ stage' = IF mode = "file" THEN "opened" ELSE "http"
                       /\ UNCHANGED <<mode, ntags, failed>>
                  ELSE Reject
             /\ Keep

TraceHdr == /\ IsEvent("Hdr")
            /\ LET e == Trace[l]
               IN IF ~failed /\ stage \in {"http", "opened"} /\ e.elem = FlvHeaderFields /\ FrameOK(e, 13)
                    THEN stage' = "tags" /\ UNCHANGED <<mode, ntags, failed>>
                    ELSE Reject
            /\ Keep

TagOK(e) == /\ e.fields = TagFields(e.t, e.n, e.ts)
            /\ e.payloadOk
            /\ e.lal = ReadBack(e.t, e.n, e.ts)

TraceTag == /\ IsEvent("Tag")
            /\ LET e == Trace[l]
               IN IF ~failed /\ stage = "tags" /\ TagOK(e) /\ FrameOK(e, 11 + e.n + 4)
                    THEN ntags' = ntags + 1 /\ UNCHANGED <<mode, stage, failed>>
                    ELSE Reject
            /\ Keep

TraceEnd == /\ IsEvent("End")
            /\ LET e == Trace[l]
               IN IF ~failed /\ e.leftover = 0 /\ e.ntags = ntags /\ e.lalEof
                    THEN UNCHANGED <<mode, stage, ntags, failed>>
                    ELSE Reject
            /\ Keep

TraceFunc == /\ IsEvent("Func")
             /\ LET e == Trace[l]
                IN IF ~failed /\ TagOK(e) /\ e.total = 11 + e.n + 4
                     THEN UNCHANGED <<mode, stage, ntags, failed>>
                     ELSE Reject
             /\ Keep

\* Tag.ModTagTimestamp: the re-stamped tag is the tag packed with the new timestamp
TraceMod == /\ IsEvent("Mod")
            /\ LET e == Trace[l]
               IN IF /\ ~failed /\ e.fields = TagFields(e.t, e.n, e.ts) /\ e.payloadOk
                     /\ e.lal = [type |-> e.t, size |-> e.n, ts |-> e.ts, rawOk |-> TRUE, hdrTs |-> e.ts]
                     /\ e.total = 11 + e.n + 4
                    THEN UNCHANGED <<mode, stage, ntags, failed>>
                    ELSE Reject
            /\ Keep

TraceWs == /\ IsEvent("Ws")
           /\ LET e == Trace[l]
              IN IF ~failed /\ e.fields = WsFields(e.n)
                   THEN UNCHANGED <<mode, stage, ntags, failed>>
                   ELSE Reject
           /\ Keep

TraceNext == TraceReset \/ TraceOpen \/ TraceHdr \/ TraceTag \/ TraceEnd \/ TraceFunc \/ TraceMod \/ TraceWs
TraceSpec == TraceInit /\ [][TraceNext]_tvars
HighWater == TLCSet(1, IF l > TLCGet(1) THEN l ELSE TLCGet(1))
Accept == PrintT("@HW@" \o ToString(TLCGet(1)))
=============================================================================

package drv

import (
	"bytes"
	"encoding/json"
	"fmt"
	"io"
	"net"
	"os"
	"path/filepath"
	"sync"
	"time"

	"github.com/q191201771/lal/pkg/base"
	"github.com/q191201771/lal/pkg/httpflv"
	"github.com/q191201771/lal/pkg/remux"

	"lalverif/proj"
)

// Driver "flv" (C11).

type flvStep struct {
	Name string `json:"name"`
	Mode string `json:"mode"`
	T    int    `json:"t"`
	N    int    `json:"n"`
	Ts   []int  `json:"ts"`
}

type flvScenario struct {
	Sc    int       `json:"sc"`
	Kind  string    `json:"kind"` // session | func | ws
	Mode  string    `json:"mode"`
	Steps []flvStep `json:"steps"`
	Lens  []int     `json:"lens"`
	// Queued: the session writes through lal's asynchronous write queue (the production default, 1024 elements) and the
	// peer takes nothing until every element is queued
	Queued bool `json:"queued"`
	// Via (mode file): the recording is read back through lal's own HTTP-FLV client (httpflv.PullSession) from a loopback
	// HTTP server - "http": a plain 200 response without Content-Length; "redir": a 302 with a small body and its
	// Content-Length first, then that response.  What the client hands to its callback (tag.Raw) behind the header is
	// the stream that is judged.
	Via string `json:"via"`
}

// flvPullBack serves file to a PullSession and returns the 13 header bytes followed by the raw tags the session delivered
func flvPullBack(file []byte, via string) []byte {
	serve := func(ln net.Listener, resp func() []byte) {
		c, err := ln.Accept()
		if err != nil {
			return
		}
		defer c.Close()
		_ = c.SetDeadline(time.Now().Add(5 * time.Second))
		var req []byte
		buf := make([]byte, 1024)
		for !bytes.Contains(req, []byte("\r\n\r\n")) {
			n, err := c.Read(buf)
			if err != nil {
				return
			}
			req = append(req, buf[:n]...)
		}
		_, _ = c.Write(resp())
	}
	lnA, err := net.Listen("tcp", "127.0.0.1:0")
	if err != nil {
		return nil
	}
	defer lnA.Close()
	go serve(lnA, func() []byte {
		return append([]byte("HTTP/1.1 200 OK\r\nContent-Type: video/x-flv\r\nConnection: close\r\n\r\n"), file...)
	})
	url := "http://" + lnA.Addr().String() + "/live/s.flv"
	if via == "redir" {
		lnB, err := net.Listen("tcp", "127.0.0.1:0")
		if err != nil {
			return nil
		}
		defer lnB.Close()
		target := url
		go serve(lnB, func() []byte {
			body := bytes.Repeat([]byte("<"), 154)
			return append([]byte(fmt.Sprintf("HTTP/1.1 302 Found\r\nLocation: %s\r\nContent-Type: text/html\r\nContent-Length: %d\r\n\r\n", target, len(body))), body...)
		})
		url = "http://" + lnB.Addr().String() + "/live/s.flv"
	}
	var mu sync.Mutex
	var got []byte
	s := httpflv.NewPullSession(func(o *httpflv.PullSessionOption) { o.PullTimeoutMs = 3000; o.ReadTimeoutMs = 3000 }).
		WithOnReadFlvTag(func(tag httpflv.Tag) {
			mu.Lock()
			got = append(got, tag.Raw...)
			mu.Unlock()
		})
	if err := s.Start(url); err != nil {
		return nil
	}
	select {
	case <-s.WaitChan():
	case <-time.After(5 * time.Second):
	}
	_ = s.Dispose()
	mu.Lock()
	defer mu.Unlock()
	if len(file) < 13 {
		return nil
	}
	return append(append([]byte{}, file[:13]...), got...)
}

func init() { Registry["flv"] = flvDriver }

var sdfPrefixBytes = []byte{2, 0, 13, '@', 's', 'e', 't', 'D', 'a', 't', 'a', 'F', 'r', 'a', 'm', 'e'}

func lalReadBack(raw []byte) M {
	tag, err := httpflv.ReadTag(bytes.NewReader(raw))
	if err != nil {
		return M{"type": -1, "size": -1, "ts": []int{0, 0}, "rawOk": false}
	}
	return M{"type": int(tag.Header.Type), "size": int(tag.Header.DataSize), "ts": proj.Limbs(tag.Header.Timestamp),
		"rawOk": bytes.Equal(tag.Raw, raw) && tag.Header.StreamId == 0}
}

func flvDriver(env *Env) error {
	httpflv.SubSessionWriteChanSize = 0
	tw, err := NewTraceWriter(env.Out)
	if err != nil {
		return err
	}
	defer tw.Close()
	tmp, err := os.MkdirTemp("", "lalverif-flv")
	if err != nil {
		return err
	}
	defer os.RemoveAll(tmp)
	return ReadScenarios(env.In, func(raw json.RawMessage) error {
		var sc flvScenario
		if err := json.Unmarshal(raw, &sc); err != nil {
			return err
		}
		tw.Emit(M{"ev": "reset", "sc": sc.Sc, "mode": sc.Mode})
		switch sc.Kind {
		case "ws":
			for _, n := range sc.Lens {
				b := base.MakeWsFrameHeader(base.WsHeader{Fin: true, Opcode: base.Wso_Binary, PayloadLength: uint64(n)})
				f, decl := proj.ParseWsHeader(b)
				if f == nil {
					f = &proj.WsFrame{Ext: []int{}}
				}
				f.N = decl
				if f.HdrSize != len(b) {
					f.HdrSize = -len(b)
				}
				tw.Emit(M{"ev": "Ws", "n": n, "fields": f})
			}
		case "func":
			for i, st := range sc.Steps {
				payload := proj.Payload(i+1, st.N)
				b := httpflv.PackHttpflvTag(uint8(st.T), proj.FromLimbs(st.Ts), payload)
				f, p, total := proj.ParseFlvTag(b)
				if f == nil {
					f = &proj.FlvTagFields{Type: -1}
				}
				tw.Emit(M{"ev": "Func", "t": st.T, "n": st.N, "ts": st.Ts, "fields": f,
					"payloadOk": bytes.Equal(p, payload), "lal": lalReadBack(b), "total": total})
				// the same tag through the producers the live paths use: remux.RtmpMsg2FlvTag and the lazy
				// converter of Group.broadcastByRtmpMsg (original form; for metadata also the form with the
				// @setDataFrame string stripped, which must describe the stripped payload)
				mk := func(pl []byte) base.RtmpMsg {
					return base.RtmpMsg{Header: base.RtmpHeader{Csid: 6, MsgLen: uint32(len(pl)), MsgTypeId: uint8(st.T), MsgStreamId: 1,
						TimestampAbs: proj.FromLimbs(st.Ts)}, Payload: pl}
				}
				emitVia := func(b2 []byte) {
					f2, p2, total2 := proj.ParseFlvTag(b2)
					if f2 == nil {
						f2 = &proj.FlvTagFields{Type: -1}
					}
					tw.Emit(M{"ev": "Func", "t": st.T, "n": st.N, "ts": st.Ts, "fields": f2,
						"payloadOk": bytes.Equal(p2, payload), "lal": lalReadBack(b2), "total": total2})
				}
				if st.N < 1<<20 {
					emitVia(remux.RtmpMsg2FlvTag(mk(payload)).Raw)
					var lz remux.LazyRtmpMsg2FlvTag
					lz.Init(mk(payload))
					emitVia(lz.GetEnsureWithoutSdf())
					if st.T == 18 {
						with := append(append([]byte{}, sdfPrefixBytes...), payload...)
						var lz2 remux.LazyRtmpMsg2FlvTag
						lz2.Init(mk(with))
						emitVia(lz2.GetEnsureWithoutSdf())
					}
				}
				// re-timestamp the tag in place (Tag.ModTagTimestamp) to the previous step's timestamp
				if i > 0 {
					ts2 := sc.Steps[i-1].Ts
					tag, err := httpflv.ReadTag(bytes.NewReader(b))
					if err == nil {
						tag.ModTagTimestamp(proj.FromLimbs(ts2))
						f2, p2, total2 := proj.ParseFlvTag(tag.Raw)
						if f2 == nil {
							f2 = &proj.FlvTagFields{Type: -1}
						}
						lal := lalReadBack(tag.Raw)
						lal["hdrTs"] = proj.Limbs(tag.Header.Timestamp)
						tw.Emit(M{"ev": "Mod", "t": st.T, "n": st.N, "ts": ts2, "from": st.Ts, "fields": f2,
							"payloadOk": bytes.Equal(p2, payload), "lal": lal, "total": total2})
					}
				}
			}
		case "session":
			flvSession(&sc, tw, tmp)
		}
		return nil
	})
}

func flvSession(sc *flvScenario, tw *TraceWriter, tmp string) {
	var conn *MemConn
	var sess *httpflv.SubSession
	var ffw httpflv.FlvFileWriter
	fname := filepath.Join(tmp, "rec.flv")
	type sent struct {
		st      flvStep
		payload []byte
	}
	var tags []sent
	opened, hdr := false, false
	var release chan struct{}
	nwrites := 0
	for i, st := range sc.Steps {
		switch st.Name {
		case "Open":
			opened = true
			if sc.Mode == "file" {
				if sc.Sc%2 == 1 {
					// the path holds an older, longer recording (a stream published again under the same name
					// within one second): nothing of it may survive in the new file
					old := bytes.Repeat([]byte{0x09, 0x00, 0x00, 0x05, 0x33}, 60000)
					_ = os.WriteFile(fname, old, 0644)
				}
				ffw.Open(fname)
			} else {
				conn = NewMemConn("flv")
				if sc.Queued {
					release = make(chan struct{})
					rel := release
					conn.Gate = func(int) error { <-rel; return nil }
					httpflv.SubSessionWriteChanSize = 1024
				}
				u, _ := base.ParseUrl("http://h/live/s.flv", 80)
				sess = httpflv.NewSubSession(conn, u, sc.Mode == "ws", "dGhlIHNhbXBsZSBub25jZQ==")
				httpflv.SubSessionWriteChanSize = 0
				sess.WriteHttpResponseHeader()
				nwrites++
			}
		case "Hdr":
			hdr = true
			if sc.Mode == "file" {
				ffw.WriteFlvHeader()
			} else {
				sess.WriteFlvHeader()
				nwrites++
			}
		case "Tag":
			payload := proj.Payload(i+1, st.N)
			raw := httpflv.PackHttpflvTag(uint8(st.T), proj.FromLimbs(st.Ts), payload)
			tags = append(tags, sent{st, payload})
			if sc.Mode == "file" {
				tag, _ := httpflv.ReadTag(bytes.NewReader(raw))
				ffw.WriteTag(tag)
			} else {
				sess.Write(raw)
				nwrites++
			}
		}
	}
	var stream []byte
	var frames []*proj.WsFrame
	wsLeft := 0
	httpOk := true
	if sc.Mode == "file" {
		ffw.Dispose()
		stream, _ = os.ReadFile(fname)
		os.Remove(fname)
		if sc.Via != "" {
			stream = flvPullBack(stream, sc.Via)
		}
	} else if opened {
		if release != nil {
			// everything is queued: let the peer read, and wait until the queue has been written out
			close(release)
			for t0 := time.Now(); conn.Units() < nwrites && time.Since(t0) < 1500*time.Millisecond; {
				time.Sleep(200 * time.Microsecond)
			}
		}
		out, _ := conn.Drain()
		k := bytes.Index(out, []byte("\r\n\r\n"))
		if k < 0 {
			httpOk = false
		} else {
			head := string(out[:k])
			if sc.Mode == "ws" {
				httpOk = len(head) > 12 && head[:12] == "HTTP/1.1 101"
			} else {
				httpOk = len(head) > 12 && head[:12] == "HTTP/1.1 200"
			}
			stream = out[k+4:]
		}
		if sc.Mode == "ws" {
			frames, stream, wsLeft = proj.Deframe(stream)
		}
		sess.Dispose()
	}
	if opened {
		tw.Emit(M{"ev": "Open", "httpOk": httpOk})
	}
	frameAt := func(start, end int) interface{} {
		// the frame must carry exactly this element
		for _, f := range frames {
			if f.Start == start {
				if f.Start+f.N != end {
					g := *f
					g.N = -g.N
					return &g
				}
				return f
			}
		}
		return M{"fin": -1}
	}
	elems, left := proj.ParseFlvStream(stream)
	ti := 0
	for _, e := range elems {
		if e.Header != nil {
			if hdr {
				ev := M{"ev": "Hdr", "elem": e.Header}
				if sc.Mode == "ws" {
					ev["frame"] = frameAt(e.Start, e.End)
				}
				tw.Emit(ev)
			} else {
				left += 13
			}
			continue
		}
		if ti >= len(tags) {
			left += e.End - e.Start
			continue
		}
		s := tags[ti]
		ti++
		ev := M{"ev": "Tag", "t": s.st.T, "n": s.st.N, "ts": s.st.Ts, "fields": e.Tag,
			"payloadOk": bytes.Equal(e.Payload, s.payload), "lal": lalReadBack(stream[e.Start:e.End])}
		if sc.Mode == "ws" {
			ev["frame"] = frameAt(e.Start, e.End)
		}
		tw.Emit(ev)
	}
	// lal's own file reader must reach a clean EOF after the same number of tags
	lalEof := true
	if len(stream) >= 13 {
		rd := bytes.NewReader(stream[13:])
		n := 0
		for {
			_, err := httpflv.ReadTag(rd)
			if err != nil {
				lalEof = err == io.EOF && n == len(tags)
				break
			}
			n++
		}
	} else if hdr {
		lalEof = false
	}
	tw.Emit(M{"ev": "End", "leftover": left + wsLeft, "ntags": len(tags), "lalEof": lalEof})
}

package drv

import (
	"bytes"
	"encoding/json"
	"fmt"
	"os"
	"path/filepath"
	"runtime"
	"sort"
	"strings"
	"sync"
	"sync/atomic"
	"time"

	"github.com/q191201771/lal/pkg/base"
	"github.com/q191201771/lal/pkg/httpflv"
	"github.com/q191201771/lal/pkg/httpts"
	"github.com/q191201771/lal/pkg/logic"
	"github.com/q191201771/lal/pkg/remux"
	"github.com/q191201771/lal/pkg/rtmp"
	"github.com/q191201771/lal/pkg/rtsp"

	"lalverif/proj"
)

// Driver "payloads" (C05): an accepted RTMP publisher sends well-framed audio / video / metadata
// messages with arbitrary payloads into a real logic.ServerManager (no listeners) whose
// configuration enables every output at once: RTMP, HTTP-FLV, HTTP-TS, HLS (memory file system),
// RTSP, FLV + MPEG-TS recording, a stream hook (which also feeds remux.Rtmp2AvPacketRemuxer) and,
// in the second configuration, dummy-audio insertion.  Subscribers of every protocol sit on
// in-memory connections (RTSP: one that goes on to SETUP / PLAY as soon as its DESCRIBE is answered and
// one that stays where the answer leaves it); a second set joins where the scenario says.  A step is
// one message, the join of the second set, or a staging macro of the model (plStage: a sequence header,
// k copies of one letter, the join in the middle), which takes lal's count-bounded analysis stages
// (rtmp2MpegtsFilter, Rtmp2RtspRemuxer, DummyAudioFilter) to and across their thresholds.
//
// Everything that touches lal runs in CHILD processes (a batch of scenarios each).  The child writes
// one line per step and flushes it; the parent attributes a death / hang of the child to the step in
// flight, re-runs that scenario alone to confirm it, and restarts a child for the rest of the batch.
// Every Pub call runs under a watchdog (budget linear in the payload size); while a call is in
// flight or after it returned, one frame is published to a second, idle stream of the same process
// and must reach its subscriber.  The driver only observes; Trace_Payloads (TLC) decides.

// ------------------------------------------------------------------------------------------ alphabet

// plLetter is one payload class.  The attributes (n, b0, b1, hv) are what lal's classification helpers
// look at; they are part of the model and the driver refuses to run if the bytes it builds for `name`
// do not have them.
type plLetter struct {
	Name  string `json:"name"`
	T     string `json:"t"` // v | a | m
	N     int    `json:"n"`
	B0    int    `json:"b0"`
	B1    int    `json:"b1"`
	Hv    bool   `json:"hv"`    // bytes 1..4 are "hvc1"
	Sh    string `json:"sh"`    // complete, valid sequence header of this kind ("" otherwise)
	Loose bool   `json:"loose"` // delivery not predicted (message whose forwarded form is empty)
	Tsx   bool   `json:"tsx"`   // combined with every timestamp class
	Mac   string `json:"mac"`   // metadata that names an audio codec lal's RTSP remuxer takes over ("" | "pt")
	Lax   bool   `json:"lax"`   // not a complete valid header, yet lal's structural parsers take parameter sets / a config out of it
}

type plDef struct {
	l plLetter
	p []byte
}

var plSps = realSps
var plPps = []byte{0x68, 0xce, 0x3c, 0x80, 0x01}
var plHvps = []byte{0x40, 0x01, 0x0c, 0x01, 0xff, 0xff, 0x01, 0x60, 0x00, 0x00, 0x03, 0x00, 0x90, 0x00, 0x00, 0x03, 0x00, 0x00, 0x03, 0x00, 0x3f, 0xba, 0x02, 0x40}
var plHsps = []byte{0x42, 0x01, 0x01, 0x01, 0x60, 0x00, 0x00, 0x03, 0x00, 0x90, 0x00, 0x00, 0x03, 0x00, 0x00, 0x03, 0x00, 0x3f, 0xa0, 0x05, 0x02, 0x01, 0x71, 0xf2, 0xe5, 0xba, 0x4a, 0x4c, 0x2f, 0x01, 0x01, 0x00, 0x00, 0x03, 0x00, 0x01, 0x00, 0x00, 0x03, 0x00, 0x0f, 0x08}
var plHpps = []byte{0x44, 0x01, 0xc0, 0x73, 0xc1, 0x89}
var plHgen = []byte{0x01, 0x01, 0x60, 0x00, 0x00, 0x00, 0x90, 0x00, 0x00, 0x00, 0x00, 0x00, 0x3f, 0xf0, 0x00, 0xfc, 0xfd, 0xf8, 0xf8, 0x00, 0x00, 0x0f}

func plCat(bs ...[]byte) []byte {
	var o []byte
	for _, b := range bs {
		o = append(o, b...)
	}
	return o
}
func plU16(n int) []byte { return []byte{byte(n >> 8), byte(n)} }
func plU32(n uint32) []byte {
	return []byte{byte(n >> 24), byte(n >> 16), byte(n >> 8), byte(n)}
}
func plFill(n int, seed byte) []byte {
	b := make([]byte, n)
	for i := range b {
		b[i] = byte(i)*7 + seed | 0x10
	}
	return b
}

// AVCDecoderConfigurationRecord behind the 5-byte FLV video header
func plAvcSh() []byte {
	return plCat([]byte{0x17, 0, 0, 0, 0, 1, plSps[1], plSps[2], plSps[3], 0xff, 0xe1}, plU16(len(plSps)), plSps,
		[]byte{1}, plU16(len(plPps)), plPps)
}

// HEVCDecoderConfigurationRecord behind hdr (legacy 1c 00 00 00 00 or enhanced 90 'hvc1')
func plHevcSh(hdr []byte) []byte {
	arr := func(t byte, nal []byte) []byte { return plCat([]byte{t, 0, 1}, plU16(len(nal)), nal) }
	return plCat(hdr, plHgen, []byte{3}, arr(0x20, plHvps), arr(0x21, plHsps), arr(0x22, plHpps))
}

var plLegacyH = []byte{0x1c, 0, 0, 0, 0}
var plExH = []byte{0x90, 'h', 'v', 'c', '1'}

func plNal(declared uint32, body []byte) []byte { return plCat(plU32(declared), body) }
func plNalOk(body []byte) []byte                { return plNal(uint32(len(body)), body) }

func plAmfStr(s string) []byte { return plCat([]byte{2}, plU16(len(s)), []byte(s)) }
func plAmfKey(s string) []byte { return plCat(plU16(len(s)), []byte(s)) }
func plAmfNum(f float64) []byte {
	var b bytes.Buffer
	rtmp.Amf0.WriteNumber(&b, f)
	return b.Bytes()
}
func plMetaObj(pairs ...[]byte) []byte {
	return plCat([]byte{8, 0, 0, 0, byte(len(pairs) / 2)}, plCat(pairs...), []byte{0, 0, 9})
}

var plAlphabetOnce sync.Once
var plAlphabetList []plDef
var plAlphabetMap map[string]*plDef

func plAlphabet() ([]plDef, map[string]*plDef) {
	plAlphabetOnce.Do(func() {
		var out []plDef
		add := func(name, t string, p []byte, opt ...string) {
			l := plLetter{Name: name, T: t, N: len(p), B0: -1, B1: -1}
			if len(p) > 0 {
				l.B0 = int(p[0])
			}
			if len(p) > 1 {
				l.B1 = int(p[1])
			}
			l.Hv = len(p) >= 5 && string(p[1:5]) == "hvc1"
			for _, o := range opt {
				switch {
				case o == "loose":
					l.Loose = true
				case o == "tsx":
					l.Tsx = true
				case o == "lax":
					l.Lax = true
				case strings.HasPrefix(o, "sh="):
					l.Sh = o[3:]
				case strings.HasPrefix(o, "mac="):
					l.Mac = o[4:]
				}
			}
			out = append(out, plDef{l, p})
		}
		v := func(name string, p []byte, opt ...string) { add(name, "v", p, opt...) }
		a := func(name string, p []byte, opt ...string) { add(name, "a", p, opt...) }
		m := func(name string, p []byte, opt ...string) { add(name, "m", p, opt...) }

		// ---- video: lengths 0..5 under every leading byte lal distinguishes
		v("v_empty", []byte{})
		for _, b0 := range []byte{0x17, 0x27, 0x1c, 0x2c, 0x90, 0x91, 0x93, 0xa1, 0x10, 0x12, 0x1f, 0x57, 0x07} {
			v(fmt.Sprintf("v_%02x_n1", b0), []byte{b0})
		}
		for _, h := range [][]byte{{0x17, 0}, {0x17, 1}, {0x17, 2}, {0x1c, 0}, {0x1c, 1}, {0x27, 1}, {0x2c, 1}} {
			for n := 2; n <= 5; n++ {
				v(fmt.Sprintf("v_%02x%02x_n%d", h[0], h[1], n), plCat(h, []byte{0, 0, 0})[:n])
			}
		}
		for _, b0 := range []byte{0x90, 0x91, 0x93, 0xa1} {
			for n := 2; n <= 5; n++ {
				v(fmt.Sprintf("v_%02xhvc1_n%d", b0, n), plCat([]byte{b0}, []byte("hvc1"))[:n])
			}
		}
		// ---- AVC sequence header: valid, cut at every field boundary, fields at extremes
		avc := plAvcSh()
		v("avc_sh", avc, "sh=avc", "tsx")
		ls := len(plSps)
		for _, c := range []int{6, 9, 10, 11, 12, 13, 14, 13 + ls - 1, 13 + ls, 14 + ls, 15 + ls, 16 + ls, 17 + ls, len(avc) - 1} {
			v(fmt.Sprintf("avc_sh_cut%d", c), avc[:c])
		}
		mod := func(b []byte, at int, val ...byte) []byte {
			o := append([]byte{}, b...)
			copy(o[at:], val)
			return o
		}
		v("avc_sh_nsps0", mod(avc, 10, 0xe0))
		v("avc_sh_nsps2", mod(avc, 10, 0xe2))
		v("avc_sh_nsps31", mod(avc, 10, 0xff))
		v("avc_sh_spslen0", mod(avc, 11, 0, 0))
		v("avc_sh_spslenmax", mod(avc, 11, 0xff, 0xff))
		v("avc_sh_spslenrest", mod(avc, 11, byte((len(avc)-13)>>8), byte(len(avc)-13)))
		v("avc_sh_npps0", mod(avc, 13+ls, 0))
		v("avc_sh_npps2", mod(avc, 13+ls, 2))
		v("avc_sh_ppslen0", mod(avc, 14+ls, 0, 0))
		v("avc_sh_ppslenmax", mod(avc, 14+ls, 0xff, 0xff))
		v("avc_sh_cts", mod(avc, 2, 0, 0, 1))
		v("avc_sh_junksps", plCat(avc[:13], plFill(ls, 0x80), avc[13+ls:]), "lax")
		v("avc_sh_sps1", plCat(avc[:11], plU16(1), []byte{0x67}, []byte{1}, plU16(len(plPps)), plPps), "lax")
		v("avc_sh_sps4", plCat(avc[:11], plU16(4), []byte{0x67, 0x64, 0x00, 0x20}, []byte{1}, plU16(len(plPps)), plPps), "lax")
		// a count field inside the SPS bit stream at its extreme: pic_order_cnt_type 1 with
		// num_ref_frames_in_pic_order_cnt_cycle = 2^32-2 (ue(v): 31 zeros, 32 ones) and nothing behind it
		pocMax := []byte{0x67, 0x42, 0x00, 0x1e, 0xd7, 0x00, 0x00, 0x00, 0x01, 0xff, 0xff, 0xff, 0xfe}
		v("avc_sh_sps_poc1max", plCat(avc[:11], plU16(len(pocMax)), pocMax, []byte{1}, plU16(len(plPps)), plPps), "lax")
		// a sequence header that is framed consistently (lengths, one sps, one pps) around an SPS whose bit stream ends
		// early: every prefix of the SPS from 4 bytes on, and one that ends with a ue(v) code in its very last bit
		for k := 4; k < len(plSps); k++ {
			cut := plSps[:k]
			v(fmt.Sprintf("avc_sh_spscut%d", k), plCat(avc[:11], plU16(len(cut)), cut, []byte{1}, plU16(len(plPps)), plPps), "lax")
		}
		ue0 := []byte{0x67, 0x42, 0x00, 0x1e, 0x11}
		v("avc_sh_sps_ue0end", plCat(avc[:11], plU16(len(ue0)), ue0, []byte{1}, plU16(len(plPps)), plPps), "lax")
		// ---- HEVC sequence header (legacy and enhanced)
		for _, k := range []struct {
			pre string
			hdr []byte
			sh  string
		}{{"hevc", plLegacyH, "hevc"}, {"ehevc", plExH, "ehevc"}} {
			h := plHevcSh(k.hdr)
			v(k.pre+"_sh", h, "sh="+k.sh, "tsx")
			lv, lsp := len(plHvps), len(plHsps)
			for _, c := range []int{6, 7, 26, 27, 28, 29, 31, 32, 33, 34, 33 + lv - 1, 33 + lv, 34 + lv, 36 + lv, 37 + lv, 38 + lv, 39 + lv,
				38 + lv + lsp, 39 + lv + lsp, 42 + lv + lsp, 43 + lv + lsp, 44 + lv + lsp, len(h) - 1} {
				v(fmt.Sprintf("%s_sh_cut%d", k.pre, c), h[:c])
			}
			v(k.pre+"_sh_narr0", mod(h, 27, 0))
			v(k.pre+"_sh_narr2", mod(h, 27, 2))
			v(k.pre+"_sh_narr4", mod(h, 27, 4), "lax")
			v(k.pre+"_sh_narr255", mod(h, 27, 255))
			v(k.pre+"_sh_type0", mod(h, 28, 0))
			v(k.pre+"_sh_nnal0", mod(h, 29, 0, 0))
			v(k.pre+"_sh_nnal2", mod(h, 29, 0, 2))
			v(k.pre+"_sh_vpslen0", mod(h, 31, 0, 0))
			v(k.pre+"_sh_vpslenmax", mod(h, 31, 0xff, 0xff))
			v(k.pre+"_sh_spslenmax", mod(h, 36+lv, 0xff, 0xff))
			v(k.pre+"_sh_spslen0", mod(h, 36+lv, 0, 0))
			v(k.pre+"_sh_ppslenmax", mod(h, 41+lv+lsp, 0xff, 0xff))
			v(k.pre+"_sh_junksps", plCat(h[:38+lv], plFill(lsp, 0x80), h[38+lv+lsp:]), "lax")
			// not an hvcC at all: Annex-B parameter sets behind the header (lal's fallback parser)
			sc := []byte{0, 0, 0, 1}
			pad := plCat(k.hdr, plFill(23, 0x40))
			// lal's fallback parser is used for the legacy header only
			var laxb []string
			if k.pre == "hevc" {
				laxb = []string{"lax"}
			}
			v(k.pre+"_sh_annexb", plCat(pad, sc, plHvps, sc, plHsps, sc, plHpps), laxb...)
			v(k.pre+"_sh_annexb_dblsc", plCat(pad, sc, plHvps, sc, sc, plHsps, sc, plHpps), laxb...)
			v(k.pre+"_sh_annexb_tailsc", plCat(pad, sc, plHvps, sc, plHsps, sc, plHpps, sc), laxb...)
			v(k.pre+"_sh_annexb_sc5", plCat(pad, sc, sc[:3], []byte{0, 0, 0, 0, 1}))
			v(k.pre+"_sh_annexb_nopps", plCat(pad, sc, plHvps, sc, plHsps))
		}
		v("ex_av01_sh", plCat([]byte{0x90}, []byte("av01"), plFill(30, 1)))
		v("ex_xxxx_sh", plCat([]byte{0x90}, []byte("xxxx"), plFill(30, 1)))
		v("ex_av01_n6", plCat([]byte{0x90}, []byte("av01"), []byte{1}))
		// ---- AVCC frames
		avcK := []byte{0x17, 1, 0, 0, 0}
		avcP := []byte{0x27, 1, 0, 0, 0}
		idr := plCat([]byte{0x65}, plFill(30, 2))
		slice := plCat([]byte{0x41}, plFill(30, 3))
		v("avc_idr", plCat(avcK, plNalOk(idr)), "tsx")
		v("avc_p", plCat(avcP, plNalOk(slice)), "tsx")
		v("avc_idr_big", plCat(avcK, plNalOk(plCat([]byte{0x65}, plFill(5000, 4)))))
		v("avc_idr_cts", plCat([]byte{0x17, 1, 0xff, 0xff, 0xff}, plNalOk(idr)))
		v("avc_sei_idr", plCat(avcK, plNalOk(plCat([]byte{0x06}, plFill(12, 5))), plNalOk(idr)))
		v("avc_aud_sps_pps_idr", plCat(avcK, plNalOk([]byte{0x09, 0xf0}), plNalOk(plSps), plNalOk(plPps), plNalOk(idr)))
		v("avc_pps_sps_idr", plCat(avcK, plNalOk(plPps), plNalOk(plSps), plNalOk(idr)))
		v("avc_idr_p_idr", plCat(avcK, plNalOk(idr), plNalOk(slice), plNalOk(idr)))
		v("avc_sps_only", plCat(avcK, plNalOk(plSps)))
		v("avc_pps_only", plCat(avcK, plNalOk(plPps)))
		v("avc_aud_only", plCat(avcK, plNalOk([]byte{0x09, 0xf0})))
		v("avc_sei_only", plCat(avcP, plNalOk(plCat([]byte{0x06}, plFill(12, 5)))))
		v("avc_nal_type0", plCat(avcP, plNalOk(plCat([]byte{0x00}, plFill(10, 6)))))
		v("avc_nal_type31", plCat(avcP, plNalOk(plCat([]byte{0x1f}, plFill(10, 6)))))
		v("avc_nal_1byte_idr", plCat(avcK, plNalOk([]byte{0x65})))
		v("avc_nal_1byte_sps", plCat(avcK, plNalOk([]byte{0x67}), plNalOk([]byte{0x68}), plNalOk([]byte{0x65})))
		v("avc_nal_len_gt1", plCat(avcK, plNal(uint32(len(idr)+1), idr)))
		v("avc_nal_len_gt1000", plCat(avcK, plNal(uint32(len(idr)+1000), idr)))
		v("avc_nal_len_ffffffff", plCat(avcK, plNal(0xffffffff, idr)))
		v("avc_nal_len_7fffffff", plCat(avcK, plNal(0x7fffffff, idr)))
		v("avc_nal_len_80000000", plCat(avcK, plNal(0x80000000, idr)))
		v("avc_nal_len_fffffffc", plCat(avcK, plNal(0xfffffffc, idr)))
		v("avc_nal_len0", plCat(avcK, plNal(0, nil)))
		v("avc_nal_len0_idr", plCat(avcK, plNal(0, nil), plNalOk(idr)))
		v("avc_nal_idr_len0", plCat(avcK, plNalOk(idr), plNal(0, nil)))
		v("avc_nal_len0x3", plCat(avcK, plNal(0, nil), plNal(0, nil), plNal(0, nil)))
		v("avc_nal_second_gt", plCat(avcK, plNalOk(idr), plNal(500, slice)))
		for k := 1; k <= 3; k++ {
			v(fmt.Sprintf("avc_idr_tail%d", k), plCat(avcK, plNalOk(idr), plFill(k, 9)))
			v(fmt.Sprintf("avc_key_n%d", 5+k), plCat(avcK, []byte{0, 0, 0}[:k]))
			v(fmt.Sprintf("avc_p_n%d", 5+k), plCat(avcP, []byte{0, 0, 1}[:k]))
		}
		v("avc_key_len1_nodata", plCat(avcK, plU32(1)))
		v("avc_eos", []byte{0x17, 2, 0, 0, 0})
		v("avc_eos_n6", []byte{0x17, 2, 0, 0, 0, 0})
		v("avc_pt3", plCat([]byte{0x17, 3, 0, 0, 0}, plNalOk(idr)))
		v("avc_disposable", plCat([]byte{0x37, 1, 0, 0, 0}, plNalOk(slice)))
		v("avc_generated_key", plCat([]byte{0x47, 1, 0, 0, 0}, plNalOk(idr)))
		v("avc_info_frame", plCat([]byte{0x57, 0, 0, 0, 0}, plFill(4, 1)))
		v("avc_frametype0", plCat([]byte{0x07, 1, 0, 0, 0}, plNalOk(idr)))
		v("avc_frametype7", plCat([]byte{0x77, 1, 0, 0, 0}, plNalOk(idr)))
		// ---- HEVC frames, legacy header
		hK := []byte{0x1c, 1, 0, 0, 0}
		hP := []byte{0x2c, 1, 0, 0, 0}
		hidr := plCat([]byte{0x26, 0x01}, plFill(30, 7))
		htrail := plCat([]byte{0x02, 0x01}, plFill(30, 8))
		v("hevc_idr", plCat(hK, plNalOk(hidr)), "tsx")
		v("hevc_p", plCat(hP, plNalOk(htrail)))
		v("hevc_idr_big", plCat(hK, plNalOk(plCat([]byte{0x26, 0x01}, plFill(5000, 4)))))
		v("hevc_vps_sps_pps_idr", plCat(hK, plNalOk(plHvps), plNalOk(plHsps), plNalOk(plHpps), plNalOk(hidr)))
		v("hevc_pps_idr", plCat(hK, plNalOk(plHpps), plNalOk(hidr)))
		v("hevc_sei_aud_idr", plCat(hK, plNalOk([]byte{0x4e, 0x01, 5, 1, 0x80}), plNalOk([]byte{0x46, 0x01, 0x50}), plNalOk(hidr)))
		v("hevc_sei_only", plCat(hP, plNalOk([]byte{0x50, 0x01, 5, 1, 0x80})))
		v("hevc_nal_1byte", plCat(hK, plNalOk([]byte{0x26})))
		v("hevc_nal_type63", plCat(hP, plNalOk(plCat([]byte{0x7e, 0x01}, plFill(8, 1)))))
		v("hevc_nal_len_gt", plCat(hK, plNal(uint32(len(hidr)+7), hidr)))
		v("hevc_nal_len0", plCat(hK, plNal(0, nil)))
		v("hevc_key_n6", plCat(hK, []byte{0}))
		v("hevc_key_n8", plCat(hK, []byte{0, 0, 0}))
		v("hevc_cra_rasl", plCat(hK, plNalOk(plCat([]byte{0x2a, 0x01}, plFill(20, 1))), plNalOk(plCat([]byte{0x12, 0x01}, plFill(20, 1)))))
		// ---- enhanced RTMP video headers
		fcc := []byte("hvc1")
		v("ex_hvc1_frames", plCat([]byte{0x91}, fcc, []byte{0, 0, 0}, plNalOk(hidr)), "tsx")
		v("ex_hvc1_frames_p", plCat([]byte{0xa1}, fcc, []byte{0, 0, 0}, plNalOk(htrail)))
		v("ex_hvc1_framesx", plCat([]byte{0x93}, fcc, plNalOk(hidr)))
		v("ex_hvc1_framesx_p", plCat([]byte{0xa3}, fcc, plNalOk(htrail)))
		v("ex_hvc1_frames_cts", plCat([]byte{0x91}, fcc, []byte{0xff, 0xff, 0xff}, plNalOk(hidr)))
		for n := 6; n <= 9; n++ {
			v(fmt.Sprintf("ex_hvc1_frames_n%d", n), plCat([]byte{0x91}, fcc, []byte{0, 0, 0, 0})[:n])
			v(fmt.Sprintf("ex_hvc1_framesx_n%d", n), plCat([]byte{0x93}, fcc, []byte{0, 0, 0, 1})[:n])
		}
		v("ex_hvc1_frames_len_gt", plCat([]byte{0x91}, fcc, []byte{0, 0, 0}, plNal(1000, hidr)))
		v("ex_hvc1_framesx_len0", plCat([]byte{0x93}, fcc, plNal(0, nil)))
		for pt := 2; pt <= 7; pt++ {
			v(fmt.Sprintf("ex_hvc1_pt%d", pt), plCat([]byte{0x90 | byte(pt)}, fcc, plFill(12, 3)))
			v(fmt.Sprintf("ex_hvc1_pt%d_n6", pt), plCat([]byte{0x90 | byte(pt)}, fcc, []byte{0}))
		}
		for pt := 8; pt <= 15; pt += 7 {
			v(fmt.Sprintf("ex_hvc1_pt%d", pt), plCat([]byte{0x90 | byte(pt)}, fcc, plFill(12, 3)))
		}
		v("ex_av01_frames", plCat([]byte{0x91}, []byte("av01"), []byte{0, 0, 0}, plNalOk(hidr)))
		v("ex_av01_frames_n7", plCat([]byte{0x91}, []byte("av01"), []byte{0, 0}))
		v("ex_av01_framesx", plCat([]byte{0x93}, []byte("av01"), plFill(20, 1)))
		v("ex_vp09_frames", plCat([]byte{0xa1}, []byte("vp09"), plFill(20, 1)))
		v("ex_xxxx_framesx_n6", plCat([]byte{0x93}, []byte("xxxx"), []byte{9}))
		v("ex_cmd_frame", plCat([]byte{0xd0}, fcc, []byte{1}))
		v("ex_ft0_frames", plCat([]byte{0x81}, fcc, []byte{0, 0, 0}, plNalOk(hidr)))
		v("ex_ft7_framesx", plCat([]byte{0xf3}, fcc, plNalOk(hidr)))
		// ---- codec ids lal does not remux
		for _, b0 := range []byte{0x10, 0x11, 0x12, 0x13, 0x14, 0x15, 0x16, 0x18, 0x1d, 0x1f, 0x2f, 0x22} {
			v(fmt.Sprintf("v_codec_%02x_n6", b0), plCat([]byte{b0}, plFill(5, 1)))
			v(fmt.Sprintf("v_codec_%02x_n40", b0), plCat([]byte{b0, 1, 0, 0, 0}, plNalOk(idr)))
		}
		v("v_codec_12_sh", plCat([]byte{0x12, 0}, plFill(20, 1)))

		// ---- audio
		a("a_empty", []byte{})
		for _, b0 := range []byte{0xaf, 0xa0, 0x72, 0x82, 0xdf, 0x2f, 0x0f, 0xff, 0x9f, 0xbf, 0xef, 0x3e, 0x1f, 0x4f, 0x5f, 0x6f, 0xcf} {
			a(fmt.Sprintf("a_%02x_n1", b0), []byte{b0})
			a(fmt.Sprintf("a_%02x_n2", b0), []byte{b0, 0})
			a(fmt.Sprintf("a_%02x_n3", b0), []byte{b0, 0, 0x55})
			if b0 != 0xaf && b0 != 0xa0 {
				a(fmt.Sprintf("a_%02x_n40", b0), plCat([]byte{b0}, plFill(39, 1)))
			}
		}
		a("aac_sh", []byte{0xaf, 0, 0x12, 0x10}, "sh=aac", "tsx")
		a("aac_sh_n7", []byte{0xaf, 0, 0x12, 0x10, 0x56, 0xe5, 0x00}, "sh=aac")
		a("aac_sh_other", []byte{0xaf, 0, 0x11, 0x90}, "sh=aac")
		a("aac_sh_a0", []byte{0xa0, 0, 0x12, 0x10}, "sh=aac")
		a("aac_sh_freq15", []byte{0xaf, 0, 0x17, 0x80})
		a("aac_sh_freq13", []byte{0xaf, 0, 0x16, 0x90})
		a("aac_sh_obj0", []byte{0xaf, 0, 0x00, 0x00}, "lax")
		a("aac_sh_obj31", []byte{0xaf, 0, 0xf8, 0x84, 0x20}, "lax")
		a("aac_sh_ch0", []byte{0xaf, 0, 0x12, 0x00}, "lax")
		a("aac_sh_ff", []byte{0xaf, 0, 0xff, 0xff})
		a("aac_raw_n2", []byte{0xaf, 1})
		a("aac_raw_n3", []byte{0xaf, 1, 0x21})
		a("aac_raw", []byte{0xaf, 1, 0x21, 0x10, 0x04, 0x60, 0x8c, 0x1c, 0x55, 0x66}, "tsx")
		a("aac_raw_big", plCat([]byte{0xaf, 1}, plFill(2000, 1)))
		a("aac_raw_9000", plCat([]byte{0xaf, 1}, plFill(9000, 1)))
		a("aac_pt2", []byte{0xaf, 2, 0x21, 0x10})
		a("aac_ptff", []byte{0xaf, 0xff, 0x21, 0x10})
		a("g711a", plCat([]byte{0x72}, plFill(160, 1)), "tsx")
		a("g711u", plCat([]byte{0x82}, plFill(160, 2)))
		a("opus", plCat([]byte{0xdf}, plFill(60, 3)), "tsx")
		a("opus_big", plCat([]byte{0xdf}, plFill(3000, 3)))
		a("g711a_big", plCat([]byte{0x72}, plFill(3000, 3)))
		a("mp3", plCat([]byte{0x2f}, plFill(200, 4)))

		// ---- metadata
		onMeta := plAmfStr("onMetaData")
		sdf := plAmfStr("@setDataFrame")
		obj := plMetaObj(plAmfKey("width"), plAmfNum(640), plAmfKey("height"), plAmfNum(360), plAmfKey("videocodecid"), plAmfNum(7),
			plAmfKey("audiocodecid"), plAmfNum(10), plAmfKey("encoder"), plAmfStr("payl"))
		valid := plCat(onMeta, obj)
		m("m_empty", []byte{})
		m("m_valid", valid, "tsx")
		m("m_sdf_valid", plCat(sdf, valid))
		m("m_sdf_only", sdf, "loose")
		m("m_sdf_sdf", plCat(sdf, sdf))
		for _, c := range []int{1, 2, 3, 5, len(onMeta) - 1, len(onMeta), len(onMeta) + 1, len(onMeta) + 4, len(onMeta) + 5, len(onMeta) + 6,
			len(onMeta) + 12, len(onMeta) + 13, len(onMeta) + 16, len(valid) - 3, len(valid) - 1} {
			m(fmt.Sprintf("m_cut%d", c), valid[:c])
		}
		for _, c := range []int{1, 3, 10, 15} {
			m(fmt.Sprintf("m_sdf_cut%d", c), sdf[:c])
		}
		m("m_sdf_cut17", plCat(sdf, valid)[:17])
		m("m_sdf_cut30", plCat(sdf, valid)[:30])
		m("m_first_number", plCat(plAmfNum(1), valid))
		m("m_first_null", plCat([]byte{5}, valid))
		m("m_first_unknown", plCat([]byte{0x11}, valid))
		m("m_strlen_max", plCat([]byte{2, 0xff, 0xff}, []byte("onMetaData")))
		m("m_longstr", plCat([]byte{12, 0xff, 0xff, 0xff, 0xff}, []byte("x")))
		m("m_object", plCat(onMeta, []byte{3}, plAmfKey("width"), plAmfNum(1), []byte{0, 0, 9}))
		m("m_object_open", plCat(onMeta, []byte{3}, plAmfKey("width"), plAmfNum(1)))
		m("m_ecma_count_max", plCat(onMeta, []byte{8, 0xff, 0xff, 0xff, 0xff}, plAmfKey("width"), plAmfNum(1), []byte{0, 0, 9}))
		m("m_strict_max", plCat(onMeta, []byte{10, 0xff, 0xff, 0xff, 0xff}, plAmfNum(1)))
		m("m_name_only", onMeta)
		m("m_other_name", plCat(plAmfStr("onTextData"), obj))
		m("m_nested70", plCat(onMeta, bytes.Repeat(plCat([]byte{3}, plAmfKey("k")), 70)))
		for _, c := range []struct {
			n    string
			id   float64
			rate float64
		}{{"g711a_rate0", 7, 0}, {"g711u_rateneg", 8, -8000}, {"opus_ratebig", 13, 1e15}, {"opus_rate48k", 13, 48000}, {"g711a_rate1", 7, 1},
			{"id_neg", -1, 44100}, {"id_300", 300, 44100}} {
			opt := []string{}
			if c.id == 7 || c.id == 8 || c.id == 13 {
				opt = append(opt, "mac=pt")
			}
			m("m_audio_"+c.n, plCat(onMeta, plMetaObj(plAmfKey("audiocodecid"), plAmfNum(c.id), plAmfKey("audiosamplerate"), plAmfNum(c.rate))), opt...)
		}
		m("m_audio_id_string", plCat(onMeta, plMetaObj(plAmfKey("audiocodecid"), plAmfStr("mp4a"), plAmfKey("audiosamplerate"), plAmfStr("x"))))
		plAlphabetList = out
		plAlphabetMap = map[string]*plDef{}
		for i := range out {
			if _, dup := plAlphabetMap[out[i].l.Name]; dup {
				panic("payloads: duplicate letter " + out[i].l.Name)
			}
			plAlphabetMap[out[i].l.Name] = &out[i]
		}
	})
	return plAlphabetList, plAlphabetMap
}

// plDumpTla prints the alphabet as a TLA+ set of records (pasted into spec/MC_Payloads.tla).
func plDumpTla(path string) error {
	defs, _ := plAlphabet()
	var sb strings.Builder
	tb := func(b bool) string {
		if b {
			return "TRUE"
		}
		return "FALSE"
	}
	for i, d := range defs {
		l := d.l
		fmt.Fprintf(&sb, "  [name |-> %q, t |-> %q, n |-> %d, b0 |-> %d, b1 |-> %d, hv |-> %s, sh |-> %q, loose |-> %s, tsx |-> %s, mac |-> %q, lax |-> %s]",
			l.Name, l.T, l.N, l.B0, l.B1, tb(l.Hv), l.Sh, tb(l.Loose), tb(l.Tsx), l.Mac, tb(l.Lax))
		if i != len(defs)-1 {
			sb.WriteString(",")
		}
		sb.WriteString("\n")
	}
	return os.WriteFile(path, []byte(sb.String()), 0644)
}

// ------------------------------------------------------------------------------------------ scenarios

type plStep struct {
	Name string    `json:"name"` // Pub | Join | Stage
	M    *plLetter `json:"m"`
	Ts   string    `json:"ts"` // z | p1 | p40 | hop | jump | max | dec
	S    *plStage  `json:"s"`
}

// plStage is the staging macro of the model: an optional sequence header (Hdr.Name == "" if none), then K
// copies of letter M, each Ts after the one before; if 0 < J < K the second set of consumers joins after
// J of them.
type plStage struct {
	Hdr plLetter `json:"hdr"`
	M   plLetter `json:"m"`
	K   int      `json:"k"`
	Ts  string   `json:"ts"`
	J   int      `json:"j"`
}

type plCfg struct {
	Id      string `json:"id"`
	Dummy   bool   `json:"dummy"`   // in_session.add_dummy_audio_enable
	Predict bool   `json:"predict"` // deliveries are predicted by the model (no dummy audio, no GOP cache)
	Outs    string `json:"outs"`    // all | rtmp | hls | rtsp | ts
	Gop     int    `json:"gop"`
	Debug   bool   `json:"debug"` // lal's shipped log level (debug), written to /dev/null
}

type plScenario struct {
	Sc    int          `json:"sc"`
	Cfg   plCfg        `json:"cfg"`
	Steps []plStep     `json:"steps"`
	Batch []plScenario `json:"batch"` // child mode: the scenarios to run
	Tmp   string       `json:"tmp"`
	Dump  string       `json:"dump"` // utility: write the alphabet as TLA+ text to this path
}

func init() { Registry["payloads"] = payloadsDriver }

const plBatch = 120

var plBudgetBase = 400 * time.Millisecond

func plBudget(n int) time.Duration { return plBudgetBase + time.Duration(n)*time.Microsecond }

func payloadsDriver(env *Env) error {
	var scs []plScenario
	if err := ReadScenarios(env.In, func(raw json.RawMessage) error {
		var sc plScenario
		if err := json.Unmarshal(raw, &sc); err != nil {
			return err
		}
		scs = append(scs, sc)
		return nil
	}); err != nil {
		return err
	}
	if len(scs) == 1 && scs[0].Dump != "" {
		os.WriteFile(env.Out, nil, 0644)
		return plDumpTla(scs[0].Dump)
	}
	// the bytes behind every letter must have the attributes the model was given
	_, amap := plAlphabet()
	check := func(sc *plScenario) error {
		one := func(l *plLetter) error {
			d := amap[l.Name]
			if d == nil {
				return fmt.Errorf("unknown letter %q", l.Name)
			}
			if d.l != *l {
				return fmt.Errorf("letter %q: model says %+v, driver builds %+v", l.Name, *l, d.l)
			}
			return nil
		}
		for _, st := range sc.Steps {
			switch st.Name {
			case "Pub":
				if err := one(st.M); err != nil {
					return err
				}
			case "Stage":
				if st.S == nil || st.S.K < 1 || st.S.K > 64 {
					return fmt.Errorf("bad staging macro %+v", st.S)
				}
				if st.S.Hdr.Name != "" {
					if err := one(&st.S.Hdr); err != nil {
						return err
					}
				}
				if err := one(&st.S.M); err != nil {
					return err
				}
			}
		}
		return nil
	}
	if env.Child != "" {
		if len(scs) != 1 {
			return fmt.Errorf("child expects one batch")
		}
		return plChild(env, &scs[0])
	}
	for i := range scs {
		if err := check(&scs[i]); err != nil {
			return err
		}
	}
	return plParent(env, scs)
}

// ------------------------------------------------------------------------------------------ parent

type plResult struct {
	evs []M
}

func plDefaultObs() M {
	none := M{"got": false, "bad": 0}
	return M{"died": false, "stalled": false, "other": false, "hookN": 0, "hook": none, "rec": none, "r0": none, "f0": none,
		"r1": none, "f1": none, "crash": "", "frame": "", "confirmed": false, "desc": false, "pat": false}
}

func plParent(env *Env, scs []plScenario) error {
	tw, err := NewTraceWriter(env.Out)
	if err != nil {
		return err
	}
	defer tw.Close()
	tmp, err := os.MkdirTemp("", "lalverif-payloads")
	if err != nil {
		return err
	}
	defer os.RemoveAll(tmp)
	workers := runtime.NumCPU() / 2
	if v := os.Getenv("VERIF_WORKERS"); v != "" {
		fmt.Sscan(v, &workers)
	}
	if workers < 1 {
		workers = 1
	}
	if workers > 8 {
		workers = 8
	}
	results := make([]*plResult, len(scs))
	// batches of one configuration each
	type batch struct{ idx []int }
	var batches []batch
	byCfg := map[string][]int{}
	var order []string
	for i := range scs {
		id := scs[i].Cfg.Id
		if _, ok := byCfg[id]; !ok {
			order = append(order, id)
		}
		byCfg[id] = append(byCfg[id], i)
	}
	for _, id := range order {
		l := byCfg[id]
		for k := 0; k < len(l); k += plBatch {
			e := k + plBatch
			if e > len(l) {
				e = len(l)
			}
			batches = append(batches, batch{l[k:e]})
		}
	}
	var confirmMu sync.Mutex
	confirmed := map[string]int{}
	var next int32 = -1
	var wg sync.WaitGroup
	var nChild, nDeath int32
	for w := 0; w < workers; w++ {
		wg.Add(1)
		go func(w int) {
			defer wg.Done()
			for {
				b := int(atomic.AddInt32(&next, 1))
				if b >= len(batches) {
					return
				}
				todo := batches[b].idx
				for len(todo) > 0 {
					bs := plScenario{Tmp: filepath.Join(tmp, fmt.Sprintf("w%d-%d", w, atomic.AddInt32(&nChild, 1)))}
					for _, i := range todo {
						bs.Batch = append(bs.Batch, scs[i])
					}
					os.MkdirAll(bs.Tmp, 0755)
					lines, died, stderr := RunChild("payloads", &bs, env.Seed, 300)
					os.RemoveAll(bs.Tmp)
					per, aborted := plSplit(lines)
					ndone := 0
					for _, i := range todo {
						evs, ok := per[scs[i].Sc]
						if !ok {
							break
						}
						if plHasInfra(evs) {
							results[i] = &plResult{evs}
							ndone++
							continue
						}
						if plComplete(evs) {
							results[i] = &plResult{evs}
							ndone++
							continue
						}
						// the scenario in flight when the child died, hung or gave up after a watchdog expiry
						atomic.AddInt32(&nDeath, 1)
						results[i] = &plResult{plAttribute(&scs[i], evs, died && !aborted, stderr, env.Seed, tmp, &confirmMu, confirmed)}
						ndone++
						break
					}
					if ndone == 0 {
						// the child did not even start the first scenario: infrastructure
						results[todo[0]] = &plResult{[]M{{"ev": "reset", "sc": scs[todo[0]].Sc, "cfg": scs[todo[0]].Cfg},
							{"ev": "Infra", "what": "child produced nothing: " + tailOf(stderr, 400)}}}
						ndone = 1
					}
					todo = todo[ndone:]
				}
			}
		}(w)
	}
	wg.Wait()
	for i := range scs {
		if results[i] == nil {
			return fmt.Errorf("scenario %d has no result", scs[i].Sc)
		}
		for _, e := range results[i].evs {
			if e["ev"] == "Infra" {
				return fmt.Errorf("scenario %d: %v", scs[i].Sc, e["what"])
			}
			tw.Emit(e)
		}
	}
	fmt.Printf("payloads: %d scenarios, %d children, %d scenarios ended by death/stall\n", len(scs), nChild, nDeath)
	return nil
}

// plPanicSig is PanicSig with the whole innermost lal function name (receiver included).
func plPanicSig(stderr string) (kind string, frame string) {
	kind, frame = PanicSig(stderr)
	for _, l := range strings.Split(stderr, "\n") {
		if strings.HasPrefix(l, "github.com/q191201771/lal/pkg/") {
			if i := strings.LastIndex(l, "("); i > 0 {
				l = l[:i]
			}
			frame = strings.TrimPrefix(l, "github.com/q191201771/lal/pkg/")
			break
		}
	}
	return
}

func tailOf(s string, n int) string {
	if len(s) > n {
		return s[len(s)-n:]
	}
	return s
}

// plSplit groups the child's lines per scenario; aborted reports that the child left on purpose
// after a watchdog expiry.
func plSplit(lines []json.RawMessage) (per map[int][]M, aborted bool) {
	per = map[int][]M{}
	cur := -1
	for _, l := range lines {
		var m M
		if json.Unmarshal(l, &m) != nil {
			continue // a torn last line
		}
		switch m["ev"] {
		case "reset":
			cur = int(m["sc"].(float64))
			per[cur] = []M{m}
		case "abort":
			aborted = true
		default:
			if cur >= 0 {
				per[cur] = append(per[cur], m)
			}
		}
	}
	return
}

func plComplete(evs []M) bool {
	if len(evs) == 0 || evs[len(evs)-1]["ev"] != "End" {
		return false
	}
	for _, e := range evs {
		if o, ok := e["obs"].(map[string]interface{}); ok && o["stalled"] == true {
			return false
		}
	}
	return true
}

func plHasInfra(evs []M) bool {
	for _, e := range evs {
		if e["ev"] == "Infra" {
			return true
		}
	}
	return false
}

func plHasStall(evs []M) bool {
	for _, e := range evs {
		if o, ok := e["obs"].(map[string]interface{}); ok && o["stalled"] == true {
			return true
		}
	}
	return false
}

// plAttribute turns an interrupted run of one scenario into its trace: the steps that completed,
// then the step in flight with died / stalled set.  The scenario is run again alone: a death must
// reproduce (the first few of every signature are re-run, the rest are taken as observed), a
// watchdog expiry must reproduce twice or the clean re-run is what was observed.
func plAttribute(sc *plScenario, evs []M, died bool, stderr string, seed int64, tmp string, mu *sync.Mutex, seen map[string]int) []M {
	alone := func() ([]M, bool, string) {
		bs := plScenario{Tmp: filepath.Join(tmp, fmt.Sprintf("alone-%d-%d", sc.Sc, time.Now().UnixNano())), Batch: []plScenario{*sc}}
		os.MkdirAll(bs.Tmp, 0755)
		defer os.RemoveAll(bs.Tmp)
		lines, d, se := RunChild("payloads", &bs, seed, 120)
		per, ab := plSplit(lines)
		return per[sc.Sc], d && !ab, se
	}
	finish := func(evs []M, died bool, stderr string, confirmed bool) []M {
		if len(evs) == 0 {
			evs = []M{{"ev": "reset", "sc": sc.Sc, "cfg": sc.Cfg}}
		}
		if plHasStall(evs) {
			return evs
		}
		k := len(evs) - 1 // steps completed
		obs := plDefaultObs()
		kind, frame := plPanicSig(stderr)
		obs["crash"], obs["frame"], obs["confirmed"] = kind, frame, confirmed
		if died && kind != "timeout" {
			obs["died"] = true
		} else {
			obs["stalled"] = true
		}
		if k < len(sc.Steps) {
			st := sc.Steps[k]
			e := M{"ev": st.Name, "obs": obs}
			if st.Name == "Pub" {
				e["m"], e["ts"] = st.M, st.Ts
			}
			if st.Name == "Stage" {
				e["s"] = st.S
			}
			evs = append(evs, e)
		} else {
			evs = append(evs, M{"ev": "End", "obs": obs})
		}
		return evs
	}
	if died {
		kind, frame := plPanicSig(stderr)
		key := kind + "|" + frame
		mu.Lock()
		n := seen[key]
		seen[key] = n + 1
		mu.Unlock()
		if n >= 3 {
			return finish(evs, true, stderr, false)
		}
		evs2, died2, stderr2 := alone()
		if died2 {
			return finish(evs2, true, stderr2, true)
		}
		if plComplete(evs2) {
			// not reproducible alone: keep the original observation, flagged unconfirmed
			return finish(evs, true, stderr, false)
		}
		return finish(evs2, false, stderr2, false)
	}
	// watchdog expiry (the child reported it and left) or a hang of the whole child
	for try := 0; try < 2; try++ {
		evs2, died2, stderr2 := alone()
		if died2 {
			return finish(evs2, true, stderr2, true)
		}
		if plComplete(evs2) {
			return evs2
		}
		evs, stderr = evs2, stderr2
	}
	out := finish(evs, false, stderr, true)
	for _, e := range out {
		if o, ok := e["obs"].(map[string]interface{}); ok && o["stalled"] == true {
			o["confirmed"] = true
		}
	}
	return out
}

// ------------------------------------------------------------------------------------------ child

type plConsumer struct {
	kind  string // rtmp | flv
	conn  *MemConn
	rs    *rtmp.ServerSession
	fs    *httpflv.SubSession
	all   []byte
	nseen int
}

type plSent struct {
	typ   int
	ts    uint32
	p     []byte
	woSdf []byte
}

type plHook struct {
	mu   sync.Mutex
	msgs []base.RtmpMsg
	n    int64
	av   *remux.Rtmp2AvPacketRemuxer
}

func (h *plHook) OnMsg(msg base.RtmpMsg) {
	atomic.AddInt64(&h.n, 1)
	h.mu.Lock()
	if len(h.msgs) < 4096 {
		h.msgs = append(h.msgs, msg.Clone())
	}
	h.mu.Unlock()
	// a hook that hands the stream to business code through lal's own remuxer
	h.av.FeedRtmpMsg(msg, nil)
}
func (h *plHook) OnStop() {}

type plWorld struct {
	cfg   plCfg
	sm    *logic.ServerManager
	tmp   string
	hooks sync.Map // stream name -> *plHook
	// the idle stream
	idleG   *logic.Group
	idleSub *MemConn
	idleTs  uint32
}

var plDummySh = []byte{0xaf, 0x00, 0x11, 0x90}
var plDummyRaw = []byte{0xaf, 0x01, 0x21, 0x10, 0x04, 0x60, 0x8c, 0x1c}

func plConf(cfg plCfg, tmp string) string {
	on := func(k string) bool { return cfg.Outs == "all" || strings.Contains(cfg.Outs, k) }
	level, logfile := 5, ""
	if cfg.Debug {
		level, logfile = 0, "/dev/null"
	}
	c := M{
		"conf_version": "v0.4.1",
		"rtmp":         M{"enable": on("rtmp"), "addr": ":0", "gop_num": cfg.Gop, "single_gop_max_frame_num": 0, "merge_write_size": 0},
		"in_session":   M{"add_dummy_audio_enable": cfg.Dummy, "add_dummy_audio_wait_audio_ms": 30},
		"httpflv":      M{"enable": on("flv"), "gop_num": cfg.Gop, "url_pattern": "/live/"},
		"httpts":       M{"enable": on("ts"), "gop_num": cfg.Gop, "url_pattern": "/live/"},
		"hls": M{"enable": on("hls"), "url_pattern": "/hls/", "out_path": filepath.Join(tmp, "hls") + "/", "fragment_duration_ms": 200,
			"fragment_num": 3, "delete_threshold": 3, "cleanup_mode": 2, "use_memory_as_disk_flag": true},
		"rtsp":   M{"enable": on("rtsp"), "addr": ":0", "out_wait_key_frame_flag": true},
		"record": M{"enable_flv": on("recflv"), "flv_out_path": filepath.Join(tmp, "flv") + "/", "enable_mpegts": on("rects"), "mpegts_out_path": filepath.Join(tmp, "ts") + "/"},
		"log":    M{"level": level, "filename": logfile, "is_to_stdout": false, "is_rotate_daily": false, "assert_behavior": 1},
	}
	b, _ := json.Marshal(c)
	return string(b)
}

func plNewWorld(cfg plCfg, tmp string) *plWorld {
	w := &plWorld{cfg: cfg, tmp: tmp}
	conf := plConf(cfg, tmp)
	w.sm = logic.NewServerManager(func(option *logic.Option) { option.ConfRawContent = []byte(conf) })
	w.sm.WithOnHookSession(func(uniqueKey string, streamName string) logic.ICustomizeHookSessionContext {
		h := &plHook{av: remux.NewRtmp2AvPacketRemuxer()}
		w.hooks.Store(streamName, h)
		return h
	})
	// the idle stream: a publisher and an RTMP subscriber that never see the scenario's payloads
	pub := rtmp.NewServerSession(nullObserver{}, NewMemConn("idlepub"))
	pub.VerifSetIdentity("live", "idle", "", true)
	if err := w.sm.OnNewRtmpPubSession(pub); err != nil {
		panic("payloads: idle publisher refused: " + err.Error())
	}
	w.idleSub = NewMemConn("idlesub")
	sub := rtmp.NewServerSession(nullObserver{}, w.idleSub)
	sub.VerifSetIdentity("live", "idle", "", false)
	w.sm.OnNewRtmpSubSession(sub)
	w.idleG = w.sm.GetGroup("live", "idle")
	return w
}

// probe publishes one frame to the idle stream and reports whether its subscriber received it.
func (w *plWorld) probe() bool {
	w.idleTs += 20
	p := plCat([]byte{0x72}, plFill(40, byte(w.idleTs)))
	msg := base.RtmpMsg{Header: base.RtmpHeader{Csid: 4, MsgLen: uint32(len(p)), MsgTypeId: base.RtmpTypeIdAudio, MsgStreamId: 1,
		TimestampAbs: w.idleTs}, Payload: p}
	w.idleSub.Drain()
	done := make(chan struct{})
	go func() {
		w.idleG.OnReadRtmpAvMsg(msg)
		close(done)
	}()
	select {
	case <-done:
	case <-time.After(2 * time.Second):
		return false
	}
	out, _ := w.idleSub.Drain()
	return bytes.Contains(out, p[1:])
}

type plRtspSub struct {
	conn     *MemConn
	cs       *rtsp.ServerCommandSession
	url      string
	buf      []byte
	cseq     int
	state    int // 1 DESCRIBE sent, 2 playing, 3 described (lazy: never goes on to SETUP), 9 gave up
	lazy     bool
	closed   bool // the command session has been disposed of: nothing more will be answered
	rtpBytes int
	obs      *plRtspObs
}

func (c *plRtspSub) request(method, uri, extra string) {
	c.cseq++
	c.conn.Feed([]byte(fmt.Sprintf("%s %s RTSP/1.0\r\nCSeq: %d\r\n%s\r\n", method, uri, c.cseq, extra)))
}

// responses consumes interleaved data and returns complete text responses
func (c *plRtspSub) responses() (resps []string) {
	out, _ := c.conn.Drain()
	c.buf = append(c.buf, out...)
	for len(c.buf) > 0 {
		if c.buf[0] == '$' {
			if len(c.buf) < 4 {
				return
			}
			n := int(c.buf[2])<<8 | int(c.buf[3])
			if len(c.buf) < 4+n {
				return
			}
			c.rtpBytes += n
			c.buf = c.buf[4+n:]
			continue
		}
		k := bytes.Index(c.buf, []byte("\r\n\r\n"))
		if k < 0 {
			return
		}
		head := string(c.buf[:k+4])
		cl := 0
		for _, ln := range strings.Split(head, "\r\n") {
			if strings.HasPrefix(strings.ToLower(ln), "content-length:") {
				fmt.Sscan(strings.TrimSpace(ln[15:]), &cl)
			}
		}
		if len(c.buf) < k+4+cl {
			return
		}
		resps = append(resps, string(c.buf[:k+4+cl]))
		c.buf = c.buf[k+4+cl:]
	}
	return
}

func (c *plRtspSub) await(d time.Duration) (string, bool) {
	dl := time.Now().Add(d)
	spins := 0
	for {
		if r := c.responses(); len(r) > 0 {
			return r[0], true
		}
		if time.Now().After(dl) {
			return "", false
		}
		// the answer comes from the session's goroutine within microseconds: yield first, sleep (a sleep is
		// a millisecond on this kernel) only when it does not
		if spins++; spins < 2000 {
			runtime.Gosched()
		} else {
			time.Sleep(100 * time.Microsecond)
		}
	}
}

// advance continues DESCRIBE -> SETUP (interleaved) -> PLAY as far as the server answers.
func (c *plRtspSub) advance(wait time.Duration) {
	if c.state != 1 || c.closed {
		c.responses()
		return
	}
	r, ok := c.await(wait)
	if !ok {
		return // DESCRIBE is answered once the stream has a session description
	}
	k := strings.Index(r, "\r\n\r\n")
	if !strings.HasPrefix(r, "RTSP/1.0 200") || k < 0 {
		c.state = 9
		return
	}
	if c.lazy {
		c.state = 3 // stays between DESCRIBE and SETUP for the rest of the scenario
		return
	}
	ch := 0
	for _, control := range plSdpControls(r[k+4:]) {
		c.request("SETUP", c.url+"/"+control, fmt.Sprintf("Transport: RTP/AVP/TCP;unicast;interleaved=%d-%d\r\n", ch, ch+1))
		if r, ok := c.await(time.Second); !ok || !strings.HasPrefix(r, "RTSP/1.0 200") {
			c.state = 9
			return
		}
		ch += 2
	}
	c.request("PLAY", c.url, "Range: npt=0.000-\r\n")
	if r, ok := c.await(time.Second); !ok || !strings.HasPrefix(r, "RTSP/1.0 200") {
		c.state = 9
		return
	}
	c.state = 2
}

// plSdpControls lists the a=control values of the media sections of a session description.
func plSdpControls(sdp string) (out []string) {
	inMedia := false
	for _, ln := range strings.Split(sdp, "\n") {
		ln = strings.TrimRight(ln, "\r")
		if strings.HasPrefix(ln, "m=") {
			inMedia = true
		} else if inMedia && strings.HasPrefix(ln, "a=control:") {
			out = append(out, ln[len("a=control:"):])
			inMedia = false
		}
	}
	return
}

// plRtspObs stands where rtsp.Server stands between a command session and the ServerManager.
type plRtspObs struct {
	sm   *logic.ServerManager
	mu   sync.Mutex
	sub  *rtsp.SubSession
	seen bool // the group has registered the subscriber (it is parked, or its DESCRIBE is being answered)
}

func (o *plRtspObs) OnNewRtspPubSession(session *rtsp.PubSession) error { return base.ErrRtsp }
func (o *plRtspObs) OnNewRtspSubSessionDescribe(session *rtsp.SubSession) (bool, []byte) {
	o.mu.Lock()
	o.sub = session
	o.mu.Unlock()
	ok, sdp := o.sm.OnNewRtspSubSessionDescribe(session)
	o.mu.Lock()
	o.seen = true
	o.mu.Unlock()
	return ok, sdp
}
func (o *plRtspObs) OnNewRtspSubSessionPlay(session *rtsp.SubSession) error {
	return o.sm.OnNewRtspSubSessionPlay(session)
}

func plChild(env *Env, batch *plScenario) error {
	httpflv.SubSessionWriteChanSize = 0
	httpts.SubSessionWriteChanSize = 0
	fp, err := os.Create(env.Out)
	if err != nil {
		return err
	}
	defer fp.Close()
	emit := func(ev M) {
		b, _ := json.Marshal(ev)
		fp.Write(append(b, '\n')) // unbuffered: the line must survive a crash in the next step
	}
	_, amap := plAlphabet()
	worlds := map[string]*plWorld{}
	for i := range batch.Batch {
		sc := &batch.Batch[i]
		emit(M{"ev": "reset", "sc": sc.Sc, "cfg": sc.Cfg})
		w := worlds[sc.Cfg.Id]
		if w == nil {
			w = plNewWorld(sc.Cfg, filepath.Join(batch.Tmp, sc.Cfg.Id))
			worlds[sc.Cfg.Id] = w
		}
		if !plRunScenario(w, sc, amap, emit) {
			emit(M{"ev": "abort"})
			os.Exit(0) // a call into lal is still spinning; nothing more can be run in this process
		}
	}
	return nil
}

func plRunScenario(w *plWorld, sc *plScenario, amap map[string]*plDef, emit func(M)) bool {
	sm := w.sm
	stream := fmt.Sprintf("p%d", sc.Sc)
	on := func(k string) bool { return w.cfg.Outs == "all" || strings.Contains(w.cfg.Outs, k) }
	pub := rtmp.NewServerSession(nullObserver{}, NewMemConn("pub"))
	pub.VerifSetIdentity("live", stream, "", true)
	if err := sm.OnNewRtmpPubSession(pub); err != nil {
		emit(M{"ev": "Infra", "what": "publisher refused: " + err.Error()})
		return true
	}
	g := sm.GetGroup("live", stream)
	hv, _ := w.hooks.Load(stream)
	hook := hv.(*plHook)
	cons := map[string]*plConsumer{}
	var tsSubs []*httpts.SubSession
	var tsConns []*MemConn
	var rtspSubs []*plRtspSub
	sent := []plSent{}
	join := func(suffix string) {
		if on("rtmp") {
			c := &plConsumer{kind: "rtmp", conn: NewMemConn("r" + suffix)}
			c.rs = rtmp.NewServerSession(nullObserver{}, c.conn)
			c.rs.VerifSetIdentity("live", stream, "", false)
			sm.OnNewRtmpSubSession(c.rs)
			cons["r"+suffix] = c
		}
		if on("flv") {
			c := &plConsumer{kind: "flv", conn: NewMemConn("f" + suffix)}
			u, _ := base.ParseUrl("http://h/live/"+stream+".flv", 80)
			c.fs = httpflv.NewSubSession(c.conn, u, false, "")
			sm.OnNewHttpflvSubSession(c.fs)
			cons["f"+suffix] = c
		}
		if on("ts") {
			u, _ := base.ParseUrl("http://h/live/"+stream+".ts", 80)
			tc := NewMemConn("t" + suffix)
			tsConns = append(tsConns, tc)
			ss := httpts.NewSubSession(tc, u, false, "")
			sm.OnNewHttptsSubSession(ss)
			tsSubs = append(tsSubs, ss)
		}
		if on("rtsp") {
			// one subscriber that goes on to SETUP and PLAY as soon as its DESCRIBE is answered, and one that
			// stays where the answer leaves it
			for _, lazy := range []bool{false, true} {
				c := &plRtspSub{conn: NewMemConn("g" + suffix), url: "rtsp://h/live/" + stream, state: 1, lazy: lazy}
				c.obs = &plRtspObs{sm: sm}
				c.cs = rtsp.NewServerCommandSession(c.obs, c.conn, rtsp.ServerAuthConfig{}, false, "")
				go c.cs.RunLoop()
				c.request("DESCRIBE", c.url, "Accept: application/sdp\r\n")
				// the request is handled by the session's goroutine: go on when the group has seen it, so that
				// "joined before / between these messages" is what happens
				for dl, spins := time.Now().Add(50*time.Millisecond), 0; time.Now().Before(dl); spins++ {
					c.obs.mu.Lock()
					seen := c.obs.seen
					c.obs.mu.Unlock()
					if seen {
						break
					}
					if spins < 2000 {
						runtime.Gosched()
					} else {
						time.Sleep(100 * time.Microsecond)
					}
				}
				if suffix != "0" {
					c.advance(2 * time.Millisecond)
				}
				rtspSubs = append(rtspSubs, c)
			}
		}
	}
	join("0")
	// classify what an opaque consumer received in this step
	match := func(typ int, ts uint32, p []byte, cur *plSent) (isCur bool, known bool) {
		if cur != nil && typ == cur.typ && ts == cur.ts && bytes.Equal(p, cur.woSdf) {
			return true, true
		}
		for i := range sent {
			s := &sent[i]
			if typ == s.typ && ts == s.ts && bytes.Equal(p, s.woSdf) {
				return false, true
			}
		}
		if w.cfg.Dummy && typ == 8 && (bytes.Equal(p, plDummySh) || bytes.Equal(p, plDummyRaw)) {
			return false, true
		}
		return false, false
	}
	drainCons := func(c *plConsumer, cur *plSent) M {
		out, _ := c.conn.Drain()
		c.all = append(c.all, out...)
		got, bad := false, 0
		type dm struct {
			typ int
			ts  uint32
			p   []byte
		}
		var ms []dm
		if c.kind == "rtmp" {
			pm, _ := proj.ReadRtmpMessages(c.all, 4096)
			for _, m := range pm {
				ms = append(ms, dm{m.Type, m.Ts, m.Payload})
			}
		} else {
			b := c.all
			if k := bytes.Index(b, []byte("\r\n\r\n")); k >= 0 {
				elems, _ := proj.ParseFlvStream(b[k+4:])
				for _, e := range elems {
					if e.Tag != nil {
						ms = append(ms, dm{e.Tag.Type, uint32(e.Tag.TsExt)<<24 | uint32(e.Tag.TsLow), e.Payload})
					}
				}
			}
		}
		for i := c.nseen; i < len(ms); i++ {
			isCur, known := match(ms[i].typ, ms[i].ts, ms[i].p, cur)
			if isCur {
				got = true
			}
			if !known {
				bad++
			}
		}
		c.nseen = len(ms)
		return M{"got": got, "bad": bad}
	}
	recOff := 0
	var recBuf []byte
	recSeen := 0
	drainRec := func(cur *plSent) M {
		got, bad := false, 0
		files, _ := filepath.Glob(filepath.Join(w.tmp, "flv", stream+"-*.flv"))
		if len(files) == 1 {
			b, _ := os.ReadFile(files[0])
			if len(b) > recOff {
				recBuf = append(recBuf, b[recOff:]...)
				recOff = len(b)
			}
			elems, _ := proj.ParseFlvStream(recBuf)
			n := 0
			for _, e := range elems {
				if e.Tag == nil {
					continue
				}
				n++
				if n <= recSeen {
					continue
				}
				isCur, known := match(e.Tag.Type, uint32(e.Tag.TsExt)<<24|uint32(e.Tag.TsLow), e.Payload, cur)
				if isCur {
					got = true
				}
				if !known {
					bad++
				}
			}
			recSeen = n
		}
		return M{"got": got, "bad": bad}
	}
	hookSeen := 0
	drainHook := func(cur *plSent) (M, int) {
		hook.mu.Lock()
		ms := hook.msgs[hookSeen:]
		hookSeen = len(hook.msgs)
		hook.mu.Unlock()
		got, bad := false, 0
		for _, m := range ms {
			isCur, known := false, false
			if cur != nil && int(m.Header.MsgTypeId) == cur.typ && m.Header.TimestampAbs == cur.ts && bytes.Equal(m.Payload, cur.p) {
				isCur, known = true, true
			} else {
				for i := range sent {
					if int(m.Header.MsgTypeId) == sent[i].typ && m.Header.TimestampAbs == sent[i].ts && bytes.Equal(m.Payload, sent[i].p) {
						known = true
					}
				}
				if w.cfg.Dummy && m.Header.MsgTypeId == 8 && (bytes.Equal(m.Payload, plDummySh) || bytes.Equal(m.Payload, plDummyRaw)) {
					known = true
				}
			}
			if isCur {
				got = true
			}
			if !known {
				bad++
			}
		}
		return M{"got": got, "bad": bad}, len(ms)
	}
	observe := func(cur *plSent, stalled bool, hookN int64) M {
		obs := plDefaultObs()
		obs["stalled"] = stalled
		obs["other"] = w.probe()
		if stalled {
			obs["hookN"] = int(hookN)
			obs["crash"] = "watchdog"
			return obs
		}
		h, n := drainHook(cur)
		obs["hook"], obs["hookN"] = h, n
		if int64(n) < hookN {
			obs["hookN"] = int(hookN)
		}
		if on("recflv") {
			obs["rec"] = drainRec(cur)
		}
		for _, name := range []string{"r0", "f0", "r1", "f1"} {
			if c := cons[name]; c != nil {
				obs[name] = drainCons(c, cur)
			}
		}
		for _, r := range rtspSubs {
			r.advance(0)
		}
		// not judged: has lal left its count-bounded stages (DESCRIBE of the first, parked subscriber answered;
		// PAT/PMT written to the TS recording)?  Compared with the model's stage state as a coverage figure.
		for _, r := range rtspSubs {
			if r.lazy {
				// (the answer itself travels through the session's write queue: ask the session, not the wire)
				r.obs.mu.Lock()
				obs["desc"] = r.obs.sub != nil && r.obs.sub.Stage.Load() != rtsp.SubSessionStageReadDescribe
				r.obs.mu.Unlock()
				break
			}
		}
		if on("rects") {
			files, _ := filepath.Glob(filepath.Join(w.tmp, "ts", stream+"-*.ts"))
			for _, f := range files {
				if fi, err := os.Stat(f); err == nil && fi.Size() > 0 {
					obs["pat"] = true
				}
			}
		}
		return obs
	}
	guarded := func(n int, f func()) bool {
		done := make(chan struct{})
		go func() {
			f()
			close(done)
		}()
		t := time.NewTimer(plBudget(n))
		defer t.Stop()
		select {
		case <-done:
			return false
		case <-t.C:
			return true
		}
	}
	ts := uint32(0)
	// publish sends one message of letter d, tsop after the one before; the caller appends cur to sent once it
	// has observed the step
	publish := func(d *plDef, tsop string) (cur plSent, stalled bool) {
		switch tsop {
		case "z":
			ts = 0
		case "p1":
			ts++
		case "p40":
			ts += 40
		case "hop":
			ts += 3600 * 1000
		case "jump":
			ts += 1 << 31
		case "max":
			ts = 0xffffffff
		case "near":
			ts = 0xfffffe40 // 448 ms before the 32-bit timestamp wraps
		case "dec":
			ts -= 20
		}
		typ := map[string]uint8{"v": base.RtmpTypeIdVideo, "a": base.RtmpTypeIdAudio, "m": base.RtmpTypeIdMetadata}[d.l.T]
		// a message is recognised at the consumers by (type, timestamp, bytes): when the same letter
		// comes back at the same timestamp (e.g. twice "back to 0") the timestamp is moved by 1 ms
		for dup := true; dup; {
			dup = false
			for i := range sent {
				if sent[i].typ == int(typ) && sent[i].ts == ts && bytes.Equal(sent[i].p, d.p) {
					dup = true
					ts++
					break
				}
			}
		}
		csid := map[string]int{"v": 6, "a": 4, "m": 5}[d.l.T]
		p := append([]byte{}, d.p...)
		msg := base.RtmpMsg{Header: base.RtmpHeader{Csid: csid, MsgLen: uint32(len(p)), MsgTypeId: typ, MsgStreamId: 1, TimestampAbs: ts}, Payload: p}
		cur = plSent{typ: int(typ), ts: ts, p: d.p, woSdf: d.p}
		if d.l.T == "m" && bytes.HasPrefix(d.p, plAmfStr("@setDataFrame")) {
			cur.woSdf = d.p[16:]
		}
		stalled = guarded(len(p), func() { g.OnReadRtmpAvMsg(msg) })
		if !stalled {
			// the publisher's read loop reuses its buffer for the next message: what lal keeps must be its own copy
			for i := range p {
				p[i] ^= 0x5a
			}
		}
		return
	}
	for _, st := range sc.Steps {
		switch st.Name {
		case "Join":
			stalled := guarded(0, func() { join("1") })
			emit(M{"ev": "Join", "obs": observe(nil, stalled, 0)})
			if stalled {
				return false
			}
		case "Pub":
			before := atomic.LoadInt64(&hook.n)
			cur, stalled := publish(amap[st.M.Name], st.Ts)
			obs := observe(&cur, stalled, atomic.LoadInt64(&hook.n)-before)
			sent = append(sent, cur)
			emit(M{"ev": "Pub", "m": st.M, "ts": st.Ts, "obs": obs})
			if stalled {
				return false
			}
		case "Stage":
			// the macro of the model, expanded: every message under its own watchdog, one observation at the end
			// (got = the last copy arrived, hookN = messages the hook saw during the whole macro)
			before := atomic.LoadInt64(&hook.n)
			var cur plSent
			stalled, have := false, false
			step := func(d *plDef, tsop string) {
				if have {
					sent = append(sent, cur)
				}
				cur, stalled = publish(d, tsop)
				have = true
			}
			if st.S.Hdr.Name != "" {
				step(amap[st.S.Hdr.Name], "p40")
			}
			for i := 0; i < st.S.K && !stalled; i++ {
				if st.S.J > 0 && st.S.J < st.S.K && i == st.S.J {
					if stalled = guarded(0, func() { join("1") }); stalled {
						break
					}
				}
				step(amap[st.S.M.Name], st.S.Ts)
			}
			obs := observe(&cur, stalled, atomic.LoadInt64(&hook.n)-before)
			sent = append(sent, cur)
			emit(M{"ev": "Stage", "s": st.S, "obs": obs})
			if stalled {
				return false
			}
		}
	}
	stalled := guarded(0, func() {
		sm.OnDelRtmpPubSession(pub)
		for _, c := range cons {
			if c.kind == "rtmp" {
				sm.OnDelRtmpSubSession(c.rs)
			} else {
				sm.OnDelHttpflvSubSession(c.fs)
			}
		}
		for _, t := range tsSubs {
			sm.OnDelHttptsSubSession(t)
		}
		for _, r := range rtspSubs {
			r.cs.Dispose()
			r.closed = true
			r.obs.mu.Lock()
			sub := r.obs.sub
			r.obs.mu.Unlock()
			if sub != nil {
				sm.OnDelRtspSubSession(sub)
				sub.Dispose()
			}
		}
		sm.VerifTick(1)
	})
	w.hooks.Delete(stream)
	// not judged: how far the remuxing consumers got (reported as coverage by the check)
	info := M{"rtspPlaying": 0, "rtspBytes": 0, "tsBytes": 0}
	for _, r := range rtspSubs {
		if r.state == 2 {
			info["rtspPlaying"] = info["rtspPlaying"].(int) + 1
		}
		info["rtspBytes"] = info["rtspBytes"].(int) + r.rtpBytes
	}
	for _, tc := range tsConns {
		out, _ := tc.Drain()
		if k := bytes.Index(out, []byte("\r\n\r\n")); k >= 0 {
			info["tsBytes"] = info["tsBytes"].(int) + len(out) - k - 4
		}
	}
	emit(M{"ev": "End", "obs": observe(nil, stalled, 0), "info": info})
	return !stalled
}

// plSortedNames is used by the alphabet dump test.
func plSortedNames() []string {
	defs, _ := plAlphabet()
	var n []string
	for _, d := range defs {
		n = append(n, d.l.Name)
	}
	sort.Strings(n)
	return n
}

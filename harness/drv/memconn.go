package drv

import (
	"net"
	"sync"
	"time"
)

// MemConn is an in-memory net.Conn: Write appends (and records each call as one write unit),
// Read blocks until data is injected with Feed or the connection is closed.  With lal's
// WriteChanSize = 0 the naza connection writes synchronously, so what a consumer received after
// a call into lal is known deterministically when the call returns.
type MemConn struct {
	mu     sync.Mutex
	cond   *sync.Cond
	out    []byte
	units  []int // length of every Write call
	in     []byte
	closed bool
	Name   string
	// Gate, when non-nil, is called before every Write with the lock released (back-pressure tests).
	Gate func(n int) error
}

func NewMemConn(name string) *MemConn {
	c := &MemConn{Name: name}
	c.cond = sync.NewCond(&c.mu)
	return c
}

type memAddr string

func (a memAddr) Network() string { return "mem" }
func (a memAddr) String() string  { return string(a) }

func (c *MemConn) Read(b []byte) (int, error) {
	c.mu.Lock()
	defer c.mu.Unlock()
	for len(c.in) == 0 && !c.closed {
		c.cond.Wait()
	}
	if len(c.in) == 0 && c.closed {
		return 0, net.ErrClosed
	}
	n := copy(b, c.in)
	c.in = c.in[n:]
	return n, nil
}

func (c *MemConn) Feed(b []byte) {
	c.mu.Lock()
	c.in = append(c.in, b...)
	c.mu.Unlock()
	c.cond.Broadcast()
}

func (c *MemConn) Write(b []byte) (int, error) {
	if c.Gate != nil {
		if err := c.Gate(len(b)); err != nil {
			return 0, err
		}
	}
	c.mu.Lock()
	defer c.mu.Unlock()
	if c.closed {
		return 0, net.ErrClosed
	}
	c.out = append(c.out, b...)
	c.units = append(c.units, len(b))
	return len(b), nil
}

// Drain returns and clears everything written so far together with the write-unit lengths.
func (c *MemConn) Drain() ([]byte, []int) {
	c.mu.Lock()
	defer c.mu.Unlock()
	o, u := c.out, c.units
	c.out, c.units = nil, nil
	return o, u
}

// Units returns the number of Write calls since the last Drain.
func (c *MemConn) Units() int {
	c.mu.Lock()
	defer c.mu.Unlock()
	return len(c.units)
}

func (c *MemConn) Closed() bool {
	c.mu.Lock()
	defer c.mu.Unlock()
	return c.closed
}

func (c *MemConn) Close() error {
	c.mu.Lock()
	c.closed = true
	c.mu.Unlock()
	c.cond.Broadcast()
	return nil
}
func (c *MemConn) LocalAddr() net.Addr                { return memAddr("local") }
func (c *MemConn) RemoteAddr() net.Addr               { return memAddr("10.0.0.1:" + c.Name) }
func (c *MemConn) SetDeadline(t time.Time) error      { return nil }
func (c *MemConn) SetReadDeadline(t time.Time) error  { return nil }
func (c *MemConn) SetWriteDeadline(t time.Time) error { return nil }
